(* C15 : PTS arithmetic lemmas, all by lia over N with uint64 wrap written out. *)
From Gots Require Import Base.Prelude Model.Pts.
Import Pts.
Local Open Scope N_scope.

Notation T33 := 8589934592 (only parsing).

Lemma land_max x : N.land x MaxPtsValue = x mod T33.
Proof. change MaxPtsValue with (N.ones 33). rewrite N.land_ones. reflexivity. Qed.

Lemma ro33 p q : q < T33 -> rolled_over p q = (p <? Lower) && (Upper <? q).
Proof. intros H. unfold rolled_over, NegInf, PosInf.
  assert (E1: (q =? 18446744073709551614) = false) by (apply N.eqb_neq; lia).
  assert (E2: (q =? 18446744073709551615) = false) by (apply N.eqb_neq; lia).
  rewrite E1, E2. reflexivity. Qed.

Lemma rolled_over_iff p q : p < T33 -> q < T33 ->
  (rolled_over p q = true <-> p < 162000000 /\ q > T33 - 1 - 162000000).
Proof. intros Hp Hq. rewrite ro33 by assumption. unfold Lower, Upper.
  destruct (N.ltb_spec p 162000000), (N.ltb_spec 8427934591 q); cbn [andb]; split; intros; try discriminate; try lia; auto. Qed.

Lemma after33 p q : p < T33 -> q < T33 ->
  after p q = if (p <? Lower) && (Upper <? q) then true else if (q <? Lower) && (Upper <? p) then false else q <? p.
Proof. intros Hp Hq. unfold after. rewrite !ro33 by assumption. unfold NegInf, PosInf.
  assert (E1: (q =? 18446744073709551614) = false) by (apply N.eqb_neq; lia).
  assert (E2: (q =? 18446744073709551615) = false) by (apply N.eqb_neq; lia).
  rewrite E1, E2. reflexivity. Qed.

Lemma add_mod p d : p < T33 -> d <= 162000000 -> add p d = (p + d) mod T33.
Proof. intros Hp Hd. unfold add, w64. rewrite land_max.
  rewrite (N.mod_small (p+d)) by lia. reflexivity. Qed.

Lemma add_lt p d : add p d < T33.
Proof. unfold add. rewrite land_max. apply N.mod_lt. discriminate. Qed.

Ltac split_cmp :=
  repeat match goal with
  | |- context [N.ltb ?a ?b] => destruct (N.ltb_spec a b)
  | |- context [N.eqb ?a ?b] => destruct (N.eqb_spec a b)
  end; cbn [andb orb negb].

Lemma add_after p d : p < T33 -> 1 <= d <= 162000000 ->
  after (add p d) p = true /\ after p (add p d) = false.
Proof. intros Hp Hd. pose proof (add_lt p d) as Hl.
  rewrite (after33 (add p d) p), (after33 p (add p d)) by assumption.
  rewrite add_mod in * by lia. set (s := (p + d) mod T33) in *.
  assert (Hs : (p + d < T33 /\ s = p + d) \/ (T33 <= p + d /\ s = p + d - T33)).
  { subst s. destruct (N.lt_ge_cases (p+d) T33) as [H|H]; [left|right]; split; auto.
    - apply N.mod_small; lia.
    - rewrite <- (N.mod_small (p + d - T33) T33) by lia.
      replace (p + d) with ((p + d - T33) + 1 * T33) at 1 by lia. apply N.mod_add. discriminate. }
  unfold Lower, Upper. clearbody s. split; split_cmp; lia. Qed.

Lemma rolled_iff_wrapped p d : p < T33 -> 1 <= d <= 162000000 ->
  (rolled_over (add p d) p = true <-> T33 <= p + d).
Proof. intros Hp Hd. rewrite ro33 by assumption. rewrite add_mod by lia.
  set (s := (p + d) mod T33).
  assert (Hs : (p + d < T33 /\ s = p + d) \/ (T33 <= p + d /\ s = p + d - T33)).
  { subst s. destruct (N.lt_ge_cases (p+d) T33) as [H|H]; [left|right]; split; auto.
    - apply N.mod_small; lia.
    - rewrite <- (N.mod_small (p + d - T33) T33) by lia.
      replace (p + d) with ((p + d - T33) + 1 * T33) at 1 by lia. apply N.mod_add. discriminate. }
  unfold Lower, Upper. clearbody s. split_cmp; split; intros; try discriminate; try lia; auto. Qed.

Lemma sub64_small a b : b <= a -> a < 18446744073709551616 -> sub64 a b = a - b.
Proof. intros H1 H2. unfold sub64, w64. rewrite (N.mod_small b) by lia.
  replace (a + 18446744073709551616 - b) with ((a - b) + 1 * 18446744073709551616) by lia.
  rewrite N.mod_add by discriminate. apply N.mod_small. lia. Qed.

Lemma duration33 p q : p < T33 -> q < T33 ->
  duration_from p q =
    if (p <? Lower) && (Upper <? q) then T33 - q + p else
    if (q <? Lower) && (Upper <? p) then T33 - p + q else
    if p <? q then q - p else p - q.
Proof. intros Hp Hq. unfold duration_from. rewrite !ro33 by assumption. unfold MaxPtsTicks.
  destruct ((p <? Lower) && (Upper <? q)).
  { rewrite sub64_small by lia. unfold w64. apply N.mod_small. lia. }
  destruct ((q <? Lower) && (Upper <? p)).
  { rewrite sub64_small by lia. unfold w64. apply N.mod_small. lia. }
  destruct (N.ltb_spec p q); apply sub64_small; lia. Qed.

Lemma duration_both_orders p d : p < T33 -> 1 <= d <= 162000000 ->
  duration_from (add p d) p = d /\ duration_from p (add p d) = d.
Proof. intros Hp Hd. pose proof (add_lt p d) as Hl.
  rewrite !duration33 by assumption. rewrite add_mod in * by lia.
  set (s := (p + d) mod T33) in *.
  assert (Hs : (p + d < T33 /\ s = p + d) \/ (T33 <= p + d /\ s = p + d - T33)).
  { subst s. destruct (N.lt_ge_cases (p+d) T33) as [H|H]; [left|right]; split; auto.
    - apply N.mod_small; lia.
    - rewrite <- (N.mod_small (p + d - T33) T33) by lia.
      replace (p + d) with ((p + d - T33) + 1 * T33) at 1 by lia. apply N.mod_add. discriminate. }
  unfold Lower, Upper. clearbody s. split; split_cmp; lia. Qed.

Lemma after_trichotomy p q : p < T33 -> q < T33 ->
  (after p q = true /\ after q p = false /\ p <> q) \/
  (after p q = false /\ after q p = true /\ p <> q) \/
  (after p q = false /\ after q p = false /\ p = q).
Proof. intros Hp Hq. rewrite (after33 p q), (after33 q p) by assumption. unfold Lower, Upper.
  split_cmp; lia. Qed.

Lemma after_irrefl p : p < T33 -> after p p = false.
Proof. intros Hp. destruct (after_trichotomy p p Hp Hp) as [H|[H|H]]; intuition congruence. Qed.

Lemma after_asym p q : p < T33 -> q < T33 -> after p q = true -> after q p = false.
Proof. intros Hp Hq H. destruct (after_trichotomy p q Hp Hq) as [H0|[H0|H0]]; intuition congruence. Qed.

Lemma ge_iff p q : greater_or_equal p q = true <-> (after p q = true \/ p = q).
Proof. unfold greater_or_equal. destruct (N.eqb_spec p q); intuition congruence. Qed.

Lemma duration_sym p q : p < T33 -> q < T33 -> duration_from p q = duration_from q p.
Proof. intros Hp Hq. rewrite !duration33 by assumption. unfold Lower, Upper. split_cmp; lia. Qed.

Lemma duration_zero_iff p q : p < T33 -> q < T33 -> (duration_from p q = 0 <-> p = q).
Proof. intros Hp Hq. rewrite !duration33 by assumption. unfold Lower, Upper. split_cmp; lia. Qed.

Lemma after_neg_inf p : p < T33 -> after p NegInf = true.
Proof. intros. reflexivity. Qed.
Lemma not_after_pos_inf p : after p PosInf = false.
Proof. reflexivity. Qed.
