(* C06 L2 (parseTables walks over preceding sections and stops at stuffing) and
   L3 (PmtAccumulatorDoneFunc on every prefix of the complete payload). *)
From Gots Require Import Base.Prelude Model.Psi Model.Pmt Spec.PmtSpec Proofs.PmtBase Proofs.PmtParse.
Import Pmt.
Local Open Scope N_scope.

(* ---------- shape shared by every section: 3-byte header whose 10-bit length announces the rest ---------- *)
Definition wfsb (x : bytes) : Prop :=
  exists b0 b1 b2 body, x = b0 :: b1 :: b2 :: body /\ b0 <> 255 /\
    N.lor (N.shiftl (N.land b1 3) 8) b2 = len body /\ len body < 65000.

Lemma sl_cons3 b0 b1 b2 t : Psi.section_length' (b0 :: b1 :: b2 :: t) = N.lor (N.shiftl (N.land b1 3) 8) b2.
Proof. unfold Psi.section_length'. rewrite !len_cons.
  match goal with |- (if ?c then _ else _) = _ => replace c with false by lia end. reflexivity. Qed.

Lemma wfsb_other o : wf_other o -> wfsb (ser_other o).
Proof. intros (Ht & H2 & H255 & Hh & Hl & Hb). unfold ser_other. cbn [app].
  exists (otid o), (ohi o * 16 + len (obody o) / 256), (len (obody o) mod 256), (obody o).
  repeat split; try assumption; try lia.
  replace (ohi o * 16 + len (obody o) / 256) with ((ohi o * 4) * 4 + len (obody o) / 256) by lia.
  apply field_len10; lia. Qed.
Lemma wfsb_sec s : wf_sec s -> wfsb (ser_sec s).
Proof. intros W. pose proof W as (Hprog & Hver & Hsn & Hln & Hpcr & Hpd & Hpil & Hss & Hsl & Hcrc & Hcb).
  pose proof (section_length_ser_sec0 s Hsl) as SL. pose proof (len_ser_sec s Hcrc) as LS.
  rewrite ser_sec_explicit in *. cbn [app] in *.
  eexists _, _, _, _. split; [reflexivity|]. rewrite sl_cons3 in SL. rewrite !len_cons in LS.
  repeat split; [lia| |]; rewrite ?SL, ?len_cons; lia. Qed.

Lemma ser_pre_concat pre : ser_pre pre = concat (map ser_other pre).
Proof. unfold ser_pre. apply flat_map_concat_map. Qed.
Lemma ser_pre_cons o t : ser_pre (o :: t) = ser_other o ++ ser_pre t.
Proof. reflexivity. Qed.

(* ---------- L2: tables_loop ---------- *)
Lemma repeatN_cons {A} (x : A) n : 0 < n -> repeatN x n = x :: repeatN x (n - 1).
Proof. intros H. unfold repeatN. replace (N.to_nat n) with (S (N.to_nat (n - 1))) by lia. reflexivity. Qed.

Lemma tables_loop_stuffing fuel n p : (0 < fuel)%nat -> tables_loop fuel (repeatN 255 n) p = Ok p.
Proof. intros H. destruct fuel as [|f]; [lia|]. cbn [tables_loop]. rewrite len_repeatN.
  destruct (2 <? n) eqn:E; [|reflexivity].
  rewrite repeatN_cons by lia. reflexivity. Qed.

Lemma tables_loop_other o fuel tail p : wf_other o ->
  tables_loop (S fuel) (ser_other o ++ tail) p = tables_loop fuel tail p.
Proof. intros W. destruct (wfsb_other o W) as (b0 & b1 & b2 & body & E & Hb0 & Hl & Hlb).
  assert (T: b0 = otid o) by (unfold ser_other in E; cbn [app] in E; congruence).
  destruct W as (Ht & H2 & H255 & Hh & Hlen & Hb).
  cbn [tables_loop]. rewrite E. cbn [app]. rewrite sl_cons3, Hl.
  rewrite !len_cons, len_app.
  replace (2 <? 1 + (1 + (1 + (len body + len tail)))) with true by lia.
  change (idx (b0 :: b1 :: b2 :: body ++ tail) 0) with (Ok b0). cbn [bind].
  replace (b0 =? 255) with false by (symmetry; apply N.eqb_neq; exact Hb0).
  replace (1 + (1 + (1 + (len body + len tail))) <? 3 + len body) with false by lia.
  unfold Psi.table_id'. replace (b0 =? 2) with false by (symmetry; apply N.eqb_neq; congruence).
  cbn [bind]. rewrite w16_small by lia.
  change (b0 :: b1 :: b2 :: body ++ tail) with ([b0; b1; b2] ++ body ++ tail). rewrite app_assoc.
  rewrite slice_from_app by (rewrite len_app, !len_cons, len_nil; lia). reflexivity. Qed.

Lemma tables_loop_pre : forall pre fuel tail p, Forall wf_other pre ->
  tables_loop (length pre + fuel) (ser_pre pre ++ tail) p = tables_loop fuel tail p.
Proof. induction pre as [|o t IH]; intros fuel tail p W; [reflexivity|].
  inversion W; subst. rewrite ser_pre_cons, <- app_assoc. cbn [length Nat.add].
  rewrite tables_loop_other by assumption. apply IH. assumption. Qed.

Lemma tables_loop_sec s fuel n p : wf_sec s -> (0 < fuel)%nat ->
  tables_loop (S fuel) (ser_sec s ++ repeatN 255 n) p = Ok (sec_result s).
Proof. intros W HF. destruct (wfsb_sec s W) as (b0 & b1 & b2 & body & E & Hb0 & Hl & Hlb).
  assert (T: b0 = 2) by (rewrite ser_sec_explicit in E; congruence).
  pose proof (parse_section_ok s W) as PS.
  cbn [tables_loop]. rewrite E in *. cbn [app]. rewrite sl_cons3, Hl.
  rewrite !len_cons, len_app.
  replace (2 <? 1 + (1 + (1 + (len body + len (repeatN 255 n))))) with true by lia.
  change (idx (b0 :: b1 :: b2 :: body ++ repeatN 255 n) 0) with (Ok b0). cbn [bind].
  replace (b0 =? 255) with false by (symmetry; apply N.eqb_neq; exact Hb0).
  replace (1 + (1 + (1 + (len body + len (repeatN 255 n)))) <? 3 + len body) with false by lia.
  unfold Psi.table_id'. replace (b0 =? 2) with true by (symmetry; apply N.eqb_eq; exact T).
  rewrite w16_small by lia.
  change (b0 :: b1 :: b2 :: body ++ repeatN 255 n) with ((b0 :: b1 :: b2 :: body) ++ repeatN 255 n).
  rewrite slice_prefix by (rewrite !len_cons; lia). cbn [bind]. rewrite PS. cbn [bind].
  rewrite slice_from_app by (rewrite !len_cons; lia). cbn [bind].
  apply tables_loop_stuffing. exact HF. Qed.

Lemma ser_payload_split c :
  ser_payload c = (pf c :: repeatN 255 (pf c)) ++ ser_pre (pre c) ++ ser_sec (sec c) ++ repeatN 255 (stuffing c).
Proof. unfold ser_payload, ser_unit. cbn [app]. rewrite <- !app_assoc. reflexivity. Qed.
Lemma len_ser_pre_count pre : Forall wf_other pre -> 3 * N.of_nat (length pre) <= len (ser_pre pre).
Proof. induction 1 as [|o t W _ IH]; [cbn; lia|]. rewrite ser_pre_cons, len_app. unfold ser_other. rewrite len_app, !len_cons.
  cbn [length]. lia. Qed.

Theorem parse_tables_ok c : wf_carrier c -> parse_tables (ser_payload c) = Ok (sec_result (sec c)).
Proof. intros (Hpf & Hpre & Hsec). unfold parse_tables.
  rewrite ser_payload_split. set (TAIL := ser_pre (pre c) ++ ser_sec (sec c) ++ repeatN 255 (stuffing c)).
  cbn [Psi.pointer_field app].
  assert (L0: len (pf c :: repeatN 255 (pf c)) = 1 + pf c) by (rewrite len_cons, len_repeatN; reflexivity).
  change (pf c :: repeatN 255 (pf c) ++ TAIL) with ((pf c :: repeatN 255 (pf c)) ++ TAIL).
  rewrite len_app, L0. replace (1 + pf c + len TAIL <? 1 + pf c) with false by lia.
  rewrite slice_from_app by (symmetry; exact L0). cbn [bind].
  pose proof (len_ser_pre_count (pre c) Hpre) as CNT.
  assert (LT: len (ser_pre (pre c)) <= len TAIL) by (unfold TAIL; rewrite len_app; lia).
  set (HEAD := pf c :: repeatN 255 (pf c)) in *.
  assert (exists f, S (length (HEAD ++ TAIL)) = (length (pre c) + S (S f))%nat) as [f Hf].
  { exists (length (HEAD ++ TAIL) - length (pre c) - 1)%nat.
    rewrite app_length. cbn [length]. unfold len in *. lia. }
  rewrite Hf. unfold TAIL. rewrite tables_loop_pre by assumption.
  apply tables_loop_sec; [exact Hsec|lia]. Qed.

(* ---------- L3: the completion predicate on prefixes ---------- *)
Fixpoint boundary (secs : list bytes) (j : N) : bool :=
  match secs with
  | [] => j =? 0
  | x :: t => (j =? 0) || ((len x <=? j) && boundary t (j - len x))
  end.
Lemma boundary_0 secs : boundary secs 0 = true.
Proof. destruct secs; reflexivity. Qed.

Lemma takeN_0 {A} (l : list A) : takeN 0 l = []. Proof. reflexivity. Qed.
Lemma takeN_cons {A} (a : A) l j : 0 < j -> takeN j (a :: l) = a :: takeN (j - 1) l.
Proof. intros H. unfold takeN. replace (N.to_nat j) with (S (N.to_nat (j - 1))) by lia. reflexivity. Qed.
Lemma takeN_app_ge {A} (a b : list A) j : len a <= j -> takeN j (a ++ b) = a ++ takeN (j - len a) b.
Proof. intros H. unfold takeN. rewrite firstn_app. unfold len in *.
  rewrite firstn_all2 by lia. f_equal. f_equal. lia. Qed.
Lemma takeN_app_le {A} (a b : list A) j : j <= len a -> takeN j (a ++ b) = takeN j a.
Proof. intros H. unfold takeN. rewrite firstn_app. unfold len in *.
  replace (N.to_nat j - length a)%nat with O by lia. cbn [firstn]. apply app_nil_r. Qed.

Lemma done_loop_prefix : forall secs fuel j, Forall wfsb secs -> j <= len (concat secs) -> (N.to_nat j < fuel)%nat ->
  done_loop fuel (takeN j (concat secs)) = Ok (boundary secs j).
Proof.
  induction secs as [|x t IH]; intros fuel j W Hj Hf; (destruct fuel as [|fuel]; [lia|]).
  - cbn [concat] in *. rewrite len_nil in Hj. replace j with 0 by lia. reflexivity.
  - inversion W as [|? ? (b0 & b1 & b2 & body & E & Hb0 & Hl & Hlb) W']; subst.
    cbn [concat] in *. cbn [boundary]. rewrite len_app in Hj.
    destruct (N.eq_dec j 0) as [->|J0]; [reflexivity|].
    replace (j =? 0) with false by (symmetry; apply N.eqb_neq; exact J0). cbn [orb].
    set (X := b0 :: b1 :: b2 :: body) in *.
    assert (LX: len X = 3 + len body) by (unfold X; rewrite !len_cons; lia).
    destruct (N.ltb_spec j (len X)) as [Lt|Ge].
    + (* inside the first section *)
      replace (len X <=? j) with false by lia. cbn [andb].
      rewrite takeN_app_le by lia. unfold X. rewrite takeN_cons by lia. cbn [done_loop].
      replace (b0 =? 255) with false by (symmetry; apply N.eqb_neq; exact Hb0).
      rewrite len_cons, len_takeN. rewrite !len_cons.
      destruct (N.ltb_spec j 3) as [J3|J3].
      * replace (1 + N.min (j - 1) (1 + (1 + len body)) <? 3) with true by lia. reflexivity.
      * replace (1 + N.min (j - 1) (1 + (1 + len body)) <? 3) with false by lia.
        rewrite takeN_cons by lia. rewrite takeN_cons by lia. rewrite sl_cons3, Hl.
        replace (1 + N.min (j - 1) (1 + (1 + len body)) <? len body + 3) with true by lia. reflexivity.
    + replace (len X <=? j) with true by lia. cbn [andb].
      rewrite takeN_app_ge by lia. set (R := takeN (j - len X) (concat t)).
      assert (SLX: Psi.section_length' (X ++ R) = len body) by (unfold X; cbn [app]; rewrite sl_cons3; exact Hl).
      unfold X at 1. cbn [app done_loop].
      replace (b0 =? 255) with false by (symmetry; apply N.eqb_neq; exact Hb0).
      change (b0 :: b1 :: b2 :: body ++ R) with (X ++ R). rewrite !SLX.
      rewrite len_app.
      replace (len X + len R <? 3) with false by lia.
      replace (len X + len R <? len body + 3) with false by lia.
      rewrite w16_small by lia.
      rewrite slice_from_app by (rewrite LX; reflexivity). cbn [bind].
      unfold R. apply IH; [assumption|lia|lia].
Qed.

Lemma done_loop_complete : forall secs fuel tail, Forall wfsb secs ->
  (tail = [] \/ exists t, tail = 255 :: t) -> (length secs < fuel)%nat ->
  done_loop fuel (concat secs ++ tail) = Ok true.
Proof.
  induction secs as [|x t IH]; intros fuel tail W Ht Hf; (destruct fuel as [|fuel]; [cbn in Hf; lia|]).
  - cbn [concat app]. destruct Ht as [->|[t' ->]]; reflexivity.
  - inversion W as [|? ? (b0 & b1 & b2 & body & E & Hb0 & Hl & Hlb) W']; subst.
    cbn [concat]. rewrite <- app_assoc. set (R := concat t ++ tail).
    cbn [app done_loop].
    replace (b0 =? 255) with false by (symmetry; apply N.eqb_neq; exact Hb0).
    rewrite sl_cons3, Hl. rewrite !len_cons, len_app.
    replace (1 + (1 + (1 + (len body + len R))) <? 3) with false by lia.
    replace (1 + (1 + (1 + (len body + len R))) <? len body + 3) with false by lia.
    rewrite w16_small by lia.
    change (b0 :: b1 :: b2 :: body ++ R) with ([b0; b1; b2] ++ body ++ R). rewrite app_assoc.
    rewrite slice_from_app by (rewrite len_app, !len_cons, len_nil; lia). cbn [bind].
    apply IH; [assumption|assumption|cbn in Hf; lia].
Qed.

(* done_func on prefixes of  pf :: filler ++ concat secs  (filler of pf bytes) *)
Lemma done_func_prefix secs pfv filler k :
  Forall wfsb secs -> len filler = pfv ->
  k <= len (pfv :: filler ++ concat secs) ->
  done_func (takeN k (pfv :: filler ++ concat secs)) = Ok ((1 + pfv <? k) && boundary secs (k - (1 + pfv))).
Proof. intros W Lf Hk. unfold done_func. rewrite len_takeN.
  rewrite len_cons, len_app, Lf in *.
  destruct (N.eq_dec k 0) as [->|K0]; [rewrite N.min_0_l; replace (1 + pfv <? 0) with false by lia; reflexivity|].
  replace (N.min k (1 + (pfv + len (concat secs))) <? 1) with false by lia.
  rewrite takeN_cons by lia. cbn [Psi.pointer_field].
  destruct (N.ltb_spec (1 + pfv) k) as [Gt|Le].
  - replace (N.min k (1 + (pfv + len (concat secs))) <=? 1 + pfv) with false by lia.
    rewrite takeN_app_ge by lia. rewrite Lf.
    change (pfv :: filler ++ takeN (k - 1 - pfv) (concat secs)) with ((pfv :: filler) ++ takeN (k - 1 - pfv) (concat secs)).
    rewrite slice_from_app by (rewrite len_cons, Lf; reflexivity). cbn [bind andb].
    replace (k - (1 + pfv)) with (k - 1 - pfv) by lia.
    apply done_loop_prefix; [assumption|lia|].
    rewrite app_length. cbn [length]. unfold takeN. rewrite firstn_length. unfold len in *. lia.
  - replace (N.min k (1 + (pfv + len (concat secs))) <=? 1 + pfv) with true by lia. reflexivity.
Qed.

Lemma done_func_complete secs pfv filler n :
  Forall wfsb secs -> secs <> [] -> len filler = pfv ->
  done_func (pfv :: filler ++ concat secs ++ repeatN 255 n) = Ok true.
Proof. intros W NE Lf. unfold done_func. rewrite len_cons. replace (1 + _ <? 1) with false by lia.
  cbn [Psi.pointer_field]. rewrite !len_app, Lf.
  assert (0 < len (concat secs)).
  { destruct secs as [|x t]; [congruence|]. inversion W as [|? ? (c0 & c1 & c2 & bd & E & _) _]; subst.
    cbn [concat]. rewrite len_app, !len_cons. lia. }
  replace (1 + (pfv + (len (concat secs) + len (repeatN 255 n))) <=? 1 + pfv) with false by lia.
  change (pfv :: filler ++ concat secs ++ repeatN 255 n) with ((pfv :: filler) ++ concat secs ++ repeatN 255 n).
  rewrite slice_from_app by (rewrite len_cons, Lf; reflexivity). cbn [bind].
  apply done_loop_complete; [assumption| |].
  - destruct (N.eq_dec n 0) as [->|NZ]; [left; reflexivity|right]. rewrite repeatN_cons by lia. eexists; reflexivity.
  - rewrite !app_length.
    assert (forall l : list bytes, Forall wfsb l -> (length l <= length (concat l))%nat) as CNT.
    { induction 1 as [|y l (c0 & c1 & c2 & bd & E & _) _ IHl]; [cbn; lia|]. subst. cbn [concat length]. rewrite app_length. cbn [length]. lia. }
    pose proof (CNT secs W). cbn [length]. lia.
Qed.

(* ---------- L3 for carriers ---------- *)
Definition carrier_secs (c : carrier) : list bytes := map ser_other (pre c) ++ [ser_sec (sec c)].
Lemma carrier_secs_wf c : wf_carrier c -> Forall wfsb (carrier_secs c).
Proof. intros (Hpf & Hpre & Hsec). unfold carrier_secs. apply Forall_app. split.
  - apply Forall_map. eapply Forall_impl; [|exact Hpre]. intros o. apply wfsb_other.
  - constructor; [apply wfsb_sec; exact Hsec|constructor]. Qed.
Lemma carrier_secs_concat c : concat (carrier_secs c) = ser_pre (pre c) ++ ser_sec (sec c).
Proof. unfold carrier_secs. rewrite concat_app, <- ser_pre_concat. cbn [concat]. rewrite app_nil_r. reflexivity. Qed.
Lemma ser_unit_split c : ser_unit c = pf c :: repeatN 255 (pf c) ++ concat (carrier_secs c).
Proof. rewrite carrier_secs_concat. reflexivity. Qed.

Lemma boundary_iff : forall pre SS j, 0 < j < len (ser_pre pre ++ SS) ->
  (boundary (map ser_other pre ++ [SS]) j = true <->
   exists i, (1 <= i <= length pre)%nat /\ j = len (ser_pre (firstn i pre))).
Proof.
  induction pre as [|o t IH]; intros SS j Hj.
  - cbn [map app boundary ser_pre flat_map] in *. cbn [app] in Hj.
    replace (j =? 0) with false by lia. replace (len SS <=? j) with false by lia. cbn [orb andb].
    split; [discriminate|]. intros (i & Hi & _). cbn in Hi. lia.
  - cbn [map app boundary]. rewrite ser_pre_cons, <- app_assoc, len_app in Hj.
    replace (j =? 0) with false by lia. cbn [orb].
    split.
    + intros B. apply andb_true_iff in B. destruct B as [B1 B2]. apply N.leb_le in B1.
      destruct (N.eq_dec j (len (ser_other o))) as [E|NE].
      * exists 1%nat. split; [cbn [length]; lia|]. cbn [firstn]. rewrite ser_pre_cons. cbn [ser_pre flat_map]. rewrite app_nil_r. exact E.
      * apply IH in B2; [|lia]. destruct B2 as (i & Hi & Ej). exists (S i). split; [cbn [length]; lia|].
        cbn [firstn]. rewrite ser_pre_cons, len_app. lia.
    + intros (i & Hi & Ej). destruct i as [|i]; [lia|]. cbn [firstn] in Ej. rewrite ser_pre_cons, len_app in Ej.
      apply andb_true_iff. split; [apply N.leb_le; lia|].
      replace (j - len (ser_other o)) with (len (ser_pre (firstn i t))) by lia.
      destruct (N.eq_dec (len (ser_pre (firstn i t))) 0) as [Z|NZ]; [rewrite Z; apply boundary_0|].
      apply IH; [lia|]. exists i. split; [|reflexivity]. cbn [length] in Hi.
      destruct i as [|i]; [cbn in NZ; congruence|]. lia.
Qed.

Theorem done_prefix c k : wf_carrier c -> k < len (ser_unit c) ->
  exists b, done_func (takeN k (ser_unit c)) = Ok b /\ (b = true <-> inner_end c k).
Proof. intros W Hk. pose proof (carrier_secs_wf c W) as WS.
  rewrite ser_unit_split in *.
  rewrite done_func_prefix; [|exact WS|apply len_repeatN|lia].
  eexists. split; [reflexivity|].
  rewrite len_cons, len_app, len_repeatN, carrier_secs_concat in Hk.
  destruct (N.ltb_spec (1 + pf c) k) as [Gt|Le]; cbn [andb].
  - unfold carrier_secs. rewrite boundary_iff by lia. unfold inner_end.
    split; intros (i & Hi & E); exists i; (split; [exact Hi|lia]).
  - split; [discriminate|]. intros (i & Hi & E). destruct i as [|i]; [lia|].
    destruct (pre c) as [|o t]; [cbn in Hi; lia|]. cbn [firstn] in E. rewrite ser_pre_cons, len_app in E.
    unfold ser_other in E. rewrite len_app, !len_cons in E. lia.
Qed.

Theorem done_complete c : wf_carrier c -> done_func (ser_payload c) = Ok true.
Proof. intros W. pose proof (carrier_secs_wf c W) as WS. unfold ser_payload. rewrite ser_unit_split.
  cbn [app]. rewrite <- app_assoc.
  apply done_func_complete; [exact WS| |apply len_repeatN].
  unfold carrier_secs. destruct (map ser_other (pre c)); discriminate. Qed.
