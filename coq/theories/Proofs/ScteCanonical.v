(* C09: re-encoding a decoded canonical section reproduces it byte for byte. *)
From Gots Require Import Base.Prelude Model.Pts Model.Scte Model.ScteEnc Spec.Scte35Spec
  Proofs.ScteLemmas Proofs.ScteExpected Proofs.ScteLogical Proofs.ScteDecode Proofs.ScteEncode Proofs.ScteRoundtrip.
Import Scte ScteEnc Scte35Spec.
Local Open Scope N_scope.
Arguments N.mul : simpl never. Arguments N.add : simpl never. Arguments N.div : simpl never.
Arguments N.modulo : simpl never. Arguments N.land : simpl never. Arguments N.shiftr : simpl never.
Arguments N.sub : simpl never. Arguments N.ltb : simpl never. Arguments N.eqb : simpl never.
Arguments N.leb : simpl never.

Definition is_seg (d : descriptor) : Prop := match d with Seg _ _ => True | Foreign _ _ => False end.
(* the sections the encoder can have produced: what the library supports, sap_type 3, exact splice_command_length,
   no alignment stuffing, foreign descriptors before the segmentation descriptors, 10-bit section_length,
   CRC_32 = ComputeCRC of the preceding bytes *)
Definition canonical (s : splice_info) : Prop :=
  supported s /\ si_sap s = 3 /\ si_legacy_len s = false /\ si_stuffing s = [] /\
  si_protocol s < 256 /\ si_cw s < 256 /\
  (exists fs segs, si_descs s = fs ++ segs /\ Forall is_foreign fs /\ Forall is_seg segs) /\
  section_length s < 1024 /\ si_crc s = crc_reg (ser_section_nocrc s).

(* ---- logical . expected = id ---- *)
Lemma map_map_id {A B} (f : A -> B) (g : B -> A) l : (forall x, g (f x) = x) -> map g (map f l) = l.
Proof. intros H. rewrite map_map. induction l as [|x l IH]; cbn [map]; [reflexivity|]. rewrite H, IH. reflexivity. Qed.

Lemma logical_expected_cmd c : supported_cmd c -> logical_cmd (expected_cmd c) = c.
Proof.
  destruct c as [|t|eid [b|]|ty body]; cbn [supported_cmd expected_cmd logical_cmd]; intros Hs; try reflexivity; try contradiction.
  - destruct t; [reflexivity|congruence].
  - destruct b as [out mode brk up an ae]. cbn [ib_mode] in Hs.
    unfold expected_insert, logical_mode.
    cbn [ib_out ib_mode ib_break ib_unique_program_id ib_avail_num ib_avails_expected
         i_event_id i_cancel i_out i_program i_immediate i_has_pts i_pts i_components i_has_duration i_duration
         i_auto_return i_unique_program_id i_avail_num i_avails_expected].
    f_equal. f_equal.
    assert (Hbrk : (if match brk with Some _ => true | None => false end
                    then Some (match brk with Some (a, _) => a | None => false end, match brk with Some (_, d) => d | None => 0 end)
                    else None) = brk) by (destruct brk as [[a d]|]; reflexivity).
    rewrite Hbrk.
    destruct mode as [|t|tags|cs]; cbn [mode_program mode_immediate mode_time expected_comps st_has st_val].
    + reflexivity.
    + destruct t; [reflexivity|congruence].
    + rewrite map_map_id by reflexivity. reflexivity.
    + rewrite map_map_id; [reflexivity|]. intros [tag [p|]]; reflexivity.
Qed.

Lemma logical_expected_seg eid body : wf_descriptor (Seg eid body) ->
  logical_seg (expected_seg (Some 1) eid body) = Seg eid body.
Proof.
  destruct body as [b|]; [|reflexivity]. cbn [wf_descriptor]. intros (He & Hb & Hl).
  destruct b as [comps dur restr up ty num ex sub].
  destruct Hb as (Hc & Hd & Hr & Hu & Hty & Hnum & Hex & Hsub).
  cbn [sb_comps sb_duration sb_restr sb_upid sb_type sb_num sb_expected sb_sub] in *.
  unfold logical_seg, expected_seg, logical_upid.
  cbn [sb_comps sb_duration sb_restr sb_upid sb_type sb_num sb_expected sb_sub
       d_type d_event_id d_has_duration d_duration d_upid_type d_upid d_mid d_seg_num d_segs_expected d_sub_seg_num
       d_sub_segs_expected d_owner d_cancel d_dnr d_has_sub d_program_seg d_web d_noblackout d_archive d_device d_components].
  f_equal. f_equal. f_equal.
  - destruct comps as [cs|]; [|reflexivity]. rewrite map_map_id; [reflexivity|]. intros [a b]; reflexivity.
  - destruct dur; reflexivity.
  - destruct restr as [[[[w n] a] d]|]; reflexivity.
  - destruct up as [uty bs|l]; cbn [wf_upid] in Hu.
    + destruct Hu as (_ & Hne & _). replace (uty =? SegUPIDMID) with false by (symmetry; apply N.eqb_neq; exact Hne). reflexivity.
    + change (13 =? SegUPIDMID) with true. cbn match. unfold expected_mid. rewrite map_map_id; [reflexivity|]. intros [a b]; reflexivity.
  - destruct sub as [[x y]|]; [|rewrite andb_false_r; reflexivity].
    destruct Hsub as (_ & _ & [-> | ->]); reflexivity.
Qed.

Lemma logical_expected_descs fs segs : Forall is_foreign fs -> Forall is_seg segs -> Forall wf_descriptor segs ->
  map logical_seg (expected_descs 1 (fs ++ segs)) = segs /\ expected_other (fs ++ segs) = ser_descriptors fs.
Proof.
  intros Hf Hs Hw. induction fs as [|f fs IH].
  - cbn [app]. clear Hf. induction segs as [|d segs IH]; [split; reflexivity|].
    inversion Hs as [|? ? Hd Hs']; inversion Hw as [|? ? Hwd Hw']; subst.
    destruct d as [eid body|]; [|contradiction]. cbn [expected_descs expected_other map].
    destruct (IH Hs' Hw') as [I1 I2]. rewrite I1, I2, logical_expected_seg by assumption. split; reflexivity.
  - inversion Hf as [|? ? Hd Hf']; subst. destruct f as [|tag body]; [contradiction|].
    cbn [app expected_descs expected_other]. destruct (IH Hf') as [I1 I2]. rewrite I1, I2.
    split; [reflexivity|]. unfold ser_descriptors. cbn [flat_map]. reflexivity.
Qed.

Lemma subtract_add t adj : t < 8589934592 -> adj < 8589934592 ->
  subtract_pts ((t + adj) mod 8589934592) t = adj.
Proof.
  intros Ht Ha. unfold subtract_pts. destruct (N.leb_spec t ((t + adj) mod 8589934592)); [lia|].
  unfold sub64, w64. lia.
Qed.

(* ---- expected s is a normal encoder state ---- *)
Lemma normal_expected_cmd c : wf_command c -> supported_cmd c -> normal_cmd (expected_cmd c).
Proof.
  destruct c as [|t|eid [b|]|ty body]; cbn [wf_command supported_cmd expected_cmd normal_cmd]; intros Hw Hs; try exact I; try contradiction.
  - destruct t as [p|]; [|congruence]. cbn [st_has st_val wf_stime] in *. intros _. assumption.
  - destruct Hw as [He Hb]. destruct b as [out mode brk up an ae].
    destruct Hb as (Hm & Hbrk & Hup & Han & Hae).
    cbn [ib_mode ib_break ib_unique_program_id ib_avail_num ib_avails_expected] in *.
    unfold normal_insert, expected_insert.
    cbn [ib_out ib_mode ib_break ib_unique_program_id ib_avail_num ib_avails_expected
         i_event_id i_cancel i_out i_program i_immediate i_has_pts i_pts i_components i_has_duration i_duration
         i_auto_return i_unique_program_id i_avail_num i_avails_expected].
    split; [exact He|]. intros _.
    assert (Hd : (match brk with Some _ => true | None => false end) = true -> (match brk with Some (_, d) => d | None => 0 end) < 8589934592)
      by (destruct brk as [[a d]|]; intros; [assumption|discriminate]).
    destruct mode as [|t|tags|cs]; cbn [mode_program mode_immediate mode_time expected_comps st_has st_val wf_mode] in *.
    + repeat split; intros; try discriminate; try assumption. apply Hd; assumption.
    + destruct t as [p|]; [|congruence]. cbn [wf_stime st_has st_val] in *.
      repeat split; intros; try discriminate; try assumption; try reflexivity. apply Hd; assumption.
    + destruct Hm as [Hb Hl]. repeat split; intros; try discriminate; try assumption; try (apply Hd; assumption).
      * apply Forall_map. eapply Forall_impl; [|exact Hb]. intros x Hx. split; [exact Hx|]. intros; discriminate.
      * rewrite len_map'. assumption.
    + destruct Hm as [Hb Hl]. repeat split; intros; try discriminate; try assumption; try (apply Hd; assumption).
      * apply Forall_map. rewrite Forall_forall in *. intros [tag t] Hin.
        specialize (Hb _ Hin). cbn [fst snd] in *. destruct Hb as [H1 H2].
        split; [exact H1|]. intros _. destruct t as [p|]; cbn [st_has st_val wf_stime] in *; intros; [assumption|discriminate].
      * rewrite len_map'. assumption.
  - unfold normal_insert, expected_insert. cbn. split; [exact Hw|]. intros; discriminate.
Qed.

Lemma len_mid_expected l : flat_map mid_elem_data (expected_mid l) = flat_map ser_upid_elem l ->
  len (flat_map mid_elem_data (expected_mid l)) = len (flat_map ser_upid_elem l).
Proof. intros ->. reflexivity. Qed.

Lemma mid_expected_bytes l : Forall (fun e => fst e < 256 /\ is_bytes (snd e) /\ len (snd e) < 256) l ->
  Forall (fun u => u_type u < 256 /\ u_len u = len (u_upid u) /\ len (u_upid u) < 256 /\ is_bytes (u_upid u)) (expected_mid l)
  /\ flat_map mid_elem_data (expected_mid l) = flat_map ser_upid_elem l.
Proof.
  intros H. assert (F : Forall (fun u => u_type u < 256 /\ u_len u = len (u_upid u) /\ len (u_upid u) < 256 /\ is_bytes (u_upid u)) (expected_mid l)).
  { unfold expected_mid. apply Forall_map. eapply Forall_impl; [|exact H]. intros [a b] (H1 & H2 & H3). cbn [fst snd u_type u_len u_upid]. auto. }
  split; [exact F|]. rewrite (mid_data_ser _ F). unfold expected_mid. rewrite map_map_id; [reflexivity|]. intros [a b]; reflexivity.
Qed.

Lemma normal_gen_expected_seg eid body : wf_descriptor (Seg eid body) ->
  normal_desc_gen True (expected_seg (Some 1) eid body).
Proof.
  destruct body as [b|]; cbn [wf_descriptor].
  2:{ intros He. unfold normal_desc_gen, expected_seg. cbn. split; [exact He|]. intros; discriminate. }
  intros (He & Hb & Hl). destruct b as [comps dur restr up ty num ex sub].
  destruct Hb as (Hc & Hd & Hr & Hu & Hty & Hnum & Hex & Hsub).
  cbn [sb_comps sb_duration sb_restr sb_upid sb_type sb_num sb_expected sb_sub] in *.
  unfold normal_desc_gen, expected_seg.
  cbn [sb_comps sb_duration sb_restr sb_upid sb_type sb_num sb_expected sb_sub
       d_type d_event_id d_has_duration d_duration d_upid_type d_upid d_mid d_seg_num d_segs_expected d_sub_seg_num
       d_sub_segs_expected d_owner d_cancel d_dnr d_has_sub d_program_seg d_web d_noblackout d_archive d_device d_components].
  split; [exact He|]. intros _.
  assert (Hcomps : match comps with Some cs => Forall (fun c => co_tag c < 256 /\ co_off c < 8589934592) (map (fun c => mkco (fst c) (snd c)) cs)
                                              /\ len (map (fun c : N * N => mkco (fst c) (snd c)) cs) < 256 | None => True end).
  { destruct comps as [cs|]; [|exact I]. destruct Hc as [Hcs Hn]. split; [|rewrite len_map'; exact Hn].
    apply Forall_map. eapply Forall_impl; [|exact Hcs]. intros [a b] H'. exact H'. }
  destruct up as [uty bs|l]; cbn [wf_upid] in Hu.
  - destruct Hu as (Hu1 & Hu2 & Hu3 & Hu4).
    destruct comps as [cs|], dur as [d|], restr as [[[[w n] a] dv]|], sub as [[x y]|];
      repeat split; intros; try discriminate; try assumption; try reflexivity; try exact I; try lia;
      try (exfalso; unfold SegUPIDMID in *; congruence); try apply Hcomps; try apply Hsub.
  - destruct Hu as [Hl1 Hl2]. destruct (mid_expected_bytes l Hl1) as [F E].
    destruct comps as [cs|], dur as [d|], restr as [[[[w n] a] dv]|], sub as [[x y]|];
      repeat split; intros; try discriminate; try assumption; try reflexivity; try exact I; try lia;
      try (exfalso; unfold SegUPIDMID in *; congruence); try apply Hcomps; try apply Hsub; try (rewrite E; exact Hl2);
      try (cbn; lia); try constructor.
Qed.

Lemma normal_expected_seg eid body : wf_descriptor (Seg eid body) -> normal_desc (expected_seg (Some 1) eid body).
Proof.
  intros Hw. pose proof (normal_gen_expected_seg eid body Hw) as G.
  pose proof (logical_expected_seg eid body Hw) as L.
  set (d := expected_seg (Some 1) eid body) in *.
  assert (Hlen : len (seg_data d) < 258).
  { unfold seg_data. rewrite !len_cons.
    assert (Hp : to_be32 segDescID ++ to_be32 (d_event_id d) ++ (if d_cancel d then [255] else 127 :: seg_event_data d)
                 = ser_desc_payload (Seg eid body)).
    { destruct body as [b|]; [|reflexivity]. cbn [ser_desc_payload].
      assert (Hc : d_cancel d = false) by reflexivity. rewrite Hc.
      rewrite (seg_event_data_ser True d b G Hc L). reflexivity. }
    rewrite Hp. destruct body as [b|]; cbn [wf_descriptor] in Hw.
    - destruct Hw as (_ & _ & Hl). lia.
    - cbn [ser_desc_payload]. rewrite !len_app, !len_to_be32. cbn. lia. }
  unfold normal_desc. unfold normal_desc_gen in *. destruct G as [G1 G2]. split; [exact G1|]. intros Hc.
  specialize (G2 Hc). tauto.
Qed.

Lemma normal_expected_descs ds : Forall wf_descriptor ds -> Forall normal_desc (expected_descs 1 ds).
Proof.
  induction ds as [|[eid body|tag fb] ds IH]; intros H; cbn [expected_descs]; inversion H; subst; auto.
  constructor; [apply normal_expected_seg; assumption|auto].
Qed.

Lemma cmd_type_expected c : supported_cmd c -> command_type c = cmd_type (expected_cmd c).
Proof. destruct c; cbn; intros; try reflexivity; contradiction. Qed.
Lemma cmd_pts_expected c : cmd_pts (expected_cmd c) = st_val (cmd_time c).
Proof. destruct c as [|t|eid [b|]|ty body]; reflexivity. Qed.
Lemma cmd_time_lt c : wf_command c -> supported_cmd c -> st_val (cmd_time c) < 8589934592.
Proof.
  destruct c as [|t|eid [b|]|ty body]; cbn [wf_command supported_cmd cmd_time st_val]; intros Hw Hs; try lia.
  - destruct t; cbn in *; lia.
  - destruct Hw as [_ (Hm & _)]. destruct (ib_mode b) as [|[p|]| |]; cbn in *; lia.
Qed.

Theorem encode_decode_canonical s : canonical s ->
  new_scte35 (ser_splice_info s) = Ok (expected s) /\ fst (update_data (expected s)) = ser_section s.
Proof.
  intros (Hsup & Hsap & Hleg & Hstuff & Hpv & Hcw & (fs & segs & Hdescs & Hfs & Hsegs) & Hsl & Hcrc).
  split; [apply decode_ser; exact Hsup|].
  pose proof Hsup as ((Hsap' & Hea & Hadj & Htier & Hcmd & Hcl & Hds & Hdl & Hsl') & Htid & Henc & Hptr & Hsc).
  assert (Hwsegs : Forall wf_descriptor segs).
  { rewrite Hdescs in Hds. apply Forall_app in Hds. apply Hds. }
  destruct (logical_expected_descs fs segs Hfs Hsegs Hwsegs) as [LD LO].
  assert (Hpts : expected_pts s < 8589934592).
  { unfold expected_pts. destruct (si_cmd s); lia. }
  assert (Hsub : subtract_pts (expected_pts s) (cmd_pts (expected_cmd (si_cmd s))) = si_pts_adj s).
  { rewrite cmd_pts_expected. unfold expected_pts. pose proof (cmd_time_lt _ Hcmd Hsc) as Ht.
    destruct (si_cmd s) as [|t|eid b|ty body] eqn:Ec.
    - unfold subtract_pts. cbn [st_val cmd_time]. replace (0 <=? si_pts_adj s) with true by (symmetry; apply N.leb_le; lia). lia.
    - apply subtract_add; assumption.
    - apply subtract_add; assumption.
    - destruct Hsc. }
  (* the logical record of the decoded struct is s itself (up to the pointer filler) *)
  assert (HL0 : ser_section_nocrc (logical0 fs (expected s)) = ser_section_nocrc s).
  { unfold ser_section_nocrc, ser_header, ser_body, section_length, ser_body, cmd_len_field, logical0, expected.
    cbn [s_tid s_ssi s_pi s_protocol s_encrypted s_enc_alg s_pts s_cmd s_cw s_tier s_descs s_stuffing
         si_table_id si_ssi si_private si_sap si_protocol si_encrypted si_enc_alg si_pts_adj si_cw si_tier
         si_legacy_len si_cmd si_descs si_stuffing].
    rewrite Hsub, logical_expected_cmd by assumption. rewrite Hdescs, LD, <- Hdescs.
    rewrite Hsap, Hleg, Hstuff, Henc. reflexivity. }
  assert (Hn : normal fs (expected s)).
  { unfold normal, expected.
    cbn [s_tid s_protocol s_enc_alg s_cw s_tier s_pts s_cmd s_cmd_type s_descs s_other s_stuffing].
    rewrite Htid. repeat split; try assumption; try lia.
    - rewrite cmd_pts_expected. apply cmd_time_lt; assumption.
    - apply cmd_type_expected. assumption.
    - apply normal_expected_cmd; assumption.
    - apply normal_expected_descs. assumption.
    - rewrite Hdescs. exact LO.
    - rewrite cmd_data_ser by (apply normal_expected_cmd; assumption).
      rewrite logical_expected_cmd by assumption.
      rewrite descs_data_ser by (apply normal_expected_descs; assumption).
      rewrite Hdescs at 1 2. rewrite LO, LD, <- ser_descriptors_app, <- Hdescs.
      unfold section_length in Hsl. rewrite len_ser_body' in Hsl. rewrite Hstuff in Hsl. cbn [len length] in Hsl.
      rewrite len_nil in Hsl. lia. }
  rewrite (encode_canonical fs (expected s) Hn). unfold logical, ser_section.
  rewrite nocrc_with_crc. cbn [si_crc with_crc]. rewrite HL0, <- Hcrc. reflexivity.
Qed.
