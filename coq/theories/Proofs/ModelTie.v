(* Model tie: where the same Go function was transcribed more than once (the models were written in parallel), the
   transcriptions are proved equal on the domain where both apply, so that a theorem about one copy is a theorem about
   the other.  The table of duplicates is notes/model-duplicates.md; statements are collected in Properties/ModelTie.v.

   Domains: a *Packet is a [188]byte, so packet accessors are compared on `length p = 188`; the adaptation-field
   primitives, the PSI helpers and the time-stamp readers are compared on ALL lists unless a hypothesis says otherwise.
   The Res-returning copies (idx = checked index) answer `Ok (total copy)`: on a 188-byte array no index can panic. *)
From Gots Require Import Base.Prelude Base.NRange Model.Pts Model.Packet Model.AF Model.AFfn Model.Psi Model.Pat Model.Pmt Model.Pes
  Model.Accumulator Model.Create Model.Scte Model.ScteEnc Model.IO Proofs.PmtBase Proofs.PmtTotal.
Local Open Scope N_scope.

Lemma len188 (p : bytes) : length p = 188%nat -> len p = 188.
Proof. intros H. unfold len. rewrite H. reflexivity. Qed.

Ltac idx188 H := repeat (rewrite idx_nthN by (rewrite (len188 _ H); lia)); cbn [bind].

(* ================================================================== packet/packet.go *)
Section PacketAccessors.
Variable p : bytes.
Hypothesis H : length p = 188%nat.

(* PayloadUnitStartIndicator *)
Lemma pusi_accumulator : Accumulator.pusi p = Ok (Packet.PayloadUnitStartIndicator_fn p).
Proof. unfold Accumulator.pusi. idx188 H. reflexivity. Qed.
Lemma pusi_pmt : Pmt.pkt_pusi p = Ok (Packet.PayloadUnitStartIndicator_fn p).
Proof. unfold Pmt.pkt_pusi. idx188 H. reflexivity. Qed.
(* Pid *)
Lemma pid_pat : Pat.PatPkt.pid p = Ok (Packet.Pid_fn p).
Proof. unfold Pat.PatPkt.pid. idx188 H. reflexivity. Qed.
Lemma pid_pmt : Pmt.pkt_pid p = Ok (Packet.Pid_fn p).
Proof. unfold Pmt.pkt_pid. idx188 H. reflexivity. Qed.
Lemma is_pat_pat : Pat.PatPkt.is_pat p = Ok (Packet.IsPat_fn p).
Proof. unfold Pat.PatPkt.is_pat. rewrite pid_pat. reflexivity. Qed.
(* ContainsPayload *)
Lemma contains_payload_pat : Pat.PatPkt.contains_payload p = Ok (Packet.ContainsPayload p).
Proof. unfold Pat.PatPkt.contains_payload. idx188 H. reflexivity. Qed.
Lemma contains_payload_pmt : Pmt.pkt_has_payload p = Ok (Packet.ContainsPayload p).
Proof. unfold Pmt.pkt_has_payload. idx188 H. reflexivity. Qed.
Lemma contains_payload_accumulator : Accumulator.contains_payload p = Ok (Packet.ContainsPayload p).
Proof. unfold Accumulator.contains_payload. idx188 H. reflexivity. Qed.
(* ContainsAdaptationField *)
Lemma contains_af_pat : Pat.PatPkt.contains_adaptation_field p = Ok (Packet.ContainsAdaptationField p).
Proof. unfold Pat.PatPkt.contains_adaptation_field. idx188 H. reflexivity. Qed.
Lemma contains_af_pmt : Pmt.pkt_has_af p = Ok (Packet.ContainsAdaptationField p).
Proof. unfold Pmt.pkt_has_af. idx188 H. reflexivity. Qed.
Lemma contains_af_accumulator : Accumulator.contains_af p = Ok (Packet.ContainsAdaptationField p).
Proof. unfold Accumulator.contains_af. idx188 H. reflexivity. Qed.
(* payloadStart *)
Lemma payload_start_pat : Pat.PatPkt.payload_start p = Ok (Packet.payloadStart_fn p).
Proof. unfold Pat.PatPkt.payload_start, Packet.payloadStart_fn. rewrite contains_af_pat. cbn [bind].
  destruct (Packet.ContainsAdaptationField p); [|reflexivity]. idx188 H. unfold Packet.get. f_equal. lia. Qed.
Lemma payload_start_pmt : Pmt.payload_start p = Ok (Packet.payloadStart_fn p).
Proof. unfold Pmt.payload_start, Packet.payloadStart_fn. rewrite contains_af_pmt. cbn [bind].
  destruct (Packet.ContainsAdaptationField p); [|reflexivity]. idx188 H. unfold Packet.get. f_equal. lia. Qed.
Lemma payload_start_accumulator : Accumulator.payload_start p = Ok (Packet.payloadStart_fn p).
Proof. unfold Accumulator.payload_start, Packet.payloadStart_fn. rewrite contains_af_accumulator. cbn [bind].
  destruct (Packet.ContainsAdaptationField p); [|reflexivity]. idx188 H. reflexivity. Qed.

(* Payload: `start > PacketSize` / `packet[start:]` on the array versus `start > len` / `[start:]` on the list *)
Lemma payload_tail start : (if len p <? start then Err E.InvalidPacketLength else slice_from p start) =
  (if Packet.PacketSize <? start then Err E.InvalidPacketLength else slice p start Packet.PacketSize).
Proof. unfold slice_from, Packet.PacketSize. rewrite (len188 _ H). reflexivity. Qed.
Lemma payload_pat : Pat.PatPkt.payload p = Packet.Payload_fn p.
Proof. unfold Pat.PatPkt.payload, Packet.Payload_fn. rewrite contains_payload_pat. cbn [bind].
  destruct (negb (Packet.ContainsPayload p)); [reflexivity|]. rewrite payload_start_pat. cbn [bind]. apply payload_tail. Qed.
Lemma payload_pmt : Pmt.pkt_payload p = Packet.Payload_fn p.
Proof. unfold Pmt.pkt_payload, Packet.Payload_fn. rewrite contains_payload_pmt. cbn [bind].
  destruct (negb (Packet.ContainsPayload p)); [reflexivity|]. rewrite payload_start_pmt. cbn [bind]. apply payload_tail. Qed.
Lemma payload_pes : Pes.pkt_payload p = Packet.Payload_fn p.
Proof. unfold Pes.pkt_payload, Packet.Payload_fn.
  change (Pes.pkt_contains_payload p) with (Packet.ContainsPayload p).
  destruct (negb (Packet.ContainsPayload p)); [reflexivity|].
  change (Pes.pkt_payload_start p) with (Packet.payloadStart_fn p). apply payload_tail. Qed.
(* accumulator.go receives ([]byte, error) as a sum *)
Definition sum_of_res (r : Res bytes) : Res (bytes + N) :=
  match r with Ok b => Ok (inl b) | Err e => Ok (inr e) | Panic => Panic | Diverge => Diverge end.
Lemma payload_accumulator : Accumulator.payload p = sum_of_res (Packet.Payload_fn p).
Proof. unfold Accumulator.payload, Packet.Payload_fn. rewrite contains_payload_accumulator. cbn [bind].
  destruct (negb (Packet.ContainsPayload p)); [reflexivity|]. rewrite payload_start_accumulator. cbn [bind].
  rewrite <- payload_tail. destruct (len p <? Packet.payloadStart_fn p); [reflexivity|].
  unfold slice_from, slice. destruct ((_ <=? _) && (_ <=? _)); reflexivity. Qed.

(* Header *)
Lemma header_pmt : Pmt.pkt_header p = Packet.Header p.
Proof. unfold Pmt.pkt_header, Packet.Header. rewrite payload_start_pmt. cbn [bind].
  unfold Packet.PacketSize. rewrite (len188 _ H). reflexivity. Qed.
(* PESHeader *)
Lemma pes_header_pes : Pes.pkt_pes_header p = Packet.PESHeader p.
Proof. unfold Pes.pkt_pes_header, Packet.PESHeader.
  change (Pes.pkt_pusi p) with (Packet.PayloadUnitStartIndicator_fn p). rewrite payload_pes. reflexivity. Qed.
End PacketAccessors.

(* copies that are total functions on lists agree everywhere (no length hypothesis) *)
Lemma pusi_pes p : Pes.pkt_pusi p = Packet.PayloadUnitStartIndicator_fn p. Proof. reflexivity. Qed.
Lemma contains_payload_pes p : Pes.pkt_contains_payload p = Packet.ContainsPayload p. Proof. reflexivity. Qed.
Lemma contains_af_pes p : Pes.pkt_contains_af p = Packet.ContainsAdaptationField p. Proof. reflexivity. Qed.
Lemma payload_start_pes p : Pes.pkt_payload_start p = Packet.payloadStart_fn p. Proof. reflexivity. Qed.
(* the method / function pairs of the Go code itself (modify.go vs packet.go) *)
Lemma pid_method p : Packet.PID_m p = Packet.Pid_fn p. Proof. reflexivity. Qed.
Lemma pusi_method p : Packet.PayloadUnitStartIndicator_m p = Packet.PayloadUnitStartIndicator_fn p. Proof. reflexivity. Qed.
Lemma has_payload_method p : Packet.HasPayload p = Packet.ContainsPayload p. Proof. reflexivity. Qed.
Lemma has_af_method p : Packet.HasAdaptationField p = Packet.ContainsAdaptationField p. Proof. reflexivity. Qed.
Lemma cc_method p : Packet.ContinuityCounter_m p = Packet.ContinuityCounter_fn p. Proof. reflexivity. Qed.
Lemma payload_start_method p : Packet.payloadStart_m p = Packet.payloadStart_fn p.
Proof. unfold Packet.payloadStart_m, Packet.payloadStart_fn, Packet.AFP.Length.
  rewrite has_af_method. destruct (Packet.ContainsAdaptationField p); [lia|reflexivity]. Qed.

(* ================================================================== packet/create.go *)
Lemma set_payload_pes pkt pay : Pes.pkt_set_payload pkt pay = fst (Create.SetPayload_fn pkt pay).
Proof. reflexivity. Qed.
Lemma pes_payload_slice :
  slice (upd (upd (upd (upd (upd (upd (upd (upd (repeatN 0 184) 0 0) 1 0) 2 1) 3 184) 4 0) 6 64) 7 128) 8 14) 9 14 = Ok [0; 0; 0; 0; 0].
Proof. vm_compute. reflexivity. Qed.
Lemma with_pes_pes pkt pts : Pes.with_pes pkt pts = Ok (Create.apply_option pkt (Create.OptWithPES pts)).
Proof. unfold Pes.with_pes, Create.apply_option, Create.pes_payload. rewrite pes_payload_slice. cbn [bind].
  unfold Pts.insert_pts. change (len [0; 0; 0; 0; 0] <? 5) with false. cbv iota. cbn [bind]. reflexivity. Qed.

(* ================================================================== packet/adaptationfield.go
   Packet.AFP (the primitives SetPayload / SetAdaptationFieldControl need, Model/Packet.v) versus AF (the whole file,
   Model/AF.v).  Every pair is the same function on ALL lists. *)
Lemma not8_sub m : m < 256 -> Packet.not8 m = 255 - m.
Proof. intros Hm. unfold Packet.not8.
  assert (S : forallb (fun m => N.lxor 255 m =? 255 - m) (nrange 256 0) = true) by (vm_compute; reflexivity).
  rewrite forallb_forall in S. apply N.eqb_eq. apply S. apply nrange_in. cbn. lia. Qed.
Lemma af_get_bit p i m : Packet.getBit p i m = AF.get_bit p i m. Proof. reflexivity. Qed.
Lemma af_set_bit p i m v : m < 256 -> Packet.setBit p i m v = AF.set_bit p i m v.
Proof. intros Hm. unfold Packet.setBit, AF.set_bit, Packet.get. rewrite not8_sub by exact Hm. reflexivity. Qed.
Lemma af_fill p a b : Packet.fill p a b 255 = AF.fill_ff p a b. Proof. reflexivity. Qed.
Lemma af_length p : Packet.AFP.Length p = AF.Length p. Proof. reflexivity. Qed.
Lemma af_hasPCR p : Packet.AFP.hasPCR p = AF.hasPCR p. Proof. reflexivity. Qed.
Lemma af_hasOPCR p : Packet.AFP.hasOPCR p = AF.hasOPCR p. Proof. reflexivity. Qed.
Lemma af_hasSplicingPoint p : Packet.AFP.hasSplicingPoint p = AF.hasSplicingPoint p. Proof. reflexivity. Qed.
Lemma af_hasTransportPrivateData p : Packet.AFP.hasTransportPrivateData p = AF.hasTransportPrivateData p. Proof. reflexivity. Qed.
Lemma af_hasAdaptationFieldExtension p : Packet.AFP.hasAdaptationFieldExtension p = AF.hasAdaptationFieldExtension p.
Proof. reflexivity. Qed.
Lemma af_pcrLength p : Packet.AFP.pcrLength p = AF.pcrLength p. Proof. reflexivity. Qed.
Lemma af_opcrLength p : Packet.AFP.opcrLength p = AF.opcrLength p. Proof. reflexivity. Qed.
Lemma af_spliceCountdownLength p : Packet.AFP.spliceCountdownLength p = AF.spliceCountdownLength p. Proof. reflexivity. Qed.
Lemma af_transportPrivateDataStart p : Packet.AFP.transportPrivateDataStart p = AF.transportPrivateDataStart p.
Proof. reflexivity. Qed.
Lemma af_transportPrivateDataLength p : Packet.AFP.transportPrivateDataLength p = AF.transportPrivateDataLength p.
Proof. reflexivity. Qed.
Lemma af_adaptationExtensionStart p : Packet.AFP.adaptationExtensionStart p = AF.adaptationExtensionStart p.
Proof. reflexivity. Qed.
Lemma af_adaptationExtensionLength p : Packet.AFP.adaptationExtensionLength p = AF.adaptationExtensionLength p.
Proof. reflexivity. Qed.
Lemma af_stuffingStart p : Packet.AFP.stuffingStart p = AF.stuffingStart p. Proof. reflexivity. Qed.
Lemma af_stuffingEnd p : Packet.AFP.stuffingEnd p = AF.stuffingEnd p. Proof. reflexivity. Qed.
Lemma af_stuffAF p : Packet.AFP.stuffAF p = AF.stuffAF p. Proof. reflexivity. Qed.
(* `valid` of Model/AF.v reads the same two header facts as the methods of Model/Packet.v *)
Lemma af_valid p : AF.valid p =
  if negb (Packet.HasAdaptationField p) then Err E.NoAdaptationField
  else if Packet.AFP.Length p =? 0 then Err E.AdaptationFieldZeroLength else Ok tt.
Proof. reflexivity. Qed.

(* package adaptationfield (function style on *packet.Packet, Model/AFfn.v) reads the same bits and computes the same
   offsets as the methods of packet/adaptationfield.go (these are two Go implementations, not two transcriptions) *)
Lemma affn_length p : AFfn.Length p = AF.Length p. Proof. reflexivity. Qed.
Lemma affn_hasPCR p : AFfn.HasPCR p = AF.hasPCR p. Proof. reflexivity. Qed.
Lemma affn_hasOPCR p : AFfn.HasOPCR p = AF.hasOPCR p. Proof. reflexivity. Qed.
Lemma affn_hasSplicingPoint p : AFfn.HasSplicingPoint p = AF.hasSplicingPoint p. Proof. reflexivity. Qed.
Lemma affn_hasTransportPrivateData p : AFfn.HasTransportPrivateData p = AF.hasTransportPrivateData p. Proof. reflexivity. Qed.
Lemma affn_hasAdaptationFieldExtension p : AFfn.HasAdaptationFieldExtension p = AF.hasAdaptationFieldExtension p.
Proof. reflexivity. Qed.
Lemma affn_opcr_offset p : AFfn.opcr_offset p = AF.opcrStart p. Proof. reflexivity. Qed.
Lemma affn_splice_offset p : AFfn.splice_offset p = AF.spliceCountdownStart p. Proof. reflexivity. Qed.
Lemma affn_tpd_offset p : AFfn.tpd_offset p = AF.transportPrivateDataStart p. Proof. reflexivity. Qed.

(* ================================================================== psi/psi.go
   Psi (Model/Psi.v, used by the PMT models) versus Pat.PatPsi (Model/Pat.v, Res-typed) versus the two helpers inside
   Model/Scte.v.  On ALL byte lists. *)
Lemma len_pos_cons {A} (x : A) l : (len (x :: l) =? 0) = false.
Proof. apply N.eqb_neq. rewrite len_cons. lia. Qed.
Lemma psi_pointer_field psi : Pat.PatPsi.pointer_field psi = Ok (Psi.pointer_field psi).
Proof. unfold Pat.PatPsi.pointer_field. destruct psi as [|b t]; [reflexivity|]. rewrite len_pos_cons. reflexivity. Qed.
Lemma psi_pointer_field_scte psi : Scte.pointer_field psi = Psi.pointer_field psi. Proof. reflexivity. Qed.
Lemma psi_table_id_sec s : Pat.PatPsi.table_id_sec s = Ok (Psi.table_id' s).
Proof. unfold Pat.PatPsi.table_id_sec. destruct s as [|b t]; [reflexivity|]. rewrite len_pos_cons. reflexivity. Qed.
Lemma psi_ssi_sec s : Pat.PatPsi.section_syntax_indicator_sec s = Ok (Psi.ssi' s).
Proof. unfold Pat.PatPsi.section_syntax_indicator_sec, Psi.ssi'. destruct (N.ltb_spec (len s) 2); [reflexivity|].
  rewrite idx_nthN by lia. reflexivity. Qed.
Lemma psi_section_length_sec s : Pat.PatPsi.section_length_sec s = Ok (Psi.section_length' s).
Proof. unfold Pat.PatPsi.section_length_sec, Psi.section_length'. destruct (N.ltb_spec (len s) 3); [reflexivity|].
  rewrite !idx_nthN by lia. reflexivity. Qed.
(* psi[offset:] as a checked slice and as dropN *)
Lemma psi_at_section {A} (neutral : A) (f : bytes -> Res A) (g : bytes -> A) psi :
  (forall s, f s = Ok (g s)) ->
  Pat.PatPsi.at_section neutral f psi =
  Ok (let off := 1 + Psi.pointer_field psi in if len psi <=? off then neutral else g (dropN off psi)).
Proof. intros Hf. unfold Pat.PatPsi.at_section. rewrite psi_pointer_field. cbn [bind]. cbv zeta.
  destruct (N.leb_spec (len psi) (1 + Psi.pointer_field psi)); [reflexivity|].
  rewrite slice_from_ok by lia. cbn [bind]. apply Hf. Qed.
Lemma psi_table_id psi : Pat.PatPsi.table_id psi = Ok (Psi.table_id psi).
Proof. exact (psi_at_section 0 _ _ psi psi_table_id_sec). Qed.
Lemma psi_section_syntax_indicator psi : Pat.PatPsi.section_syntax_indicator psi = Ok (Psi.section_syntax_indicator psi).
Proof. exact (psi_at_section false _ _ psi psi_ssi_sec). Qed.
Lemma psi_section_length psi : Pat.PatPsi.section_length psi = Ok (Psi.section_length psi).
Proof. exact (psi_at_section 0 _ _ psi psi_section_length_sec). Qed.
Lemma psi_private_indicator psi : Pat.PatPsi.private_indicator psi = Ok (Psi.private_indicator psi).
Proof. unfold Pat.PatPsi.private_indicator, Psi.private_indicator. rewrite psi_pointer_field. cbn [bind]. cbv zeta.
  destruct (N.leb_spec (len psi) (2 + Psi.pointer_field psi)); [reflexivity|].
  rewrite idx_nthN by lia. reflexivity. Qed.
(* TableHeaderFromBytes: record in Model/Psi.v, 4-tuple with `*256 +` in Model/Scte.v; equal on byte strings *)
Definition th_tuple (h : Psi.table_header) : N * bool * bool * N :=
  (Psi.th_tid h, Psi.th_ssi h, Psi.th_pi h, Psi.th_sl h).
Lemma psi_table_header_scte d : is_bytes d ->
  Scte.table_header_from_bytes d = rmap th_tuple (Psi.table_header_from_bytes d).
Proof. intros HB. unfold Scte.table_header_from_bytes, Psi.table_header_from_bytes, rmap.
  destruct (N.ltb_spec (len d) 3); [reflexivity|]. rewrite !idx_nthN by lia. cbn [bind]. unfold th_tuple. cbn.
  rewrite lor_shl8 by (apply is_bytes_nthN; exact HB). reflexivity. Qed.

(* ================================================================== pts.go / pes/pesheader.go
   pes.ExtractTime is the library's own second copy of gots.ExtractTime; the two models agree on ALL lists *)
Lemma extract_time_pes b : Pes.extract_time b = Pts.extract_time b.
Proof. unfold Pes.extract_time, Pts.extract_time.
  destruct b as [|b0 [|b1 [|b2 [|b3 [|b4 t]]]]]; reflexivity. Qed.

(* ================================================================== packet/accumulator.go
   The PMT reader of C06 (Model/Pmt.v: acc, acc_add, write_packet) carries its own accumulator with the completion
   predicate PmtAccumulatorDoneFunc built in and without the packet list; C17's model (Model/Accumulator.v) takes any
   predicate.  Instantiated with PmtAccumulatorDoneFunc and projected to (state, buffer, error) they are the same step. *)
Definition pmt_pred (b : bytes) : bool * option N :=
  match Pmt.done_func b with Ok d => (d, None) | _ => (false, None) end.
Definition acc_of (a : Pmt.acc) (ps : list bytes) : Accumulator.acc :=
  Accumulator.mkA (Pmt.a_state a) (Pmt.a_buf a) ps.
Definition pmt_view (r : Res (Accumulator.acc * (Z * option N))) : Res (Pmt.acc * option N) :=
  rmap (fun x => ({| Pmt.a_buf := Accumulator.buf (fst x); Pmt.a_state := Accumulator.state (fst x) |}, snd (snd x))) r.

(* PmtAccumulatorDoneFunc has no error result *)
Lemma done_loop_no_err : forall fuel sb e, Pmt.done_loop fuel sb <> Err e.
Proof. induction fuel as [|f IH]; intros sb e; [discriminate|]. cbn [Pmt.done_loop].
  destruct sb as [|b0 t]; [discriminate|]. destruct (b0 =? 255); [discriminate|].
  destruct (len (b0 :: t) <? 3); [discriminate|].
  destruct (len (b0 :: t) <? Psi.section_length' (b0 :: t) + 3); [discriminate|].
  unfold slice_from, slice. destruct ((_ <=? _) && (_ <=? _)); cbn [bind]; [apply IH|discriminate]. Qed.
Lemma done_func_no_err b e : Pmt.done_func b <> Err e.
Proof. unfold Pmt.done_func. destruct (len b <? 1); [discriminate|]. cbv zeta.
  destruct (len b <=? 1 + Psi.pointer_field b); [discriminate|].
  unfold slice_from, slice. destruct ((_ <=? _) && (_ <=? _)); cbn [bind]; [apply done_loop_no_err|discriminate]. Qed.
Lemma done_func_ok b : is_bytes b -> exists d, Pmt.done_func b = Ok d.
Proof. intros HB. pose proof (done_func_total b HB) as T. pose proof (done_func_no_err b) as NE.
  destruct (Pmt.done_func b) as [d|e| |]; cbn in T; try contradiction; [eexists; reflexivity|].
  exfalso. exact (NE e eq_refl). Qed.
Lemma payload_fn_bytes p b : is_bytes p -> Packet.Payload_fn p = Ok b -> is_bytes b.
Proof. intros HB E. unfold Packet.Payload_fn in E. destruct (negb (Packet.ContainsPayload p)); [discriminate|].
  destruct (Packet.PacketSize <? Packet.payloadStart_fn p); [discriminate|]. eapply is_bytes_slice; eassumption. Qed.

Lemma acc_add_is_add_packet a ps pkt :
  length pkt = 188%nat -> is_bytes pkt -> is_bytes (Pmt.a_buf a) -> Pmt.a_state a = 1 ->
  Pmt.acc_add a pkt = pmt_view (Accumulator.add_packet pmt_pred (acc_of a ps) pkt).
Proof. intros HL HP HB HS. unfold Pmt.acc_add, Accumulator.add_packet.
  rewrite (payload_pmt pkt HL), (payload_accumulator pkt HL).
  destruct a as [buf st]. cbn [Pmt.a_buf Pmt.a_state] in *. subst st.
  unfold acc_of. cbn [Pmt.a_buf Pmt.a_state Accumulator.state Accumulator.buf Accumulator.packets].
  destruct (Packet.Payload_fn pkt) as [b|e| |] eqn:EP; cbn [sum_of_res bind]; try reflexivity.
  assert (HBB : is_bytes (buf ++ b)) by (apply is_bytes_app; [exact HB|exact (payload_fn_bytes pkt b HP EP)]).
  destruct (done_func_ok _ HBB) as [d ED]. unfold pmt_pred. rewrite ED. cbn [bind].
  destruct d; reflexivity. Qed.

Theorem pmt_write_packet_is_accumulator a ps pkt :
  length pkt = 188%nat -> is_bytes pkt -> is_bytes (Pmt.a_buf a) -> Pmt.a_state a <= 2 ->
  Pmt.write_packet a pkt = pmt_view (Accumulator.write_packet pmt_pred (acc_of a ps) pkt).
Proof. intros HL HP HB HS. unfold Pmt.write_packet, Accumulator.write_packet, Accumulator.write_starting.
  rewrite (pusi_pmt pkt HL), (pusi_accumulator pkt HL). cbn [bind].
  unfold acc_of at 1 2 3. cbn [Accumulator.state Accumulator.buf Accumulator.packets].
  unfold Accumulator.stateStarting, Accumulator.stateAccumulating, Accumulator.stateDone.
  assert (C : Pmt.a_state a = 0 \/ Pmt.a_state a = 1 \/ Pmt.a_state a = 2) by lia.
  destruct C as [C|[C|C]]; rewrite C; cbv beta iota delta [N.eqb Pos.eqb].
  - destruct (Packet.PayloadUnitStartIndicator_fn pkt); cbn [negb].
    + exact (acc_add_is_add_packet {| Pmt.a_buf := []; Pmt.a_state := 1 |} [] pkt HL HP (Forall_nil _) eq_refl).
    + destruct a as [buf st]. cbn in C. subst st. reflexivity.
  - destruct (Packet.PayloadUnitStartIndicator_fn pkt); cbn [negb].
    + exact (acc_add_is_add_packet {| Pmt.a_buf := []; Pmt.a_state := 1 |} [] pkt HL HP (Forall_nil _) eq_refl).
    + exact (acc_add_is_add_packet a ps pkt HL HP HB C).
  - destruct a as [buf st]. cbn in C. subst st. reflexivity. Qed.
Lemma done_func_answers b : is_bytes b -> exists d, Pmt.done_func b = Ok d /\ pmt_pred b = (d, None).
Proof. intros H. destruct (done_func_ok b H) as [d E]. exists d. split; [exact E|]. unfold pmt_pred. rewrite E. reflexivity. Qed.

(* ================================================================== psi.TableHeader.Data()
   Psi.table_header_data (Model/Psi.v) versus the three header bytes written inline by ScteEnc.update_data *)
Lemma psi_table_header_data_bytes tid ssi pi sl :
  Psi.table_header_data {| Psi.th_tid := tid; Psi.th_ssi := ssi; Psi.th_pi := pi; Psi.th_sl := sl |} =
  [tid; 128 * b2n ssi + 64 * b2n pi + 48 + (sl / 256) mod 4; sl mod 256].
Proof. unfold Psi.table_header_data. cbn [Psi.th_tid Psi.th_ssi Psi.th_pi Psi.th_sl].
  assert (X : N.land (w8 (N.shiftr sl 8)) 3 = (sl / 256) mod 4).
  { change 3 with (N.ones 2). rewrite N.land_ones. unfold w8. rewrite N.shiftr_div_pow2.
    change (2 ^ 8) with 256. change (2 ^ 2) with 4. lia. }
  rewrite X. assert (B : (sl / 256) mod 4 < 4) by lia. set (x := (sl / 256) mod 4) in *. unfold w8.
  assert (C : x = 0 \/ x = 1 \/ x = 2 \/ x = 3) by lia.
  destruct ssi, pi; destruct C as [C|[C|[C|C]]]; rewrite C; reflexivity. Qed.
(* the encoder writes exactly psi.TableHeader.Data() of (table_id, flags, the section_length it has just computed) *)
Lemma update_data_header st : exists rest,
  fst (ScteEnc.update_data st) =
  Psi.table_header_data {| Psi.th_tid := Scte.s_tid st; Psi.th_ssi := Scte.s_ssi st; Psi.th_pi := Scte.s_pi st;
                           Psi.th_sl := Scte.s_slen (snd (ScteEnc.update_data st)) |} ++ rest.
Proof. rewrite psi_table_header_data_bytes. unfold ScteEnc.update_data. cbv zeta. cbn [fst snd Scte.s_slen].
  eexists. rewrite <- !app_assoc. cbn [app]. reflexivity. Qed.

(* ================================================================== packet/io.go: IsSynced
   IsSynced does not call packet.Pid: it masks the big-endian header word.  The PID and the adaptation_field_control
   bits it extracts are those of the packet accessors (two Go implementations; Model/IO.v vs Model/Packet.v) *)
Lemma issynced_fields b0 b1 b2 b3 rest : b0 < 256 -> b1 < 256 -> b2 < 256 -> b3 < 256 ->
  let p := b0 :: b1 :: b2 :: b3 :: rest in
  N.shiftr (N.land (be32 b0 b1 b2 b3) SyncIO.pidMask) 8 = Packet.Pid_fn p /\
  N.land (be32 b0 b1 b2 b3) SyncIO.afcMask = N.land (Packet.get p 3) 48.
Proof. intros H0 H1 H2 H3 p. unfold Packet.Pid_fn.
  change (Packet.get p 1) with b1. change (Packet.get p 2) with b2. change (Packet.get p 3) with b3.
  unfold SyncIO.pidMask, SyncIO.afcMask, be32. split.
  - rewrite N.shiftr_land. change (N.shiftr 2096896 8) with (N.ones 13). change 31 with (N.ones 5).
    rewrite !N.land_ones, N.shiftr_div_pow2, lor_shl8 by exact H2.
    change (2 ^ 8) with 256. change (2 ^ 13) with 8192. change (2 ^ 5) with 32. lia.
  - change 48 with (N.land 255 48). rewrite N.land_assoc. change 255 with (N.ones 8). rewrite N.land_ones.
    change (2 ^ 8) with 256. f_equal. lia. Qed.
