(* Every getter of both APIs on a packet that encodes the logical field l. *)
From Gots Require Import Base.Prelude Model.Pcr Model.AF Model.AFfn Spec.AFSpec
  Proofs.AFLists Proofs.AFRepr Proofs.PcrBytes Proofs.AFSetters Proofs.AFHistory.

Definition opt_res {A B} (o : option A) (f : A -> B) (e : N) : Res B :=
  match o with Some a => Ok (f a) | None => Err e end.

(* method API (packet/adaptationfield.go).  F13: the two slice getters return the field WITH its length byte. *)
Definition method_getters (p : bytes) (l : laf) : Prop :=
  AF.Length p = l_len l /\
  AF.Discontinuity p = Ok (l_disc l) /\ AF.RandomAccess p = Ok (l_rai l) /\
  AF.ElementaryStreamPriority p = Ok (l_prio l) /\
  AF.HasPCR p = Ok (isSome (l_pcr l)) /\ AF.HasOPCR p = Ok (isSome (l_opcr l)) /\
  AF.HasSplicingPoint p = Ok (isSome (l_splice l)) /\
  AF.HasTransportPrivateData p = Ok (isSome (l_tpd l)) /\
  AF.HasAdaptationFieldExtension p = Ok (isSome (l_ext l)) /\
  AF.PCR p = opt_res (l_pcr l) pcr_dec E.NoPCR /\
  AF.OPCR p = opt_res (l_opcr l) pcr_dec E.NoOPCR /\
  AF.SpliceCountdown p = opt_res (l_splice l) AF.int8 E.NoSplicePoint /\
  AF.TransportPrivateData p = opt_res (l_tpd l) (fun d => len d :: d) E.NoPrivateTransportData /\
  AF.AdaptationFieldExtension p = opt_res (l_ext l) (fun d => len d :: d) E.NoAdaptationFieldExtension.

(* function-style API (packet/adaptationfield/adaptationfield.go): raw PCR bytes, data without length byte *)
Definition fn_getters (p : bytes) (l : laf) : Prop :=
  AFfn.Length p = l_len l /\
  AFfn.IsDiscontinuous p = l_disc l /\ AFfn.IsRandomAccess p = l_rai l /\ AFfn.IsESHigherPriority p = l_prio l /\
  AFfn.HasPCR p = isSome (l_pcr l) /\ AFfn.HasOPCR p = isSome (l_opcr l) /\
  AFfn.HasSplicingPoint p = isSome (l_splice l) /\ AFfn.HasTransportPrivateData p = isSome (l_tpd l) /\
  AFfn.HasAdaptationFieldExtension p = isSome (l_ext l) /\
  AFfn.PCR p = opt_res (l_pcr l) (fun b => b) E.NoPCR /\
  AFfn.OPCR p = opt_res (l_opcr l) (fun b => b) E.NoOPCR /\
  AFfn.SpliceCountdown p = opt_res (l_splice l) (fun x => x) E.NoSplicePoint /\
  AFfn.TransportPrivateData p = opt_res (l_tpd l) (fun d => d) E.NoPrivateTransportData /\
  AFfn.EncoderBoundaryPoint p = opt_res (l_tpd l) (fun d => d) E.NoEBP.

Section Getters.
Variables (h0 h1 h2 h3 : N) (l : laf) (pay : bytes).
Hypothesis Hwf : wf_laf l.
Hypothesis Hfits : fits l.
Hypothesis Hh3 : bit h3 32 = true.
Hypothesis Hpay : len pay = 183 - l_len l.
Notation L := (l_len l).
Notation St := (stuff l).
Notation p := (cpk h0 h1 h2 h3 l pay).
Notation Fp := (enc6 (l_pcr l)). Notation Fo := (enc6 (l_opcr l)). Notation Fs := (enc1 (l_splice l)).
Notation Ft := (encv (l_tpd l)). Notation Fe := (encv (l_ext l)).
Notation H := (H6 h0 h1 h2 h3 L (flags l)).

Lemma V : AF.valid p = Ok tt. Proof. apply valid_p; assumption. Qed.
Lemma HAS : AF.hasPCR p = isSome (l_pcr l) /\ AF.hasOPCR p = isSome (l_opcr l) /\
  AF.hasSplicingPoint p = isSome (l_splice l) /\ AF.hasTransportPrivateData p = isSome (l_tpd l) /\
  AF.hasAdaptationFieldExtension p = isSome (l_ext l) /\
  AF.get_bit p 5 128 = l_disc l /\ AF.get_bit p 5 64 = l_rai l /\ AF.get_bit p 5 32 = l_prio l.
Proof. apply has_l; assumption. Qed.
Lemma OS : AF.opcrStart p = 6 + len Fp. Proof. apply os_p; assumption. Qed.
Lemma SCS : AF.spliceCountdownStart p = 6 + len Fp + len Fo. Proof. apply scs_p; assumption. Qed.
Lemma TPS : AF.transportPrivateDataStart p = 6 + len Fp + len Fo + len Fs. Proof. apply tps_p; assumption. Qed.
Lemma EXS : AF.adaptationExtensionStart p = 6 + len Fp + len Fo + len Fs + len Ft. Proof. apply exs_p; assumption. Qed.
Lemma SS : AF.stuffingStart p = 6 + len (body l). Proof. apply ss_p; assumption. Qed.
Lemma ROOM : 6 + len (body l) <= 188. Proof. eapply Hroom; eassumption. Qed.

Lemma p_split : p = H ++ Fp ++ Fo ++ Fs ++ Ft ++ Fe ++ St ++ pay.
Proof. unfold cpk. rewrite pk_H6. unfold body. rewrite <- !app_assoc. reflexivity. Qed.
Lemma len_Fp : len Fp = if isSome (l_pcr l) then 6 else 0. Proof. apply len_enc6, Hwf. Qed.
Lemma len_Fo : len Fo = if isSome (l_opcr l) then 6 else 0. Proof. apply len_enc6, Hwf. Qed.

Lemma flag_getters :
  AF.Discontinuity p = Ok (l_disc l) /\ AF.RandomAccess p = Ok (l_rai l) /\
  AF.ElementaryStreamPriority p = Ok (l_prio l) /\
  AF.HasPCR p = Ok (isSome (l_pcr l)) /\ AF.HasOPCR p = Ok (isSome (l_opcr l)) /\
  AF.HasSplicingPoint p = Ok (isSome (l_splice l)) /\
  AF.HasTransportPrivateData p = Ok (isSome (l_tpd l)) /\
  AF.HasAdaptationFieldExtension p = Ok (isSome (l_ext l)).
Proof. destruct HAS as (a & b & c & d & e & f & g & h).
  unfold AF.Discontinuity, AF.RandomAccess, AF.ElementaryStreamPriority, AF.HasPCR, AF.HasOPCR,
    AF.HasSplicingPoint, AF.HasTransportPrivateData, AF.HasAdaptationFieldExtension, AF.get_flag.
  rewrite V. cbn [bind].
  unfold AF.hasPCR, AF.hasOPCR, AF.hasSplicingPoint, AF.hasTransportPrivateData, AF.hasAdaptationFieldExtension in *.
  rewrite a, b, c, d, e, f, g, h. repeat split. Qed.

Lemma pcr_getter : AF.PCR p = opt_res (l_pcr l) pcr_dec E.NoPCR /\ AFfn.PCR p = opt_res (l_pcr l) (fun b => b) E.NoPCR.
Proof. destruct HAS as (a & _). unfold AF.PCR, AFfn.PCR. rewrite V. cbn [bind].
  change (AFfn.HasPCR p) with (AF.hasPCR p). rewrite a.
  rewrite OS. unfold AF.pcrStart.
  pose proof Hwf as (_ & WP & _).
  destruct (l_pcr l) as [b|] eqn:E; cbn [isSome negb opt_res enc6]; [|split; reflexivity].
  destruct WP as [Lb Bb]. assert (Lb6: len b = 6) by (unfold len; rewrite Lb; reflexivity).
  rewrite p_split, E. cbn [enc6].
  rewrite !(slice_mid H b) by (rewrite ?len_H6, ?Lb6; reflexivity). cbn [bind].
  rewrite extract_pcr_dec by assumption. split; reflexivity. Qed.

Lemma opcr_getter : AF.OPCR p = opt_res (l_opcr l) pcr_dec E.NoOPCR /\ AFfn.OPCR p = opt_res (l_opcr l) (fun b => b) E.NoOPCR.
Proof. destruct HAS as (_ & a & _). unfold AF.OPCR, AFfn.OPCR. rewrite V. cbn [bind].
  change (AFfn.HasOPCR p) with (AF.hasOPCR p). rewrite a.
  change (AFfn.opcr_offset p) with (AF.opcrStart p).
  rewrite OS, SCS.
  pose proof Hwf as (_ & _ & WO & _).
  destruct (l_opcr l) as [b|] eqn:E; cbn [isSome negb opt_res enc6]; [|split; reflexivity].
  destruct WO as [Lb Bb]. assert (Lb6: len b = 6) by (unfold len; rewrite Lb; reflexivity).
  rewrite p_split, E. cbn [enc6]. rewrite (app_assoc H Fp).
  rewrite !(slice_mid (H ++ Fp) b) by (rewrite ?len_app, ?len_H6, ?Lb6; lia). cbn [bind].
  rewrite extract_pcr_dec by assumption. split; reflexivity. Qed.

Lemma splice_getter : AF.SpliceCountdown p = opt_res (l_splice l) AF.int8 E.NoSplicePoint /\
  AFfn.SpliceCountdown p = opt_res (l_splice l) (fun x => x) E.NoSplicePoint.
Proof. destruct HAS as (_ & _ & a & _). unfold AF.SpliceCountdown, AFfn.SpliceCountdown. rewrite V. cbn [bind].
  change (AFfn.HasSplicingPoint p) with (AF.hasSplicingPoint p). rewrite a.
  change (AFfn.splice_offset p) with (AF.spliceCountdownStart p).
  rewrite SCS.
  destruct (l_splice l) as [x|] eqn:E; cbn [isSome negb opt_res]; [|split; reflexivity].
  rewrite p_split, E. cbn [enc1]. rewrite (app_assoc H Fp), (app_assoc (H ++ Fp) Fo).
  cbn [app]. rewrite nthN_at by (rewrite !len_app, len_H6; lia). split; reflexivity. Qed.

Lemma tpd_getter :
  AF.TransportPrivateData p = opt_res (l_tpd l) (fun d => len d :: d) E.NoPrivateTransportData /\
  AFfn.TransportPrivateData p = opt_res (l_tpd l) (fun d => d) E.NoPrivateTransportData /\
  AFfn.EncoderBoundaryPoint p = opt_res (l_tpd l) (fun d => d) E.NoEBP.
Proof. destruct HAS as (_ & _ & _ & a & _). destruct flag_getters as (_ & _ & _ & _ & _ & _ & g & _).
  pose proof Hwf as (WL & _). pose proof Hfits as F. unfold fits in F.
  assert (EBP: AFfn.EncoderBoundaryPoint p = if isSome (l_tpd l) then AFfn.TransportPrivateData p else Err E.NoEBP).
  { unfold AFfn.EncoderBoundaryPoint. change (AFfn.HasTransportPrivateData p) with (AF.hasTransportPrivateData p). rewrite a.
    unfold cpk at 1 2. change (nthN (pk h0 h1 h2 h3 L (flags l) (body l ++ St ++ pay)) 3) with h3. rewrite Hh3.
    unfold AFfn.Length. rewrite nthN_pk4. replace (0 <? L) with true by (symmetry; apply N.ltb_lt; lia). reflexivity. }
  assert (FN: AFfn.TransportPrivateData p = opt_res (l_tpd l) (fun d => d) E.NoPrivateTransportData).
  { unfold AFfn.TransportPrivateData. change (AFfn.HasTransportPrivateData p) with (AF.hasTransportPrivateData p). rewrite a.
    change (AFfn.tpd_offset p) with (AF.transportPrivateDataStart p). rewrite TPS.
    destruct (l_tpd l) as [d|] eqn:E; cbn [isSome negb opt_res]; [|reflexivity].
    assert (CL: content_len l = 1 + len Fp + len Fo + len Fs + (1 + len d) + len Fe).
    { rewrite content_len_eq, E. cbn [encv]. rewrite len_cons. reflexivity. }
    assert (Ep: p = (H ++ Fp ++ Fo ++ Fs) ++ (len d :: d) ++ (Fe ++ St ++ pay)).
    { rewrite p_split, E. cbn [encv]. rewrite <- !app_assoc. reflexivity. }
    assert (Ep2: p = (H ++ Fp ++ Fo ++ Fs ++ [len d]) ++ d ++ (Fe ++ St ++ pay)).
    { rewrite p_split, E. cbn [encv]. rewrite <- !app_assoc. reflexivity. }
    assert (Nd: nthN p (6 + len Fp + len Fo + len Fs) = len d).
    { rewrite Ep. cbn [app]. apply nthN_at. rewrite !len_app, len_H6. lia. }
    rewrite Nd.
    replace (188 <? 6 + len Fp + len Fo + len Fs + 1 + len d) with false by (symmetry; apply N.ltb_ge; lia).
    rewrite Ep2 at 1. rewrite (slice_mid _ d); [reflexivity| |]; rewrite !len_app, len_H6; change (len [len d]) with 1; lia. }
  split; [|split; [exact FN|]].
  - unfold AF.TransportPrivateData. rewrite g. cbn [bind]. rewrite TPS, EXS.
    destruct (l_tpd l) as [d|] eqn:E; cbn [isSome negb opt_res]; [|reflexivity].
    assert (CL: content_len l = 1 + len Fp + len Fo + len Fs + (1 + len d) + len Fe).
    { rewrite content_len_eq, E. cbn [encv]. rewrite len_cons. reflexivity. }
    cbn [encv]. rewrite len_cons.
    replace (AF.PacketSize <? 6 + len Fp + len Fo + len Fs + (1 + len d)) with false
      by (symmetry; apply N.ltb_ge; unfold AF.PacketSize; lia).
    assert (Ep: p = (H ++ Fp ++ Fo ++ Fs) ++ (len d :: d) ++ (Fe ++ St ++ pay)).
    { rewrite p_split, E. cbn [encv]. rewrite <- !app_assoc. reflexivity. }
    rewrite Ep at 1. rewrite (slice_mid _ (len d :: d)); [reflexivity| |]; rewrite ?len_cons, !len_app, len_H6; lia.
  - rewrite EBP, FN. destruct (l_tpd l); reflexivity.
Qed.

Lemma ext_getter : AF.AdaptationFieldExtension p = opt_res (l_ext l) (fun d => len d :: d) E.NoAdaptationFieldExtension.
Proof. destruct flag_getters as (_ & _ & _ & _ & _ & _ & _ & g).
  pose proof Hwf as (WL & _). pose proof Hfits as F. unfold fits in F.
  unfold AF.AdaptationFieldExtension. rewrite g. cbn [bind].
  rewrite SS, EXS.
  destruct (l_ext l) as [d|] eqn:E; cbn [isSome negb opt_res]; [|reflexivity].
  pose proof ROOM as R.
  replace (AF.PacketSize <? 6 + len (body l)) with false by (symmetry; apply N.ltb_ge; unfold AF.PacketSize; lia).
  assert (Ep: p = (H ++ Fp ++ Fo ++ Fs ++ Ft) ++ (len d :: d) ++ (St ++ pay)).
  { rewrite p_split, E. cbn [encv]. rewrite <- !app_assoc. reflexivity. }
  rewrite Ep at 1. rewrite (slice_mid _ (len d :: d)); [reflexivity| |].
  - rewrite !len_app, len_H6. lia.
  - unfold body. rewrite E. cbn [encv]. rewrite !len_app, len_H6. lia.
Qed.

Lemma all_getters : method_getters p l /\ fn_getters p l.
Proof. destruct flag_getters as (a & b & c & d & e & f & g & h).
  destruct pcr_getter as (P1 & P2). destruct opcr_getter as (O1 & O2). destruct splice_getter as (S1 & S2).
  destruct tpd_getter as (T1 & T2 & T3). pose proof ext_getter as X1.
  destruct HAS as (ha & hb & hc & hd & he & hf & hg & hh).
  split.
  - unfold method_getters. repeat split; try assumption; try (unfold AF.Length; apply nthN_pk4).
  - unfold fn_getters. repeat split; try assumption; try apply nthN_pk4.
Qed.
End Getters.

Theorem getters_agree p l hdr pay : repr p l hdr pay -> method_getters p l /\ fn_getters p l.
Proof. intros R. pose proof R as (_ & _ & _ & _ & Hwf & Hfits).
  destruct (repr_cpk p l hdr pay R) as (h0 & h1 & h2 & h3 & -> & -> & Hb & Hp).
  apply all_getters; assumption. Qed.

(* ---- a getter returns the value just set ---- *)
Lemma step_ok_inv p l hdr pay o p' : repr p l hdr pay -> op_ok o -> AF.step p o = Ok p' ->
  exists l', op_rel l o (Done l') /\ repr p' l' hdr pay.
Proof. intros R Hok E. pose proof (step_refines p l hdr pay o R Hok) as S. unfold refines_at in S.
  rewrite E in S. exact S. Qed.

Theorem pcr_readback p l hdr pay v p' : repr p l hdr pay -> v < PcrMax ->
  AF.step p (AF.OSetPCR v) = Ok p' -> AF.PCR p' = Ok v /\ AFfn.PCR p' = Ok (pcr_enc v).
Proof. intros R Hv E. destruct (step_ok_inv p l hdr pay (AF.OSetPCR v) p' R Hv E) as (l' & (u & _ & _ & D) & R').
  cbn [spec_step] in D. destruct (isSome (l_pcr l)); [|discriminate]. injection D as ->.
  destruct (getters_agree _ _ _ _ R') as (M & F).
  destruct M as (_ & _ & _ & _ & _ & _ & _ & _ & _ & M & _). destruct F as (_ & _ & _ & _ & _ & _ & _ & _ & _ & F & _).
  cbn [set_pcr l_pcr opt_res] in *. rewrite pcr_dec_enc in M by exact Hv. split; assumption. Qed.

Theorem opcr_readback p l hdr pay v p' : repr p l hdr pay -> v < PcrMax ->
  AF.step p (AF.OSetOPCR v) = Ok p' -> AF.OPCR p' = Ok v /\ AFfn.OPCR p' = Ok (pcr_enc v).
Proof. intros R Hv E. destruct (step_ok_inv p l hdr pay (AF.OSetOPCR v) p' R Hv E) as (l' & (u & _ & _ & D) & R').
  cbn [spec_step] in D. destruct (isSome (l_opcr l)); [|discriminate]. injection D as ->.
  destruct (getters_agree _ _ _ _ R') as (M & F).
  destruct M as (_ & _ & _ & _ & _ & _ & _ & _ & _ & _ & M & _). destruct F as (_ & _ & _ & _ & _ & _ & _ & _ & _ & _ & F & _).
  cbn [set_opcr l_opcr opt_res] in *. rewrite pcr_dec_enc in M by exact Hv. split; assumption. Qed.

Theorem splice_readback p l hdr pay v p' : repr p l hdr pay -> v < 256 ->
  AF.step p (AF.OSetSplice v) = Ok p' -> AF.SpliceCountdown p' = Ok (AF.int8 v) /\ AFfn.SpliceCountdown p' = Ok v.
Proof. intros R Hv E. destruct (step_ok_inv p l hdr pay (AF.OSetSplice v) p' R Hv E) as (l' & (u & _ & _ & D) & R').
  cbn [spec_step] in D. destruct (isSome (l_splice l)); [|discriminate]. injection D as ->.
  destruct (getters_agree _ _ _ _ R') as (M & F).
  destruct M as (_ & _ & _ & _ & _ & _ & _ & _ & _ & _ & _ & M & _). destruct F as (_ & _ & _ & _ & _ & _ & _ & _ & _ & _ & _ & F & _).
  cbn [set_splice l_splice opt_res] in *. split; assumption. Qed.

(* F13: the method getter returns the data preceded by its length byte; the function-style getter the data *)
Theorem tpd_readback p l hdr pay d p' : repr p l hdr pay -> is_bytes d ->
  AF.step p (AF.OSetTPD d) = Ok p' ->
  AF.TransportPrivateData p' = Ok (len d :: d) /\ AFfn.TransportPrivateData p' = Ok d /\ AFfn.EncoderBoundaryPoint p' = Ok d.
Proof. intros R Hv E. destruct (step_ok_inv p l hdr pay (AF.OSetTPD d) p' R Hv E) as (l' & (u & _ & _ & D) & R').
  cbn [spec_step] in D. destruct (isSome (l_tpd l)); [|discriminate]. unfold grow in D.
  destruct (fitsb (set_tpd l (Some d))); [|discriminate]. injection D as ->.
  destruct (getters_agree _ _ _ _ R') as (M & F).
  destruct M as (_ & _ & _ & _ & _ & _ & _ & _ & _ & _ & _ & _ & M & _).
  destruct F as (_ & _ & _ & _ & _ & _ & _ & _ & _ & _ & _ & _ & F1 & F2).
  cbn [set_tpd l_tpd opt_res] in *. repeat split; assumption. Qed.

Theorem ext_readback p l hdr pay d p' : repr p l hdr pay -> is_bytes d ->
  AF.step p (AF.OSetExt d) = Ok p' -> AF.AdaptationFieldExtension p' = Ok (len d :: d).
Proof. intros R Hv E. destruct (step_ok_inv p l hdr pay (AF.OSetExt d) p' R Hv E) as (l' & (u & _ & _ & D) & R').
  cbn [spec_step] in D. destruct (isSome (l_ext l)); [|discriminate]. unfold grow in D.
  destruct (fitsb (set_ext l (Some d))); [|discriminate]. injection D as ->.
  destruct (getters_agree _ _ _ _ R') as (M & F).
  destruct M as (_ & _ & _ & _ & _ & _ & _ & _ & _ & _ & _ & _ & _ & M).
  cbn [set_ext l_ext opt_res] in *. exact M. Qed.
