(* C01: byte-level facts about the header masks by finite reflection (complete sweeps over the
   affected byte x value space, vm_compute), lifted to ALL 188-byte packets with the list-update
   lemmas of Base/PacketLemmas.v. *)
From Gots Require Import Base.Prelude Base.PacketLemmas Model.Packet Spec.Iso13818Hdr.
Import Packet.
Local Open Scope N_scope.

Ltac split_andb H :=
  repeat match goal with
         | X : (_ && _) = true |- _ => let X' := fresh "B" in apply andb_prop in X as [X X']
         end;
  repeat match goal with
         | X : (_ =? _) = true |- _ => apply N.eqb_eq in X
         | X : (_ <? _) = true |- _ => apply N.ltb_lt in X
         | X : Bool.eqb _ _ = true |- _ => apply Bool.eqb_prop in X
         end.

(* fields of byte 1 and byte 3 *)
Definition f1 (b : N) : N * N * N * N := (b / 128, (b / 64) mod 2, (b / 32) mod 2, b mod 32).
Definition f3 (b : N) : N * N * N := (b / 64, (b / 16) mod 4, b mod 16).
Definition f1_eqb (b : N) (x : N * N * N * N) : bool :=
  let '(a, c, d, e) := x in (b / 128 =? a) && ((b / 64) mod 2 =? c) && ((b / 32) mod 2 =? d) && (b mod 32 =? e) && (b <? 256).
Definition f3_eqb (b : N) (x : N * N * N) : bool :=
  let '(a, c, d) := x in (b / 64 =? a) && ((b / 16) mod 4 =? c) && (b mod 16 =? d) && (b <? 256).

(* ------------------------------------------------------------------ getters: byte facts *)
Definition get1_ok (b : N) : bool :=
  Bool.eqb (negb (N.land b 128 =? 0)) (b / 128 =? 1) &&
  Bool.eqb (negb (N.land b 64 =? 0)) ((b / 64) mod 2 =? 1) &&
  Bool.eqb (negb (N.land b 32 =? 0)) ((b / 32) mod 2 =? 1).
Lemma get1_sweep : sweep1 256 get1_ok = true. Proof. vm_compute. reflexivity. Qed.
Definition pid_ok (b1 b2 : N) : bool :=
  N.lor (N.shiftl (N.land b1 31) 8) b2 =? (b1 mod 32) * 256 + b2.
Lemma pid_sweep : sweep2 256 256 pid_ok = true. Proof. vm_compute. reflexivity. Qed.
Definition get3_ok (b : N) : bool :=
  (N.shiftr (N.land b 192) 6 =? b / 64) && (N.shiftr (N.land b 48) 4 =? (b / 16) mod 4) &&
  (N.land b 15 =? b mod 16) &&
  Bool.eqb (negb (N.land b 16 =? 0)) (((b / 16) mod 4) mod 2 =? 1) &&
  Bool.eqb (negb (N.land b 32 =? 0)) (((b / 16) mod 4) / 2 =? 1).
Lemma get3_sweep : sweep1 256 get3_ok = true. Proof. vm_compute. reflexivity. Qed.

(* ------------------------------------------------------------------ setters: byte facts *)
(* setBit on byte 1, masks 0x80 0x40 0x20, both values *)
Definition setbit1_ok (b : N) : bool :=
  let '(a, c, d, e) := f1 b in
  f1_eqb (N.lor b 128) (1, c, d, e) && f1_eqb (N.land b (not8 128)) (0, c, d, e) &&
  f1_eqb (N.lor b 64) (a, 1, d, e) && f1_eqb (N.land b (not8 64)) (a, 0, d, e) &&
  f1_eqb (N.lor b 32) (a, c, 1, e) && f1_eqb (N.land b (not8 32)) (a, c, 0, e).
Lemma setbit1_sweep : sweep1 256 setbit1_ok = true. Proof. vm_compute. reflexivity. Qed.
(* SetPID on byte 1: every prior byte x every value of byte(pid>>8) *)
Definition setpid1_ok (b hi : N) : bool :=
  let '(a, c, d, _) := f1 b in
  f1_eqb (N.lor (N.land b (not8 31)) (N.land hi 31)) (a, c, d, hi mod 32).
Lemma setpid1_sweep : sweep2 256 256 setpid1_ok = true. Proof. vm_compute. reflexivity. Qed.
(* byte 3 *)
Definition settsc_ok (b v : N) : bool :=
  let '(_, c, d) := f3 b in f3_eqb (N.lor (N.land b (not8 192)) (w8 (N.shiftl v 6))) (v, c, d).
Lemma settsc_sweep : sweep2 256 4 settsc_ok = true. Proof. vm_compute. reflexivity. Qed.
Definition setafc_ok (b v : N) : bool :=
  let '(a, _, d) := f3 b in f3_eqb (N.lor (N.land b (not8 48)) (w8 (N.shiftl v 4))) (a, v, d).
Lemma setafc_sweep : sweep2 256 4 setafc_ok = true. Proof. vm_compute. reflexivity. Qed.
Definition setcc_ok (b v : N) : bool :=
  let '(a, c, _) := f3 b in
  f3_eqb (N.lor (N.land b (not8 15)) v) (a, c, v) &&       (* SetContinuityCounter *)
  f3_eqb (N.lor (N.land b 240) v) (a, c, v).                (* SetCC (copying) *)
Lemma setcc_sweep : sweep2 256 16 setcc_ok = true. Proof. vm_compute. reflexivity. Qed.
Definition inccc_ok (b : N) : bool :=
  let '(a, c, d) := f3 b in
  f3_eqb (N.lor (N.land b 240) (increment4BitInt b)) (a, c, (d + 1) mod 16) &&   (* IncrementCC *)
  f3_eqb (N.land b 240) (a, c, 0).                                                (* ZeroCC *)
Lemma inccc_sweep : sweep1 256 inccc_ok = true. Proof. vm_compute. reflexivity. Qed.
(* "every other bit": the bits outside the mask survive (mask form of the frame condition) *)
Definition frame_ok (b x : N) : bool :=
  (N.land (N.lor b 128) (not8 128) =? N.land b (not8 128)) && (N.land (N.land b (not8 128)) (not8 128) =? N.land b (not8 128)) &&
  (N.land (N.lor b 64) (not8 64) =? N.land b (not8 64)) && (N.land (N.land b (not8 64)) (not8 64) =? N.land b (not8 64)) &&
  (N.land (N.lor b 32) (not8 32) =? N.land b (not8 32)) && (N.land (N.land b (not8 32)) (not8 32) =? N.land b (not8 32)) &&
  (N.land (N.lor (N.land b (not8 31)) (N.land x 31)) (not8 31) =? N.land b (not8 31)) &&
  (N.land (N.lor (N.land b (not8 192)) (w8 (N.shiftl (x mod 4) 6))) (not8 192) =? N.land b (not8 192)) &&
  (N.land (N.lor (N.land b (not8 15)) (x mod 16)) (not8 15) =? N.land b (not8 15)) &&
  (N.land (N.lor (N.land b 240) (x mod 16)) (not8 15) =? N.land b (not8 15)) &&
  (N.land (N.lor (N.land b 240) (increment4BitInt b)) (not8 15) =? N.land b (not8 15)) &&
  (N.land (N.land b 240) (not8 15) =? N.land b (not8 15)).
Lemma frame_sweep : sweep2 256 256 frame_ok = true. Proof. vm_compute. reflexivity. Qed.

(* ------------------------------------------------------------------ lifting helpers *)
Lemma get_byte p i : is_pkt p -> get p i < 256.
Proof. intros [_ B]. apply nthN_byte. exact B. Qed.
Lemma get_upd_same p i v : is_pkt p -> i < 188 -> get (upd p i v) i = v.
Proof. intros H Hi. unfold get. apply nthN_upd_same. rewrite (pkt_len p H). exact Hi. Qed.
Lemma get_upd_other p i j v : i <> j -> get (upd p i v) j = get p j.
Proof. apply nthN_upd_other. Qed.
Lemma copy_packet_id p : is_pkt p -> copy_packet p = p.
Proof.
  intros [L _]. unfold copy_packet. apply blit_all. unfold zero_packet. rewrite repeatN_length. rewrite L. reflexivity.
Qed.

Ltac upd_simpl H :=
  repeat first [ rewrite (get_upd_same _ _ _ H) by lia
               | rewrite get_upd_other by lia ].

(* ------------------------------------------------------------------ getters = ISO fields *)
Section Getters.
Variable p : bytes.
Hypothesis H : is_pkt p.
Let h := Iso.hdr_of p.

Lemma byte1_facts :
  TransportErrorIndicator p = (Iso.tei h =? 1) /\ PayloadUnitStartIndicator_m p = (Iso.pusi h =? 1) /\
  PayloadUnitStartIndicator_fn p = (Iso.pusi h =? 1) /\ TransportPriority p = (Iso.tp h =? 1).
Proof.
  pose proof (sweep1_ok 256 get1_ok get1_sweep (get p 1) (get_byte p 1 H)) as S.
  unfold get1_ok in S. split_andb S.
  unfold TransportErrorIndicator, PayloadUnitStartIndicator_m, PayloadUnitStartIndicator_fn, TransportPriority, getBit.
  subst h. unfold Iso.hdr_of, Iso.hdr_of_bytes. cbn [Iso.tei Iso.pusi Iso.tp]. unfold get in *. auto.
Qed.
Lemma pid_facts : Pid_fn p = Iso.pid h /\ PID_m p = Iso.pid h.
Proof.
  pose proof (sweep2_ok 256 256 pid_ok pid_sweep (get p 1) (get p 2) (get_byte p 1 H) (get_byte p 2 H)) as S.
  unfold pid_ok in S. apply N.eqb_eq in S. unfold Pid_fn, PID_m. subst h. unfold Iso.hdr_of, Iso.hdr_of_bytes.
  cbn [Iso.pid]. unfold get in *. auto.
Qed.
Lemma null_pat_facts :
  IsNull_fn p = (Iso.pid h =? 8191) /\ IsNull_m p = (Iso.pid h =? 8191) /\
  IsPat_fn p = (Iso.pid h =? 0) /\ IsPAT_m p = (Iso.pid h =? 0).
Proof.
  destruct pid_facts as [A B]. unfold IsNull_fn, IsNull_m, IsPat_fn, IsPAT_m, NullPacketPid. rewrite A, B. auto.
Qed.
Lemma byte3_facts :
  TransportScramblingControl p = Iso.tsc h /\ AdaptationFieldControl p = Iso.afc h /\
  ContinuityCounter_fn p = Iso.cc h /\ ContinuityCounter_m p = Iso.cc h /\
  ContainsPayload p = Iso.has_payload h /\ HasPayload p = Iso.has_payload h /\
  ContainsAdaptationField p = Iso.has_af h /\ HasAdaptationField p = Iso.has_af h.
Proof.
  pose proof (sweep1_ok 256 get3_ok get3_sweep (get p 3) (get_byte p 3 H)) as S.
  unfold get3_ok in S. split_andb S.
  unfold TransportScramblingControl, AdaptationFieldControl, ContinuityCounter_fn, ContinuityCounter_m,
    ContainsPayload, HasPayload, ContainsAdaptationField, HasAdaptationField, getBit, Iso.has_payload, Iso.has_af.
  subst h. unfold Iso.hdr_of, Iso.hdr_of_bytes. cbn [Iso.tsc Iso.afc Iso.cc]. unfold get in *.
  repeat split; auto.
Qed.
Lemma check_errors_spec : CheckErrors p = Iso.check h.
Proof.
  destruct byte3_facts as (A & B & _).
  unfold CheckErrors, Iso.check, syncByte, SyncByte. rewrite A, B. subst h. reflexivity.
Qed.
End Getters.

(* function-style and method-style accessors agree on every list (no guard needed) *)
Lemma fn_eq_method p :
  Pid_fn p = PID_m p /\ PayloadUnitStartIndicator_fn p = PayloadUnitStartIndicator_m p /\
  ContainsPayload p = HasPayload p /\ ContainsAdaptationField p = HasAdaptationField p /\
  ContinuityCounter_fn p = ContinuityCounter_m p /\ IsNull_fn p = IsNull_m p /\ IsPat_fn p = IsPAT_m p.
Proof. repeat split; reflexivity. Qed.

(* the header record determines the four header bytes: ser_hdr inverts hdr_of *)
Lemma ser_hdr_of p : is_pkt p -> Iso.ser_hdr (Iso.hdr_of p) = firstn 4 p.
Proof.
  intros H. pose proof (get_byte p 1 H) as H1. pose proof (get_byte p 2 H) as H2. pose proof (get_byte p 3 H) as H3.
  destruct H as [L _]. unfold get in *.
  destruct p as [|b0 [|b1 [|b2 [|b3 t]]]]; cbn in L; try lia.
  unfold Iso.ser_hdr, Iso.hdr_of, Iso.hdr_of_bytes, nthN in *.
  cbn [Iso.sync Iso.tei Iso.pusi Iso.tp Iso.pid Iso.tsc Iso.afc Iso.cc N.to_nat nth firstn] in *.
  change (Pos.to_nat 1) with 1%nat in *. change (Pos.to_nat 2) with 2%nat in *. change (Pos.to_nat 3) with 3%nat in *.
  cbn [nth] in *.
  f_equal. f_equal; [lia|]. f_equal; [lia|]. f_equal. lia.
Qed.
Lemma hdr_of_ser h rest : Iso.hdr_ok h -> Iso.hdr_of (Iso.ser_hdr h ++ rest) = h.
Proof.
  intros (A & B & C & D & F & G & I & J). destruct h as [s a b c d e f g].
  unfold Iso.hdr_of, Iso.hdr_of_bytes, Iso.ser_hdr, nthN.
  cbn [Iso.sync Iso.tei Iso.pusi Iso.tp Iso.pid Iso.tsc Iso.afc Iso.cc N.to_nat app] in *.
  change (Pos.to_nat 1) with 1%nat. change (Pos.to_nat 2) with 2%nat. change (Pos.to_nat 3) with 3%nat.
  cbn [nth]. f_equal; lia.
Qed.
Lemma hdr_ok_of p : is_pkt p -> Iso.hdr_ok (Iso.hdr_of p).
Proof.
  intros H. pose proof (get_byte p 0 H). pose proof (get_byte p 1 H). pose proof (get_byte p 2 H).
  pose proof (get_byte p 3 H). unfold get in *.
  unfold Iso.hdr_ok, Iso.hdr_of, Iso.hdr_of_bytes. cbn [Iso.sync Iso.tei Iso.pusi Iso.tp Iso.pid Iso.tsc Iso.afc Iso.cc].
  repeat split; lia.
Qed.
(* two packets with the same header record and the same bytes from index 4 on are equal *)
Lemma hdr_tail_ext p q : is_pkt p -> is_pkt q -> Iso.hdr_of p = Iso.hdr_of q ->
  (forall j, 4 <= j -> get p j = get q j) -> p = q.
Proof.
  intros Hp Hq E T.
  pose proof (ser_hdr_of p Hp) as Sp. pose proof (ser_hdr_of q Hq) as Sq. rewrite E in Sp. rewrite Sp in Sq.
  apply nth_ext_N; [destruct Hp, Hq; congruence|]. intros i Hi.
  destruct (N.lt_ge_cases i 4) as [Lt|Ge]; [|apply T; exact Ge].
  assert (forall l : bytes, nthN l i = nthN (firstn 4 l) i) as F.
  { intros l. unfold nthN. rewrite nth_firstn_lt by lia. reflexivity. }
  rewrite (F p), (F q), Sq. reflexivity.
Qed.

(* ------------------------------------------------------------------ setters *)
(* every byte except index i (resp. i and k) is untouched *)
Definition frame_except (p p' : bytes) (i : N) : Prop := forall j, j <> i -> get p' j = get p j.
Definition frame_except2 (p p' : bytes) (i k : N) : Prop := forall j, j <> i -> j <> k -> get p' j = get p j.

Lemma hdr_upd1 p x : is_pkt p ->
  Iso.hdr_of (upd p 1 x) = Iso.hdr_of_bytes (get p 0) x (get p 2) (get p 3).
Proof.
  intros H. unfold Iso.hdr_of. fold (get (upd p 1 x) 0) (get (upd p 1 x) 1) (get (upd p 1 x) 2) (get (upd p 1 x) 3).
  rewrite (get_upd_same _ _ _ H) by lia. rewrite !get_upd_other by lia. reflexivity.
Qed.
Lemma hdr_upd3 p x : is_pkt p ->
  Iso.hdr_of (upd p 3 x) = Iso.hdr_of_bytes (get p 0) (get p 1) (get p 2) x.
Proof.
  intros H. unfold Iso.hdr_of. fold (get (upd p 3 x) 0) (get (upd p 3 x) 1) (get (upd p 3 x) 2) (get (upd p 3 x) 3).
  rewrite (get_upd_same _ _ _ H) by lia. rewrite !get_upd_other by lia. reflexivity.
Qed.
Lemma hdr_upd12 p x y : is_pkt p -> x < 256 ->
  Iso.hdr_of (upd (upd p 1 x) 2 y) = Iso.hdr_of_bytes (get p 0) x y (get p 3).
Proof.
  intros H Hx. pose proof (upd_pkt p 1 x H Hx) as H1. unfold Iso.hdr_of.
  fold (get (upd (upd p 1 x) 2 y) 0) (get (upd (upd p 1 x) 2 y) 1) (get (upd (upd p 1 x) 2 y) 2) (get (upd (upd p 1 x) 2 y) 3).
  rewrite (get_upd_same _ _ _ H1) by lia. rewrite !(get_upd_other _ 2) by lia.
  rewrite (get_upd_same _ _ _ H) by lia. rewrite !get_upd_other by lia. reflexivity.
Qed.
Lemma hdr_of_get p : Iso.hdr_of p = Iso.hdr_of_bytes (get p 0) (get p 1) (get p 2) (get p 3).
Proof. reflexivity. Qed.
Lemma frame_upd p i v : frame_except p (upd p i v) i.
Proof. intros j Hj. apply get_upd_other. congruence. Qed.

Ltac hdr_eq := unfold Iso.hdr_of_bytes, Iso.with_tei, Iso.with_pusi, Iso.with_tp, Iso.with_pid, Iso.with_tsc,
    Iso.with_afc, Iso.with_cc;
  cbn [Iso.sync Iso.tei Iso.pusi Iso.tp Iso.pid Iso.tsc Iso.afc Iso.cc]; f_equal; congruence.

Section Setters.
Variable p : bytes.
Hypothesis H : is_pkt p.

Lemma set_tei_lift v : let p' := SetTransportErrorIndicator p v in
  Iso.hdr_of p' = Iso.with_tei (Iso.hdr_of p) (b2n v) /\ frame_except p p' 1 /\ is_pkt p'.
Proof.
  pose proof (sweep1_ok 256 setbit1_ok setbit1_sweep (get p 1) (get_byte p 1 H)) as S.
  unfold setbit1_ok, f1, f1_eqb in S. split_andb S.
  unfold SetTransportErrorIndicator, setBit. destruct v; cbn [b2n]; cbv zeta;
    (split; [rewrite (hdr_upd1 _ _ H), hdr_of_get; hdr_eq | split; [apply frame_upd | apply upd_pkt; assumption]]).
Qed.
Lemma set_pusi_lift v : let p' := SetPayloadUnitStartIndicator p v in
  Iso.hdr_of p' = Iso.with_pusi (Iso.hdr_of p) (b2n v) /\ frame_except p p' 1 /\ is_pkt p'.
Proof.
  pose proof (sweep1_ok 256 setbit1_ok setbit1_sweep (get p 1) (get_byte p 1 H)) as S.
  unfold setbit1_ok, f1, f1_eqb in S. split_andb S.
  unfold SetPayloadUnitStartIndicator, setBit. destruct v; cbn [b2n]; cbv zeta;
    (split; [rewrite (hdr_upd1 _ _ H), hdr_of_get; hdr_eq | split; [apply frame_upd | apply upd_pkt; assumption]]).
Qed.
Lemma set_tp_lift v : let p' := SetTransportPriority p v in
  Iso.hdr_of p' = Iso.with_tp (Iso.hdr_of p) (b2n v) /\ frame_except p p' 1 /\ is_pkt p'.
Proof.
  pose proof (sweep1_ok 256 setbit1_ok setbit1_sweep (get p 1) (get_byte p 1 H)) as S.
  unfold setbit1_ok, f1, f1_eqb in S. split_andb S.
  unfold SetTransportPriority, setBit. destruct v; cbn [b2n]; cbv zeta;
    (split; [rewrite (hdr_upd1 _ _ H), hdr_of_get; hdr_eq | split; [apply frame_upd | apply upd_pkt; assumption]]).
Qed.
End Setters.

(* ---- Go int arguments ---- *)
Lemma byteZ_lt z : byteZ z < 256.
Proof. unfold byteZ. lia. Qed.
Lemma pid_arith z : (byteZ (Z.shiftr z 8) mod 32) * 256 + byteZ z = Z.to_N (z mod 8192).
Proof. unfold byteZ. rewrite Z.shiftr_div_pow2 by lia. change (2 ^ 8)%Z with 256%Z. lia. Qed.
Lemma cc_arith z : byteZ (Z.land z 15) = Z.to_N (z mod 16).
Proof.
  unfold byteZ. change 15%Z with (Z.ones 4). rewrite Z.land_ones by lia. change (2 ^ 4)%Z with 16%Z. f_equal. lia.
Qed.

Section Setters2.
Variable p : bytes.
Hypothesis H : is_pkt p.

(* SetPID with ANY Go int: the 13 low bits are stored *)
Lemma set_pid_lift z : let p' := SetPID p z in
  Iso.hdr_of p' = Iso.with_pid (Iso.hdr_of p) (Z.to_N (z mod 8192)) /\ frame_except2 p p' 1 2 /\ is_pkt p'.
Proof.
  pose proof (sweep2_ok 256 256 setpid1_ok setpid1_sweep (get p 1) (byteZ (Z.shiftr z 8)) (get_byte p 1 H) (byteZ_lt _)) as S.
  unfold setpid1_ok, f1, f1_eqb in S. split_andb S.
  unfold SetPID. cbv zeta. split; [|split].
  - rewrite (hdr_upd12 _ _ _ H) by assumption. rewrite hdr_of_get, <- pid_arith. hdr_eq.
  - intros j J1 J2. rewrite !get_upd_other by congruence. reflexivity.
  - apply upd_pkt; [apply upd_pkt; assumption | apply byteZ_lt].
Qed.
Lemma set_tsc_lift v : v < 4 -> let p' := SetTransportScramblingControl p v in
  Iso.hdr_of p' = Iso.with_tsc (Iso.hdr_of p) v /\ frame_except p p' 3 /\ is_pkt p'.
Proof.
  intros Hv.
  pose proof (sweep2_ok 256 4 settsc_ok settsc_sweep (get p 3) v (get_byte p 3 H) Hv) as S.
  unfold settsc_ok, f3, f3_eqb in S. split_andb S.
  unfold SetTransportScramblingControl. cbv zeta.
  split; [rewrite (hdr_upd3 _ _ H), hdr_of_get; hdr_eq | split; [apply frame_upd | apply upd_pkt; assumption]].
Qed.
(* the header part of SetAdaptationFieldControl (used by C02) *)
Lemma set_afc_byte v : v < 4 -> let p' := upd p 3 (N.lor (N.land (get p 3) (not8 48)) (w8 (N.shiftl v 4))) in
  Iso.hdr_of p' = Iso.with_afc (Iso.hdr_of p) v /\ frame_except p p' 3 /\ is_pkt p'.
Proof.
  intros Hv.
  pose proof (sweep2_ok 256 4 setafc_ok setafc_sweep (get p 3) v (get_byte p 3 H) Hv) as S.
  unfold setafc_ok, f3, f3_eqb in S. split_andb S. cbv zeta.
  split; [rewrite (hdr_upd3 _ _ H), hdr_of_get; hdr_eq | split; [apply frame_upd | apply upd_pkt; assumption]].
Qed.
(* SetContinuityCounter with ANY Go int stores value mod 16 *)
Lemma set_cc_lift z : let p' := SetContinuityCounter p z in
  Iso.hdr_of p' = Iso.with_cc (Iso.hdr_of p) (Z.to_N (z mod 16)) /\ frame_except p p' 3 /\ is_pkt p'.
Proof.
  assert (Z.to_N (z mod 16) < 16) as Hv by lia.
  pose proof (sweep2_ok 256 16 setcc_ok setcc_sweep (get p 3) _ (get_byte p 3 H) Hv) as S.
  unfold setcc_ok, f3, f3_eqb in S. split_andb S.
  unfold SetContinuityCounter. rewrite cc_arith. cbv zeta.
  split; [rewrite (hdr_upd3 _ _ H), hdr_of_get; hdr_eq | split; [apply frame_upd | apply upd_pkt; assumption]].
Qed.
Lemma cc_m_spec : ContinuityCounter_m p = Iso.cc (Iso.hdr_of p).
Proof. exact (proj1 (proj2 (proj2 (proj2 (byte3_facts p H))))). Qed.
Lemma cc_lt : Iso.cc (Iso.hdr_of p) < 16.
Proof. unfold Iso.hdr_of, Iso.hdr_of_bytes. cbn [Iso.cc]. lia. Qed.
Lemma inc_cc_lift : let p' := IncContinuityCounter p in
  Iso.hdr_of p' = Iso.with_cc (Iso.hdr_of p) ((Iso.cc (Iso.hdr_of p) + 1) mod 16) /\ frame_except p p' 3 /\ is_pkt p'.
Proof.
  unfold IncContinuityCounter. rewrite cc_m_spec.
  replace ((Iso.cc (Iso.hdr_of p) + 1) mod 16) with (Z.to_N ((Z.of_N (Iso.cc (Iso.hdr_of p)) + 1) mod 16)) by lia.
  apply set_cc_lift.
Qed.
Lemma zero_cc_lift : let p' := ZeroContinuityCounter p in
  Iso.hdr_of p' = Iso.with_cc (Iso.hdr_of p) 0 /\ frame_except p p' 3 /\ is_pkt p'.
Proof. unfold ZeroContinuityCounter. exact (set_cc_lift 0%Z). Qed.

(* copying helpers: value of the returned packet *)
Lemma increment_cc_fn_lift : let p' := IncrementCC p in
  Iso.hdr_of p' = Iso.with_cc (Iso.hdr_of p) ((Iso.cc (Iso.hdr_of p) + 1) mod 16) /\ frame_except p p' 3 /\ is_pkt p'.
Proof.
  pose proof (sweep1_ok 256 inccc_ok inccc_sweep (get p 3) (get_byte p 3 H)) as S.
  unfold inccc_ok, f3, f3_eqb in S. split_andb S.
  unfold IncrementCC. rewrite (copy_packet_id p H). cbv zeta.
  split; [rewrite (hdr_upd3 _ _ H), hdr_of_get; hdr_eq | split; [apply frame_upd | apply upd_pkt; assumption]].
Qed.
Lemma zero_cc_fn_lift : let p' := ZeroCC p in
  Iso.hdr_of p' = Iso.with_cc (Iso.hdr_of p) 0 /\ frame_except p p' 3 /\ is_pkt p'.
Proof.
  pose proof (sweep1_ok 256 inccc_ok inccc_sweep (get p 3) (get_byte p 3 H)) as S.
  unfold inccc_ok, f3, f3_eqb in S. split_andb S.
  unfold ZeroCC. rewrite (copy_packet_id p H). cbv zeta.
  split; [rewrite (hdr_upd3 _ _ H), hdr_of_get; hdr_eq | split; [apply frame_upd | apply upd_pkt; assumption]].
Qed.
Lemma set_cc_fn_lift v : v < 16 -> let p' := SetCC p v in
  Iso.hdr_of p' = Iso.with_cc (Iso.hdr_of p) v /\ frame_except p p' 3 /\ is_pkt p'.
Proof.
  intros Hv.
  pose proof (sweep2_ok 256 16 setcc_ok setcc_sweep (get p 3) v (get_byte p 3 H) Hv) as S.
  unfold setcc_ok, f3, f3_eqb in S. split_andb S.
  unfold SetCC. rewrite (copy_packet_id p H). cbv zeta.
  split; [rewrite (hdr_upd3 _ _ H), hdr_of_get; hdr_eq | split; [apply frame_upd | apply upd_pkt; assumption]].
Qed.
End Setters2.

(* ------------------------------------------------------------------ mask form of the frame condition:
   inside the written byte every bit outside the field's mask survives *)
Section MaskFrame.
Variable p : bytes.
Hypothesis H : is_pkt p.
Definition keeps (p p' : bytes) (i mask : N) : Prop :=
  N.land (get p' i) (not8 mask) = N.land (get p i) (not8 mask).

Lemma mask_frame_all (z : Z) (v : bool) (t c : N) : t < 4 -> c < 16 ->
  keeps p (SetTransportErrorIndicator p v) 1 128 /\ keeps p (SetPayloadUnitStartIndicator p v) 1 64 /\
  keeps p (SetTransportPriority p v) 1 32 /\ keeps p (SetPID p z) 1 31 /\
  keeps p (SetTransportScramblingControl p t) 3 192 /\ keeps p (SetContinuityCounter p z) 3 15 /\
  keeps p (IncContinuityCounter p) 3 15 /\ keeps p (ZeroContinuityCounter p) 3 15 /\
  keeps p (IncrementCC p) 3 15 /\ keeps p (ZeroCC p) 3 15 /\ keeps p (SetCC p c) 3 15.
Proof.
  intros Ht Hc.
  pose proof (sweep2_ok 256 256 frame_ok frame_sweep (get p 1) (byteZ (Z.shiftr z 8)) (get_byte p 1 H) (byteZ_lt _)) as S1.
  pose proof (sweep2_ok 256 256 frame_ok frame_sweep (get p 3) t (get_byte p 3 H) ltac:(lia)) as S3.
  pose proof (sweep2_ok 256 256 frame_ok frame_sweep (get p 3) c (get_byte p 3 H) ltac:(lia)) as S4.
  assert (forall y, Z.to_N (y mod 16) < 16) as Hm by (intros; lia).
  pose proof (sweep2_ok 256 256 frame_ok frame_sweep (get p 3) (Z.to_N (z mod 16)) (get_byte p 3 H) ltac:(specialize (Hm z); lia)) as S5.
  pose proof (sweep2_ok 256 256 frame_ok frame_sweep (get p 3) (Z.to_N ((Z.of_N (ContinuityCounter_m p) + 1) mod 16))
                (get_byte p 3 H) ltac:(specialize (Hm (Z.of_N (ContinuityCounter_m p) + 1)%Z); lia)) as S6.
  pose proof (sweep2_ok 256 256 frame_ok frame_sweep (get p 3) 0 (get_byte p 3 H) ltac:(lia)) as S7.
  unfold frame_ok in *.
  rewrite (N.mod_small t 4) in S3 by lia. rewrite (N.mod_small c 16) in S4 by lia.
  rewrite (N.mod_small (Z.to_N (z mod 16)) 16) in S5 by apply Hm.
  rewrite (N.mod_small (Z.to_N ((Z.of_N (ContinuityCounter_m p) + 1) mod 16)) 16) in S6 by apply Hm.
  change (0 mod 16) with 0 in S7.
  split_andb S1.
  unfold keeps, SetTransportErrorIndicator, SetPayloadUnitStartIndicator, SetTransportPriority, setBit, SetPID,
    SetTransportScramblingControl, IncContinuityCounter, ZeroContinuityCounter, SetContinuityCounter,
    IncrementCC, ZeroCC, SetCC.
  rewrite (copy_packet_id p H). rewrite !cc_arith. change (Z.to_N (0 mod 16)) with 0.
  assert (is_pkt (upd p 1 (N.lor (N.land (get p 1) (not8 31)) (N.land (byteZ (Z.shiftr z 8)) 31)))) as H1.
  { apply upd_pkt; [exact H|]. pose proof (sweep2_ok 256 256 setpid1_ok setpid1_sweep (get p 1) (byteZ (Z.shiftr z 8)) (get_byte p 1 H) (byteZ_lt _)) as S.
    unfold setpid1_ok, f1, f1_eqb in S. split_andb S. assumption. }
  destruct v; cbv zeta; rewrite ?(get_upd_other _ 2 1) by lia; rewrite !(get_upd_same _ _ _ H) by lia;
    repeat split; assumption.
Qed.
End MaskFrame.

(* ------------------------------------------------------------------ Equal *)
Lemma bytes_eqb_eq a b : bytes_eqb a b = true <-> a = b.
Proof.
  revert b; induction a as [|x a IH]; intros [|y b]; cbn; split; intros E; try discriminate; auto.
  - apply andb_prop in E as [E1 E2]. apply N.eqb_eq in E1. apply IH in E2. congruence.
  - injection E as -> ->. rewrite N.eqb_refl. apply IH. reflexivity.
Qed.

(* ------------------------------------------------------------------ FromBytes, CopyPackets, New *)
Lemma from_bytes_spec b :
  (length b = 188%nat -> FromBytes b = (Some b, CheckErrors b)) /\
  (length b <> 188%nat -> FromBytes b = (None, Some E.InvalidPacketLength)).
Proof.
  unfold FromBytes, PacketSize, len. split; intros L.
  - rewrite L. cbn [N.of_nat]. change (N.pos (Pos.of_succ_nat 187) =? 188) with true. cbn [negb].
    rewrite blit_all; [reflexivity|]. unfold zero_packet. rewrite repeatN_length. rewrite L. reflexivity.
  - replace (N.of_nat (length b) =? 188) with false; [reflexivity|]. symmetry. apply N.eqb_neq. lia.
Qed.
Lemma copy_packets_id ps : Forall is_pkt ps -> CopyPackets ps = ps.
Proof.
  unfold CopyPackets. induction 1 as [|p ps Hp _ IH]; cbn [map]; [reflexivity|]. rewrite IH, (copy_packet_id p Hp). reflexivity.
Qed.
Lemma new_spec : is_pkt New /\ Iso.hdr_of New = Iso.mkHdr 71 0 0 0 8191 0 1 0 /\
  (forall j, 4 <= j -> j < 188 -> get New j = 0).
Proof.
  split; [|split].
  - split; [reflexivity|]. unfold is_bytes. apply Forall_forall. intros x Hx.
    assert (forallb is_byteb New = true) as F by (vm_compute; reflexivity).
    rewrite forallb_forall in F. specialize (F x Hx). unfold is_byteb in F. apply N.ltb_lt in F. exact F.
  - vm_compute. reflexivity.
  - intros j J1 J2.
    assert (sweep1 188 (fun j => (j <? 4) || (get New j =? 0)) = true) as S by (vm_compute; reflexivity).
    pose proof (sweep1_ok _ _ S j ltac:(lia)) as F. cbv beta in F.
    apply orb_prop in F as [F|F]; [apply N.ltb_lt in F; lia | apply N.eqb_eq in F; exact F].
Qed.

(* ------------------------------------------------------------------ CheckErrors: when, and which error wins *)
Lemma check_iff (h : Iso.hdr) :
  (Iso.check h <> None <-> (Iso.sync h <> 71 \/ Iso.tsc h = 1 \/ Iso.afc h = 0)) /\
  (Iso.check h = Some E.BadSyncByte <-> Iso.sync h <> 71) /\
  (Iso.check h = Some E.InvalidTSCFlag <-> (Iso.sync h = 71 /\ Iso.tsc h = 1)) /\
  (Iso.check h = Some E.InvalidAFCFlag <-> (Iso.sync h = 71 /\ Iso.tsc h <> 1 /\ Iso.afc h = 0)).
Proof.
  unfold Iso.check, E.BadSyncByte, E.InvalidTSCFlag, E.InvalidAFCFlag.
  destruct (N.eqb_spec (Iso.sync h) 71) as [S|S]; cbn [negb];
  destruct (N.eqb_spec (Iso.tsc h) 1) as [T|T];
  destruct (N.eqb_spec (Iso.afc h) 0) as [A|A];
  repeat split; intros; try congruence; try tauto; try (intuition congruence); try discriminate.
Qed.

(* ------------------------------------------------------------------ corollaries in the shape of the property *)
Lemma set_pid_in_range p : is_pkt p -> forall v, v < 8192 -> let p' := SetPID p (Z.of_N v) in
  Iso.hdr_of p' = Iso.with_pid (Iso.hdr_of p) v /\ PID_m p' = v /\ Pid_fn p' = v /\
  frame_except2 p p' 1 2 /\ is_pkt p'.
Proof.
  intros H v Hv. destruct (set_pid_lift p H (Z.of_N v)) as (A & B & C).
  replace (Z.to_N (Z.of_N v mod 8192)) with v in A by lia. cbv zeta.
  destruct (pid_facts _ C) as [P1 P2]. rewrite A in P1, P2. unfold Iso.with_pid in P1, P2. cbn [Iso.pid] in P1, P2.
  repeat split; try assumption; destruct C; assumption.
Qed.
Lemma set_cc_in_range p : is_pkt p -> forall v, v < 16 -> let p' := SetContinuityCounter p (Z.of_N v) in
  Iso.hdr_of p' = Iso.with_cc (Iso.hdr_of p) v /\ ContinuityCounter_m p' = v /\ frame_except p p' 3 /\ is_pkt p'.
Proof.
  intros H v Hv. destruct (set_cc_lift p H (Z.of_N v)) as (A & B & C).
  replace (Z.to_N (Z.of_N v mod 16)) with v in A by lia. cbv zeta.
  pose proof (cc_m_spec _ C) as P. rewrite A in P. unfold Iso.with_cc in P. cbn [Iso.cc] in P.
  repeat split; try assumption; destruct C; assumption.
Qed.
Lemma cc_copy_helpers p : is_pkt p ->
  (let p' := IncrementCC p in
   Iso.hdr_of p' = Iso.with_cc (Iso.hdr_of p) ((Iso.cc (Iso.hdr_of p) + 1) mod 16) /\ frame_except p p' 3 /\ is_pkt p') /\
  (let p' := ZeroCC p in Iso.hdr_of p' = Iso.with_cc (Iso.hdr_of p) 0 /\ frame_except p p' 3 /\ is_pkt p') /\
  (forall v, v < 16 -> let p' := SetCC p v in
   Iso.hdr_of p' = Iso.with_cc (Iso.hdr_of p) v /\ frame_except p p' 3 /\ is_pkt p').
Proof.
  intros H. split; [exact (increment_cc_fn_lift p H)|]. split; [exact (zero_cc_fn_lift p H)|].
  intros v Hv. exact (set_cc_fn_lift p H v Hv).
Qed.
Lemma check_errors_iff p : is_pkt p -> let h := Iso.hdr_of p in
  (CheckErrors p <> None <-> (Iso.sync h <> 71 \/ Iso.tsc h = 1 \/ Iso.afc h = 0)) /\
  (CheckErrors p = Some E.BadSyncByte <-> Iso.sync h <> 71) /\
  (CheckErrors p = Some E.InvalidTSCFlag <-> (Iso.sync h = 71 /\ Iso.tsc h = 1)) /\
  (CheckErrors p = Some E.InvalidAFCFlag <-> (Iso.sync h = 71 /\ Iso.tsc h <> 1 /\ Iso.afc h = 0)).
Proof. intros H. cbv zeta. rewrite (check_errors_spec p H). apply check_iff. Qed.
Lemma from_bytes_len b q : fst (FromBytes b) = Some q -> length b = 188%nat /\ q = b.
Proof.
  destruct (from_bytes_spec b) as [A B]. destruct (Nat.eq_dec (length b) 188) as [L|L].
  - rewrite (A L). cbn [fst]. intros E. injection E as <-. auto.
  - rewrite (B L). cbn [fst]. discriminate.
Qed.
