(* Header, adaptation_field_length and payload are untouched by every call and every history (byte-level
   statement, without reference to the logical value). *)
From Gots Require Import Base.Prelude Model.Pcr Model.AF Spec.AFSpec
  Proofs.AFLists Proofs.AFRepr Proofs.PcrBytes Proofs.AFSetters Proofs.AFHistory Proofs.AFLastSet.
Import AF.

Lemma rel_len o l l' : op_rel l o (Done l') -> l_len l' = l_len l.
Proof. intros H. destruct o; cbn [op_rel] in H;
  try (destruct H as (u & _ & _ & E); try (destruct v); cbn [spec_step] in E;
       repeat match type of E with context [if ?c then _ else _] => destruct c end;
       first [ discriminate E | injection E as ->; reflexivity
             | symmetry in E; apply grow_inv in E; subst l'; reflexivity ]).
  destruct H as (hs & ls & ps & _ & _ & _ & _ & E). destruct (content_len ls <=? l_len l); [|discriminate].
  injection E as ->. reflexivity. Qed.
Lemma hist_len h : forall l l', hist_rel l h l' -> l_len l' = l_len l.
Proof. induction h; intros l l' H; inversion H; subst; [reflexivity| |].
  - rewrite (IHh l1 l') by assumption. eapply rel_len; eassumption.
  - apply IHh; assumption. Qed.

Lemma len_ser l : fits l -> len (ser_laf l) = 1 + l_len l.
Proof. unfold fits, ser_laf, content_len. intros H. rewrite !len_cons, len_app, len_repeatN. lia. Qed.

Lemma repr_frame p l hdr pay : repr p l hdr pay ->
  takeN 5 p = hdr ++ [l_len l] /\ dropN (5 + l_len l) p = pay.
Proof. intros (Hp & Hh & _ & _ & _ & Hf). subst p. split.
  - replace (hdr ++ ser_laf l ++ pay) with ((hdr ++ [l_len l]) ++ (flags l :: body l ++ repeatN 255 (l_len l - content_len l)) ++ pay).
    + apply takeN_app. rewrite len_app. unfold len. rewrite Hh. reflexivity.
    + unfold ser_laf. rewrite <- !app_assoc. reflexivity.
  - rewrite app_assoc. apply dropN_app. rewrite len_app, len_ser by exact Hf. unfold len. rewrite Hh. lia. Qed.

Theorem frame_history p l hdr pay h : repr p l hdr pay -> Forall op_ok h ->
  takeN 5 (run p h) = takeN 5 p /\ dropN (5 + l_len l) (run p h) = dropN (5 + l_len l) p /\
  length (run p h) = 188%nat.
Proof. intros R Hok. destruct (history h p l hdr pay R Hok) as (l' & HR & R').
  pose proof (hist_len h l l' HR) as EL.
  destruct (repr_frame _ _ _ _ R) as [A B]. destruct (repr_frame _ _ _ _ R') as [A' B'].
  rewrite EL in *. rewrite A, B, A', B'. repeat split. apply R'. Qed.
