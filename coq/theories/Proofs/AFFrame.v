(* Header, adaptation_field_length and payload are untouched by every call and every history (byte-level
   statement, without reference to the logical value). *)
From Gots Require Import Base.Prelude Model.Pcr Model.AF Spec.AFSpec
  Proofs.AFLists Proofs.AFRepr Proofs.PcrBytes Proofs.AFSetters Proofs.AFHistory Proofs.AFGetters Proofs.AFLastSet.
Import AF.

Lemma rel_len o l l' : op_rel l o (Done l') -> l_len l' = l_len l.
Proof. intros H. destruct o; cbn [op_rel] in H;
  try (destruct H as (u & _ & _ & E); try (destruct v); cbn [spec_step] in E;
       repeat match type of E with context [if ?c then _ else _] => destruct c end;
       first [ discriminate E | injection E as ->; reflexivity
             | symmetry in E; apply grow_inv in E; subst l'; reflexivity ]).
  destruct H as (hs & ls & ps & _ & _ & _ & _ & E). destruct (content_len ls <=? l_len l); [|discriminate].
  injection E as ->. reflexivity. Qed.
Lemma hist_len h : forall l l', hist_rel l h l' -> l_len l' = l_len l.
Proof. induction h; intros l l' H; inversion H; subst; [reflexivity| |].
  - rewrite (IHh l1 l') by assumption. eapply rel_len; eassumption.
  - apply IHh; assumption. Qed.

Lemma len_ser l : fits l -> len (ser_laf l) = 1 + l_len l.
Proof. unfold fits, ser_laf, content_len. intros H. rewrite !len_cons, len_app, len_repeatN. lia. Qed.

Lemma repr_frame p l hdr pay : repr p l hdr pay ->
  takeN 5 p = hdr ++ [l_len l] /\ dropN (5 + l_len l) p = pay.
Proof. intros (Hp & Hh & _ & _ & _ & Hf). subst p. split.
  - replace (hdr ++ ser_laf l ++ pay) with ((hdr ++ [l_len l]) ++ (flags l :: body l ++ repeatN 255 (l_len l - content_len l)) ++ pay).
    + apply takeN_app. rewrite len_app. unfold len. rewrite Hh. reflexivity.
    + unfold ser_laf. rewrite <- !app_assoc. reflexivity.
  - rewrite app_assoc. apply dropN_app. rewrite len_app, len_ser by exact Hf. unfold len. rewrite Hh. lia. Qed.

Theorem frame_history p l hdr pay h : repr p l hdr pay -> Forall op_ok h ->
  takeN 5 (run p h) = takeN 5 p /\ dropN (5 + l_len l) (run p h) = dropN (5 + l_len l) p /\
  length (run p h) = 188%nat.
Proof. intros R Hok. destruct (history h p l hdr pay R Hok) as (l' & HR & R').
  pose proof (hist_len h l l' HR) as EL.
  destruct (repr_frame _ _ _ _ R) as [A B]. destruct (repr_frame _ _ _ _ R') as [A' B'].
  rewrite EL in *. rewrite A, B, A', B'. repeat split. apply R'. Qed.

(* The encoding is faithful in the strong sense: the bytes determine the logical value (and header, payload). *)
Lemma opt_res_inj {A B} (f : A -> B) e (o1 o2 : option A) :
  (forall a b, f a = f b -> a = b) -> opt_res o1 f e = opt_res o2 f e -> o1 = o2.
Proof. intros I. destruct o1, o2; cbn; intros H; try discriminate; [|reflexivity].
  injection H as H. f_equal. apply I. exact H. Qed.

Theorem repr_unique p l1 l2 hdr1 hdr2 pay1 pay2 :
  repr p l1 hdr1 pay1 -> repr p l2 hdr2 pay2 -> l1 = l2 /\ hdr1 = hdr2 /\ pay1 = pay2.
Proof. intros R1 R2.
  destruct (getters_agree _ _ _ _ R1) as (M1 & F1).
  destruct (getters_agree _ _ _ _ R2) as (M2 & F2).
  destruct F1 as (a1 & b1 & c1 & d1 & _ & _ & _ & _ & _ & e1 & f1 & g1 & h1 & _).
  destruct F2 as (a2 & b2 & c2 & d2 & _ & _ & _ & _ & _ & e2 & f2 & g2 & h2 & _).
  destruct M1 as (_ & _ & _ & _ & _ & _ & _ & _ & _ & _ & _ & _ & _ & x1).
  destruct M2 as (_ & _ & _ & _ & _ & _ & _ & _ & _ & _ & _ & _ & _ & x2).
  assert (EL: l1 = l2).
  { destruct l1 as [n1 di1 ra1 pr1 pc1 op1 sp1 tp1 ex1], l2 as [n2 di2 ra2 pr2 pc2 op2 sp2 tp2 ex2].
    cbn [l_len l_disc l_rai l_prio l_pcr l_opcr l_splice l_tpd l_ext] in *.
    rewrite a1 in a2. rewrite b1 in b2. rewrite c1 in c2. rewrite d1 in d2.
    rewrite e1 in e2. rewrite f1 in f2. rewrite g1 in g2. rewrite h1 in h2. rewrite x1 in x2.
    apply opt_res_inj in e2; [|auto]. apply opt_res_inj in f2; [|auto]. apply opt_res_inj in g2; [|auto].
    apply opt_res_inj in h2; [|auto]. apply opt_res_inj in x2; [|intros u v [= _ E]; exact E].
    subst. reflexivity. }
  subst l2. split; [reflexivity|].
  destruct (repr_frame _ _ _ _ R1) as [A1 B1]. destruct (repr_frame _ _ _ _ R2) as [A2 B2].
  rewrite A1 in A2. rewrite B1 in B2. split; [|exact B2].
  apply app_inv_tail in A2. exact A2. Qed.
