(* Lemmas behind Properties/Extra*.v (coverage round, notes/coverage.md): small facts about exported functions and
   constant tables that the twenty properties do not state.  Finite facts by vm_compute over the complete table. *)
From Gots Require Import Base.Prelude.
From Gots Require Import Model.Pts Model.Packet Model.Create Model.Psi Model.Pmt Model.PmtDesc Model.StreamType Model.Pes
  Model.Ebp Model.IO Model.PacketWriter Model.Scte Model.ScteEnc Model.SegDesc Model.Printers Model.Errors Model.Pat.
Local Open Scope N_scope.

(* ---- decidable NoDup on N ---- *)
Fixpoint nodupb (l : list N) : bool :=
  match l with [] => true | x :: t => negb (existsb (N.eqb x) t) && nodupb t end.
Lemma nodupb_sound : forall l, nodupb l = true -> NoDup l.
Proof.
  induction l as [|x t IH]; cbn [nodupb]; intros H; constructor.
  - apply andb_prop in H. destruct H as [H _]. intros Hin.
    assert (existsb (N.eqb x) t = true) by (apply existsb_exists; exists x; split; [exact Hin | apply N.eqb_refl]).
    rewrite H0 in H. discriminate.
  - apply IH. apply andb_prop in H. tauto.
Qed.
Definition inb (x : N) (l : list N) : bool := existsb (N.eqb x) l.
Lemma inb_In : forall x l, inb x l = true <-> In x l.
Proof.
  intros x l. unfold inb. rewrite existsb_exists. split.
  - intros [y [Hy E]]. apply N.eqb_eq in E. subst. exact Hy.
  - intros H. exists x. split; [exact H | apply N.eqb_refl].
Qed.
Definition subsetb (a b : list N) : bool := forallb (fun x => inb x b) a.
Lemma subsetb_sound : forall a b, subsetb a b = true -> forall x, In x a -> In x b.
Proof. intros a b H x Hx. unfold subsetb in H. rewrite forallb_forall in H. apply inb_In. apply H. exact Hx. Qed.

(* ---- errors.go ---- *)
Lemma errors_count : length Errors.codes = 40%nat.
Proof. reflexivity. Qed.
Lemma errors_distinct_by_identity : NoDup Errors.codes.
Proof. apply nodupb_sound. vm_compute. reflexivity. Qed.
Lemma errors_shared_text : Errors.text_class E.InvalidAFCFlag = Errors.text_class E.InvalidPacketLength /\ E.InvalidAFCFlag <> E.InvalidPacketLength.
Proof. split; [reflexivity | discriminate]. Qed.
Lemma errors_text_separates_all_other_pairs : forall a b, In a Errors.codes -> In b Errors.codes ->
  Errors.text_class a = Errors.text_class b ->
  a = b \/ (a = E.InvalidPacketLength /\ b = E.InvalidAFCFlag) \/ (a = E.InvalidAFCFlag /\ b = E.InvalidPacketLength).
Proof.
  intros a b _ _. unfold Errors.text_class.
  destruct (N.eqb_spec a E.InvalidAFCFlag) as [Ha|Ha]; destruct (N.eqb_spec b E.InvalidAFCFlag) as [Hb|Hb]; intros H.
  - left. rewrite Ha, Hb. reflexivity.
  - right; right. split; [exact Ha | symmetry; exact H].
  - right; left. split; [exact H | exact Hb].
  - left; exact H.
Qed.

(* ---- pts.go constants ---- *)
Lemma pts_constants :
  Pts.MaxPtsTicks = 2 ^ 33 /\ Pts.MaxPtsValue = Pts.MaxPtsTicks - 1 /\
  Pts.Lower = 1800 * Pts.Consts.PtsClockRate /\ Pts.Upper = Pts.MaxPtsValue - Pts.Lower /\
  Pts.PosInf = 2 ^ 64 - 1 /\ Pts.NegInf = 2 ^ 64 - 2 /\
  Pts.Consts.PTS_DTS_INDICATOR_BOTH = 3 /\ Pts.Consts.PTS_DTS_INDICATOR_ONLY_PTS = 2 /\ Pts.Consts.PTS_DTS_INDICATOR_NONE = 0.
Proof. vm_compute. repeat split. Qed.
(* the PES header model reads the two indicator bits exactly as these constants say *)
Lemma pts_dts_indicator_meaning : forall h,
  (Pes.ptsDtsIndicator h = Pts.Consts.PTS_DTS_INDICATOR_BOTH -> Pes.has_pts h = true /\ Pes.has_dts h = true) /\
  (Pes.ptsDtsIndicator h = Pts.Consts.PTS_DTS_INDICATOR_ONLY_PTS -> Pes.has_pts h = true /\ Pes.has_dts h = false) /\
  (Pes.ptsDtsIndicator h = Pts.Consts.PTS_DTS_INDICATOR_NONE -> Pes.has_pts h = false /\ Pes.has_dts h = false).
Proof. intros h. unfold Pes.has_pts, Pes.has_dts. split; [|split]; intros ->; split; reflexivity. Qed.

(* ---- packet ---- *)
Lemma new_adaptation_field :
  exists p, Packet.NewAdaptationField = Ok p /\ length p = 188%nat /\ Packet.AdaptationFieldControl p = Packet.Consts.AdaptationFieldFlag /\
            Packet.HasAdaptationField p = true /\ Packet.HasPayload p = false /\ Packet.AFP.Length p = 183 /\
            Packet.PID_m p = Packet.NullPacketPid /\ nthN p 0 = Packet.SyncByte /\ nthN p 5 = 0 /\
            skipn 6 p = repeat 255 182.
Proof. eexists. vm_compute. repeat split. Qed.
Lemma adaptation_field_view : forall p,
  (Packet.HasAdaptationField p = true -> Packet.AdaptationField_m p = Ok p) /\
  (Packet.HasAdaptationField p = false -> Packet.AdaptationField_m p = Err E.NoAdaptationField).
Proof. intros p. unfold Packet.AdaptationField_m. split; intros ->; reflexivity. Qed.
Lemma packet_constants :
  Packet.Consts.PayloadFlag = 1 /\ Packet.Consts.AdaptationFieldFlag = 2 /\ Packet.Consts.PayloadAndAdaptationFieldFlag = 3 /\
  Packet.Consts.PayloadAndAdaptationFieldFlag = N.lor Packet.Consts.PayloadFlag Packet.Consts.AdaptationFieldFlag /\
  Packet.AdaptationFieldControl Packet.New = Packet.Consts.PayloadFlag /\
  Packet.TransportScramblingControl Packet.New = Packet.Consts.NoScrambleFlag /\
  NoDup [Packet.Consts.NoScrambleFlag; Packet.Consts.ScrambleEvenKeyFlag; Packet.Consts.ScrambleOddKeyFlag].
Proof. repeat split; try reflexivity. apply nodupb_sound. reflexivity. Qed.
Lemma test_packets :
  length Create.TestPatPacket = 188%nat /\ length Create.TestPmtPacket = 188%nat /\
  Packet.PID_m Create.TestPatPacket = 0 /\ Packet.IsPAT_m Create.TestPatPacket = true /\
  Packet.PID_m Create.TestPmtPacket = 100 /\
  Packet.PayloadUnitStartIndicator_m Create.TestPatPacket = true /\ Packet.PayloadUnitStartIndicator_m Create.TestPmtPacket = true /\
  (let? pat := Pat.new_pat Create.TestPatPacket in Pat.program_map pat) = Ok [(1, 100)].
Proof. vm_compute. repeat split. Qed.
Lemma writer_adapters : forall (f : PacketWriter.wfun) k p c,
  PacketWriter.packet_writer_func f k p = f k p /\ PacketWriter.nop_closer_write f k p = f k p /\
  PacketWriter.nop_closer_close = None /\ PacketWriter.io_writer_close = None /\ PacketWriter.io_write_closer_close c = c.
Proof. intros. repeat split. Qed.

(* ---- io.go ---- *)
Lemma is_synced_spec : forall b0 b1 b2 b3 rest lst te,
  let r := SyncIO.mkR (b0 :: b1 :: b2 :: b3 :: rest) lst te in
  let pid := (b1 mod 32) * 256 + b2 in
  b1 < 256 -> b2 < 256 -> b3 < 256 ->
  SyncIO.is_synced r =
    Ok ((b0 =? 71) && negb (N.land b3 48 =? 0) && ((pid <? 4) || (15 <? pid)), None,
        SyncIO.mkR (b0 :: b1 :: b2 :: b3 :: rest) None te).
Proof.
  intros b0 b1 b2 b3 rest lst te r pid H1 H2 H3. subst r.
  unfold SyncIO.is_synced, SyncIO.is_synced_over, SyncIO.o_pk, SyncIO.peek.
  cbn [SyncIO.rest SyncIO.terr bind].
  replace (4 <=? len (b0 :: b1 :: b2 :: b3 :: rest)) with true
    by (symmetry; apply N.leb_le; unfold len; cbn [length]; lia).
  cbn [bind]. unfold takeN. replace (N.to_nat 4) with 4%nat by reflexivity. cbn [firstn].
  unfold idx. cbn [N.to_nat nth_error bind Pos.to_nat Pos.iter_op Nat.add].
  unfold SyncIO.SyncByte.
  destruct (N.eqb_spec b0 71) as [E0|E0]; cbn [negb andb]; [subst b0 | reflexivity].
  unfold SyncIO.afcMask, SyncIO.pidMask, be32.
  assert (Hafc : N.land (((71 * 256 + b1) * 256 + b2) * 256 + b3) 48 = N.land b3 48).
  { replace 48 with (N.land 48 255) at 1 by reflexivity. rewrite (N.land_comm 48 255), N.land_assoc.
    change 255 with (N.ones 8). rewrite N.land_ones. change (2 ^ 8) with 256.
    replace ((((71 * 256 + b1) * 256 + b2) * 256 + b3) mod 256) with b3 by lia. reflexivity. }
  change (Pos.to_nat 3) with 3%nat. change (Pos.to_nat 1) with 1%nat. change (Pos.to_nat 2) with 2%nat.
  cbn [nth_error bind].
  rewrite Hafc.
  destruct (N.eqb_spec (N.land b3 48) 0) as [Ea|Ea]; cbn [negb andb]; [reflexivity|].
  assert (Hpid : N.shiftr (N.land (((71 * 256 + b1) * 256 + b2) * 256 + b3) 2096896) 8 = pid).
  { subst pid. rewrite N.shiftr_land. change (N.shiftr 2096896 8) with (N.ones 13). rewrite N.land_ones.
    rewrite N.shiftr_div_pow2. change (2 ^ 8) with 256. change (2 ^ 13) with 8192. lia. }
  rewrite Hpid. reflexivity.
Qed.

(* ---- psi ---- *)
Lemma can_build_pmt_iff : forall payload sl, Printers.can_build_pmt payload sl = true <-> sl <= len payload.
Proof.
  intros. unfold Printers.can_build_pmt. rewrite negb_true_iff. split; intros H.
  - apply N.ltb_ge in H. exact H.
  - apply N.ltb_ge. exact H.
Qed.
Lemma new_table_header_facts :
  Psi.table_header_data Psi.new_table_header = [0; 48; 0] /\
  Psi.table_header_from_bytes (Psi.table_header_data Psi.new_table_header) = Ok Psi.new_table_header.
Proof. split; reflexivity. Qed.
Lemma scte35_done_is_pmt_done : forall b, Printers.scte35_accumulator_done_func b = Pmt.done_func b.
Proof. reflexivity. Qed.
Lemma psi_constants :
  Pmt.Consts.PSIHeaderLen = 4 /\ Pmt.Consts.CrcLen = 4 /\ Pmt.Consts.PidNotFound = 65535 /\ Pmt.Consts.PatPid = Pat.PatPid /\
  NoDup (firstn 16 PmtDesc.Consts.exported_consts) /\
  (forall c, In c StreamType.Consts.exported_consts -> StreamType.stream_type (StreamType.lookup c) = c) /\
  StreamType.is_video_content (StreamType.lookup StreamType.Mpeg2VideoH262) = true /\
  StreamType.is_video_content (StreamType.lookup StreamType.Mpeg4VideoH264) = true /\
  StreamType.is_video_content (StreamType.lookup StreamType.Mpeg4VideoH265) = true /\
  StreamType.is_audio_content (StreamType.lookup StreamType.Aac) = true /\
  StreamType.is_audio_content (StreamType.lookup StreamType.Ac3) = true /\
  StreamType.is_audio_content (StreamType.lookup StreamType.Ec3) = true /\
  StreamType.is_scte35_content (StreamType.lookup StreamType.Scte35) = true /\
  StreamType.is_id3_content (StreamType.lookup StreamType.ID3) = true /\
  StreamType.is_private_content (StreamType.lookup StreamType.PrivateContent) = true.
Proof.
  repeat split; try reflexivity.
  - apply nodupb_sound. vm_compute. reflexivity.
  - intros c Hc.
    assert (forallb (fun c => StreamType.stream_type (StreamType.lookup c) =? c) StreamType.Consts.exported_consts = true) by (vm_compute; reflexivity).
    rewrite forallb_forall in H. apply N.eqb_eq. apply H. exact Hc.
Qed.

(* ---- pes ---- *)
Lemma check_length_iff : forall b m, Pes.check_length b m = true <-> m <= len b.
Proof.
  intros. unfold Pes.check_length. rewrite negb_true_iff. split; intros H.
  - apply N.ltb_ge in H. exact H.
  - apply N.ltb_ge. exact H.
Qed.
Lemma pes_stream_ids :
  length Pes.Consts.exported_consts = 22%nat /\ NoDup Pes.Consts.exported_consts /\
  (forall c, In c Pes.Consts.exported_consts -> 184 <= c < 256) /\
  (forall c, In c Pes.Consts.exported_consts ->
     (Pes.optional_fields_exist c = false <->
      In c [Pes.Consts.STREAM_ID_PADDNG_STREAM; Pes.Consts.STREAM_ID_PRIVATE_STREAM_2; Pes.Consts.STREAM_ID_ECM_STREAM;
            Pes.Consts.STREAM_ID_EMM_STREAM; Pes.Consts.STREAM_ID_DSM_CC_STREAM; Pes.Consts.STREAM_ID_ITU_T_H222_1_TYPE_E;
            Pes.Consts.STREAM_ID_PROGRAM_STREAM_DIRECTORY])).
Proof.
  split; [reflexivity|]. split; [apply nodupb_sound; vm_compute; reflexivity|]. split.
  - intros c Hc.
    assert (forallb (fun c => (184 <=? c) && (c <? 256)) Pes.Consts.exported_consts = true) by (vm_compute; reflexivity).
    rewrite forallb_forall in H. specialize (H c Hc). apply andb_prop in H. destruct H as [A B].
    apply N.leb_le in A. apply N.ltb_lt in B. lia.
  - intros c Hc.
    set (L := [Pes.Consts.STREAM_ID_PADDNG_STREAM; Pes.Consts.STREAM_ID_PRIVATE_STREAM_2; Pes.Consts.STREAM_ID_ECM_STREAM;
            Pes.Consts.STREAM_ID_EMM_STREAM; Pes.Consts.STREAM_ID_DSM_CC_STREAM; Pes.Consts.STREAM_ID_ITU_T_H222_1_TYPE_E;
            Pes.Consts.STREAM_ID_PROGRAM_STREAM_DIRECTORY]).
    assert (forallb (fun c => Bool.eqb (negb (Pes.optional_fields_exist c)) (inb c L)) Pes.Consts.exported_consts = true) by (vm_compute; reflexivity).
    rewrite forallb_forall in H. specialize (H c Hc). apply Bool.eqb_prop in H.
    rewrite <- inb_In. rewrite <- H. rewrite negb_true_iff. tauto.
Qed.

(* ---- ebp ---- *)
Lemma ebp_constants_and_constructors :
  NoDup [Ebp.ComcastEbpTag; Ebp.CableLabsEbpTag] /\
  NoDup [Ebp.InvalidStreamSyncSignal; Ebp.StreamNotSynchronized; Ebp.StreamSynchronized] /\
  Ebp.CableLabsFormatIdentifier = be32 69 66 80 48 /\          (* "EBP0" *)
  Ebp.DataFieldTag Ebp.CreateComcastEBP = Ebp.ComcastEbpTag /\ Ebp.DataFieldLength Ebp.CreateComcastEBP = 1 /\
  Ebp.DataFieldTag Ebp.CreateCableLabsEbp = Ebp.CableLabsEbpTag /\ Ebp.DataFieldLength Ebp.CreateCableLabsEbp = 1 /\
  Ebp.FormatIdentifier Ebp.CreateCableLabsEbp = Ebp.CableLabsFormatIdentifier /\
  Ebp.DataFlags Ebp.CreateComcastEBP = 0 /\ Ebp.DataFlags Ebp.CreateCableLabsEbp = 0.
Proof. repeat split; try reflexivity; apply nodupb_sound; reflexivity. Qed.

(* ---- scte35 ---- *)
Lemma scte35_tables :
  NoDup SegDesc.Consts.SpliceCommandTypes /\ NoDup SegDesc.Consts.DeviceRestrictionsValues /\
  NoDup SegDesc.Consts.SegDescTypes /\ NoDup SegDesc.Consts.SegUPIDTypes /\
  length SegDesc.Consts.SegDescTypes = 38%nat /\ length SegDesc.Consts.SegUPIDTypes = 16%nat /\
  SegDesc.Consts.SegUPIDTypes = [0; 1; 2; 3; 4; 5; 6; 7; 8; 9; 10; 11; 12; 13; 14; 15] /\
  SegDesc.Consts.DeviceRestrictionsValues = [0; 1; 2; 3].
Proof. repeat split; try reflexivity; apply nodupb_sound; vm_compute; reflexivity. Qed.
(* every type the rule table, IsOut and IsIn know is an exported SegDescType constant; out and in types are disjoint *)
Lemma scte35_rule_types_are_constants :
  (forall t, In t (map fst SegDesc.rules) -> In t SegDesc.Consts.SegDescTypes) /\
  (forall t, SegDesc.is_out_ty t = true -> In t SegDesc.Consts.SegDescTypes) /\
  (forall t, SegDesc.is_in_ty t = true -> In t SegDesc.Consts.SegDescTypes) /\
  (forall t, SegDesc.is_out_ty t = true -> SegDesc.is_in_ty t = false).
Proof.
  split; [|split; [|split]].
  - apply subsetb_sound. vm_compute. reflexivity.
  - intros t H. unfold SegDesc.is_out_ty in H. apply existsb_exists in H. destruct H as [y [Hy E]].
    apply N.eqb_eq in E. subst y. revert t Hy. apply subsetb_sound. vm_compute. reflexivity.
  - intros t H. unfold SegDesc.is_in_ty in H. apply existsb_exists in H. destruct H as [y [Hy E]].
    apply N.eqb_eq in E. subst y. revert t Hy. apply subsetb_sound. vm_compute. reflexivity.
  - intros t H. unfold SegDesc.is_out_ty in H. apply existsb_exists in H. destruct H as [y [Hy E]].
    apply N.eqb_eq in E. subst y.
    assert (F : forallb (fun t => negb (SegDesc.is_in_ty t)) [0x10; 0x14; 0x17; 0x19; 0x20; 0x22; 0x30; 0x32; 0x34; 0x36; 0x40; 0x44; 0x50] = true) by (vm_compute; reflexivity).
    rewrite forallb_forall in F. specialize (F t Hy). apply negb_true_iff in F. exact F.
Qed.
Lemma scte35_command_types : forall c, In (Scte.cmd_type c) SegDesc.Consts.SpliceCommandTypes.
Proof. intros [| |]; vm_compute; tauto. Qed.
Lemma scte35_fresh_objects :
  ScteEnc.create_component = Scte.mkcomp 0 false 0 /\ ScteEnc.create_upid = Scte.mkupid 0 0 [] /\
  ScteEnc.create_component_offset = Scte.mkco 0 0 /\
  Scte.cmd_type (ScteEnc.create_cmd 0) = SegDesc.Consts.SpliceNull /\
  Scte.cmd_type (ScteEnc.create_cmd 1) = SegDesc.Consts.TimeSignal /\
  Scte.cmd_type (ScteEnc.create_cmd 2) = SegDesc.Consts.SpliceInsert /\
  ScteEnc.cmd_data (ScteEnc.create_cmd 0) = [] /\ ScteEnc.cmd_data (ScteEnc.create_cmd 1) = [127].
Proof. repeat split. Qed.
Lemma component_setters : forall c v b p,
  Scte.c_tag (ScteEnc.apply_comp_op (ScteEnc.CSetTag v) c) = v /\
  Scte.c_has_pts (ScteEnc.apply_comp_op (ScteEnc.CSetHasPTS b) c) = b /\
  Scte.c_pts (ScteEnc.apply_comp_op (ScteEnc.CSetPTS p) c) = p mod 2 ^ 33 /\
  Scte.c_has_pts (ScteEnc.apply_comp_op (ScteEnc.CSetTag v) c) = Scte.c_has_pts c /\
  Scte.c_pts (ScteEnc.apply_comp_op (ScteEnc.CSetTag v) c) = Scte.c_pts c.
Proof. intros. repeat split. Qed.
