(* Generic list / index / bit-field lemmas used by the PMT proofs (C06, C14). *)
From Gots Require Import Base.Prelude.
Local Open Scope N_scope.

(* ---- lengths ---- *)
Lemma len_app {A} (a b : list A) : len (a ++ b) = len a + len b.
Proof. unfold len. rewrite app_length. lia. Qed.
Lemma len_cons {A} (x : A) l : len (x :: l) = 1 + len l.
Proof. unfold len. cbn [length]. lia. Qed.
Lemma len_nil {A} : len (@nil A) = 0. Proof. reflexivity. Qed.
Lemma len_repeatN {A} (x : A) n : len (repeatN x n) = n.
Proof. unfold len, repeatN. rewrite repeat_length. lia. Qed.
Lemma len_firstn {A} (l : list A) n : len (firstn n l) = N.min (N.of_nat n) (len l).
Proof. unfold len. rewrite firstn_length. lia. Qed.
Lemma len_takeN {A} (l : list A) n : len (takeN n l) = N.min n (len l).
Proof. unfold takeN. rewrite len_firstn. lia. Qed.
Lemma len_0_nil {A} (l : list A) : len l = 0 -> l = [].
Proof. destruct l; [reflexivity|]. rewrite len_cons. lia. Qed.

(* ---- reads ---- *)
Lemma idx_app_r pre x post i : i = len pre -> idx (pre ++ x :: post) i = Ok x.
Proof. intros ->. unfold idx, len. rewrite Nat2N.id, nth_error_app2 by lia. rewrite Nat.sub_diag. reflexivity. Qed.
Lemma idx_app_l a b i : i < len a -> idx (a ++ b) i = idx a i.
Proof. intros H. unfold idx. rewrite nth_error_app1; [reflexivity|]. unfold len in H. lia. Qed.
Lemma idx_app_skip a b i : len a <= i -> idx (a ++ b) i = idx b (i - len a).
Proof. intros H. unfold idx. rewrite nth_error_app2 by (unfold len in H; lia).
  replace (N.to_nat i - length a)%nat with (N.to_nat (i - len a)) by (unfold len in *; lia). reflexivity. Qed.
Lemma nthN_app_l a b i : i < len a -> nthN (a ++ b) i = nthN a i.
Proof. intros H. unfold nthN. apply app_nth1. unfold len in H. lia. Qed.
Lemma nthN_app_r pre x post i : i = len pre -> nthN (pre ++ x :: post) i = x.
Proof. intros ->. unfold nthN, len. rewrite Nat2N.id, app_nth2 by lia. rewrite Nat.sub_diag. reflexivity. Qed.
Lemma idx_nthN l i : i < len l -> idx l i = Ok (nthN l i).
Proof. intros H. unfold idx, nthN. unfold len in H.
  destruct (nth_error l (N.to_nat i)) eqn:E.
  - erewrite nth_error_nth by exact E. reflexivity.
  - apply nth_error_None in E. lia. Qed.
Lemma idx_not_panic l i : i < len l -> exists x, idx l i = Ok x.
Proof. intros H. eexists. apply idx_nthN. exact H. Qed.

(* ---- slices ---- *)
Lemma slice_mid pre mid post i j : i = len pre -> j = len pre + len mid ->
  slice (pre ++ mid ++ post) i j = Ok mid.
Proof. intros -> ->. unfold slice. rewrite !len_app.
  replace (len pre <=? len pre + len mid) with true by lia.
  replace (len pre + len mid <=? len pre + (len mid + len post)) with true by lia. cbn [andb]. f_equal.
  unfold len. rewrite Nat2N.id, skipn_app, skipn_all, Nat.sub_diag. cbn [skipn app].
  replace (N.to_nat (N.of_nat (length pre) + N.of_nat (length mid) - N.of_nat (length pre))) with (length mid + 0)%nat by lia.
  rewrite firstn_app_2. cbn. apply app_nil_r. Qed.
Lemma slice_prefix a b j : j = len a -> slice (a ++ b) 0 j = Ok a.
Proof. intros ->. apply (slice_mid [] a b); [reflexivity|unfold len; cbn; lia]. Qed.
Lemma slice_from_app a b i : i = len a -> slice_from (a ++ b) i = Ok b.
Proof. intros ->. unfold slice_from. rewrite <- (app_nil_r b) at 1.
  rewrite (slice_mid a b []); [reflexivity|reflexivity|]. rewrite ?len_app, ?len_nil. lia. Qed.
Lemma slice_from_0 a : slice_from a 0 = Ok a.
Proof. apply (slice_from_app [] a). reflexivity. Qed.
Lemma slice_ok l i j : i <= j -> j <= len l -> slice l i j = Ok (firstn (N.to_nat (j - i)) (skipn (N.to_nat i) l)).
Proof. intros H1 H2. unfold slice. replace (i <=? j) with true by lia. replace (j <=? len l) with true by lia. reflexivity. Qed.
Lemma slice_from_ok l i : i <= len l -> slice_from l i = Ok (dropN i l).
Proof. intros H. unfold slice_from. rewrite slice_ok by lia. f_equal. unfold dropN.
  apply firstn_all2. rewrite skipn_length. unfold len. lia. Qed.
Lemma dropN_app {A} (a b : list A) n : n = len a -> dropN n (a ++ b) = b.
Proof. intros ->. unfold dropN, len. rewrite Nat2N.id, skipn_app, skipn_all, Nat.sub_diag. reflexivity. Qed.
Lemma takeN_app {A} (a b : list A) n : n = len a -> takeN n (a ++ b) = a.
Proof. intros ->. unfold takeN, len. rewrite Nat2N.id.
  replace (length a) with (length a + 0)%nat by lia. rewrite firstn_app_2. cbn. apply app_nil_r. Qed.

(* ---- bit fields ---- *)
Lemma lor_shiftl_add a b k : b < 2^k -> N.lor (N.shiftl a k) b = a * 2^k + b.
Proof. intros H. rewrite <- N.shiftl_mul_pow2. rewrite <- N.lxor_lor, <- N.add_nocarry_lxor; try reflexivity;
  apply N.bits_inj; intro n; rewrite N.land_spec, N.bits_0;
  (destruct (N.lt_ge_cases n k) as [Hn|Hn];
   [rewrite N.shiftl_spec_low by assumption; reflexivity|
    replace (N.testbit b n) with false; [apply andb_false_r|];
    symmetry; destruct (N.eq_dec b 0) as [->|Hb]; [apply N.bits_0|];
    apply N.bits_above_log2; apply N.log2_lt_pow2; [lia|];
    eapply N.lt_le_trans; [exact H|]; apply N.pow_le_mono_r; lia]). Qed.
Lemma lor_shl8 a b : b < 256 -> N.lor (N.shiftl a 8) b = a * 256 + b.
Proof. intros H. exact (lor_shiftl_add a b 8 H). Qed.

(* finite sweeps over N ranges *)
Fixpoint nrange (fuel : nat) (s : N) : list N := match fuel with O => [] | S f => s :: nrange f (N.succ s) end.
Lemma nrange_in fuel s x : s <= x < s + N.of_nat fuel -> In x (nrange fuel s).
Proof. revert s; induction fuel as [|f IH]; intros s H; cbn; [lia|].
  destruct (N.eq_dec s x); [left; assumption|right; apply IH; lia]. Qed.
Lemma sweep1 (P : N -> bool) n : forallb P (nrange n 0) = true -> forall x, x < N.of_nat n -> P x = true.
Proof. intros H x Hx. rewrite forallb_forall in H. apply H. apply nrange_in. lia. Qed.
Lemma sweep2 (P : N -> N -> bool) n m : forallb (fun a => forallb (P a) (nrange m 0)) (nrange n 0) = true ->
  forall x y, x < N.of_nat n -> y < N.of_nat m -> P x y = true.
Proof. intros H x y Hx Hy. pose proof (sweep1 _ _ H x Hx) as H2. cbv beta in H2. exact (sweep1 _ _ H2 y Hy). Qed.

(* land (hi-bits + h) mask = h for the three layouts used by the PMT serialiser *)
Lemma land_hi_3 : forall f h, f < 64 -> h < 4 -> N.land (f * 4 + h) 3 = h.
Proof. intros f h Hf Hh.
  assert (S: forallb (fun a => forallb (fun b => N.land (a * 4 + b) 3 =? b) (nrange 4 0)) (nrange 64 0) = true) by (vm_compute; reflexivity).
  apply N.eqb_eq. exact (sweep2 (fun a b => N.land (a * 4 + b) 3 =? b) 64 4 S f h Hf Hh). Qed.
Lemma land_240_15 : forall h, h < 16 -> N.land (240 + h) 15 = h.
Proof. intros h Hh.
  assert (S: forallb (fun b => N.land (240 + b) 15 =? b) (nrange 16 0) = true) by (vm_compute; reflexivity).
  apply N.eqb_eq. exact (sweep1 _ 16 S h Hh). Qed.
Lemma land_224_31 : forall h, h < 32 -> N.land (224 + h) 31 = h.
Proof. intros h Hh.
  assert (S: forallb (fun b => N.land (224 + b) 31 =? b) (nrange 32 0) = true) by (vm_compute; reflexivity).
  apply N.eqb_eq. exact (sweep1 _ 32 S h Hh). Qed.

(* 12-bit / 13-bit big-endian fields behind fixed high bits *)
Lemma field_240 v : v < 4096 ->
  N.lor (N.shiftl (N.land (240 + v / 256) 15) 8) (v mod 256) = v.
Proof. intros H. rewrite land_240_15 by lia. rewrite lor_shl8 by lia. lia. Qed.
Lemma field_224 v : v < 8192 ->
  N.lor (N.shiftl (N.land (224 + v / 256) 31) 8) (v mod 256) = v.
Proof. intros H. rewrite land_224_31 by lia. rewrite lor_shl8 by lia. lia. Qed.
Lemma field_len10 f v : f < 64 -> v < 1024 ->
  N.lor (N.shiftl (N.land (f * 4 + v / 256) 3) 8) (v mod 256) = v.
Proof. intros Hf H. rewrite land_hi_3 by lia. rewrite lor_shl8 by lia. lia. Qed.

Lemma w16_small x : x < 65536 -> w16 x = x.
Proof. intros H. unfold w16. apply N.mod_small. exact H. Qed.
Lemma w8_small x : x < 256 -> w8 x = x.
Proof. intros H. unfold w8. apply N.mod_small. exact H. Qed.
