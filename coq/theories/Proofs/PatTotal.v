(* C05 (PAT / psi part): totality on ARBITRARY bytes.  The model follows the repaired tree
   (notes/c05-guards.patch): every entry point below returns a value or an error, never Panic or
   Diverge, unconditionally.  The `_pinned_refuted` lemmas give concrete inputs on which the
   functions of the pinned tree panic (DESIGN F11); they are replayed in notes/findings/C05-pat.md. *)
From Gots Require Import Base.Prelude Model.Pat Proofs.PatBase.
Import Pat.

Definition safe {A} (r : Res A) : Prop := r <> Panic /\ r <> Diverge.
Lemma safe_ok {A} (a : A) : safe (Ok a). Proof. split; discriminate. Qed.
Lemma safe_err {A} e : safe (@Err A e). Proof. split; discriminate. Qed.
Lemma safe_bind {A B} (r : Res A) (f : A -> Res B) :
  safe r -> (forall a, r = Ok a -> safe (f a)) -> safe (bind r f).
Proof. intros [H1 H2] Hf. destruct r; cbn [bind]; [apply Hf; reflexivity|apply safe_err|contradiction|contradiction]. Qed.
Lemma safe_idx l i : i < len l -> safe (idx l i).
Proof. intros H. destruct (idx_lt l i H) as [x ->]. apply safe_ok. Qed.
Lemma safe_slice_from l i : i <= len l -> safe (slice_from l i).
Proof. intros H. destruct (slice_from_ok l i H) as (r & -> & _). apply safe_ok. Qed.

(* ---- psi.go helpers on any byte string ---- *)
Lemma pointer_field_total b : exists v, PatPsi.pointer_field b = Ok v.
Proof. unfold PatPsi.pointer_field. destruct (N.eqb_spec (len b) 0) as [E|E]; [eauto|]. apply idx_lt. lia. Qed.

Lemma at_section_safe {A} (neutral : A) f b :
  (forall s, safe (f s)) -> safe (PatPsi.at_section neutral f b).
Proof. intros Hf. unfold PatPsi.at_section. destruct (pointer_field_total b) as [pf ->]. cbn [bind].
  destruct (N.leb_spec (len b) (1 + pf)); [apply safe_ok|].
  apply safe_bind; [apply safe_slice_from; lia|]. intros s _. apply Hf. Qed.

Lemma table_id_sec_safe s : safe (PatPsi.table_id_sec s).
Proof. unfold PatPsi.table_id_sec. destruct (N.eqb_spec (len s) 0); [apply safe_ok|apply safe_idx; lia]. Qed.
Lemma ssi_sec_safe s : safe (PatPsi.section_syntax_indicator_sec s).
Proof. unfold PatPsi.section_syntax_indicator_sec. destruct (N.ltb_spec (len s) 2); [apply safe_ok|].
  apply safe_bind; [apply safe_idx; lia|]. intros; apply safe_ok. Qed.
Lemma section_length_sec_safe s : safe (PatPsi.section_length_sec s).
Proof. unfold PatPsi.section_length_sec. destruct (N.ltb_spec (len s) 3); [apply safe_ok|].
  apply safe_bind; [apply safe_idx; lia|]. intros. apply safe_bind; [apply safe_idx; lia|]. intros; apply safe_ok. Qed.

Lemma table_id_total b : safe (PatPsi.table_id b).
Proof. apply at_section_safe. apply table_id_sec_safe. Qed.
Lemma section_syntax_indicator_total b : safe (PatPsi.section_syntax_indicator b).
Proof. apply at_section_safe. apply ssi_sec_safe. Qed.
Lemma section_length_total b : safe (PatPsi.section_length b).
Proof. apply at_section_safe. apply section_length_sec_safe. Qed.
Lemma private_indicator_total b : safe (PatPsi.private_indicator b).
Proof. unfold PatPsi.private_indicator. destruct (pointer_field_total b) as [pf ->]. cbn [bind].
  destruct (N.leb_spec (len b) (2 + pf)); [apply safe_ok|].
  apply safe_bind; [apply safe_idx; lia|]. intros; apply safe_ok. Qed.

(* SectionLength has no error result, so it is a value; and it is a 10-bit number *)
Lemma section_length_value b : exists v, PatPsi.section_length b = Ok v.
Proof. unfold PatPsi.section_length, PatPsi.at_section. destruct (pointer_field_total b) as [pf ->]. cbn [bind].
  destruct (N.leb_spec (len b) (1 + pf)); [eauto|].
  destruct (slice_from_ok b (1 + pf) ltac:(lia)) as (s & -> & Hs). cbn [bind].
  unfold PatPsi.section_length_sec. destruct (N.ltb_spec (len s) 3); [eauto|].
  destruct (idx_lt s 1 ltac:(lia)) as [x ->]. destruct (idx_lt s 2 ltac:(lia)) as [y ->]. cbn [bind]. eauto. Qed.

(* ---- packet.Payload / Pid on any 188-byte array ---- *)
Lemma pid_safe p : len p = 188 -> exists x, PatPkt.pid p = Ok x.
Proof. intros L. unfold PatPkt.pid. destruct (idx_lt p 1 ltac:(lia)) as [a ->]. destruct (idx_lt p 2 ltac:(lia)) as [b ->].
  cbn [bind]. eauto. Qed.
Lemma payload_safe p : len p = 188 -> safe (PatPkt.payload p).
Proof. intros L. unfold PatPkt.payload, PatPkt.contains_payload, PatPkt.payload_start, PatPkt.contains_adaptation_field.
  destruct (idx_lt p 3 ltac:(lia)) as [b3 ->]. cbn [bind].
  destruct (negb (bit b3 16)); [apply safe_err|].
  destruct (bit b3 32).
  - destruct (idx_lt p 4 ltac:(lia)) as [l ->]. cbn [bind].
    destruct (N.ltb_spec (len p) (4 + 1 + l)); [apply safe_err|apply safe_slice_from; lia].
  - cbn [bind]. destruct (N.ltb_spec (len p) 4); [apply safe_err|apply safe_slice_from; lia]. Qed.

(* ---- NewPAT on any byte string ---- *)
Lemma new_pat_total b : safe (new_pat b).
Proof. unfold new_pat. destruct (len b <? 13); [apply safe_err|].
  destruct (N.eqb_spec (len b) 188) as [L|_]; [|apply safe_ok].
  apply safe_bind; [apply payload_safe; exact L|]. intros pay _. destruct (len pay <? 13); [apply safe_err|apply safe_ok]. Qed.
(* a PAT object always has at least 13 bytes *)
Lemma new_pat_len b p : new_pat b = Ok p -> 13 <= len p.
Proof. unfold new_pat. destruct (N.ltb_spec (len b) 13); [discriminate|].
  destruct (len b =? 188); [|intros [= <-]; assumption].
  destruct (PatPkt.payload b) as [pay| | |]; cbn [bind]; try discriminate.
  destruct (N.ltb_spec (len pay) 13); [discriminate|]. intros [= <-]. assumption. Qed.

(* ---- the accessors on ANY byte string (not only on results of NewPAT) ---- *)
Lemma num_programs_total p : exists n, num_programs p = Ok n.
Proof. unfold num_programs. destruct (section_length_value p) as [sl ->]. destruct (pointer_field_total p) as [pf ->].
  cbn [bind]. eauto. Qed.

Lemma loop_total n : forall pat counter m, (n = 0%nat \/ counter + 4 * N.of_nat n + 1 <= len pat) ->
  exists m', program_map_loop n pat counter m = Ok m'.
Proof. induction n as [|k IH]; intros pat counter m H; [cbn; eauto|].
  destruct H as [H|H]; [discriminate|]. cbn [program_map_loop].
  destruct (idx_lt pat (counter + 1) ltac:(lia)) as [a ->]. cbn [bind].
  destruct (idx_lt pat (counter + 2) ltac:(lia)) as [b ->]. cbn [bind].
  destruct (idx_lt pat (counter + 3) ltac:(lia)) as [c ->]. cbn [bind].
  destruct (idx_lt pat (counter + 4) ltac:(lia)) as [d ->]. cbn [bind].
  apply IH. destruct k; [left; reflexivity|right; lia]. Qed.

(* the reads of ProgramMap (3223166: from 8 + pointer_field on) stay inside the slice, because NumPrograms clips
   section_length to len - pointer_field: 8 + pf + 4n <= pf + clipped - 1 <= len - 1.  Any bytes, pointer_field
   up to 255, also len < 13 + pointer_field (the clipped length is then small or negative and n = 0) *)
Lemma program_map_total p : exists m, program_map p = Ok m.
Proof. unfold program_map, num_programs. destruct (pointer_field_total p) as [pf ->]. cbn [bind].
  destruct (section_length_value p) as [sl ->]. cbn [bind].
  apply loop_total. rewrite zlen_len.
  set (slc := if (Z.of_N (len p) - Z.of_N pf <? Z.of_N sl)%Z then (Z.of_N (len p) - Z.of_N pf)%Z else Z.of_N sl).
  assert (Hc : (slc <= Z.of_N (len p) - Z.of_N pf)%Z)
    by (unfold slc; destruct (Z.ltb_spec (Z.of_N (len p) - Z.of_N pf) (Z.of_N sl)); lia).
  destruct (Z.le_gt_cases 0 (slc - 2 - 1 - 1 - 1 - 4)) as [Hp|Hn].
  - rewrite Z.quot_div_nonneg by lia.
    destruct (Z.eq_dec ((slc - 2 - 1 - 1 - 1 - 4) / 4) 0) as [E|E]; [left; rewrite E; reflexivity|right].
    rewrite Z2Nat.inj_div by lia. lia.
  - left. assert (Z.quot (slc - 2 - 1 - 1 - 1 - 4) 4 <= 0)%Z by (Z.quot_rem_to_equations; lia).
    lia. Qed.

Lemma spts_pmt_pid_total p : safe (spts_pmt_pid p).
Proof. unfold spts_pmt_pid.
  destruct (num_programs_total p) as [n ->]. cbn [bind]. destruct (1 <? n)%Z; [apply safe_err|].
  destruct (program_map_total p) as [m ->]. cbn [bind]. destruct m as [|[k v] m]; [apply safe_err|apply safe_ok]. Qed.

(* every accessor of every PAT object returned by NewPAT, on arbitrary input bytes *)
Lemma new_pat_getters_total b p : new_pat b = Ok p ->
  (exists n, num_programs p = Ok n) /\ (exists m, program_map p = Ok m) /\ safe (spts_pmt_pid p).
Proof. intros _. split; [apply num_programs_total|]. split; [apply program_map_total|apply spts_pmt_pid_total]. Qed.

(* ---- ReadPAT over any script of 188-byte ReadFull results; IsPMT on any packet and any PAT bytes ---- *)
Definition script_ok (script : list read_result) : Prop :=
  Forall (fun r => match r with RFull p => len p = 188 | RFail _ => True end) script.
Lemma read_pat_total script : script_ok script -> safe (read_pat script).
Proof. induction 1 as [|r script Hr _ IH]; [apply safe_err|]. destruct r as [p|e]; cbn [read_pat].
  - unfold PatPkt.is_pat. destruct (pid_safe p Hr) as [x ->]. cbn [bind]. destruct (x =? 0); [|exact IH].
    apply safe_bind; [apply payload_safe; exact Hr|]. intros pay _. apply new_pat_total.
  - destruct ((e =? E.EOF) || (e =? E.UnexpectedEOF)); apply safe_err. Qed.
Lemma is_pmt_total pkt pat : len pkt = 188 -> safe (is_pmt pkt pat).
Proof. intros L. destruct pat as [p|]; [|apply safe_err]. unfold is_pmt.
  destruct (program_map_total p) as [m ->]. cbn [bind]. destruct (pid_safe pkt L) as [x ->]. cbn [bind]. apply safe_ok. Qed.

(* ---- F11: the functions of the PINNED tree panic on these inputs ---- *)
Lemma psi_helpers_pinned_refuted :
  PatPsi.pointer_field_pinned [] = Panic /\
  PatPsi.table_id_pinned [0] = Panic /\
  PatPsi.section_syntax_indicator_pinned [0; 0] = Panic /\
  PatPsi.private_indicator_pinned [0; 0] = Panic /\
  PatPsi.section_length_pinned [0; 0; 0] = Panic /\
  (* uint8 wrap of 1+pointer_field: pointer_field 255 makes TableID read byte 0 *)
  PatPsi.table_id_pinned [255; 7] = Ok 255 /\ PatPsi.table_id [255; 7] = Ok 0.
Proof. repeat split; reflexivity. Qed.

(* NewPAT with a non-zero pointer_field: accepted (13 bytes), then NumPrograms indexes past the end *)
Lemma new_pat_pointer_pinned_refuted :
  let b := 11 :: repeat 0 12 in
  new_pat_pinned b = Ok b /\ num_programs_pinned b = Panic /\ program_map_pinned b = Panic /\
  spts_pmt_pid_pinned b = Panic /\ (exists n, num_programs b = Ok n).
Proof. cbv zeta. repeat split; try reflexivity. apply num_programs_total. Qed.

(* NewPAT on a 188-byte packet whose adaptation field leaves no payload: the pinned tree returns an empty
   PAT object whose accessors panic; the repaired tree answers ErrInvalidPATLength *)
Definition pkt_no_room : bytes := [71; 64; 0; 48; 183] ++ repeat 255 183.
Lemma new_pat_packet_pinned_refuted :
  len pkt_no_room = 188 /\ new_pat_pinned pkt_no_room = Ok [] /\ num_programs_pinned [] = Panic /\
  new_pat pkt_no_room = Err E.InvalidPATLength.
Proof. repeat split; vm_compute; reflexivity. Qed.

(* the clip of 3223166 at its edges: pointer_field 255 on a 13-byte PAT object (nothing follows the pointer: the clipped
   length is negative, no entry is read); a section_length (1023) that runs past the slice behind pointer_field 5
   (clipped to len - 5 = 15: one entry, read at offsets 14..17 of 20) *)
Definition clip_b1 : bytes := 255 :: repeat 0 12.
Definition clip_b2 : bytes := [5; 1; 2; 3; 4; 5; 0; 0xB3; 0xFF; 0; 1; 0xC1; 0; 0; 0; 7; 0xE1; 0x23; 9; 9].
Lemma pointer_clip_examples :
  new_pat clip_b1 = Ok clip_b1 /\ num_programs clip_b1 = Ok (-62)%Z /\ program_map clip_b1 = Ok [] /\
  spts_pmt_pid clip_b1 = Err E.Other /\
  new_pat clip_b2 = Ok clip_b2 /\ num_programs clip_b2 = Ok 1%Z /\ program_map clip_b2 = Ok [(7, 0x123)] /\
  spts_pmt_pid clip_b2 = Ok 0x123.
Proof. repeat split; vm_compute; reflexivity. Qed.

Lemma psi_helpers_total b :
  (exists v, PatPsi.pointer_field b = Ok v) /\ safe (PatPsi.table_id b) /\
  safe (PatPsi.section_syntax_indicator b) /\ safe (PatPsi.private_indicator b) /\
  (exists v, PatPsi.section_length b = Ok v).
Proof. split; [apply pointer_field_total|]. split; [apply table_id_total|]. split; [apply section_syntax_indicator_total|].
  split; [apply private_indicator_total|apply section_length_value]. Qed.
