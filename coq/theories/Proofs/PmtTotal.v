(* C05 (PMT / PSI part): totality of the decoding entry points on ARBITRARY byte strings:
   the models (of the guarded code) never answer Panic or Diverge. *)
From Gots Require Import Base.Prelude Model.Psi Model.Pmt Proofs.PmtBase.
Import Pmt.
Local Open Scope N_scope.

Definition total {A} (r : Res A) : Prop := match r with Ok _ | Err _ => True | Panic | Diverge => False end.
Lemma total_iff {A} (r : Res A) : total r <-> r <> Panic /\ r <> Diverge.
Proof. destruct r; cbn; split; try tauto; try (intros [? ?]; congruence); try (intros _; split; discriminate). Qed.
Lemma total_bind {A B} (r : Res A) (f : A -> Res B) : total r -> (forall a, r = Ok a -> total (f a)) -> total (bind r f).
Proof. destruct r; cbn; intros H K; try exact I; try contradiction. apply K. reflexivity. Qed.

(* ---------- bytes ---------- *)
Lemma is_bytes_nthN l i : is_bytes l -> nthN l i < 256.
Proof. intros H. unfold nthN. destruct (nth_in_or_default (N.to_nat i) l 0) as [I|D]; [|rewrite D; lia].
  unfold is_bytes in H. rewrite Forall_forall in H. exact (H _ I). Qed.
Lemma is_bytes_idx l i x : is_bytes l -> idx l i = Ok x -> x < 256.
Proof. intros H E. unfold idx in E. destruct (nth_error l (N.to_nat i)) eqn:N; [|discriminate]. inversion E; subst.
  unfold is_bytes in H. rewrite Forall_forall in H. apply H. eapply nth_error_In. exact N. Qed.
Lemma is_bytes_firstn l n : is_bytes l -> is_bytes (firstn n l).
Proof. unfold is_bytes. revert l. induction n as [|n IH]; intros l H; [constructor|]. destruct l as [|a t]; [constructor|].
  inversion H; subst. cbn [firstn]. constructor; [assumption|apply IH; assumption]. Qed.
Lemma is_bytes_skipn l n : is_bytes l -> is_bytes (skipn n l).
Proof. unfold is_bytes. revert l. induction n as [|n IH]; intros l H; [exact H|]. destruct l as [|a t]; [constructor|].
  inversion H; subst. cbn [skipn]. apply IH; assumption. Qed.
Lemma is_bytes_slice l i j r : is_bytes l -> slice l i j = Ok r -> is_bytes r.
Proof. intros H E. unfold slice in E. destruct ((i <=? j) && (j <=? len l)); [|discriminate]. inversion E; subst.
  apply is_bytes_firstn. apply is_bytes_skipn. exact H. Qed.
Lemma is_bytes_app a b : is_bytes a -> is_bytes b -> is_bytes (a ++ b).
Proof. intros. unfold is_bytes in *. apply Forall_app. split; assumption. Qed.
Lemma slice_len l i j r : slice l i j = Ok r -> len r = j - i /\ i <= j /\ j <= len l.
Proof. intros E. unfold slice in E. destruct (N.leb_spec i j); destruct (N.leb_spec j (len l)); cbn [andb] in E; try discriminate.
  inversion E; subst. unfold len in *. rewrite firstn_length, skipn_length. lia. Qed.
Lemma slice_total l i j : i <= j -> j <= len l -> exists r, slice l i j = Ok r.
Proof. intros. eexists. apply slice_ok; assumption. Qed.

Lemma field10_bound b1 b2 : b2 < 256 -> N.lor (N.shiftl (N.land b1 3) 8) b2 < 1024.
Proof. intros H. rewrite lor_shl8 by exact H.
  assert (N.land b1 3 < 4) by (change 3 with (N.ones 2); rewrite N.land_ones; change (2 ^ 2) with 4; lia). lia. Qed.
Lemma field12_bound b1 b2 : b2 < 256 -> N.lor (N.shiftl (N.land b1 15) 8) b2 < 4096.
Proof. intros H. rewrite lor_shl8 by exact H.
  assert (N.land b1 15 < 16) by (change 15 with (N.ones 4); rewrite N.land_ones; change (2 ^ 4) with 16; lia). lia. Qed.
Lemma section_length'_bound s : is_bytes s -> Psi.section_length' s < 1024.
Proof. intros H. unfold Psi.section_length'. destruct (len s <? 3); [lia|]. apply field10_bound. apply is_bytes_nthN. exact H. Qed.

(* ---------- PmtAccumulatorDoneFunc ---------- *)
Lemma done_loop_total : forall fuel sb, is_bytes sb -> (length sb < fuel)%nat -> total (done_loop fuel sb).
Proof. induction fuel as [|f IH]; intros sb HB HF; [lia|]. cbn [done_loop]. destruct sb as [|b0 t]; [exact I|].
  destruct (b0 =? 255); [exact I|]. destruct (len (b0 :: t) <? 3); [exact I|].
  pose proof (section_length'_bound _ HB) as SB. set (tl := Psi.section_length' (b0 :: t)) in *.
  destruct (N.ltb_spec (len (b0 :: t)) (tl + 3)) as [Lt|Ge]; [exact I|].
  rewrite w16_small by lia. rewrite slice_from_ok by lia. cbn [bind]. apply IH.
  - apply is_bytes_skipn. exact HB.
  - unfold dropN. rewrite skipn_length. unfold len in *. lia. Qed.
Theorem done_func_total b : is_bytes b -> total (done_func b).
Proof. intros HB. unfold done_func. destruct (len b <? 1); [exact I|].
  destruct (N.leb_spec (len b) (1 + Psi.pointer_field b)) as [Le|Gt]; [exact I|].
  rewrite slice_from_ok by lia. cbn [bind]. apply done_loop_total.
  - apply is_bytes_skipn. exact HB.
  - unfold dropN. rewrite skipn_length. lia. Qed.

(* ---------- parsePMTSection ---------- *)
(* descriptor loop: all reads stay below offset + il < len bs; fuel covers (il - doff) / 2 + 1 rounds *)
Lemma parse_descs_total : forall fuel bs offset il doff acc,
  is_bytes bs -> offset + il < len bs -> len bs < 60000 -> doff <= il + 300 ->
  (0 < fuel)%nat -> il + 2 < 2 * N.of_nat fuel + doff ->
  total (parse_descs fuel bs offset il doff acc).
Proof. induction fuel as [|f IH]; intros bs offset il doff acc HB HL HS HD HF0 HF; [lia|].
  cbn [parse_descs]. destruct (N.ltb_spec doff il) as [Lt|Ge]; [|exact I].
  rewrite (w16_small (offset + doff)) by lia.
  destruct (idx_not_panic bs (offset + doff)) as [tag Ht]; [lia|]. rewrite Ht. cbn [bind].
  rewrite (w16_small (doff + 1)) by lia. rewrite (w16_small (offset + (doff + 1))) by lia.
  destruct (idx_not_panic bs (offset + (doff + 1))) as [dl Hdl]; [lia|]. rewrite Hdl. cbn [bind].
  pose proof (is_bytes_idx _ _ _ HB Hdl) as DB.
  rewrite (w16_small (doff + 1 + 1)) by lia. rewrite (w16_small (offset + (doff + 1 + 1))) by lia.
  rewrite (w16_small (offset + (doff + 1 + 1) + dl)) by lia.
  destruct (N.ltb_spec (offset + (doff + 1 + 1) + dl) (len bs)) as [In|Out]; [|exact I].
  destruct (slice_total bs (offset + (doff + 1 + 1)) (offset + (doff + 1 + 1) + dl)) as [d Hd]; [lia|lia|].
  rewrite Hd. cbn [bind]. rewrite (w16_small (doff + 1 + 1 + dl)) by lia.
  apply IH; try assumption; lia. Qed.

Lemma parse_streams_total : forall fuel bs offset bound ps acc,
  is_bytes bs -> bound + 4 < len bs -> len bs < 60000 ->
  (0 < fuel)%nat -> len bs < N.of_nat fuel + offset ->
  total (parse_streams fuel bs offset bound ps acc).
Proof. induction fuel as [|f IH]; intros bs offset bound ps acc HB HBD HS HF0 HF.
  - lia.
  - cbn [parse_streams]. destruct (N.ltb_spec offset bound) as [Lt|Ge]; [|exact I].
    destruct (idx_not_panic bs offset) as [t Ht]; [lia|]. rewrite Ht. cbn [bind].
    rewrite (w16_small (offset + 1)), (w16_small (offset + 2)), (w16_small (offset + 3)), (w16_small (offset + 4)) by lia.
    destruct (idx_not_panic bs (offset + 1)) as [b1 H1]; [lia|]. rewrite H1. cbn [bind].
    destruct (idx_not_panic bs (offset + 2)) as [b2 H2]; [lia|]. rewrite H2. cbn [bind].
    destruct (idx_not_panic bs (offset + 3)) as [b3 H3]; [lia|]. rewrite H3. cbn [bind].
    destruct (idx_not_panic bs (offset + 4)) as [b4 H4]; [lia|]. rewrite H4. cbn [bind].
    pose proof (field12_bound b3 b4 (is_bytes_idx _ _ _ HB H4)) as IL.
    set (il := N.lor (N.shiftl (N.land b3 15) 8) b4) in *.
    rewrite (w16_small (offset + 5)) by lia. rewrite (w16_small (il + (offset + 5))) by lia.
    destruct (negb (il =? 0) && (il + (offset + 5) <? len bs)) eqn:C.
    + apply andb_true_iff in C. destruct C as [_ C]. apply N.ltb_lt in C.
      apply total_bind.
      * apply parse_descs_total; try assumption; try lia; unfold desc_fuel; lia.
      * intros ds _. rewrite (w16_small (offset + 5 + il)) by lia. apply IH; try assumption; lia.
    + apply IH; try assumption; lia.
Qed.

Lemma stream_bound_total sl : 9 <= sl -> sl < 1024 -> stream_bound sl = sl - 5.
Proof. intros. unfold stream_bound, sub16, w16. lia. Qed.

(* on a slice that is exactly one section (header + announced length) *)
Lemma parse_pmt_section_total sec : is_bytes sec -> len sec = 3 + Psi.section_length' sec -> total (parse_pmt_section sec).
Proof. intros HB HL. pose proof (section_length'_bound sec HB) as SB. unfold parse_pmt_section.
  set (sl := Psi.section_length' sec) in *.
  destruct (len sec <=? 11); [exact I|]. destruct (N.ltb_spec sl 9) as [Lt|Ge]; [exact I|].
  apply total_bind.
  { unfold Psi.table_version_and_cni. destruct (N.ltb_spec (len sec) 6); [exact I|].
    destruct (idx_not_panic sec 5) as [x Hx]; [lia|]. rewrite Hx. exact I. }
  intros vc _.
  destruct (idx_not_panic sec 10) as [p10 H10]; [lia|]. destruct (idx_not_panic sec 11) as [p11 H11]; [lia|].
  rewrite H10, H11. cbn [bind].
  pose proof (field12_bound p10 p11 (is_bytes_idx _ _ _ HB H11)) as PB.
  rewrite w16_small by lia. rewrite stream_bound_total by lia.
  apply total_bind; [|intros; exact I].
  apply parse_streams_total; try assumption; try lia. unfold len. lia. Qed.

(* ---------- parseTables / NewPMT ---------- *)
Lemma nth_firstn_small {A} (d : A) : forall n i l, (i < n)%nat -> nth i (firstn n l) d = nth i l d.
Proof. induction n as [|n IH]; intros i l H; [lia|]. destruct l as [|a t]; [reflexivity|]. cbn [firstn].
  destruct i as [|i]; [reflexivity|]. cbn [nth]. apply IH. lia. Qed.
Lemma slice_0 l j : j <= len l -> slice l 0 j = Ok (firstn (N.to_nat j) l).
Proof. intros H. rewrite slice_ok by lia. rewrite N.sub_0_r. reflexivity. Qed.
Lemma section_length'_firstn sb n : 3 <= n -> n <= len sb ->
  Psi.section_length' (firstn (N.to_nat n) sb) = Psi.section_length' sb.
Proof. intros H1 H2. unfold Psi.section_length'. rewrite len_firstn.
  replace (N.min (N.of_nat (N.to_nat n)) (len sb) <? 3) with false by lia. replace (len sb <? 3) with false by lia.
  unfold nthN. rewrite !nth_firstn_small by lia. reflexivity. Qed.
Lemma tables_loop_total : forall fuel sb p, is_bytes sb -> (length sb < fuel)%nat -> total (tables_loop fuel sb p).
Proof. induction fuel as [|f IH]; intros sb p HB HF; [lia|]. cbn [tables_loop].
  destruct (N.ltb_spec 2 (len sb)) as [L3|S]; [|exact I].
  destruct (idx_not_panic sb 0) as [b0 H0]; [lia|]. rewrite H0. cbn [bind].
  destruct (b0 =? 255); [exact I|].
  pose proof (section_length'_bound _ HB) as SB. set (tl := Psi.section_length' sb) in *.
  destruct (N.ltb_spec (len sb) (3 + tl)) as [Lt|Ge]; [exact I|].
  rewrite w16_small by lia.
  assert (NEXT: forall p', total (let? sb' := slice_from sb (3 + tl) in tables_loop f sb' p')).
  { intros p'. rewrite slice_from_ok by lia. cbn [bind]. apply IH.
    - apply is_bytes_skipn. exact HB.
    - unfold dropN. rewrite skipn_length. unfold len in *. lia. }
  destruct (Psi.table_id' sb =? 2); [|cbn [bind]; apply NEXT].
  destruct (slice_total sb 0 (3 + tl)) as [sec Hsec]; [lia|lia|]. rewrite Hsec. cbn [bind].
  apply total_bind; [|intros p' _; apply NEXT].
  apply parse_pmt_section_total.
  - eapply is_bytes_slice; eassumption.
  - destruct (slice_len _ _ _ _ Hsec) as (LS & _ & _).
    rewrite slice_0 in Hsec by lia. assert (ES: sec = firstn (N.to_nat (3 + tl)) sb) by congruence. rewrite ES.
    rewrite section_length'_firstn by lia. rewrite len_firstn. unfold tl. lia. Qed.

Theorem new_pmt_total b : is_bytes b -> total (new_pmt b).
Proof. intros HB. unfold new_pmt, parse_tables.
  destruct (N.ltb_spec (len b) (1 + Psi.pointer_field b)) as [Lt|Ge]; [exact I|].
  rewrite slice_from_ok by lia. cbn [bind]. apply tables_loop_total.
  - apply is_bytes_skipn. exact HB.
  - unfold dropN. rewrite skipn_length. lia. Qed.

(* ---------- ExtractCRC, table header, pointer field ---------- *)
Theorem extract_crc_total b : is_bytes b -> total (extract_crc b).
Proof. intros HB. unfold extract_crc. destruct (len b <? 4); [exact I|].
  assert (SB: Psi.section_length b < 1024).
  { unfold Psi.section_length. destruct (len b <=? 1 + Psi.pointer_field b); [lia|]. apply section_length'_bound.
    apply is_bytes_skipn. exact HB. }
  set (sl := Psi.section_length b) in *. destruct (len b <? sl); [exact I|].
  rewrite w16_small by lia. destruct (N.ltb_spec (len b) (4 + sl)); [exact I|].
  replace (sub16 (4 + sl) 4) with sl by (unfold sub16, w16; lia).
  destruct (slice_total b sl (4 + sl)) as [d Hd]; [lia|lia|]. rewrite Hd. cbn [bind].
  destruct (slice_len _ _ _ _ Hd) as (LD & _ & _).
  destruct d as [|a0 [|a1 [|a2 [|a3 [|? ?]]]]]; rewrite ?len_cons, ?len_nil in LD; try lia. exact I. Qed.

Theorem table_header_from_bytes_total d : total (Psi.table_header_from_bytes d).
Proof. unfold Psi.table_header_from_bytes. destruct (N.ltb_spec (len d) 3); [exact I|].
  destruct (idx_not_panic d 0) as [x0 H0]; [lia|]. destruct (idx_not_panic d 1) as [x1 H1]; [lia|].
  destruct (idx_not_panic d 2) as [x2 H2]; [lia|]. rewrite H0, H1, H2. exact I. Qed.

(* ---------- ReadPMT on any byte stream ---------- *)
Lemma pkt188_reads p : len p = 188 ->
  (exists a, pkt_pusi p = Ok a) /\ (exists a, pkt_pid p = Ok a) /\ total (pkt_payload p).
Proof. intros L. unfold pkt_pusi, pkt_pid, pkt_payload, pkt_has_payload, payload_start, pkt_has_af.
  destruct (idx_not_panic p 1) as [x1 H1]; [lia|]. destruct (idx_not_panic p 2) as [x2 H2]; [lia|].
  destruct (idx_not_panic p 3) as [x3 H3]; [lia|]. destruct (idx_not_panic p 4) as [x4 H4]; [lia|].
  rewrite H1, H2, H3, H4. cbn [bind]. repeat split; try (eexists; reflexivity).
  destruct (negb (bit x3 16)); [exact I|]. destruct (bit x3 32); cbn [bind].
  - destruct (N.ltb_spec (len p) (4 + 1 + x4)); [exact I|]. rewrite slice_from_ok by lia. exact I.
  - rewrite L. cbn [N.ltb N.compare Pos.compare Pos.compare_cont]. rewrite slice_from_ok by lia. exact I. Qed.
Lemma pkt_payload_bytes p b : is_bytes p -> pkt_payload p = Ok b -> is_bytes b.
Proof. intros HB E. unfold pkt_payload in E. destruct (pkt_has_payload p) as [hp| | |]; cbn [bind] in E; try discriminate.
  destruct (negb hp); [discriminate|]. destruct (payload_start p) as [st| | |]; cbn [bind] in E; try discriminate.
  destruct (len p <? st); [discriminate|]. eapply is_bytes_slice; eassumption. Qed.

Lemma acc_add_total a pkt : is_bytes (a_buf a) -> is_bytes pkt -> len pkt = 188 ->
  total (acc_add a pkt) /\ (forall r, acc_add a pkt = Ok r -> is_bytes (a_buf (fst r))).
Proof. intros HA HP L. unfold acc_add. destruct (pkt188_reads pkt L) as (_ & _ & T).
  destruct (pkt_payload pkt) as [b|e| |] eqn:E; cbn in T; try contradiction.
  - assert (HB: is_bytes (a_buf a ++ b)) by (apply is_bytes_app; [exact HA|eapply pkt_payload_bytes; eassumption]).
    pose proof (done_func_total _ HB) as D. destruct (done_func (a_buf a ++ b)) as [d|e| |]; cbn in D; try contradiction; cbn [bind].
    + destruct d; (split; [exact I|intros r Er; inversion Er; subst; exact HB]).
    + split; [exact I|discriminate].
  - split; [exact I|]. intros r Er. inversion Er; subst. exact HA. Qed.
Lemma write_packet_total a pkt : is_bytes (a_buf a) -> is_bytes pkt -> len pkt = 188 ->
  total (write_packet a pkt) /\ (forall r, write_packet a pkt = Ok r -> is_bytes (a_buf (fst r))).
Proof. intros HA HP L. unfold write_packet. destruct (pkt188_reads pkt L) as ((pu & Hpu) & _ & _). rewrite Hpu. cbn [bind].
  assert (HN: is_bytes (a_buf {| a_buf := []; a_state := 1 |})) by constructor.
  destruct (a_state a =? 2); [split; [exact I|intros r Er; inversion Er; subst; exact HA]|].
  destruct (a_state a =? 0); destruct pu; try (apply acc_add_total; assumption).
  split; [exact I|intros r Er; inversion Er; subst; exact HA]. Qed.

Lemma read_pkts_total pid : forall pkts a, Forall (fun p => is_bytes p /\ len p = 188) pkts -> is_bytes (a_buf a) ->
  total (read_pkts pkts pid a).
Proof. induction pkts as [|p t IH]; intros a HP HA; [exact I|]. inversion HP as [|? ? [HB L] HP']; subst.
  cbn [read_pkts]. destruct (pkt188_reads p L) as (_ & (q & Hq) & _). rewrite Hq. cbn [bind].
  destruct (negb (q =? pid)); [apply IH; assumption|].
  destruct (write_packet_total a p HA HB L) as [T K]. destruct (write_packet a p) as [r|e| |]; cbn in T; try contradiction; cbn [bind].
  - specialize (K r eq_refl). destruct (snd r) as [e|]; [|apply IH; assumption].
    destruct (e =? E.AccumulatorDone); [|exact I].
    pose proof (new_pmt_total _ K) as NT. destruct (new_pmt (a_buf (fst r))) as [pm|e2| |]; cbn in NT; try contradiction; cbn [bind]; [|exact I].
    destruct (pids pm); [apply IH; [assumption|constructor]|exact I].
  - exact I.
Qed.

Lemma chop188_ok : forall fuel s, is_bytes s -> Forall (fun p => is_bytes p /\ len p = 188) (chop188 fuel s).
Proof. induction fuel as [|f IH]; intros s HB; [constructor|]. cbn [chop188].
  destruct (N.ltb_spec (len s) 188); [constructor|]. constructor.
  - split; [apply is_bytes_firstn; exact HB|]. rewrite len_takeN. lia.
  - apply IH. apply is_bytes_skipn. exact HB. Qed.

Theorem read_pmt_total stream pid : is_bytes stream -> total (read_pmt stream pid).
Proof. intros HB. unfold read_pmt. apply read_pkts_total; [apply chop188_ok; exact HB|constructor]. Qed.

(* ---------- FilterPMTPacketsToPids on any list of 188-byte packets and any PID list ---------- *)
Lemma pkt_header_total p : len p = 188 -> exists h, pkt_header p = Ok h.
Proof. intros L. unfold pkt_header, payload_start, pkt_has_af.
  destruct (idx_not_panic p 3) as [x3 H3]; [lia|]. destruct (idx_not_panic p 4) as [x4 H4]; [lia|].
  rewrite H3. cbn [bind]. destruct (bit x3 32); [rewrite H4|]; cbn [bind].
  - destruct (N.ltb_spec (len p) (4 + 1 + x4)); apply slice_total; lia.
  - rewrite L. cbn [N.ltb N.compare Pos.compare Pos.compare_cont]. apply slice_total; lia. Qed.
Lemma repacketise_total : forall pkts f, Forall (fun p => len p = 188) pkts -> total (repacketise pkts f).
Proof. induction pkts as [|p t IH]; intros f H; [exact I|]. inversion H; subst. cbn [repacketise].
  destruct (pkt_header_total p) as [h Hh]; [assumption|]. rewrite Hh. cbn [bind]. destruct f as [|b f']; [exact I|].
  apply total_bind; [apply IH; assumption|intros; exact I]. Qed.
Lemma concat_payloads_total : forall pkts, Forall (fun p => is_bytes p /\ len p = 188) pkts ->
  total (concat_payloads pkts) /\ (forall r, concat_payloads pkts = Ok r -> is_bytes r).
Proof. induction pkts as [|p t IH]; intros H; [split; [exact I|intros r E; inversion E; constructor]|].
  inversion H as [|? ? [HB L] H']; subst. cbn [concat_payloads]. destruct (pkt188_reads p L) as (_ & _ & T).
  destruct (pkt_payload p) as [b|e| |] eqn:E; cbn in T; try contradiction; [|split; [exact I|discriminate]].
  destruct (IH H') as [T2 K2]. destruct (concat_payloads t) as [r|e| |]; cbn in T2; try contradiction; cbn [bind].
  - split; [exact I|]. intros r0 E0. inversion E0; subst. apply is_bytes_app; [eapply pkt_payload_bytes; eassumption|apply K2; reflexivity].
  - split; [exact I|discriminate]. Qed.

Lemma filter_streams_shape want : forall fuel pl offset bound cs out r,
  filter_streams fuel pl offset bound cs want out = Ok r -> exists ext, r = out ++ ext.
Proof. induction fuel as [|f IH]; intros pl offset bound cs out r H; cbn [filter_streams] in H; [discriminate|].
  destruct (offset <? bound); [|inversion H; exists []; rewrite app_nil_r; reflexivity].
  destruct (idx pl (w16 (offset + 1))); cbn [bind] in H; try discriminate.
  destruct (idx pl (w16 (offset + 2))); cbn [bind] in H; try discriminate.
  destruct (idx pl (w16 (offset + 3))); cbn [bind] in H; try discriminate.
  destruct (idx pl (w16 (offset + 4))); cbn [bind] in H; try discriminate.
  match type of H with (if ?c then _ else _) = _ => destruct c end; [discriminate|].
  match type of H with context [existsb ?f want] => destruct (existsb f want) end.
  - match type of H with context [slice ?a ?b ?c] => destruct (slice a b c) as [s| | |] end; cbn [bind] in H; try discriminate.
    apply IH in H. destruct H as [ext ->]. exists (s ++ ext). rewrite app_assoc. reflexivity.
  - cbn [bind] in H. apply IH in H. exact H. Qed.

Lemma filter_streams_total want : forall fuel pl offset sl out,
  is_bytes pl -> 13 <= sl -> sl < 1024 -> 3 + sl <= len pl ->
  (0 < fuel)%nat -> sl - 5 < N.of_nat fuel + offset ->
  total (filter_streams fuel pl offset (sl - 5) (sl - 1) want out).
Proof. induction fuel as [|f IH]; intros pl offset sl out HB H13 HS HL HF0 HF; [lia|]. cbn [filter_streams].
  destruct (N.ltb_spec offset (sl - 5)) as [Lt|Ge]; [|exact I].
  rewrite (w16_small (offset + 1)), (w16_small (offset + 2)), (w16_small (offset + 3)), (w16_small (offset + 4)) by lia.
  destruct (idx_not_panic pl (offset + 1)) as [b1 H1]; [lia|]. destruct (idx_not_panic pl (offset + 2)) as [b2 H2]; [lia|].
  destruct (idx_not_panic pl (offset + 3)) as [b3 H3]; [lia|]. destruct (idx_not_panic pl (offset + 4)) as [b4 H4]; [lia|].
  rewrite H1, H2, H3, H4. cbn [bind].
  pose proof (field12_bound b3 b4 (is_bytes_idx _ _ _ HB H4)) as IL.
  set (il := N.lor (N.shiftl (N.land b3 15) 8) b4) in *.
  rewrite (w16_small (offset + 5 + il)) by lia. rewrite (w16_small (offset + (5 + il))) by lia.
  destruct (N.ltb_spec (sl - 1) (offset + 5 + il)) as [Over|Fits]; [exact I|].
  match goal with |- context [existsb ?f want] => destruct (existsb f want) end.
  - destruct (slice_total pl offset (offset + 5 + il)) as [s Hs]; [lia|lia|]. rewrite Hs. cbn [bind]. apply IH; try assumption; lia.
  - cbn [bind]. apply IH; try assumption; lia. Qed.

Theorem filter_pmt_packets_total pkts want :
  Forall (fun p => is_bytes p /\ len p = 188) pkts -> total (filter_pmt_packets pkts want).
Proof. intros HP. unfold filter_pmt_packets. destruct pkts as [|first tl]; [exact I|]. destruct want as [|w0 wt]; [exact I|].
  set (W := w0 :: wt). destruct (concat_payloads_total _ HP) as [T1 K1].
  apply total_bind; [exact T1|]. intros payload EP. pose proof (K1 _ EP) as HB.
  apply total_bind; [apply new_pmt_total; exact HB|]. intros pm _.
  inversion HP as [|? ? [HBf Lf] HP']; subst. destruct (pkt188_reads first Lf) as (_ & (q & Hq) & _). rewrite Hq. cbn [bind].
  match goal with |- total (if ?c then _ else _) => destruct c end; [exact I|].
  set (pf1 := Psi.pointer_field payload + 1).
  destruct (N.ltb_spec (len payload) (pf1 + 12)) as [Short|Long]; [exact I|].
  rewrite slice_from_ok by lia. cbn [bind].
  set (pl := dropN pf1 payload).
  assert (HBpl: is_bytes pl) by (apply is_bytes_skipn; exact HB).
  assert (Lpl: len pl = len payload - pf1) by (unfold pl, dropN, len; rewrite skipn_length; lia).
  pose proof (section_length'_bound pl HBpl) as SB. set (sl := Psi.section_length' pl) in *.
  destruct (N.ltb_spec sl 13) as [S13|G13]; [exact I|].
  destruct (N.ltb_spec (len payload) (pf1 + 3 + sl)) as [Sh2|Lg2]; [exact I|]. cbn [orb].
  destruct (slice_total payload 0 pf1) as [head Hhead]; [lia|lia|]. rewrite Hhead. cbn [bind].
  destruct (slice_total pl 0 12) as [f12 Hf12]; [lia|lia|]. rewrite Hf12. cbn [bind].
  destruct (idx_not_panic pl 10) as [p10 H10]; [lia|]. destruct (idx_not_panic pl 11) as [p11 H11]; [lia|].
  rewrite H10, H11. cbn [bind].
  pose proof (field12_bound p10 p11 (is_bytes_idx _ _ _ HBpl H11)) as PB.
  set (pil := N.lor (N.shiftl (N.land p10 15) 8) p11) in *.
  replace (sub16 (w16 (3 + sl)) 4) with (sl - 1) by (unfold sub16, w16; lia).
  rewrite (w16_small (12 + pil)) by lia.
  destruct (N.ltb_spec (sl - 1) (12 + pil)) as [PO|PF]; [exact I|].
  assert (exists pinfo, (if pil =? 0 then Ok [] else slice pl 12 (12 + pil)) = Ok pinfo) as [pinfo Hpi].
  { destruct (pil =? 0); [eexists; reflexivity|apply slice_total; lia]. }
  rewrite Hpi. cbn [bind]. rewrite stream_bound_total by lia.
  destruct (slice_len _ _ _ _ Hhead) as (LH & _ & _). destruct (slice_len _ _ _ _ Hf12) as (L12 & _ & _).
  pose proof (filter_streams_total W (S (length pl)) pl (12 + pil) sl (head ++ f12 ++ pinfo) HBpl G13 SB) as FT.
  assert (FT': total (filter_streams (S (length pl)) pl (12 + pil) (sl - 5) (sl - 1) W (head ++ f12 ++ pinfo))).
  { apply FT; [lia|lia|]. unfold len in *. lia. }
  destruct (filter_streams (S (length pl)) pl (12 + pil) (sl - 5) (sl - 1) W (head ++ f12 ++ pinfo)) as [f|e| |] eqn:EF;
    cbn in FT'; try contradiction; cbn [bind]; [|exact I].
  destruct (filter_streams_shape _ _ _ _ _ _ _ _ EF) as [ext ->].
  set (F := (head ++ f12 ++ pinfo) ++ ext).
  assert (LF: pf1 + 12 <= len F) by (unfold F; rewrite !len_app; lia).
  destruct (idx_not_panic F (pf1 + 1)) as [o1 Ho1]; [lia|]. rewrite Ho1. cbn [bind].
  unfold set_idx. replace (pf1 + 1 <? len F) with true by lia. cbn [bind].
  assert (LU: forall l i v, length (upd l i v) = length l).
  { intros l i v. unfold upd. generalize (N.to_nat i). induction l as [|a t IHl]; intros n; [reflexivity|]. destruct n; cbn [upd_nat length]; [reflexivity|rewrite IHl; reflexivity]. }
  set (F1 := upd F (pf1 + 1) _). assert (LF1: len F1 = len F) by (unfold len, F1; rewrite LU; reflexivity).
  replace (pf1 + 2 <? len F1) with true by lia. cbn [bind].
  set (F2 := upd F1 (pf1 + 2) _). assert (LF2: len F2 = len F) by (rewrite <- LF1; unfold len, F2; rewrite LU; reflexivity).
  rewrite slice_from_ok by lia. cbn [bind].
  apply total_bind; [|intros; exact I]. apply repacketise_total.
  eapply Forall_impl; [|exact HP]. intros a [_ La]. exact La. Qed.
