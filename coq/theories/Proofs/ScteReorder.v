(* C09: re-encoding ANY decoded supported section yields its canonical form: foreign descriptors first (relative
   orders kept), no stuffing, sap_type 3, exact splice_command_length, fresh CRC. *)
From Gots Require Import Base.Prelude Model.Pts Model.Scte Model.ScteEnc Spec.Scte35Spec
  Proofs.ScteLemmas Proofs.ScteExpected Proofs.ScteLogical Proofs.ScteDecode Proofs.ScteEncode Proofs.ScteRoundtrip
  Proofs.ScteCanonical.
Import Scte ScteEnc Scte35Spec.
Local Open Scope N_scope.
Arguments N.mul : simpl never. Arguments N.add : simpl never. Arguments N.div : simpl never.
Arguments N.modulo : simpl never.

Definition foreigns (ds : list descriptor) : list descriptor :=
  filter (fun d => match d with Foreign _ _ => true | Seg _ _ => false end) ds.
Definition segs (ds : list descriptor) : list descriptor :=
  filter (fun d => match d with Seg _ _ => true | Foreign _ _ => false end) ds.
Definition normalize0 (s : splice_info) : splice_info :=
  mksi [] (si_table_id s) (si_ssi s) (si_private s) 3 (si_protocol s) (si_encrypted s) (si_enc_alg s) (si_pts_adj s)
       (si_cw s) (si_tier s) false (si_cmd s) (foreigns (si_descs s) ++ segs (si_descs s)) [] 0.
Definition normalize (s : splice_info) : splice_info :=
  with_crc (normalize0 s) (crc_reg (ser_section_nocrc (normalize0 s))).

Definition reencodable (s : splice_info) : Prop :=
  supported s /\ si_protocol s < 256 /\ si_cw s < 256 /\ section_length (normalize0 s) < 1024.

Lemma foreigns_foreign ds : Forall is_foreign (foreigns ds).
Proof. unfold foreigns. apply Forall_forall. intros d H. apply filter_In in H. destruct H as [_ H]. destruct d; [discriminate|exact I]. Qed.

Lemma logical_expected_any ds : Forall wf_descriptor ds ->
  map logical_seg (expected_descs 1 ds) = segs ds /\ expected_other ds = ser_descriptors (foreigns ds).
Proof.
  induction ds as [|d ds IH]; intros Hw; [split; reflexivity|].
  inversion Hw as [|? ? Hd Hw']; subst. destruct (IH Hw') as [I1 I2].
  destruct d as [eid body|tag fb]; cbn [expected_descs expected_other map segs foreigns filter].
  - fold (segs ds). fold (foreigns ds). rewrite I1, I2, logical_expected_seg by assumption. split; reflexivity.
  - fold (segs ds). fold (foreigns ds). rewrite I1, I2. split; [reflexivity|].
    unfold ser_descriptors. cbn [flat_map]. reflexivity.
Qed.

Theorem reencode_normalizes s : reencodable s ->
  new_scte35 (ser_splice_info s) = Ok (expected s) /\ fst (update_data (expected s)) = ser_section (normalize s).
Proof.
  intros (Hsup & Hpv & Hcw & Hsl).
  split; [apply decode_ser; exact Hsup|].
  pose proof Hsup as ((Hsap' & Hea & Hadj & Htier & Hcmd & Hcl & Hds & Hdl & Hsl') & Htid & Henc & Hptr & Hsc).
  destruct (logical_expected_any (si_descs s) Hds) as [LD LO].
  set (fs := foreigns (si_descs s)) in *.
  assert (Hpts : expected_pts s < 8589934592) by (unfold expected_pts; destruct (si_cmd s); lia).
  assert (Hsub : subtract_pts (expected_pts s) (cmd_pts (expected_cmd (si_cmd s))) = si_pts_adj s).
  { rewrite cmd_pts_expected. unfold expected_pts. pose proof (cmd_time_lt _ Hcmd Hsc) as Ht.
    destruct (si_cmd s) as [|t|eid b|ty body] eqn:Ec.
    - unfold subtract_pts. cbn [st_val cmd_time]. replace (0 <=? si_pts_adj s) with true by (symmetry; apply N.leb_le; lia). lia.
    - apply subtract_add; assumption.
    - apply subtract_add; assumption.
    - destruct Hsc. }
  assert (HL0 : ser_section_nocrc (logical0 fs (expected s)) = ser_section_nocrc (normalize0 s)).
  { unfold ser_section_nocrc, ser_header, ser_body, section_length, ser_body, cmd_len_field, logical0, normalize0, expected.
    cbn [s_tid s_ssi s_pi s_protocol s_encrypted s_enc_alg s_pts s_cmd s_cw s_tier s_descs s_stuffing
         si_table_id si_ssi si_private si_sap si_protocol si_encrypted si_enc_alg si_pts_adj si_cw si_tier
         si_legacy_len si_cmd si_descs si_stuffing].
    rewrite Hsub, logical_expected_cmd by assumption. rewrite LD. rewrite Henc. reflexivity. }
  assert (Hn : normal fs (expected s)).
  { unfold normal, expected.
    cbn [s_tid s_protocol s_enc_alg s_cw s_tier s_pts s_cmd s_cmd_type s_descs s_other s_stuffing].
    rewrite Htid. repeat split; try assumption; try lia.
    - rewrite cmd_pts_expected. apply cmd_time_lt; assumption.
    - apply cmd_type_expected. assumption.
    - apply normal_expected_cmd; assumption.
    - apply normal_expected_descs. assumption.
    - apply foreigns_foreign.
    - rewrite cmd_data_ser by (apply normal_expected_cmd; assumption).
      rewrite logical_expected_cmd by assumption.
      rewrite descs_data_ser by (apply normal_expected_descs; assumption).
      rewrite LO, LD, <- ser_descriptors_app.
      unfold section_length in Hsl. rewrite len_ser_body' in Hsl. unfold normalize0 in Hsl.
      cbn [si_cmd si_descs si_stuffing] in Hsl. fold fs in Hsl. rewrite len_nil in Hsl. lia. }
  rewrite (encode_canonical fs (expected s) Hn). unfold logical, normalize, ser_section.
  rewrite !nocrc_with_crc. cbn [si_crc with_crc]. rewrite HL0. reflexivity.
Qed.
