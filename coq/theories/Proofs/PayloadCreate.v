(* C02, part 3: the packet-creation helpers of create.go. *)
From Gots Require Import Base.Prelude Base.PacketLemmas Model.Packet Model.Create Spec.Iso13818Hdr Proofs.HdrBits.
Import Packet.
Local Open Scope N_scope.

(* setPid writes byte(pid>>8 & 0x1f) and byte(pid & 0xff) *)
Definition pb1 (z : Z) : N := byteZ (Z.land (Z.shiftr z 8) 31).
Definition pb2 (z : Z) : N := byteZ (Z.land z 255).
Lemma pb_in_range v : v < 8192 -> pb1 (Z.of_N v) = v / 256 /\ pb2 (Z.of_N v) = v mod 256.
Proof.
  intros Hv. unfold pb1, pb2, byteZ.
  change 31%Z with (Z.ones 5). change 255%Z with (Z.ones 8). rewrite !Z.land_ones by lia.
  rewrite Z.shiftr_div_pow2 by lia. change (2 ^ 8)%Z with 256%Z. change (2 ^ 5)%Z with 32%Z. split; lia.
Qed.
(* or-ing PUSI into a byte that only holds PID bits *)
Definition or64_ok (hi : N) : bool := f1_eqb (N.lor hi 64) (0, 1, 0, hi) && f1_eqb hi (0, 0, 0, hi).
Lemma or64_sweep : sweep1 32 or64_ok = true. Proof. vm_compute. reflexivity. Qed.

Definition tail_flags (b5 : N) : bytes := 0 :: b5 :: repeatN 0 182.
Lemma create_shapes z :
  Create.Create z [Create.WithHasPayloadFlag; Create.WithContinuousAF; Create.WithPUSI] =
    71 :: N.lor (pb1 z) 64 :: pb2 z :: 16 :: tail_flags 127 /\
  Create.Create z [Create.WithHasPayloadFlag; Create.WithContinuousAF] =
    71 :: pb1 z :: pb2 z :: 16 :: tail_flags 127 /\
  Create.Create z [Create.WithContinuousAF] = 71 :: pb1 z :: pb2 z :: 0 :: tail_flags 127 /\
  Create.Create z [Create.WithDiscontinuousAF; Create.WithHasPayloadFlag] =
    71 :: pb1 z :: pb2 z :: 16 :: tail_flags 128.
Proof. repeat split; reflexivity. Qed.

Lemma shape_pkt b1 b2 b3 b5 : b1 < 256 -> b2 < 256 -> b3 < 256 -> b5 < 256 ->
  is_pkt (71 :: b1 :: b2 :: b3 :: tail_flags b5).
Proof.
  intros. split; [reflexivity|]. unfold tail_flags, is_bytes.
  do 6 (constructor; [unfold is_byte; lia|]). apply repeatN_bytes. unfold is_byte; lia.
Qed.

Section Shapes.
Variables (v cc : N).
Hypothesis Hv : v < 8192.
Hypothesis Hc : cc < 16.
Let z := Z.of_N v.

Lemma shape_hdr (pusi : bool) b3 b5 : b3 < 256 -> b5 < 256 ->
  let p := 71 :: (if pusi then N.lor (pb1 z) 64 else pb1 z) :: pb2 z :: b3 :: tail_flags b5 in
  is_pkt p /\ Iso.hdr_of p = Iso.mkHdr 71 0 (b2n pusi) 0 v (b3 / 64) ((b3 / 16) mod 4) (b3 mod 16).
Proof.
  intros H3 H5. destruct (pb_in_range v Hv) as [E1 E2]. fold z in E1, E2.
  assert (v / 256 < 32) as Hhi by lia.
  pose proof (sweep1_ok 32 or64_ok or64_sweep (v / 256) Hhi) as S. unfold or64_ok, f1_eqb in S. split_andb S.
  cbv zeta. rewrite E1, E2. split.
  - apply shape_pkt; try assumption; [destruct pusi; assumption | lia].
  - unfold Iso.hdr_of, Iso.hdr_of_bytes, nthN. cbn [N.to_nat nth].
    change (Pos.to_nat 1) with 1%nat. change (Pos.to_nat 2) with 2%nat. change (Pos.to_nat 3) with 3%nat. cbn [nth].
    destruct pusi; cbn [b2n]; f_equal; try assumption; try lia.
Qed.

Lemma create_test_spec (pusi hasPay : bool) :
  let p := Create.CreateTestPacket z cc pusi hasPay in
  is_pkt p /\ Iso.hdr_of p = Iso.mkHdr 71 0 (b2n (hasPay && pusi)) 0 v 0 (b2n hasPay) cc.
Proof.
  destruct (create_shapes z) as (S1 & S2 & S3 & _). unfold Create.CreateTestPacket.
  destruct hasPay, pusi; cbn [andb b2n]; cbv zeta.
  - rewrite S1. destruct (shape_hdr true 16 127 ltac:(lia) ltac:(lia)) as [P E]. cbv zeta in P, E.
    destruct (set_cc_fn_lift _ P cc Hc) as (A & _ & C). cbv zeta in A, C. rewrite E in A. split; [exact C | exact A].
  - rewrite S2. destruct (shape_hdr false 16 127 ltac:(lia) ltac:(lia)) as [P E]. cbv zeta in P, E.
    destruct (set_cc_fn_lift _ P cc Hc) as (A & _ & C). cbv zeta in A, C. rewrite E in A. split; [exact C | exact A].
  - rewrite S3. destruct (shape_hdr false 0 127 ltac:(lia) ltac:(lia)) as [P E]. cbv zeta in P, E.
    destruct (set_cc_fn_lift _ P cc Hc) as (A & _ & C). cbv zeta in A, C. rewrite E in A. split; [exact C | exact A].
  - rewrite S3. destruct (shape_hdr false 0 127 ltac:(lia) ltac:(lia)) as [P E]. cbv zeta in P, E.
    destruct (set_cc_fn_lift _ P cc Hc) as (A & _ & C). cbv zeta in A, C. rewrite E in A. split; [exact C | exact A].
Qed.
Lemma create_dc_spec :
  let p := Create.CreateDCPacket z cc in is_pkt p /\ Iso.hdr_of p = Iso.mkHdr 71 0 0 0 v 0 1 cc.
Proof.
  destruct (create_shapes z) as (_ & _ & _ & S4). unfold Create.CreateDCPacket. cbv zeta. rewrite S4.
  destruct (shape_hdr false 16 128 ltac:(lia) ltac:(lia)) as [P E]. cbv zeta in P, E.
  destruct (set_cc_fn_lift _ P cc Hc) as (A & _ & C). cbv zeta in A, C. rewrite E in A. split; [exact C | exact A].
Qed.
End Shapes.

(* ------------------------------------------------------------------ CreatePacketWithPayload *)
Lemma create_pwp_shape z pay :
  Create.Create z [Create.WithHasPayloadFlag; Create.WithContinuousAF; Create.OptSetPayload pay] =
  71 :: pb1 z :: pb2 z :: 16 :: blit_nat (tail_flags 127) 0 pay.
Proof. reflexivity. Qed.

Lemma firstn_firstn_app_skipn (pay r : bytes) : length r = 184%nat ->
  firstn (length pay) (firstn (length r) pay ++ skipn (length pay) r) = firstn 184 pay.
Proof.
  intros LR. rewrite LR. destruct (Nat.le_gt_cases (length pay) 184) as [LE|GT].
  - rewrite (firstn_all2 pay) by lia. rewrite firstn_app, firstn_all, Nat.sub_diag. cbn [firstn]. apply app_nil_r.
  - rewrite skipn_all2 by lia. rewrite app_nil_r. rewrite firstn_all2; [reflexivity|]. rewrite firstn_length. lia.
Qed.

Lemma create_pwp_spec v cc pay : v < 8192 -> cc < 16 -> is_bytes pay ->
  let p := Create.CreatePacketWithPayload (Z.of_N v) cc pay in
  is_pkt p /\ Iso.hdr_of p = Iso.mkHdr 71 0 0 0 v 0 1 cc /\
  exists body, Payload_fn p = Ok body /\ takeN (len pay) body = takeN 184 pay.
Proof.
  intros Hv Hc PB. cbv zeta. unfold Create.CreatePacketWithPayload. rewrite create_pwp_shape.
  destruct (pb_in_range v Hv) as [E1 E2]. rewrite E1, E2.
  set (B := blit_nat (tail_flags 127) 0 pay).
  assert (length B = 184%nat) as LB by (unfold B; rewrite blit_nat_length; reflexivity).
  assert (is_bytes B) as BB.
  { unfold B. apply blit_nat_bytes; [|exact PB]. unfold tail_flags.
    do 2 (constructor; [unfold is_byte; lia|]). apply repeatN_bytes. unfold is_byte; lia. }
  set (p0 := 71 :: v / 256 :: v mod 256 :: 16 :: B).
  assert (is_pkt p0) as P0.
  { split; [unfold p0; cbn [length]; lia|]. unfold p0. do 4 (constructor; [unfold is_byte; lia|]). exact BB. }
  assert (Iso.hdr_of p0 = Iso.mkHdr 71 0 0 0 v 0 1 0) as H0.
  { unfold Iso.hdr_of, Iso.hdr_of_bytes, nthN, p0. cbn [N.to_nat nth].
    change (Pos.to_nat 1) with 1%nat. change (Pos.to_nat 2) with 2%nat. change (Pos.to_nat 3) with 3%nat. cbn [nth].
    f_equal; lia. }
  destruct (set_cc_fn_lift p0 P0 cc Hc) as (A & F & C). cbv zeta in A, F, C. rewrite H0 in A.
  split; [exact C|]. split; [exact A|].
  (* the payload accessor *)
  assert (SetCC p0 cc = [71; v / 256; v mod 256; N.lor (N.land 16 240) cc] ++ B) as SE.
  { unfold SetCC. rewrite (copy_packet_id p0 P0). reflexivity. }
  exists B. split.
  - destruct (byte3_facts _ C) as (_ & _ & _ & _ & CP & _ & CA & _).
    unfold Payload_fn, payloadStart_fn. rewrite CP, CA. unfold Iso.has_payload, Iso.has_af. rewrite A.
    unfold Iso.with_cc. cbn [Iso.afc]. change (1 mod 2 =? 1) with true. change (1 / 2 =? 1) with false. cbn [negb].
    change (PacketSize <? 4) with false. cbv iota. rewrite SE. apply slice_app_r; [reflexivity|].
    unfold PacketSize, len. rewrite LB. reflexivity.
  - unfold takeN, B. rewrite blit_nat_0. unfold len. rewrite Nat2N.id.
    change (N.to_nat 184) with 184%nat. apply firstn_firstn_app_skipn. reflexivity.
Qed.

(* ------------------------------------------------------------------ function-style SetPayload of create.go on a well-formed packet *)
From Gots Require Import Proofs.PayloadPart.
Lemma set_payload_fn_spec l d : Iso.wf_lpkt l ->
  Create.SetPayload_fn (Iso.ser_pkt l) d =
  (hdr_part l ++ firstn (length (Iso.lpayload l)) d ++ skipn (length d) (Iso.lpayload l),
   N.min (len d) (len (Iso.lpayload l))).
Proof.
  intros W. destruct (payload_start l W) as [PF _]. pose proof (wf_len l W) as L188.
  unfold Create.SetPayload_fn. rewrite PF. rewrite ser_pkt_split in *. rewrite len_app in L188. f_equal.
  - unfold blit, len. rewrite Nat2N.id, blit_nat_app, blit_nat_0. reflexivity.
  - unfold PacketSize. f_equal. lia.
Qed.
