(* C12: the readers invert the Spec serialisers (decode_ser), for g = false (the code as it is). *)
From Gots Require Import Base.Prelude Model.Ebp Spec.EbpSpec Proofs.EbpLemmas.
Import Ebp EbpSpec.

Definition val0 (o : option N) : N := match o with Some v => v | None => 0 end.
Definition tval (o : option (N * N)) : N * N := match o with Some x => x | None => (0, 0) end.

(* the guard of the patched readers (g = true) never fires on a field that lies inside the buffer and below index 256 *)
Lemma chk_ok g data pre mid post n : data = pre ++ mid ++ post -> len mid = n -> len pre + n <= 255 ->
  chk g data (len pre) n = false.
Proof.
  intros -> Hm Hb. unfold chk. rewrite !len_app, Hm.
  replace (len pre + (n + len post) <? len pre + n) with false by lia.
  replace (255 <? len pre + n) with false by lia. destruct g; reflexivity.
Qed.

(* ---------------- one lemma per optional field: the cursor is `len pre` ---------------- *)
Lemma rd_ext_ok g o data pre post e :
  data = pre ++ opt_byte o ++ post -> len pre + len (opt_byte o) <= 255 ->
  ExtensionFlag e = is_some o -> ExtensionFlags e = 0 ->
  rd_ext g data (e, len pre) = Ok (set_ExtensionFlags e (val0 o), len (pre ++ opt_byte o)).
Proof.
  intros Hd Hl Hf H0. unfold rd_ext. rewrite Hf. destruct o as [v|]; cbn [is_some opt_byte val0].
  - cbn [opt_byte] in Hl; rewrite len_cons, len_nil in Hl. rewrite (chk_ok g data pre [v] post 1 Hd eq_refl Hl). rewrite (rd8_at data pre v post Hd ltac:(lia)). reflexivity.
  - rewrite app_nil_r. destruct e; cbn in H0; subst; reflexivity.
Qed.

Lemma rd_sap_ok g o data pre post e :
  data = pre ++ opt_byte o ++ post -> len pre + len (opt_byte o) <= 255 ->
  SapFlag e = is_some o -> SapType e = 0 ->
  rd_sap g data (e, len pre) = Ok (set_SapType e (val0 o), len (pre ++ opt_byte o)).
Proof.
  intros Hd Hl Hf H0. unfold rd_sap. rewrite Hf. destruct o as [v|]; cbn [is_some opt_byte val0].
  - cbn [opt_byte] in Hl; rewrite len_cons, len_nil in Hl. rewrite (chk_ok g data pre [v] post 1 Hd eq_refl Hl). rewrite (rd8_at data pre v post Hd ltac:(lia)). reflexivity.
  - rewrite app_nil_r. destruct e; cbn in H0; subst; reflexivity.
Qed.

Lemma rd_group1_ok g o data pre post e :
  data = pre ++ opt_byte o ++ post -> len pre + len (opt_byte o) <= 255 ->
  GroupingFlag e = is_some o -> Grouping e = [] ->
  rd_group1 g data (e, len pre) = Ok (set_Grouping e (opt_byte o), len (pre ++ opt_byte o)).
Proof.
  intros Hd Hl Hf H0. unfold rd_group1. rewrite Hf. destruct o as [v|]; cbn [is_some opt_byte].
  - cbn [opt_byte] in Hl; rewrite len_cons, len_nil in Hl. rewrite (chk_ok g data pre [v] post 1 Hd eq_refl Hl). rewrite (rd8_at data pre v post Hd ltac:(lia)). cbn [bind]. rewrite H0. reflexivity.
  - rewrite app_nil_r. destruct e; cbn in H0; subst; reflexivity.
Qed.

Lemma read_time_ok g o data pre post e :
  data = pre ++ opt_time o ++ post -> len pre + len (opt_time o) < 256 -> time_opt o ->
  TimeFlag e = is_some o -> TimeSeconds e = 0 -> TimeFraction e = 0 ->
  read_time g data (e, len pre) = Ok (set_Time e (fst (tval o)) (snd (tval o)), len (pre ++ opt_time o)).
Proof.
  intros Hd Hl Hv Hf H0 H1. unfold read_time. rewrite Hf. destruct o as [[s f]|]; cbn [is_some opt_time tval fst snd].
  - destruct Hv as [Hs Hfr]. cbn [opt_time] in Hd, Hl. rewrite len_app, !len_to_be32 in Hl.
    rewrite (chk_ok g data pre (to_be32 s ++ to_be32 f) post 8 Hd eq_refl ltac:(lia)).
    rewrite (rd32_at data pre s (to_be32 f ++ post)); [ | rewrite Hd, <- app_assoc; reflexivity | exact Hs | lia ].
    cbn [bind].
    rewrite (rd32_at data (pre ++ to_be32 s) f post); [ | rewrite Hd, <- !app_assoc; reflexivity | exact Hfr | rewrite len_app, len_to_be32; lia ].
    cbn [bind]. rewrite <- app_assoc. reflexivity.
  - rewrite app_nil_r. destruct e; cbn in H0, H1; subst; reflexivity.
Qed.

Lemma read_reserved_ok data pre tail rest e :
  data = pre ++ tail ++ rest -> DataFieldLength e + 2 = len pre + len tail -> len pre + len tail <= 255 ->
  ReservedBytes e = [] ->
  read_reserved data (e, len pre) = Ok (set_ReservedBytes e tail).
Proof.
  intros Hd HL Hb H0. unfold read_reserved, w8. rewrite HL, N.mod_small by lia.
  destruct tail as [|x tail].
  - rewrite len_nil, N.add_0_r, N.ltb_irrefl. destruct e; cbn in H0; subst; reflexivity.
  - replace (len pre <? len pre + len (x :: tail)) with true by (rewrite len_cons; lia).
    replace (len data <? len pre + len (x :: tail)) with false by (rewrite Hd, !len_app; lia).
    rewrite Hd, slice_at. reflexivity.
Qed.

Ltac recs := cbn [DataFieldTag DataFieldLength DataFlags ExtensionFlags SapType TimeSeconds TimeFraction ReservedBytes
  Grouping FormatIdentifier PartitionFlags set_DataFieldTag set_DataFieldLength set_DataFlags set_ExtensionFlags set_SapType
  set_Time set_ReservedBytes set_Grouping set_FormatIdentifier set_PartitionFlags zero].
Ltac lens := repeat first [rewrite len_app | rewrite len_cons | rewrite len_nil | rewrite len_to_be32]; lia.

(* ---------------- Comcast ---------------- *)
Definition decoded_comcast (c : comcast) : t :=
  mk 169 (len (ser_comcast_body c)) (c_flags c) (val0 (c_ext c)) (val0 (c_sap c))
     (fst (tval (c_time c))) (snd (tval (c_time c))) (c_tail c) (opt_byte (c_group c)) 0 0.

Lemma len_opt_byte o : len (opt_byte o) <= 1.
Proof. destruct o; cbn; lia. Qed.
Lemma len_opt_time o : len (opt_time o) <= 8.
Proof. destruct o as [[s f]|]; cbn; lia. Qed.

Lemma comcast_flag_facts c L : L <> 0 ->
  let e := mk 169 L (c_flags c) 0 0 0 0 [] [] 0 0 in
  ExtensionFlag e = is_some (c_ext c) /\ SapFlag e = is_some (c_sap c) /\ GroupingFlag e = is_some (c_group c)
  /\ TimeFlag e = is_some (c_time c) /\ FragmentFlag e = c_fragment c /\ SegmentFlag e = c_segment c
  /\ DiscontinuityFlag e = c_discontinuity c.
Proof.
  intros HL e. unfold ExtensionFlag, SapFlag, GroupingFlag, TimeFlag, FragmentFlag, SegmentFlag, DiscontinuityFlag, flag.
  cbn [e DataFieldLength DataFlags]. replace (L =? 0) with false by (symmetry; apply N.eqb_neq; exact HL).
  cbn [negb andb]. unfold c_flags.
  pose proof (flags_byte_bits (c_fragment c) (c_segment c) (is_some (c_sap c)) (is_some (c_group c)) (is_some (c_time c))
                (c_discontinuity c) (c_rsvbit c) (is_some (c_ext c))) as B. cbv zeta in B. tauto.
Qed.

Lemma decode_ser_comcast g c rest : wf_comcast c ->
  readComcastEbp g (ser_comcast c ++ rest) = Ok (decoded_comcast c).
Proof.
  intros (Hext & Hsap & Hgrp & Htm & Htail & Hlen).
  unfold readComcastEbp, ser_comcast, decoded_comcast.
  set (L := len (ser_comcast_body c)) in *.
  assert (HL : L = 1 + len (opt_byte (c_ext c)) + len (opt_byte (c_sap c)) + len (opt_byte (c_group c))
                   + len (opt_time (c_time c)) + len (c_tail c)).
  { subst L. unfold ser_comcast_body. rewrite !len_app, len_cons, len_nil. lia. }
  pose proof (len_opt_byte (c_ext c)) as B1. pose proof (len_opt_byte (c_sap c)) as B2.
  pose proof (len_opt_byte (c_group c)) as B3. pose proof (len_opt_time (c_time c)) as B4.
  set (E := opt_byte (c_ext c)) in *. set (S := opt_byte (c_sap c)) in *. set (G := opt_byte (c_group c)) in *.
  set (T := opt_time (c_time c)) in *. set (F := c_flags c).
  set (data := (169 :: L :: ser_comcast_body c) ++ rest).
  assert (Hd : data = 169 :: L :: F :: E ++ S ++ G ++ T ++ c_tail c ++ rest).
  { subst data. unfold ser_comcast_body. fold E S G T F. cbn [app]. rewrite <- !app_assoc. reflexivity. }
  clearbody data.
  assert (Hlen2 : len data = 2 + L + len rest).
  { rewrite Hd, !len_cons, !len_app. lia. }
  replace (len data <? 2) with false by lia.
  assert (R0 : rd8 data 0 = Ok (169, 1)) by exact (rd8_at data [] 169 _ Hd eq_refl).
  assert (R1 : rd8 data 1 = Ok (L, 2)) by exact (rd8_at data [169] L _ Hd eq_refl).
  assert (R2 : rd8 data 2 = Ok (F, len ([169; L] ++ [F]))) by exact (rd8_at data [169; L] F _ Hd eq_refl).
  rewrite R0. cbn [bind]. rewrite R1. cbn [bind].
  cbn [set_DataFieldLength set_DataFieldTag zero DataFieldLength DataFieldTag DataFlags ExtensionFlags SapType
       TimeSeconds TimeFraction ReservedBytes Grouping FormatIdentifier PartitionFlags ComcastEbpTag].
  replace (0 <? L) with true by lia. replace (3 <=? len data) with true by lia.
  rewrite R2. cbn [bind].
  cbn [set_DataFlags DataFieldLength DataFieldTag DataFlags ExtensionFlags SapType
       TimeSeconds TimeFraction ReservedBytes Grouping FormatIdentifier PartitionFlags].
  destruct (comcast_flag_facts c L ltac:(lia)) as (Fe & Fs & Fg & Ft & _).
  (* extension *)
  rewrite (rd_ext_ok g (c_ext c) data ([169; L] ++ [F]) (S ++ G ++ T ++ c_tail c ++ rest));
    [ | exact Hd | fold E; lens | exact Fe | reflexivity ].
  cbn [bind]. fold E.
  rewrite (rd_sap_ok g (c_sap c) data (([169; L] ++ [F]) ++ E) (G ++ T ++ c_tail c ++ rest));
    [ | rewrite Hd; cbn [app]; rewrite <- ?app_assoc; reflexivity | fold S; lens
      | exact Fs | reflexivity ].
  cbn [bind]. fold S.
  rewrite (rd_group1_ok g (c_group c) data ((([169; L] ++ [F]) ++ E) ++ S) (T ++ c_tail c ++ rest));
    [ | rewrite Hd; cbn [app]; rewrite <- ?app_assoc; reflexivity | fold G; lens
      | exact Fg | reflexivity ].
  cbn [bind]. fold G.
  rewrite (read_time_ok g (c_time c) data (((([169; L] ++ [F]) ++ E) ++ S) ++ G) (c_tail c ++ rest));
    [ | rewrite Hd; cbn [app]; rewrite <- ?app_assoc; reflexivity | fold T; lens
      | exact Htm | exact Ft | reflexivity | reflexivity ].
  cbn [bind]. fold T.
  rewrite (read_reserved_ok data ((((([169; L] ++ [F]) ++ E) ++ S) ++ G) ++ T) (c_tail c) rest);
    [ | rewrite Hd; cbn [app]; rewrite <- ?app_assoc; reflexivity
      | recs; lens
      | lens | reflexivity ].
  reflexivity.
Qed.

(* ---------------- CableLabs ---------------- *)
Lemma rd_part_ok g o data pre post e :
  data = pre ++ opt_byte o ++ post -> len pre + len (opt_byte o) <= 255 ->
  PartitionFlag e = is_some o -> PartitionFlags e = 0 ->
  rd_part g data (e, len pre) = Ok (set_PartitionFlags e (val0 o), len (pre ++ opt_byte o)).
Proof.
  intros Hd Hl Hf H0. unfold rd_part. rewrite Hf. destruct o as [v|]; cbn [is_some opt_byte val0].
  - cbn [opt_byte] in Hl; rewrite len_cons, len_nil in Hl. rewrite (chk_ok g data pre [v] post 1 Hd eq_refl Hl). rewrite (rd8_at data pre v post Hd ltac:(lia)). reflexivity.
  - rewrite app_nil_r. destruct e; cbn in H0; subst; reflexivity.
Qed.

Lemma len_ser_chain : forall r y, len (ser_chain y r) = 1 + len r.
Proof. induction r as [|z r IH]; intro y; cbn [ser_chain]; rewrite ?len_cons, ?IH, ?len_nil; lia. Qed.

Lemma group_loop_ok : forall r y fuel data pre post gr,
  data = pre ++ ser_chain y r ++ post -> y < 128 -> Forall (fun z => z < 128) r ->
  len pre + len (ser_chain y r) <= 255 -> (length r < fuel)%nat ->
  group_loop fuel data gr (len pre) = Ok (gr ++ y :: r, len (pre ++ ser_chain y r)).
Proof.
  induction r as [|z r IH]; intros y fuel data pre post gr Hd Hy Hr Hb Hfuel;
    (destruct fuel as [|fuel]; [cbn in Hfuel; lia|]); cbn [group_loop ser_chain] in *.
  - rewrite len_cons, len_nil in Hb.
    replace (len data <=? len pre) with false by (rewrite Hd, !len_app, len_cons; lia).
    replace (len pre =? 255) with false by lia. cbn [orb].
    rewrite Hd. cbn [app]. rewrite idx_at. cbn [bind].
    destruct (id7_facts y Hy) as (E1 & E2 & _). rewrite E1, E2. cbn [N.eqb negb].
    unfold w8. rewrite N.mod_small by lia. rewrite len_app, len_cons, len_nil. reflexivity.
  - rewrite len_cons, len_ser_chain in Hb.
    replace (len data <=? len pre) with false by (rewrite Hd, !len_app, len_cons; lia).
    replace (len pre =? 255) with false by lia. cbn [orb].
    rewrite Hd at 1. cbn [app]. rewrite idx_at. cbn [bind].
    destruct (id7_facts y Hy) as (_ & _ & E3 & E4 & _). rewrite E3, E4. cbn [N.eqb negb Pos.eqb].
    inversion Hr as [|? ? Hz Hr']; subst.
    replace (w8 (len pre + 1)) with (len (pre ++ [y + 128])) by (unfold w8; rewrite N.mod_small by lia; lens).
    rewrite (IH z fuel _ (pre ++ [y + 128]) post (gr ++ [y])); cbn [length] in *;
      [ | rewrite <- app_assoc; reflexivity | exact Hz | exact Hr' | rewrite len_ser_chain; lens | lia ].
    rewrite <- !app_assoc. reflexivity.
Qed.

Definition groups_list (o : option (N * list N)) : bytes := match o with Some (x, r) => x :: r | None => [] end.

Lemma read_groups_ok g o data pre post e :
  data = pre ++ ser_groups o ++ post -> len pre + len (ser_groups o) <= 255 -> groups_ok o ->
  GroupingFlag e = is_some o -> Grouping e = [] ->
  read_groups group_loop g data (e, len pre) = Ok (set_Grouping e (groups_list o), len (pre ++ ser_groups o)).
Proof.
  intros Hd Hb Hok Hf H0. unfold read_groups. rewrite Hf. destruct o as [[x r]|]; cbn [is_some ser_groups groups_list] in *.
  - destruct Hok as [Hx Hr]. rewrite H0. cbn [app].
    assert (Hc : chk g data (len pre) 1 = false).
    { destruct r as [|z r]; cbn [ser_chain] in Hd, Hb; rewrite len_cons in Hb.
      - apply (chk_ok g data pre [x] post 1 Hd eq_refl). lia.
      - apply (chk_ok g data pre [x + 128] (ser_chain z r ++ post) 1 Hd eq_refl). lia. }
    rewrite Hc. destruct r as [|z r]; cbn [ser_chain] in *.
    + rewrite len_cons, len_nil in Hb. rewrite Hd. cbn [app]. rewrite idx_at. cbn [bind].
      destruct (id7_facts x Hx) as (E1 & E2 & _). rewrite E1, E2. cbn [N.eqb negb].
      unfold w8. rewrite N.mod_small by lia. rewrite len_app, len_cons, len_nil. reflexivity.
    + rewrite len_cons, len_ser_chain in Hb. rewrite Hd at 1. cbn [app]. rewrite idx_at. cbn [bind].
      destruct (id7_facts x Hx) as (_ & _ & E3 & E4 & _). rewrite E3, E4. cbn [N.eqb negb Pos.eqb].
      inversion Hr as [|? ? Hz Hr']; subst.
      replace (w8 (len pre + 1)) with (len (pre ++ [x + 128])) by (unfold w8; rewrite N.mod_small by lia; lens).
      rewrite (group_loop_ok r z 257%nat _ (pre ++ [x + 128]) post [x]);
        [ | rewrite <- app_assoc; reflexivity | exact Hz | exact Hr' | rewrite len_ser_chain; lens
          | unfold len in Hb; lia ].
      cbn [bind app]. rewrite <- !app_assoc. reflexivity.
  - rewrite app_nil_r. destruct e; cbn in H0; subst; reflexivity.
Qed.

Definition ext_opt (o : option (N * option N)) : option N := option_map ext_byte o.
Definition part_opt (o : option (N * option N)) : option N := match o with Some (_, p) => p | None => None end.
Lemma ser_ext_opt o : ser_ext o = opt_byte (ext_opt o). Proof. destruct o; reflexivity. Qed.
Lemma ser_part_opt o : ser_part o = opt_byte (part_opt o). Proof. destruct o as [[lo [p|]]|]; reflexivity. Qed.

Definition decoded_cablelabs (c : cablelabs) : t :=
  mk 223 (len (ser_cablelabs_body c)) (l_flags c) (val0 (ext_opt (l_ext c))) (val0 (l_sap c))
     (fst (tval (l_time c))) (snd (tval (l_time c))) (l_tail c) (groups_list (l_groups c)) (l_format c)
     (val0 (part_opt (l_ext c))).

Lemma len_ser_groups_pos o : len (ser_groups o) = len (groups_list o).
Proof. destruct o as [[x r]|]; cbn [ser_groups groups_list]; rewrite ?len_ser_chain, ?len_cons; reflexivity. Qed.

Lemma cablelabs_flag_facts c L fmt : L <> 0 ->
  let e := mk 223 L (l_flags c) 0 0 0 0 [] [] fmt 0 in
  ExtensionFlag e = is_some (l_ext c) /\ SapFlag e = is_some (l_sap c) /\ GroupingFlag e = is_some (l_groups c)
  /\ TimeFlag e = is_some (l_time c) /\ FragmentFlag e = l_fragment c /\ SegmentFlag e = l_segment c
  /\ ConcealmentFlag e = l_concealment c.
Proof.
  intros HL e. unfold ExtensionFlag, SapFlag, GroupingFlag, TimeFlag, FragmentFlag, SegmentFlag, ConcealmentFlag, flag.
  cbn [e DataFieldLength DataFlags]. replace (L =? 0) with false by (symmetry; apply N.eqb_neq; exact HL).
  cbn [negb andb]. unfold l_flags.
  pose proof (flags_byte_bits (l_fragment c) (l_segment c) (is_some (l_sap c)) (is_some (l_groups c)) (is_some (l_time c))
                (l_concealment c) (l_rsvbit c) (is_some (l_ext c))) as B. cbv zeta in B. tauto.
Qed.

Lemma partition_flag_fact (o : option (N * option N)) e : ext_ok o ->
  ExtensionFlag e = is_some o -> ExtensionFlags e = val0 (ext_opt o) -> PartitionFlag e = is_some (part_opt o).
Proof.
  intros Hok Hf Hv. unfold PartitionFlag. rewrite Hf, Hv. destruct o as [[lo p]|]; cbn [is_some andb ext_opt option_map val0 part_opt].
  - destruct Hok as [Hlo _]. apply (ext_byte_facts lo p Hlo).
  - reflexivity.
Qed.

Lemma decode_ser_cablelabs g c rest : wf_cablelabs c ->
  readCableLabsEbp g (ser_cablelabs c ++ rest) = Ok (decoded_cablelabs c).
Proof.
  intros (Hfmt & Hext & Hsap & Hgrp & Htm & Htail & Hlen).
  unfold readCableLabsEbp, readCableLabsEbp_with, ser_cablelabs, decoded_cablelabs.
  set (L := len (ser_cablelabs_body c)) in *.
  assert (HL : L = 5 + len (opt_byte (ext_opt (l_ext c))) + len (opt_byte (l_sap c)) + len (ser_groups (l_groups c))
                   + len (opt_time (l_time c)) + len (opt_byte (part_opt (l_ext c))) + len (l_tail c)).
  { subst L. unfold ser_cablelabs_body. rewrite ser_ext_opt, ser_part_opt. lens. }
  pose proof (len_opt_byte (ext_opt (l_ext c))) as B1. pose proof (len_opt_byte (l_sap c)) as B2.
  pose proof (len_opt_byte (part_opt (l_ext c))) as B3. pose proof (len_opt_time (l_time c)) as B4.
  set (E := opt_byte (ext_opt (l_ext c))) in *. set (S := opt_byte (l_sap c)) in *. set (G := ser_groups (l_groups c)) in *.
  set (T := opt_time (l_time c)) in *. set (P := opt_byte (part_opt (l_ext c))) in *. set (F := l_flags c).
  set (data := (223 :: L :: ser_cablelabs_body c) ++ rest).
  assert (Hd : data = 223 :: L :: to_be32 (l_format c) ++ F :: E ++ S ++ G ++ T ++ P ++ l_tail c ++ rest).
  { subst data. unfold ser_cablelabs_body. rewrite ser_ext_opt, ser_part_opt. fold E S G T P F. cbn [app to_be32].
    rewrite <- !app_assoc. reflexivity. }
  clearbody data.
  assert (Hlen2 : len data = 2 + L + len rest).
  { rewrite Hd. lens. }
  replace (len data <? 2) with false by lia.
  set (P0 := ([223; L] ++ to_be32 (l_format c)) ++ [F]).
  assert (R0 : rd8 data 0 = Ok (223, 1)) by exact (rd8_at data [] 223 _ Hd eq_refl).
  assert (R1 : rd8 data 1 = Ok (L, 2)) by exact (rd8_at data [223] L _ Hd eq_refl).
  assert (R2 : rd32 data 2 = Ok (l_format c, 6)) by exact (rd32_at data [223; L] (l_format c) _ Hd Hfmt eq_refl).
  assert (R3 : rd8 data 6 = Ok (F, len P0)) by exact (rd8_at data ([223; L] ++ to_be32 (l_format c)) F _ Hd eq_refl).
  assert (HP0 : len P0 = 7) by reflexivity.
  rewrite R0. cbn [bind]. rewrite R1. cbn [bind]. recs. unfold CableLabsEbpTag.
  replace (0 <? L) with true by lia. replace (7 <=? len data) with true by lia.
  rewrite R2. cbn [bind]. rewrite R3. cbn [bind]. recs.
  destruct (cablelabs_flag_facts c L (l_format c) ltac:(lia)) as (Fe & Fs & Fg & Ft & _).
  assert (Hd' : data = P0 ++ E ++ S ++ G ++ T ++ P ++ l_tail c ++ rest).
  { rewrite Hd. subst P0. cbn [app to_be32]. reflexivity. }
  clearbody P0. clear R0 R1 R2 R3 Hd.
  rewrite (rd_ext_ok g (ext_opt (l_ext c)) data P0 (S ++ G ++ T ++ P ++ l_tail c ++ rest));
    [ | exact Hd' | fold E; lens | transitivity (is_some (l_ext c)); [exact Fe | destruct (l_ext c); reflexivity] | reflexivity ].
  cbn [bind]. fold E.
  rewrite (rd_sap_ok g (l_sap c) data (P0 ++ E) (G ++ T ++ P ++ l_tail c ++ rest));
    [ | rewrite Hd'; rewrite <- ?app_assoc; reflexivity | fold S; lens | exact Fs | reflexivity ].
  cbn [bind]. fold S.
  rewrite (read_groups_ok g (l_groups c) data ((P0 ++ E) ++ S) (T ++ P ++ l_tail c ++ rest));
    [ | rewrite Hd'; rewrite <- ?app_assoc; reflexivity | fold G; lens | exact Hgrp | exact Fg | reflexivity ].
  cbn [bind]. fold G.
  rewrite (read_time_ok g (l_time c) data (((P0 ++ E) ++ S) ++ G) (P ++ l_tail c ++ rest));
    [ | rewrite Hd'; rewrite <- ?app_assoc; reflexivity | fold T; lens | exact Htm | exact Ft | reflexivity | reflexivity ].
  cbn [bind]. fold T.
  rewrite (rd_part_ok g (part_opt (l_ext c)) data ((((P0 ++ E) ++ S) ++ G) ++ T) (l_tail c ++ rest));
    [ | rewrite Hd'; rewrite <- ?app_assoc; reflexivity | fold P; lens
      | apply (partition_flag_fact (l_ext c)); [exact Hext | exact Fe | reflexivity] | reflexivity ].
  cbn [bind]. fold P.
  rewrite (read_reserved_ok data (((((P0 ++ E) ++ S) ++ G) ++ T) ++ P) (l_tail c) rest);
    [ | rewrite Hd'; rewrite <- ?app_assoc; reflexivity | recs; lens | lens | reflexivity ].
  reflexivity.
Qed.
