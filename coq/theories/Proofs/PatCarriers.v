(* C07: the packet carrier (188-byte path of NewPAT), the stream carrier (ReadPAT) and IsPMT. *)
From Gots Require Import Base.Prelude Model.Pat Spec.PatSpec Proofs.PatBase Proofs.StreamType Proofs.StreamTypeDesc Proofs.Pat.
Import Pat PatSpec.

(* ---- packet.Payload on any 188 bytes ---- *)
Lemma payload_len pkt pay : len pkt = 188 -> PatPkt.payload pkt = Ok pay -> len pay <= 184.
Proof. intros L. unfold PatPkt.payload, PatPkt.contains_payload, PatPkt.payload_start, PatPkt.contains_adaptation_field.
  destruct (idx pkt 3) as [b3| | |]; cbn [bind]; try discriminate.
  destruct (negb (bit b3 16)); [discriminate|].
  destruct (bit b3 32).
  - destruct (idx pkt 4) as [l| | |]; cbn [bind]; try discriminate.
    destruct (len pkt <? 4 + 1 + l) eqn:E; [discriminate|]. apply N.ltb_ge in E. unfold slice_from. intros H.
    apply slice_len in H. lia.
  - cbn [bind]. destruct (len pkt <? 4) eqn:E; [discriminate|]. unfold slice_from. intros H. apply slice_len in H. lia. Qed.

(* the 188-byte path of NewPAT = the payload path on Payload(pkt), for every 188-byte array *)
Lemma new_pat_packet pkt : len pkt = 188 ->
  new_pat pkt = (let? pay := PatPkt.payload pkt in new_pat pay).
Proof. intros L. unfold new_pat at 1. rewrite L. cbn [N.ltb N.eqb N.compare Pos.compare Pos.compare_cont Pos.eqb].
  destruct (PatPkt.payload pkt) as [pay| | |] eqn:E; cbn [bind]; try reflexivity.
  pose proof (payload_len pkt pay L E) as Hp. unfold new_pat.
  assert (E2 : (len pay =? 188) = false) by (apply N.eqb_neq; lia). rewrite E2. reflexivity. Qed.

(* ---- the Spec packet: PID and payload are what was put in ---- *)
Definition afc_ok (t a c : N) : bool :=
  let b := t * 64 + a * 32 + 16 + c in bit b 16 && Bool.eqb (bit b 32) (a =? 1).
Lemma afc_sweep : forallb (fun t => forallb (fun a => forallb (afc_ok t a) (nrange 16 0)) (nrange 2 0)) (nrange 4 0) = true.
Proof. vm_compute. reflexivity. Qed.
Lemma afc_bits t a c : t < 4 -> a < 2 -> c < 16 ->
  bit (t * 64 + a * 32 + 16 + c) 16 = true /\ bit (t * 64 + a * 32 + 16 + c) 32 = (a =? 1).
Proof. intros Ht Ha Hc. pose proof afc_sweep as S. rewrite forallb_forall in S.
  specialize (S t (nrange_in 4 0 t ltac:(lia))). rewrite forallb_forall in S.
  specialize (S a (nrange_in 2 0 a ltac:(lia))). rewrite forallb_forall in S.
  specialize (S c (nrange_in 16 0 c ltac:(lia))). unfold afc_ok in S. apply andb_true_iff in S. destruct S as [S1 S2].
  split; [exact S1|]. apply Bool.eqb_prop in S2. exact S2. Qed.

Lemma packet_len h af pay : wf_packet h af pay -> len (ser_packet h af pay) = 188.
Proof. intros (_ & _ & Ha). unfold ser_packet, len. destruct af as [a|]; cbn [app length].
  - destruct Ha as [_ Ha]. rewrite app_length. cbn [length]. lia.
  - lia. Qed.
Lemma packet_pid h af pay : wf_packet h af pay -> PatPkt.pid (ser_packet h af pay) = Ok (ppid h).
Proof. intros ((_ & Hp & _ & _) & _). unfold PatPkt.pid, ser_packet. cbn [app].
  rewrite idx1. cbn [bind]. rewrite idx2. cbn [bind]. f_equal. apply decode_pid. exact Hp. Qed.
Lemma packet_payload h af pay : wf_packet h af pay -> PatPkt.payload (ser_packet h af pay) = Ok pay.
Proof. intros W. pose proof (packet_len h af pay W) as L. destruct W as ((_ & _ & Ht & Hc) & _ & Ha).
  unfold PatPkt.payload, PatPkt.contains_payload, PatPkt.payload_start, PatPkt.contains_adaptation_field.
  rewrite L. unfold ser_packet in *. destruct af as [a|].
  - cbn [app]. rewrite idx3. cbn [bind].
    destruct (afc_bits (tsc h) 1 (cc h) Ht ltac:(lia) Hc) as [B1 B2].
    replace (tsc h * 64 + 32 + 16 + cc h) with (tsc h * 64 + 1 * 32 + 16 + cc h) by lia.
    rewrite B1, B2. cbn [negb N.eqb Pos.eqb]. rewrite idx4. cbn [bind].
    destruct Ha as [_ Ha].
    assert (E : (188 <? 4 + 1 + len a) = false) by (apply N.ltb_ge; unfold len; lia). rewrite E.
    set (b1 := b1hi h * 32 + ppid h / 256). set (b3 := tsc h * 64 + 1 * 32 + 16 + cc h).
    replace (71 :: b1 :: ppid h mod 256 :: b3 :: len a :: a ++ pay)
      with ((71 :: b1 :: ppid h mod 256 :: b3 :: len a :: a) ++ pay) by reflexivity.
    replace (4 + 1 + len a) with (len (71 :: b1 :: ppid h mod 256 :: b3 :: len a :: a))
      by (rewrite !plen_cons; lia).
    apply slice_from_app.
  - cbn [app]. rewrite idx3. cbn [bind].
    destruct (afc_bits (tsc h) 0 (cc h) Ht ltac:(lia) Hc) as [B1 B2].
    replace (tsc h * 64 + 0 + 16 + cc h) with (tsc h * 64 + 0 * 32 + 16 + cc h) by lia.
    rewrite B1, B2. cbn [negb N.eqb bind N.ltb N.compare Pos.compare Pos.compare_cont].
    set (b1 := b1hi h * 32 + ppid h / 256). set (b3 := tsc h * 64 + 0 * 32 + 16 + cc h).
    exact (slice_from_app [71; b1; ppid h mod 256; b3] pay). Qed.

(* whole-packet carrier: the PAT object is the payload that was put into the packet *)
Lemma packet_carrier h af k filler s rest : wf_section s -> len filler = k ->
  wf_packet h af (ser_payload_pf k filler s rest) ->
  new_pat (ser_packet h af (ser_payload_pf k filler s rest)) = Ok (ser_payload_pf k filler s rest).
Proof. intros Ws Lf Wp. rewrite new_pat_packet by (apply packet_len; exact Wp).
  rewrite packet_payload by exact Wp. cbn [bind]. apply new_pat_payload; [exact Ws|exact Lf|].
  pose proof (payload_len _ _ (packet_len _ _ _ Wp) (packet_payload _ _ _ Wp)). lia. Qed.
(* a payload that fits into a packet has pointer_field < 183 *)
Lemma packet_pointer_bound h af k filler s rest : wf_section s -> len filler = k ->
  wf_packet h af (ser_payload_pf k filler s rest) -> k <= 171.
Proof. intros Ws Lf Wp. pose proof (payload_len _ _ (packet_len _ _ _ Wp) (packet_payload _ _ _ Wp)) as L.
  rewrite len_payload in L by assumption. lia. Qed.

(* ---- ReadPAT ---- *)
Definition other_pid (p : bytes) : Prop := exists x, PatPkt.pid p = Ok x /\ x <> 0.
Lemma read_pat_skip others tail : Forall other_pid others ->
  read_pat (map RFull others ++ tail) = read_pat tail.
Proof. induction 1 as [|o others (x & Hx & Hnz) _ IH]; [reflexivity|]. cbn [map app read_pat].
  unfold PatPkt.is_pat. rewrite Hx. cbn [bind]. apply N.eqb_neq in Hnz. rewrite Hnz. exact IH. Qed.
Lemma read_pat_first others p rest : Forall other_pid others -> PatPkt.pid p = Ok 0 ->
  read_pat (map RFull others ++ RFull p :: rest) = (let? pay := PatPkt.payload p in new_pat pay).
Proof. intros Ho Hp. rewrite read_pat_skip by exact Ho. cbn [read_pat]. unfold PatPkt.is_pat. rewrite Hp. reflexivity. Qed.
Lemma read_pat_not_found pkts e : Forall other_pid pkts -> e = E.EOF \/ e = E.UnexpectedEOF ->
  read_pat (map RFull pkts) = Err E.PATNotFound /\
  read_pat (map RFull pkts ++ [RFail e]) = Err E.PATNotFound.
Proof. intros Ho He. split.
  - rewrite <- (app_nil_r (map RFull pkts)). rewrite read_pat_skip by exact Ho. reflexivity.
  - rewrite read_pat_skip by exact Ho. cbn [read_pat]. destruct He as [-> | ->]; reflexivity. Qed.
Lemma read_pat_reader_error pkts e rest : Forall other_pid pkts -> e <> E.EOF -> e <> E.UnexpectedEOF ->
  read_pat (map RFull pkts ++ RFail e :: rest) = Err e.
Proof. intros Ho H1 H2. rewrite read_pat_skip by exact Ho. cbn [read_pat].
  apply N.eqb_neq in H1, H2. rewrite H1, H2. reflexivity. Qed.

(* stream carrier: any prefix of other-PID packets, then the PAT packet, then anything *)
Lemma stream_carrier others h af k filler s rest more : Forall other_pid others ->
  wf_section s -> len filler = k -> wf_packet h af (ser_payload_pf k filler s rest) -> ppid h = 0 ->
  read_pat (map RFull others ++ RFull (ser_packet h af (ser_payload_pf k filler s rest)) :: more)
  = Ok (ser_payload_pf k filler s rest).
Proof. intros Ho Ws Lf Wp H0. rewrite read_pat_first; [|exact Ho|rewrite packet_pid by exact Wp; f_equal; exact H0].
  rewrite <- new_pat_packet by (apply packet_len; exact Wp). apply packet_carrier; assumption. Qed.

(* ---- IsPMT ---- *)
Lemma existsb_values m x : NoDup (map fst m) ->
  (existsb (fun kv : N * N => snd kv =? x) m = true <-> exists p, lookup m p = Some x).
Proof. intros Hd. rewrite existsb_exists. split.
  - intros ([p v] & Hin & Hv). cbn [snd] in Hv. apply N.eqb_eq in Hv. subst v. exists p. apply in_lookup; assumption.
  - intros (p & Hl). exists (p, x). split; [apply lookup_in; exact Hl|apply N.eqb_refl]. Qed.

Lemma is_pmt_iff pkt k filler s rest x : wf_section s -> k < 256 -> len filler = k -> PatPkt.pid pkt = Ok x ->
  exists b, is_pmt pkt (Some (ser_payload_pf k filler s rest)) = Ok b /\ (b = true <-> is_pmt_pid (entries s) x).
Proof. intros W Hk Lf Hx. unfold is_pmt. rewrite program_map_ok by assumption. cbn [bind]. rewrite Hx. cbn [bind].
  eexists. split; [reflexivity|]. rewrite existsb_values by apply model_map_nodup. unfold is_pmt_pid.
  split; intros (p & Hp); exists p; [rewrite <- model_map_lookup|rewrite model_map_lookup]; exact Hp. Qed.
Lemma is_pmt_nil pkt : is_pmt pkt None = Err E.NilPAT.
Proof. reflexivity. Qed.

(* every 188-byte array has a PID (the hypothesis `PatPkt.pid pkt = Ok x` is always satisfiable) *)
Lemma pid_total pkt : len pkt = 188 -> exists x, PatPkt.pid pkt = Ok x.
Proof. intros L. unfold PatPkt.pid. destruct (idx_lt pkt 1 ltac:(lia)) as [a ->]. destruct (idx_lt pkt 2 ltac:(lia)) as [b ->].
  cbn [bind]. eauto. Qed.

Lemma packet_fields h af pay : wf_packet h af pay ->
  PatPkt.pid (ser_packet h af pay) = Ok (ppid h) /\ PatPkt.payload (ser_packet h af pay) = Ok pay /\
  len (ser_packet h af pay) = 188.
Proof. intros W. repeat split; [apply packet_pid|apply packet_payload|apply packet_len]; exact W. Qed.
