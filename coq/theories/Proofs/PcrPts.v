(* C04: PCR and PTS/DTS codecs. Closed arithmetic forms of the decoders and encoders
   (disjoint lor as +, masks as mod), then round trip / layout / independence by lia. *)
From Gots Require Import Base.Prelude Base.CodecLemmas Model.Pts Model.PcrCodec Model.Pes Spec.TimestampSpec.
Import TsSpec.
Local Open Scope N_scope.

Lemma Ok_inj {A} (x y : A) : Ok x = Ok y -> x = y.
Proof. intro H. injection H. auto. Qed.
Lemma idx_0 a l : idx (a :: l) 0 = Ok a. Proof. reflexivity. Qed.
Lemma idx_1 a b l : idx (a :: b :: l) 1 = Ok b. Proof. reflexivity. Qed.
Lemma idx_2 a b c l : idx (a :: b :: c :: l) 2 = Ok c. Proof. reflexivity. Qed.
Lemma idx_3 a b c d l : idx (a :: b :: c :: d :: l) 3 = Ok d. Proof. reflexivity. Qed.
Lemma idx_4 a b c d e l : idx (a :: b :: c :: d :: e :: l) 4 = Ok e. Proof. reflexivity. Qed.
Lemma idx_5 a b c d e f l : idx (a :: b :: c :: d :: e :: f :: l) 5 = Ok f. Proof. reflexivity. Qed.

(* ================= PCR decoder ================= *)
(* what ExtractPCR computes from its six bytes (no side condition) *)
Definition pcr_raw (a b c d e f : N) : N :=
  let pcrBase := N.lor (N.lor (N.lor (N.lor (w64 (N.shiftl a 25)) (w64 (N.shiftl b 17))) (w64 (N.shiftl c 9)))
                              (w64 (N.shiftl d 1))) (N.shiftr e 7) in
  let pcrExt := N.lor (w64 (N.shiftl (N.land e 1) 8)) f in
  w64 (w64 (pcrBase * 300) + pcrExt).
Lemma extract_pcr_cons a b c d e f rest :
  PcrCodec.extract_pcr (a :: b :: c :: d :: e :: f :: rest) = Ok (pcr_raw a b c d e f).
Proof. reflexivity. Qed.

Lemma pcr_raw_value a b c d e f : a < 256 -> b < 256 -> c < 256 -> d < 256 -> e < 256 -> f < 256 ->
  pcr_raw a b c d e f = pcr_value a b c d e f.
Proof. intros Ha Hb Hc Hd He Hf. unfold pcr_raw, pcr_value.
  rewrite land1, N.shiftr_div_pow2, !N.shiftl_mul_pow2.
  change (2^25) with 33554432. change (2^17) with 131072. change (2^9) with 512. change (2^1) with 2.
  change (2^7) with 128. change (2^8) with 256.
  unfold w64. rewrite (N.mod_small (a * 33554432)), (N.mod_small (b * 131072)), (N.mod_small (c * 512)),
    (N.mod_small (d * 2)), (N.mod_small (e mod 2 * 256)) by lia.
  rewrite (lor_mult_add (a * 33554432) (b * 131072) 25) by (change (2^25) with 33554432; lia).
  rewrite (lor_mult_add (a * 33554432 + b * 131072) (c * 512) 17) by (change (2^17) with 131072; lia).
  rewrite (lor_mult_add (a * 33554432 + b * 131072 + c * 512) (d * 2) 9) by (change (2^9) with 512; lia).
  rewrite (lor_mult_add (a * 33554432 + b * 131072 + c * 512 + d * 2) (e / 128) 1) by (change (2^1) with 2; lia).
  rewrite (lor_mult_add (e mod 2 * 256) f 8) by (change (2^8) with 256; lia).
  rewrite !N.mod_small by lia. lia. Qed.

(* ================= PCR encoder ================= *)
Lemma upd6 o0 o1 o2 o3 o4 o5 rest x0 x1 x2 x3 x4 x5 :
  upd (upd (upd (upd (upd (upd (o0 :: o1 :: o2 :: o3 :: o4 :: o5 :: rest) 0 x0) 1 x1) 2 x2) 3 x3) 4 x4) 5 x5
  = x0 :: x1 :: x2 :: x3 :: x4 :: x5 :: rest.
Proof. reflexivity. Qed.
Lemma upd5 o0 o1 o2 o3 o4 rest x0 x1 x2 x3 x4 :
  upd (upd (upd (upd (upd (o0 :: o1 :: o2 :: o3 :: o4 :: rest) 0 x0) 1 x1) 2 x2) 3 x3) 4 x4
  = x0 :: x1 :: x2 :: x3 :: x4 :: rest.
Proof. reflexivity. Qed.

(* byte 4 = base[0] | 111111 | ext[8] *)
Lemma pcr_byte4 base ext : ext < 512 ->
  w8 (N.lor (N.lor (w64 (N.shiftl base 7)) (N.shiftr ext 8)) 126) = (base mod 2) * 128 + 126 + ext / 256.
Proof. intros He. unfold w8.
  replace (N.lor (N.lor (w64 (N.shiftl base 7)) (N.shiftr ext 8)) 126 mod 256)
    with (N.land (N.lor (N.lor (w64 (N.shiftl base 7)) (N.shiftr ext 8)) 126) (N.ones 8))
    by (rewrite N.land_ones; reflexivity).
  rewrite !N.land_lor_distr_l, !N.land_ones. unfold w64.
  rewrite N.shiftl_mul_pow2, N.shiftr_div_pow2. change (2^7) with 128. change (2^8) with 256.
  assert (E1: (base * 128) mod 18446744073709551616 mod 256 = (base mod 2) * 128) by lia.
  assert (E2: (ext / 256) mod 256 = ext / 256) by lia.
  rewrite E1, E2. change (126 mod 256) with 126.
  assert (Hb: base mod 2 < 2) by lia. assert (Hx: ext / 256 < 2) by lia.
  destruct (N.eq_dec (base mod 2) 0) as [->|?], (N.eq_dec (ext / 256) 0) as [->|?];
    try (replace (base mod 2) with 1 by lia); try (replace (ext / 256) with 1 by lia); reflexivity. Qed.

Lemma pcr_ext v : v < 18446744073709551616 ->
  N.land (sub64 v (w64 (v / 300 * 300))) 511 = v mod 300.
Proof. intro H. rewrite land511. unfold sub64, w64.
  assert (E: (v / 300 * 300) mod 18446744073709551616 = v / 300 * 300) by (apply N.mod_small; lia).
  rewrite E, E.
  replace (v + 18446744073709551616 - v / 300 * 300) with (v mod 300 + 1 * 18446744073709551616) by lia.
  rewrite N.mod_add by lia. rewrite (N.mod_small (v mod 300)) by lia. apply N.mod_small. lia. Qed.

(* InsertPCR on a target of at least six bytes, for every uint64 value *)
Lemma insert_pcr_cons o0 o1 o2 o3 o4 o5 rest v : v < 18446744073709551616 ->
  PcrCodec.insert_pcr (o0 :: o1 :: o2 :: o3 :: o4 :: o5 :: rest) v = Ok (pcr_bytes v ++ rest).
Proof. intro Hv. unfold PcrCodec.insert_pcr.
  assert (L: (len (o0 :: o1 :: o2 :: o3 :: o4 :: o5 :: rest) <? 6) = false).
  { apply N.ltb_ge. rewrite !len_cons. lia. }
  rewrite L, upd6, pcr_ext by exact Hv. rewrite pcr_byte4 by lia.
  unfold pcr_bytes, w8. rewrite !N.shiftr_div_pow2, land255, N.mod_mod by lia.
  change (2^25) with 33554432. change (2^17) with 131072. change (2^9) with 512. change (2^1) with 2.
  reflexivity. Qed.

Lemma insert_pcr_ok old v : v < 18446744073709551616 -> (6 <= length old)%nat ->
  PcrCodec.insert_pcr old v = Ok (pcr_bytes v ++ skipn 6 old).
Proof. intros Hv Hl. destruct (list_ge6 old Hl) as (a & b & c & d & e & f & rest & ->).
  rewrite insert_pcr_cons by exact Hv. reflexivity. Qed.

Lemma insert_pcr_panic_iff old v : PcrCodec.insert_pcr old v = Panic <-> (length old < 6)%nat.
Proof. unfold PcrCodec.insert_pcr. destruct (N.ltb_spec (len old) 6) as [H|H]; unfold len in H.
  - split; [lia|reflexivity].
  - split; [discriminate|lia]. Qed.

Lemma pcr_bytes_are_bytes v : v < 8589934592 * 300 -> is_bytes (pcr_bytes v) /\ length (pcr_bytes v) = 6%nat.
Proof. intro H. split; [|reflexivity]. unfold pcr_bytes, is_bytes, is_byte. repeat constructor; lia. Qed.

(* the 48-bit field of the standard, cut into bytes, is the same six bytes *)
Lemma ser_pcr_bytes v : v < 8589934592 * 300 -> ser_pcr v = pcr_bytes v.
Proof. intro H. unfold ser_pcr, pcr_bytes, be48, pcr_field.
  set (base := v / 300). set (ext := v mod 300).
  assert (Hb: base < 8589934592) by (unfold base; lia). assert (He: ext < 300) by (unfold ext; lia).
  repeat (apply (f_equal2 (@cons N)); [lia|]). reflexivity. Qed.

Lemma pcr_roundtrip v old : v < 8589934592 * 300 -> (6 <= length old)%nat ->
  exists b, PcrCodec.insert_pcr old v = Ok b /\ PcrCodec.extract_pcr b = Ok v.
Proof. intros Hv Hl. exists (pcr_bytes v ++ skipn 6 old). split; [apply insert_pcr_ok; [lia|exact Hl]|].
  unfold pcr_bytes. cbn [app]. rewrite extract_pcr_cons. f_equal.
  set (base := v / 300). set (ext := v mod 300).
  assert (Hb: base < 8589934592) by (unfold base; lia). assert (He: ext < 300) by (unfold ext; lia).
  rewrite pcr_raw_value by lia. unfold pcr_value.
  assert (Ev: v = base * 300 + ext) by (unfold base, ext; lia). clearbody base ext. rewrite Ev. lia. Qed.

(* ---- decoding depends only on the value bits ---- *)
(* ExtractPCR uses byte 4 only through e >> 7 and e & 1 *)
Lemma pcr_raw_e a b c d e e' f : N.shiftr e' 7 = N.shiftr e 7 -> N.land e' 1 = N.land e 1 ->
  pcr_raw a b c d e' f = pcr_raw a b c d e f.
Proof. intros H1 H2. unfold pcr_raw. rewrite H1, H2. reflexivity. Qed.

Lemma extract_pcr_upd4 l e' : N.shiftr e' 7 = N.shiftr (nthN l 4) 7 -> N.land e' 1 = N.land (nthN l 4) 1 ->
  PcrCodec.extract_pcr (upd l 4 e') = PcrCodec.extract_pcr l.
Proof. intros H1 H2.
  destruct l as [|a [|b [|c [|d [|e [|f rest]]]]]]; try reflexivity.
  change (upd (a :: b :: c :: d :: e :: f :: rest) 4 e') with (a :: b :: c :: d :: e' :: f :: rest).
  rewrite !extract_pcr_cons. f_equal. apply pcr_raw_e; assumption. Qed.

Lemma pcr_decode_ignores_reserved b r : r < 64 ->
  PcrCodec.extract_pcr (set_reserved r b) = PcrCodec.extract_pcr b.
Proof. intro Hr. unfold set_reserved. apply extract_pcr_upd4.
  - rewrite !N.shiftr_div_pow2. change (2^7) with 128. lia.
  - rewrite !land1. lia. Qed.

Lemma shiftr_pow2_small k n : k < n -> N.shiftr (2 ^ k) n = 0.
Proof. intro H. rewrite N.shiftr_div_pow2. apply N.div_small. apply N.pow_lt_mono_r; lia. Qed.
Lemma land_pow2_low k n : n <= k -> N.land (2 ^ k) (N.ones n) = 0.
Proof. intro H. rewrite N.land_ones. replace k with (n + (k - n)) by lia. rewrite N.pow_add_r.
  rewrite N.mul_comm. apply N.mod_mul. apply N.pow_nonzero. lia. Qed.

(* flipping any single reserved bit (bits 6..1 of byte 4) does not change the decoded value *)
Lemma pcr_decode_ignores_reserved_flip b k : 1 <= k <= 6 ->
  PcrCodec.extract_pcr (flip_bit b 4 k) = PcrCodec.extract_pcr b.
Proof. intro Hk. unfold flip_bit. apply extract_pcr_upd4.
  - rewrite N.shiftr_lxor, shiftr_pow2_small by lia. apply N.lxor_0_r.
  - rewrite land_lxor_distr_l. change 1 with (N.ones 1). rewrite (land_pow2_low k 1) by lia. apply N.lxor_0_r. Qed.

(* closed form of the decoder on arbitrary bytes *)
Lemma pcr_decode_arith a b c d e f rest : is_bytes [a; b; c; d; e; f] ->
  PcrCodec.extract_pcr (a :: b :: c :: d :: e :: f :: rest) = Ok (pcr_value a b c d e f).
Proof. intro H. rewrite extract_pcr_cons. f_equal.
  unfold is_bytes in H.
  repeat match goal with H : Forall _ (_ :: _) |- _ => inversion H; subst; clear H end.
  unfold is_byte in *. apply pcr_raw_value; assumption. Qed.

Lemma extract_pcr_panic_iff b : PcrCodec.extract_pcr b = Panic <-> (length b < 6)%nat.
Proof. destruct b as [|a [|b' [|c [|d [|e [|f rest]]]]]]; cbn [length]; (split; [intro H|intro H]); try reflexivity; try lia;
  try discriminate. Qed.

(* ---- nothing beyond the six bytes is touched; the length is kept ---- *)
Lemma insert_pcr_touches_only old v b : PcrCodec.insert_pcr old v = Ok b ->
  length b = length old /\ skipn 6 b = skipn 6 old.
Proof. unfold PcrCodec.insert_pcr. destruct (N.ltb_spec (len old) 6) as [H|H]; [discriminate|].
  unfold len in H. assert (Hl: (6 <= length old)%nat) by lia.
  destruct (list_ge6 old Hl) as (o0 & o1 & o2 & o3 & o4 & o5 & rest & ->).
  rewrite upd6. intro E. apply Ok_inj in E. subst b. split; reflexivity. Qed.

(* ================= PTS/DTS decoders (gots.ExtractTime, pes.ExtractTime) ================= *)
Definition ts_raw (b0 b1 b2 b3 b4 : N) : N :=
  let a := N.land (N.shiftr b0 1) 7 in
  let c := N.land (N.shiftr b2 1) 127 in
  let e := N.land (N.shiftr b4 1) 127 in
  N.lor (N.lor (N.lor (N.lor (N.shiftl a 30) (N.shiftl b1 22)) (N.shiftl c 15)) (N.shiftl b3 7)) e.
Lemma extract_time_cons b0 b1 b2 b3 b4 rest :
  Pts.extract_time (b0 :: b1 :: b2 :: b3 :: b4 :: rest) = Ok (ts_raw b0 b1 b2 b3 b4).
Proof. reflexivity. Qed.
Lemma pes_extract_time_cons b0 b1 b2 b3 b4 rest :
  Pes.extract_time (b0 :: b1 :: b2 :: b3 :: b4 :: rest) = Ok (ts_raw b0 b1 b2 b3 b4).
Proof. reflexivity. Qed.

(* both decoders agree on every input, including inputs that are too short (both panic) *)
Lemma pts_decoders_agree b : Pts.extract_time b = Pes.extract_time b.
Proof. destruct b as [|b0 [|b1 [|b2 [|b3 [|b4 rest]]]]]; reflexivity. Qed.

Lemma extract_time_panic_iff b : Pts.extract_time b = Panic <-> (length b < 5)%nat.
Proof. destruct b as [|b0 [|b1 [|b2 [|b3 [|b4 rest]]]]]; cbn [length]; (split; [intro H|intro H]);
  try reflexivity; try lia; try discriminate. Qed.

Lemma ts_raw_value b0 b1 b2 b3 b4 : b1 < 256 -> b3 < 256 -> ts_raw b0 b1 b2 b3 b4 = ts_value b0 b1 b2 b3 b4.
Proof. intros H1 H3. unfold ts_raw, ts_value.
  rewrite land7, !land127, !N.shiftr_div_pow2, !N.shiftl_mul_pow2.
  change (2^1) with 2. change (2^30) with 1073741824. change (2^22) with 4194304. change (2^15) with 32768.
  change (2^7) with 128.
  set (a := (b0 / 2) mod 8). set (c := (b2 / 2) mod 128). set (e := (b4 / 2) mod 128).
  assert (Ha: a < 8) by (unfold a; lia). assert (Hc: c < 128) by (unfold c; lia). assert (He: e < 128) by (unfold e; lia).
  rewrite (lor_mult_add (a * 1073741824) (b1 * 4194304) 30) by (change (2^30) with 1073741824; lia).
  rewrite (lor_mult_add (a * 1073741824 + b1 * 4194304) (c * 32768) 22) by (change (2^22) with 4194304; lia).
  rewrite (lor_mult_add (a * 1073741824 + b1 * 4194304 + c * 32768) (b3 * 128) 15) by (change (2^15) with 32768; lia).
  rewrite (lor_mult_add (a * 1073741824 + b1 * 4194304 + c * 32768 + b3 * 128) e 7) by (change (2^7) with 128; lia).
  reflexivity. Qed.

Lemma pts_decode_arith b0 b1 b2 b3 b4 rest : is_bytes [b0; b1; b2; b3; b4] ->
  Pts.extract_time (b0 :: b1 :: b2 :: b3 :: b4 :: rest) = Ok (ts_value b0 b1 b2 b3 b4).
Proof. intro H. rewrite extract_time_cons. f_equal. unfold is_bytes in H.
  repeat match goal with H : Forall _ (_ :: _) |- _ => inversion H; subst; clear H end.
  unfold is_byte in *. apply ts_raw_value; assumption. Qed.

(* ================= PTS/DTS encoder (gots.InsertPTS) ================= *)
Lemma lor33 x : x < 16 -> N.lor x 33 = 33 + 2 * (x / 2).
Proof. intro H. apply N.eqb_eq. revert x H.
  apply (sweep (fun x => N.lor x 33 =? 33 + 2 * (x / 2)) 16). vm_compute. reflexivity. Qed.
Lemma lor1_byte x : x < 256 -> N.lor x 1 = 2 * (x / 2) + 1.
Proof. intro H. apply N.eqb_eq. revert x H.
  apply (sweep (fun x => N.lor x 1 =? 2 * (x / 2) + 1) 256). vm_compute. reflexivity. Qed.

Lemma insert_pts_cons o0 o1 o2 o3 o4 rest v :
  Pts.insert_pts (o0 :: o1 :: o2 :: o3 :: o4 :: rest) v = Ok (ts_bytes 2 v ++ rest).
Proof. unfold Pts.insert_pts.
  assert (L: (len (o0 :: o1 :: o2 :: o3 :: o4 :: rest) <? 5) = false).
  { apply N.ltb_ge. rewrite !len_cons. lia. }
  rewrite L, upd5. unfold ts_bytes. cbn [app]. f_equal.
  rewrite land15, !land255, !N.shiftr_div_pow2, N.shiftl_mul_pow2. unfold w8.
  change (2^29) with 536870912. change (2^22) with 4194304. change (2^14) with 16384. change (2^7) with 128.
  change (2^1) with 2.
  rewrite !N.mod_mod by lia. rewrite (N.mod_small ((v / 536870912) mod 16)) by lia.
  rewrite lor33 by lia. rewrite (lor1_byte ((v / 16384) mod 256)) by lia. rewrite (lor1_byte ((v mod 256 * 2) mod 256)) by lia.
  repeat (apply (f_equal2 (@cons N)); [lia|]). reflexivity. Qed.

Lemma insert_pts_ok old v : (5 <= length old)%nat ->
  Pts.insert_pts old v = Ok (ts_bytes 2 v ++ skipn 5 old).
Proof. intros Hl. destruct (list_ge5 old Hl) as (a & b & c & d & e & rest & ->).
  rewrite insert_pts_cons. reflexivity. Qed.

Lemma insert_pts_panic_iff old v : Pts.insert_pts old v = Panic <-> (length old < 5)%nat.
Proof. unfold Pts.insert_pts. destruct (N.ltb_spec (len old) 5) as [H|H]; unfold len in H.
  - split; [lia|reflexivity].
  - split; [discriminate|lia]. Qed.

Lemma insert_pts_touches_only old v b : Pts.insert_pts old v = Ok b ->
  length b = length old /\ skipn 5 b = skipn 5 old.
Proof. unfold Pts.insert_pts. destruct (N.ltb_spec (len old) 5) as [H|H]; [discriminate|].
  unfold len in H. assert (Hl: (5 <= length old)%nat) by lia.
  destruct (list_ge5 old Hl) as (o0 & o1 & o2 & o3 & o4 & rest & ->).
  rewrite upd5. intro E. apply Ok_inj in E. subst b. split; reflexivity. Qed.

Lemma ts_bytes_are_bytes p v : p < 16 -> is_bytes (ts_bytes p v) /\ length (ts_bytes p v) = 5%nat.
Proof. intro H. split; [|reflexivity]. unfold ts_bytes, is_bytes, is_byte. repeat constructor; lia. Qed.

(* the 40-bit field of the standard, cut into bytes, is the same five bytes (any 4-bit prefix) *)
Lemma ser_ts_bytes p v : p < 16 -> v < 8589934592 -> ser_ts p v = ts_bytes p v.
Proof. intros Hp H. unfold ser_ts, ts_bytes, be40, ts_field.
  repeat (apply (f_equal2 (@cons N)); [lia|]). reflexivity. Qed.

Lemma ts_value_bytes p v : v < 8589934592 ->
  match ts_bytes p v with [b0; b1; b2; b3; b4] => ts_raw b0 b1 b2 b3 b4 | _ => 0 end = v.
Proof. intro H. unfold ts_bytes. rewrite ts_raw_value by lia. unfold ts_value. lia. Qed.

Lemma pts_roundtrip v old : v < 8589934592 -> (5 <= length old)%nat ->
  exists b, Pts.insert_pts old v = Ok b /\ Pts.extract_time b = Ok v /\ Pes.extract_time b = Ok v.
Proof. intros Hv Hl. exists (ts_bytes 2 v ++ skipn 5 old). split; [apply insert_pts_ok; exact Hl|].
  rewrite <- pts_decoders_agree.
  assert (E: Pts.extract_time (ts_bytes 2 v ++ skipn 5 old) = Ok v).
  { pose proof (ts_value_bytes 2 v Hv) as E. unfold ts_bytes in *. cbn [app]. rewrite extract_time_cons. f_equal. exact E. }
  split; exact E. Qed.

(* ---- PTS decoding depends only on the value bits ---- *)
Lemma upd5_024 b0 b1 b2 b3 b4 rest x0 x2 x4 :
  upd (upd (upd (b0 :: b1 :: b2 :: b3 :: b4 :: rest) 0 x0) 2 x2) 4 x4 = x0 :: b1 :: x2 :: b3 :: x4 :: rest.
Proof. reflexivity. Qed.
Lemma ts_raw_markers b0 b0' b1 b2 b2' b3 b4 b4' :
  N.land (N.shiftr b0' 1) 7 = N.land (N.shiftr b0 1) 7 ->
  N.land (N.shiftr b2' 1) 127 = N.land (N.shiftr b2 1) 127 ->
  N.land (N.shiftr b4' 1) 127 = N.land (N.shiftr b4 1) 127 ->
  ts_raw b0' b1 b2' b3 b4' = ts_raw b0 b1 b2 b3 b4.
Proof. intros H0 H2 H4. unfold ts_raw. rewrite H0, H2, H4. reflexivity. Qed.

Lemma pts_decode_ignores_markers b p m1 m2 m3 : m1 < 2 -> m2 < 2 -> m3 < 2 ->
  Pts.extract_time (set_markers p m1 m2 m3 b) = Pts.extract_time b.
Proof. intros H1 H2 H3. unfold set_markers.
  destruct b as [|b0 [|b1 [|b2 [|b3 [|b4 rest]]]]]; try reflexivity.
  change (nthN (b0 :: b1 :: b2 :: b3 :: b4 :: rest) 0) with b0.
  change (nthN (b0 :: b1 :: b2 :: b3 :: b4 :: rest) 2) with b2.
  change (nthN (b0 :: b1 :: b2 :: b3 :: b4 :: rest) 4) with b4.
  rewrite upd5_024. rewrite !extract_time_cons. f_equal. apply ts_raw_markers.
  - rewrite !land7, !N.shiftr_div_pow2. change (2^1) with 2.
    set (x := (b0 / 2) mod 8). assert (Hx: x < 8) by (unfold x; lia). clearbody x.
    replace ((p * 16 + x * 2 + m1) / 2) with (p * 8 + x) by lia. lia.
  - rewrite !land127, !N.shiftr_div_pow2. change (2^1) with 2.
    set (y := b2 / 2). clearbody y. replace ((y * 2 + m2) / 2) with y by lia. reflexivity.
  - rewrite !land127, !N.shiftr_div_pow2. change (2^1) with 2.
    set (y := b4 / 2). clearbody y. replace ((y * 2 + m3) / 2) with y by lia. reflexivity. Qed.

(* the prefix nibble and the three marker bits of a PTS/DTS field *)
Definition ts_marker_bit (i k : N) : Prop :=
  (i = 0 /\ (k = 0 \/ 4 <= k <= 7)) \/ (i = 2 /\ k = 0) \/ (i = 4 /\ k = 0).

Lemma pts_decode_ignores_marker_flip b i k : ts_marker_bit i k ->
  Pts.extract_time (flip_bit b i k) = Pts.extract_time b.
Proof. intros H. unfold flip_bit.
  destruct b as [|b0 [|b1 [|b2 [|b3 [|b4 rest]]]]];
    try (destruct H as [[-> _]|[[-> _]|[-> _]]]; reflexivity).
  destruct H as [[-> Hk]|[[-> ->]|[-> ->]]].
  - change (nthN (b0 :: b1 :: b2 :: b3 :: b4 :: rest) 0) with b0.
    change (upd (b0 :: b1 :: b2 :: b3 :: b4 :: rest) 0 (N.lxor b0 (2 ^ k))) with (N.lxor b0 (2 ^ k) :: b1 :: b2 :: b3 :: b4 :: rest).
    rewrite !extract_time_cons. f_equal. apply ts_raw_markers; try reflexivity.
    rewrite N.shiftr_lxor, land_lxor_distr_l.
    assert (E: N.land (N.shiftr (2 ^ k) 1) 7 = 0).
    { assert (Hc: k = 0 \/ k = 4 \/ k = 5 \/ k = 6 \/ k = 7) by lia.
      destruct Hc as [->|[->|[->|[->| ->]]]]; reflexivity. }
    rewrite E. apply N.lxor_0_r.
  - change (nthN (b0 :: b1 :: b2 :: b3 :: b4 :: rest) 2) with b2.
    change (upd (b0 :: b1 :: b2 :: b3 :: b4 :: rest) 2 (N.lxor b2 (2 ^ 0))) with (b0 :: b1 :: N.lxor b2 (2 ^ 0) :: b3 :: b4 :: rest).
    rewrite !extract_time_cons. f_equal. apply ts_raw_markers; try reflexivity.
    rewrite N.shiftr_lxor. change (N.shiftr (2 ^ 0) 1) with 0. rewrite N.lxor_0_r. reflexivity.
  - change (nthN (b0 :: b1 :: b2 :: b3 :: b4 :: rest) 4) with b4.
    change (upd (b0 :: b1 :: b2 :: b3 :: b4 :: rest) 4 (N.lxor b4 (2 ^ 0))) with (b0 :: b1 :: b2 :: b3 :: N.lxor b4 (2 ^ 0) :: rest).
    rewrite !extract_time_cons. f_equal. apply ts_raw_markers; try reflexivity.
    rewrite N.shiftr_lxor. change (N.shiftr (2 ^ 0) 1) with 0. rewrite N.lxor_0_r. reflexivity. Qed.

(* ---- exactness in the other direction: canonical bytes re-encode to themselves ---- *)
Lemma pcr_reencode a b c d e f rest : is_bytes [a; b; c; d; e; f] ->
  (e / 2) mod 64 = 63 -> (e mod 2) * 256 + f < 300 ->
  PcrCodec.insert_pcr (a :: b :: c :: d :: e :: f :: rest) (pcr_value a b c d e f) = Ok (a :: b :: c :: d :: e :: f :: rest).
Proof. intros H Hr He. unfold is_bytes in H.
  repeat match goal with H : Forall _ (_ :: _) |- _ => inversion H; subst; clear H end. unfold is_byte in *.
  rewrite insert_pcr_cons by (unfold pcr_value; lia). f_equal.
  unfold pcr_bytes, pcr_value.
  set (base := a * 33554432 + b * 131072 + c * 512 + d * 2 + e / 128).
  set (ext := e mod 2 * 256 + f).
  assert (E1: (base * 300 + e mod 2 * 256 + f) / 300 = base) by (fold ext; clearbody base; lia).
  assert (E2: (base * 300 + e mod 2 * 256 + f) mod 300 = ext) by (fold ext; clearbody base; lia).
  rewrite E1, E2. unfold base, ext. cbn [app].
  repeat (apply (f_equal2 (@cons N)); [lia|]). reflexivity. Qed.

Lemma pts_reencode b0 b1 b2 b3 b4 rest : is_bytes [b0; b1; b2; b3; b4] ->
  b0 / 16 = 2 -> b0 mod 2 = 1 -> b2 mod 2 = 1 -> b4 mod 2 = 1 ->
  Pts.insert_pts (b0 :: b1 :: b2 :: b3 :: b4 :: rest) (ts_value b0 b1 b2 b3 b4) = Ok (b0 :: b1 :: b2 :: b3 :: b4 :: rest).
Proof. intros H Hp H0 H2 H4. unfold is_bytes in H.
  repeat match goal with H : Forall _ (_ :: _) |- _ => inversion H; subst; clear H end. unfold is_byte in *.
  rewrite insert_pts_cons. f_equal. unfold ts_bytes, ts_value. cbn [app].
  repeat (apply (f_equal2 (@cons N)); [lia|]). reflexivity. Qed.

(* ---- restatements in the argument order of Properties/C04.v ---- *)
Lemma pcr_layout v old : v < 18446744073709551616 -> (6 <= length old)%nat ->
  PcrCodec.insert_pcr old v = Ok (pcr_bytes v ++ skipn 6 old).
Proof. exact (insert_pcr_ok old v). Qed.
Lemma pts_layout v old : (5 <= length old)%nat -> Pts.insert_pts old v = Ok (ts_bytes 2 v ++ skipn 5 old).
Proof. exact (insert_pts_ok old v). Qed.
Lemma pcr_panics_iff_short b v :
  (PcrCodec.insert_pcr b v = Panic <-> (length b < 6)%nat) /\ (PcrCodec.extract_pcr b = Panic <-> (length b < 6)%nat).
Proof. split; [apply insert_pcr_panic_iff | apply extract_pcr_panic_iff]. Qed.
Lemma pts_panics_iff_short b v :
  (Pts.insert_pts b v = Panic <-> (length b < 5)%nat) /\ (Pts.extract_time b = Panic <-> (length b < 5)%nat).
Proof. split; [apply insert_pts_panic_iff | apply extract_time_panic_iff]. Qed.
