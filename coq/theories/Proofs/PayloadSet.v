(* C02, part 2: SetPayload on a well-formed packet, as a refinement to the logical packet. *)
From Gots Require Import Base.Prelude Base.PacketLemmas Model.Packet Spec.Iso13818Hdr Proofs.HdrBits Proofs.PayloadPart.
Import Packet.
Local Open Scope N_scope.

(* ------------------------------------------------------------------ the flags byte *)
Definition is_some {A} (o : option A) : bool := match o with Some _ => true | None => false end.
Lemma lt8_cases t : t < 8 -> t = 0 \/ t = 1 \/ t = 2 \/ t = 3 \/ t = 4 \/ t = 5 \/ t = 6 \/ t = 7.
Proof. lia. Qed.
Lemma flags_bits a : Iso.top3 a < 8 -> let f := Iso.flags_byte a in
  negb (N.land f 16 =? 0) = is_some (Iso.pcr a) /\ negb (N.land f 8 =? 0) = is_some (Iso.opcr a) /\
  negb (N.land f 4 =? 0) = is_some (Iso.splice a) /\ negb (N.land f 2 =? 0) = is_some (Iso.tpd a) /\
  negb (N.land f 1 =? 0) = is_some (Iso.ext a).
Proof.
  destruct a as [t pc op sp tp ex]. unfold Iso.flags_byte, Iso.flag. cbn [Iso.top3 Iso.pcr Iso.opcr Iso.splice Iso.tpd Iso.ext].
  intros T. destruct (lt8_cases t T) as [->|[->|[->|[->|[->|[->|[->| ->]]]]]]];
    destruct pc, op, sp, tp, ex; cbv zeta; cbn [is_some]; repeat split; vm_compute; reflexivity.
Qed.

(* ------------------------------------------------------------------ stuffingStart reads the body *)
Section Body.
Variables (H4 : bytes) (L : N) (a : Iso.laf) (rest : bytes).
Hypothesis LH : len H4 = 4.
Hypothesis OK : Iso.laf_ok a.
Let body := Iso.ser_af_body a.
Let q := H4 ++ L :: body ++ rest.
Hypothesis FIT : 5 + len body <= 188.

Lemma q_get4 : get q 4 = L.
Proof using LH. clear FIT OK. unfold get, q. apply nthN_app_at. lia. Qed.
Lemma q_get5 : get q 5 = Iso.flags_byte a.
Proof using LH.
  clear FIT OK. unfold get, q. replace (H4 ++ L :: body ++ rest) with ((H4 ++ [L]) ++ body ++ rest) by (rewrite <- app_assoc; reflexivity).
  unfold body, Iso.ser_af_body. cbn [app]. apply nthN_app_at. rewrite len_app, len_cons, len_nil. lia.
Qed.
Lemma opt_len6 o : Iso.opt_is_len o 6 -> len (Iso.opt_bytes o) = if is_some o then 6 else 0.
Proof. destruct o; cbn; [intros [E _]; unfold len; rewrite E; reflexivity | reflexivity]. Qed.

Lemma stuffing_start_body : AFP.stuffingStart q = 5 + len body.
Proof.
  destruct OK as (T & P1 & P2 & P3 & P4 & P5).
  destruct (flags_bits a T) as (F1 & F2 & F3 & F4 & F5). cbv zeta in *.
  pose proof (opt_len6 _ P1) as E1. pose proof (opt_len6 _ P2) as E2.
  assert (len (Iso.opt_byte (Iso.splice a)) = if is_some (Iso.splice a) then 1 else 0) as E3 by (destruct (Iso.splice a); reflexivity).
  (* lengths of the model's field functions *)
  assert (AFP.pcrLength q = len (Iso.opt_bytes (Iso.pcr a))) as Q1
    by (unfold AFP.pcrLength, AFP.hasPCR, getBit; rewrite q_get5, F1, E1; reflexivity).
  assert (AFP.opcrLength q = len (Iso.opt_bytes (Iso.opcr a))) as Q2
    by (unfold AFP.opcrLength, AFP.hasOPCR, getBit; rewrite q_get5, F2, E2; reflexivity).
  assert (AFP.spliceCountdownLength q = len (Iso.opt_byte (Iso.splice a))) as Q3
    by (unfold AFP.spliceCountdownLength, AFP.hasSplicingPoint, getBit; rewrite q_get5, F3, E3; reflexivity).
  set (pre := H4 ++ L :: Iso.flags_byte a :: Iso.opt_bytes (Iso.pcr a) ++ Iso.opt_bytes (Iso.opcr a) ++ Iso.opt_byte (Iso.splice a)).
  assert (len pre = 6 + len (Iso.opt_bytes (Iso.pcr a)) + len (Iso.opt_bytes (Iso.opcr a)) + len (Iso.opt_byte (Iso.splice a))) as LP.
  { unfold pre. rewrite len_app, !len_cons, !len_app. lia. }
  assert (q = pre ++ Iso.opt_lenprefixed (Iso.tpd a) ++ Iso.opt_lenprefixed (Iso.ext a) ++ rest) as QE.
  { unfold q, pre, body, Iso.ser_af_body. repeat first [rewrite <- app_assoc | rewrite <- app_comm_cons]. reflexivity. }
  assert (len body = 1 + len (Iso.opt_bytes (Iso.pcr a)) + len (Iso.opt_bytes (Iso.opcr a)) + len (Iso.opt_byte (Iso.splice a)) +
          len (Iso.opt_lenprefixed (Iso.tpd a)) + len (Iso.opt_lenprefixed (Iso.ext a))) as LB.
  { unfold body, Iso.ser_af_body. rewrite len_cons, !len_app. lia. }
  assert (AFP.transportPrivateDataStart q = len pre) as S1.
  { unfold AFP.transportPrivateDataStart, AFP.pcrStart. rewrite Q1, Q2, Q3, LP. reflexivity. }
  assert (AFP.transportPrivateDataLength q = len (Iso.opt_lenprefixed (Iso.tpd a))) as Q4.
  { unfold AFP.transportPrivateDataLength, AFP.hasTransportPrivateData, getBit. rewrite q_get5, F4, S1.
    destruct (Iso.tpd a) as [t|] eqn:ET; cbn [is_some negb Iso.opt_lenprefixed]; [|reflexivity].
    assert (len pre < 188) as LT by (cbn [Iso.opt_lenprefixed] in LB; rewrite len_cons in LB; lia).
    replace (PacketSize <=? len pre) with false by (symmetry; apply N.leb_gt; unfold PacketSize; lia).
    rewrite len_cons. f_equal. unfold get. rewrite QE. cbn [Iso.opt_lenprefixed app]. apply nthN_app_at. reflexivity. }
  set (pre2 := pre ++ Iso.opt_lenprefixed (Iso.tpd a)).
  assert (AFP.adaptationExtensionStart q = len pre2) as S2.
  { unfold AFP.adaptationExtensionStart, AFP.pcrStart. rewrite Q1, Q2, Q3, Q4. unfold pre2. rewrite len_app, LP. reflexivity. }
  assert (AFP.adaptationExtensionLength q = len (Iso.opt_lenprefixed (Iso.ext a))) as Q5.
  { unfold AFP.adaptationExtensionLength, AFP.hasAdaptationFieldExtension, getBit. rewrite q_get5, F5, S2.
    destruct (Iso.ext a) as [t|] eqn:EX; cbn [is_some negb Iso.opt_lenprefixed]; [|reflexivity].
    assert (len pre2 < 188) as LT.
    { unfold pre2. rewrite len_app, LP. cbn [Iso.opt_lenprefixed] in LB. rewrite (len_cons (len t)) in LB. lia. }
    replace (PacketSize <=? len pre2) with false by (symmetry; apply N.leb_gt; unfold PacketSize; lia).
    rewrite len_cons. f_equal. unfold get. rewrite QE. rewrite app_assoc. fold pre2.
    cbn [Iso.opt_lenprefixed app]. apply nthN_app_at. reflexivity. }
  unfold AFP.stuffingStart, AFP.pcrStart. rewrite Q1, Q2, Q3, Q4, Q5, LB. lia.
Qed.
End Body.

(* ------------------------------------------------------------------ generic steps on H4 ++ L :: body ++ rest *)
Lemma byteZ_small n : n < 256 -> byteZ (Z.of_N n) = n.
Proof. unfold byteZ. lia. Qed.
Lemma has_af_prefix (H4 x y : bytes) : len H4 = 4 -> HasAdaptationField (H4 ++ x) = HasAdaptationField (H4 ++ y).
Proof. intros LH. unfold HasAdaptationField, getBit, get. rewrite !nthN_app_l by lia. reflexivity. Qed.
Lemma afc_prefix (H4 x y : bytes) : len H4 = 4 -> AdaptationFieldControl (H4 ++ x) = AdaptationFieldControl (H4 ++ y).
Proof. intros LH. unfold AdaptationFieldControl, get. rewrite !nthN_app_l by lia. reflexivity. Qed.
Lemma len_dropN {A} (l : list A) n : len (dropN n l) = len l - n.
Proof. unfold len, dropN. rewrite skipn_length. lia. Qed.

Section Finish.
Variables (H4 : bytes) (L : N) (a : Iso.laf) (rest : bytes).
Hypothesis LH : len H4 = 4.
Hypothesis OK : Iso.laf_ok a.
Local Notation body := (Iso.ser_af_body a).
Hypothesis LR : len body + len rest = 183.
Local Notation q := (H4 ++ L :: body ++ rest).

Lemma set_len_stuff L' : len body <= L' -> L' <= 183 ->
  AFP.stuffAF (AFP.setLength q (Z.of_N L')) =
  H4 ++ L' :: body ++ repeatN 255 (L' - len body) ++ dropN (L' - len body) rest.
Proof.
  intros B1 B2. unfold AFP.setLength. rewrite byteZ_small by lia.
  rewrite (upd_app_at H4 _ L L' 4) by lia.
  unfold AFP.stuffAF, fill.
  rewrite (stuffing_start_body H4 L' a rest LH OK) by lia.
  unfold AFP.stuffingEnd. rewrite (q_get4 H4 L' a rest LH).
  replace (PacketSize <? L' + 5) with false by (symmetry; apply N.ltb_ge; unfold PacketSize; lia).
  replace (L' + 5 - (5 + len body)) with (L' - len body) by lia.
  replace (H4 ++ L' :: body ++ rest) with ((H4 ++ L' :: body) ++ rest) by (rewrite <- app_assoc; reflexivity).
  rewrite blit_app_fit.
  - rewrite repeatN_length. rewrite <- app_assoc. cbn [app]. reflexivity.
  - rewrite len_app, len_cons. lia.
  - rewrite repeatN_length. unfold len in *. lia.
Qed.

(* branch "freeSpace > len(data)" from the point where the packet has the shape q *)
Lemma finish_short d : HasAdaptationField q = true -> len body + len d <= 183 ->
  let q' := AFP.stuffAF (AFP.setLength q (188 - (zlen d + 4 + 1))) in
  payloadStart_m q' = 188 - len d /\
  blit q' (payloadStart_m q') d = H4 ++ (183 - len d) :: body ++ repeatN 255 (183 - len d - len body) ++ d.
Proof.
  intros HA LD. cbv zeta.
  replace (188 - (zlen d + 4 + 1))%Z with (Z.of_N (183 - len d)) by (unfold zlen, len in *; lia).
  rewrite set_len_stuff by lia.
  set (g := 183 - len d - len body).
  assert (payloadStart_m (H4 ++ 183 - len d :: body ++ repeatN 255 g ++ dropN g rest) = 188 - len d) as PS.
  { unfold payloadStart_m. rewrite (has_af_prefix H4 _ (L :: body ++ rest) LH). rewrite HA.
    unfold AFP.Length, get. rewrite (nthN_app_at H4) by lia. lia. }
  rewrite PS. split; [reflexivity|].
  replace (H4 ++ 183 - len d :: body ++ repeatN 255 g ++ dropN g rest)
    with ((H4 ++ 183 - len d :: body ++ repeatN 255 g) ++ dropN g rest)
    by (rewrite <- app_assoc; cbn [app]; rewrite <- app_assoc; reflexivity).
  rewrite blit_app_over.
  - assert (length (dropN g rest) = length d) as E.
    { pose proof (len_dropN rest g) as X. unfold len in *. unfold g in *. lia. }
    rewrite E, firstn_all. rewrite <- app_assoc. cbn [app]. rewrite <- app_assoc. reflexivity.
  - rewrite len_app, len_cons, len_app, len_repeatN. unfold g. lia.
  - pose proof (len_dropN rest g) as X. unfold len in *. unfold g in *. lia.
Qed.
End Finish.

(* ------------------------------------------------------------------ SetAdaptationFieldControl(3) on a packet that already has control 11 *)
Lemma with_afc_same h : Iso.with_afc h (Iso.afc h) = h.
Proof. destruct h; reflexivity. Qed.
Lemma set_afc3_noop p : is_pkt p -> Iso.afc (Iso.hdr_of p) = 3 -> AFP.Length p <> 183 ->
  SetAdaptationFieldControl p 3 = (p, None).
Proof.
  intros H A NL. unfold SetAdaptationFieldControl.
  destruct (set_afc_byte p H 3 ltac:(lia)) as (E & F & P'). cbv zeta in E, F, P'.
  set (p' := upd p 3 (N.lor (N.land (get p 3) (not8 48)) (w8 (N.shiftl 3 4)))) in *.
  assert (p' = p) as ->.
  { apply hdr_tail_ext; try assumption. - rewrite E, <- A. apply with_afc_same. - intros j J. apply F. lia. }
  destruct (byte3_facts p H) as (_ & _ & _ & _ & _ & _ & _ & HA). rewrite HA. unfold Iso.has_af. rewrite A.
  change (3 / 2 =? 1) with true. cbn [negb andb]. change (3 =? 3) with true. cbv iota.
  replace (AFP.Length p =? 183) with false by (symmetry; apply N.eqb_neq; exact NL). reflexivity.
Qed.

(* ------------------------------------------------------------------ case: the packet has a non-empty adaptation field *)
Lemma ser_pkt_af h a st pay : Iso.ser_pkt (Iso.mkLpkt h (Iso.AF a st) pay) =
  Iso.ser_hdr h ++ (len (Iso.ser_af_body a) + len st) :: Iso.ser_af_body a ++ (st ++ pay).
Proof.
  unfold Iso.ser_pkt. cbn [Iso.lh Iso.lf Iso.lpayload Iso.ser_af]. rewrite <- app_comm_cons, <- app_assoc. reflexivity.
Qed.
Lemma len_body_pos a : 1 <= len (Iso.ser_af_body a).
Proof. unfold Iso.ser_af_body. rewrite len_cons. lia. Qed.

Lemma set_payload_af h a st pay d : let l := Iso.mkLpkt h (Iso.AF a st) pay in
  Iso.wf_lpkt l -> Iso.afc h = 3 ->
  SetPayload_m (Iso.ser_pkt l) d = (Iso.ser_pkt (Iso.set_payload l d), Ok (N.min (len d) (Iso.capacity l))).
Proof.
  intros l W A3.
  pose proof (wf_is_pkt l W) as PK. pose proof (wf_hdr_of l W) as HO. pose proof (wf_len l W) as L188.
  destruct (wf_flags l W) as (AFC & HA & _). cbn [Iso.lh l] in AFC, HA, HO. rewrite A3 in AFC, HA. change (3 / 2 =? 1) with true in HA.
  assert (Iso.laf_ok a) as OK by (destruct W as (_ & _ & AO & _); exact (proj1 AO)).
  assert (pay <> []) as NP.
  { destruct W as (_ & _ & _ & _ & _ & C). cbn [Iso.lf Iso.lh Iso.lpayload l] in C. destruct C as [[C _]|[_ C]]; [congruence|exact C]. }
  assert (1 <= len pay) as LP by (destruct pay; [congruence | rewrite len_cons; lia]).
  pose proof (len_body_pos a) as LBP.
  set (body := Iso.ser_af_body a) in *.
  set (p := Iso.ser_pkt l) in *.
  assert (p = Iso.ser_hdr h ++ (len body + len st) :: body ++ (st ++ pay)) as PE by apply ser_pkt_af.
  assert (len body + len (st ++ pay) = 183) as LR.
  { rewrite PE in L188. rewrite len_app, len_ser_hdr, len_cons, len_app in L188. lia. }
  rewrite len_app in LR.
  assert (AFP.Length p = len body + len st) as LEN by (unfold AFP.Length; rewrite PE; apply q_get4; reflexivity).
  assert (payloadStart_m p = 5 + (len body + len st)) as PS by (unfold payloadStart_m; rewrite HA, LEN; lia).
  assert (AFP.stuffingStart p = 5 + len body) as SS.
  { rewrite PE. apply stuffing_start_body; [reflexivity | exact OK | fold body; lia]. }
  assert (stuffingStart_m p = 5 + len body) as SM.
  { unfold stuffingStart_m. rewrite HA, LEN. cbn [negb].
    replace (len body + len st =? 0) with false by (symmetry; apply N.eqb_neq; lia). exact SS. }
  unfold SetPayload_m. rewrite AFC. change (3 =? 2) with false. cbv iota. rewrite PS, SM.
  replace (PacketSize <? 5 + (len body + len st)) with false by (symmetry; apply N.ltb_ge; unfold PacketSize; lia).
  replace (PacketSize <? 5 + len body) with false by (symmetry; apply N.ltb_ge; unfold PacketSize; lia).
  cbn [orb]. unfold SetPayload_prepare, freeSpace. rewrite SM.
  assert (Iso.capacity l = 183 - len body) as CAP.
  { unfold Iso.capacity, Iso.af_content_len. cbn [Iso.lf l]. fold body. lia. }
  unfold Iso.set_payload. rewrite CAP. cbn [Iso.lf Iso.lh l].
  destruct (Z.ltb_spec (zlen d) (188 - Z.of_N (5 + len body))) as [LT|GE].
  - (* the data is shorter than the capacity *)
    replace (len d <? 183 - len body) with true by (symmetry; apply N.ltb_lt; unfold zlen, len in *; lia).
    rewrite (set_afc3_noop p PK) by (rewrite ?HO, ?LEN; (exact A3 || lia)). cbn [fst].
    rewrite LEN. replace (len body + len st =? 0) with false by (symmetry; apply N.eqb_neq; lia).
    rewrite PE.
    destruct (finish_short (Iso.ser_hdr h) (len body + len st) a (st ++ pay) eq_refl OK
                ltac:(fold body; rewrite len_app; lia) d) as [Q1 Q2].
    + fold body. rewrite <- PE. exact HA.
    + fold body. unfold zlen, len in *. lia.
    + cbv zeta in Q1, Q2. fold body in Q1, Q2. rewrite Q1 in *.
      replace (PacketSize <? 188 - len d) with false by (symmetry; apply N.ltb_ge; unfold PacketSize; lia).
      rewrite Q2. f_equal.
      * rewrite <- A3, with_afc_same. rewrite ser_pkt_af. fold body. rewrite len_repeatN.
        replace (len body + (183 - len body - len d)) with (183 - len d) by (unfold zlen, len in *; lia).
        replace (183 - len d - len body) with (183 - len body - len d) by lia. reflexivity.
      * f_equal. unfold PacketSize, zlen, len in *. lia.
  - (* the data fills the packet *)
    replace (len d <? 183 - len body) with false by (symmetry; apply N.ltb_ge; unfold zlen, len in *; lia).
    rewrite HA.
    replace (188 - (188 - Z.of_N (5 + len body) + 4 + 1))%Z with (Z.of_N (len body)) by lia.
    unfold AFP.setLength. rewrite byteZ_small by lia. rewrite PE.
    rewrite (upd_app_at (Iso.ser_hdr h) _ _ (len body) 4) by reflexivity.
    assert (payloadStart_m (Iso.ser_hdr h ++ len body :: body ++ st ++ pay) = 5 + len body) as PS'.
    { unfold payloadStart_m. rewrite (has_af_prefix _ _ ((len body + len st) :: body ++ st ++ pay)) by reflexivity.
      rewrite <- PE, HA. unfold AFP.Length, get. rewrite (nthN_app_at (Iso.ser_hdr h)) by reflexivity. lia. }
    rewrite PS'. replace (PacketSize <? 5 + len body) with false by (symmetry; apply N.ltb_ge; unfold PacketSize; lia).
    f_equal.
    + replace (Iso.ser_hdr h ++ len body :: body ++ st ++ pay) with ((Iso.ser_hdr h ++ len body :: body) ++ (st ++ pay))
        by (rewrite <- app_assoc; reflexivity).
      rewrite blit_app_over.
      * rewrite ser_pkt_af. fold body. rewrite len_nil, N.add_0_r, app_nil_l. rewrite <- app_assoc. cbn [app].
        do 3 f_equal. unfold takeN. f_equal. rewrite app_length. unfold len in *. lia.
      * rewrite len_app, len_cons, len_ser_hdr. lia.
      * rewrite app_length. unfold zlen, len in *. lia.
    + f_equal. unfold PacketSize. lia.
Qed.

(* ------------------------------------------------------------------ case: adaptation_field_length = 0 (defect F7 lived here) *)
Lemma ser_pkt_empty h pay : Iso.ser_pkt (Iso.mkLpkt h Iso.EmptyAF pay) = Iso.ser_hdr h ++ 0 :: pay.
Proof. reflexivity. Qed.
Lemma body_laf0 : Iso.ser_af_body Iso.laf0 = [0].
Proof. reflexivity. Qed.
Lemma laf0_ok : Iso.laf_ok Iso.laf0.
Proof. unfold Iso.laf_ok, Iso.laf0. cbn. repeat split; try constructor; lia. Qed.

Lemma set_payload_empty_af h pay d : let l := Iso.mkLpkt h Iso.EmptyAF pay in
  Iso.wf_lpkt l -> Iso.afc h = 3 ->
  SetPayload_m (Iso.ser_pkt l) d = (Iso.ser_pkt (Iso.set_payload l d), Ok (N.min (len d) (Iso.capacity l))).
Proof.
  intros l W A3.
  pose proof (wf_is_pkt l W) as PK. pose proof (wf_hdr_of l W) as HO. pose proof (wf_len l W) as L188.
  destruct (wf_flags l W) as (AFC & HA & _). cbn [Iso.lh l] in AFC, HA, HO. rewrite A3 in AFC, HA. change (3 / 2 =? 1) with true in HA.
  set (p := Iso.ser_pkt l) in *.
  assert (p = Iso.ser_hdr h ++ 0 :: pay) as PE by reflexivity.
  assert (len pay = 183) as LP by (rewrite PE in L188; rewrite len_app, len_ser_hdr, len_cons in L188; lia).
  assert (AFP.Length p = 0) as LEN by (unfold AFP.Length, get; rewrite PE; apply nthN_app_at; reflexivity).
  assert (payloadStart_m p = 5) as PS by (unfold payloadStart_m; rewrite HA, LEN; reflexivity).
  assert (stuffingStart_m p = 5) as SM by (unfold stuffingStart_m; rewrite HA, LEN; reflexivity).
  unfold SetPayload_m. rewrite AFC. change (3 =? 2) with false. cbv iota. rewrite PS, SM.
  change (PacketSize <? 5) with false. cbn [orb]. unfold SetPayload_prepare, freeSpace. rewrite SM.
  assert (Iso.capacity l = 183) as CAP by reflexivity.
  unfold Iso.set_payload. rewrite CAP. cbn [Iso.lf Iso.lh l].
  destruct (Z.ltb_spec (zlen d) (188 - Z.of_N 5)) as [LT|GE].
  - replace (len d <? 183) with true by (symmetry; apply N.ltb_lt; unfold zlen, len in *; lia).
    replace (len d =? 183) with false by (symmetry; apply N.eqb_neq; unfold zlen, len in *; lia).
    rewrite (set_afc3_noop p PK) by (rewrite ?HO, ?LEN; (exact A3 || lia)). cbn [fst].
    rewrite LEN. change (0 =? 0) with true. cbv iota.
    destruct pay as [|x pay']; [rewrite len_nil in LP; lia|]. rewrite len_cons in LP.
    rewrite PE.
    replace (Iso.ser_hdr h ++ 0 :: x :: pay') with ((Iso.ser_hdr h ++ [0]) ++ x :: pay') by (rewrite <- app_assoc; reflexivity).
    rewrite (upd_app_at _ _ _ 0 5) by reflexivity.
    replace ((Iso.ser_hdr h ++ [0]) ++ 0 :: pay') with (Iso.ser_hdr h ++ 0 :: Iso.ser_af_body Iso.laf0 ++ pay')
      by (rewrite <- app_assoc; reflexivity).
    destruct (finish_short (Iso.ser_hdr h) 0 Iso.laf0 pay' eq_refl laf0_ok
                ltac:(rewrite body_laf0, len_cons, len_nil; lia) d) as [Q1 Q2].
    + rewrite (has_af_prefix (Iso.ser_hdr h) (0 :: Iso.ser_af_body Iso.laf0 ++ pay') (0 :: x :: pay') eq_refl). rewrite <- PE. exact HA.
    + rewrite body_laf0, len_cons, len_nil. unfold zlen, len in *. lia.
    + cbv zeta in Q1, Q2. rewrite Q1 in *.
      replace (PacketSize <? 188 - len d) with false by (symmetry; apply N.ltb_ge; unfold PacketSize; lia).
      rewrite Q2. f_equal.
      * rewrite <- A3, with_afc_same. rewrite ser_pkt_af. rewrite len_repeatN.
        change (Iso.ser_af_body Iso.laf0) with [0]. change (len [0]) with 1.
        replace (1 + (182 - len d)) with (183 - len d) by (unfold zlen, len in *; lia).
        replace (183 - len d - 1) with (182 - len d) by lia. reflexivity.
      * f_equal. unfold PacketSize, zlen, len in *. lia.
  - replace (len d <? 183) with false by (symmetry; apply N.ltb_ge; unfold zlen, len in *; lia).
    rewrite HA. change (188 - (188 - Z.of_N 5 + 4 + 1))%Z with 0%Z.
    unfold AFP.setLength. change (byteZ 0) with 0. rewrite PE.
    rewrite (upd_app_at (Iso.ser_hdr h) _ _ 0 4) by reflexivity. rewrite <- PE, PS.
    change (PacketSize <? 5) with false. cbv iota. f_equal.
    + rewrite PE. replace (Iso.ser_hdr h ++ 0 :: pay) with ((Iso.ser_hdr h ++ [0]) ++ pay) by (rewrite <- app_assoc; reflexivity).
      rewrite blit_app_over; [| reflexivity | unfold zlen, len in *; lia].
      rewrite ser_pkt_empty. rewrite <- app_assoc. cbn [app]. do 2 f_equal. unfold takeN. f_equal. unfold len in *. lia.
Qed.

(* ------------------------------------------------------------------ case: no adaptation field, the data fills the packet *)
Lemma set_payload_noaf_fill h pay d : let l := Iso.mkLpkt h Iso.NoAF pay in
  Iso.wf_lpkt l -> 184 <= len d ->
  SetPayload_m (Iso.ser_pkt l) d = (Iso.ser_pkt (Iso.set_payload l d), Ok (N.min (len d) (Iso.capacity l))).
Proof.
  intros l W LD.
  pose proof (wf_len l W) as L188. destruct (wf_flags l W) as (AFC & HA & _).
  assert (Iso.afc h = 1) as A1 by (destruct W as (_ & _ & _ & _ & _ & C); exact C).
  cbn [Iso.lh l] in AFC, HA. rewrite A1 in AFC, HA. change (1 / 2 =? 1) with false in HA.
  set (p := Iso.ser_pkt l) in *.
  assert (p = Iso.ser_hdr h ++ pay) as PE by reflexivity.
  assert (len pay = 184) as LP by (rewrite PE in L188; rewrite len_app, len_ser_hdr in L188; lia).
  assert (payloadStart_m p = 4) as PS by (unfold payloadStart_m; rewrite HA; reflexivity).
  assert (stuffingStart_m p = 4) as SM by (unfold stuffingStart_m; rewrite HA; reflexivity).
  unfold SetPayload_m. rewrite AFC. change (1 =? 2) with false. cbv iota. rewrite PS, SM.
  change (PacketSize <? 4) with false. cbn [orb]. unfold SetPayload_prepare, freeSpace. rewrite SM.
  replace (zlen d <? 188 - Z.of_N 4)%Z with false by (symmetry; apply Z.ltb_ge; unfold zlen, len in *; lia).
  rewrite HA, PS. change (PacketSize <? 4) with false. cbv iota.
  unfold Iso.set_payload. change (Iso.capacity l) with 184.
  replace (len d <? 184) with false by (symmetry; apply N.ltb_ge; lia). cbn [Iso.lf Iso.lh l].
  f_equal.
  - rewrite PE. rewrite blit_app_over; [| reflexivity | unfold len in *; lia].
    unfold Iso.ser_pkt. cbn [Iso.lh Iso.lf Iso.lpayload Iso.ser_af app]. f_equal. unfold takeN. f_equal. unfold len in *. lia.
Qed.

(* ------------------------------------------------------------------ adaptation-field-only packets are refused, untouched *)
Lemma set_payload_af_only l d : Iso.wf_lpkt l -> Iso.afc (Iso.lh l) = 2 ->
  SetPayload_m (Iso.ser_pkt l) d = (Iso.ser_pkt l, Err E.NoPayload).
Proof.
  intros W A2. destruct (wf_flags l W) as (AFC & _). unfold SetPayload_m. rewrite AFC, A2. reflexivity.
Qed.

(* ------------------------------------------------------------------ the result is well-formed *)
Lemma takeN_bytes n (d : bytes) : is_bytes d -> is_bytes (takeN n d).
Proof.
  unfold is_bytes, takeN. intros H. rewrite <- (firstn_skipn (N.to_nat n) d) in H. apply Forall_app in H. exact (proj1 H).
Qed.
Lemma len_takeN {A} n (d : list A) : len (takeN n d) = N.min n (len d).
Proof. unfold len, takeN. rewrite firstn_length. lia. Qed.
Lemma len_nonempty {A} (l : list A) : 1 <= len l -> l <> [].
Proof. destruct l; [rewrite len_nil; lia | discriminate]. Qed.
Lemma nonempty_len {A} (l : list A) : l <> [] -> 1 <= len l.
Proof. destruct l; [congruence | rewrite len_cons; lia]. Qed.

Lemma set_payload_wf l d : Iso.wf_lpkt l -> carries_payload l -> d <> [] -> is_bytes d ->
  Iso.wf_lpkt (Iso.set_payload l d).
Proof.
  intros W CP ND DB. pose proof (wf_len l W) as L188. pose proof (nonempty_len d ND) as LD.
  destruct W as (HO & SY & AO & PB & _ & C).
  assert (Iso.hdr_ok (Iso.with_afc (Iso.lh l) 3)) as HO3.
  { destruct HO as (A & B & C' & D & F & G & I & J). unfold Iso.hdr_ok, Iso.with_afc.
    cbn [Iso.sync Iso.tei Iso.pusi Iso.tp Iso.pid Iso.tsc Iso.afc Iso.cc]. repeat split; try assumption; lia. }
  unfold Iso.ser_pkt in L188. rewrite !len_app, len_ser_hdr in L188.
  destruct l as [h f pay]. cbn [Iso.lh Iso.lf Iso.lpayload] in *.
  unfold Iso.set_payload, Iso.capacity, Iso.af_content_len. cbn [Iso.lh Iso.lf Iso.lpayload].
  assert (forall h' f' pay', Iso.hdr_ok h' -> Iso.sync h' = 71 -> Iso.afield_ok f' -> is_bytes pay' ->
            4 + len (Iso.ser_af f') + len pay' = 188 ->
            match f' with Iso.NoAF => Iso.afc h' = 1 | _ => (Iso.afc h' = 2 /\ pay' = []) \/ (Iso.afc h' = 3 /\ pay' <> []) end ->
            Iso.wf_lpkt (Iso.mkLpkt h' f' pay')) as MK.
  { intros h' f' pay' X1 X2 X3 X4 X5 X6. unfold Iso.wf_lpkt. cbn [Iso.lh Iso.lf Iso.lpayload].
    split; [exact X1|]. split; [exact X2|]. split; [exact X3|]. split; [exact X4|]. split; [|exact X6].
    unfold Iso.ser_pkt. cbn [Iso.lh Iso.lf Iso.lpayload].
    rewrite !app_length. change (length (Iso.ser_hdr h')) with 4%nat. unfold len in X5. lia. }
  destruct f as [| |a st].
  - (* no adaptation field *)
    cbn [Iso.ser_af] in L188. rewrite len_nil in L188. change (184 - 0) with 184.
    destruct (N.ltb_spec (len d) 184) as [LT|GE].
    + destruct (N.eqb_spec (len d) 183) as [E|NE]; apply MK; try assumption; try exact I.
      * cbn [Iso.ser_af]. rewrite len_cons, len_nil. lia.
      * right. split; [reflexivity | exact ND].
      * split; [exact laf0_ok | apply repeatN_bytes; unfold is_byte; lia].
      * cbn [Iso.ser_af]. rewrite len_cons, len_app, len_repeatN. change (len (Iso.ser_af_body Iso.laf0)) with 1. lia.
      * right. split; [reflexivity | exact ND].
    + apply MK; try assumption; [apply takeN_bytes; exact DB | cbn [Iso.ser_af]; rewrite len_nil, len_takeN; lia].
  - (* length 0 *)
    cbn [Iso.ser_af] in L188. rewrite len_cons, len_nil in L188. change (184 - 1) with 183.
    assert (Iso.afc h = 3) as A3 by (destruct CP as [X|X]; cbn [Iso.lh] in X; destruct C as [[Y _]|[Y _]]; congruence).
    destruct (N.ltb_spec (len d) 183) as [LT|GE].
    + replace (len d =? 183) with false by (symmetry; apply N.eqb_neq; lia). apply MK; try assumption.
      * split; [exact laf0_ok | apply repeatN_bytes; unfold is_byte; lia].
      * cbn [Iso.ser_af]. rewrite len_cons, len_app, len_repeatN. change (len (Iso.ser_af_body Iso.laf0)) with 1. lia.
      * right. split; [reflexivity | exact ND].
    + apply MK; try assumption; [apply takeN_bytes; exact DB | cbn [Iso.ser_af]; rewrite len_cons, len_nil, len_takeN; lia |].
      right. split; [exact A3 | apply len_nonempty; rewrite len_takeN; lia].
  - (* populated field *)
    cbn [Iso.ser_af Iso.afield_ok] in *. rewrite len_cons, len_app in L188. destruct AO as [LA SB].
    assert (Iso.afc h = 3 /\ pay <> []) as [A3 NP].
    { destruct CP as [X|X]; cbn [Iso.lh] in X; destruct C as [[Y Z]|[Y Z]]; try congruence. auto. }
    pose proof (nonempty_len pay NP) as LP.
    destruct (N.ltb_spec (len d) (184 - (1 + len (Iso.ser_af_body a)))) as [LT|GE].
    + apply MK; try assumption.
      * split; [exact LA | apply repeatN_bytes; unfold is_byte; lia].
      * cbn [Iso.ser_af]. rewrite len_cons, len_app, len_repeatN. lia.
      * right. split; [reflexivity | exact ND].
    + apply MK; try assumption.
      * split; [exact LA | constructor].
      * apply takeN_bytes; exact DB.
      * cbn [Iso.ser_af]. rewrite len_cons, len_app, len_nil, len_takeN. lia.
      * right. split; [exact A3 | apply len_nonempty; rewrite len_takeN; lia].
Qed.

(* ------------------------------------------------------------------ assembling the cases *)
Lemma wf_carries_afc3 h f pay : Iso.wf_lpkt (Iso.mkLpkt h f pay) -> carries_payload (Iso.mkLpkt h f pay) ->
  f <> Iso.NoAF -> Iso.afc h = 3.
Proof.
  intros W CP NE. destruct (wf_afc_cases _ W) as [[F _]|[(_ & A & _)|(_ & A & _)]]; cbn [Iso.lf Iso.lh] in *;
    [congruence | destruct CP as [X|X]; cbn [Iso.lh] in X; congruence | exact A].
Qed.
(* proved for: every packet that already has an adaptation field (any length, incl. 0), and
   payload-only packets when the data fills the packet *)
Lemma set_payload_ok_partial l d : Iso.wf_lpkt l -> carries_payload l ->
  (Iso.lf l <> Iso.NoAF \/ 184 <= len d) ->
  SetPayload_m (Iso.ser_pkt l) d = (Iso.ser_pkt (Iso.set_payload l d), Ok (N.min (len d) (Iso.capacity l))).
Proof.
  intros W CP SIDE. destruct l as [h f pay]. destruct f as [| |a st].
  - destruct SIDE as [X|X]; [cbn in X; congruence|]. exact (set_payload_noaf_fill h pay d W X).
  - apply set_payload_empty_af; [exact W | apply (wf_carries_afc3 h _ pay W CP); discriminate].
  - apply set_payload_af; [exact W | apply (wf_carries_afc3 h _ pay W CP); discriminate].
Qed.

Lemma set_payload_payload l d : Iso.lpayload (Iso.set_payload l d) = takeN (Iso.capacity l) d.
Proof.
  unfold Iso.set_payload. destruct (N.ltb_spec (len d) (Iso.capacity l)) as [LT|GE]; cbn [Iso.lpayload]; [|reflexivity].
  unfold takeN. rewrite firstn_all2; [reflexivity | unfold len in *; lia].
Qed.
Lemma set_payload_carries l d : carries_payload l -> carries_payload (Iso.set_payload l d).
Proof.
  unfold carries_payload, Iso.set_payload. intros CP.
  destruct (len d <? Iso.capacity l); cbn [Iso.lh]; [right; reflexivity | exact CP].
Qed.
(* reading the payload back (both accessors) returns exactly the stored bytes *)
Lemma set_payload_readback l d : Iso.wf_lpkt l -> carries_payload l -> d <> [] -> is_bytes d ->
  let p' := Iso.ser_pkt (Iso.set_payload l d) in
  Payload_m p' = Ok (takeN (Iso.capacity l) d) /\ Payload_fn p' = Ok (takeN (Iso.capacity l) d).
Proof.
  intros W CP ND DB. cbv zeta. pose proof (set_payload_wf l d W CP ND DB) as W'.
  destruct (partition _ W') as (_ & P & _). destruct (P (set_payload_carries l d CP)) as [P1 P2].
  rewrite set_payload_payload in P1, P2. auto.
Qed.
(* header fields: untouched, except that control 01 becomes 11 when a field has to be created *)
Lemma set_payload_hdr l d :
  Iso.lh (Iso.set_payload l d) = (if len d <? Iso.capacity l then Iso.with_afc (Iso.lh l) 3 else Iso.lh l).
Proof. unfold Iso.set_payload. destruct (len d <? Iso.capacity l); reflexivity. Qed.

(* empty data: count 0, the payload area becomes stuffing *)
Lemma capacity_pos l : Iso.wf_lpkt l -> carries_payload l -> 1 <= Iso.capacity l.
Proof.
  intros W CP. pose proof (wf_len l W) as L188. unfold Iso.ser_pkt in L188. rewrite !len_app, len_ser_hdr in L188.
  destruct (wf_afc_cases l W) as [[F _]|[(_ & A & _)|(F & A & NP)]].
  - unfold Iso.capacity. rewrite F. cbn. lia.
  - destruct CP as [X|X]; congruence.
  - pose proof (nonempty_len _ NP) as LP. unfold Iso.capacity, Iso.af_content_len.
    destruct (Iso.lf l) as [| |a st]; [congruence | lia |]. cbn [Iso.ser_af] in L188. rewrite len_cons, len_app in L188. lia.
Qed.


(* ------------------------------------------------------------------ case: payload-only packet, short data:
   SetPayload creates the adaptation field (SetAdaptationFieldControl -> initAdaptationField) *)
Lemma blit_nat_nil l i : blit_nat l i [] = l.
Proof. revert i; induction l as [|h t IH]; intros [|i]; cbn; try reflexivity. rewrite IH. reflexivity. Qed.
Lemma blit_nil l i : blit l i [] = l.
Proof. apply blit_nat_nil. Qed.
Lemma hdr_ok_afc3 h : Iso.hdr_ok h -> Iso.hdr_ok (Iso.with_afc h 3).
Proof.
  intros (A & B & C' & D & F & G & I & J). unfold Iso.hdr_ok, Iso.with_afc.
  cbn [Iso.sync Iso.tei Iso.pusi Iso.tp Iso.pid Iso.tsc Iso.afc Iso.cc]. repeat split; try assumption; lia.
Qed.

Lemma set_afc3_creates h pay : let l := Iso.mkLpkt h Iso.NoAF pay in Iso.wf_lpkt l ->
  SetAdaptationFieldControl (Iso.ser_pkt l) 3 =
    (Iso.ser_pkt (Iso.mkLpkt (Iso.with_afc h 3) (Iso.AF Iso.laf0 (repeatN 255 181)) [255]), None) /\
  HasAdaptationField (Iso.ser_hdr (Iso.with_afc h 3) ++ pay) = true.
Proof.
  intros l W.
  pose proof (wf_is_pkt l W) as PK. pose proof (wf_hdr_of l W) as HO. pose proof (wf_len l W) as L188.
  destruct (wf_flags l W) as (_ & HA & _).
  assert (Iso.afc h = 1) as A1 by (destruct W as (_ & _ & _ & _ & _ & C); exact C).
  cbn [Iso.lh l] in HA, HO. rewrite A1 in HA. change (1 / 2 =? 1) with false in HA.
  assert (Iso.hdr_ok h) as HOK by (destruct W as (X & _); exact X).
  assert (is_bytes pay) as PB by (destruct W as (_ & _ & _ & X & _); exact X).
  set (p := Iso.ser_pkt l) in *.
  assert (p = Iso.ser_hdr h ++ pay) as PE by reflexivity.
  assert (len pay = 184) as LP by (rewrite PE in L188; rewrite len_app, len_ser_hdr in L188; lia).
  set (h3 := Iso.with_afc h 3). set (T := Iso.ser_hdr h3 ++ pay).
  pose proof (hdr_ok_afc3 h HOK) as HOK3. fold h3 in HOK3.
  assert (is_pkt T) as PT.
  { split; [unfold T; rewrite app_length; unfold len in LP; cbn [length Iso.ser_hdr]; lia|].
    unfold T. apply is_bytes_app. split; [apply ser_hdr_bytes; exact HOK3 | exact PB]. }
  (* the write to byte 3 *)
  destruct (set_afc_byte p PK 3 ltac:(lia)) as (E & F & P1). cbv zeta in E, F, P1.
  unfold SetAdaptationFieldControl. rewrite HA.
  match goal with |- context [upd p 3 ?x] => set (p1 := upd p 3 x) in * end.
  assert (p1 = T) as P1T.
  { apply hdr_tail_ext; try assumption.
    - rewrite E, HO. unfold T. symmetry. apply hdr_of_ser. exact HOK3.
    - intros j J. rewrite F by lia. unfold get, T. rewrite PE.
      rewrite !nthN_app_r by (rewrite len_ser_hdr; lia). rewrite !len_ser_hdr. reflexivity. }
  rewrite P1T.
  assert (HasAdaptationField T = true) as HAT.
  { destruct (byte3_facts T PT) as (_ & _ & _ & _ & _ & _ & _ & X). rewrite X. unfold T. rewrite hdr_of_ser by exact HOK3. reflexivity. }
  rewrite HAT. cbn [negb andb]. change (3 =? 3) with true. cbv iota.
  (* initAdaptationField *)
  destruct pay as [|x0 [|x1 pay2]]; [rewrite len_nil in LP; lia | rewrite len_cons, len_nil in LP; lia|].
  rewrite !len_cons in LP.
  set (Q0 := Iso.ser_hdr h3 ++ 183 :: Iso.ser_af_body Iso.laf0 ++ repeatN 255 182).
  assert (AFP.initAdaptationField T = Q0) as INIT.
  { unfold AFP.initAdaptationField, T, fill, PacketSize.
    rewrite (upd_app_at (Iso.ser_hdr h3) _ _ 183 4) by reflexivity.
    replace (Iso.ser_hdr h3 ++ 183 :: x1 :: pay2) with ((Iso.ser_hdr h3 ++ [183]) ++ x1 :: pay2) by (rewrite <- app_assoc; reflexivity).
    rewrite (upd_app_at _ _ _ 0 5) by reflexivity.
    replace ((Iso.ser_hdr h3 ++ [183]) ++ 0 :: pay2) with ((Iso.ser_hdr h3 ++ [183; 0]) ++ pay2) by (rewrite <- !app_assoc; reflexivity).
    change (188 - 6) with 182.
    rewrite blit_app_over; [| reflexivity | rewrite repeatN_length; unfold len in LP; lia].
    replace (length pay2) with (N.to_nat 182) by (unfold len in LP; lia).
    rewrite <- (repeatN_length 255 182) at 1. rewrite firstn_all.
    unfold Q0. rewrite <- app_assoc. reflexivity. }
  rewrite INIT.
  assert (AFP.Length Q0 = 183) as LQ0 by (unfold AFP.Length, Q0; apply q_get4; reflexivity).
  rewrite LQ0. change (183 =? 183) with true. cbv iota.
  assert (AFP.stuffingStart Q0 = 6) as SQ0.
  { unfold Q0. rewrite stuffing_start_body; [reflexivity | reflexivity | exact laf0_ok | cbn; lia]. }
  rewrite SQ0. change (6 <? PacketSize) with true. cbv iota.
  unfold Q0. change 182%Z with (Z.of_N 182).
  rewrite set_len_stuff; [| reflexivity | exact laf0_ok | rewrite len_repeatN; reflexivity | cbn; lia | lia].
  split; [|first [exact HAT | reflexivity]].
  rewrite ser_pkt_af. fold h3. reflexivity.
Qed.
Lemma hdr_ok_afc2 h : Iso.hdr_ok h -> Iso.hdr_ok (Iso.with_afc h 2).
Proof.
  intros (A & B & C' & D & F & G & I & J). unfold Iso.hdr_ok, Iso.with_afc.
  cbn [Iso.sync Iso.tei Iso.pusi Iso.tp Iso.pid Iso.tsc Iso.afc Iso.cc]. repeat split; try assumption; lia.
Qed.
Lemma set_afc2_creates h pay : let l := Iso.mkLpkt h Iso.NoAF pay in Iso.wf_lpkt l ->
  SetAdaptationFieldControl (Iso.ser_pkt l) 2 =
    (Iso.ser_pkt (Iso.mkLpkt (Iso.with_afc h 2) (Iso.AF Iso.laf0 (repeatN 255 182)) []), None).
Proof.
  intros l W.
  pose proof (wf_is_pkt l W) as PK. pose proof (wf_hdr_of l W) as HO. pose proof (wf_len l W) as L188.
  destruct (wf_flags l W) as (_ & HA & _).
  assert (Iso.afc h = 1) as A1 by (destruct W as (_ & _ & _ & _ & _ & C); exact C).
  cbn [Iso.lh l] in HA, HO. rewrite A1 in HA. change (1 / 2 =? 1) with false in HA.
  assert (Iso.hdr_ok h) as HOK by (destruct W as (X & _); exact X).
  assert (is_bytes pay) as PB by (destruct W as (_ & _ & _ & X & _); exact X).
  set (p := Iso.ser_pkt l) in *.
  assert (p = Iso.ser_hdr h ++ pay) as PE by reflexivity.
  assert (len pay = 184) as LP by (rewrite PE in L188; rewrite len_app, len_ser_hdr in L188; lia).
  set (h3 := Iso.with_afc h 2). set (T := Iso.ser_hdr h3 ++ pay).
  pose proof (hdr_ok_afc2 h HOK) as HOK3. fold h3 in HOK3.
  assert (is_pkt T) as PT.
  { split; [unfold T; rewrite app_length; unfold len in LP; cbn [length Iso.ser_hdr]; lia|].
    unfold T. apply is_bytes_app. split; [apply ser_hdr_bytes; exact HOK3 | exact PB]. }
  (* the write to byte 3 *)
  destruct (set_afc_byte p PK 2 ltac:(lia)) as (E & F & P1). cbv zeta in E, F, P1.
  unfold SetAdaptationFieldControl. rewrite HA.
  match goal with |- context [upd p 3 ?x] => set (p1 := upd p 3 x) in * end.
  assert (p1 = T) as P1T.
  { apply hdr_tail_ext; try assumption.
    - rewrite E, HO. unfold T. symmetry. apply hdr_of_ser. exact HOK3.
    - intros j J. rewrite F by lia. unfold get, T. rewrite PE.
      rewrite !nthN_app_r by (rewrite len_ser_hdr; lia). rewrite !len_ser_hdr. reflexivity. }
  rewrite P1T.
  assert (HasAdaptationField T = true) as HAT.
  { destruct (byte3_facts T PT) as (_ & _ & _ & _ & _ & _ & _ & X). rewrite X. unfold T. rewrite hdr_of_ser by exact HOK3. reflexivity. }
  rewrite HAT. cbn [negb andb]. change (2 =? 3) with false. cbv iota.
  (* initAdaptationField *)
  destruct pay as [|x0 [|x1 pay2]]; [rewrite len_nil in LP; lia | rewrite len_cons, len_nil in LP; lia|].
  rewrite !len_cons in LP.
  set (Q0 := Iso.ser_hdr h3 ++ 183 :: Iso.ser_af_body Iso.laf0 ++ repeatN 255 182).
  assert (AFP.initAdaptationField T = Q0) as INIT.
  { unfold AFP.initAdaptationField, T, fill, PacketSize.
    rewrite (upd_app_at (Iso.ser_hdr h3) _ _ 183 4) by reflexivity.
    replace (Iso.ser_hdr h3 ++ 183 :: x1 :: pay2) with ((Iso.ser_hdr h3 ++ [183]) ++ x1 :: pay2) by (rewrite <- app_assoc; reflexivity).
    rewrite (upd_app_at _ _ _ 0 5) by reflexivity.
    replace ((Iso.ser_hdr h3 ++ [183]) ++ 0 :: pay2) with ((Iso.ser_hdr h3 ++ [183; 0]) ++ pay2) by (rewrite <- !app_assoc; reflexivity).
    change (188 - 6) with 182.
    rewrite blit_app_over; [| reflexivity | rewrite repeatN_length; unfold len in LP; lia].
    replace (length pay2) with (N.to_nat 182) by (unfold len in LP; lia).
    rewrite <- (repeatN_length 255 182) at 1. rewrite firstn_all.
    unfold Q0. rewrite <- app_assoc. reflexivity. }
  rewrite INIT. unfold Q0. rewrite ser_pkt_af. fold h3. rewrite app_nil_r. reflexivity.
Qed.

Lemma set_payload_noaf_short h pay d : let l := Iso.mkLpkt h Iso.NoAF pay in
  Iso.wf_lpkt l -> len d < 184 ->
  SetPayload_m (Iso.ser_pkt l) d = (Iso.ser_pkt (Iso.set_payload l d), Ok (N.min (len d) (Iso.capacity l))).
Proof.
  intros l W LD.
  destruct (set_afc3_creates h pay W) as (SA & HA3). fold l in SA. rewrite ser_pkt_af in SA.
  change (len (Iso.ser_af_body Iso.laf0) + len (repeatN 255 181)) with 182 in SA.
  set (rest := repeatN 255 181 ++ [255]) in *.
  assert (len rest = 182) as LR by reflexivity.
  pose proof (wf_len l W) as L188. destruct (wf_flags l W) as (AFC & HA & _).
  assert (Iso.afc h = 1) as A1 by (destruct W as (_ & _ & _ & _ & _ & C); exact C).
  cbn [Iso.lh l] in AFC, HA. rewrite A1 in AFC, HA. change (1 / 2 =? 1) with false in HA.
  set (p := Iso.ser_pkt l) in *. set (h3 := Iso.with_afc h 3) in *.
  assert (payloadStart_m p = 4) as PS by (unfold payloadStart_m; rewrite HA; reflexivity).
  assert (stuffingStart_m p = 4) as SM by (unfold stuffingStart_m; rewrite HA; reflexivity).
  unfold SetPayload_m. rewrite AFC. change (1 =? 2) with false. cbv iota. rewrite PS, SM.
  change (PacketSize <? 4) with false. cbn [orb]. unfold SetPayload_prepare, freeSpace. rewrite SM.
  replace (zlen d <? 188 - Z.of_N 4)%Z with true by (symmetry; apply Z.ltb_lt; unfold zlen, len in *; lia).
  rewrite SA. cbn [fst].
  assert (AFP.Length (Iso.ser_hdr h3 ++ 182 :: Iso.ser_af_body Iso.laf0 ++ rest) = 182) as L1
    by (unfold AFP.Length; apply q_get4; reflexivity).
  rewrite L1. change (182 =? 0) with false. cbv iota.
  assert (HasAdaptationField (Iso.ser_hdr h3 ++ 182 :: Iso.ser_af_body Iso.laf0 ++ rest) = true) as HAQ.
  { rewrite (has_af_prefix (Iso.ser_hdr h3) _ pay eq_refl). exact HA3. }
  unfold Iso.set_payload. change (Iso.capacity l) with 184.
  replace (len d <? 184) with true by (symmetry; apply N.ltb_lt; lia). cbn [Iso.lf Iso.lh l]. fold h3.
  destruct (N.eqb_spec (len d) 183) as [E|NE].
  - (* 183 bytes: the field shrinks to its length byte *)
    replace (188 - (zlen d + 4 + 1))%Z with 0%Z by (unfold zlen, len in *; lia).
    unfold AFP.setLength. change (byteZ 0) with 0.
    rewrite (upd_app_at (Iso.ser_hdr h3) _ _ 0 4) by reflexivity.
    unfold AFP.stuffAF, fill.
    rewrite stuffing_start_body; [| reflexivity | exact laf0_ok | cbn; lia].
    unfold AFP.stuffingEnd. rewrite q_get4 by reflexivity.
    change (PacketSize <? 0 + 5) with false. cbv iota.
    change (0 + 5 - (5 + len (Iso.ser_af_body Iso.laf0))) with 0. change (repeatN 255 0) with (@nil N).
    rewrite blit_nil.
    assert (payloadStart_m (Iso.ser_hdr h3 ++ 0 :: Iso.ser_af_body Iso.laf0 ++ rest) = 5) as PS'.
    { unfold payloadStart_m. rewrite (has_af_prefix (Iso.ser_hdr h3) _ pay eq_refl), HA3.
      unfold AFP.Length. rewrite q_get4 by reflexivity. reflexivity. }
    rewrite PS'. change (PacketSize <? 5) with false. cbv iota. f_equal.
    + replace (Iso.ser_hdr h3 ++ 0 :: Iso.ser_af_body Iso.laf0 ++ rest)
        with ((Iso.ser_hdr h3 ++ [0]) ++ Iso.ser_af_body Iso.laf0 ++ rest) by (rewrite <- app_assoc; reflexivity).
      rewrite blit_app_over; [| reflexivity | rewrite app_length; change (length (Iso.ser_af_body Iso.laf0)) with 1%nat; unfold len in *; lia].
      replace (length (Iso.ser_af_body Iso.laf0 ++ rest)) with (length d)
        by (rewrite app_length; change (length (Iso.ser_af_body Iso.laf0)) with 1%nat; unfold len in *; lia).
      rewrite firstn_all. rewrite ser_pkt_empty. rewrite <- app_assoc. reflexivity.
    + f_equal. unfold PacketSize. lia.
  - destruct (finish_short (Iso.ser_hdr h3) 182 Iso.laf0 rest eq_refl laf0_ok
                ltac:(change (len (Iso.ser_af_body Iso.laf0)) with 1; lia) d HAQ
                ltac:(change (len (Iso.ser_af_body Iso.laf0)) with 1; lia)) as [Q1 Q2].
    cbv zeta in Q1, Q2. rewrite Q1 in *.
    replace (PacketSize <? 188 - len d) with false by (symmetry; apply N.ltb_ge; unfold PacketSize; lia).
    rewrite Q2. f_equal.
    + rewrite ser_pkt_af. rewrite len_repeatN. change (len (Iso.ser_af_body Iso.laf0)) with 1.
      replace (1 + (182 - len d)) with (183 - len d) by lia.
      replace (183 - len d - 1) with (182 - len d) by lia. reflexivity.
    + f_equal. unfold PacketSize. lia.
Qed.

(* ------------------------------------------------------------------ the full statement *)
Lemma set_payload_ok l d : Iso.wf_lpkt l -> carries_payload l ->
  SetPayload_m (Iso.ser_pkt l) d = (Iso.ser_pkt (Iso.set_payload l d), Ok (N.min (len d) (Iso.capacity l))).
Proof.
  intros W CP. destruct (Iso.lf l) as [| |a st] eqn:F.
  - destruct (N.lt_ge_cases (len d) 184) as [LT|GE].
    + destruct l as [h f pay]. cbn [Iso.lf] in F. subst f. exact (set_payload_noaf_short h pay d W LT).
    + apply set_payload_ok_partial; [exact W | exact CP | right; exact GE].
  - apply set_payload_ok_partial; [exact W | exact CP | left; rewrite F; discriminate].
  - apply set_payload_ok_partial; [exact W | exact CP | left; rewrite F; discriminate].
Qed.

Lemma set_payload_empty l : Iso.wf_lpkt l -> carries_payload l ->
  SetPayload_m (Iso.ser_pkt l) [] = (Iso.ser_pkt (Iso.set_payload l []), Ok 0) /\
  Iso.lpayload (Iso.set_payload l []) = [] /\ Iso.afc (Iso.lh (Iso.set_payload l [])) = 3.
Proof.
  intros W CP. pose proof (capacity_pos l W CP) as C1.
  rewrite (set_payload_ok l [] W CP). rewrite len_nil.
  replace (N.min 0 (Iso.capacity l)) with 0 by lia. split; [reflexivity|].
  unfold Iso.set_payload. rewrite len_nil. replace (0 <? Iso.capacity l) with true by (symmetry; apply N.ltb_lt; lia).
  split; reflexivity.
Qed.

Lemma set_afc_creates h pay : let l := Iso.mkLpkt h Iso.NoAF pay in Iso.wf_lpkt l ->
  SetAdaptationFieldControl (Iso.ser_pkt l) 2 =
    (Iso.ser_pkt (Iso.mkLpkt (Iso.with_afc h 2) (Iso.AF Iso.laf0 (repeatN 255 182)) []), None) /\
  SetAdaptationFieldControl (Iso.ser_pkt l) 3 =
    (Iso.ser_pkt (Iso.mkLpkt (Iso.with_afc h 3) (Iso.AF Iso.laf0 (repeatN 255 181)) [255]), None).
Proof. intros l W. split; [exact (set_afc2_creates h pay W) | exact (proj1 (set_afc3_creates h pay W))]. Qed.

Definition nonempty_b {A} (l : list A) : bool := match l with [] => false | _ => true end.

(* ------------------------------------------------------------------ SetAdaptationFieldControl(11) on an adaptation-field-only packet:
   the last byte of the packet becomes payload if at least one stuffing byte can be given up *)
Lemma set_afc_byte_ser h X v : Iso.hdr_ok h -> is_bytes X -> len X = 184 -> v < 4 ->
  let p := Iso.ser_hdr h ++ X in
  upd p 3 (N.lor (N.land (get p 3) (not8 48)) (w8 (N.shiftl v 4))) = Iso.ser_hdr (Iso.with_afc h v) ++ X.
Proof.
  intros HOK XB LX Hv p.
  assert (Iso.hdr_ok (Iso.with_afc h v)) as HOKv.
  { destruct HOK as (A & B & C' & D & F & G & I & J). unfold Iso.hdr_ok, Iso.with_afc.
    cbn [Iso.sync Iso.tei Iso.pusi Iso.tp Iso.pid Iso.tsc Iso.afc Iso.cc]. repeat split; assumption. }
  assert (forall h', Iso.hdr_ok h' -> is_pkt (Iso.ser_hdr h' ++ X)) as PK.
  { intros h' O. split; [rewrite app_length; unfold len in LX; cbn [length Iso.ser_hdr]; lia|].
    apply is_bytes_app. split; [apply ser_hdr_bytes; exact O | exact XB]. }
  destruct (set_afc_byte p (PK h HOK) v Hv) as (E & F & P1). cbv zeta in E, F, P1.
  apply hdr_tail_ext; [exact P1 | exact (PK _ HOKv) | |].
  - rewrite E. unfold p. rewrite !hdr_of_ser by assumption. reflexivity.
  - intros j J. rewrite F by lia. unfold get, p.
    rewrite !nthN_app_r by (rewrite len_ser_hdr; lia). rewrite !len_ser_hdr. reflexivity.
Qed.

Lemma set_afc3_on_af_only h a st : let l := Iso.mkLpkt h (Iso.AF a st) [] in Iso.wf_lpkt l ->
  SetAdaptationFieldControl (Iso.ser_pkt l) 3 =
  if nonempty_b st
  then (Iso.ser_pkt (Iso.mkLpkt (Iso.with_afc h 3) (Iso.AF a (repeatN 255 (len st - 1))) (dropN (len st - 1) st)), None)
  else (Iso.ser_pkt (Iso.mkLpkt (Iso.with_afc h 3) (Iso.AF a []) []), Some E.AdaptationFieldTooLarge).
Proof.
  intros l W.
  pose proof (wf_is_pkt l W) as PK. pose proof (wf_len l W) as L188.
  destruct (wf_flags l W) as (_ & HA & _).
  assert (Iso.afc h = 2) as A2.
  { destruct (wf_afc_cases l W) as [[F _]|[(_ & A & _)|(_ & _ & NP)]]; cbn [Iso.lf Iso.lh Iso.lpayload l] in *; congruence. }
  cbn [Iso.lh l] in HA. rewrite A2 in HA. change (2 / 2 =? 1) with true in HA.
  assert (Iso.hdr_ok h) as HOK by (destruct W as (X & _); exact X).
  assert (Iso.laf_ok a) as OK by (destruct W as (_ & _ & AO & _); exact (proj1 AO)).
  pose proof (len_body_pos a) as LBP.
  set (body := Iso.ser_af_body a) in *.
  set (p := Iso.ser_pkt l) in *.
  assert (p = Iso.ser_hdr h ++ (len body + len st) :: body ++ (st ++ [])) as PE by apply ser_pkt_af.
  rewrite app_nil_r in PE.
  assert (len body + len st = 183) as LR.
  { rewrite PE in L188. rewrite len_app, len_ser_hdr, len_cons, len_app in L188. lia. }
  rewrite LR in PE.
  assert (is_bytes (183 :: body ++ st)) as XB.
  { destruct PK as [_ B]. rewrite PE in B. apply is_bytes_app in B. exact (proj2 B). }
  unfold SetAdaptationFieldControl. rewrite HA. cbn [negb andb]. change (3 =? 3) with true. cbv iota.
  rewrite PE.
  rewrite (set_afc_byte_ser h (183 :: body ++ st) 3 HOK XB ltac:(rewrite len_cons, len_app; lia) ltac:(lia)).
  set (h3 := Iso.with_afc h 3).
  assert (AFP.Length (Iso.ser_hdr h3 ++ 183 :: body ++ st) = 183) as LEN by (unfold AFP.Length; apply q_get4; reflexivity).
  rewrite LEN. change (183 =? 183) with true. cbv iota.
  assert (AFP.stuffingStart (Iso.ser_hdr h3 ++ 183 :: body ++ st) = 5 + len body) as SSQ
    by (apply stuffing_start_body; [reflexivity | exact OK | fold body; lia]).
  rewrite SSQ.
  destruct st as [|s0 st'].
  - rewrite len_nil in LR. cbn [nonempty_b]. replace (5 + len body <? PacketSize) with false
      by (symmetry; apply N.ltb_ge; unfold PacketSize; lia).
    f_equal. rewrite ser_pkt_af. fold body h3. rewrite len_nil, !app_nil_r, N.add_0_r.
    replace (len body) with 183 by lia. reflexivity.
  - cbn [nonempty_b]. rewrite len_cons in LR.
    replace (5 + len body <? PacketSize) with true by (symmetry; apply N.ltb_lt; unfold PacketSize; lia).
    change 182%Z with (Z.of_N 182).
    pose proof (set_len_stuff (Iso.ser_hdr h3) 183 a (s0 :: st') eq_refl OK) as SL. fold body in SL.
    rewrite SL by (rewrite ?len_cons; lia). f_equal. rewrite ser_pkt_af. fold body h3. rewrite len_repeatN, len_cons.
    replace (1 + len st' - 1) with (len st') by lia.
    replace (len body + len st') with 182 by lia. replace (182 - len body) with (len st') by lia. reflexivity.
Qed.
