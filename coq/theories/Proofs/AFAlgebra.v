(* Algebraic consequences of the refinement: repeating a presence toggle changes nothing (the second symptom of
   F5 on the pinned tree), copying a packet's adaptation field onto itself changes nothing. *)
From Gots Require Import Base.Prelude Model.Pcr Model.AF Spec.AFSpec
  Proofs.AFLists Proofs.AFHistory Proofs.AFGetters Proofs.AFLastSet Proofs.AFFrame.
Import AF.

Definition is_toggle (o : op) : bool :=
  match o with OSetHasPCR _ | OSetHasOPCR _ | OSetHasSplice _ | OSetHasTPD _ | OSetHasExt _ => true | _ => false end.

Lemma set_none_id l :
  (l_pcr l = None -> set_pcr l None = l) /\ (l_opcr l = None -> set_opcr l None = l) /\
  (l_splice l = None -> set_splice l None = l) /\ (l_tpd l = None -> set_tpd l None = l) /\
  (l_ext l = None -> set_ext l None = l).
Proof. destruct l as [n d r pr pc oc sp tp ex]; cbn [l_pcr l_opcr l_splice l_tpd l_ext set_pcr set_opcr set_splice set_tpd set_ext l_len l_disc l_rai l_prio].
  split; [intros E; rewrite E; reflexivity|]. split; [intros E; rewrite E; reflexivity|].
  split; [intros E; rewrite E; reflexivity|]. split; [intros E; rewrite E; reflexivity|]. intros E; rewrite E; reflexivity. Qed.

(* once a toggle has succeeded, the same toggle is a no-op on the logical value *)
Lemma toggle_again o l l1 : is_toggle o = true -> op_rel l o (Done l1) -> forall out, op_rel l1 o out -> out = Done l1.
Proof. intros T H out H'.
  destruct (set_none_id l1) as (N1 & N2 & N3 & N4 & N5).
  destruct o; try discriminate T; cbn [op_rel] in H, H';
  destruct H as (u & _ & _ & E); destruct H' as (u' & _ & _ & ->); destruct v; cbn [spec_step] in *;
  repeat match type of E with context [if ?c then _ else _] => destruct c eqn:? end;
  try discriminate E;
  try (symmetry in E; apply grow_inv in E; subst l1; reflexivity);
  try (injection E as ->; cbn [set_pcr set_opcr set_splice set_tpd set_ext l_pcr l_opcr l_splice l_tpd l_ext isSome]; reflexivity);
  try (injection E as E; subst l1;
       match goal with H : isSome ?x = true |- _ => rewrite H; reflexivity end).
Qed.

Theorem toggle_idempotent p l hdr pay o p1 : repr p l hdr pay -> is_toggle o = true ->
  step p o = Ok p1 -> step p1 o = Ok p1.
Proof. intros R T E.
  assert (Hok: op_ok o) by (destruct o; try discriminate T; exact I).
  destruct (step_ok_inv p l hdr pay o p1 R Hok E) as (l1 & Rel & R1).
  pose proof (step_refines p1 l1 hdr pay o R1 Hok) as S. unfold refines_at in S.
  destruct (step p1 o) as [p2|e| |]; try contradiction.
  - destruct S as (l2 & Rel2 & R2). pose proof (toggle_again o l l1 T Rel _ Rel2) as EQ. injection EQ as ->.
    destruct R1 as (-> & _). destruct R2 as (-> & _). reflexivity.
  - pose proof (toggle_again o l l1 T Rel _ S) as EQ. discriminate EQ. Qed.

(* copying the adaptation field of a packet onto itself *)
Theorem self_copy_identity p l hdr pay : repr p l hdr pay -> step p (OSetAF p) = Ok p.
Proof. intros R. pose proof R as (Hp & Hh & Hb & HL & Hwf & Hf).
  assert (Hok: op_ok (OSetAF p)).
  { split; [exact HL|]. exists hdr, l, pay. split; [exact Hp|split; [exact Hh|split; [exact Hwf|exact Hf]]]. }
  pose proof (step_refines p l hdr pay (OSetAF p) R Hok) as S. unfold refines_at in S.
  assert (U: forall out, op_rel l (OSetAF p) out -> out = Done l).
  { intros out (hs & ls & ps & E & Hhs & W & F & ->).
    assert (R': repr p ls hs ps) by (unfold repr; repeat split; try assumption; try apply W;
      destruct hs as [|a [|b [|c [|d [|]]]]]; try discriminate;
      destruct hdr as [|a' [|b' [|c' [|d' [|]]]]]; try discriminate;
      rewrite E in Hp; cbn [app] in Hp; injection Hp as -> -> -> -> _; exact Hb).
    destruct (repr_unique _ _ _ _ _ _ _ R R') as (<- & _ & _).
    unfold fits in Hf. replace (content_len l <=? l_len l) with true by (symmetry; apply N.leb_le; exact Hf).
    destruct l; reflexivity. }
  destruct (step p (OSetAF p)) as [p2|e| |]; try contradiction.
  - destruct S as (l2 & Rel & R2). apply U in Rel. injection Rel as ->. destruct R2 as (-> & _). rewrite <- Hp. reflexivity.
  - apply U in S. discriminate S. Qed.
