From Gots Require Import Base.Prelude Model.AF Spec.AFSpec Spec.AFParse Proofs.AFLists.

Lemma bytes_eqb_eq a : forall b, bytes_eqb a b = true -> a = b.
Proof. induction a as [|x a IH]; intros [|y b] H; cbn in H; try discriminate; [reflexivity|].
  apply andb_true_iff in H. destruct H as [H1 H2]. apply N.eqb_eq in H1. subst. f_equal. apply IH. exact H2. Qed.

Lemma opt6b_ok o : opt6b o = true -> opt_bytes 6 o.
Proof. destruct o; cbn; [|auto]. intros H. apply andb_true_iff in H. destruct H as [H1 H2].
  split; [apply Nat.eqb_eq; exact H1|apply is_bytesb_ok; exact H2]. Qed.

Lemma wf_lafb_ok l : wf_lafb l = true -> wf_laf l.
Proof. unfold wf_lafb, wf_laf. intros H. repeat (apply andb_true_iff in H; destruct H as [H ?]).
  repeat split.
  - apply N.leb_le. assumption.
  - apply N.leb_le. assumption.
  - apply opt6b_ok. assumption.
  - apply opt6b_ok. assumption.
  - destruct (l_splice l); [apply N.ltb_lt; assumption|exact I].
  - destruct (l_tpd l); [apply is_bytesb_ok; assumption|exact I].
  - destruct (l_ext l); [apply is_bytesb_ok; assumption|exact I]. Qed.

Theorem reprb_sound p hdr l pay : reprb p = Some (hdr, l, pay) -> repr p l hdr pay.
Proof. unfold reprb. destruct (guess_laf p) as [[[hdr' l'] pay']|] eqn:G; [|discriminate].
  destruct (bytes_eqb p (hdr' ++ ser_laf l' ++ pay') && bit (nthN hdr' 3) 32 && Nat.eqb (length p) 188 && wf_lafb l' && fitsb l') eqn:C; [|discriminate].
  intros [= -> -> ->]. repeat (apply andb_true_iff in C; destruct C as [C ?]).
  unfold repr. split; [apply bytes_eqb_eq; assumption|]. split.
  { unfold guess_laf in G. destruct p as [|h0 [|h1 [|h2 [|h3 [|L [|fl r0]]]]]]; try discriminate.
    destruct (take_opt6 (bit fl 16) r0), (take_opt6 (bit fl 8) b), (take_opt1 (bit fl 4) b0), (take_optv (bit fl 2) b1), (take_optv (bit fl 1) b2).
    injection G as <- _ _. reflexivity. }
  split; [assumption|]. split; [apply Nat.eqb_eq; assumption|]. split; [apply wf_lafb_ok; assumption|].
  unfold fits. apply N.leb_le. assumption. Qed.

Lemma op_okb_sound o : op_okb o = true -> op_ok o.
Proof. destruct o; cbn [op_okb op_ok]; intros H; try exact I;
  try (apply N.ltb_lt; exact H); try (apply is_bytesb_ok; exact H).
  destruct (reprb src) as [[[hs ls] ps]|] eqn:R; [|discriminate].
  apply reprb_sound in R. destruct R as (E & Hh & _ & HL & W & F).
  split; [exact HL|]. exists hs, ls, ps. split; [exact E|split; [exact Hh|split; [exact W|exact F]]]. Qed.

Theorem in_domain_sound p ops : in_domain p ops = true ->
  exists hdr l pay, repr p l hdr pay /\ Forall op_ok ops.
Proof. unfold in_domain. destruct (reprb p) as [[[hdr l] pay]|] eqn:R; [|discriminate]. intros H.
  exists hdr, l, pay. split; [apply reprb_sound; exact R|].
  apply Forall_forall. intros o Ho. apply op_okb_sound. eapply forallb_forall in H; eassumption. Qed.

From Gots Require Import Proofs.AFHistory.
(* what a deciding case of the correspondence means: the recogniser accepted it, so the history theorem applies *)
Corollary in_domain_history p ops : in_domain p ops = true ->
  exists hdr l pay l', repr p l hdr pay /\ hist_rel l ops l' /\ repr (AF.run p ops) l' hdr pay.
Proof. intros H. destruct (in_domain_sound p ops H) as (hdr & l & pay & R & Hok).
  destruct (history ops p l hdr pay R Hok) as (l' & HR & R'). exists hdr, l, pay, l'. split; [exact R|split; [exact HR|exact R']]. Qed.

(* ---- completeness: the recogniser accepts every packet that encodes a logical field, and returns it ---- *)
From Gots Require Import Proofs.AFRepr Proofs.AFSetters Proofs.AFFrame.

Lemma bytes_eqb_refl a : bytes_eqb a a = true.
Proof. induction a; cbn; [reflexivity|]. rewrite N.eqb_refl. exact IHa. Qed.
Lemma is_bytesb_complete (l : bytes) : is_bytes l -> is_bytesb l = true.
Proof. unfold is_bytes, is_bytesb. intros H. apply forallb_forall. intros x Hx.
  eapply Forall_forall in H; [|exact Hx]. unfold is_byteb. apply N.ltb_lt. exact H. Qed.
Lemma opt6b_complete o : opt_bytes 6 o -> opt6b o = true.
Proof. destruct o; cbn; [|auto]. intros [H1 H2]. rewrite H1. cbn. apply is_bytesb_complete. exact H2. Qed.
Lemma wf_lafb_complete l : wf_laf l -> wf_lafb l = true.
Proof. intros (HL & Hp & Ho & Hs & Ht & He). unfold wf_lafb.
  replace (1 <=? l_len l) with true by (symmetry; apply N.leb_le; lia).
  replace (l_len l <=? 183) with true by (symmetry; apply N.leb_le; lia).
  rewrite !opt6b_complete by assumption. cbn [andb].
  destruct (l_splice l); [replace (n <? 256) with true by (symmetry; apply N.ltb_lt; exact Hs)|];
  (destruct (l_tpd l); cbn [optbb andb]; [rewrite is_bytesb_complete by exact Ht|];
   (destruct (l_ext l); cbn [optbb andb]; [rewrite is_bytesb_complete by exact He|]; reflexivity)). Qed.

Lemma take_opt6_app o r : opt_bytes 6 o -> take_opt6 (isSome o) (enc6 o ++ r) = (o, r).
Proof. destruct o as [b|]; cbn [isSome enc6 take_opt6 app]; [|reflexivity]. intros [H _].
  assert (L: len b = 6) by (unfold len; rewrite H; reflexivity).
  rewrite takeN_app by (symmetry; exact L). rewrite dropN_app by (symmetry; exact L). reflexivity. Qed.
Lemma take_opt1_app o r : take_opt1 (isSome o) (enc1 o ++ r) = (o, r).
Proof. destruct o; reflexivity. Qed.
Lemma take_optv_app o r : take_optv (isSome o) (encv o ++ r) = (o, r).
Proof. destruct o as [d|]; cbn [isSome encv take_optv app]; [|reflexivity].
  rewrite takeN_app by reflexivity. rewrite dropN_app by reflexivity. reflexivity. Qed.

Theorem reprb_complete p l hdr pay : repr p l hdr pay -> reprb p = Some (hdr, l, pay).
Proof. intros R. pose proof R as (Hp & Hh & Hb & HL & Hwf & Hf).
  destruct (repr_cpk p l hdr pay R) as (h0 & h1 & h2 & h3 & -> & Ep & Hb3 & Hpay).
  assert (G: guess_laf p = Some ([h0; h1; h2; h3], l, pay)).
  { destruct (repr_frame p l [h0; h1; h2; h3] pay R) as [_ D].
    rewrite Ep at 1. unfold cpk, pk, guess_laf.
    destruct (fl8_bits (l_disc l) (l_rai l) (l_prio l) (isSome (l_pcr l)) (isSome (l_opcr l))
      (isSome (l_splice l)) (isSome (l_tpd l)) (isSome (l_ext l))) as (b1 & b2 & b3 & b4 & b5 & b6 & b7 & b8).
    rewrite flags_fl8, b1, b2, b3, b4, b5, b6, b7, b8.
    unfold body. rewrite <- !app_assoc.
    rewrite take_opt6_app by apply Hwf. rewrite take_opt6_app by apply Hwf.
    rewrite take_opt1_app, take_optv_app, take_optv_app.
    fold (pk h0 h1 h2 h3 (l_len l) (fl8 (l_disc l) (l_rai l) (l_prio l) (isSome (l_pcr l)) (isSome (l_opcr l))
      (isSome (l_splice l)) (isSome (l_tpd l)) (isSome (l_ext l)))
      (enc6 (l_pcr l) ++ enc6 (l_opcr l) ++ enc1 (l_splice l) ++ encv (l_tpd l) ++ encv (l_ext l) ++ stuff l ++ pay)).
    rewrite <- flags_fl8.
    replace (pk h0 h1 h2 h3 (l_len l) (flags l) (enc6 (l_pcr l) ++ enc6 (l_opcr l) ++ enc1 (l_splice l) ++ encv (l_tpd l) ++ encv (l_ext l) ++ stuff l ++ pay))
      with p by (rewrite Ep; unfold cpk, body; rewrite <- !app_assoc; reflexivity).
    rewrite D. destruct l; reflexivity. }
  unfold reprb. rewrite G. rewrite <- Hp, bytes_eqb_refl.
  change (nthN [h0; h1; h2; h3] 3) with h3. rewrite Hb3, HL. cbn [Nat.eqb andb].
  rewrite wf_lafb_complete by exact Hwf. rewrite (fitsb_true l Hf). reflexivity. Qed.

Corollary reprb_iff p hdr l pay : reprb p = Some (hdr, l, pay) <-> repr p l hdr pay.
Proof. split; [apply reprb_sound|apply reprb_complete]. Qed.
