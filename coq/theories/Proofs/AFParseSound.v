From Gots Require Import Base.Prelude Model.AF Spec.AFSpec Spec.AFParse Proofs.AFLists.

Lemma bytes_eqb_eq a : forall b, bytes_eqb a b = true -> a = b.
Proof. induction a as [|x a IH]; intros [|y b] H; cbn in H; try discriminate; [reflexivity|].
  apply andb_true_iff in H. destruct H as [H1 H2]. apply N.eqb_eq in H1. subst. f_equal. apply IH. exact H2. Qed.

Lemma opt6b_ok o : opt6b o = true -> opt_bytes 6 o.
Proof. destruct o; cbn; [|auto]. intros H. apply andb_true_iff in H. destruct H as [H1 H2].
  split; [apply Nat.eqb_eq; exact H1|apply is_bytesb_ok; exact H2]. Qed.

Lemma wf_lafb_ok l : wf_lafb l = true -> wf_laf l.
Proof. unfold wf_lafb, wf_laf. intros H. repeat (apply andb_true_iff in H; destruct H as [H ?]).
  repeat split.
  - apply N.leb_le. assumption.
  - apply N.leb_le. assumption.
  - apply opt6b_ok. assumption.
  - apply opt6b_ok. assumption.
  - destruct (l_splice l); [apply N.ltb_lt; assumption|exact I].
  - destruct (l_tpd l); [apply is_bytesb_ok; assumption|exact I].
  - destruct (l_ext l); [apply is_bytesb_ok; assumption|exact I]. Qed.

Theorem reprb_sound p hdr l pay : reprb p = Some (hdr, l, pay) -> repr p l hdr pay.
Proof. unfold reprb. destruct (guess_laf p) as [[[hdr' l'] pay']|] eqn:G; [|discriminate].
  destruct (bytes_eqb p (hdr' ++ ser_laf l' ++ pay') && bit (nthN hdr' 3) 32 && Nat.eqb (length p) 188 && wf_lafb l' && fitsb l') eqn:C; [|discriminate].
  intros [= -> -> ->]. repeat (apply andb_true_iff in C; destruct C as [C ?]).
  unfold repr. split; [apply bytes_eqb_eq; assumption|]. split.
  { unfold guess_laf in G. destruct p as [|h0 [|h1 [|h2 [|h3 [|L [|fl r0]]]]]]; try discriminate.
    destruct (take_opt6 (bit fl 16) r0), (take_opt6 (bit fl 8) b), (take_opt1 (bit fl 4) b0), (take_optv (bit fl 2) b1), (take_optv (bit fl 1) b2).
    injection G as <- _ _. reflexivity. }
  split; [assumption|]. split; [apply Nat.eqb_eq; assumption|]. split; [apply wf_lafb_ok; assumption|].
  unfold fits. apply N.leb_le. assumption. Qed.

Lemma op_okb_sound o : op_okb o = true -> op_ok o.
Proof. destruct o; cbn [op_okb op_ok]; intros H; try exact I;
  try (apply N.ltb_lt; exact H); try (apply is_bytesb_ok; exact H).
  destruct (reprb src) as [[[hs ls] ps]|] eqn:R; [|discriminate].
  apply reprb_sound in R. destruct R as (E & Hh & _ & HL & W & F).
  split; [exact HL|]. exists hs, ls, ps. split; [exact E|split; [exact Hh|split; [exact W|exact F]]]. Qed.

Theorem in_domain_sound p ops : in_domain p ops = true ->
  exists hdr l pay, repr p l hdr pay /\ Forall op_ok ops.
Proof. unfold in_domain. destruct (reprb p) as [[[hdr l] pay]|] eqn:R; [|discriminate]. intros H.
  exists hdr, l, pay. split; [apply reprb_sound; exact R|].
  apply Forall_forall. intros o Ho. apply op_okb_sound. eapply forallb_forall in H; eassumption. Qed.

From Gots Require Import Proofs.AFHistory.
(* what a deciding case of the correspondence means: the recogniser accepted it, so the history theorem applies *)
Corollary in_domain_history p ops : in_domain p ops = true ->
  exists hdr l pay l', repr p l hdr pay /\ hist_rel l ops l' /\ repr (AF.run p ops) l' hdr pay.
Proof. intros H. destruct (in_domain_sound p ops H) as (hdr & l & pay & R & Hok).
  destruct (history ops p l hdr pay R Hok) as (l' & HR & R'). exists hdr, l, pay, l'. split; [exact R|split; [exact HR|exact R']]. Qed.
