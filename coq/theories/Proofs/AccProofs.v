(* Proofs for C17: the accumulator model refines the abstract accumulator of Spec/Trackers.v. *)
From Gots Require Import Base.Prelude Model.Accumulator Spec.AccSpecDef Proofs.SyncProofs Proofs.WriterProofs.
Import Accumulator AccSpec.
Local Open Scope N_scope.

Definition wf_pkt (p : bytes) : Prop := length p = 188%nat.
Definition wf_op (o : Accumulator.aop) : Prop :=
  match o with OWrite pkt => wf_pkt pkt | _ => True end.

(* ---- accessors ---- *)
Lemma idx_ok (l : bytes) (i : N) : (N.to_nat i < length l)%nat -> idx l i = Ok (nthN l i).
Proof.
  intro H. unfold idx, nthN. destruct (nth_error l (N.to_nat i)) as [x|] eqn:E.
  - rewrite (nth_error_nth _ _ 0 E). reflexivity.
  - apply nth_error_None in E. lia.
Qed.

Lemma bit_test x s : N.land x (N.shiftl (N.ones 1) s) = ((x / 2 ^ s) mod 2) * 2 ^ s.
Proof.
  rewrite land_shifted_ones, N.land_ones, N.shiftr_div_pow2, N.shiftl_mul_pow2. reflexivity.
Qed.

Lemma bit6 x : negb (N.land x 64 =? 0) = ((x / 64) mod 2 =? 1).
Proof.
  change 64 with (N.shiftl (N.ones 1) 6) at 1. rewrite bit_test. change (2 ^ 6) with 64.
  destruct (N.eqb_spec ((x / 64) mod 2 * 64) 0), (N.eqb_spec ((x / 64) mod 2) 1); try reflexivity; lia.
Qed.
Lemma bit5 x : negb (N.land x 32 =? 0) = ((x / 32) mod 2 =? 1).
Proof.
  change 32 with (N.shiftl (N.ones 1) 5) at 1. rewrite bit_test. change (2 ^ 5) with 32.
  destruct (N.eqb_spec ((x / 32) mod 2 * 32) 0), (N.eqb_spec ((x / 32) mod 2) 1); try reflexivity; lia.
Qed.
Lemma bit4 x : negb (N.land x 16 =? 0) = ((x / 16) mod 2 =? 1).
Proof.
  change 16 with (N.shiftl (N.ones 1) 4) at 1. rewrite bit_test. change (2 ^ 4) with 16.
  destruct (N.eqb_spec ((x / 16) mod 2 * 16) 0), (N.eqb_spec ((x / 16) mod 2) 1); try reflexivity; lia.
Qed.

Lemma pusi_spec pkt : wf_pkt pkt -> pusi pkt = Ok (has_pusi pkt).
Proof.
  intro H. unfold pusi. rewrite idx_ok by (rewrite H; cbn; lia). cbn [bind].
  rewrite bit6. reflexivity.
Qed.

Lemma payload_spec pkt : wf_pkt pkt ->
  payload pkt = Ok (match payload_of pkt with Some b => inl b | None => inr (payload_err pkt) end).
Proof.
  intro H. unfold wf_pkt in H.
  unfold payload, contains_payload, payload_start, contains_af, payload_of, payload_err, has_payload, has_af.
  rewrite !idx_ok by (rewrite H; cbn; lia). cbn [bind]. rewrite bit4, bit5.
  destruct ((nthN pkt 3 / 16) mod 2 =? 1); cbn [negb]; [|reflexivity].
  assert (Hlen : len pkt = 188) by (unfold len; rewrite H; reflexivity).
  destruct ((nthN pkt 3 / 32) mod 2 =? 1).
  - cbn [bind]. rewrite Hlen.
    replace (4 + (1 + nthN pkt 4)) with (5 + nthN pkt 4) by lia.
    destruct (N.ltb_spec 188 (5 + nthN pkt 4)) as [Hs|Hs]; [reflexivity|].
    rewrite slice_from_skipn by (rewrite Hlen; exact Hs). reflexivity.
  - cbn [bind]. rewrite Hlen. change (188 <? 4) with false. cbv iota.
    rewrite slice_from_skipn by (rewrite Hlen; lia). reflexivity.
Qed.

Lemma bytes_of_snoc ps pkt : bytes_of (ps ++ [pkt]) = bytes_of ps ++ payload_bytes pkt.
Proof.
  unfold bytes_of. rewrite map_app, concat_app. cbn [map concat]. rewrite app_nil_r. reflexivity.
Qed.

(* ---- refinement relation ---- *)
Definition R (a : acc) (s : astate) : Prop :=
  match s with
  | ANone => state a = stateStarting /\ packets a = [] /\ buf a = []
  | AAcc ps => state a = stateAccumulating /\ packets a = ps /\ buf a = bytes_of ps
  | ADone ps => state a = stateDone /\ packets a = ps /\ buf a = bytes_of ps
  end.

Lemma R_new : R new_acc ANone.
Proof. cbn. auto. Qed.

Lemma R_obs a s : R a s -> get_bytes a = a_bytes s /\ get_packets a = a_packets s.
Proof.
  destruct s as [|ps|ps]; cbn; intros [_ [Hp Hb]]; unfold get_bytes, get_packets, a_bytes; cbn;
    rewrite Hp, Hb; auto.
Qed.

Lemma add_packet_spec f a ps pkt : wf_pkt pkt ->
  state a = stateAccumulating -> packets a = ps -> buf a = bytes_of ps ->
  exists a', add_packet f a pkt = Ok (a', (188%Z, snd (a_add f ps pkt))) /\ R a' (fst (a_add f ps pkt)).
Proof.
  intros Hw Hs Hp Hb. unfold add_packet, a_add. rewrite payload_spec by exact Hw. cbn [bind].
  pose proof (bytes_of_snoc ps pkt) as Hsn. unfold payload_bytes in Hsn.
  destruct (payload_of pkt) as [b|] eqn:Hpay.
  - cbn [buf packets state]. rewrite Hb, Hp, <- Hsn.
    destruct (f (bytes_of (ps ++ [pkt]))) as [[|] [e|]]; eexists; (split; [reflexivity|]);
      cbn; rewrite ?Hs; auto.
  - rewrite app_nil_r in Hsn. eexists. split; [reflexivity|]. cbn. rewrite Hs, Hp, Hb, Hsn. auto.
Qed.

Lemma write_packet_spec f a s pkt : wf_pkt pkt -> R a s ->
  exists a', write_packet f a pkt
             = Ok (a', (match s with ADone _ => 0%Z | _ => 188%Z end, snd (a_write f s pkt)))
             /\ R a' (fst (a_write f s pkt)).
Proof.
  intros Hw HR. unfold write_packet, a_write.
  destruct s as [|ps|ps]; cbn [R] in HR; destruct HR as [Hs [Hp Hb]]; rewrite Hs.
  - change (stateStarting =? stateStarting) with true. cbv iota.
    unfold write_starting. rewrite pusi_spec by exact Hw. cbn [bind].
    destruct (has_pusi pkt); cbn [negb].
    + apply add_packet_spec; auto.
    + eexists. split; [reflexivity|]. cbn. auto.
  - change (stateAccumulating =? stateStarting) with false.
    change (stateAccumulating =? stateAccumulating) with true. cbv iota.
    rewrite pusi_spec by exact Hw. cbn [bind].
    destruct (has_pusi pkt) eqn:Hpu.
    + unfold write_starting. rewrite pusi_spec by exact Hw. cbn [bind]. rewrite Hpu. cbn [negb].
      apply add_packet_spec; auto.
    + apply add_packet_spec; auto.
  - change (stateDone =? stateStarting) with false. change (stateDone =? stateAccumulating) with false.
    change (stateDone =? stateDone) with true. cbv iota.
    eexists. split; [reflexivity|]. cbn. auto.
Qed.

(* ---- the refinement theorem: every operation list, every predicate ---- *)
Definition abs_op (o : Accumulator.aop) : AccSpec.aop :=
  match o with OWrite p => AWrite p | OReset => AReset | OBytes => ABytes | OPackets => APackets end.
Definition abs_out (r : aout) : aobs :=
  match r with RWrite _ e => SWrite e | RReset => SReset | RBytes b => SBytes b | RPackets ps => SPackets ps end.

Lemma refines_from f : forall ops a s, R a s -> Forall wf_op ops ->
  exists outs, run f a ops = Ok outs /\ map abs_out outs = a_run f s (map abs_op ops).
Proof.
  induction ops as [|o t IH]; intros a s HR Hwf.
  - exists []. split; reflexivity.
  - inversion Hwf as [|? ? Ho Ht]; subst. cbn [run map a_run].
    destruct o as [pkt| | |]; cbn [step abs_op a_step].
    + destruct (write_packet_spec f a s pkt Ho HR) as [a' [Hwp HR']]. rewrite Hwp. cbn [bind fst snd].
      destruct (a_write f s pkt) as [s' e] eqn:Haw. cbn [fst snd] in *.
      destruct (IH a' s' HR' Ht) as [outs [Hrun Hmap]]. rewrite Hrun. cbn [bind].
      eexists. split; [reflexivity|]. cbn [map abs_out]. rewrite Hmap. reflexivity.
    + cbn [bind]. destruct (IH (reset a) ANone R_new Ht) as [outs [Hrun Hmap]]. rewrite Hrun. cbn [bind].
      eexists. split; [reflexivity|]. cbn [map abs_out]. rewrite Hmap. reflexivity.
    + cbn [bind]. destruct (IH a s HR Ht) as [outs [Hrun Hmap]]. rewrite Hrun. cbn [bind].
      eexists. split; [reflexivity|]. cbn [map abs_out]. rewrite Hmap.
      destruct (R_obs a s HR) as [Hb _]. rewrite Hb. reflexivity.
    + cbn [bind]. destruct (IH a s HR Ht) as [outs [Hrun Hmap]]. rewrite Hrun. cbn [bind].
      eexists. split; [reflexivity|]. cbn [map abs_out]. rewrite Hmap.
      destruct (R_obs a s HR) as [_ Hp]. rewrite Hp. reflexivity.
Qed.

Lemma refines f ops : Forall wf_op ops ->
  exists outs, run f new_acc ops = Ok outs /\ map abs_out outs = a_run f ANone (map abs_op ops).
Proof. intro H. exact (refines_from f ops new_acc ANone R_new H). Qed.

(* C05: the accumulator entry points are total for every predicate oracle *)
Lemma run_total f ops : Forall wf_op ops ->
  run f new_acc ops <> Panic /\ run f new_acc ops <> Diverge.
Proof.
  intro H. destruct (refines f ops H) as [outs [Hr _]]. rewrite Hr. split; discriminate.
Qed.

(* the int result of WritePacket: 0 when refused after completion, 188 otherwise *)
Lemma write_count f a s pkt : wf_pkt pkt -> R a s ->
  exists a' e, write_packet f a pkt = Ok (a', (match s with ADone _ => 0%Z | _ => 188%Z end, e)).
Proof.
  intros Hw HR. destruct (write_packet_spec f a s pkt Hw HR) as [a' [H _]]. eauto.
Qed.

(* after Reset the accumulator is a new accumulator *)
Lemma reset_fresh f a ops : run f a (OReset :: ops) = let? rs := run f new_acc ops in Ok (RReset :: rs).
Proof. reflexivity. Qed.

(* ---- clause lemmas ---- *)
(* the state reached by an operation list *)
Fixpoint exec (f : pred) (a : acc) (ops : list Accumulator.aop) : Res acc :=
  match ops with
  | [] => Ok a
  | o :: t => let? (a', _) := step f a o in exec f a' t
  end.

Lemma exec_R f : forall ops a s, R a s -> Forall wf_op ops -> exists a' s', exec f a ops = Ok a' /\ R a' s'.
Proof.
  induction ops as [|o t IH]; intros a s HR Hwf; [exists a, s; auto|].
  inversion Hwf as [|? ? Ho Ht]; subst. cbn [exec].
  destruct o as [pkt| | |]; cbn [step bind].
  - destruct (write_packet_spec f a s pkt Ho HR) as [a' [Hwp HR']]. rewrite Hwp. cbn [bind].
    exact (IH _ _ HR' Ht).
  - exact (IH _ _ R_new Ht).
  - exact (IH _ _ HR Ht).
  - exact (IH _ _ HR Ht).
Qed.

(* in every reachable state the buffer is the concatenation of the payloads of the listed packets *)
Lemma bytes_are_payloads f ops : Forall wf_op ops ->
  exists a, exec f new_acc ops = Ok a /\ get_bytes a = bytes_of (get_packets a).
Proof.
  intro H. destruct (exec_R f ops new_acc ANone R_new H) as [a [s [He HR]]].
  exists a. split; [exact He|]. destruct (R_obs a s HR) as [Hb Hp]. rewrite Hb, Hp. reflexivity.
Qed.

(* refused until the first unit start: nothing is accumulated *)
Lemma refused_before_first_pusi f : forall pkts,
  Forall wf_pkt pkts -> Forall (fun p => has_pusi p = false) pkts ->
  run f new_acc (map OWrite pkts ++ [OBytes; OPackets])
  = Ok (map (fun _ => RWrite 188%Z (Some E.NoPayloadUnitStartIndicator)) pkts ++ [RBytes []; RPackets []]).
Proof.
  induction pkts as [|p t IH]; intros Hw Hn; [reflexivity|].
  inversion Hw as [|? ? Hp Ht]; subst. inversion Hn as [|? ? Hpn Htn]; subst.
  cbn [map app run step]. unfold write_packet. cbn [state new_acc].
  change (stateStarting =? stateStarting) with true. cbv iota.
  unfold write_starting. rewrite pusi_spec by exact Hp. cbn [bind]. rewrite Hpn. cbn [negb bind fst snd].
  fold new_acc. rewrite (IH Ht Htn). reflexivity.
Qed.

(* a unit start discards what was accumulated: from then on the accumulator behaves as a new one
   given the same packet *)
Lemma pusi_restarts f a ps pkt ops : R a (AAcc ps) -> wf_pkt pkt -> has_pusi pkt = true -> Forall wf_op ops ->
  exists o1 o2, run f a (OWrite pkt :: ops) = Ok o1 /\ run f new_acc (OWrite pkt :: ops) = Ok o2 /\
                map abs_out o1 = map abs_out o2.
Proof.
  intros HR Hw Hp Hops.
  assert (Hall : Forall wf_op (OWrite pkt :: ops)) by (constructor; [exact Hw|exact Hops]).
  destruct (refines_from f (OWrite pkt :: ops) a (AAcc ps) HR Hall) as [o1 [H1 M1]].
  destruct (refines_from f (OWrite pkt :: ops) new_acc ANone R_new Hall) as [o2 [H2 M2]].
  exists o1, o2. repeat split; auto. rewrite M1, M2. cbn [map abs_op a_run a_step a_write]. rewrite Hp. reflexivity.
Qed.

(* refused once complete, state unchanged *)
Lemma done_refuses f a pkt : state a = stateDone ->
  write_packet f a pkt = Ok (a, (0%Z, Some E.AccumulatorDone)).
Proof. intro H. unfold write_packet. rewrite H. reflexivity. Qed.

(* completion exactly at the first packet after which the predicate holds (abstract machine):
   a unit start p0 followed by continuation packets, all with payload, predicate without errors *)
Definition unit_ok (p : bytes) : Prop := payload_of p <> None.

Lemma a_run_accumulate f : forall rest pre,
  Forall (fun p => has_pusi p = false /\ unit_ok p) rest ->
  (forall j, (j < length rest)%nat -> f (bytes_of (pre ++ firstn (S j) rest)) = (false, None)) ->
  forall tl, a_run f (AAcc pre) (map AWrite rest ++ tl)
  = map (fun _ => SWrite None) rest ++ a_run f (AAcc (pre ++ rest)) tl.
Proof.
  induction rest as [|p t IH]; intros pre Hr Hf tl.
  - cbn [map app]. rewrite app_nil_r. reflexivity.
  - inversion Hr as [|? ? [Hpu Hok] Ht]; subst. cbn [map app a_run a_step a_write]. rewrite Hpu.
    unfold a_add. unfold unit_ok in Hok. destruct (payload_of p) as [b|]; [|contradiction].
    pose proof (Hf O ltac:(cbn; lia)) as H0. cbn [firstn] in H0. rewrite H0.
    rewrite (IH (pre ++ [p]) Ht).
    + rewrite <- app_assoc. reflexivity.
    + intros j Hj. specialize (Hf (S j) ltac:(cbn; lia)). cbn [firstn] in Hf.
      rewrite <- app_assoc. exact Hf.
Qed.

Lemma done_exactly_first f p0 before p after :
  has_pusi p0 = true -> unit_ok p0 ->
  Forall (fun q => has_pusi q = false /\ unit_ok q) (before ++ [p]) ->
  (forall j, (j <= length before)%nat -> f (bytes_of (firstn (S j) (p0 :: before))) = (false, None)) ->
  f (bytes_of (p0 :: before ++ [p])) = (true, None) ->
  a_run f ANone (map AWrite (p0 :: before ++ [p] ++ after) ++ [ABytes; APackets])
  = map (fun _ => SWrite None) (p0 :: before) ++ [SWrite (Some E.AccumulatorDone)]
    ++ map (fun _ => SWrite (Some E.AccumulatorDone)) after
    ++ [SBytes (bytes_of (p0 :: before ++ [p])); SPackets (p0 :: before ++ [p])].
Proof.
  intros Hp0 Hok0 Hrest Hf Hdone.
  apply Forall_app in Hrest. destruct Hrest as [Hb Hp]. inversion Hp as [|? ? [Hpp Hokp] _]; subst.
  cbn [map app a_run a_step a_write]. rewrite Hp0. unfold a_add at 1.
  unfold unit_ok in Hok0. destruct (payload_of p0) as [b0|]; [|contradiction].
  pose proof (Hf O ltac:(lia)) as H0. cbn [firstn app] in H0. cbn [app]. rewrite H0.
  rewrite map_app, <- app_assoc.
  rewrite (a_run_accumulate f before [p0] Hb).
  2:{ intros j Hj. specialize (Hf (S j) ltac:(lia)). cbn [firstn] in Hf. exact Hf. }
  f_equal. f_equal. cbn [map app a_run a_step a_write]. rewrite Hpp. unfold a_add.
  unfold unit_ok in Hokp. destruct (payload_of p) as [b|]; [|contradiction].
  cbn [app] in Hdone |- *. rewrite Hdone. f_equal.
  induction after as [|q t IHa]; [reflexivity|].
  cbn [map app a_run a_step a_write]. f_equal. exact IHa.
Qed.

(* the same on the model, through the refinement *)
Lemma done_exactly_first_model f p0 before p after :
  Forall wf_pkt (p0 :: before ++ [p] ++ after) ->
  has_pusi p0 = true -> unit_ok p0 ->
  Forall (fun q => has_pusi q = false /\ unit_ok q) (before ++ [p]) ->
  (forall j, (j <= length before)%nat -> f (bytes_of (firstn (S j) (p0 :: before))) = (false, None)) ->
  f (bytes_of (p0 :: before ++ [p])) = (true, None) ->
  exists outs,
    run f new_acc (map OWrite (p0 :: before ++ [p] ++ after) ++ [OBytes; OPackets]) = Ok outs /\
    map abs_out outs
    = map (fun _ => SWrite None) (p0 :: before) ++ [SWrite (Some E.AccumulatorDone)]
      ++ map (fun _ => SWrite (Some E.AccumulatorDone)) after
      ++ [SBytes (bytes_of (p0 :: before ++ [p])); SPackets (p0 :: before ++ [p])].
Proof.
  intros Hwf Hp0 Hok0 Hrest Hf Hdone.
  assert (Hops : Forall wf_op (map OWrite (p0 :: before ++ [p] ++ after) ++ [OBytes; OPackets])).
  { apply Forall_app. split.
    - apply Forall_forall. intros o Ho. apply in_map_iff in Ho. destruct Ho as [q [<- Hq]].
      cbn [wf_op]. rewrite Forall_forall in Hwf. exact (Hwf q Hq).
    - repeat constructor. }
  destruct (refines f _ Hops) as [outs [Hrun Hmap]].
  exists outs. split; [exact Hrun|]. rewrite Hmap.
  rewrite map_app, map_map. cbn [map abs_op].
  change (map (fun x : bytes => abs_op (OWrite x))) with (map AWrite).
  exact (done_exactly_first f p0 before p after Hp0 Hok0 Hrest Hf Hdone).
Qed.

(* ---- C05, memory: what the accumulator holds is bounded by what was written ---- *)
Definition writes (ops : list Accumulator.aop) : nat :=
  length (filter (fun o => match o with OWrite _ => true | _ => false end) ops).

Lemma payload_bytes_bound pkt : wf_pkt pkt -> (length (payload_bytes pkt) <= 184)%nat.
Proof.
  intro H. unfold payload_bytes, payload_of.
  destruct (negb (has_payload pkt)); [cbn; lia|].
  destruct (188 <? (if has_af pkt then 5 + nthN pkt 4 else 4)) eqn:E0; [cbn; lia|].
  unfold dropN. rewrite skipn_length, H. apply N.ltb_ge in E0.
  destruct (has_af pkt); lia.
Qed.

Lemma bytes_of_bound ps : Forall wf_pkt ps -> (length (bytes_of ps) <= 184 * length ps)%nat.
Proof.
  induction ps as [|p t IH]; intro H; [cbn; lia|].
  inversion H as [|? ? Hp Ht]; subst. unfold bytes_of in *. cbn [map concat length].
  rewrite app_length. pose proof (payload_bytes_bound p Hp). specialize (IH Ht). lia.
Qed.

Lemma a_write_packets f s pkt :
  a_packets (fst (a_write f s pkt)) = a_packets s \/
  a_packets (fst (a_write f s pkt)) = a_packets s ++ [pkt] \/
  a_packets (fst (a_write f s pkt)) = [pkt].
Proof.
  assert (Hadd : forall ps, a_packets (fst (a_add f ps pkt)) = ps ++ [pkt]).
  { intro ps. unfold a_add. destruct (payload_of pkt); [|reflexivity].
    destruct (f (bytes_of (ps ++ [pkt]))) as [[|] [e|]]; reflexivity. }
  destruct s as [|ps|ps]; cbn [a_write a_packets].
  - destruct (has_pusi pkt); [right; right; rewrite Hadd; reflexivity|left; reflexivity].
  - destruct (has_pusi pkt); [right; right; rewrite Hadd; reflexivity|right; left; apply Hadd].
  - left. reflexivity.
Qed.

Lemma exec_bound f : forall ops a s n0, R a s -> Forall wf_op ops ->
  Forall wf_pkt (a_packets s) -> (length (a_packets s) <= n0)%nat ->
  exists a', exec f a ops = Ok a' /\ Forall wf_pkt (get_packets a') /\
             (length (get_packets a') <= n0 + writes ops)%nat /\
             (length (get_bytes a') <= 184 * length (get_packets a'))%nat.
Proof.
  induction ops as [|o t IH]; intros a s n0 HR Hwf Hps Hn.
  - exists a. destruct (R_obs a s HR) as [Hb Hp]. cbn [exec]. split; [reflexivity|].
    rewrite Hp, Hb. unfold a_bytes, writes. cbn [filter length].
    split; [exact Hps|]. split; [lia|]. apply bytes_of_bound. exact Hps.
  - inversion Hwf as [|? ? Ho Ht]; subst. cbn [exec].
    destruct o as [pkt| | |]; cbn [step bind].
    + destruct (write_packet_spec f a s pkt Ho HR) as [a1 [Hwp HR1]]. rewrite Hwp. cbn [bind].
      assert (Hps1 : Forall wf_pkt (a_packets (fst (a_write f s pkt))) /\
                     (length (a_packets (fst (a_write f s pkt))) <= S n0)%nat).
      { destruct (a_write_packets f s pkt) as [E0|[E0|E0]]; rewrite E0.
        - split; [exact Hps|lia].
        - split; [apply Forall_app; split; [exact Hps|constructor; [exact Ho|constructor]]|].
          rewrite app_length. cbn [length]. lia.
        - split; [constructor; [exact Ho|constructor]|cbn [length]; lia]. }
      destruct Hps1 as [Hw1 Hl1].
      destruct (IH a1 _ (S n0) HR1 Ht Hw1 Hl1) as [a' [He [Hw' [Hl' Hb']]]].
      exists a'. split; [exact He|]. split; [exact Hw'|]. split; [|exact Hb'].
      unfold writes in *. cbn [filter length]. lia.
    + destruct (IH (reset a) ANone n0 R_new Ht ltac:(constructor) ltac:(cbn; lia)) as [a' [He [Hw' [Hl' Hb']]]].
      exists a'. split; [exact He|]. split; [exact Hw'|]. split; [|exact Hb']. unfold writes in *. cbn [filter]. exact Hl'.
    + destruct (IH a s n0 HR Ht Hps Hn) as [a' [He [Hw' [Hl' Hb']]]].
      exists a'. split; [exact He|]. split; [exact Hw'|]. split; [|exact Hb']. unfold writes in *. cbn [filter]. exact Hl'.
    + destruct (IH a s n0 HR Ht Hps Hn) as [a' [He [Hw' [Hl' Hb']]]].
      exists a'. split; [exact He|]. split; [exact Hw'|]. split; [|exact Hb']. unfold writes in *. cbn [filter]. exact Hl'.
Qed.

Lemma memory_bound f ops : Forall wf_op ops ->
  exists a, exec f new_acc ops = Ok a /\
            (length (get_packets a) <= writes ops)%nat /\
            (length (get_bytes a) <= 184 * writes ops)%nat.
Proof.
  intro H. destruct (exec_bound f ops new_acc ANone 0 R_new H ltac:(constructor) ltac:(cbn; lia))
    as [a [He [_ [Hl Hb]]]].
  exists a. split; [exact He|]. split; [lia|]. lia.
Qed.
