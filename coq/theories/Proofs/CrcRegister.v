(* C13: the augmented register of tsutils.go:ComputeCRC (Model/Crc.v) is the textbook
   CRC-32/MPEG-2 register (Spec/Crc32.v) on every byte string; residue zero.
   Crux (design spike notes/spikes/Crc_register.v): the zero-step a0 of the augmented register
   is GF(2)-linear, hence z32 := a0^32 turns an augmented step into a textbook step. *)
From Gots Require Import Base.Prelude Model.Crc Spec.Crc32.
Local Open Scope N_scope.

Definition mask : N := 4294967295.
Definition poly : N := 79764919.
Definition msbit (r : N) : bool := N.testbit r 31.

(* one inner-loop iteration of ComputeCRC, message bit as a boolean *)
Definition astep (r : N) (b : bool) : N :=
  let r' := N.lor (N.land (N.shiftl r 1) mask) (N.b2n b) in
  if msbit r then N.lxor r' poly else r'.
(* textbook step, in bit-operation form *)
Definition dstep (r : N) (b : bool) : N :=
  let r' := N.land (N.shiftl r 1) mask in
  if xorb (msbit r) b then N.lxor r' poly else r'.
Definition a0 (r : N) := astep r false.

Lemma land_lxor_distr_l a b c : N.land (N.lxor a b) c = N.lxor (N.land a c) (N.land b c).
Proof. apply N.bits_inj; intro n. rewrite !N.land_spec, !N.lxor_spec, !N.land_spec.
  destruct (N.testbit a n), (N.testbit b n), (N.testbit c n); reflexivity. Qed.

Lemma a0_lin r s : a0 (N.lxor r s) = N.lxor (a0 r) (a0 s).
Proof.
  unfold a0, astep, msbit. cbn [N.b2n]. rewrite !N.lor_0_r.
  rewrite N.shiftl_lxor, land_lxor_distr_l, N.lxor_spec.
  destruct (N.testbit r 31), (N.testbit s 31); cbn [xorb].
  - rewrite N.lxor_assoc, (N.lxor_comm poly), <- !N.lxor_assoc.
    rewrite (N.lxor_assoc _ poly poly), N.lxor_nilpotent, N.lxor_0_r. reflexivity.
  - rewrite !N.lxor_assoc. f_equal. apply N.lxor_comm.
  - rewrite !N.lxor_assoc. reflexivity.
  - reflexivity.
Qed.

Definition z32 := Crc.iter 32 a0.

Lemma iter_lin n : forall r s, Crc.iter n a0 (N.lxor r s) = N.lxor (Crc.iter n a0 r) (Crc.iter n a0 s).
Proof. induction n as [|n IH]; intros; cbn [Crc.iter]; [reflexivity|]. rewrite a0_lin. apply IH. Qed.
Lemma iter_comm n f x : Crc.iter n f (f x) = f (Crc.iter n f x).
Proof. revert x; induction n as [|n IH]; intros; cbn [Crc.iter]; [reflexivity|]. apply IH. Qed.
Lemma iter_ext n f g : (forall x, f x = g x) -> forall x, Crc.iter n f x = Crc.iter n g x.
Proof. intros H. induction n as [|n IH]; intros; cbn [Crc.iter]; [reflexivity|]. rewrite H. apply IH. Qed.

(* the low bit of the shifted register is clear, so OR-ing the message bit is XOR-ing it *)
Lemma shl_low_clear r : N.testbit (N.land (N.shiftl r 1) mask) 0 = false.
Proof. rewrite N.land_spec, N.shiftl_spec_low by lia. reflexivity. Qed.
Lemma lor_bit x b : N.testbit x 0 = false -> N.lor x (N.b2n b) = N.lxor x (N.b2n b).
Proof. intros H. symmetry. apply N.lxor_lor. apply N.bits_inj; intro n.
  rewrite N.land_spec, N.bits_0. destruct b; cbn [N.b2n].
  - destruct (N.eq_dec n 0) as [->|Hn]; [rewrite H; reflexivity|].
    replace (N.testbit 1 n) with false; [apply andb_false_r|].
    symmetry. apply (N.bits_above_log2 1 n). cbn. lia.
  - rewrite N.bits_0. apply andb_false_r. Qed.

Lemma astep_split r b : astep r b = N.lxor (a0 r) (N.b2n b).
Proof. unfold a0, astep. cbn [N.b2n]. rewrite N.lor_0_r, (lor_bit _ b (shl_low_clear r)).
  destruct (msbit r); [|reflexivity].
  rewrite !N.lxor_assoc. f_equal. apply N.lxor_comm. Qed.

Lemma z32_one : z32 1 = poly. Proof. vm_compute. reflexivity. Qed.
Lemma z32_zero : z32 0 = 0. Proof. vm_compute. reflexivity. Qed.

Lemma dstep_a0 s b : dstep s b = N.lxor (a0 s) (if b then poly else 0).
Proof. unfold dstep, a0, astep. cbn [N.b2n]. rewrite N.lor_0_r.
  destruct (msbit s), b; cbn [xorb]; rewrite ?N.lxor_0_r; try reflexivity.
  rewrite N.lxor_assoc, N.lxor_nilpotent, N.lxor_0_r. reflexivity. Qed.

(* the crux: 32 zero-steps of the augmented register turn an augmented step into a textbook step *)
Lemma commute r b : z32 (astep r b) = dstep (z32 r) b.
Proof. rewrite astep_split. unfold z32. rewrite iter_lin, iter_comm, dstep_a0.
  f_equal. destruct b; cbn [N.b2n]; [apply z32_one | apply z32_zero]. Qed.

(* stated for an abstract Z so that the kernel never unfolds the 32-fold iterate on a variable *)
Section Simulation.
  Variable Z : N -> N.
  Hypothesis Zc : forall r b, Z (astep r b) = dstep (Z r) b.
  Lemma simulation bits : forall r, Z (fold_left astep bits r) = fold_left dstep bits (Z r).
  Proof. induction bits as [|b bits IH]; intro r; [reflexivity|].
    cbn [fold_left]. rewrite IH, Zc. reflexivity. Qed.
End Simulation.

Lemma augmented_is_textbook bits r : z32 (fold_left astep bits r) = fold_left dstep bits (z32 r).
Proof. exact (simulation z32 commute bits r). Qed.

Lemma init_ok : z32 Crc.init = Crc32.init.   (* 0x46AF6449 |-> 0xFFFFFFFF *)
Proof. vm_compute. reflexivity. Qed.

(* ---- the model of the Go code, statement by statement, is astep / a0 ---- *)
Lemma land_pow2 r n : N.land r (2 ^ n) = if N.testbit r n then 2 ^ n else 0.
Proof. apply N.bits_inj; intro m. rewrite N.land_spec, N.pow2_bits_eqb.
  destruct (N.eqb_spec n m) as [->|Hne].
  - destruct (N.testbit r m); [rewrite N.pow2_bits_true; reflexivity | rewrite N.bits_0; reflexivity].
  - rewrite andb_false_r. destruct (N.testbit r n); [|rewrite N.bits_0; reflexivity].
    rewrite N.pow2_bits_eqb. symmetry. apply N.eqb_neq. exact Hne. Qed.
Lemma top_test r : (N.land r Crc.msb =? 0) = negb (msbit r).
Proof. unfold Crc.msb, msbit. change 2147483648 with (2 ^ 31). rewrite land_pow2.
  destruct (N.testbit r 31); reflexivity. Qed.
Lemma land_one x : N.land x 1 = x mod 2.
Proof. change 1 with (N.ones 1). rewrite N.land_ones. reflexivity. Qed.
Lemma bit_pick item k : N.land (N.shiftr item k) 1 = N.b2n (N.testbit item k).
Proof. rewrite land_one, <- N.bit0_mod, N.shiftr_spec', N.add_0_l. reflexivity. Qed.

Lemma inner_astep crc item j : Crc.inner crc item j = astep crc (N.testbit item (7 - j)).
Proof. unfold Crc.inner, astep. rewrite top_test, bit_pick. destruct (msbit crc); reflexivity. Qed.
Lemma trail_a0 crc : Crc.trail crc = a0 crc.
Proof. unfold Crc.trail, a0, astep. rewrite top_test. cbn [N.b2n]. rewrite N.lor_0_r.
  destruct (msbit crc); reflexivity. Qed.
Lemma byte_loop_astep crc item : Crc.byte_loop crc item = fold_left astep (Crc32.bits_of_byte item) crc.
Proof. unfold Crc.byte_loop, Crc32.bits_of_byte. cbn [fold_left]. rewrite !inner_astep. reflexivity. Qed.
Lemma fold_left_flat_map {A B C} (f : A -> B -> A) (g : C -> list B) l : forall a,
  fold_left f (flat_map g l) a = fold_left (fun a x => fold_left f (g x) a) l a.
Proof. induction l as [|x l IH]; intro a; [reflexivity|].
  cbn [flat_map fold_left]. rewrite fold_left_app. apply IH. Qed.
Lemma fold_left_ext {A B} (f g : A -> B -> A) : (forall a b, f a b = g a b) ->
  forall l a, fold_left f l a = fold_left g l a.
Proof. intros H l. induction l as [|x l IH]; intro a; [reflexivity|]. cbn [fold_left]. rewrite H. apply IH. Qed.
Lemma input_loop_astep bs : forall crc, Crc.input_loop crc bs = fold_left astep (Crc32.bits_of bs) crc.
Proof. intro crc. unfold Crc.input_loop, Crc32.bits_of. rewrite fold_left_flat_map.
  apply fold_left_ext. intros. apply byte_loop_astep. Qed.
Lemma trail_loop_z32 crc : Crc.trail_loop crc = z32 crc.
Proof. exact (iter_ext 32 Crc.trail a0 trail_a0 crc). Qed.

(* ---- the textbook step of Spec/Crc32.v in bit-operation form ---- *)
Lemma spec_step_dstep r b : Crc32.step r b = dstep r b.
Proof. unfold Crc32.step, dstep, msbit, Crc32.poly, poly.
  replace ((2 * r) mod 4294967296) with (N.land (N.shiftl r 1) mask); [reflexivity|].
  unfold mask. change 4294967295 with (N.ones 32). rewrite N.land_ones, N.shiftl_mul_pow2.
  change (2 ^ 32) with 4294967296. change (2 ^ 1) with 2. rewrite N.mul_comm. reflexivity. Qed.

(* ---- main theorem: for ALL byte strings ---- *)
Theorem compute_crc_word_is_mpeg2 bs : Crc.compute_crc_word bs = Crc32.crc bs.
Proof. unfold Crc.compute_crc_word, Crc32.crc, Crc32.register.
  rewrite trail_loop_z32, input_loop_astep, augmented_is_textbook, init_ok.
  symmetry. apply fold_left_ext. exact spec_step_dstep. Qed.

Theorem compute_crc_is_mpeg2 bs : Crc.compute_crc bs = to_be32 (Crc32.crc bs).
Proof. unfold Crc.compute_crc. rewrite compute_crc_word_is_mpeg2. reflexivity. Qed.

(* ---- residue: clocking the register's own contents through it, MSB first, empties it ---- *)
Fixpoint nseq (k : N) (n : nat) : list N := match n with O => [] | S m => k :: nseq (k + 1) m end.
Definition bits32 (r : N) : list bool := map (fun i => N.testbit r (31 - i)) (nseq 0 32).

Lemma own_bits r : forall n k, k + N.of_nat n <= 32 ->
  Crc32.register ((r * 2 ^ k) mod 4294967296) (map (fun i => N.testbit r (31 - i)) (nseq k n))
  = (r * 2 ^ (k + N.of_nat n)) mod 4294967296.
Proof. induction n as [|n IH]; intros k Hk.
  - cbn [nseq map Crc32.register fold_left N.of_nat]. rewrite N.add_0_r. reflexivity.
  - cbn [nseq map]. unfold Crc32.register. cbn [fold_left]. fold (Crc32.register).
    assert (Hs: Crc32.step ((r * 2 ^ k) mod 4294967296) (N.testbit r (31 - k)) = (r * 2 ^ (k + 1)) mod 4294967296).
    { unfold Crc32.step. change 4294967296 with (2 ^ 32).
      rewrite N.mod_pow2_bits_low by lia. rewrite N.mul_pow2_bits_high by lia.
      rewrite xorb_nilpotent. rewrite N.mul_mod_idemp_r by (apply N.pow_nonzero; lia).
      rewrite N.pow_add_r. change (2 ^ 1) with 2. f_equal. lia. }
    unfold Crc32.register in *. rewrite Hs. rewrite IH by lia. f_equal. f_equal. f_equal. lia. Qed.

Lemma register_own_bits r : Crc32.register (r mod 4294967296) (bits32 r) = 0.
Proof. pose proof (own_bits r 32 0) as H. change (2 ^ 0) with 1 in H. rewrite N.mul_1_r in H.
  unfold bits32. rewrite H by (cbn; lia). change (0 + N.of_nat 32) with 32.
  change 4294967296 with (2 ^ 32). apply N.mod_mul. apply N.pow_nonzero. lia. Qed.

Lemma bit_b0 r m : m < 8 -> N.testbit ((r / 16777216) mod 256) m = N.testbit r (m + 24).
Proof. intro H. change 16777216 with (2 ^ 24). change 256 with (2 ^ 8).
  rewrite N.mod_pow2_bits_low by exact H. apply N.div_pow2_bits. Qed.
Lemma bit_b1 r m : m < 8 -> N.testbit ((r / 65536) mod 256) m = N.testbit r (m + 16).
Proof. intro H. change 65536 with (2 ^ 16). change 256 with (2 ^ 8).
  rewrite N.mod_pow2_bits_low by exact H. apply N.div_pow2_bits. Qed.
Lemma bit_b2 r m : m < 8 -> N.testbit ((r / 256) mod 256) m = N.testbit r (m + 8).
Proof. intro H. change (r / 256) with (r / 2 ^ 8). change 256 with (2 ^ 8).
  rewrite N.mod_pow2_bits_low by exact H. apply N.div_pow2_bits. Qed.
Lemma bit_b3 r m : m < 8 -> N.testbit (r mod 256) m = N.testbit r m.
Proof. intro H. change 256 with (2 ^ 8). apply N.mod_pow2_bits_low. exact H. Qed.

Lemma bits_of_be32 r : Crc32.bits_of (to_be32 r) = bits32 r.
Proof. unfold Crc32.bits_of, to_be32, Crc32.bits_of_byte, bits32. cbn [flat_map app nseq map].
  rewrite !bit_b0, !bit_b1, !bit_b2, !bit_b3 by lia. reflexivity. Qed.

Lemma step_low32 r b : Crc32.step (r mod 4294967296) b = Crc32.step r b.
Proof. unfold Crc32.step. change 4294967296 with (2 ^ 32). rewrite N.mod_pow2_bits_low by lia.
  rewrite N.mul_mod_idemp_r by (apply N.pow_nonzero; lia). reflexivity. Qed.
Lemma register_low32 r b bits :
  Crc32.register (r mod 4294967296) (b :: bits) = Crc32.register r (b :: bits).
Proof. unfold Crc32.register; cbn [fold_left]; rewrite step_low32; reflexivity. Qed.

Lemma register_app r b1 b2 : Crc32.register r (b1 ++ b2) = Crc32.register (Crc32.register r b1) b2.
Proof. unfold Crc32.register. apply fold_left_app. Qed.
Lemma bits_of_app a b : Crc32.bits_of (a ++ b) = Crc32.bits_of a ++ Crc32.bits_of b.
Proof. unfold Crc32.bits_of. apply flat_map_app. Qed.

(* appending the CRC (big-endian) to any message leaves the register at zero *)
Theorem residue_zero bs : Crc32.crc (bs ++ to_be32 (Crc32.crc bs)) = 0.
Proof. unfold Crc32.crc at 1. rewrite bits_of_app, register_app. fold (Crc32.crc bs).
  rewrite bits_of_be32. rewrite <- (register_own_bits (Crc32.crc bs)).
  unfold bits32. cbn [nseq map]. symmetry. apply register_low32. Qed.

(* the same in terms of the code: ComputeCRC(b ++ ComputeCRC(b)) = 00 00 00 00 *)
Theorem compute_crc_residue bs : Crc.compute_crc (bs ++ Crc.compute_crc bs) = [0; 0; 0; 0].
Proof. rewrite !compute_crc_is_mpeg2, residue_zero. reflexivity. Qed.

(* every section of the shape  body ++ ComputeCRC(body)  passes the receiver's check *)
Corollary emitted_section_residue_ok body : Crc32.residue_ok (body ++ Crc.compute_crc body).
Proof. unfold Crc32.residue_ok. rewrite compute_crc_is_mpeg2. apply residue_zero. Qed.

(* the result is always four bytes *)
Lemma to_be32_bytes x : is_bytes (to_be32 x) /\ length (to_be32 x) = 4%nat.
Proof. split; [|reflexivity]. unfold to_be32, is_bytes, is_byte. repeat constructor; lia. Qed.
Theorem compute_crc_shape bs : is_bytes (Crc.compute_crc bs) /\ length (Crc.compute_crc bs) = 4%nat.
Proof. apply to_be32_bytes. Qed.

(* sanity of the specification: the catalogue check value of CRC-32/MPEG-2 *)
Example check_value : Crc32.crc [49; 50; 51; 52; 53; 54; 55; 56; 57] = 58124007.  (* "123456789" -> 0x0376E6E7 *)
Proof. vm_compute. reflexivity. Qed.
