(* Definitions used by the C08/C09 statements: which logical sections the library supports, and the
   struct (hence every getter) the decoder must produce for a logical section. No proofs here. *)
From Gots Require Import Base.Prelude Model.Pts Model.Scte Spec.Scte35Spec.
Import Scte Scte35Spec.
Local Open Scope N_scope.

Definition st_has (t : stime) : bool := match t with Some _ => true | None => false end.
Definition st_val (t : stime) : N := match t with Some p => p | None => 0 end.

Definition expected_comps (m : splice_mode) : list component :=
  match m with
  | CompImmediate tags => map (fun t => mkcomp t false 0) tags
  | CompTimed cs => map (fun c => mkcomp (fst c) (st_has (snd c)) (st_val (snd c))) cs
  | _ => []
  end.
Definition mode_time (m : splice_mode) : stime := match m with ProgTimed t => t | _ => None end.

Definition expected_insert (eid : N) (body : option insert_body) : insert :=
  match body with
  | None => mkins eid true false false false false 0 [] false 0 false 0 0 0
  | Some b =>
    mkins eid false (ib_out b) (mode_program (ib_mode b)) (mode_immediate (ib_mode b))
          (st_has (mode_time (ib_mode b))) (st_val (mode_time (ib_mode b))) (expected_comps (ib_mode b))
          (match ib_break b with Some _ => true | None => false end)
          (match ib_break b with Some (_, d) => d | None => 0 end)
          (match ib_break b with Some (a, _) => a | None => false end)
          (ib_unique_program_id b) (ib_avail_num b) (ib_avails_expected b)
  end.
Definition expected_cmd (c : Scte35Spec.command) : Scte.command :=
  match c with
  | Null => CNull
  | TimeSignal t => CTime (st_has t) (st_val t)
  | Insert eid body => CInsert (expected_insert eid body)
  | OtherCmd _ _ => CNull
  end.

Definition expected_mid (l : list (N * bytes)) : list Scte.upid :=
  map (fun e => mkupid (fst e) (len (snd e)) (snd e)) l.
Definition expected_seg (owner : option N) (eid : N) (body : option seg_body) : segdesc :=
  match body with
  | None => mkseg 0 eid false 0 0 [] [] 0 0 0 0 owner true false false false false false false 0 []
  | Some b =>
    mkseg (sb_type b) eid
      (match sb_duration b with Some _ => true | None => false end)
      (match sb_duration b with Some d => d | None => 0 end)
      (match sb_upid b with Single ty _ => ty | Multi _ => 13 end)
      (match sb_upid b with Single _ u => u | Multi _ => [] end)
      (match sb_upid b with Single _ _ => [] | Multi l => expected_mid l end)
      (sb_num b) (sb_expected b)
      (match sb_sub b with Some (x, _) => x | None => 0 end)
      (match sb_sub b with Some (_, y) => y | None => 0 end)
      owner false
      (match sb_restr b with None => true | Some _ => false end)
      (match sb_sub b with Some _ => true | None => false end)
      (match sb_comps b with None => true | Some _ => false end)
      (match sb_restr b with Some (w, _, _, _) => w | None => false end)
      (match sb_restr b with Some (_, n, _, _) => n | None => false end)
      (match sb_restr b with Some (_, _, a, _) => a | None => false end)
      (match sb_restr b with Some (_, _, _, d) => d | None => 0 end)
      (match sb_comps b with Some cs => map (fun c => mkco (fst c) (snd c)) cs | None => [] end)
  end.
Fixpoint expected_descs (owner : N) (ds : list descriptor) : list segdesc :=
  match ds with
  | [] => []
  | Seg eid body :: t => expected_seg (Some owner) eid body :: expected_descs owner t
  | Foreign _ _ :: t => expected_descs owner t
  end.
Fixpoint expected_other (ds : list descriptor) : bytes :=
  match ds with
  | [] => []
  | Seg _ _ :: t => expected_other t
  | Foreign tag body :: t => ser_descriptor (Foreign tag body) ++ expected_other t
  end.

Definition supported_cmd (c : Scte35Spec.command) : Prop :=
  match c with
  | Null => True
  | TimeSignal t => t <> None
  | Insert _ None => True
  | Insert _ (Some b) => ib_mode b <> ProgTimed None
  | OtherCmd _ _ => False
  end.

(* the part of wf_splice_info the decoder's correctness depends on (it does not look at CRC_32,
   protocol_version, cw_index, the pointer filler or the stuffing bytes) *)
Definition wf_decode (s : splice_info) : Prop :=
  si_sap s < 4 /\ si_enc_alg s < 64 /\ si_pts_adj s < 8589934592 /\ si_tier s < 4096 /\
  wf_command (si_cmd s) /\ len (ser_command (si_cmd s)) < 4095 /\
  Forall wf_descriptor (si_descs s) /\ len (ser_descriptors (si_descs s)) < 65536 /\
  section_length s < 4096.

(* what the library decodes: the SCTE 35 syntax with table_id 0xFC, clear, a supported command,
   and a pointer_field below 255 (psi: `PointerField(data)+1` is computed in uint8) *)
Definition supported (s : splice_info) : Prop :=
  wf_decode s /\ si_table_id s = 252 /\ si_encrypted s = false /\ len (si_pointer s) < 255 /\
  supported_cmd (si_cmd s).

Definition cmd_time (c : Scte35Spec.command) : stime :=
  match c with
  | TimeSignal t => t
  | Insert _ (Some b) => mode_time (ib_mode b)
  | _ => None
  end.

(* PTS(): (pts_time + pts_adjustment) mod 2^33; for splice_null (no time) the pts_adjustment itself *)
Definition expected_pts (s : splice_info) : N :=
  match si_cmd s with
  | Null => si_pts_adj s
  | c => (st_val (cmd_time c) + si_pts_adj s) mod 8589934592
  end.

Definition expected (s : splice_info) : scte :=
  mkscte 1 (si_table_id s) (si_ssi s) (si_private s) (section_length s mod 1024)
         (si_protocol s) false (si_enc_alg s) (expected_pts s) (si_cw s) (si_tier s)
         (cmd_len_field s) (command_type (si_cmd s)) (expected_cmd (si_cmd s))
         (expected_descs 1 (si_descs s)) 0 (ser_section s) (expected_other (si_descs s)).
