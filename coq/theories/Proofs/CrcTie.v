(* CRC tie: the two private transcriptions of gots.ComputeCRC (Pmt.crc_model, used by the PMT filter of C14, and
   Scte.crc_model, used by UpdateData of C09) are the SAME function as Crc.compute_crc (Model/Crc.v), the
   transcription that C13 proves equal to CRC-32/MPEG-2.  Hence every theorem of C13 holds of the CRC field of the
   sections emitted by FilterPMTPacketsToPids and by UpdateData. *)
From Gots Require Import Base.Prelude Model.Crc Model.Psi Model.Pmt Model.Scte Model.ScteEnc Spec.Crc32 Spec.PmtSpec
  Proofs.CrcRegister Proofs.ScteEncode Proofs.ScteRoundtrip Proofs.PmtFilter.
Local Open Scope N_scope.

(* ---- generic: two loop shapes.  Stated over abstract step functions so that no conversion ever unfolds a 32-fold
   iterate applied to a variable (DESIGN 4.1) ---- *)
Section Loops.
  Context (f : N -> unit -> N) (g : N -> N).
  Hypothesis fg : forall a u, f a u = g a.
  Lemma fold_repeat_iter : forall n a, fold_left f (repeat tt n) a = Crc.iter n g a.
  Proof. induction n as [|n IH]; intro a; [reflexivity|].
    cbn [repeat fold_left Crc.iter]. rewrite fg. apply IH. Qed.
End Loops.

(* ---- Pmt.crc_model ---- *)
Lemma pmt_crc_bit_inner crc item j : Pmt.crc_bit crc (N.land (N.shiftr item (7 - j)) 1) = Crc.inner crc item j.
Proof. reflexivity. Qed.
Lemma pmt_crc_byte crc item : Pmt.crc_byte crc item = Crc.byte_loop crc item.
Proof. reflexivity. Qed.
Lemma pmt_crc_bit_trail crc : Pmt.crc_bit crc 0 = Crc.trail crc.
Proof. unfold Pmt.crc_bit, Crc.trail, Crc.msb, Crc.mask, Crc.poly. rewrite N.lor_0_r. reflexivity. Qed.
Lemma pmt_input_loop bs : forall crc, fold_left Pmt.crc_byte bs crc = Crc.input_loop crc bs.
Proof. intro crc. unfold Crc.input_loop. apply fold_left_ext. exact pmt_crc_byte. Qed.
Lemma pmt_trail_loop crc : fold_left (fun c (_ : unit) => Pmt.crc_bit c 0) (repeat tt 32) crc = Crc.trail_loop crc.
Proof. exact (fold_repeat_iter (fun c (_ : unit) => Pmt.crc_bit c 0) Crc.trail (fun a _ => pmt_crc_bit_trail a) 32 crc). Qed.

Theorem pmt_crc_model_is_compute_crc bs : Pmt.crc_model bs = Crc.compute_crc bs.
Proof. unfold Pmt.crc_model, Crc.compute_crc, Crc.compute_crc_word.
  rewrite pmt_trail_loop, pmt_input_loop. reflexivity. Qed.

(* ---- Scte.crc_model ---- *)
Lemma scte_crc_step_inner crc item j : Scte.crc_step crc (N.land (N.shiftr item (7 - j)) 1) = Crc.inner crc item j.
Proof. unfold Scte.crc_step, Crc.inner, Crc.msb, Crc.mask, Crc.poly.
  destruct (N.land crc 2147483648 =? 0); reflexivity. Qed.
Lemma scte_crc_byte crc item : Scte.crc_byte crc item = Crc.byte_loop crc item.
Proof. unfold Scte.crc_byte, Crc.byte_loop. cbn [fold_left]. rewrite !scte_crc_step_inner. reflexivity. Qed.
Lemma scte_crc_step_trail crc : Scte.crc_step crc 0 = Crc.trail crc.
Proof. unfold Scte.crc_step, Crc.trail, Crc.msb, Crc.mask, Crc.poly. rewrite N.lor_0_r.
  destruct (N.land crc 2147483648 =? 0); reflexivity. Qed.
Lemma scte_input_loop bs : forall crc, fold_left Scte.crc_byte bs crc = Crc.input_loop crc bs.
Proof. intro crc. unfold Crc.input_loop. apply fold_left_ext. exact scte_crc_byte. Qed.
Lemma scte_trail_loop crc : fold_left (fun c (_ : unit) => Scte.crc_step c 0) (repeat tt 32) crc = Crc.trail_loop crc.
Proof. exact (fold_repeat_iter (fun c (_ : unit) => Scte.crc_step c 0) Crc.trail (fun a _ => scte_crc_step_trail a) 32 crc). Qed.

Theorem scte_crc_reg_is_compute_crc_word bs : Scte.crc_reg bs = Crc.compute_crc_word bs.
Proof. unfold Scte.crc_reg, Crc.compute_crc_word. rewrite scte_trail_loop, scte_input_loop. reflexivity. Qed.
Theorem scte_crc_model_is_compute_crc bs : Scte.crc_model bs = Crc.compute_crc bs.
Proof. unfold Scte.crc_model, Crc.compute_crc. rewrite scte_crc_reg_is_compute_crc_word. reflexivity. Qed.

(* the two private copies agree with each other *)
Corollary pmt_scte_crc_models_agree bs : Pmt.crc_model bs = Scte.crc_model bs.
Proof. rewrite pmt_crc_model_is_compute_crc, scte_crc_model_is_compute_crc. reflexivity. Qed.

(* ---- consequences through C13 (Proofs/CrcRegister.v) ---- *)
Corollary pmt_crc_model_is_mpeg2 bs : Pmt.crc_model bs = to_be32 (Crc32.crc bs).
Proof. rewrite pmt_crc_model_is_compute_crc. apply compute_crc_is_mpeg2. Qed.
Corollary scte_crc_model_is_mpeg2 bs : Scte.crc_model bs = to_be32 (Crc32.crc bs).
Proof. rewrite scte_crc_model_is_compute_crc. apply compute_crc_is_mpeg2. Qed.
Corollary scte_crc_model_residue m : Scte.crc_model (m ++ Scte.crc_model m) = [0; 0; 0; 0].
Proof. rewrite !scte_crc_model_is_compute_crc. apply compute_crc_residue. Qed.
Corollary pmt_crc_model_residue m : Pmt.crc_model (m ++ Pmt.crc_model m) = [0; 0; 0; 0].
Proof. rewrite !pmt_crc_model_is_compute_crc. apply compute_crc_residue. Qed.

(* ---- (a) the section emitted by the PMT filter (Spec/PmtSpec.v: filtered_sec, the section inside the payload of
   C14_filter_spec) ---- *)
Import PmtSpec.
(* the bytes before the CRC field do not depend on the CRC field *)
Lemma filtered_sec_nocrc s want :
  ser_sec_nocrc (filtered_sec s want) = ser_sec_nocrc (with_streams_crc s (keep_streams want (sstreams s)) []).
Proof. reflexivity. Qed.
Theorem filtered_sec_crc_is_mpeg2 s want :
  PmtSpec.crc (filtered_sec s want) = to_be32 (Crc32.crc (ser_sec_nocrc (filtered_sec s want))).
Proof. rewrite filtered_sec_nocrc. unfold filtered_sec. cbn [PmtSpec.crc with_streams_crc].
  apply pmt_crc_model_is_mpeg2. Qed.
Theorem filtered_sec_shape s want :
  ser_sec (filtered_sec s want) =
  ser_sec_nocrc (filtered_sec s want) ++ to_be32 (Crc32.crc (ser_sec_nocrc (filtered_sec s want))).
Proof. unfold ser_sec at 1. rewrite filtered_sec_crc_is_mpeg2. reflexivity. Qed.
Theorem filtered_sec_residue_ok s want : Crc32.residue_ok (ser_sec (filtered_sec s want)).
Proof. rewrite filtered_sec_shape. unfold Crc32.residue_ok. apply residue_zero. Qed.

(* ---- (b) the encoded splice_info_section (Model/ScteEnc.v: update_data) ---- *)
Theorem update_data_crc_is_mpeg2 st : exists body,
  fst (ScteEnc.update_data st) = body ++ to_be32 (Crc32.crc body) /\ len (to_be32 (Crc32.crc body)) = 4.
Proof. destruct (crc_clause st) as [body [H1 H2]]. exists body.
  rewrite <- scte_crc_model_is_mpeg2. split; assumption. Qed.
Theorem update_data_residue_zero st : Crc32.crc (fst (ScteEnc.update_data st)) = 0.
Proof. destruct (update_data_crc_is_mpeg2 st) as [body [H _]]. rewrite H. apply residue_zero. Qed.
Theorem update_data_crc_model_zero st : Scte.crc_model (fst (ScteEnc.update_data st)) = [0; 0; 0; 0].
Proof. exact (crc_zero_of_residue scte_crc_model_residue st). Qed.

(* ---- (a) composed with C14_filter_spec: the payload data handed to the re-packetiser is pointer_field, filler, the
   section bytes and the big-endian CRC-32/MPEG-2 of exactly those section bytes ---- *)
Theorem filter_emits_mpeg2_crc c pid items want :
  wf_carrier c -> pre c = [] -> all_mine items -> Forall (wf_item pid) items ->
  concat (chunks items) = ser_payload c -> want <> [] ->
  let sect := ser_sec_nocrc (filtered_sec (sec c) want) in
  Pmt.filter_pmt_packets (ser_items pid true items) want =
  Ok (let missing := missing_of (map Pmt.epid (sstreams (sec c))) pid want in
      if none_present (map Pmt.epid (sstreams (sec c))) pid want then (None, Some missing)
      else (Some (spec_repack (hdrs_of pid true items)
                    ([pf c] ++ repeatN 255 (pf c) ++ sect ++ to_be32 (Crc32.crc sect))),
            match missing with [] => None | _ => Some missing end))
  /\ Crc32.residue_ok (sect ++ to_be32 (Crc32.crc sect)).
Proof. intros Hc Hp Hm Hi Hcat Hw sect. split.
  - rewrite (Proofs.PmtFilter.filter_ok c pid items want Hc Hp Hm Hi Hcat Hw).
    unfold ser_unit. cbn [pf pre sec ser_pre flat_map app]. rewrite filtered_sec_shape. reflexivity.
  - unfold Crc32.residue_ok. apply residue_zero. Qed.
