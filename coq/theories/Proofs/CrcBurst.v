(* C13, receiver side: every burst error of at most 32 bits changes the CRC-32/MPEG-2 register.
   The error is the XOR of the message bits with a 32-bit window w <> 0 placed anywhere (a zero bits before it,
   b zero bits after it); single-bit and byte errors are special cases. *)
From Gots Require Import Base.Prelude Base.CodecLemmas Model.Crc Spec.Crc32 Proofs.CrcRegister Proofs.CrcUnique Proofs.CrcLinear
  Proofs.CrcDetect.
Local Open Scope N_scope.

Definition burst (a : nat) (w : N) (b : nat) : list bool := repeat false a ++ bits32 w ++ repeat false b.

Lemma bits32_length w : length (bits32 w) = 32%nat. Proof. reflexivity. Qed.

Lemma dfold_zero_state_zeros a : fold_left dstep (repeat false a) 0 = 0.
Proof. rewrite dfold_zeros. apply iter_zero. Qed.

Lemma dfold_burst a w b : w < M32 ->
  fold_left dstep (burst a w b) 0 = Crc.iter b zstep (z32 w).
Proof. intro Hw. unfold burst. rewrite !fold_left_app, dfold_zero_state_zeros, dfold_zeros.
  f_equal. rewrite <- register_dfold, register_word, N.lxor_0_l, N.mod_small by exact Hw. reflexivity. Qed.

Lemma iter_zstep_nonzero b x : bounded x -> x <> 0 -> Crc.iter b zstep x <> 0.
Proof. intros Hx Hnz H. rewrite iter_zstep_a0 in H.
  assert (E: Crc.iter b a0 x = Crc.iter b a0 0) by (rewrite H; symmetry; rewrite <- iter_zstep_a0; apply iter_zero).
  apply iter_a0_inj in E; [contradiction|exact Hx|apply bounded_0]. Qed.

Lemma z32_bounded x : bounded x -> bounded (z32 x).
Proof. intro H. unfold z32. apply iter_a0_bounded. exact H. Qed.

Theorem burst_error_changes_register (m : list bool) a w b : length m = (a + 32 + b)%nat -> w < M32 -> w <> 0 ->
  Crc32.register Crc32.init (zipx m (burst a w b)) <> Crc32.register Crc32.init m.
Proof. intros Hl Hw Hnz E. rewrite !register_dfold in E.
  rewrite <- (N.lxor_0_r Crc32.init) in E at 1.
  rewrite dfold_lin in E by (unfold burst; rewrite !app_length, !repeat_length, bits32_length; lia).
  apply lxor_fix in E. rewrite dfold_burst in E by exact Hw.
  apply (iter_zstep_nonzero b (z32 w)); [apply z32_bounded, bounded_lt; exact Hw| |exact E].
  intro Hz. apply Hnz. apply z32_inj0; [apply bounded_lt; exact Hw|exact Hz]. Qed.

(* for byte strings: the bit string received differs from bits_of bs by a burst of at most 32 bits *)
Corollary burst_error_changes_crc (bs : bytes) a w b : (8 * length bs = a + 32 + b)%nat -> w < M32 -> w <> 0 ->
  Crc32.register Crc32.init (zipx (Crc32.bits_of bs) (burst a w b)) <> Crc32.crc bs.
Proof. intros Hl Hw Hnz. apply burst_error_changes_register; try assumption.
  rewrite <- Hl. clear. induction bs as [|y bs IH]; [reflexivity|]. unfold Crc32.bits_of in *. cbn [flat_map].
  rewrite app_length, IH. cbn [length Crc32.bits_of_byte]. lia. Qed.
