(* F5 and F6 re-established in Coq on the model of the PINNED functions (Model/AFPinned.v): concrete
   well-formed packets on which the pinned code violates the refinement / the no-spurious-error clause.
   The same packets are corpus/C03/known-defects.txt lines 1 and 5 and fail on /repo as computed here. *)
From Gots Require Import Base.Prelude Model.Pcr Model.AF Model.AFPinned Spec.AFSpec
  Proofs.AFLists Proofs.AFHistory Proofs.AFLastSet.

Definition f5_l : laf := mkLaf 183 true false true None None None (Some [1; 2; 3]) (Some [9; 8]).
Definition f5_hdr : bytes := [71; 0; 1; 32].
Definition f5_p : bytes := f5_hdr ++ ser_laf f5_l ++ [].
Lemma f5_repr : repr f5_p f5_l f5_hdr [].
Proof. unfold repr. repeat (split; [reflexivity|]). split.
  - unfold wf_laf. cbn. repeat split; try lia; apply is_bytesb_ok; reflexivity.
  - unfold fits. vm_compute. discriminate. Qed.

(* pinned SetHasTransportPrivateData(false): b7 a3 03 01 02 03 02 09 08 -> b7 a1 00 02 03 02 09 08 *)
Theorem F5_refuted : exists p l hdr pay p', repr p l hdr pay /\
  AFPinned.SetHasTransportPrivateData p false = Ok p' /\
  ~ (exists l', op_rel l (AF.OSetHasTPD false) (Done l') /\ repr p' l' hdr pay).
Proof. exists f5_p, f5_l, f5_hdr, [].
  eexists. split; [exact f5_repr|]. split; [vm_compute; reflexivity|].
  intros (l' & (u & _ & _ & D) & R). cbn [spec_step] in D. injection D as ->.
  destruct R as (Hp & _). vm_compute in Hp. discriminate Hp. Qed.

Definition f6_l : laf := mkLaf 183 false false false None None None (Some []) None.
Definition f6_p : bytes := f5_hdr ++ ser_laf f6_l ++ [].
Definition f6_d : bytes := repeatN 7 181.
Lemma f6_repr : repr f6_p f6_l f5_hdr [].
Proof. unfold repr. repeat (split; [reflexivity|]). split.
  - unfold wf_laf. cbn. repeat split; try lia; apply is_bytesb_ok; reflexivity.
  - unfold fits. vm_compute. discriminate. Qed.

(* 181 private-data bytes fit a 183-byte field (1 flags + 1 length + 181 = 183) but the pinned code refuses *)
Theorem F6_refuted : exists p l hdr pay d, repr p l hdr pay /\ is_bytes d /\
  (exists l', op_rel l (AF.OSetTPD d) (Done l')) /\
  AFPinned.SetTransportPrivateData p d = Err E.AdaptationFieldCannotGrow /\
  (exists p', AF.SetTransportPrivateData p d = Ok p').
Proof. exists f6_p, f6_l, f5_hdr, [], f6_d. split; [exact f6_repr|].
  split; [apply is_bytesb_ok; reflexivity|]. split.
  - exists (set_tpd f6_l (Some f6_d)). exists []. split; [reflexivity|]. split; [constructor|]. vm_compute. reflexivity.
  - split; [vm_compute; reflexivity|]. eexists. vm_compute. reflexivity. Qed.

(* F11 (the adaptation-field part): on garbage length bytes the pinned getters and resizeAF panic, the repaired
   ones return ErrInvalidPacketLength (Proofs/AFTotal.v proves that they never panic). *)
Definition garbage_p : bytes := [71; 0; 1; 32; 183; 3; 250; 1; 2; 3] ++ repeatN 255 178.
Theorem F11_af_pinned_panics : length garbage_p = 188%nat /\ is_bytes garbage_p /\
  AFPinned.TransportPrivateData garbage_p = Panic /\ AFPinned.AdaptationFieldExtension garbage_p = Panic /\
  AFPinned.fnTransportPrivateData garbage_p = Panic /\
  AFPinned.SetHasTransportPrivateData garbage_p false = Panic /\
  AF.TransportPrivateData garbage_p = Err E.InvalidPacketLength /\
  AF.AdaptationFieldExtension garbage_p = Err E.InvalidPacketLength /\
  AF.SetHasTransportPrivateData garbage_p false = Err E.InvalidPacketLength.
Proof. split; [reflexivity|]. split; [apply is_bytesb_ok; reflexivity|]. vm_compute. repeat split. Qed.

(* Exactly when the pinned slice getters panic on an arbitrary 188-byte packet: the complement of the
   guards that c05-guards.patch added. *)
From Gots Require Import Proofs.AFTotal.
Lemma pinned_TPD_panic_iff p : length p = 188%nat ->
  (AFPinned.TransportPrivateData p = Panic <->
   AF.valid p = Ok tt /\ AF.hasTransportPrivateData p = true /\ 188 < AF.adaptationExtensionStart p).
Proof. intros HL. assert (LP: len p = 188) by (unfold len; rewrite HL; reflexivity).
  unfold AFPinned.TransportPrivateData, AF.HasTransportPrivateData, AF.get_flag.
  destruct (AF.valid p) as [[]|e| |] eqn:V; cbn [bind].
  - fold (AF.hasTransportPrivateData p). destruct (AF.hasTransportPrivateData p); cbn [negb].
    + destruct (N.lt_ge_cases 188 (AF.adaptationExtensionStart p)) as [G|G].
      * rewrite slice_panic by (right; lia). split; [intros _; repeat split; assumption|reflexivity].
      * rewrite slice_ok by (pose proof (exs_eq p); lia). split; [discriminate|intros (_ & _ & X); lia].
    + split; [discriminate|intros (_ & X & _); discriminate].
  - split; [discriminate|intros (X & _); discriminate].
  - exfalso. destruct (safe_valid p) as [X _]. apply X. exact V.
  - exfalso. destruct (safe_valid p) as [_ X]. apply X. exact V. Qed.

Lemma pinned_Ext_panic_iff p : length p = 188%nat ->
  (AFPinned.AdaptationFieldExtension p = Panic <->
   AF.valid p = Ok tt /\ AF.hasAdaptationFieldExtension p = true /\ 188 < AF.stuffingStart p).
Proof. intros HL. assert (LP: len p = 188) by (unfold len; rewrite HL; reflexivity).
  unfold AFPinned.AdaptationFieldExtension, AF.HasAdaptationFieldExtension, AF.get_flag.
  destruct (AF.valid p) as [[]|e| |] eqn:V; cbn [bind].
  - fold (AF.hasAdaptationFieldExtension p). destruct (AF.hasAdaptationFieldExtension p); cbn [negb].
    + destruct (N.lt_ge_cases 188 (AF.stuffingStart p)) as [G|G].
      * rewrite slice_panic by (right; lia). split; [intros _; repeat split; assumption|reflexivity].
      * rewrite slice_ok by (pose proof (ss_eq p); pose proof (exs_eq p); pose proof (tps_eq p); lia). split; [discriminate|intros (_ & _ & X); lia].
    + split; [discriminate|intros (_ & X & _); discriminate].
  - split; [discriminate|intros (X & _); discriminate].
  - exfalso. destruct (safe_valid p) as [X _]. apply X. exact V.
  - exfalso. destruct (safe_valid p) as [_ X]. apply X. exact V. Qed.

(* the function-style accessor of the pinned tree: uint8 wrap-around of offset+dataLength *)
Lemma pinned_fnTPD_panic_iff p : length p = 188%nat ->
  (AFPinned.fnTransportPrivateData p = Panic <->
   bit (nthN p 5) 2 = true /\
   let off := AF.transportPrivateDataStart p + 1 in
   let hi := w8 (off + nthN p (AF.transportPrivateDataStart p)) in (hi < off \/ 188 < hi)).
Proof. intros HL. assert (LP: len p = 188) by (unfold len; rewrite HL; reflexivity). cbv zeta.
  unfold AFPinned.fnTransportPrivateData. pose proof (tps_le p) as T.
  assert (W: w8 (AF.transportPrivateDataStart p + 1) = AF.transportPrivateDataStart p + 1) by (unfold w8; apply N.mod_small; lia).
  rewrite W. destruct (bit (nthN p 5) 2); cbn [negb].
  - set (hi := w8 (AF.transportPrivateDataStart p + 1 + nthN p (AF.transportPrivateDataStart p))).
    destruct (N.lt_ge_cases hi (AF.transportPrivateDataStart p + 1)) as [A|A].
    + rewrite slice_panic by (left; exact A). split; [intros _; split; [reflexivity|left; exact A]|reflexivity].
    + destruct (N.lt_ge_cases 188 hi) as [B|B].
      * rewrite slice_panic by (right; lia). split; [intros _; split; [reflexivity|right; exact B]|reflexivity].
      * rewrite slice_ok by lia. split; [discriminate|intros (_ & [X|X]); lia].
  - split; [discriminate|intros (X & _); discriminate]. Qed.
