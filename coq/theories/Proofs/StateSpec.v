(* C10 lemmas, part 6: MODEL MEETS SPEC.  The trace checker of Spec/Trackers.v accepts the observations of
   the model for every history with at most 10 distinct signal times (simulation between the checker's
   ghost state and the model's state + ghost sets). *)
From Gots Require Import Base.Prelude Model.SegDesc Model.State Spec.SegRules Spec.Trackers
  Proofs.SegProofs Proofs.StateBasics Proofs.StateRun Proofs.StateDup Proofs.StateInv Proofs.StateWrites.
From Gots Require Import Proofs.StateSpecRefl.
From Gots Require Exec.StateExec.
From Coq Require Import Permutation.
Import SegDesc State.
Local Open Scope nat_scope.

(* ---------- the blackout flags after one call ---------- *)
Lemma process_flags : forall s d s' closed err, I1 s ->
  ProcessDescriptor s d = Ok (s', (closed, err)) -> ~ rejection err ->
  let keep := firstn (length (open s) - length closed) (open s) in
  ((ty d =? 0x13)%N = true -> inBlackout s' = true /\ blackoutIdx s' = length keep) /\
  ((ty d =? 0x14)%N = true -> inBlackout s' = false) /\
  ((ty d =? 0x13)%N = false -> (ty d =? 0x14)%N = false ->
     inBlackout s' = inb_after_close s keep /\ blackoutIdx s' = blackoutIdx s).
Proof.
  intros s d s' closed err HI H NR.
  destruct (process_shape _ _ _ _ _ HI H) as [(R & _)|(_ & Hd & _ & Hcl & _)]; [contradiction|].
  pose proof HI as (B & (RL & RH) & HP). unfold ProcessDescriptor in H. rewrite Hd in H. cbn [negb] in H.
  pose proof (scan_ring_length d (ptsv d) (received s) false) as SL.
  destruct (scan_ring d (ptsv d) (received s) false) as [[ring1 added] early] eqn:SR. simpl in SL.
  destruct early as [e|].
  { inversion H; subst. exfalso. apply NR. destruct (scan_ring_err _ _ _ _ _ _ _ SR) as [-> | ->]; unfold rejection; auto. }
  rewrite <- Hcl in H. 
  set (open1 := firstn (length (open s) - length closed) (open s)) in *.
  fold (inb_after_close s open1) in H.
  assert (RW : exists r2 h2, (if added then Ok (ring1, receivedHead s)
     else if receivedHead s <? length ring1
          then Ok (set_nth ring1 (receivedHead s) (Some (mkElem (ptsv d) [d])), (receivedHead s + 1) mod receivedRingLen)
          else Panic) = Ok (r2, h2)).
  { destruct added; [eauto|].
    assert ((receivedHead s <? length ring1) = true) as -> by (apply Nat.ltb_lt; lia). eauto. }
  destruct RW as (r2 & h2 & RW). rewrite RW in H. cbn [bind] in H. clear RW.
  cbv zeta.
  destruct (N.eqb_spec (ty d) 0x13) as [T13|T13].
  { inversion H; subst. rewrite T13. simpl. split; [auto|]. split; intros X; discriminate. }
  destruct (N.eqb_spec (ty d) 0x14) as [T14|T14].
  { split; [intros X; discriminate|]. split; [|intros _ X; discriminate]. intros _.
    destruct (inb_after_close s open1) eqn:Hi.
    - destruct (blackoutIdx s <=? length open1); [|discriminate]. inversion H; subst. reflexivity.
    - inversion H; subst. reflexivity. }
  split; [intros X; discriminate|]. split; [intros X; discriminate|]. intros _ _.
  destruct (out_case (ty d)); [inversion H; subst; simpl; auto|].
  destruct (ty d =? 0x11)%N; [inversion H; subst; simpl; auto|].
  destruct (in_case (ty d)); inversion H; subst; simpl; auto.
Qed.

Lemma close_flags : forall s d s' closed err i c, Close s d = (s', (closed, err)) ->
  err = None -> nth_error (open s) i = Some c -> closed = [c] -> open s' = remove_at i (open s) -> NoDup (open s) ->
  inBlackout s' = (inBlackout s && negb (i =? blackoutIdx s)) /\
  blackoutIdx s' = (if inBlackout s && (i <? blackoutIdx s) then blackoutIdx s - 1 else blackoutIdx s).
Proof.
  intros s d s' closed err i c H He Hn Hc Ho ND. unfold Close in H.
  destruct (find_last_equal d (open s)) as [k|] eqn:F; [|inversion H; subst; discriminate].
  destruct (find_last_equal_spec _ _ _ F) as [Lk (x & Hx & _)].
  assert (k = i).
  { assert (nth k (open s) d = x) by now apply nth_error_nth.
    assert (closed = [x]).
    { destruct (inBlackout s); [destruct (k =? blackoutIdx s); [|destruct (k <? blackoutIdx s)]|]; inversion H; subst; reflexivity. }
    rewrite Hc in H1. inversion H1; subst x.
    rewrite (NoDup_nth_error (open s)) in ND. apply ND; [exact Lk|congruence]. }
  subst k.
  destruct (inBlackout s); simpl.
  - destruct (Nat.eqb_spec i (blackoutIdx s)); simpl.
    + inversion H; subst. simpl. split; [reflexivity|]. destruct (Nat.ltb_spec (blackoutIdx s) (blackoutIdx s)); [lia|reflexivity].
    + destruct (i <? blackoutIdx s); inversion H; subst; simpl; auto.
  - inversion H; subst. simpl. auto.
Qed.

(* ---------- what Open() shows and what it hides ---------- *)
Definition vis (s : state) : list desc := if inBlackout s then remove_at (blackoutIdx s) (open s) else open s.
Definition hid (s : state) : option desc := if inBlackout s then nth_error (open s) (blackoutIdx s) else None.

Lemma Open_vis : forall s, I1 s -> Open s = Ok (vis s).
Proof. intros s H. rewrite (Open_spec s H). reflexivity. Qed.

Lemma cur_perm : forall s, I1 s ->
  Permutation (Trackers.cur (ids (vis s)) (option_map id (hid s))) (ids (open s)).
Proof.
  intros s (B & _). unfold vis, hid. destruct (inBlackout s) eqn:E; simpl; [|apply Permutation_refl].
  destruct (B E) as [_ (b & Hb & _)]. rewrite Hb. simpl.
  change (id b :: ids (remove_at (blackoutIdx s) (open s))) with (ids (b :: remove_at (blackoutIdx s) (open s))).
  apply Permutation_map. now apply remove_at_perm.
Qed.

Lemma cur_in : forall s x, I1 s -> (In x (Trackers.cur (ids (vis s)) (option_map id (hid s))) <-> In x (ids (open s))).
Proof.
  intros s x H. split; intros X.
  - eapply Permutation_in; [apply cur_perm; exact H|exact X].
  - eapply Permutation_in; [apply Permutation_sym, cur_perm; exact H|exact X].
Qed.

Lemma vis_subseq : forall s, subseq (vis s) (open s).
Proof. intros s. unfold vis. destruct (inBlackout s); [apply subseq_remove_at|apply subseq_refl]. Qed.

(* ---------- a pool whose ids are the positions ---------- *)
Section Pool.
Variable pool : list desc.
Hypothesis Hpool : Trackers.pool_ok pool = true.

Lemma list_eqb_eq : forall l m, Trackers.list_eqb l m = true -> l = m.
Proof.
  unfold Trackers.list_eqb. induction l as [|a l IH]; intros [|b m] H; simpl in H; try discriminate; [reflexivity|].
  apply andb_true_iff in H. destruct H as [H1 H2]. simpl in H2. apply andb_true_iff in H2. destruct H2 as [H2 H3].
  apply N.eqb_eq in H2. subst. f_equal. apply IH. now rewrite H1, H3.
Qed.

Lemma nth_error_seq0 : forall n i, i < n -> nth_error (seq 0 n) i = Some i.
Proof.
  intros n i H. rewrite (nth_error_nth' _ 0) by (rewrite seq_length; lia). rewrite seq_nth by lia. reflexivity.
Qed.

Lemma pool_id : forall i d, nth_error pool i = Some d -> id d = N.of_nat i.
Proof.
  intros i d H. pose proof Hpool as HP. unfold Trackers.pool_ok in HP. apply list_eqb_eq in HP.
  assert (H0 : nth_error (map id pool) i = Some (id d)) by (now apply map_nth_error).
  rewrite HP in H0. assert (Li : i < length pool) by (apply nth_error_Some; congruence).
  rewrite (map_nth_error N.of_nat i (seq 0 (length pool)) (nth_error_seq0 _ _ Li)) in H0. congruence.
Qed.

Lemma by_id_pool : forall d, In d pool -> Trackers.by_id pool (id d) = Some d.
Proof.
  intros d H. apply In_nth_error in H. destruct H as [i Hi]. unfold Trackers.by_id.
  rewrite (pool_id _ _ Hi), Nat2N.id. exact Hi.
Qed.

Lemma id_inj : forall x y, In x pool -> In y pool -> id x = id y -> x = y.
Proof.
  intros x y Hx Hy E. pose proof (by_id_pool x Hx) as A. pose proof (by_id_pool y Hy) as B. rewrite E in A. congruence.
Qed.

Lemma in_ids : forall l x, incl l pool -> In x pool -> In (id x) (ids l) -> In x l.
Proof.
  intros l x Hl Hx H. unfold ids in H. apply in_map_iff in H. destruct H as (y & E & Hy).
  assert (y = x) by (apply id_inj; auto). now subst.
Qed.

Lemma ids_nodup : forall l, incl l pool -> NoDup l -> NoDup (ids l).
Proof.
  intros l Hl N. unfold ids. induction N as [|x t Hx Nt IH]; simpl; [constructor|].
  constructor; [|apply IH; intros y Hy; apply Hl; now right].
  intros X. apply Hx. apply in_ids; [intros y Hy; apply Hl; now right|apply Hl; now left|exact X].
Qed.

(* ---------- the simulation relation ---------- *)
Record Sim (s : state) (g : ghost) (prev : option (nat * N)) (tg : Trackers.ghost) : Prop := mkSim {
  sim_vis : Trackers.g_vis tg = ids (vis s);
  sim_hid : Trackers.g_hidden tg = option_map id (hid s);
  sim_proc : Trackers.g_processed tg = ids (processed g);
  sim_order : Trackers.g_order tg = ids (opened g);
  sim_gone : forall x, In x (Trackers.g_gone tg) <-> In x (ids (gone g));
  sim_prev : Trackers.g_prev tg = prev;
  sim_prev_ok : forall j e, prev = Some (j, e) ->
     exists s0 d cl e', I1 s0 /\ nth_error pool j = Some d /\ ProcessDescriptor s0 d = Ok (s, (cl, e')) /\ errn e' = e;
  sim_pool : incl (processed g) pool;
  sim_pool_opened : incl (opened g) pool }.

Lemma Sim_new : Sim NewState g0 None Trackers.ghost0.
Proof. constructor; simpl; try reflexivity; try tauto. discriminate. intros x []. intros x []. Qed.

Lemma rejecting_errn : forall e, Trackers.rejecting (errn e) = is_rej e.
Proof. intros [x|]; reflexivity. Qed.

Definition to_tobs (o : obs) : Trackers.tobs :=
  Trackers.mkTobs (o_closed o) (o_err o) (match o_open o with Ok l => Some l | _ => None end).

(* ---- Open() ---- *)
Lemma sim_open : forall s g prev tg, I1 s -> Sim s g prev tg ->
  exists tg', Trackers.check_call pool tg Trackers.TOpen (to_tobs (mkObs [] 0 (rmap ids (Open s)))) = (None, tg') /\
              Sim s g prev tg'.
Proof.
  intros s g prev tg H1 S. rewrite (Open_vis s H1). unfold Trackers.check_call, to_tobs. simpl.
  rewrite (sim_vis _ _ _ _ S), list_eqb_refl. simpl. eexists. split; [reflexivity|].
  destruct S. constructor; simpl; auto.
Qed.

(* ---- "twice in a row", from the simulation's memory of the previous call ---- *)
Lemma twice_in_row : forall s g prev tg i e d s' closed err, Sim s g prev tg -> prev = Some (i, e) ->
  nth_error pool i = Some d -> haspts d = true -> ProcessDescriptor s d = Ok (s', (closed, err)) ->
  err = Some Dup \/ (e = NoVss /\ err = Some NoVss).
Proof.
  intros s g prev tg i e d s' closed err S Hp Hn Hd H.
  destruct (sim_prev_ok _ _ _ _ S _ _ Hp) as (s0 & d0 & cl & e' & H0 & Hn0 & HP0 & He).
  rewrite Hn in Hn0. inversion Hn0; subst d0.
  assert (DEC : e' = Some NoVss \/ e' <> Some NoVss).
  { destruct e' as [x|]; [destruct (N.eq_dec x NoVss); [left; congruence|right; congruence]|right; discriminate]. }
  destruct DEC as [ -> | Hne ].
  - destruct (dup_twice_in_row_vss _ _ _ _ H0 Hd HP0) as (s2 & e2 & H2 & [ -> | -> ] & _); rewrite H2 in H; inversion H; subst; auto.
  - destruct (dup_twice_in_row _ _ _ _ _ H0 Hd HP0 Hne) as (s2 & H2 & _). rewrite H2 in H. inversion H; subst. auto.
Qed.

(* ---- ProcessDescriptor, rejected ---- *)
Lemma sim_process_rejected : forall s g prev tg i d s' closed err, I1 s -> Sim s g prev tg ->
  nth_error pool i = Some d -> ProcessDescriptor s d = Ok (s', (closed, err)) -> rejection err ->
  exists tg', Trackers.check_call pool tg (Trackers.TProcess i)
                (to_tobs (mkObs (ids closed) (errn err) (rmap ids (Open s')))) = (None, tg') /\
              Sim s' (gnext_process s s' d closed err g) (Some (i, errn err)) tg'.
Proof.
  intros s g prev tg i d s' closed err H1 S Hn H R.
  destruct (process_I1 s d H1) as (s'' & r'' & HP & H1'). rewrite H in HP. inversion HP; subst s'' r''. clear HP.
  destruct (process_shape _ _ _ _ _ H1 H) as [(_ & -> & Ho & Hib & Hbi & Hh & Hnp & Hp)|(NR & _)]; [|contradiction].
  assert (Hv : vis s' = vis s) by (unfold vis; now rewrite Ho, Hib, Hbi).
  assert (Hhid : hid s' = hid s) by (unfold hid; now rewrite Ho, Hib, Hbi).
  pose proof R as Rb. apply is_rej_spec in Rb.
  rewrite (Open_vis s' H1'). unfold Trackers.check_call, to_tobs. cbn [Trackers.t_open o_open rmap bind o_closed o_err Trackers.t_closed Trackers.t_err].
  rewrite Hn, rejecting_errn, Rb.
  eexists. split.
  - f_equal. apply first_some_none. repeat constructor.
    + apply req_none. destruct (haspts d) eqn:Hd; [reflexivity|]. simpl.
      destruct (no_pts_rejected s d Hd) as [X _]. rewrite X in H. inversion H; subst. reflexivity.
    + apply req_none. destruct (haspts d) eqn:Hd; [|reflexivity]. simpl.
      destruct (Hp eq_refl) as (r1 & ad & x & SR & _ & ->). destruct (scan_ring_err _ _ _ _ _ _ _ SR) as [-> | ->]; reflexivity.
    + rewrite (sim_prev _ _ _ _ S). destruct prev as [[j e]|]; [|reflexivity]. apply req_none.
      destruct (Nat.eqb_spec j i); [subst j|reflexivity]. simpl.
      destruct (haspts d) eqn:Hd; [|reflexivity]. simpl.
      destruct (twice_in_row _ _ _ _ _ _ _ _ _ _ S eq_refl Hn Hd H) as [ -> | [ -> -> ] ]; reflexivity.
    + apply req_none. simpl. rewrite Hv, (sim_vis _ _ _ _ S). apply list_eqb_refl.
  - destruct S. constructor; simpl; auto.
    + now rewrite Hv.
    + now rewrite Hhid.
    + now rewrite sim_proc0.
    + now rewrite Rb.
    + unfold discarded. rewrite Rb. simpl. rewrite app_nil_r. exact sim_gone0.
    + intros j e E. inversion E; subst. exists s, d, [], err. auto.
    + intros x [<-|Hx]; [eapply nth_error_In; exact Hn|now apply sim_pool0].
    + rewrite Rb. simpl. exact sim_pool_opened0.
Qed.


(* ---- the open-list clauses, from facts about the model's open lists ---- *)
Lemma open_clauses_ok : forall s g prev tg s' processed1 order1 (closed : list desc) me res,
  I1 s -> I1 s' -> Sim s g prev tg ->
  incl (open s) pool -> incl (open s') pool -> incl (gone g) pool -> incl closed pool ->
  NoDup (open s') ->
  incl (ids (open s')) processed1 ->
  (forall a, In a (open s') -> ~ In a (gone g)) ->
  (forall a, In a (open s') -> ~ In a closed) ->
  (forall a, In a (open s') -> ~ In a (open s) -> me = Some (id a)) ->
  (res = true \/ forall a, In a (open s) -> ~ In a (open s') -> In a closed) ->
  subseq (ids (open s')) order1 ->
  Trackers.open_clauses tg processed1 order1 (ids (vis s')) (option_map id (hid s')) (ids closed) me res = None.
Proof.
  intros s g prev tg s' processed1 order1 closed me res H1 H1' S Po Po' Pg Pc ND F2 F3 F4 F5 F6 F7.
  unfold Trackers.open_clauses. rewrite (sim_vis _ _ _ _ S), (sim_hid _ _ _ _ S).
  assert (C0 : forall x, In x (Trackers.cur (ids (vis s)) (option_map id (hid s))) <-> In x (ids (open s)))
    by (intros; now apply cur_in).
  assert (C1 : forall x, In x (Trackers.cur (ids (vis s')) (option_map id (hid s'))) <-> In x (ids (open s')))
    by (intros; now apply cur_in).
  assert (IN : forall (l : list desc) x, In x (ids l) -> exists a, id a = x /\ In a l).
  { intros l x Hx. unfold ids in Hx. apply in_map_iff in Hx. exact Hx. }
  apply first_some_none. repeat constructor; apply req_none.
  - apply nodup_b_spec. eapply Permutation_NoDup; [apply Permutation_sym, cur_perm; exact H1'|]. now apply ids_nodup.
  - apply subset_incl. intros x Hx. apply F2. now apply C1.
  - apply disjoint_spec. intros x Hx Hg. apply C1 in Hx. apply (sim_gone _ _ _ _ S) in Hg.
    destruct (IN _ _ Hx) as (a & <- & Ha). apply (F3 a Ha). apply in_ids; auto.
  - apply disjoint_spec. intros x Hx Hc. apply C1 in Hx. destruct (IN _ _ Hx) as (a & <- & Ha).
    apply (F4 a Ha). apply in_ids; auto.
  - apply subset_incl. intros x Hx. apply minus_in in Hx. destruct Hx as [Hx Hn]. apply C1 in Hx.
    destruct (IN _ _ Hx) as (a & <- & Ha).
    assert (~ In a (open s)) by (intros X; apply Hn; apply C0; unfold ids; now apply in_map).
    rewrite (F5 a Ha H). now left.
  - destruct F6 as [->|F6]; [reflexivity|]. apply orb_true_iff. right. apply is_nil_b_spec. intros x Hx.
    apply minus_in in Hx. destruct Hx as [Hx Hc]. apply minus_in in Hx. destruct Hx as [Hx Hn]. apply C0 in Hx.
    destruct (IN _ _ Hx) as (a & <- & Ha). apply Hc. unfold ids. apply in_map. apply F6; [exact Ha|].
    intros X. apply Hn. apply C1. unfold ids. now apply in_map.
  - apply subseq_b_complete. eapply subseq_trans; [|exact F7]. apply subseq_map. apply vis_subseq.
Qed.

Lemma spec_equal_of_Equal : forall d c, Equal d c = true -> Trackers.spec_equal d c = true.
Proof.
  intros d c H. apply Equal_spec in H. destruct H as (A & B & C & D & E & F & G & I & J).
  unfold Trackers.spec_equal. rewrite A, B, C, D, E, F, G, I, !N.eqb_refl, Bool.eqb_reflx. simpl.
  destruct (hassub c) eqn:Hs; [|reflexivity]. rewrite I in J. destruct (J eq_refl) as [-> ->]. now rewrite !N.eqb_refl.
Qed.

Lemma remove_at_keeps : forall {A} (l : list A) i c a, nth_error l i = Some c -> In a l -> a <> c -> In a (remove_at i l).
Proof.
  intros A l i c a Hn Ha Hne.
  assert (P : Permutation (c :: remove_at i l) l) by now apply remove_at_perm.
  apply Permutation_sym in P. apply (Permutation_in _ P) in Ha. destruct Ha as [->|Ha]; [congruence|exact Ha].
Qed.

(* ---- Close ---- *)
Lemma sim_close : forall s g prev tg i d s' closed err, I1 s -> I2 s g -> writes g <= 10 -> Sim s g prev tg ->
  nth_error pool i = Some d -> Close s d = (s', (closed, err)) ->
  exists tg', Trackers.check_call pool tg (Trackers.TClose i)
                (to_tobs (mkObs (ids closed) (errn err) (rmap ids (Open s')))) = (None, tg') /\
              Sim s' (gnext_close closed g) None tg'.
Proof.
  intros s g prev tg i d s' closed err H1 H2 W SM Hn H.
  pose proof (close_I1 s d H1) as H1'. rewrite H in H1'. simpl in H1'.
  pose proof (close_I2 _ _ _ _ _ _ H2 H) as H2'.
  rewrite (Open_vis s' H1'). unfold Trackers.check_call, to_tobs.
  cbn [Trackers.t_open o_open rmap bind o_closed o_err Trackers.t_closed Trackers.t_err]. rewrite Hn.
  destruct (close_sound _ _ _ _ _ H) as [(-> & -> & -> & _)|(-> & k & c & -> & Hk & He & Ho & _)].
  - (* not found *)
    simpl. rewrite (sim_vis _ _ _ _ SM), list_eqb_refl. eexists. split; [reflexivity|].
    destruct SM. constructor; simpl; auto. rewrite app_nil_r. exact sim_gone0. discriminate.
  - (* found *)
    destruct H2 as (Ha & Hb & Hc). destruct (Hc W) as (C1 & C2 & C3 & C4 & C5).
    destruct H2' as (Ha' & Hb' & Hc'). simpl in Hc'. destruct (Hc' W) as (C1' & C2' & C3' & _).
    assert (NDo : NoDup (open s)) by (eapply subseq_nodup; eassumption).
    assert (Po : incl (open s) pool) by (intros x Hx; apply (sim_pool _ _ _ _ SM); now apply Ha).
    assert (Po' : incl (open s') pool) by (intros x Hx; apply Po; rewrite Ho in Hx; eapply remove_at_in; exact Hx).
    assert (Pg : incl (gone g) pool) by (intros x Hx; apply (sim_pool_opened _ _ _ _ SM); now apply C2).
    assert (Hci : In c (open s)) by (eapply nth_error_In; exact Hk).
    assert (Pc : incl [c] pool) by (intros x [<-|[]]; now apply Po).
    destruct (close_flags _ _ _ _ _ _ _ H eq_refl Hk eq_refl Ho NDo) as [Fi Fb].
    (* the hidden breakaway after the call *)
    assert (HH : match Trackers.g_hidden tg with
                 | Some h => if Trackers.mem h (ids [c]) then None else Some h
                 | None => None
                 end = option_map id (hid s')).
    { rewrite (sim_hid _ _ _ _ SM). unfold hid. rewrite Fi, Fb. destruct H1 as (B & _).
      destruct (inBlackout s) eqn:Ei; simpl; [|reflexivity].
      destruct (B Ei) as [Lb (b & Hbk & _)]. rewrite Hbk. simpl.
      destruct (Nat.eqb_spec k (blackoutIdx s)) as [->|Hne]; simpl.
      - assert (b = c) by congruence. subst. now rewrite N.eqb_refl.
      - assert (Hbc : b <> c).
        { intros ->. apply Hne. rewrite (NoDup_nth_error (open s)) in NDo. apply NDo; [apply nth_error_Some; congruence|congruence]. }
        assert ((id b =? id c)%N = false) as ->.
        { apply N.eqb_neq. intros E. apply Hbc. apply id_inj; auto. apply Po. eapply nth_error_In; exact Hbk. }
        simpl. rewrite Ho. assert (Lk : k < length (open s)) by (apply nth_error_Some; congruence).
        destruct (Nat.ltb_spec k (blackoutIdx s)).
        + rewrite nth_error_remove_ge by lia. replace (S (blackoutIdx s - 1)) with (blackoutIdx s) by lia. now rewrite Hbk.
        + rewrite nth_error_remove_lt by lia. now rewrite Hbk. }
    simpl errn. cbn [N.eqb]. rewrite HH.
    eexists. split.
    + f_equal. apply first_some_none. repeat constructor.
      * apply req_none. apply subset_incl. intros x [<-|[]]. rewrite (sim_vis _ _ _ _ SM), (sim_hid _ _ _ _ SM).
        apply cur_in; [exact H1|]. unfold ids. now apply in_map.
      * apply req_none. apply disjoint_spec. intros x [<-|[]] Hg. apply (sim_gone _ _ _ _ SM) in Hg.
        apply (C3 c); [|exact Hci]. apply in_ids; auto.
      * apply req_none. simpl. rewrite (by_id_pool c (Po c Hci)), (spec_equal_of_Equal _ _ He). reflexivity.
      * eapply open_clauses_ok with (s := s) (g := g); eauto.
        -- rewrite Ho. eapply subseq_nodup; [apply subseq_remove_at|exact NDo].
        -- rewrite (sim_proc _ _ _ _ SM). intros x Hx. unfold ids in *. apply in_map_iff in Hx. destruct Hx as (a & <- & Hx).
           apply in_map. now apply Ha'.
        -- intros a Hx Hg. apply (C3' a); [simpl; apply in_or_app; now left|exact Hx].
        -- intros a Hx [<-|[]]. rewrite Ho in Hx. exact (NoDup_remove_at _ _ _ NDo Hk Hx).
        -- intros a Hx Hnx. exfalso. apply Hnx. rewrite Ho in Hx. eapply remove_at_in; exact Hx.
        -- right. intros a Hx Hnx. left. destruct (N.eq_dec (id a) (id c)) as [E|E]; [apply id_inj in E; auto; now subst|].
           assert (a <> c) by (intros ->; now apply E).
           exfalso. apply Hnx. rewrite Ho. eapply remove_at_keeps; eauto.
        -- rewrite (sim_order _ _ _ _ SM). apply subseq_map. exact Hb'.
    + destruct SM. constructor; simpl; auto.
      * intros x. rewrite in_app_iff, sim_gone0. unfold ids. rewrite map_app, in_app_iff. simpl. tauto.
      * discriminate.
Qed.

(* ---- ProcessDescriptor, accepted ---- *)
Lemma in_ids_map : forall (l : list desc) a, In a l -> In (id a) (ids l).
Proof. intros l a H. unfold ids. now apply in_map. Qed.

Lemma sim_process_accepted : forall s g prev tg i d s' closed err, I1 s -> I2 s g -> Sim s g prev tg ->
  nth_error pool i = Some d -> ProcessDescriptor s d = Ok (s', (closed, err)) -> ~ rejection err ->
  writes (gnext_process s s' d closed err g) <= 10 ->
  exists tg', Trackers.check_call pool tg (Trackers.TProcess i)
                (to_tobs (mkObs (ids closed) (errn err) (rmap ids (Open s')))) = (None, tg') /\
              Sim s' (gnext_process s s' d closed err g) (Some (i, errn err)) tg'.
Proof.
  intros s g prev tg i d s' closed err H1 H2 SM Hn H NR W'.
  destruct (process_I1 s d H1) as (s'' & r'' & HP & H1'). rewrite H in HP. inversion HP; subst s'' r''. clear HP.
  pose proof (process_I2 _ _ _ _ _ _ H1 H2 H) as H2'.
  assert (NRb : is_rej err = false).
  { destruct (is_rej err) eqn:X; [|reflexivity]. exfalso. apply NR. now apply is_rej_spec. }
  assert (W0 : writes g <= 10) by (revert W'; simpl; destruct (receivedHead s' =? receivedHead s); lia).
  destruct (closed_once_process _ _ _ _ _ _ (conj H1 H2) W0 H) as [NDc CO].
  destruct (process_closed_sound _ _ _ _ _ H1 H) as (keep0 & _ & CC & _).
  pose proof (process_flags _ _ _ _ _ H1 H NR) as FL. cbv zeta in FL.
  destruct (process_shape _ _ _ _ _ H1 H) as [(R & _)|(_ & Hd & _ & Hcl & keep & Hko & Ho)]; [contradiction|].
  cbv zeta in Ho.
  assert (Hkeep : firstn (length (open s) - length closed) (open s) = keep).
  { rewrite Hko. rewrite <- (rev_length closed). apply firstn_app_exact. }
  rewrite Hkeep in FL. destruct FL as (FL13 & FL14 & FLo).
  destruct H2 as (Ha & Hb & Hc). destruct (Hc W0) as (C1 & C2 & C3 & C4 & C5).
  destruct H2' as (Ha' & Hb' & Hc'). destruct (Hc' W') as (C1' & C2' & C3' & _).
  assert (NDo : NoDup (open s)) by (eapply subseq_nodup; eassumption).
  assert (NDo' : NoDup (open s')) by (eapply subseq_nodup; eassumption).
  assert (Pd : In d pool) by (eapply nth_error_In; exact Hn).
  assert (Po : incl (open s) pool) by (intros x Hx; apply (sim_pool _ _ _ _ SM); now apply Ha).
  assert (Po' : incl (open s') pool).
  { intros x Hx. apply Ha' in Hx. simpl in Hx. destruct Hx as [<-|Hx]; [exact Pd|now apply (sim_pool _ _ _ _ SM)]. }
  assert (Pg : incl (gone g) pool) by (intros x Hx; apply (sim_pool_opened _ _ _ _ SM); now apply C2).
  assert (Pc : incl closed pool) by (intros x Hx; apply Po; now apply CO).
  set (keep' := if (ty d =? 20)%N && inb_after_close s keep then firstn (blackoutIdx s) keep else keep) in *.
  assert (Kin' : forall a, In a keep' -> In a keep).
  { intros a Hx. unfold keep' in Hx. destruct ((ty d =? 20)%N && inb_after_close s keep); [|exact Hx].
    eapply subseq_in; [apply subseq_firstn|exact Hx]. }
  assert (Kin : forall a, In a keep -> In a (open s)) by (intros a Hx; rewrite Hko; apply in_or_app; now left).
  rewrite Hko in NDo. destruct (NoDup_app_inv _ _ NDo) as (NDk & _ & Dkc). rewrite <- Hko in NDo.
  assert (Os' : forall a, In a (open s') -> In a keep' \/ a = d).
  { intros a Hx. rewrite Ho in Hx. destruct (appended (ty d)); [apply in_app_or in Hx; destruct Hx as [ ? | [ <- | [] ] ]; auto|auto]. }
  assert (Fresh : appended (ty d) = true -> ~ In d (open s)).
  { intros Ap X. simpl in C1'. rewrite NRb, Ap in C1'. simpl in C1'.
    apply NoDup_app_inv in C1'. destruct C1' as (_ & _ & D). apply (D d); [eapply subseq_in; [exact Hb|exact X]|now left]. }
  (* the hidden breakaway after the call *)
  assert (HH : (if (ty d =? 0x13)%N then Some (id d)
                else if (ty d =? 0x14)%N then None
                else match Trackers.g_hidden tg with
                     | Some h => if Trackers.mem h (ids closed) then None else Some h
                     | None => None
                     end) = option_map id (hid s')).
  { unfold hid. destruct (ty d =? 0x13)%N eqn:T13.
    - destruct (FL13 eq_refl) as [-> ->]. rewrite Ho. unfold appended. rewrite T13. simpl.
      assert (keep' = keep) as ->.
      { unfold keep'. apply N.eqb_eq in T13. try rewrite T13. reflexivity. }
      rewrite nth_error_app2 by lia. rewrite Nat.sub_diag. reflexivity.
    - destruct (ty d =? 0x14)%N eqn:T14.
      + rewrite (FL14 eq_refl). reflexivity.
      + destruct (FLo eq_refl eq_refl) as [-> ->]. rewrite (sim_hid _ _ _ _ SM). unfold hid, inb_after_close.
        destruct (inBlackout s) eqn:Ei; simpl; [|reflexivity].
        destruct H1 as (B & _). destruct (B Ei) as [Lb (b & Hbk & _)]. rewrite Hbk. simpl.
        assert (keep' = keep) as -> by (unfold keep'; try rewrite T14; reflexivity).
        destruct (Nat.leb_spec (length keep) (blackoutIdx s)).
        * assert (In b closed).
          { rewrite Hko in Hbk. rewrite nth_error_app2 in Hbk by lia. apply nth_error_In in Hbk. now apply in_rev in Hbk. }
          assert (Trackers.mem (id b) (ids closed) = true) as -> by (apply mem_in; now apply in_ids_map). reflexivity.
        * assert (Hk : nth_error keep (blackoutIdx s) = Some b).
          { rewrite Hko in Hbk. rewrite nth_error_app1 in Hbk by lia. exact Hbk. }
          assert (Trackers.mem (id b) (ids closed) = false) as ->.
          { apply mem_false. intros X. apply in_ids in X; auto.
            - apply (Dkc b); [eapply nth_error_In; exact Hk|now apply -> in_rev].
            - apply Po. apply Kin. eapply nth_error_In; exact Hk. }
          rewrite Ho. destruct (appended (ty d)); [rewrite nth_error_app1 by lia|]; now rewrite Hk. }
  (* the incoming descriptor enters the open list iff its type is an appended one *)
  assert (EN : Trackers.mem (id d) (Trackers.minus (Trackers.cur (ids (vis s')) (option_map id (hid s')))
                                 (Trackers.cur (Trackers.g_vis tg) (Trackers.g_hidden tg))) = appended (ty d)).
  { rewrite (sim_vis _ _ _ _ SM), (sim_hid _ _ _ _ SM). destruct (appended (ty d)) eqn:Ap.
    - apply mem_in. apply minus_in. split.
      + apply cur_in; [exact H1'|]. apply in_ids_map. rewrite Ho; try rewrite Ap. apply in_or_app. right. now left.
      + intros X. apply cur_in in X; [|exact H1]. apply in_ids in X; auto. apply Fresh; [reflexivity || exact Ap|exact X].
    - apply mem_false. intros X. apply minus_in in X. destruct X as [X Y]. apply Y. apply cur_in; [exact H1|].
      apply cur_in in X; [|exact H1']. apply in_ids in X; auto. apply in_ids_map.
      rewrite Ho in X; try rewrite Ap in X. apply Kin. now apply Kin'. }
  rewrite (Open_vis s' H1'). unfold Trackers.check_call, to_tobs.
  cbn [Trackers.t_open o_open rmap bind o_closed o_err Trackers.t_closed Trackers.t_err].
  rewrite Hn, rejecting_errn, NRb. cbv zeta. rewrite HH, EN.
  eexists. split.
  - f_equal. apply first_some_none. repeat constructor.
    + apply req_none. exact Hd.
    + rewrite (sim_prev _ _ _ _ SM). destruct prev as [[j e]|]; [|reflexivity]. apply req_none.
      destruct (Nat.eqb_spec j i); [subst j|reflexivity]. exfalso.
      destruct (twice_in_row _ _ _ _ _ _ _ _ _ _ SM eq_refl Hn Hd H) as [ -> | [ _ -> ] ]; apply NR; unfold rejection; auto.
    + apply req_none. apply subset_incl. intros x Hx. rewrite (sim_vis _ _ _ _ SM), (sim_hid _ _ _ _ SM).
      apply cur_in; [exact H1|]. unfold ids in *. apply in_map_iff in Hx. destruct Hx as (a & <- & Hx). apply in_map. now apply CO.
    + apply req_none. apply andb_true_iff. split.
      * apply nodup_b_spec. now apply ids_nodup.
      * apply disjoint_spec. intros x Hx Hg. apply (sim_gone _ _ _ _ SM) in Hg.
        unfold ids in Hx. apply in_map_iff in Hx. destruct Hx as (a & <- & Hx).
        apply (in_ids _ _ Pg (Pc a Hx)) in Hg. destruct (CO a Hx) as (_ & X & _). exact (X Hg).
    + apply req_none. apply forallb_forall. intros x Hx. unfold ids in Hx. apply in_map_iff in Hx. destruct Hx as (a & <- & Hx).
      rewrite (by_id_pool a (Pc a Hx)). unfold Trackers.spec_closes. rewrite <- can_close_abstraction.
      rewrite Forall_forall in CC. now apply CC.
    + apply req_none. apply subseq_b_complete. rewrite (sim_order _ _ _ _ SM). unfold ids. rewrite <- map_rev.
      apply subseq_map. rewrite <- (rev_involutive closed). apply subseq_rev.
      eapply subseq_trans; [|exact Hb]. rewrite Hko. apply subseq_app_r.
    + eapply open_clauses_ok with (s := s) (g := g); eauto.
      * rewrite (sim_proc _ _ _ _ SM). intros x Hx. unfold ids in Hx. apply in_map_iff in Hx. destruct Hx as (a & <- & Hx).
        apply Ha' in Hx. simpl in Hx. destruct Hx as [<-|Hx]; [now left|right; now apply in_ids_map].
      * intros a Hx Hg. apply (C3' a); [simpl; apply in_or_app; now left|exact Hx].
      * intros a Hx Hcx. now apply (CO a Hcx).
      * intros a Hx Hnx. destruct (Os' a Hx) as [Hk| ->]; [|reflexivity]. exfalso. apply Hnx. apply Kin. now apply Kin'.
      * destruct (ty d =? 0x14)%N eqn:T14; [now left|right]. intros a Hx Hnx.
        rewrite Hko in Hx. apply in_app_or in Hx. destruct Hx as [Hx|Hx]; [|now apply in_rev in Hx].
        exfalso. apply Hnx. rewrite Ho. assert (keep' = keep) as -> by (unfold keep'; try rewrite T14; reflexivity).
        destruct (appended (ty d)); [apply in_or_app; now left|exact Hx].
      * rewrite (sim_order _ _ _ _ SM). simpl in Hb'. rewrite NRb in Hb'. simpl in Hb'.
        destruct (appended (ty d)).
        -- change [id d] with (ids [d]). unfold ids. rewrite <- map_app. apply subseq_map. exact Hb'.
        -- apply subseq_map. exact Hb'.
  - destruct SM. constructor; simpl; auto.
    + now rewrite sim_proc0.
    + rewrite NRb. simpl. destruct (appended (ty d)); [|exact sim_order0]. rewrite sim_order0. unfold ids. now rewrite map_app.
    + (* gone *)
      intros x. rewrite !in_app_iff, sim_gone0.
      replace (ids (gone g ++ closed ++ discarded s d closed err))
        with (ids (gone g) ++ ids closed ++ map id (discarded s d closed err)) by (unfold ids; now rewrite !map_app).
      rewrite !in_app_iff. rewrite sim_vis0, sim_hid0.
      assert (DI : In x (Trackers.minus (Trackers.minus (Trackers.cur (ids (vis s)) (option_map id (hid s)))
                          (Trackers.cur (ids (vis s')) (option_map id (hid s')))) (ids closed)) <->
                   In x (map id (discarded s d closed err))).
      { rewrite !minus_in. rewrite (cur_in s x H1), (cur_in s' x H1'). unfold discarded. rewrite NRb, Hkeep. cbn [negb andb].
        split.
        - intros [[X1 X2] X3]. unfold ids in X1. apply in_map_iff in X1. destruct X1 as (a & <- & X1).
          assert (Ak : In a keep).
          { rewrite Hko in X1. apply in_app_or in X1. destruct X1 as [X1|X1]; [exact X1|].
            exfalso. apply X3. apply in_ids_map. now apply in_rev in X1. }
          assert (An : ~ In a keep').
          { intros Y. apply X2. apply in_ids_map. rewrite Ho. destruct (appended (ty d)); [apply in_or_app; now left|exact Y]. }
          unfold keep' in An. destruct ((ty d =? 20)%N && inb_after_close s keep); [|contradiction].
          apply in_map. rewrite <- (firstn_skipn (blackoutIdx s) keep) in Ak. apply in_app_or in Ak. tauto.
        - intros X. destruct ((ty d =? 20)%N && inb_after_close s keep) eqn:RS; [|contradiction].
          apply in_map_iff in X. destruct X as (a & <- & X).
          assert (Ak : In a keep) by (rewrite <- (firstn_skipn (blackoutIdx s) keep); apply in_or_app; now right).
          assert (Ag : In a (gone (gnext_process s s' d closed err g))).
          { simpl. apply in_or_app. right. apply in_or_app. right. unfold discarded. rewrite NRb, Hkeep. cbn [negb andb]. now rewrite RS. }
          split; [split|].
          + apply in_ids_map. now apply Kin.
          + intros Y. apply in_ids in Y; auto. exact (C3' a Ag Y).
          + intros Y. apply in_ids in Y; auto. apply (Dkc a Ak). now apply -> in_rev. }
      rewrite DI. unfold ids. tauto.
    + intros j e E. injection E as <- <-. exists s, d, closed, err. auto.
    + intros x [<-|Hx]; [exact Pd|now apply sim_pool0].
    + rewrite NRb. simpl. destruct (appended (ty d)); [|exact sim_pool_opened0].
      intros x Hx. apply in_app_or in Hx. destruct Hx as [Hx | [ <- | [] ] ]; [now apply sim_pool_opened0|exact Pd].
Qed.

(* ---------- every history ---------- *)
Lemma processed_of_mono : forall cs acc, distinct (pts_of acc) <= distinct (pts_of (processed_of pool cs acc)).
Proof.
  induction cs as [|c t IH]; intros acc; simpl; [lia|].
  destruct c as [i|i|]; [|apply IH|apply IH].
  destruct (nth_error pool i) as [d|]; [|lia].
  eapply Nat.le_trans; [apply (distinct_pts_mono d acc)|apply IH].
Qed.

Lemma to_tobs_eq : forall o, StateExec.tobs_of_obs (Some o) = to_tobs o.
Proof. reflexivity. Qed.

Lemma check_from_run : forall cs s g prev tg k,
  InvM (s, g) -> Sim s g prev tg -> Forall (call_in_pool pool) cs ->
  distinct (pts_of (processed_of pool cs (processed g))) <= 10 ->
  Trackers.check_from pool tg k (map StateExec.tcall_of_call cs) (map StateExec.tobs_of_obs (run pool s cs)) = None.
Proof.
  induction cs as [|c t IH]; intros s g prev tg k HI SM HF D; [reflexivity|].
  inversion HF as [|? ? Hc HF']; subst.
  destruct (invM_step pool (s, g) c HI Hc) as ([s' g'] & HS & HI').
  pose proof HI as [[H1 H2] HM]. pose proof HI' as [[H1' H2'] HM']. simpl in H1, H2, HM, H1', H2', HM'.
  destruct c as [i|i|]; simpl in HS, D, Hc.
  - (* ProcessDescriptor *)
    destruct (nth_error pool i) as [d|] eqn:Hn; [|discriminate].
    destruct (ProcessDescriptor s d) as [[s1 [closed err]]| | |] eqn:HP; try discriminate. cbn [bind] in HS.
    inversion HS; subst s1 g'. clear HS.
    assert (W' : writes (gnext_process s s' d closed err g) <= 10).
    { assert (X : distinct (pts_of (processed (gnext_process s s' d closed err g))) <= 10).
      { simpl. eapply Nat.le_trans; [apply (processed_of_mono t (d :: processed g))|exact D]. }
      pose proof (M_writes _ _ HM' X). lia. }
    simpl. rewrite Hn, HP. cbn [bind]. rewrite (Open_vis s' H1'). simpl.
    assert (SIM : exists tg', Trackers.check_call pool tg (Trackers.TProcess i)
                (to_tobs (mkObs (ids closed) (errn err) (rmap ids (Open s')))) = (None, tg') /\
              Sim s' (gnext_process s s' d closed err g) (Some (i, errn err)) tg').
    { destruct (is_rej err) eqn:R.
      - apply (sim_process_rejected s g prev tg i d s' closed err); auto. now apply is_rej_spec.
      - apply (sim_process_accepted s g prev tg i d s' closed err); auto. intros X. apply is_rej_spec in X. congruence. }
    destruct SIM as (tg' & CK & SM'). rewrite (Open_vis s' H1') in CK. unfold to_tobs in CK. simpl in CK.
    unfold StateExec.tobs_of_obs at 1. simpl. rewrite CK.
    eapply IH; eauto.
  - (* Close *)
    destruct (nth_error pool i) as [d|] eqn:Hn; [|discriminate].
    destruct (Close s d) as [s1 [closed err]] eqn:HC. inversion HS; subst s1 g'. clear HS.
    assert (W0 : writes g <= 10).
    { assert (X : distinct (pts_of (processed g)) <= 10).
      { eapply Nat.le_trans; [apply (processed_of_mono t (processed g))|exact D]. }
      pose proof (M_writes _ _ HM X). lia. }
    simpl. rewrite Hn, HC. rewrite (Open_vis s' H1'). simpl.
    destruct (sim_close _ _ _ _ _ _ _ _ _ H1 H2 W0 SM Hn HC) as (tg' & CK & SM').
    rewrite (Open_vis s' H1') in CK. unfold to_tobs in CK. simpl in CK.
    unfold StateExec.tobs_of_obs at 1. simpl. rewrite CK.
    eapply IH; eauto.
  - (* Open *)
    inversion HS; subst s' g'. clear HS.
    simpl. rewrite (Open_vis s H1). simpl. rewrite (sim_vis _ _ _ _ SM), list_eqb_refl. simpl.
    eapply IH with (g := g) (prev := prev); eauto.
    destruct SM. constructor; simpl; auto.
Qed.

(* MODEL MEETS SPEC: the trace checker accepts what the model does, for every history over a
   well-numbered pool with at most 10 distinct signal times *)
Theorem checker_accepts_model : forall cs, Forall (call_in_pool pool) cs -> distinct_pts pool cs <= 10 ->
  Trackers.check pool (map StateExec.tcall_of_call cs) (map StateExec.tobs_of_obs (run pool NewState cs)) = None.
Proof.
  intros cs HF D. unfold Trackers.check. rewrite Hpool.
  apply check_from_run with (g := g0) (prev := None); auto.
  - split; [exact Inv_new|exact M_new].
  - exact Sim_new.
Qed.
End Pool.
