(* Proofs for C17 over ARBITRARY histories: the completion / error / refusal / reset clauses as
   invariants of every reachable state and as characterisations of one WritePacket step from every
   reachable state (any list of WritePacket/Reset/Bytes/Packets calls, any predicate). *)
From Gots Require Import Base.Prelude Model.Accumulator Spec.AccSpecDef Proofs.AccProofs.
Import Accumulator AccSpec.
Local Open Scope N_scope.

(* ---- list helpers ---- *)
Lemma prefix_k {A} (l r : list A) (d : A) k : (0 < k <= length l)%nat ->
  nth (k - 1) (l ++ r) d = nth (k - 1) l d /\ firstn k (l ++ r) = firstn k l.
Proof.
  intro H. split.
  - apply app_nth1. lia.
  - rewrite firstn_app. replace (k - length l)%nat with O by lia. cbn [firstn]. apply app_nil_r.
Qed.

(* ---- the abstract machine: invariant of every reachable state ---- *)
(* the predicate has not held after any packet of ps that has a usable payload *)
Definition never_held (f : AccSpec.pred) (ps : list bytes) : Prop :=
  forall k, (0 < k <= length ps)%nat -> payload_of (nth (k - 1) ps []) <> None ->
            holds f (bytes_of (firstn k ps)) = false.

Lemma never_held_nil f : never_held f [].
Proof. intros k Hk. cbn [length] in Hk. lia. Qed.

Lemma never_held_snoc f ps pkt : never_held f ps ->
  (payload_of pkt <> None -> holds f (bytes_of (ps ++ [pkt])) = false) ->
  never_held f (ps ++ [pkt]).
Proof.
  intros Hn Hp k Hk Hpay. rewrite app_length in Hk. cbn [length] in Hk.
  destruct (Nat.eq_dec k (S (length ps))) as [->|Hne].
  - rewrite firstn_all2 by (rewrite app_length; cbn [length]; lia).
    apply Hp. replace (S (length ps) - 1)%nat with (length ps) in Hpay by lia.
    rewrite app_nth2 in Hpay by lia. rewrite Nat.sub_diag in Hpay. exact Hpay.
  - destruct (prefix_k ps [pkt] [] k ltac:(lia)) as [E1 E2]. rewrite E2.
    apply Hn; [lia|]. rewrite <- E1. exact Hpay.
Qed.

Definition a_inv (f : AccSpec.pred) (s : astate) : Prop :=
  match s with
  | ANone => True
  | AAcc ps => ps <> [] /\ unit_shape ps /\ never_held f ps
  | ADone ps => exists ps0 p, ps = ps0 ++ [p] /\ unit_shape ps /\ never_held f ps0 /\
                              payload_of p <> None /\ holds f (bytes_of ps) = true
  end.

Lemma a_add_inv f ps pkt : unit_shape (ps ++ [pkt]) -> never_held f ps -> a_inv f (fst (a_add f ps pkt)).
Proof.
  intros Hu Hn. unfold a_add.
  assert (Hne : ps ++ [pkt] <> []) by (destruct ps; discriminate).
  destruct (payload_of pkt) as [b|] eqn:Hpay.
  - destruct (f (bytes_of (ps ++ [pkt]))) as [[|] [e|]] eqn:Hf; cbn [fst a_inv].
    + split; [exact Hne|]. split; [exact Hu|]. apply never_held_snoc; [exact Hn|].
      intros _. unfold holds. rewrite Hf. reflexivity.
    + exists ps, pkt. split; [reflexivity|]. split; [exact Hu|]. split; [exact Hn|].
      split; [rewrite Hpay; discriminate|]. unfold holds. rewrite Hf. reflexivity.
    + split; [exact Hne|]. split; [exact Hu|]. apply never_held_snoc; [exact Hn|].
      intros _. unfold holds. rewrite Hf. reflexivity.
    + split; [exact Hne|]. split; [exact Hu|]. apply never_held_snoc; [exact Hn|].
      intros _. unfold holds. rewrite Hf. reflexivity.
  - cbn [fst a_inv]. split; [exact Hne|]. split; [exact Hu|]. apply never_held_snoc; [exact Hn|].
    intro H. rewrite Hpay in H. contradiction H. reflexivity.
Qed.

Lemma a_write_inv f s pkt : a_inv f s -> a_inv f (fst (a_write f s pkt)).
Proof.
  destruct s as [|ps|ps]; cbn [a_write]; intro Hi.
  - destruct (has_pusi pkt) eqn:Hp; [|exact I].
    apply a_add_inv; [cbn [app unit_shape]; auto|apply never_held_nil].
  - destruct Hi as [Hne [Hu Hn]]. destruct (has_pusi pkt) eqn:Hp.
    + apply a_add_inv; [cbn [app unit_shape]; auto|apply never_held_nil].
    + apply a_add_inv; [|exact Hn]. destruct ps as [|p t]; [contradiction Hne; reflexivity|].
      cbn [app unit_shape] in *. destruct Hu as [Hu1 Hu2]. split; [exact Hu1|].
      apply Forall_app. split; [exact Hu2|]. constructor; [exact Hp|constructor].
  - exact Hi.
Qed.

Lemma a_step_inv f s o : a_inv f s -> a_inv f (fst (a_step f s o)).
Proof.
  intro Hi. destruct o as [pkt| | |]; cbn [a_step].
  - pose proof (a_write_inv f s pkt Hi) as H. destruct (a_write f s pkt) as [s' e]. exact H.
  - exact I.
  - exact Hi.
  - exact Hi.
Qed.

Lemma a_exec_inv f : forall ops s, a_inv f s -> a_inv f (a_exec f s ops).
Proof.
  induction ops as [|o t IH]; intros s Hi; [exact Hi|].
  cbn [a_exec]. apply IH. apply a_step_inv. exact Hi.
Qed.

(* the reader's form of the invariant *)
Definition a_completion (f : AccSpec.pred) (s : astate) : Prop :=
  match s with
  | ANone => True
  | AAcc ps =>
      ps <> [] /\ unit_shape ps /\
      forall k, (0 < k <= length ps)%nat -> payload_of (nth (k - 1) ps []) <> None ->
                holds f (bytes_of (firstn k ps)) = false
  | ADone ps =>
      ps <> [] /\ unit_shape ps /\ payload_of (last ps []) <> None /\ holds f (bytes_of ps) = true /\
      forall k, (0 < k < length ps)%nat -> payload_of (nth (k - 1) ps []) <> None ->
                holds f (bytes_of (firstn k ps)) = false
  end.

Lemma a_inv_completion f s : a_inv f s -> a_completion f s.
Proof.
  destruct s as [|ps|ps]; cbn [a_inv a_completion]; intro Hi; [exact I|exact Hi|].
  destruct Hi as [ps0 [p [-> [Hu [Hn [Hpay Hh]]]]]].
  split; [destruct ps0; discriminate|]. split; [exact Hu|].
  split; [rewrite last_last; exact Hpay|]. split; [exact Hh|].
  intros k Hk Hpk. rewrite app_length in Hk. cbn [length] in Hk.
  destruct (prefix_k ps0 [p] [] k ltac:(lia)) as [E1 E2]. rewrite E2.
  apply Hn; [lia|]. rewrite <- E1. exact Hpk.
Qed.

Lemma completion_invariant_abs f ops : a_completion f (a_exec f ANone ops).
Proof. apply a_inv_completion. apply a_exec_inv. exact I. Qed.

(* ---- transport to the model through R ---- *)
Lemma exec_a_exec f : forall ops a s, R a s -> Forall wf_op ops ->
  exists a', exec f a ops = Ok a' /\ R a' (a_exec f s (map abs_op ops)).
Proof.
  induction ops as [|o t IH]; intros a s HR Hwf; [exists a; auto|].
  inversion Hwf as [|? ? Ho Ht]; subst. cbn [exec map a_exec].
  destruct o as [pkt| | |]; cbn [step bind abs_op a_step].
  - destruct (write_packet_spec f a s pkt Ho HR) as [a' [Hwp HR']]. rewrite Hwp. cbn [bind].
    destruct (a_write f s pkt) as [s' e]. cbn [fst] in *. exact (IH _ _ HR' Ht).
  - exact (IH _ _ R_new Ht).
  - exact (IH _ _ HR Ht).
  - exact (IH _ _ HR Ht).
Qed.

Lemma reach_R f ops a : Forall wf_op ops -> exec f new_acc ops = Ok a ->
  R a (a_exec f ANone (map abs_op ops)).
Proof.
  intros Hwf He. destruct (exec_a_exec f ops new_acc ANone R_new Hwf) as [a' [He' HR]].
  rewrite He in He'. injection He' as <-. exact HR.
Qed.

Lemma state_ne_01 : stateStarting <> stateAccumulating. Proof. discriminate. Qed.
Lemma state_ne_02 : stateStarting <> stateDone. Proof. discriminate. Qed.
Lemma state_ne_12 : stateAccumulating <> stateDone. Proof. discriminate. Qed.

Definition completion_inv (f : Accumulator.pred) (a : acc) : Prop :=
  let ps := get_packets a in
  (state a = stateStarting \/ state a = stateAccumulating \/ state a = stateDone) /\
  (state a = stateStarting -> ps = [] /\ get_bytes a = []) /\
  (state a = stateAccumulating ->
     ps <> [] /\ get_bytes a = bytes_of ps /\
     forall k, (0 < k <= length ps)%nat -> payload_of (nth (k - 1) ps []) <> None ->
               holds f (bytes_of (firstn k ps)) = false) /\
  (state a = stateDone ->
     ps <> [] /\ payload_of (last ps []) <> None /\ holds f (bytes_of ps) = true /\
     get_bytes a = bytes_of ps /\
     forall k, (0 < k < length ps)%nat -> payload_of (nth (k - 1) ps []) <> None ->
               holds f (bytes_of (firstn k ps)) = false).

Lemma R_completion f a s : R a s -> a_completion f s -> completion_inv f a.
Proof.
  pose proof state_ne_01 as N01. pose proof state_ne_02 as N02. pose proof state_ne_12 as N12.
  unfold completion_inv, get_packets, get_bytes.
  destruct s as [|ps|ps]; cbn [R a_completion]; intros [Hs [Hp Hb]] Hc; rewrite Hs, Hp, Hb.
  - split; [auto|]. split; [auto|]. split; intro H; exfalso; congruence.
  - destruct Hc as [Hne [_ Hn]]. split; [auto|]. split; [intro H; exfalso; congruence|].
    split; [intros _; auto|intro H; exfalso; congruence].
  - destruct Hc as [Hne [_ [Hl [Hh Hn]]]]. split; [auto|]. split; [intro H; exfalso; congruence|].
    split; [intro H; exfalso; congruence|]. intros _. auto.
Qed.

Lemma completion_invariant f ops : Forall wf_op ops ->
  exists a, exec f new_acc ops = Ok a /\ completion_inv f a.
Proof.
  intro Hwf. destruct (exec_a_exec f ops new_acc ANone R_new Hwf) as [a [He HR]].
  exists a. split; [exact He|]. apply (R_completion f a _ HR). apply completion_invariant_abs.
Qed.

(* the listed packets of every reachable state form one unit: empty, or a unit start followed
   by packets that are not unit starts *)
Lemma unit_shape_reach f ops : Forall wf_op ops ->
  exists a, exec f new_acc ops = Ok a /\ unit_shape (get_packets a).
Proof.
  intro Hwf. destruct (exec_a_exec f ops new_acc ANone R_new Hwf) as [a [He HR]].
  exists a. split; [exact He|]. destruct (R_obs a _ HR) as [_ Hp]. rewrite Hp.
  pose proof (completion_invariant_abs f (map abs_op ops)) as Hc.
  destruct (a_exec f ANone (map abs_op ops)) as [|ps|ps]; cbn [a_packets a_completion] in *.
  - exact I.
  - exact (proj1 (proj2 Hc)).
  - exact (proj1 (proj2 Hc)).
Qed.

(* ---- one WritePacket step from an arbitrary state ---- *)
Lemma add_packet_result f a pkt : wf_pkt pkt ->
  add_packet f a pkt =
  match payload_of pkt with
  | None => Ok (mkA (state a) (buf a) (packets a ++ [pkt]), (188%Z, Some (payload_err pkt)))
  | Some b =>
    match f (buf a ++ b) with
    | (_, Some e) => Ok (mkA (state a) (buf a ++ b) (packets a ++ [pkt]), (188%Z, Some e))
    | (true, None) => Ok (mkA stateDone (buf a ++ b) (packets a ++ [pkt]), (188%Z, Some E.AccumulatorDone))
    | (false, None) => Ok (mkA (state a) (buf a ++ b) (packets a ++ [pkt]), (188%Z, None))
    end
  end.
Proof.
  intro Hw. unfold add_packet. rewrite payload_spec by exact Hw. cbn [bind].
  destruct (payload_of pkt) as [b|]; [|reflexivity].
  cbn [state buf packets]. destruct (f (buf a ++ b)) as [[|] [e|]]; reflexivity.
Qed.

(* what is kept of the current unit when pkt is accepted *)
Definition base_bytes (a : acc) (pkt : bytes) : bytes := if has_pusi pkt then [] else get_bytes a.
Definition base_packets (a : acc) (pkt : bytes) : list bytes := if has_pusi pkt then [] else get_packets a.

Lemma write_accept f a pkt : wf_pkt pkt ->
  state a = stateStarting \/ state a = stateAccumulating ->
  state a = stateAccumulating \/ has_pusi pkt = true ->
  write_packet f a pkt
  = add_packet f (mkA stateAccumulating (base_bytes a pkt) (base_packets a pkt)) pkt.
Proof.
  intros Hw Hst Hacc. unfold write_packet, base_bytes, base_packets, get_bytes, get_packets.
  destruct Hst as [Hs|Hs]; rewrite Hs.
  - change (stateStarting =? stateStarting) with true. cbv iota.
    destruct Hacc as [Hc|Hpu]; [exfalso; rewrite Hs in Hc; discriminate Hc|].
    unfold write_starting. rewrite pusi_spec by exact Hw. cbn [bind]. rewrite Hpu. reflexivity.
  - change (stateAccumulating =? stateStarting) with false.
    change (stateAccumulating =? stateAccumulating) with true. cbv iota.
    rewrite pusi_spec by exact Hw. cbn [bind]. destruct (has_pusi pkt) eqn:Hpu.
    + unfold write_starting. rewrite pusi_spec by exact Hw. cbn [bind]. rewrite Hpu. reflexivity.
    + rewrite !add_packet_result by exact Hw. cbn [state buf packets]. rewrite Hs. reflexivity.
Qed.

Lemma reach_state f ops a : Forall wf_op ops -> exec f new_acc ops = Ok a ->
  state a = stateStarting \/ state a = stateAccumulating \/ state a = stateDone.
Proof.
  intros Hwf He. pose proof (reach_R f ops a Hwf He) as HR.
  destruct (a_exec f ANone (map abs_op ops)); cbn [R] in HR; destruct HR as [Hs _]; auto.
Qed.

Lemma not_done_cases a :
  state a = stateStarting \/ state a = stateAccumulating \/ state a = stateDone ->
  state a <> stateDone -> state a = stateStarting \/ state a = stateAccumulating.
Proof. intros [H|[H|H]] Hn; auto. contradiction. Qed.

(* (2) the predicate's error is propagated, and the accumulator is NOT complete even if the
   predicate also said done *)
Lemma pred_error_propagated f ops a pkt b d e :
  Forall wf_op ops -> exec f new_acc ops = Ok a -> state a <> stateDone ->
  wf_pkt pkt -> (state a = stateAccumulating \/ has_pusi pkt = true) ->
  payload_of pkt = Some b ->
  f ((if has_pusi pkt then [] else get_bytes a) ++ b) = (d, Some e) ->
  exists a', write_packet f a pkt = Ok (a', (188%Z, Some e)) /\
             state a' = stateAccumulating /\
             get_bytes a' = (if has_pusi pkt then [] else get_bytes a) ++ b /\
             get_packets a' = (if has_pusi pkt then [] else get_packets a) ++ [pkt].
Proof.
  intros Hwf He Hnd Hw Hacc Hpay Hf.
  pose proof (not_done_cases a (reach_state f ops a Hwf He) Hnd) as Hst.
  rewrite (write_accept f a pkt Hw Hst Hacc), (add_packet_result _ _ _ Hw), Hpay.
  cbn [state buf packets]. change (f (base_bytes a pkt ++ b) = (d, Some e)) in Hf. rewrite Hf.
  unfold base_bytes, base_packets.
  destruct d; eexists; (split; [reflexivity|]); cbn; auto.
Qed.

(* (3) a packet without usable payload: reported, listed, contributes no bytes, predicate not consulted *)
Lemma no_payload_reported f ops a pkt :
  Forall wf_op ops -> exec f new_acc ops = Ok a -> state a <> stateDone ->
  wf_pkt pkt -> (state a = stateAccumulating \/ has_pusi pkt = true) ->
  payload_of pkt = None ->
  exists a', (forall g : Accumulator.pred, write_packet g a pkt = Ok (a', (188%Z, Some (payload_err pkt)))) /\
             state a' = stateAccumulating /\
             get_bytes a' = (if has_pusi pkt then [] else get_bytes a) /\
             get_packets a' = (if has_pusi pkt then [] else get_packets a) ++ [pkt].
Proof.
  intros Hwf He Hnd Hw Hacc Hpay.
  pose proof (not_done_cases a (reach_state f ops a Hwf He) Hnd) as Hst.
  eexists. split.
  - intro g. rewrite (write_accept g a pkt Hw Hst Hacc), (add_packet_result _ _ _ Hw), Hpay.
    cbn [state buf packets]. reflexivity.
  - cbn. auto.
Qed.

(* every accepted packet, whatever the predicate answers: listed after the kept packets, its
   payload (if any) appended to the kept bytes, count 188 *)
Lemma accepted_step f ops a pkt :
  Forall wf_op ops -> exec f new_acc ops = Ok a -> state a <> stateDone ->
  wf_pkt pkt -> (state a = stateAccumulating \/ has_pusi pkt = true) ->
  exists a' e, write_packet f a pkt = Ok (a', (188%Z, e)) /\
               (state a' = stateAccumulating \/ state a' = stateDone) /\
               get_bytes a' = (if has_pusi pkt then [] else get_bytes a) ++ payload_bytes pkt /\
               get_packets a' = (if has_pusi pkt then [] else get_packets a) ++ [pkt].
Proof.
  intros Hwf He Hnd Hw Hacc.
  pose proof (not_done_cases a (reach_state f ops a Hwf He) Hnd) as Hst.
  rewrite (write_accept f a pkt Hw Hst Hacc), (add_packet_result _ _ _ Hw).
  unfold payload_bytes. cbn [state buf packets].
  destruct (payload_of pkt) as [b|].
  - destruct (f (base_bytes a pkt ++ b)) as [[|] [e|]]; unfold base_bytes, base_packets;
      eexists; eexists; (split; [reflexivity|]); cbn; auto.
  - unfold base_bytes, base_packets. eexists; eexists. split; [reflexivity|]. cbn. rewrite app_nil_r. auto.
Qed.

(* (4) refused in the starting state (whatever led there) *)
Lemma starting_refuses f a pkt : state a = stateStarting -> wf_pkt pkt -> has_pusi pkt = false ->
  write_packet f a pkt = Ok (a, (188%Z, Some E.NoPayloadUnitStartIndicator)).
Proof.
  intros Hs Hw Hpu. unfold write_packet. rewrite Hs.
  change (stateStarting =? stateStarting) with true. cbv iota.
  unfold write_starting. rewrite pusi_spec by exact Hw. cbn [bind]. rewrite Hpu. reflexivity.
Qed.

(* (1b) one step: completion is reported exactly when an accepted packet with payload makes the
   predicate hold on the new accumulated bytes *)
Definition step_iff_concl (f : Accumulator.pred) (a : acc) (pkt : bytes) (a' : acc) (n : Z) (e : option N) : Prop :=
  ((state a' = stateDone /\ state a <> stateDone) <->
   (state a <> stateDone /\ (state a = stateAccumulating \/ has_pusi pkt = true) /\
    payload_of pkt <> None /\ holds f (get_bytes a') = true)) /\
  (state a' = stateDone -> state a <> stateDone -> n = 188%Z /\ e = Some E.AccumulatorDone) /\
  (state a <> stateDone -> (state a = stateAccumulating \/ has_pusi pkt = true) ->
   forall b, payload_of pkt = Some b ->
             get_bytes a' = (if has_pusi pkt then [] else get_bytes a) ++ b).

Lemma accept_step_iff f a pkt a' n e : wf_pkt pkt ->
  state a = stateStarting \/ state a = stateAccumulating ->
  state a = stateAccumulating \/ has_pusi pkt = true ->
  write_packet f a pkt = Ok (a', (n, e)) -> step_iff_concl f a pkt a' n e.
Proof.
  intros Hw Hst Hacc Hwp.
  assert (Hnd : state a <> stateDone) by (destruct Hst as [H|H]; rewrite H; discriminate).
  rewrite (write_accept f a pkt Hw Hst Hacc), (add_packet_result _ _ _ Hw) in Hwp.
  cbn [state buf packets] in Hwp.
  unfold step_iff_concl. change (if has_pusi pkt then [] else get_bytes a) with (base_bytes a pkt).
  destruct (payload_of pkt) as [b|] eqn:Hpay.
  - destruct (f (base_bytes a pkt ++ b)) as [[|] [e0|]] eqn:Hf;
      injection Hwp as <- <- <-; cbn [state get_bytes buf]; unfold holds; rewrite ?Hf.
    + split; [split; intro H; [destruct H as [H _]; discriminate H|destruct H as [_ [_ [_ H]]]; discriminate H]|].
      split; [intro H; discriminate H|]. intros _ _ b0 Hb. injection Hb as <-. reflexivity.
    + split; [split; intros _; [|split; [reflexivity|exact Hnd]]|].
      { split; [exact Hnd|]. split; [exact Hacc|]. split; [discriminate|reflexivity]. }
      split; [intros _ _; split; reflexivity|]. intros _ _ b0 Hb. injection Hb as <-. reflexivity.
    + split; [split; intro H; [destruct H as [H _]; discriminate H|destruct H as [_ [_ [_ H]]]; discriminate H]|].
      split; [intro H; discriminate H|]. intros _ _ b0 Hb. injection Hb as <-. reflexivity.
    + split; [split; intro H; [destruct H as [H _]; discriminate H|destruct H as [_ [_ [_ H]]]; discriminate H]|].
      split; [intro H; discriminate H|]. intros _ _ b0 Hb. injection Hb as <-. reflexivity.
  - injection Hwp as <- <- <-. cbn [state get_bytes buf].
    split; [split; intro H; [destruct H as [H _]; discriminate H|destruct H as [_ [_ [H _]]]; contradiction H; reflexivity]|].
    split; [intro H; discriminate H|]. intros _ _ b0 Hb. discriminate Hb.
Qed.

Lemma completion_step_iff f ops a pkt a' n e :
  Forall wf_op ops -> exec f new_acc ops = Ok a -> wf_pkt pkt ->
  write_packet f a pkt = Ok (a', (n, e)) -> step_iff_concl f a pkt a' n e.
Proof.
  pose proof state_ne_01 as N01. pose proof state_ne_02 as N02. pose proof state_ne_12 as N12.
  intros Hwf He Hw Hwp.
  destruct (reach_state f ops a Hwf He) as [Hs|[Hs|Hs]].
  - destruct (has_pusi pkt) eqn:Hpu.
    + apply accept_step_iff; auto.
    + rewrite (starting_refuses f a pkt Hs Hw Hpu) in Hwp. injection Hwp as <- <- <-.
      unfold step_iff_concl. rewrite Hpu. split; [split|split].
      * intros [H1 _]. congruence.
      * intros [_ [[H1|H1] _]]; congruence.
      * intros H1; congruence.
      * intros _ [H1|H1]; congruence.
  - apply accept_step_iff; auto.
  - unfold step_iff_concl. split; [split; intros [H1 H2]; contradiction|].
    split; intros; contradiction.
Qed.

(* once complete: every further WritePacket is refused and Bytes()/Packets() stay the same *)
Lemma done_absorbs f a : state a = stateDone -> forall pkts,
  run f a (map OWrite pkts ++ [OBytes; OPackets])
  = Ok (map (fun _ => RWrite 0%Z (Some E.AccumulatorDone)) pkts ++ [RBytes (get_bytes a); RPackets (get_packets a)]).
Proof.
  intros Hs pkts. induction pkts as [|p t IH]; [reflexivity|].
  cbn [map app run step]. rewrite (done_refuses f a p Hs). cbn [bind fst snd]. rewrite IH. reflexivity.
Qed.

(* ---- (5) Reset after an arbitrary history ---- *)
Lemma run_reset_app f ops : forall pre a,
  run f a (pre ++ OReset :: ops)
  = let? o1 := run f a pre in let? o2 := run f new_acc ops in Ok (o1 ++ RReset :: o2).
Proof.
  induction pre as [|o t IH]; intro a.
  - cbn [app]. rewrite reset_fresh. cbn [run bind app]. reflexivity.
  - cbn [app run]. destruct (step f a o) as [[a1 r]| | |]; cbn [bind]; try reflexivity.
    rewrite IH. destruct (run f a1 t) as [o1| | |]; cbn [bind]; try reflexivity.
    destruct (run f new_acc ops) as [o2| | |]; cbn [bind app]; reflexivity.
Qed.

Lemma reset_fresh_history f pre ops :
  run f new_acc (pre ++ OReset :: ops)
  = let? o1 := run f new_acc pre in let? o2 := run f new_acc ops in Ok (o1 ++ RReset :: o2).
Proof. apply run_reset_app. Qed.

Lemma reset_fresh_history_ok f pre ops : Forall wf_op pre -> Forall wf_op ops ->
  exists o1 o2, run f new_acc pre = Ok o1 /\ run f new_acc ops = Ok o2 /\
                run f new_acc (pre ++ OReset :: ops) = Ok (o1 ++ RReset :: o2).
Proof.
  intros Hp Ho. destruct (refines f pre Hp) as [o1 [H1 _]]. destruct (refines f ops Ho) as [o2 [H2 _]].
  exists o1, o2. split; [exact H1|]. split; [exact H2|].
  rewrite reset_fresh_history, H1, H2. reflexivity.
Qed.
