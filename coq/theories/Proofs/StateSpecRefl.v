(* Reflection lemmas for the boolean list functions of Spec/Trackers.v. *)
From Gots Require Import Base.Prelude Model.SegDesc Spec.SegRules Spec.Trackers Proofs.SegProofs Proofs.StateBasics Proofs.StateInv.
From Coq Require Import Permutation.
Import SegDesc Trackers.
Local Open Scope nat_scope.

Lemma mem_in : forall x l, mem x l = true <-> In x l.
Proof.
  intros x l. unfold mem. rewrite existsb_exists. split.
  - intros (y & Hy & E). apply N.eqb_eq in E. now subst.
  - intros H. exists x. split; [exact H|apply N.eqb_refl].
Qed.
Lemma mem_false : forall x l, mem x l = false <-> ~ In x l.
Proof. intros x l. rewrite <- mem_in. destruct (mem x l); split; congruence. Qed.

Lemma subset_incl : forall l m, subset l m = true <-> incl l m.
Proof.
  intros l m. unfold subset. rewrite forallb_forall. split; intros H x Hx.
  - apply mem_in. now apply H.
  - apply mem_in. now apply H.
Qed.

Lemma disjoint_spec : forall l m, disjoint l m = true <-> (forall x, In x l -> ~ In x m).
Proof.
  intros l m. unfold disjoint. rewrite forallb_forall. split; intros H x Hx.
  - apply mem_false. apply negb_true_iff. now apply H.
  - apply negb_true_iff. apply mem_false. now apply H.
Qed.

Lemma nodup_b_spec : forall l, nodup_b l = true <-> NoDup l.
Proof.
  induction l as [|x t IH]; simpl; [split; [constructor|reflexivity]|].
  rewrite andb_true_iff, negb_true_iff, mem_false, IH. split.
  - intros [A B]. now constructor.
  - intros H. inversion H; subst. auto.
Qed.

Lemma minus_in : forall x l m, In x (minus l m) <-> In x l /\ ~ In x m.
Proof. intros x l m. unfold minus. rewrite filter_In, negb_true_iff, mem_false. tauto. Qed.

Lemma is_nil_b_spec : forall l, is_nil_b l = true <-> (forall x : N, ~ In x l).
Proof.
  intros [|a t]; simpl.
  - split; [intros _ x []|reflexivity].
  - split; [discriminate|]. intros H. exfalso. apply (H a). now left.
Qed.

Lemma list_eqb_refl : forall l, list_eqb l l = true.
Proof.
  intros l. unfold list_eqb. rewrite Nat.eqb_refl. simpl. induction l; simpl; [reflexivity|].
  now rewrite N.eqb_refl.
Qed.

Lemma subseq_tail : forall {A} (x : A) l m, subseq (x :: l) m -> subseq l m.
Proof.
  intros A x l m H. remember (x :: l) as xl. revert x l Heqxl. induction H; intros y k E; [discriminate| |].
  - inversion E; subst. now constructor.
  - constructor. eapply IHsubseq. exact E.
Qed.

Lemma subseq_b_complete : forall l m, subseq l m -> subseq_b l m = true.
Proof.
  intros l m. revert l. induction m as [|y m IH]; intros l H.
  - inversion H; subst. reflexivity.
  - destruct l as [|x l]; [reflexivity|]. simpl. destruct (N.eqb_spec x y).
    + subst. apply IH. inversion H; subst; [assumption|]. eapply subseq_tail. eassumption.
    + apply IH. inversion H; subst; [congruence|assumption].
Qed.

Lemma subseq_map : forall {A B} (f : A -> B) l m, subseq l m -> subseq (map f l) (map f m).
Proof. intros A B f l m H. induction H; simpl; constructor; auto. Qed.

Lemma subseq_rev : forall {A} (l m : list A), subseq l m -> subseq (rev l) (rev m).
Proof.
  intros A l m H. induction H; simpl.
  - induction (rev l); constructor; auto.
  - apply subseq_app; [assumption|apply subseq_refl].
  - eapply subseq_trans; [exact IHsubseq|apply subseq_app_l].
Qed.

Lemma first_some_none : forall l, first_some l = None <-> Forall (fun o => o = None) l.
Proof.
  induction l as [|[c|] t IH]; simpl.
  - split; [constructor|reflexivity].
  - split; [discriminate|]. intros H. inversion H; subst. discriminate.
  - rewrite IH. split; [now constructor|]. intros H. now inversion H.
Qed.

Lemma req_none : forall b c, req b c = None <-> b = true.
Proof. intros [|] c; simpl; split; congruence. Qed.

(* cur is the open id list up to order *)
Lemma remove_at_perm : forall {A} (l : list A) i x, nth_error l i = Some x -> Permutation (x :: remove_at i l) l.
Proof.
  intros A l. induction l as [|a t IH]; intros i x H; [destruct i; discriminate|].
  destruct i; simpl in H.
  - inversion H; subst. unfold remove_at. simpl. apply Permutation_refl.
  - unfold remove_at in *. simpl. eapply perm_trans; [apply perm_swap|]. constructor. now apply IH.
Qed.
