(* The model side of the C05 ops (Exec/TotExec.v) never answers [2 x] (Panic) or [3] (Diverge):
   one lemma per entry group, each from the totality lemmas of the model it runs.  Statements in
   Properties/C05Tot.v. *)
From Gots Require Import Base.Prelude Base.PacketLemmas Exec.ExecBase Exec.TotExec.
From Gots Require Import Model.Packet Model.Create Model.AF Model.AFfn Model.Psi Model.Pat Model.Pmt Model.PmtDesc
  Model.Pts Model.Pes Model.Ebp Model.Scte Model.ScteEnc Model.IO Model.PacketWriter Model.Bufio Model.Accumulator
  Model.SegDesc Model.State Model.Printers.
From Gots Require Proofs.PrintersTotal.
From Gots Require Proofs.HdrTotal Proofs.AFTotal Proofs.PesTotal Proofs.PatTotal Proofs.PmtDescTotal Proofs.PmtTotal
  Proofs.ScteTotal Proofs.EbpTotal Proofs.SyncProofs Proofs.BufioRefines Proofs.AccProofs Proofs.WriterProofs
  Proofs.WriterReadFrom Spec.IOSpec Spec.AccSpecDef.
Local Open Scope N_scope.
Local Notation length := List.length (only parsing).

(* ------------------------------------------------------------------ the frame *)
Lemma is_bytesb_spec b : is_bytesb b = true -> is_bytes b.
Proof.
  unfold is_bytesb, is_bytes. intro H. apply Forall_forall. intros x Hx.
  rewrite forallb_forall in H. specialize (H x Hx). unfold is_byteb in H. unfold is_byte. apply N.ltb_lt. exact H.
Qed.

Lemma reply_e_ok e : reply_e COk e <> reply CPanic /\ reply_e COk e <> reply CDiverge.
Proof. split; discriminate. Qed.
Lemma group_total f pe : (forall b n, is_bytes b -> f b n = COk) -> never_bad (group f pe).
Proof.
  intros H a. unfold group.
  destruct a as [|v1 [|v2 [|v3 t]]]; try (split; discriminate).
  - destruct v1 as [z|b|l]; try (split; discriminate).
    destruct (is_bytesb b) eqn:E; [|split; discriminate].
    rewrite (H b 0%Z (is_bytesb_spec b E)). apply reply_e_ok.
  - destruct v1 as [z|b|l]; try (split; discriminate).
    destruct v2 as [n|b2|l2]; try (split; discriminate).
    destruct (is_bytesb b) eqn:E; [|split; discriminate].
    rewrite (H b n (is_bytesb_spec b E)). apply reply_e_ok.
  - destruct v1 as [z|b|l]; try (split; discriminate).
    destruct v2 as [n|b2|l2]; split; discriminate.
Qed.
(* what a group answers on a byte string: [0 1 e] with e the accept / reject bit of its primary decoder *)
Definition answers (f : bytes -> Z -> cls) (pe : bytes -> Z -> bool) : Prop :=
  forall b n, is_bytesb b = true ->
    group f pe [VB b; VI n] = VL [VI 0%Z; VI 1%Z; vbool (pe b n)] /\
    group f pe [VB b] = VL [VI 0%Z; VI 1%Z; vbool (pe b 0%Z)].
Lemma group_answers f pe : (forall b n, is_bytes b -> f b n = COk) -> answers f pe.
Proof.
  intros H b n E. unfold group. rewrite E, (H b n (is_bytesb_spec b E)), (H b 0%Z (is_bytesb_spec b E)). split; reflexivity.
Qed.
Lemma is_err_spec {A} (r : Res A) : is_err r = true <-> exists e, r = Err e.
Proof. destruct r; cbn; split; try discriminate; try (intros [e' H]; discriminate); eauto. Qed.

Lemma cl_ok {A} (r : Res A) : r <> Panic /\ r <> Diverge -> cl r = COk.
Proof. destruct r; cbn; intros [P D]; congruence. Qed.
Lemma cl_value {A} (r : Res A) : (exists v, r = Ok v) -> cl r = COk.
Proof. intros [v ->]. reflexivity. Qed.
Lemma andc_ok a b : a = COk -> b = COk -> a >> b = COk.
Proof. intros -> ->. reflexivity. Qed.
Lemma on_ok_ok {A} (r : Res A) k : r <> Panic /\ r <> Diverge -> (forall a, r = Ok a -> k a = COk) -> on_ok r k = COk.
Proof. destruct r; cbn; intros [P D] H; try congruence. apply H. reflexivity. Qed.
Lemma allc_ok {A} (f : A -> cls) l : (forall x, f x = COk) -> allc f l = COk.
Proof. intro H. induction l as [|x t IH]; [reflexivity|]. cbn [allc]. rewrite H, IH. reflexivity. Qed.

(* ---- totPkt ---- *)
Lemma pkt_of_length b : length (pkt_of b) = 188%nat.
Proof. unfold pkt_of. rewrite firstn_length, app_length, repeat_length. lia. Qed.
Lemma pkt_of_len b : len (pkt_of b) = 188.
Proof. unfold len. rewrite pkt_of_length. reflexivity. Qed.
Lemma is_bytes_repeat0 n : is_bytes (repeat 0 n).
Proof. induction n; constructor; [unfold is_byte; lia|assumption]. Qed.
Lemma pkt_of_bytes b : is_bytes b -> is_bytes (pkt_of b).
Proof.
  intro H. unfold pkt_of. apply PmtTotal.is_bytes_firstn. apply PmtTotal.is_bytes_app; [exact H|apply is_bytes_repeat0].
Qed.
Lemma pkt_of_pkt b : is_bytes b -> is_pkt (pkt_of b).
Proof. intro H. split; [apply pkt_of_length|apply pkt_of_bytes; exact H]. Qed.
Lemma or_byte_length p i m : length (or_byte p i m) = length p.
Proof. apply upd_length. Qed.

(* ------------------------------------------------------------------ packet accessors on any 188-byte list
   (the lemmas of Proofs/HdrTotal.v are stated for is_pkt; only the length is used, and the packet left by a
   setter is easier to measure than to bound byte-wise) *)
Section Len188.
Variable p : bytes.
Hypothesis HL : length p = 188%nat.
Let lenp : len p = 188. Proof. unfold len. rewrite HL. reflexivity. Qed.
Import Packet.
Lemma Payload_m_ok : cl (Payload_m p) = COk.
Proof.
  apply cl_ok. unfold Payload_m. destruct (AdaptationFieldControl p =? 2); [split; discriminate|]. cbv zeta.
  destruct (N.ltb_spec PacketSize (payloadStart_m p)) as [G|G]; [split; discriminate|].
  destruct (HdrTotal.slice_total p (payloadStart_m p) PacketSize G ltac:(rewrite lenp; unfold PacketSize; lia)) as [s ->].
  split; discriminate.
Qed.
Lemma Payload_fn_ok : cl (Payload_fn p) = COk.
Proof.
  apply cl_ok. unfold Payload_fn. destruct (ContainsPayload p); cbn [negb]; [|split; discriminate].
  destruct (N.ltb_spec PacketSize (payloadStart_fn p)) as [G|G]; [split; discriminate|].
  destruct (HdrTotal.slice_total p (payloadStart_fn p) PacketSize G ltac:(rewrite lenp; unfold PacketSize; lia)) as [s ->].
  split; discriminate.
Qed.
Lemma Header_ok : cl (Header p) = COk.
Proof.
  apply cl_ok. unfold Header. cbv zeta.
  destruct (N.ltb_spec PacketSize (payloadStart_fn p)) as [G|G].
  - destruct (HdrTotal.slice_total p 0 PacketSize ltac:(lia) ltac:(rewrite lenp; unfold PacketSize; lia)) as [s ->].
    split; discriminate.
  - destruct (HdrTotal.slice_total p 0 (payloadStart_fn p) ltac:(lia) ltac:(rewrite lenp; unfold PacketSize in G; lia)) as [s ->].
    split; discriminate.
Qed.
Lemma PESHeader_ok : cl (PESHeader p) = COk.
Proof.
  unfold PESHeader. destruct (PayloadUnitStartIndicator_fn p); [|reflexivity].
  pose proof Payload_fn_ok as T. destruct (Payload_fn p) as [pay|e| |]; cbn [bind cl] in *; try congruence.
  destruct ((3 <? len pay) && (nthN pay 0 =? 0) && (nthN pay 1 =? 0) && (nthN pay 2 =? 1)); reflexivity.
Qed.
End Len188.

Lemma set_payload_length p d : length (fst (Packet.SetPayload_m p d)) = length p.
Proof.
  unfold Packet.SetPayload_m.
  destruct (Packet.AdaptationFieldControl p =? 2); [reflexivity|].
  destruct ((Packet.PacketSize <? Packet.payloadStart_m p) || (Packet.PacketSize <? Packet.stuffingStart_m p)); [reflexivity|].
  cbv zeta.
  assert (L : length (Packet.SetPayload_prepare p d) = length p).
  { unfold Packet.SetPayload_prepare. cbv zeta.
    destruct (zlen d <? Packet.freeSpace p)%Z.
    - unfold Packet.AFP.stuffAF, Packet.AFP.setLength. rewrite HdrTotal.fill_length, upd_length.
      match goal with |- context [if ?c then _ else _] => destruct c end;
        rewrite ?upd_length; apply HdrTotal.set_afc_length.
    - destruct (Packet.HasAdaptationField p); [|reflexivity]. unfold Packet.AFP.setLength. apply upd_length. }
  destruct (Packet.PacketSize <? Packet.payloadStart_m (Packet.SetPayload_prepare p d)); cbn [fst]; [exact L|].
  rewrite blit_length. exact L.
Qed.

Lemma pkt_read_ok b n : is_bytes b -> g_pkt_read b n = COk.
Proof.
  intro HB. unfold g_pkt_read. cbv zeta. pose proof (pkt_of_length b) as L.
  rewrite (Payload_fn_ok _ L), (Header_ok _ L), (PESHeader_ok _ L), (Payload_m_ok _ L). cbn [andc].
  destruct (Pes.pkt_pusi (pkt_of b)); [|reflexivity].
  apply on_ok_ok; [apply PesTotal.pkt_pes_header_no_panic; exact L|].
  intros hb _. apply cl_ok. apply PesTotal.new_pes_header_no_panic.
Qed.

Lemma pkt_setpayload_ok b n : is_bytes b -> g_pkt_setpayload b n = COk.
Proof.
  intro HB. unfold g_pkt_setpayload. cbv zeta.
  set (p := pkt_of b). set (d := ramp _ 0).
  assert (L : length (fst (Packet.SetPayload_m p d)) = 188%nat) by (rewrite set_payload_length; apply pkt_of_length).
  rewrite (cl_ok _ (HdrTotal.SetPayload_m_total p d (pkt_of_pkt b HB))).
  rewrite (Payload_m_ok _ L), (Payload_fn_ok _ L). reflexivity.
Qed.

Lemma pkt_setpayloadfn_ok b n : is_bytes b -> g_pkt_setpayloadfn b n = COk.
Proof. reflexivity. Qed.

Lemma pkt_setafc_ok b n : is_bytes b -> g_pkt_setafc b n = COk.
Proof.
  intro HB. unfold g_pkt_setafc. cbv zeta.
  match goal with |- context [Packet.SetAdaptationFieldControl ?p ?v] =>
    assert (L : length (fst (Packet.SetAdaptationFieldControl p v)) = 188%nat)
      by (rewrite HdrTotal.set_afc_length; apply pkt_of_length) end.
  rewrite (Payload_m_ok _ L), (Header_ok _ L). reflexivity.
Qed.

(* ------------------------------------------------------------------ adaptation field *)
Lemma af_reads_ok p : length p = 188%nat -> af_reads p = COk.
Proof.
  intro L. destruct (AFTotal.getters_total_any p L) as (_ & _ & _ & _ & G5 & _ & G7 & _ & G9 & _ & G11 & _ & G13 & _).
  unfold af_reads. rewrite (cl_ok _ G5), (cl_ok _ G7), (cl_ok _ G9), (cl_ok _ G11), (cl_ok _ G13). reflexivity.
Qed.

Lemma af_getters_ok b n : is_bytes b -> g_af_getters b n = COk.
Proof.
  intro HB. unfold g_af_getters. cbv zeta.
  set (p := if (Z.land n 1 =? 1)%Z then _ else _).
  assert (L : length p = 188%nat).
  { unfold p. destruct (Z.land n 1 =? 1)%Z; rewrite ?or_byte_length; apply pkt_of_length. }
  destruct (negb (AF.get_bit p 3 32)); [reflexivity|].
  destruct (AFTotal.getters_total_any p L) as (G1 & G2 & G3 & G4 & G5 & G6 & G7 & G8 & G9 & G10 & G11 & G12 & G13 & _).
  rewrite (cl_ok _ G1), (cl_ok _ G2), (cl_ok _ G3), (cl_ok _ G4), (cl_ok _ G5), (cl_ok _ G6), (cl_ok _ G7),
    (cl_ok _ G8), (cl_ok _ G9), (cl_ok _ G10), (cl_ok _ G11), (cl_ok _ G12), (cl_ok _ G13). reflexivity.
Qed.

Lemma affn_ok b n : is_bytes b -> g_affn b n = COk.
Proof.
  intro HB. unfold g_affn. cbv zeta.
  destruct (AFTotal.getters_total_any _ (pkt_of_length b)) as (_ & _ & _ & _ & _ & _ & _ & _ & _ & _ & _ & _ & _ & F1 & F2 & F3 & F4 & F5).
  rewrite (cl_ok _ F1), (cl_ok _ F2), (cl_ok _ F3), (cl_ok _ F4), (cl_ok _ F5). reflexivity.
Qed.

(* a successful setter returns a list of the same length *)
Ltac bind_inv H :=
  repeat match type of H with
  | bind ?r _ = Ok _ => let E := fresh "E" in destruct r eqn:E; cbn [bind] in H; try discriminate H
  | (if ?c then _ else _) = Ok _ => destruct c; try discriminate H
  end.
Lemma set_idx_length p i v q : set_idx p i v = Ok q -> length q = length p.
Proof. unfold set_idx. destruct (i <? len p); [|discriminate]. intros [= <-]. apply upd_length. Qed.
Lemma resize_length p s d q : AF.resizeAF p s d = Ok q -> length q = length p.
Proof. intro H. apply (AFTotal.resize_ok_facts p s d q H). Qed.
Lemma step_length p o q : AF.step p o = Ok q -> length q = length p.
Proof.
  destruct o; cbn [AF.step]; intro H.
  1-3: (cbv beta delta [AF.SetDiscontinuity AF.SetRandomAccess AF.SetElementaryStreamPriority AF.set_flag] in H;
        bind_inv H; injection H as <-; apply AFTotal.length_set_bit).
  - unfold AF.SetHasPCR in H. cbv zeta in H. bind_inv H. injection H as <-.
    rewrite AFTotal.length_set_bit. eapply resize_length; eassumption.
  - unfold AF.SetHasOPCR in H. cbv zeta in H. bind_inv H. injection H as <-.
    rewrite AFTotal.length_set_bit. eapply resize_length; eassumption.
  - unfold AF.SetHasSplicingPoint in H. cbv zeta in H. bind_inv H. injection H as <-.
    rewrite AFTotal.length_set_bit. eapply resize_length; eassumption.
  - unfold AF.SetHasTransportPrivateData in H. cbv zeta in H. bind_inv H; injection H as <-;
      rewrite AFTotal.length_set_bit; match goal with |- context [if ?c then _ else _] => destruct c end;
      rewrite ?upd_length; eapply resize_length; eassumption.
  - unfold AF.SetHasAdaptationFieldExtension in H. cbv zeta in H.
    destruct (AF.valid p); cbn [bind] in H; try discriminate H.
    match type of H with bind ?r _ = _ => destruct r as [p1| | |] eqn:E1; cbn [bind] in H; try discriminate H end.
    match type of H with bind ?r _ = _ => destruct r as [p2| | |] eqn:E2; cbn [bind] in H; try discriminate H end.
    injection H as <-. rewrite AFTotal.length_set_bit.
    assert (length p2 = length p1).
    { match type of E2 with (if ?c then _ else _) = _ => destruct c end;
        [eapply set_idx_length; eassumption|injection E2 as <-; reflexivity]. }
    rewrite H. eapply resize_length; eassumption.
  - unfold AF.SetPCR in H. bind_inv H. injection H as <-. apply blit_length.
  - unfold AF.SetOPCR in H. bind_inv H. injection H as <-. apply blit_length.
  - unfold AF.SetSpliceCountdown in H. bind_inv H. injection H as <-. apply upd_length.
  - unfold AF.SetTransportPrivateData in H. cbv zeta in H. bind_inv H.
    apply set_idx_length in H. rewrite H, blit_length. eapply resize_length; eassumption.
  - unfold AF.SetAdaptationFieldExtension in H. cbv zeta in H. bind_inv H.
    apply set_idx_length in H. rewrite H, blit_length. eapply resize_length; eassumption.
  - unfold AF.SetAdaptationField in H. bind_inv H. injection H as <-.
    unfold AF.stuffAF. rewrite AFTotal.length_fill, blit_length. reflexivity.
Qed.

Lemma af_op_total p0 p z sh o : length p0 = 188%nat -> af_op p0 p z sh = Some o -> AFTotal.op_total o.
Proof.
  intros L H. unfold af_op in H.
  repeat (match type of H with (match ?x with _ => _ end) = Some _ => destruct x end;
          cbv beta iota in H; try discriminate H);
    injection H as <-; cbn [AFTotal.op_total]; rewrite ?upd_length, ?or_byte_length; first [exact I|exact L].
Qed.

Lemma af_setters_ok b n : is_bytes b -> g_af_setters b n = COk.
Proof.
  intro HB. unfold g_af_setters. cbv zeta.
  set (p0 := pkt_of b). set (p := if (Z.rem (Z.quot n 20) 2 =? 1)%Z then _ else _).
  assert (L0 : length p0 = 188%nat) by apply pkt_of_length.
  assert (L : length p = 188%nat).
  { unfold p. destruct (Z.rem (Z.quot n 20) 2 =? 1)%Z; rewrite ?or_byte_length; exact L0. }
  destruct (negb (AF.get_bit p 3 32)); [reflexivity|].
  assert (A : forall q, length q = 188%nat -> af_reads q >> cl (Packet.Payload_m q) = COk).
  { intros q Lq. rewrite (af_reads_ok q Lq), (Payload_m_ok q Lq). reflexivity. }
  destruct (af_op p0 p (Z.rem n 20) (Z.quot n 40)) as [o|] eqn:EO; [|apply A; exact L].
  pose proof (AFTotal.step_total p o L (af_op_total p0 p _ _ o L0 EO)) as [NP ND].
  destruct (AF.step p o) as [q|e| |] eqn:ES; try congruence; [|apply A; exact L].
  apply A. rewrite (step_length p o q ES). exact L.
Qed.

(* ------------------------------------------------------------------ psi *)
Lemma cl_total {A} (r : Res A) : PmtTotal.total r -> cl r = COk.
Proof. destruct r; cbn; intro H; first [reflexivity|contradiction]. Qed.
Lemma cl_fine {A} (r : Res A) : ScteTotal.fine r -> cl r = COk.
Proof. destruct r; cbn; intro H; first [reflexivity|contradiction]. Qed.
Lemma cl_desc_value {A} (r : Res A) : PmtDescTotal.value r -> cl r = COk.
Proof. intros [v ->]. reflexivity. Qed.

Lemma cl_unit (r : Res unit) : r = Ok tt -> cl r = COk.
Proof. intros ->. reflexivity. Qed.
Lemma psi_accessors_ok b n : is_bytes b -> g_psi_accessors b n = COk.
Proof.
  intros _. unfold g_psi_accessors. cbv zeta. rewrite (cl_total _ (PmtTotal.table_header_from_bytes_total b)). reflexivity.
Qed.

Lemma pat_getters_ok p : pat_getters p = COk.
Proof.
  unfold pat_getters. rewrite (cl_value _ (PatTotal.num_programs_total p)), (cl_value _ (PatTotal.program_map_total p)),
    (cl_ok _ (PatTotal.spts_pmt_pid_total p)). reflexivity.
Qed.
Lemma psi_pat_ok b n : is_bytes b -> g_psi_pat b n = COk.
Proof.
  intros _. unfold g_psi_pat. apply on_ok_ok; [apply PatTotal.new_pat_total|].
  intros p _. rewrite pat_getters_ok. cbn [andc]. apply cl_ok. apply PatTotal.is_pmt_total. apply pkt_of_len.
Qed.

Lemma desc_calls_ok d : desc_calls d = COk.
Proof.
  unfold desc_calls.
  rewrite (cl_unit _ (PrintersTotal.desc_format_total d)), (cl_unit _ (PrintersTotal.desc_string_total d)).
  rewrite (cl_desc_value _ (PmtDescTotal.is_iframe_profile_total d)), (cl_desc_value _ (PmtDescTotal.is_dolby_atmos_total d)),
    (cl_desc_value _ (PmtDescTotal.is_dolby_vision_total d)), (cl_desc_value _ (PmtDescTotal.decode_dolby_vision_codec_total d)),
    (cl_desc_value _ (PmtDescTotal.decode_iso639_language_code_total d)), (cl_desc_value _ (PmtDescTotal.decode_iso639_audio_type_total d)),
    (cl_desc_value _ (PmtDescTotal.decode_maximum_bit_rate_total d)), (cl_desc_value _ (PmtDescTotal.decode_ttml_code_total d)),
    (cl_desc_value _ (PmtDescTotal.decode_ttml_purpose_total d)). reflexivity.
Qed.
Lemma es_calls_ok e : es_calls e = COk.
Proof.
  unfold es_calls. cbv zeta. rewrite (cl_unit _ (PrintersTotal.es_string_total e)).
  rewrite (cl_unit _ (eq_refl : Printers.stream_type_string (Pmt.stype e) = Ok tt)).
  rewrite (cl_desc_value _ (PmtDescTotal.max_bit_rate_total _)). cbn [andc].
  apply allc_ok. exact desc_calls_ok.
Qed.
Lemma psi_pmt_ok b n : is_bytes b -> g_psi_pmt b n = COk.
Proof.
  intro HB. unfold g_psi_pmt. apply on_ok_ok; [apply PmtTotal.total_iff; apply PmtTotal.new_pmt_total; exact HB|].
  intros p _. rewrite (cl_unit _ (PrintersTotal.pmt_string_total p)). rewrite (allc_ok _ _ es_calls_ok). cbv zeta.
  rewrite (cl_unit _ (PrintersTotal.pmt_string_total _)). cbn [andc].
  destruct (Pmt.pids p); [reflexivity|]. apply cl_unit. apply PrintersTotal.pmt_string_total.
Qed.
Lemma psi_done_ok b n : is_bytes b -> g_psi_done b n = COk.
Proof. intro HB. apply cl_total. apply PmtTotal.done_func_total. exact HB. Qed.
Lemma psi_crc_ok b n : is_bytes b -> g_psi_crc b n = COk.
Proof. intro HB. apply cl_total. apply PmtTotal.extract_crc_total. exact HB. Qed.

Lemma chunks_ok b : is_bytes b -> Forall (fun p => is_bytes p /\ len p = 188) (chunks b).
Proof. intro HB. apply PmtTotal.chop188_ok. exact HB. Qed.
Lemma filter_pids_safe pk n : Forall (fun p => is_bytes p /\ len p = 188) pk ->
  filter_pids pk n <> Panic /\ filter_pids pk n <> Diverge.
Proof.
  intro F. unfold filter_pids. destruct ((n <? 10000)%Z || (10007 <? n)%Z); [split; discriminate|]. cbv zeta.
  destruct ((4 <=? n - 10000)%Z && (n - 10000 <=? 6)%Z); [|cbn [bind]; split; discriminate].
  destruct (PmtTotal.concat_payloads_total pk F) as [T K].
  destruct (Pmt.concat_payloads pk) as [pay|e| |]; cbn in T; try contradiction; cbn [bind]; [|split; discriminate].
  pose proof (PmtTotal.new_pmt_total pay (K pay eq_refl)) as T2.
  destruct (Pmt.new_pmt pay) as [pm|e| |]; cbn in T2; try contradiction; cbn [bind]; split; discriminate.
Qed.
Lemma psi_filter_ok b n : is_bytes b -> g_psi_filter b n = COk.
Proof.
  intro HB. unfold g_psi_filter. cbv zeta.
  assert (F : Forall (fun p => is_bytes p /\ len p = 188) (match chunks b with [] => [pkt_of b] | l => l end)).
  { pose proof (chunks_ok b HB) as F. destruct (chunks b) as [|c t]; [|exact F].
    constructor; [|constructor]. split; [apply pkt_of_bytes; exact HB|apply pkt_of_len]. }
  apply on_ok_ok; [apply filter_pids_safe; exact F|].
  intros want _. apply cl_total. apply PmtTotal.filter_pmt_packets_total. exact F.
Qed.
Lemma psi_readpat_ok b n : is_bytes b -> g_psi_readpat b n = COk.
Proof.
  intro HB. unfold g_psi_readpat. cbv zeta. apply on_ok_ok; [|intros p _; apply pat_getters_ok].
  apply PatTotal.read_pat_total. unfold PatTotal.script_ok. apply Forall_app. split.
  - apply Forall_map. eapply Forall_impl; [|apply (chunks_ok b HB)]. cbn. intros a [_ L]. exact L.
  - constructor; [exact I|constructor].
Qed.
Lemma psi_readpmt_ok b n : is_bytes b -> g_psi_readpmt b n = COk.
Proof.
  intro HB. unfold g_psi_readpmt. apply on_ok_ok; [apply PmtTotal.total_iff; apply PmtTotal.read_pmt_total; exact HB|].
  intros p _. apply cl_unit. apply PrintersTotal.pmt_string_total.
Qed.

(* ------------------------------------------------------------------ pes / ebp *)
Lemma pes_new_ok b n : is_bytes b -> g_pes_new b n = COk.
Proof.
  intros _. unfold g_pes_new.
  rewrite (on_ok_ok (Pes.new_pes_header b) _ (PesTotal.new_pes_header_no_panic b))
    by (intros h _; rewrite (cl_unit _ (PrintersTotal.pes_fmt_v_total h)), (cl_unit _ (PrintersTotal.pes_format_total h)); reflexivity).
  cbn [andc].
  destruct (N.leb_spec 5 (len b)) as [G|G]; [|reflexivity].
  destruct (PesTotal.extract_time_panics_iff b) as (_ & [P _] & _).
  destruct (Pes.extract_time b) as [v|e| |] eqn:E; try reflexivity.
  - specialize (P eq_refl). unfold len in G. lia.
  - exfalso. unfold Pes.extract_time, idx in E.
    repeat match type of E with bind (match ?r with _ => _ end) _ = _ => destruct r; cbn [bind] in E; try discriminate E end.
Qed.
Lemma ebp_read_ok b n : is_bytes b -> g_ebp_read b n = COk.
Proof.
  intros _. unfold g_ebp_read. apply on_ok_ok; [apply EbpTotal.read_ebp_guarded_total|]. intros fe _. reflexivity.
Qed.

(* ------------------------------------------------------------------ scte35 *)
Lemma map_w8_bytes l : is_bytes (map w8 l).
Proof. induction l; constructor; [unfold is_byte, w8; apply N.mod_lt; discriminate|assumption]. Qed.
Lemma scte_new_ok b n : is_bytes b -> g_scte_new b n = COk.
Proof.
  intro HB. unfold g_scte_new.
  apply on_ok_ok; [apply ScteTotal.fine_spec; apply ScteTotal.new_scte35_total; exact HB|].
  intros s _. rewrite (cl_unit _ (PrintersTotal.scte_string_total s)). cbv zeta.
  rewrite allc_ok.
  2:{ intro d. unfold seg_calls. destruct (PrintersTotal.stream_switch_signal_id_total d) as [o ->].
      rewrite (cl_unit _ (PrintersTotal.seg_mid_total d)), (cl_unit _ (PrintersTotal.seg_components_total d)). reflexivity. }
  rewrite (cl_unit _ (PrintersTotal.tracker_calls_total _)).
  match goal with |- context [Scte.new_scte35 (0 :: ?l)] =>
    assert (HB' : is_bytes (0 :: l)) by (constructor; [unfold is_byte; lia|apply map_w8_bytes]) end.
  rewrite (cl_fine _ (ScteTotal.new_scte35_total _ HB')).
  reflexivity.
Qed.

(* ------------------------------------------------------------------ streams *)
Lemma reader_script_few b : BufioRefines.few_empty_reads (PacketWriter.Script (reader_script b)).
Proof.
  destruct b as [|x t]; cbn [reader_script BufioRefines.few_empty_reads BufioRefines.runs_lt]; [exact I|].
  split; [|exact I]. cbn [BufioRefines.lead]. unfold Bufio.maxConsecutiveEmptyReads. lia.
Qed.
Lemma reader_script_data b : IOSpec.IOSpec.script_data (reader_script b) = b.
Proof. destruct b as [|x t]; cbn; [reflexivity|]. rewrite app_nil_r. reflexivity. Qed.

Lemma is_synced_bufio_ok sz b :
  cl (SyncIO.is_synced_over Bufio.breader Bufio.peek (Bufio.new_reader sz (PacketWriter.Script (reader_script b)))) = COk.
Proof.
  pose proof (BufioRefines.rel_init sz (reader_script b) (reader_script_few b)) as HR.
  assert (Hc : (4 <= Bufio.bcap (Bufio.new_reader sz (PacketWriter.Script (reader_script b))))%nat).
  { cbn [Bufio.new_reader Bufio.bcap]. unfold Bufio.minReadBufferSize. lia. }
  destruct (BufioRefines.peek_sim _ _ 4%nat HR Hc) as [x [b' [a' [H1 [H2 _]]]]].
  change (N.of_nat 4) with 4 in H1, H2. unfold SyncIO.is_synced_over. rewrite H1. cbn [bind].
  destruct x as [bs|e]; [|reflexivity].
  unfold SyncIO.peek in H2. cbn [SyncIO.rest SyncIO.start SyncIO.terr] in H2.
  set (l := IOSpec.IOSpec.script_data (reader_script b)) in *.
  destruct (N.leb_spec 4 (len l)) as [G|G]; [|discriminate H2].
  injection H2 as <- _.
  assert (L4 : len (takeN 4 l) = 4).
  { unfold takeN, len in *. rewrite firstn_length. lia. }
  destruct (ScteTotal.idx_ok (takeN 4 l) 0 ltac:(lia)) as [b0 ->].
  destruct (ScteTotal.idx_ok (takeN 4 l) 1 ltac:(lia)) as [b1 E1].
  destruct (ScteTotal.idx_ok (takeN 4 l) 2 ltac:(lia)) as [b2 E2].
  destruct (ScteTotal.idx_ok (takeN 4 l) 3 ltac:(lia)) as [b3 E3].
  cbn [bind]. destruct (negb (b0 =? SyncIO.SyncByte)); [reflexivity|].
  rewrite E3, E1, E2. cbn [bind].
  destruct (N.land (be32 b0 b1 b2 b3) SyncIO.afcMask =? 0); reflexivity.
Qed.

Lemma pkt_sync_ok b n : is_bytes b -> g_pkt_sync b n = COk.
Proof.
  intro HB. unfold g_pkt_sync. cbv zeta. rewrite is_synced_bufio_ok.
  rewrite (cl_ok _ (BufioRefines.sync_bufio_total _ _ (reader_script_few b) ltac:(rewrite reader_script_data; exact HB))).
  reflexivity.
Qed.

Lemma pkt_writer_ok b n : is_bytes b -> g_pkt_writer b n = COk.
Proof.
  intros _. unfold g_pkt_writer. cbv zeta.
  assert (L0 : length PacketWriter.pkt0 = 188%nat) by apply repeat_length.
  rewrite (cl_ok _ (WriterProofs.write_total _ _ _ L0)).
  rewrite (cl_ok _ (WriterReadFrom.read_from_total _ _ _ L0)).
  rewrite (cl_ok _ (WriterReadFrom.read_from_total _ _ _ L0)). reflexivity.
Qed.

(* ---- accumulator: every WritePacket on a 188-byte packet returns, and the buffer stays a byte string ---- *)
Lemma payload_of_bytes p b : is_bytes p -> AccSpecDef.AccSpec.payload_of p = Some b -> is_bytes b.
Proof.
  intros HB. unfold AccSpecDef.AccSpec.payload_of. destruct (negb _); [discriminate|]. cbv zeta.
  destruct (188 <? _); [discriminate|]. intros [= <-]. apply PmtTotal.is_bytes_skipn. exact HB.
Qed.
Lemma add_packet_facts f a p : is_bytes p -> length p = 188%nat -> is_bytes (Accumulator.buf a) ->
  exists a' r, Accumulator.add_packet f a p = Ok (a', r) /\ is_bytes (Accumulator.buf a').
Proof.
  intros HB L HA. unfold Accumulator.add_packet. rewrite (AccProofs.payload_spec p L). cbn [bind].
  destruct (AccSpecDef.AccSpec.payload_of p) as [b|] eqn:EP.
  - pose proof (payload_of_bytes p b HB EP) as Hb. cbn [Accumulator.buf Accumulator.packets Accumulator.state].
    assert (HAB : is_bytes (Accumulator.buf a ++ b)%list) by (apply PmtTotal.is_bytes_app; assumption).
    destruct (f (Accumulator.buf a ++ b)%list) as [[|] [e|]]; eexists; eexists; (split; [reflexivity|exact HAB]).
  - eexists; eexists; split; [reflexivity|exact HA].
Qed.
Lemma write_packet_facts f a p : is_bytes p -> length p = 188%nat -> is_bytes (Accumulator.buf a) ->
  exists a' r, Accumulator.write_packet f a p = Ok (a', r) /\ is_bytes (Accumulator.buf a').
Proof.
  intros HB L HA.
  assert (ST : forall a0, exists a' r, Accumulator.write_starting f a0 p = Ok (a', r) /\
                                       (is_bytes (Accumulator.buf a0) -> is_bytes (Accumulator.buf a'))).
  { intro a0. unfold Accumulator.write_starting. rewrite (AccProofs.pusi_spec p L). cbn [bind].
    destruct (negb _); [eexists; eexists; split; [reflexivity|auto]|].
    destruct (add_packet_facts f (Accumulator.mkA Accumulator.stateAccumulating [] []) p HB L ltac:(constructor)) as [a' [r [E Hb]]].
    exists a', r. split; [exact E|auto]. }
  unfold Accumulator.write_packet.
  destruct (Accumulator.state a =? Accumulator.stateStarting).
  { destruct (ST a) as [a' [r [E Hb]]]. exists a', r. split; [exact E|apply Hb; exact HA]. }
  destruct (Accumulator.state a =? Accumulator.stateAccumulating).
  { rewrite (AccProofs.pusi_spec p L). cbn [bind]. destruct (AccSpecDef.AccSpec.has_pusi p).
    - destruct (ST (Accumulator.mkA Accumulator.stateStarting (Accumulator.buf a) (Accumulator.packets a))) as [a' [r [E Hb]]].
      exists a', r. split; [exact E|apply Hb; exact HA].
    - apply add_packet_facts; assumption. }
  destruct (Accumulator.state a =? Accumulator.stateDone).
  { eexists; eexists; split; [reflexivity|exact HA]. }
  apply add_packet_facts; assumption.
Qed.
Lemma acc_loop_ok : forall pks a, Forall (fun p => is_bytes p /\ len p = 188) pks -> is_bytes (Accumulator.buf a) ->
  acc_loop pks a = COk.
Proof.
  induction pks as [|p t IH]; intros a F HA; [reflexivity|]. inversion F as [|? ? [HB HL] Ft]; subst.
  assert (L : length p = 188%nat) by (unfold len in HL; lia).
  cbn [acc_loop]. destruct (write_packet_facts done_pred a p HB L HA) as [a' [r [E Hb]]]. rewrite E.
  unfold Accumulator.get_bytes. rewrite (cl_total _ (PmtTotal.done_func_total _ Hb)). cbn [andc].
  apply IH; assumption.
Qed.
Lemma pkt_acc_ok b n : is_bytes b -> g_pkt_acc b n = COk.
Proof. intro HB. unfold g_pkt_acc. apply acc_loop_ok; [apply chunks_ok; exact HB|constructor]. Qed.

(* ------------------------------------------------------------------ every op of the table *)
Definition group_ok (g : string * (bytes -> Z -> cls) * (bytes -> Z -> bool)) : Prop :=
  forall b n, is_bytes b -> snd (fst g) b n = COk.
Lemma all_groups_ok : Forall group_ok TotExec.groups.
Proof.
  unfold TotExec.groups, group_ok.
  repeat (apply Forall_cons; [cbn [fst snd]; first
    [exact pkt_read_ok|exact pkt_setpayload_ok|exact pkt_setpayloadfn_ok|exact pkt_setafc_ok|exact af_getters_ok
    |exact af_setters_ok|exact affn_ok|exact psi_accessors_ok|exact psi_pat_ok|exact psi_pmt_ok|exact psi_done_ok
    |exact psi_crc_ok|exact psi_filter_ok|exact psi_readpat_ok|exact psi_readpmt_ok|exact pes_new_ok|exact ebp_read_ok
    |exact scte_new_ok|exact pkt_sync_ok|exact pkt_acc_ok|exact pkt_writer_ok]|]).
  apply Forall_nil.
Qed.
Lemma all_ops_total : Forall (fun o : op => never_bad (snd o)) TotExec.ops.
Proof.
  unfold TotExec.ops. apply Forall_map. eapply Forall_impl; [|exact all_groups_ok].
  intros g H. cbn [snd]. apply group_total. exact H.
Qed.
(* every group answers [0 1 e], e = the accept / reject bit of its primary decoder model *)
Lemma all_groups_answer : Forall (fun g => answers (snd (fst g)) (snd g)) TotExec.groups.
Proof. eapply Forall_impl; [|exact all_groups_ok]. intros g H. apply group_answers. exact H. Qed.
(* which inputs a group rejects: exactly those on which the model of its primary decoder returns an error *)
Lemma reject_bits : forall b n,
  (e_psi_pat b n = true <-> exists e, Pat.new_pat b = Err e) /\
  (e_psi_pmt b n = true <-> exists e, Pmt.new_pmt b = Err e) /\
  (e_psi_done b n = true <-> exists e, Pmt.done_func b = Err e) /\
  (e_psi_crc b n = true <-> exists e, Pmt.extract_crc b = Err e) /\
  (e_psi_readpmt b n = true <-> exists e, Pmt.read_pmt b (readpmt_pid b n) = Err e) /\
  (e_pes_new b n = true <-> exists e, Pes.new_pes_header b = Err e) /\
  (e_ebp_read b n = true <-> exists e, Ebp.ReadEncoderBoundaryPoint true b = Err e) /\
  (e_scte_new b n = true <-> exists e, Scte.new_scte35 b = Err e) /\
  (e_psi_accessors b n = true <-> exists e, Psi.table_header_from_bytes b = Err e) /\
  (e_pkt_read b n = true <-> exists e, Packet.Payload_fn (pkt_of b) = Err e).
Proof. intros b n. repeat split; apply is_err_spec. Qed.
(* the table answers for exactly the 21 entry groups of goexec/total.go *)
Lemma ops_names : map fst TotExec.ops =
  ["tot.pkt.read"; "tot.pkt.setpayload"; "tot.pkt.setpayloadfn"; "tot.pkt.setafc"; "tot.af.getters"; "tot.af.setters";
   "tot.affn"; "tot.psi.accessors"; "tot.psi.pat"; "tot.psi.pmt"; "tot.psi.done"; "tot.psi.crc"; "tot.psi.filter";
   "tot.psi.readpat"; "tot.psi.readpmt"; "tot.pes.new"; "tot.ebp.read"; "tot.scte.new"; "tot.pkt.sync"; "tot.pkt.acc";
   "tot.pkt.writer"]%string.
Proof. reflexivity. Qed.
(* non-vacuity: the classes are distinct replies, and a group function that panics is answered [2 x] *)
Lemma replies_distinct : reply COk <> reply CPanic /\ reply COk <> reply CDiverge /\ reply CPanic <> reply CDiverge /\
  group (fun _ _ => CPanic) e_none [VB [71]] = reply CPanic /\
  group g_pkt_read e_pkt_read [VB [71]; VI 15%Z] = VL [VI 0%Z; VI 1%Z; VI 1%Z] /\
  group g_pkt_read e_pkt_read [VB [71; 0; 0; 16]; VI 15%Z] = VL [VI 0%Z; VI 1%Z; VI 0%Z] /\
  group g_pes_new e_pes_new [VB []] = VL [VI 0%Z; VI 1%Z; VI 1%Z] /\
  group g_pes_new e_pes_new [VB [0; 0; 1; 224; 0; 0; 128; 0; 0]] = VL [VI 0%Z; VI 1%Z; VI 0%Z].
Proof. repeat split; try discriminate; vm_compute; reflexivity. Qed.
