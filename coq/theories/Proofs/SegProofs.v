(* Lemmas for C19: CanClose against the golden table, classification, Equal. *)
From Gots Require Import Base.Prelude Base.NRange Model.SegDesc Spec.SegRules.
Import SegDesc SegRules.

(* ---------- CanClose factors through the finite abstraction ---------- *)

Definition lookup2 (tin tout : N) : option ctype :=
  match assoc tin rules with None => None | Some r => assoc tout r end.

Definition cc_c (isin : bool) (c : option ctype) (ee pe se hs sube : bool) : bool :=
  match c with
  | None => false
  | Some Normal | Some Unconditional | Some Breakaway | Some NoBreakaway => true
  | Some EventID => ee
  | Some DiffPTS => negb pe
  | Some EventIDNotNested => isin && ee && se
  | Some NotNested => if hs then sube else true
  end.

Lemma CanClose_cc : forall d o,
  CanClose d o = cc_c (is_in_ty (ty d)) (lookup2 (ty d) (ty o))
                      (event d =? event o) (ptsv d =? ptsv o) (segnum d =? segexp d) (hassub d) (subnum d =? subexp d).
Proof.
  intros d o. unfold CanClose, lookup2, IsIn.
  destruct (assoc (ty d) rules) as [r|]; [|reflexivity].
  destruct (assoc (ty o) r) as [c|]; [|reflexivity].
  destruct c; reflexivity.
Qed.

Definition closes_c (c : option cond) (ee pe se : bool) : bool :=
  match c with
  | None => false
  | Some Always => true
  | Some SameEvent => ee
  | Some DiffPts => negb pe
  | Some SameEventLastSeg => ee && se
  end.

Lemma closes_closes_c : forall tin tout ee pe se,
  closes tin tout ee pe se = closes_c (find_rule tin tout golden) ee pe se.
Proof. intros. unfold closes, closes_c. destruct (find_rule tin tout golden) as [[]|]; reflexivity. Qed.

Definition bools : list bool := [true; false].
Lemma in_bools : forall b, In b bools.
Proof. destruct b; simpl; auto. Qed.

(* one cell of the grid: the model's verdict equals the golden table's for all 32 flag combinations *)
Definition cell_ok (tin tout : N) : bool :=
  let a := lookup2 tin tout in
  let b := find_rule tin tout golden in
  let isin := is_in_ty tin in
  forallb (fun ee => forallb (fun pe => forallb (fun se => forallb (fun hs => forallb (fun sube =>
    Bool.eqb (cc_c isin a ee pe se hs sube) (closes_c b ee pe se)) bools) bools) bools) bools) bools.

Definition grid_ok : bool := forallb (fun tin => forallb (fun tout => cell_ok tin tout) types256) types256.

Lemma grid_ok_true : forallb (fun tin => forallb (fun tout => cell_ok tin tout) types256) types256 = true.
Proof. vm_compute. reflexivity. Qed.

Lemma cell_ok_spec : forall tin tout, cell_ok tin tout = true ->
  forall ee pe se hs sube,
    cc_c (is_in_ty tin) (lookup2 tin tout) ee pe se hs sube = closes_c (find_rule tin tout golden) ee pe se.
Proof.
  intros tin tout H ee pe se hs sube. unfold cell_ok in H. cbv zeta in H.
  rewrite forallb_forall in H. specialize (H ee (in_bools ee)).
  rewrite forallb_forall in H. specialize (H pe (in_bools pe)).
  rewrite forallb_forall in H. specialize (H se (in_bools se)).
  rewrite forallb_forall in H. specialize (H hs (in_bools hs)).
  rewrite forallb_forall in H. specialize (H sube (in_bools sube)).
  apply Bool.eqb_prop in H. exact H.
Qed.

(* outside the byte range neither table has an entry *)
Lemma assoc_bound : forall {A} (l : list (N * A)) k,
  forallb (fun p => fst p <? 256) l = true -> 256 <= k -> assoc k l = None.
Proof.
  induction l as [|[k' v] t IH]; intros k H Hk; simpl in *; [reflexivity|].
  apply andb_true_iff in H. destruct H as [H1 H2]. apply N.ltb_lt in H1.
  assert ((k' =? k) = false) as -> by (apply N.eqb_neq; lia).
  now apply IH.
Qed.

Lemma assoc_in : forall {A} (l : list (N * A)) k v, assoc k l = Some v -> In (k, v) l.
Proof.
  induction l as [|[k' v'] t IH]; intros k v H; simpl in *; [discriminate|].
  destruct (N.eqb_spec k' k).
  - inversion H; subst. now left.
  - right. now apply IH.
Qed.

Definition rules_bounded : bool :=
  forallb (fun p => fst p <? 256) rules && forallb (fun row => forallb (fun p => fst p <? 256) (snd row)) rules.
Lemma rules_bounded_true : rules_bounded = true.
Proof. vm_compute. reflexivity. Qed.

Lemma lookup2_bound : forall tin tout, 256 <= tin \/ 256 <= tout -> lookup2 tin tout = None.
Proof.
  intros tin tout H. pose proof rules_bounded_true as B. unfold rules_bounded in B.
  apply andb_true_iff in B. destruct B as [B1 B2]. unfold lookup2.
  destruct (assoc tin rules) as [r|] eqn:E; [|reflexivity].
  destruct H as [H|H].
  - rewrite (assoc_bound _ _ B1 H) in E. discriminate.
  - apply assoc_in in E. rewrite forallb_forall in B2. specialize (B2 _ E). simpl in B2.
    now apply assoc_bound.
Qed.

Definition golden_bounded : bool :=
  forallb (fun r => (fst (fst r) <? 256) && (snd (fst r) <? 256)) golden.
Lemma golden_bounded_true : golden_bounded = true.
Proof. vm_compute. reflexivity. Qed.

Lemma find_rule_bound_gen : forall l tin tout,
  forallb (fun r : N * N * cond => (fst (fst r) <? 256) && (snd (fst r) <? 256)) l = true ->
  256 <= tin \/ 256 <= tout -> find_rule tin tout l = None.
Proof.
  induction l as [|[[a b] c] t IH]; intros tin tout H Hk; simpl in *; [reflexivity|].
  apply andb_true_iff in H. destruct H as [H1 H2]. apply andb_true_iff in H1. destruct H1 as [Ha Hb].
  apply N.ltb_lt in Ha. apply N.ltb_lt in Hb.
  assert (((a =? tin) && (b =? tout)) = false) as ->.
  { apply andb_false_iff. destruct Hk; [left|right]; apply N.eqb_neq; lia. }
  now apply IH.
Qed.

Lemma forallb2_lift : forall (l : list N) (f : N -> N -> bool),
  forallb (fun a => forallb (fun b => f a b) l) l = true ->
  forall a b, In a l -> In b l -> f a b = true.
Proof.
  intros l f H a b Ha Hb. rewrite forallb_forall in H. specialize (H a Ha).
  rewrite forallb_forall in H. exact (H b Hb).
Qed.

Lemma grid_cell : forall tin tout, tin < 256 -> tout < 256 -> cell_ok tin tout = true.
Proof.
  intros tin tout Hi Ho.
  exact (forallb2_lift types256 cell_ok grid_ok_true tin tout (in_types256 tin Hi) (in_types256 tout Ho)).
Qed.

Lemma abstraction_all : forall tin tout ee pe se hs sube,
  cc_c (is_in_ty tin) (lookup2 tin tout) ee pe se hs sube = closes tin tout ee pe se.
Proof.
  intros. rewrite closes_closes_c.
  destruct (N.lt_ge_cases tin 256) as [Hi|Hi]; [destruct (N.lt_ge_cases tout 256) as [Ho|Ho]|].
  - apply cell_ok_spec. now apply grid_cell.
  - rewrite (lookup2_bound tin tout (or_intror Ho)).
    rewrite (find_rule_bound_gen golden tin tout golden_bounded_true (or_intror Ho)). reflexivity.
  - rewrite (lookup2_bound tin tout (or_introl Hi)).
    rewrite (find_rule_bound_gen golden tin tout golden_bounded_true (or_introl Hi)). reflexivity.
Qed.

Lemma can_close_abstraction : forall d o,
  CanClose d o = closes (ty d) (ty o) (event d =? event o) (ptsv d =? ptsv o) (segnum d =? segexp d).
Proof. intros. rewrite CanClose_cc. apply abstraction_all. Qed.

(* a concrete consequence: only the listed pairs ever close *)
Lemma can_close_listed : forall d o, CanClose d o = true ->
  exists c, In (ty d, ty o, c) golden.
Proof.
  intros d o H. rewrite can_close_abstraction in H. unfold closes in H.
  destruct (find_rule (ty d) (ty o) golden) as [c|] eqn:E; [|discriminate].
  exists c. clear H. revert E. generalize golden. induction l as [|[[a b] c'] t IH]; simpl; [discriminate|].
  destruct (N.eqb_spec a (ty d)); destruct (N.eqb_spec b (ty o)); simpl; intros E;
    try (right; now apply IH).
  inversion E; subst. now left.
Qed.

(* ---------- a type without rules closes nothing ---------- *)

Lemma find_rule_no_rules : forall l tin tout,
  existsb (fun r : N * N * cond => fst (fst r) =? tin) l = false -> find_rule tin tout l = None.
Proof.
  induction l as [|[[a b] c] t IH]; intros tin tout H; simpl in *; [reflexivity|].
  apply orb_false_iff in H. destruct H as [H1 H2]. rewrite H1. simpl. now apply IH.
Qed.

Lemma no_rules_closes_nothing : forall d, has_rules (ty d) = false -> forall o, CanClose d o = false.
Proof.
  intros d H o. rewrite can_close_abstraction. unfold closes.
  unfold has_rules in H. now rewrite (find_rule_no_rules golden (ty d) (ty o) H).
Qed.

Lemma no_rules_model : forall d, assoc (ty d) rules = None -> forall o, CanClose d o = false.
Proof. intros d H o. unfold CanClose. now rewrite H. Qed.

(* exactly these 32 of the 256 types have rules *)
Definition rule_types : list N :=
  [0x10; 0x11; 0x12; 0x13; 0x14; 0x19; 0x20; 0x21; 0x22; 0x23; 0x24; 0x25; 0x26; 0x27; 0x30; 0x31; 0x32; 0x33;
   0x34; 0x35; 0x36; 0x37; 0x3c; 0x3d; 0x40; 0x41; 0x42; 0x43; 0x44; 0x45; 0x50; 0x51].
Lemma has_rules_iff : forall t, has_rules t = true <-> In t rule_types.
Proof.
  intros t. rewrite <- existsb_eqb_in.
  destruct (N.lt_ge_cases t 256) as [H|H].
  - assert (G : forallb (fun t => Bool.eqb (has_rules t) (existsb (N.eqb t) rule_types)) types256 = true)
      by (vm_compute; reflexivity).
    rewrite forallb_forall in G. specialize (G t (in_types256 t H)). apply Bool.eqb_prop in G. now rewrite G.
  - assert (has_rules t = false) as ->.
    { unfold has_rules. pose proof golden_bounded_true as B. unfold golden_bounded in B. revert B.
      generalize golden. induction l as [|[[a b] c] l IH]; simpl; intros B; [reflexivity|].
      apply andb_true_iff in B. destruct B as [B1 B2]. apply andb_true_iff in B1. destruct B1 as [Ha _].
      apply N.ltb_lt in Ha. assert ((a =? t) = false) as -> by (apply N.eqb_neq; lia). now apply IH. }
    assert (existsb (N.eqb t) rule_types = false) as ->.
    { apply Bool.not_true_is_false. rewrite existsb_eqb_in. intros Hi.
      assert (F : forallb (fun x => x <? 256) rule_types = true) by (vm_compute; reflexivity).
      rewrite forallb_forall in F. specialize (F t Hi). apply N.ltb_lt in F. lia. }
    split; discriminate.
Qed.

(* ---------- classification ---------- *)

Lemma is_in_iff : forall d, IsIn d = true <-> In (ty d) in_types.
Proof. intros d. unfold IsIn, is_in_ty. apply existsb_eqb_in. Qed.
Lemma is_out_iff : forall d, IsOut d = true <-> In (ty d) out_types.
Proof. intros d. unfold IsOut, is_out_ty. apply existsb_eqb_in. Qed.

Lemma in_out_disjoint : forall d, ~ (IsIn d = true /\ IsOut d = true).
Proof.
  intros d [Hi Ho]. apply is_in_iff in Hi. apply is_out_iff in Ho.
  assert (F : forallb (fun t => negb (existsb (N.eqb t) out_types)) in_types = true) by (vm_compute; reflexivity).
  rewrite forallb_forall in F. specialize (F _ Hi). apply negb_true_iff in F.
  apply existsb_eqb_in in Ho. congruence.
Qed.

(* the same two facts as a 256-row table, the form the correspondence checks *)
Lemma in_out_table : forall t, t < 256 ->
  is_in_ty t = existsb (N.eqb t) in_types /\ is_out_ty t = existsb (N.eqb t) out_types /\
  is_in_ty t && is_out_ty t = false.
Proof.
  intros t H.
  assert (G : forallb (fun t => Bool.eqb (is_in_ty t) (existsb (N.eqb t) in_types) &&
                               Bool.eqb (is_out_ty t) (existsb (N.eqb t) out_types) &&
                               negb (is_in_ty t && is_out_ty t)) types256 = true) by (vm_compute; reflexivity).
  rewrite forallb_forall in G. specialize (G t (in_types256 t H)).
  apply andb_true_iff in G. destruct G as [G G3]. apply andb_true_iff in G. destruct G as [G1 G2].
  apply Bool.eqb_prop in G1. apply Bool.eqb_prop in G2. apply negb_true_iff in G3. auto.
Qed.

(* ---------- Equal ---------- *)

Lemma Equal_spec : forall d c, Equal d c = true <->
  ty d = ty c /\ haspts d = true /\ haspts c = true /\ ptsv d = ptsv c /\ event d = event c /\
  segnum d = segnum c /\ segexp d = segexp c /\ hassub d = hassub c /\
  (hassub d = true -> subnum d = subnum c /\ subexp d = subexp c).
Proof.
  intros d c. unfold Equal.
  destruct (N.eqb_spec (ty d) (ty c)); simpl; [|split; [discriminate|tauto]].
  destruct (haspts d); simpl; [|split; [discriminate|intuition discriminate]].
  destruct (haspts c); simpl; [|split; [discriminate|intuition discriminate]].
  destruct (N.eqb_spec (ptsv d) (ptsv c)); simpl; [|split; [discriminate|tauto]].
  destruct (N.eqb_spec (event d) (event c)); simpl; [|split; [discriminate|tauto]].
  destruct (N.eqb_spec (segnum d) (segnum c)); simpl; [|split; [discriminate|tauto]].
  destruct (N.eqb_spec (segexp d) (segexp c)); simpl; [|split; [discriminate|tauto]].
  destruct (hassub d), (hassub c); simpl; try (split; [discriminate|intuition discriminate]).
  - destruct (N.eqb_spec (subnum d) (subnum c)); simpl; [|split; [discriminate|intros; exfalso; intuition]].
    destruct (N.eqb_spec (subexp d) (subexp c)); simpl; [|split; [discriminate|intros; exfalso; intuition]].
    tauto.
  - intuition discriminate.
Qed.

Lemma equal_sym_imp : forall a b, Equal a b = true -> Equal b a = true.
Proof.
  intros a b. rewrite !Equal_spec.
  intros (H1 & H2 & H3 & H4 & H5 & H6 & H7 & H8 & H9).
  split; [congruence|]. split; [congruence|]. split; [congruence|]. split; [congruence|].
  split; [congruence|]. split; [congruence|]. split; [congruence|]. split; [congruence|].
  intros Hs. rewrite <- H8 in Hs. destruct (H9 Hs). split; congruence.
Qed.

Lemma equal_sym : forall a b, Equal a b = Equal b a.
Proof. intros a b. apply Bool.eq_true_iff_eq. split; apply equal_sym_imp. Qed.

Lemma equal_trans : forall a b c, Equal a b = true -> Equal b c = true -> Equal a c = true.
Proof.
  intros a b c. rewrite !Equal_spec.
  intros (H1 & H2 & H3 & H4 & H5 & H6 & H7 & H8 & H9) (G1 & G2 & G3 & G4 & G5 & G6 & G7 & G8 & G9).
  split; [congruence|]. split; [congruence|]. split; [congruence|]. split; [congruence|].
  split; [congruence|]. split; [congruence|]. split; [congruence|]. split; [congruence|].
  intros Hs. destruct (H9 Hs). rewrite H8 in Hs. destruct (G9 Hs). split; congruence.
Qed.

Lemma equal_refl_pts : forall a, haspts a = true -> Equal a a = true.
Proof. intros a H. apply Equal_spec. repeat split; auto. Qed.

Lemma equal_refl_iff : forall a, Equal a a = haspts a.
Proof.
  intros a. destruct (haspts a) eqn:H.
  - now apply equal_refl_pts.
  - apply Bool.not_true_is_false. rewrite Equal_spec. intros (_ & H2 & _). congruence.
Qed.

Lemma equal_congruence : forall a b, Equal a b = true ->
  forall x, CanClose a x = CanClose b x /\ CanClose x a = CanClose x b.
Proof.
  intros a b H x. apply Equal_spec in H. destruct H as (H1 & _ & _ & H4 & H5 & H6 & H7 & _).
  rewrite !can_close_abstraction. rewrite H1, H4, H5, H6, H7. split; reflexivity.
Qed.

(* Equal is also a congruence for the classification and for Equal itself *)
Lemma equal_congruence_class : forall a b, Equal a b = true -> IsIn a = IsIn b /\ IsOut a = IsOut b.
Proof. intros a b H. apply Equal_spec in H. destruct H as (H1 & _). unfold IsIn, IsOut. now rewrite H1. Qed.

Lemma equal_congruence_equal : forall a b, Equal a b = true -> forall x, Equal a x = Equal b x.
Proof.
  intros a b H x. apply Bool.eq_true_iff_eq. split; intros G.
  - apply equal_trans with a; [|exact G]. now rewrite equal_sym.
  - now apply equal_trans with b.
Qed.

Lemma in_out_lists : forall d,
  (IsIn d = true <-> In (ty d) in_types) /\ (IsOut d = true <-> In (ty d) out_types).
Proof. intros d. split; [exact (is_in_iff d)|exact (is_out_iff d)]. Qed.
