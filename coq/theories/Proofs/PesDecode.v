(* C11: NewPESHeader inverts the ISO serialiser of Spec/PesSpec.v. *)
From Gots Require Import Base.Prelude Base.CodecLemmas Model.Pts Model.Pes Spec.TimestampSpec Spec.PesSpec Proofs.PcrPts.
Import PesSpec.
Local Open Scope N_scope.

Lemma idx_6 a b c d e f g l : idx (a :: b :: c :: d :: e :: f :: g :: l) 6 = Ok g. Proof. reflexivity. Qed.
Lemma idx_7 a b c d e f g h l : idx (a :: b :: c :: d :: e :: f :: g :: h :: l) 7 = Ok h. Proof. reflexivity. Qed.
Lemma idx_8 a b c d e f g h i l : idx (a :: b :: c :: d :: e :: f :: g :: h :: i :: l) 8 = Ok i. Proof. reflexivity. Qed.

(* the code's list of ids without optional header is the property's list *)
Lemma optional_fields_exist_spec id : Pes.optional_fields_exist id = has_optional_header id.
Proof. unfold Pes.optional_fields_exist, has_optional_header, plain_ids. cbn [existsb].
  destruct (id =? 190), (id =? 191), (id =? 240), (id =? 241), (id =? 242), (id =? 248), (id =? 255); reflexivity. Qed.

Lemma check_length_ge (b : bytes) n : n <= len b -> Pes.check_length b n = true.
Proof. intro H. unfold Pes.check_length. destruct (N.ltb_spec (len b) n); [lia|reflexivity]. Qed.
Lemma check_length_lt (b : bytes) n : len b < n -> Pes.check_length b n = false.
Proof. intro H. unfold Pes.check_length. destruct (N.ltb_spec (len b) n); [reflexivity|lia]. Qed.

Lemma prefix_001 : N.lor (N.lor (w32 (N.shiftl 0 16)) (w32 (N.shiftl 0 8))) 1 = 1. Proof. reflexivity. Qed.
Lemma plen_be hi lo : hi < 256 -> lo < 256 -> N.lor (w16 (N.shiftl hi 8)) lo = hi * 256 + lo.
Proof. intros H1 H2. unfold w16. rewrite N.shiftl_mul_pow2. change (2^8) with 256.
  rewrite N.mod_small by lia. apply (lor_mult_add (hi * 256) lo 8); change (2^8) with 256; lia. Qed.
Lemma aligned_bit f6 : negb (N.land f6 4 =? 0) = N.testbit f6 2.
Proof. change 4 with (2 ^ 2). rewrite land_pow2'. destruct (N.testbit f6 2); reflexivity. Qed.

Lemma slice_from_cons6 a b c d e f (rest : bytes) : slice_from (a :: b :: c :: d :: e :: f :: rest) 6 = Ok rest.
Proof. exact (slice_from_app [a; b; c; d; e; f] rest 6 eq_refl). Qed.

(* ---- ids without optional header: Data = bytes from offset 6 ---- *)
Lemma new_plain id hi lo d0 drest : Pes.optional_fields_exist id = false ->
  Pes.new_pes_header (0 :: 0 :: 1 :: id :: hi :: lo :: d0 :: drest)
  = Ok (Pes.mk_header 1 (negb (N.land d0 4 =? 0)) id (N.lor (w16 (N.shiftl hi 8)) lo) 0 0 0 (d0 :: drest)).
Proof. intro Hopt. unfold Pes.new_pes_header.
  rewrite check_length_ge by (rewrite !len_cons; lia).
  rewrite idx_0, idx_1, idx_2, idx_3, idx_4, idx_5, idx_6. cbn [bind]. rewrite Hopt. cbn [andb].
  assert (L: (6 <? len (0 :: 0 :: 1 :: id :: hi :: lo :: d0 :: drest)) = true) by (apply N.ltb_lt; rewrite !len_cons; lia).
  rewrite L. rewrite slice_from_cons6.
  cbn [bind]. rewrite prefix_001. reflexivity. Qed.

(* ---- ids with optional header ---- *)
(* the timestamps part of NewPESHeader as a function of the bytes *)
Definition stamps_part (pesBytes : bytes) (ind : N) : Res (N * N) :=
  if negb (ind =? 0) && Pes.check_length pesBytes 14 then
    let? s := slice pesBytes 9 14 in
    let? p := Pts.extract_time s in
    if (ind =? 3) && Pes.check_length pesBytes 19 then
      let? s2 := slice pesBytes 14 19 in
      let? d := Pts.extract_time s2 in Ok (p, d)
    else Ok (p, 0)
  else Ok (0, 0).

Lemma new_optional_gen x0 x1 x2 id hi lo f6 f7 hdl rest : Pes.optional_fields_exist id = true ->
  let l := x0 :: x1 :: x2 :: id :: hi :: lo :: f6 :: f7 :: hdl :: rest in
  Pes.new_pes_header l =
    (let ind := N.shiftr (N.land f7 192) 6 in
     let? pd := stamps_part l ind in
     let? dat := (if 9 + hdl <? len l then slice_from l (9 + hdl) else Ok []) in
     Ok (Pes.mk_header (N.lor (N.lor (w32 (N.shiftl x0 16)) (w32 (N.shiftl x1 8))) x2)
                       (negb (N.land f6 4 =? 0)) id (N.lor (w16 (N.shiftl hi 8)) lo) ind (fst pd) (snd pd) dat)).
Proof. intros Hopt l. unfold Pes.new_pes_header.
  rewrite (check_length_ge l 7) by (unfold l; rewrite !len_cons; lia).
  rewrite (check_length_ge l 9) by (unfold l; rewrite !len_cons; lia).
  unfold l at 1 2 3 4 5 6 7 8 9.
  rewrite idx_0, idx_1, idx_2, idx_3, idx_4, idx_5, idx_6. cbn [bind]. rewrite Hopt. cbn [andb].
  unfold l at 1 2. rewrite idx_7, idx_8. cbn [bind]. reflexivity. Qed.

Lemma new_optional id hi lo f6 f7 hdl rest : Pes.optional_fields_exist id = true ->
  let l := 0 :: 0 :: 1 :: id :: hi :: lo :: f6 :: f7 :: hdl :: rest in
  Pes.new_pes_header l =
    (let ind := N.shiftr (N.land f7 192) 6 in
     let? pd := stamps_part l ind in
     let? dat := (if 9 + hdl <? len l then slice_from l (9 + hdl) else Ok []) in
     Ok (Pes.mk_header 1 (negb (N.land f6 4 =? 0)) id (N.lor (w16 (N.shiftl hi 8)) lo) ind (fst pd) (snd pd) dat)).
Proof. intros Hopt. exact (new_optional_gen 0 0 1 id hi lo f6 f7 hdl rest Hopt). Qed.

Lemma ind_of_flags m f7 : m < 4 -> f7 < 64 -> N.shiftr (N.land (m * 64 + f7) 192) 6 = m.
Proof. intros Hm Hf.
  assert (Hc: m = 0 \/ m = 1 \/ m = 2 \/ m = 3) by lia.
  assert (S: forall x, x < 64 -> (N.shiftr (N.land (0 * 64 + x) 192) 6 =? 0) && (N.shiftr (N.land (1 * 64 + x) 192) 6 =? 1)
            && (N.shiftr (N.land (2 * 64 + x) 192) 6 =? 2) && (N.shiftr (N.land (3 * 64 + x) 192) 6 =? 3) = true).
  { apply (sweep (fun x => (N.shiftr (N.land (0 * 64 + x) 192) 6 =? 0) && (N.shiftr (N.land (1 * 64 + x) 192) 6 =? 1)
            && (N.shiftr (N.land (2 * 64 + x) 192) 6 =? 2) && (N.shiftr (N.land (3 * 64 + x) 192) 6 =? 3)) 64).
    vm_compute. reflexivity. }
  specialize (S f7 Hf). rewrite !andb_true_iff, !N.eqb_eq in S. destruct S as [[[S0 S1] S2] S3].
  destruct Hc as [->|[->|[->| ->]]]; assumption. Qed.

Lemma extract_ser_ts p v : p < 16 -> v < 8589934592 -> Pts.extract_time (TsSpec.ser_ts p v) = Ok v.
Proof. intros Hp Hv. rewrite ser_ts_bytes by assumption.
  pose proof (ts_value_bytes p v Hv) as E. unfold TsSpec.ts_bytes in *.
  rewrite extract_time_cons. f_equal. exact E. Qed.
Lemma len_ser_ts p v : len (TsSpec.ser_ts p v) = 5. Proof. reflexivity. Qed.

Lemma stamps_none l : stamps_part l 0 = Ok (0, 0).
Proof. reflexivity. Qed.

Lemma stamps_pts_only_gen (h9 : bytes) q v post : len h9 = 9 -> q < 16 -> v < 8589934592 ->
  stamps_part (h9 ++ TsSpec.ser_ts q v ++ post) 2 = Ok (v, 0).
Proof. intros H9 Hq Hv. unfold stamps_part.
  rewrite check_length_ge by (rewrite !len_app, H9, len_ser_ts; lia).
  change (negb (2 =? 0) && true) with true. cbv iota.
  rewrite (slice_mid h9 (TsSpec.ser_ts q v) post 9 14) by (rewrite ?H9, ?len_ser_ts; reflexivity).
  cbn [bind]. rewrite extract_ser_ts by (assumption || lia). cbn [bind].
  change (2 =? 3) with false. reflexivity. Qed.
Lemma stamps_pts_only (h9 : bytes) v post : len h9 = 9 -> v < 8589934592 ->
  stamps_part (h9 ++ TsSpec.ser_ts 2 v ++ post) 2 = Ok (v, 0).
Proof. intros. apply stamps_pts_only_gen; (assumption || lia). Qed.

Lemma stamps_pts_dts_gen (h9 : bytes) q1 q2 v d post : len h9 = 9 -> q1 < 16 -> q2 < 16 -> v < 8589934592 -> d < 8589934592 ->
  stamps_part (h9 ++ (TsSpec.ser_ts q1 v ++ TsSpec.ser_ts q2 d) ++ post) 3 = Ok (v, d).
Proof. intros H9 Hq1 Hq2 Hv Hd. unfold stamps_part.
  rewrite !check_length_ge by (rewrite !len_app, H9, !len_ser_ts; lia).
  change (negb (3 =? 0) && true) with true. change ((3 =? 3) && true) with true. cbv iota.
  rewrite <- (app_assoc (TsSpec.ser_ts q1 v)).
  rewrite (slice_mid h9 (TsSpec.ser_ts q1 v) (TsSpec.ser_ts q2 d ++ post) 9 14) by (rewrite ?H9, ?len_ser_ts; reflexivity).
  cbn [bind]. rewrite extract_ser_ts by (assumption || lia). cbn [bind].
  rewrite (app_assoc h9).
  rewrite (slice_mid (h9 ++ TsSpec.ser_ts q1 v) (TsSpec.ser_ts q2 d) post 14 19)
    by (rewrite ?len_app, ?H9, ?len_ser_ts; reflexivity).
  cbn [bind]. rewrite extract_ser_ts by (assumption || lia). reflexivity. Qed.
Lemma stamps_pts_dts (h9 : bytes) v d post : len h9 = 9 -> v < 8589934592 -> d < 8589934592 ->
  stamps_part (h9 ++ (TsSpec.ser_ts 3 v ++ TsSpec.ser_ts 1 d) ++ post) 3 = Ok (v, d).
Proof. intros. apply stamps_pts_dts_gen; (assumption || lia). Qed.

(* Data() of the model on  h9 ++ stamps ++ extra ++ data  with the announced header_data_length *)
Lemma data_part (h9 st ex dat : bytes) hdl : len h9 = 9 -> hdl = len st + len ex ->
  (if 9 + hdl <? len (h9 ++ st ++ ex ++ dat) then slice_from (h9 ++ st ++ ex ++ dat) (9 + hdl) else Ok []) = Ok dat.
Proof. intros H9 ->. rewrite !len_app, H9.
  destruct dat as [|x dat].
  - rewrite len_nil. destruct (N.ltb_spec (9 + (len st + len ex)) (9 + (len st + (len ex + 0)))); [lia|reflexivity].
  - destruct (N.ltb_spec (9 + (len st + len ex)) (9 + (len st + (len ex + len (x :: dat))))) as [_|H];
      [|rewrite len_cons in H; lia].
    rewrite (app_assoc st), (app_assoc h9). apply slice_from_app. rewrite !len_app, H9. lia. Qed.

Definition expected_header (p : pes) : Pes.header :=
  Pes.mk_header 1 (aligned p) (stream_id p) (plen p) (ts_flags (ts p)) (pts_of p) (dts_of p) (data p).

Lemma ts_flags_lt t : ts_flags t < 4. Proof. destruct t; cbn; lia. Qed.

(* the full header, for stream ids with the optional header *)
Lemma decode_ser_optional p : wf p -> has_optional_header (stream_id p) = true ->
  Pes.new_pes_header (ser_pes p) = Ok (expected_header p).
Proof. intros (Hid & Hpl & Hf6 & Hf7 & Hts & Hex & Hdat & Hhdl) Hopt.
  destruct p as [id pl f6 f7 t ex dat]. cbn [stream_id plen flags6 flags7 ts extra data] in *.
  unfold ser_pes, expected_header, aligned, pts_of, dts_of, header_data_length in *.
  cbn [stream_id plen flags6 flags7 ts extra data] in *. rewrite Hopt. cbn [app].
  rewrite new_optional by (rewrite optional_fields_exist_spec; exact Hopt).
  cbv zeta. rewrite ind_of_flags by (try apply ts_flags_lt; assumption).
  rewrite plen_be by lia. replace (pl / 256 * 256 + pl mod 256) with pl by lia. rewrite aligned_bit.
  set (h9 := [0; 0; 1; id; pl / 256; pl mod 256; f6; ts_flags t * 64 + f7; len (ser_stamps t) + len ex]).
  change (0 :: 0 :: 1 :: id :: pl / 256 :: pl mod 256 :: f6 :: ts_flags t * 64 + f7 :: len (ser_stamps t) + len ex
          :: ser_stamps t ++ ex ++ dat) with (h9 ++ ser_stamps t ++ ex ++ dat).
  rewrite (data_part h9 (ser_stamps t) ex dat) by reflexivity.
  destruct t as [|v|v d]; cbn [ts_flags ser_stamps wf_stamps] in *.
  - rewrite stamps_none. reflexivity.
  - rewrite stamps_pts_only by (reflexivity || assumption). reflexivity.
  - destruct Hts as [Hv Hd]. rewrite stamps_pts_dts by (reflexivity || assumption). reflexivity. Qed.

(* ids without optional header: prefix, id, length and Data = everything from offset 6 *)
Lemma decode_ser_plain p : wf p -> has_optional_header (stream_id p) = false -> 7 <= len (ser_pes p) ->
  exists al, Pes.new_pes_header (ser_pes p) = Ok (Pes.mk_header 1 al (stream_id p) (plen p) 0 0 0 (data p)).
Proof. intros (Hid & Hpl & _) Hopt Hlen.
  destruct p as [id pl f6 f7 t ex dat]. cbn [stream_id plen data] in *.
  unfold ser_pes in *. cbn [stream_id plen data] in *. rewrite Hopt in *. cbn [app] in *.
  destruct dat as [|d0 drest]; [rewrite !len_cons, len_nil in Hlen; lia|].
  rewrite new_plain by (rewrite optional_fields_exist_spec; exact Hopt).
  rewrite plen_be by lia. replace (pl / 256 * 256 + pl mod 256) with pl by lia.
  eexists. reflexivity. Qed.

Lemma has_pts_flags t : negb (N.land (ts_flags t) 2 =? 0) = match t with NoTs => false | _ => true end.
Proof. destruct t; reflexivity. Qed.
Lemma has_dts_flags t : (ts_flags t =? 3) = match t with PtsDts _ _ => true | _ => false end.
Proof. destruct t; reflexivity. Qed.

(* the property's statement: every getter the property names *)
Theorem decode_ser p : wf p -> 7 <= len (ser_pes p) ->
  exists h, Pes.new_pes_header (ser_pes p) = Ok h /\
    Pes.packetStartCodePrefix h = 1 /\ Pes.streamId h = stream_id p /\ Pes.pesPacketLength h = plen p /\
    Pes.data h = data p /\
    (has_optional_header (stream_id p) = true ->
       Pes.dataAlignment h = aligned p /\ Pes.has_pts h = has_pts p /\ Pes.has_dts h = has_dts p /\
       (has_pts p = true -> Pes.pts h = pts_of p) /\ (has_dts p = true -> Pes.dts h = dts_of p)).
Proof. intros Hwf Hlen. destruct (has_optional_header (stream_id p)) eqn:Hopt.
  - exists (expected_header p). split; [apply decode_ser_optional; assumption|].
    unfold expected_header, Pes.has_pts, Pes.has_dts, has_pts, has_dts.
    cbn [Pes.packetStartCodePrefix Pes.streamId Pes.pesPacketLength Pes.data Pes.dataAlignment Pes.ptsDtsIndicator Pes.pts Pes.dts].
    rewrite has_pts_flags, has_dts_flags. repeat split; reflexivity.
  - destruct (decode_ser_plain p Hwf Hopt Hlen) as [al E]. eexists. split; [exact E|].
    cbn [Pes.packetStartCodePrefix Pes.streamId Pes.pesPacketLength Pes.data].
    repeat split; try reflexivity; discriminate. Qed.

(* a well-formed start with optional header is never shorter than 9 bytes, so the length guard is automatic *)
Lemma ser_optional_len p : has_optional_header (stream_id p) = true -> 9 <= len (ser_pes p).
Proof. intro H. unfold ser_pes. rewrite H. rewrite !len_app. change (len [0; 0; 1; stream_id p; plen p / 256; plen p mod 256]) with 6.
  change (len [flags6 p; ts_flags (ts p) * 64 + flags7 p; header_data_length p]) with 3. lia. Qed.

(* ================= packet.PESHeader ================= *)
Lemma pusi_spec pkt : Pes.pkt_pusi pkt = pusi pkt.
Proof. unfold Pes.pkt_pusi, pusi. change 64 with (2 ^ 6). apply mask_test. Qed.

Lemma payload_spec pkt : length pkt = 188%nat ->
  (forall pay, Pes.pkt_payload pkt = Ok pay <-> ts_payload pkt = Some pay) /\
  Pes.pkt_payload pkt <> Panic /\ Pes.pkt_payload pkt <> Diverge.
Proof. intro L. assert (Ll: len pkt = 188) by (unfold len; rewrite L; reflexivity).
  unfold Pes.pkt_payload, ts_payload, Pes.pkt_contains_payload, Pes.pkt_payload_start, Pes.pkt_contains_af.
  change 16 with (2 ^ 4). change 32 with (2 ^ 5). rewrite !mask_test.
  destruct (N.testbit (nthN pkt 3) 4); cbn [negb].
  2:{ repeat split; intros; discriminate. }
  set (start := if N.testbit (nthN pkt 3) 5 then 4 + (1 + nthN pkt 4) else 4).
  replace (if N.testbit (nthN pkt 3) 5 then 5 + nthN pkt 4 else 4) with start
    by (unfold start; destruct (N.testbit (nthN pkt 3) 5); lia).
  rewrite Ll. destruct (N.ltb_spec 188 start) as [H|H]; destruct (N.leb_spec start 188) as [H'|H']; try lia.
  - repeat split; intros; discriminate.
  - unfold slice_from, slice. rewrite Ll.
    assert (E1: (start <=? 188) = true) by (apply N.leb_le; lia). rewrite E1. cbn [andb]. rewrite N.leb_refl.
    assert (E2: firstn (N.to_nat (188 - start)) (skipn (N.to_nat start) pkt) = dropN start pkt).
    { unfold dropN. apply firstn_all2. rewrite skipn_length, L. lia. }
    rewrite E2. repeat split; try discriminate; intro E; injection E as <-; reflexivity. Qed.

Lemma start_code_test pay :
  (3 <? len pay) && (nthN pay 0 =? 0) && (nthN pay 1 =? 0) && (nthN pay 2 =? 1) = true <-> starts_with_start_code pay.
Proof. unfold starts_with_start_code. rewrite !andb_true_iff, N.ltb_lt, !N.eqb_eq.
  destruct pay as [|a [|b [|c rest]]]; unfold len; cbn [length firstn].
  - split; [intros [[[H _] _] _]|intros [H _]]; lia.
  - split; [intros [[[H _] _] _]|intros [H _]]; lia.
  - split; [intros [[[H _] _] _]|intros [H _]]; lia.
  - change (nthN (a :: b :: c :: rest) 0) with a. change (nthN (a :: b :: c :: rest) 1) with b.
    change (nthN (a :: b :: c :: rest) 2) with c.
    split.
    + intros [[[H ->] ->] ->]. split; [lia|reflexivity].
    + intros [H E]. injection E as -> -> ->. repeat split; lia. Qed.

(* packet.PESHeader = Ok pay  <=>  PUSI, the packet has a payload, it is pay, pay has >= 4 bytes and starts 00 00 01 *)
Theorem pkt_pes_header_iff pkt pay : length pkt = 188%nat ->
  (Pes.pkt_pes_header pkt = Ok pay <-> pusi pkt = true /\ ts_payload pkt = Some pay /\ starts_with_start_code pay).
Proof. intro L. destruct (payload_spec pkt L) as (Hp & _ & _).
  unfold Pes.pkt_pes_header. rewrite pusi_spec. destruct (pusi pkt).
  2:{ split; [discriminate|intros [H _]; discriminate]. }
  destruct (Pes.pkt_payload pkt) as [pay'| | |] eqn:E; cbn [bind].
  - pose proof (proj1 (Hp pay') eq_refl) as Hs.
    destruct ((3 <? len pay') && (nthN pay' 0 =? 0) && (nthN pay' 1 =? 0) && (nthN pay' 2 =? 1)) eqn:T.
    + apply start_code_test in T. split.
      * intro H. injection H as <-. auto.
      * intros (_ & H & _). rewrite Hs in H. injection H as <-. reflexivity.
    + split; [discriminate|]. intros (_ & H & Hsc). rewrite Hs in H. injection H as <-.
      apply start_code_test in Hsc. rewrite Hsc in T. discriminate.
  - split; [discriminate|]. intros (_ & H & _). apply Hp in H. discriminate.
  - split; [discriminate|]. intros (_ & H & _). apply Hp in H. discriminate.
  - split; [discriminate|]. intros (_ & H & _). apply Hp in H. discriminate. Qed.

Lemma pkt_pes_header_total pkt : length pkt = 188%nat ->
  Pes.pkt_pes_header pkt <> Panic /\ Pes.pkt_pes_header pkt <> Diverge.
Proof. intro L. destruct (payload_spec pkt L) as (_ & H1 & H2). unfold Pes.pkt_pes_header.
  destruct (Pes.pkt_pusi pkt); [|split; discriminate].
  destruct (Pes.pkt_payload pkt) as [pay| | |]; cbn [bind]; try contradiction; try (split; discriminate).
  destruct ((3 <? len pay) && (nthN pay 0 =? 0) && (nthN pay 1 =? 0) && (nthN pay 2 =? 1)); split; discriminate. Qed.

(* ================= pes.AlignedPUSI ================= *)
Theorem aligned_pusi_iff pkt d :
  Pes.aligned_pusi pkt = Some d <->
  exists pay h, Pes.pkt_pes_header pkt = Ok pay /\ Pes.new_pes_header pay = Ok h /\ Pes.dataAlignment h = true /\ d = Pes.data h.
Proof. unfold Pes.aligned_pusi. split.
  - destruct (Pes.pkt_pusi pkt) eqn:P; cbn [negb]; [|discriminate].
    destruct (Pes.pkt_pes_header pkt) as [pay| | |] eqn:E1; try discriminate.
    destruct (Pes.new_pes_header pay) as [h| | |] eqn:E2; try discriminate.
    destruct (Pes.dataAlignment h) eqn:A; [|discriminate].
    intro E. injection E as <-. exists pay, h. repeat split; assumption.
  - intros (pay & h & E1 & E2 & A & ->).
    assert (P: Pes.pkt_pusi pkt = true).
    { unfold Pes.pkt_pes_header in E1. destruct (Pes.pkt_pusi pkt); [reflexivity|discriminate]. }
    rewrite P, E1, E2, A. reflexivity. Qed.

(* a packet that carries a complete well-formed PES start (optional-header id) in its payload *)
Theorem aligned_pusi_ser pkt p : length pkt = 188%nat -> wf p -> has_optional_header (stream_id p) = true ->
  pusi pkt = true -> ts_payload pkt = Some (ser_pes p) ->
  Pes.aligned_pusi pkt = if aligned p then Some (data p) else None.
Proof. intros L Hwf Hopt Hpusi Hpay.
  assert (Hsc: starts_with_start_code (ser_pes p)).
  { split; [pose proof (ser_optional_len p Hopt); lia|]. unfold ser_pes. reflexivity. }
  assert (E1: Pes.pkt_pes_header pkt = Ok (ser_pes p)) by (apply pkt_pes_header_iff; auto).
  unfold Pes.aligned_pusi. rewrite pusi_spec, Hpusi, E1, decode_ser_optional by assumption. reflexivity. Qed.

(* ================= end to end (C04): InsertPTS into a PES header, NewPESHeader reads it back ================= *)
Lemma put_ts_app (pre t5 post : bytes) off v : off = len pre -> length t5 = 5%nat ->
  Pes.put_ts (pre ++ t5 ++ post) off v = Ok (pre ++ TsSpec.ts_bytes 2 v ++ post).
Proof. intros Hoff H5. unfold Pes.put_ts. rewrite (slice_from_app pre (t5 ++ post) off Hoff). cbn [bind].
  rewrite insert_pts_ok by (rewrite app_length; lia). cbn [bind].
  rewrite (takeN_len_app pre (t5 ++ post) off Hoff). f_equal. f_equal. f_equal.
  rewrite <- H5. rewrite skipn_app, skipn_all, Nat.sub_diag. reflexivity. Qed.

Lemma slice_from_ok (l : bytes) i : i <= len l -> exists d, slice_from l i = Ok d.
Proof. intro H. unfold slice_from, slice.
  assert (E1: (i <=? len l) = true) by (apply N.leb_le; lia). rewrite E1, N.leb_refl. cbn [andb]. eexists. reflexivity. Qed.

Theorem pes_pts_dts_readback b v1 v2 : (19 <= length b)%nat ->
  Pes.optional_fields_exist (nthN b 3) = true -> N.shiftr (N.land (nthN b 7) 192) 6 = 3 ->
  v1 < 8589934592 -> v2 < 8589934592 ->
  exists b1 b2 h, Pes.put_ts b 9 v1 = Ok b1 /\ Pes.put_ts b1 14 v2 = Ok b2 /\ Pes.new_pes_header b2 = Ok h /\
    Pes.has_pts h = true /\ Pes.has_dts h = true /\ Pes.pts h = v1 /\ Pes.dts h = v2 /\
    length b2 = length b /\ firstn 9 b2 = firstn 9 b /\ skipn 19 b2 = skipn 19 b.
Proof. intros Hl Hopt Hind Hv1 Hv2.
  destruct b as [|x0 [|x1 [|x2 [|x3 [|x4 [|x5 [|x6 [|x7 [|x8 r9]]]]]]]]]; cbn [length] in Hl; try lia.
  change (nthN (x0 :: x1 :: x2 :: x3 :: x4 :: x5 :: x6 :: x7 :: x8 :: r9) 3) with x3 in Hopt.
  change (nthN (x0 :: x1 :: x2 :: x3 :: x4 :: x5 :: x6 :: x7 :: x8 :: r9) 7) with x7 in Hind.
  destruct (list_ge5 r9) as (t0 & t1 & t2 & t3 & t4 & r14 & ->); [lia|]. cbn [length] in Hl.
  destruct (list_ge5 r14) as (u0 & u1 & u2 & u3 & u4 & r19 & ->); [lia|].
  set (h9 := [x0; x1; x2; x3; x4; x5; x6; x7; x8]).
  set (t5 := [t0; t1; t2; t3; t4]). set (u5 := [u0; u1; u2; u3; u4]).
  change (x0 :: x1 :: x2 :: x3 :: x4 :: x5 :: x6 :: x7 :: x8 :: t0 :: t1 :: t2 :: t3 :: t4 :: u0 :: u1 :: u2 :: u3 :: u4 :: r19)
    with (h9 ++ t5 ++ u5 ++ r19).
  exists (h9 ++ TsSpec.ts_bytes 2 v1 ++ u5 ++ r19), (h9 ++ TsSpec.ts_bytes 2 v1 ++ TsSpec.ts_bytes 2 v2 ++ r19).
  assert (E1: Pes.put_ts (h9 ++ t5 ++ u5 ++ r19) 9 v1 = Ok (h9 ++ TsSpec.ts_bytes 2 v1 ++ u5 ++ r19))
    by (apply put_ts_app; reflexivity).
  assert (E2: Pes.put_ts (h9 ++ TsSpec.ts_bytes 2 v1 ++ u5 ++ r19) 14 v2 = Ok (h9 ++ TsSpec.ts_bytes 2 v1 ++ TsSpec.ts_bytes 2 v2 ++ r19)).
  { rewrite (app_assoc h9 (TsSpec.ts_bytes 2 v1)), (app_assoc h9 (TsSpec.ts_bytes 2 v1)).
    apply put_ts_app; reflexivity. }
  pose proof (new_optional_gen x0 x1 x2 x3 x4 x5 x6 x7 x8 (TsSpec.ts_bytes 2 v1 ++ TsSpec.ts_bytes 2 v2 ++ r19) Hopt) as N.
  cbv zeta in N. rewrite Hind in N.
  change (x0 :: x1 :: x2 :: x3 :: x4 :: x5 :: x6 :: x7 :: x8 :: TsSpec.ts_bytes 2 v1 ++ TsSpec.ts_bytes 2 v2 ++ r19)
    with (h9 ++ TsSpec.ts_bytes 2 v1 ++ TsSpec.ts_bytes 2 v2 ++ r19) in N.
  assert (S: stamps_part (h9 ++ TsSpec.ts_bytes 2 v1 ++ TsSpec.ts_bytes 2 v2 ++ r19) 3 = Ok (v1, v2)).
  { rewrite <- !ser_ts_bytes by (assumption || lia). rewrite (app_assoc (TsSpec.ser_ts 2 v1)).
    apply stamps_pts_dts_gen; (reflexivity || assumption || lia). }
  rewrite S in N. cbn [bind fst snd] in N.
  assert (D: exists d, (if 9 + x8 <? len (h9 ++ TsSpec.ts_bytes 2 v1 ++ TsSpec.ts_bytes 2 v2 ++ r19)
                        then slice_from (h9 ++ TsSpec.ts_bytes 2 v1 ++ TsSpec.ts_bytes 2 v2 ++ r19) (9 + x8) else Ok []) = Ok d).
  { destruct (N.ltb_spec (9 + x8) (len (h9 ++ TsSpec.ts_bytes 2 v1 ++ TsSpec.ts_bytes 2 v2 ++ r19))) as [H|H];
      [apply slice_from_ok; lia | eexists; reflexivity]. }
  destruct D as [d D]. rewrite D in N. cbn [bind] in N.
  eexists. split; [exact E1|]. split; [exact E2|]. split; [exact N|].
  cbn [Pes.has_pts Pes.has_dts Pes.ptsDtsIndicator Pes.pts Pes.dts].
  repeat split; reflexivity. Qed.

(* ================= a transport packet carries only a prefix of a PES packet ================= *)
Definition ser_head (p : pes) : bytes :=
  [0; 0; 1; stream_id p; plen p / 256; plen p mod 256] ++
  (if has_optional_header (stream_id p)
   then [flags6 p; ts_flags (ts p) * 64 + flags7 p; header_data_length p] ++ ser_stamps (ts p) ++ extra p
   else []).
Definition set_data (p : pes) (d : bytes) : pes :=
  mk_pes (stream_id p) (plen p) (flags6 p) (flags7 p) (ts p) (extra p) d.

Lemma ser_pes_split p : ser_pes p = ser_head p ++ data p.
Proof. unfold ser_pes, ser_head. destruct (has_optional_header (stream_id p)).
  - rewrite <- !app_assoc. reflexivity.
  - rewrite app_nil_r. reflexivity. Qed.
Lemma ser_head_set_data p d : ser_head (set_data p d) = ser_head p.
Proof. reflexivity. Qed.

Lemma is_bytes_firstn (l : bytes) n : is_bytes l -> is_bytes (firstn n l).
Proof. unfold is_bytes. revert n. induction l as [|x l IH]; intros n H; destruct n; cbn [firstn]; try constructor.
  - inversion H; assumption.
  - apply IH. inversion H; assumption. Qed.

Lemma wf_set_data p n : wf p -> wf (set_data p (takeN n (data p))).
Proof. intros (H1 & H2 & H3 & H4 & H5 & H6 & H7 & H8). unfold wf, set_data, header_data_length in *.
  cbn [stream_id plen flags6 flags7 ts extra data]. repeat split; try assumption.
  apply is_bytes_firstn. assumption. Qed.

(* cutting a well-formed PES start anywhere at or after the end of its header gives the start with shorter data *)
Lemma ser_pes_prefix p n : len (ser_head p) <= n ->
  takeN n (ser_pes p) = ser_pes (set_data p (takeN (n - len (ser_head p)) (data p))).
Proof. intro H. rewrite !ser_pes_split, ser_head_set_data. cbn [set_data data].
  unfold takeN. rewrite firstn_app. rewrite firstn_all2 by (unfold len in H; lia).
  f_equal. f_equal. unfold len in *. lia. Qed.

Theorem decode_ser_prefix p n : wf p -> has_optional_header (stream_id p) = true -> len (ser_head p) <= n ->
  Pes.new_pes_header (takeN n (ser_pes p)) =
  Ok (expected_header (set_data p (takeN (n - len (ser_head p)) (data p)))).
Proof. intros Hwf Hopt Hn. rewrite ser_pes_prefix by exact Hn.
  apply decode_ser_optional; [apply wf_set_data; exact Hwf | exact Hopt]. Qed.

(* a packet whose payload is the first k bytes of a well-formed PES packet (k >= header length): AlignedPUSI
   returns the part of the PES payload that is in this packet, exactly when data_alignment_indicator is set *)
Theorem aligned_pusi_prefix pkt p n : length pkt = 188%nat -> wf p -> has_optional_header (stream_id p) = true ->
  len (ser_head p) <= n -> pusi pkt = true -> ts_payload pkt = Some (takeN n (ser_pes p)) ->
  Pes.aligned_pusi pkt = if aligned p then Some (takeN (n - len (ser_head p)) (data p)) else None.
Proof. intros L Hwf Hopt Hn Hpusi Hpay. rewrite ser_pes_prefix in Hpay by exact Hn.
  rewrite (aligned_pusi_ser pkt _ L (wf_set_data p _ Hwf) Hopt Hpusi Hpay). reflexivity. Qed.

(* ================= the packet as a serialiser ================= *)
Lemma ts_payload_ser b0 b1 b2 b3 af pay : wf_tspkt b3 af pay ->
  ts_payload (ser_tspkt b0 b1 b2 b3 af pay) = Some pay /\ pusi (ser_tspkt b0 b1 b2 b3 af pay) = N.testbit b1 6 /\
  length (ser_tspkt b0 b1 b2 b3 af pay) = 188%nat.
Proof. intros (H4 & H5 & HL). unfold ser_tspkt in *. split; [|split; [reflexivity|exact HL]].
  unfold ts_payload. change (nthN ([b0; b1; b2; b3] ++ ser_af af ++ pay) 3) with b3. rewrite H4, H5.
  destruct af as [a|]; cbn [ser_af app] in *.
  - change (nthN (b0 :: b1 :: b2 :: b3 :: len a :: a ++ pay) 4) with (len a).
    assert (E: b0 :: b1 :: b2 :: b3 :: len a :: a ++ pay = (b0 :: b1 :: b2 :: b3 :: len a :: a) ++ pay) by reflexivity.
    rewrite E. cbn [length] in HL. rewrite app_length in HL.
    destruct (N.leb_spec (5 + len a) 188) as [_|Hbad]; [|unfold len in Hbad; lia].
    f_equal. apply dropN_len_app. rewrite !len_cons. lia.
  - change (4 <=? 188) with true. cbv iota. reflexivity. Qed.

(* a packet built around the first n bytes of a well-formed PES packet *)
Theorem packet_carries_pes b0 b1 b2 b3 af p n : wf p -> has_optional_header (stream_id p) = true ->
  len (ser_head p) <= n -> wf_tspkt b3 af (takeN n (ser_pes p)) ->
  let pkt := ser_tspkt b0 b1 b2 b3 af (takeN n (ser_pes p)) in
  (Pes.pkt_pes_header pkt = Ok (takeN n (ser_pes p)) <-> N.testbit b1 6 = true) /\
  Pes.aligned_pusi pkt =
    if N.testbit b1 6 && aligned p then Some (takeN (n - len (ser_head p)) (data p)) else None.
Proof. intros Hwf Hopt Hn Hpk pkt.
  destruct (ts_payload_ser b0 b1 b2 b3 af _ Hpk) as (Hpay & Hpusi & HL). fold pkt in Hpay, Hpusi, HL.
  assert (Hsc: starts_with_start_code (takeN n (ser_pes p))).
  { rewrite ser_pes_prefix by exact Hn. split; [|reflexivity].
    pose proof (ser_optional_len (set_data p (takeN (n - len (ser_head p)) (data p))) Hopt). lia. }
  split.
  - rewrite pkt_pes_header_iff by exact HL. rewrite Hpusi. split; [intros (H & _); exact H|intro H; auto].
  - destruct (N.testbit b1 6) eqn:P; cbn [andb].
    + apply aligned_pusi_prefix; assumption.
    + unfold Pes.aligned_pusi. rewrite pusi_spec, Hpusi. reflexivity. Qed.
