(* C12, stream-sync clause: StreamSyncSignal is the first grouping id equal to 0x1C / 0x1D, else 0xFF. *)
From Gots Require Import Base.Prelude Model.Ebp.
Import Ebp.

Definition not_sync (y : N) : Prop := y <> 28 /\ y <> 29.

Lemma stream_sync_char (g : bytes) :
  (exists pre x post, g = pre ++ x :: post /\ (x = 28 \/ x = 29) /\ Forall not_sync pre /\ stream_sync g = x)
  \/ (Forall not_sync g /\ stream_sync g = 255).
Proof.
  induction g as [|y g IH].
  - right. split; [constructor | reflexivity].
  - cbn [stream_sync]. unfold StreamSynchronized, StreamNotSynchronized.
    destruct (N.eqb_spec y 29) as [E29|N29]; [|destruct (N.eqb_spec y 28) as [E28|N28]]; cbn [orb].
    + left. exists [], y, g. repeat split; auto.
    + left. exists [], y, g. repeat split; auto.
    + destruct IH as [(pre & x & post & -> & Hx & Hpre & Hs) | (Hall & Hs)].
      * left. exists (y :: pre), x, post. repeat split; auto. constructor; [split; assumption | assumption].
      * right. split; [constructor; [split; assumption | assumption] | assumption].
Qed.

Lemma stream_sync_signal (e : t) :
  (exists pre x post, Grouping e = pre ++ x :: post /\ (x = 28 \/ x = 29) /\ Forall not_sync pre /\ StreamSyncSignal e = x)
  \/ (Forall not_sync (Grouping e) /\ StreamSyncSignal e = 255).
Proof. apply stream_sync_char. Qed.
