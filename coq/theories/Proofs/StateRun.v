(* C10 lemmas, part 2: shape of one ProcessDescriptor / Close call, soundness of the closed lists,
   rejection of descriptors without PTS, runs never panic. *)
From Gots Require Import Base.Prelude Model.SegDesc Model.State Proofs.SegProofs Proofs.StateBasics.
Import SegDesc State.
Local Open Scope nat_scope.

Definition rejection (err : option N) : Prop :=
  err = Some E.SCTE35UnsupportedSpliceCommand \/ err = Some E.SCTE35DuplicateDescriptor \/ err = Some E.VSSSignalIdNotFound.

(* the possible early returns of the duplicate scan *)
Lemma scan_descs_err : forall d same ds n a n' a' e,
  scan_descs d same ds n a = (n', a', Some e) -> e = E.SCTE35DuplicateDescriptor \/ e = E.VSSSignalIdNotFound.
Proof.
  intros d same. induction ds as [|x t IH]; intros n a n' a' e H; simpl in H; [discriminate|].
  destruct (same && Equal d x); [inversion H; auto|].
  destruct ((event d =? event x)%N && (ty x =? 64)%N && (ty d =? 64)%N).
  - unfold StreamSwitchSignalId in H. destruct (vss d); [|inversion H; auto].
    destruct (vss x); [|inversion H; auto].
    destruct ((n0 =? n1)%N && (event x =? event d)%N); [inversion H; auto|]. eapply IH; eassumption.
  - eapply IH; eassumption.
Qed.

Lemma scan_ring_err : forall d p ring a ring1 a' e,
  scan_ring d p ring a = (ring1, a', Some e) -> e = E.SCTE35DuplicateDescriptor \/ e = E.VSSSignalIdNotFound.
Proof.
  intros d p. induction ring as [|[x|] t IH]; intros a ring1 a' e H; simpl in H; [discriminate| |].
  - destruct (scan_descs d (epts x =? p)%N (edescs x) 0 a) as [[napp a1] [err|]] eqn:S.
    + inversion H; subst. eapply scan_descs_err; eassumption.
    + destruct (scan_ring d p t a1) as [[t' a2] r] eqn:R. inversion H; subst. eapply IH; eassumption.
  - destruct (scan_ring d p t a) as [[t' a2] r] eqn:R. inversion H; subst. eapply IH; eassumption.
Qed.

(* One ProcessDescriptor call, case by case.  Either the descriptor is rejected before the open list is
   touched, or: closed = the longest closable run from the top of the stack, the stack keeps `keep`,
   a resumption in blackout additionally truncates at the breakaway, and the descriptor is appended
   for the breakaway / resumption / out types. *)
Definition appended (t : N) : bool := (t =? 0x13)%N || (t =? 0x14)%N || out_case t.

Lemma process_shape : forall s d s' closed err, I1 s ->
  ProcessDescriptor s d = Ok (s', (closed, err)) ->
  (rejection err /\ closed = [] /\ open s' = open s /\ inBlackout s' = inBlackout s /\ blackoutIdx s' = blackoutIdx s /\
   receivedHead s' = receivedHead s /\ (haspts d = false -> s' = s) /\
   (haspts d = true -> exists ring1 added x, scan_ring d (ptsv d) (received s) false = (ring1, added, Some x) /\
                                             received s' = ring1 /\ err = Some x))
  \/
  (~ rejection err /\ haspts d = true /\
   (exists ring1 added, scan_ring d (ptsv d) (received s) false = (ring1, added, None) /\
      received s' = (if added then ring1 else set_nth ring1 (receivedHead s) (Some (mkElem (ptsv d) [d]))) /\
      receivedHead s' = (if added then receivedHead s else (receivedHead s + 1) mod receivedRingLen)) /\
   closed = close_loop d (rev (open s)) /\
   exists keep, open s = keep ++ rev closed /\
     let keep' := if (ty d =? 0x14)%N && inb_after_close s keep then firstn (blackoutIdx s) keep else keep in
     open s' = if appended (ty d) then keep' ++ [d] else keep').
Proof.
  intros s d s' closed err HI H. pose proof HI as (B & (RL & RH) & HP). unfold ProcessDescriptor in H.
  destruct (haspts d) eqn:Hd; cbn [negb] in H.
  2:{ inversion H; subst. left. unfold rejection. repeat split; auto. discriminate. }
  pose proof (scan_ring_length d (ptsv d) (received s) false) as SL.
  destruct (scan_ring d (ptsv d) (received s) false) as [[ring1 added] early] eqn:SR. simpl in SL.
  destruct early as [e|].
  { inversion H; subst. left.
    split; [destruct (scan_ring_err _ _ _ _ _ _ _ SR) as [-> | ->]; unfold rejection; auto|].
    simpl. split; [reflexivity|]. split; [reflexivity|]. split; [reflexivity|]. split; [reflexivity|].
    split; [reflexivity|]. split; [intros X; congruence|]. intros _. exists ring1, added, e. auto. }
  right.
  set (cl := close_loop d (rev (open s))) in *.
  set (open1 := firstn (length (open s) - length cl) (open s)) in *.
  fold (inb_after_close s open1) in H.
  pose proof (close_loop_split d (open s)) as SP. cbv zeta in SP. fold cl in SP. fold open1 in SP.
  assert (RW : (if added then Ok (ring1, receivedHead s)
     else if receivedHead s <? length ring1
          then Ok (set_nth ring1 (receivedHead s) (Some (mkElem (ptsv d) [d])), (receivedHead s + 1) mod receivedRingLen)
          else Panic) = Ok (if added then ring1 else set_nth ring1 (receivedHead s) (Some (mkElem (ptsv d) [d])),
                            if added then receivedHead s else (receivedHead s + 1) mod receivedRingLen)).
  { destruct added; [reflexivity|].
    assert ((receivedHead s <? length ring1) = true) as -> by (apply Nat.ltb_lt; lia). reflexivity. }
  rewrite RW in H. cbn [bind] in H. clear RW.
  assert (NR : forall e, e = None \/ e = Some E.SCTE35InvalidDescriptor \/ e = Some E.SCTE35MissingOut -> ~ rejection e).
  { intros e [ -> | [ -> | -> ] ] [ X | [ X | X ] ]; discriminate. }
  assert (VI : forall a b c, validate_in a b c = None \/ validate_in a b c = Some E.SCTE35MissingOut).
  { intros a b c. unfold validate_in. destruct (negb (is_nil b) && is_nil c); [auto|].
    destruct (last_opt b) as [x|]; [destruct (negb (ty x =? sub8 (ty a) 1)%N)|];
      try (destruct (last_opt c) as [y|]; [|auto]); try destruct (negb (event y =? event a)%N);
      try destruct (negb (event x =? event a)%N); auto. }
  unfold appended.
  destruct (N.eqb_spec (ty d) 0x13) as [T13|T13].
  { inversion H; subst. split; [apply NR; auto|]. split; [reflexivity|]. split; [eauto|]. split; [reflexivity|].
    exists open1. split; [exact SP|]. rewrite T13. reflexivity. }
  destruct (N.eqb_spec (ty d) 0x14) as [T14|T14].
  { destruct (inb_after_close s open1) eqn:Hi.
    - destruct (blackoutIdx s <=? length open1) eqn:Hb; [|discriminate].
      inversion H; subst. split; [apply NR; auto|]. split; [reflexivity|]. split; [eauto|]. split; [reflexivity|].
      exists open1. split; [exact SP|]. fold cl. rewrite Hi. reflexivity.
    - inversion H; subst. split; [apply NR; auto|]. split; [reflexivity|]. split; [eauto|]. split; [reflexivity|].
      exists open1. split; [exact SP|]. fold cl. rewrite Hi. reflexivity. }
  cbn [orb andb].
  destruct (out_case (ty d)) eqn:OC.
  { inversion H; subst. split; [apply NR; auto|]. split; [reflexivity|]. split; [eauto|]. split; [reflexivity|].
    exists open1. split; [exact SP|]. reflexivity. }
  destruct (N.eqb_spec (ty d) 0x11) as [T11|T11].
  { inversion H; subst. split; [apply NR; destruct (is_nil cl); auto|]. split; [reflexivity|]. split; [eauto|].
    split; [reflexivity|]. exists open1. split; [exact SP|]. reflexivity. }
  destruct (in_case (ty d)).
  { inversion H; subst. split; [apply NR; destruct (VI d cl open1) as [-> | ->]; auto|]. split; [reflexivity|].
    split; [eauto|]. split; [reflexivity|]. exists open1. split; [exact SP|]. reflexivity. }
  inversion H; subst. split; [apply NR; auto|]. split; [reflexivity|]. split; [eauto|]. split; [reflexivity|].
  exists open1. split; [exact SP|]. reflexivity.
Qed.

(* closed lists of ProcessDescriptor: the top of the stack, last-opened first, each closable by the
   incoming descriptor, and maximal (the next one down is not closable) *)
Theorem process_closed_sound : forall s d s' closed err, I1 s ->
  ProcessDescriptor s d = Ok (s', (closed, err)) ->
  exists keep, open s = keep ++ rev closed /\ Forall (fun c => CanClose d c = true) closed /\
    (closed <> [] -> ~ rejection err) /\
    (~ rejection err -> match rev keep with [] => True | c :: _ => CanClose d c = false end).
Proof.
  intros s d s' closed err HI H.
  destruct (process_shape _ _ _ _ _ HI H) as [(R & -> & _)|(NR & Hd & _ & Hc & keep & Ho & _)].
  - exists (open s). simpl. rewrite app_nil_r. split; [reflexivity|]. split; [constructor|]. split; [congruence|]. intros X. contradiction.
  - exists keep. split; [exact Ho|].
    destruct (close_loop_prefix d (rev (open s))) as [rest (P1 & P2 & P3)]. rewrite <- Hc in *.
    split; [exact P2|]. split; [auto|]. intros _.
    assert (rev keep = rest).
    { rewrite Ho in P1. rewrite rev_app_distr, rev_involutive in P1. now apply app_inv_head in P1. }
    now subst rest.
Qed.

(* Close: the removed descriptor was open, is the last-opened one Equal to the argument, nothing else moves *)
Theorem close_sound : forall s d s' closed err, Close s d = (s', (closed, err)) ->
  (err = Some E.SCTE35DescriptorNotFound /\ closed = [] /\ s' = s /\ Forall (fun x => Equal d x = false) (open s))
  \/
  (err = None /\ exists i c, closed = [c] /\ nth_error (open s) i = Some c /\ Equal d c = true /\
     open s' = remove_at i (open s) /\
     (forall j y, i < j -> nth_error (open s) j = Some y -> Equal d y = false)).
Proof.
  intros s d s' closed err H. unfold Close in H.
  destruct (find_last_equal d (open s)) as [i|] eqn:F.
  - right. destruct (find_last_equal_spec _ _ _ F) as [Li (x & Hx & He & Hl)].
    assert (nth i (open s) d = x) by (now apply nth_error_nth).
    destruct (inBlackout s); [destruct (i =? blackoutIdx s); [|destruct (i <? blackoutIdx s)]|];
      inversion H; subst; (split; [reflexivity|]); exists i, (nth i (open s) d); repeat split; auto.
  - left. inversion H; subst. repeat split; auto. now apply find_last_equal_none.
Qed.

(* a descriptor whose signal carries no PTS is always rejected, nothing changes *)
Theorem no_pts_rejected : forall s d, haspts d = false ->
  ProcessDescriptor s d = Ok (s, ([], Some E.SCTE35UnsupportedSpliceCommand)) /\
  Close s d = (s, ([], Some E.SCTE35DescriptorNotFound)).
Proof.
  intros s d H. split.
  - unfold ProcessDescriptor. now rewrite H.
  - unfold Close. assert (find_last_equal d (open s) = None) as ->; [|reflexivity].
    induction (open s) as [|a t IH]; simpl; [reflexivity|]. rewrite IH.
    assert (Equal d a = false) as ->; [|reflexivity].
    apply Bool.not_true_is_false. rewrite Equal_spec. intros (_ & X & _). congruence.
Qed.

(* ---------- runs ---------- *)

Definition call_in_pool (pool : list desc) (c : call) : Prop :=
  match c with CProcess i | CClose i => i < length pool | COpen => True end.

Theorem step_I1 : forall pool s c, I1 s -> call_in_pool pool c ->
  exists s' o l, step pool s c = Ok (s', o) /\ I1 s' /\ o_open o = Ok l.
Proof.
  intros pool s c HI Hc. destruct c as [i|i|]; simpl in *.
  - destruct (nth_error pool i) as [d|] eqn:E; [|apply nth_error_None in E; lia].
    destruct (process_I1 s d HI) as (s' & [closed err] & HP & HI'). rewrite HP. cbn [bind].
    destruct (Open_ok s' HI') as [l Hl]. eexists; eexists; exists (ids l). split; [reflexivity|]. split; [assumption|].
    simpl. now rewrite Hl.
  - destruct (nth_error pool i) as [d|] eqn:E; [|apply nth_error_None in E; lia].
    pose proof (close_I1 s d HI) as HI'. destruct (Close s d) as [s' [closed err]]. simpl in HI'.
    destruct (Open_ok s' HI') as [l Hl]. eexists; eexists; exists (ids l). split; [reflexivity|]. split; [assumption|].
    simpl. now rewrite Hl.
  - destruct (Open_ok s HI) as [l Hl]. eexists; eexists; exists (ids l). split; [reflexivity|]. split; [assumption|].
    simpl. now rewrite Hl.
Qed.

(* no call of any history panics, and Open() after it does not either: every slice expression of
   state.go (the model turns each out-of-range one into Panic) is in range *)
Theorem never_panics : forall pool cs s, I1 s -> Forall (call_in_pool pool) cs ->
  length (run pool s cs) = length cs /\
  Forall (fun o => exists ob l, o = Some ob /\ o_open ob = Ok l) (run pool s cs).
Proof.
  intros pool. induction cs as [|c t IH]; intros s HI HF; simpl; [split; [reflexivity|constructor]|].
  inversion HF; subst. destruct (step_I1 pool s c HI H1) as (s' & o & l & HS & HI' & HO).
  rewrite HS, HO. destruct (IH s' HI' H2) as [L F]. simpl. split; [now rewrite L|].
  constructor; [exists o, l; auto|assumption].
Qed.

(* I1 holds in every reachable state *)
Fixpoint exec (pool : list desc) (s : state) (cs : list call) : Res state :=
  match cs with
  | [] => Ok s
  | c :: t => let? (s', _) := step pool s c in exec pool s' t
  end.

Theorem I1_reachable : forall pool cs s, I1 s -> Forall (call_in_pool pool) cs ->
  exists s', exec pool s cs = Ok s' /\ I1 s'.
Proof.
  intros pool. induction cs as [|c t IH]; intros s HI HF; simpl; [eauto|].
  inversion HF; subst. destruct (step_I1 pool s c HI H1) as (s' & o & l & HS & HI' & HO).
  rewrite HS. cbn [bind]. now apply IH.
Qed.

(* the slice / index expressions that the model writes with total list functions are in range too:
   `s.open[0 : len(s.open)-len(closed)]` (no underflow), and the index Close works on *)
Theorem internal_slices_in_range : forall s d,
  length (close_loop d (rev (open s))) <= length (open s) /\
  (forall i, find_last_equal d (open s) = Some i -> i < length (open s)).
Proof.
  intros s d. split.
  - rewrite <- (rev_length (open s)). apply close_loop_length.
  - intros i H. now destruct (find_last_equal_spec _ _ _ H).
Qed.

Theorem I1_reachable_new : forall pool cs, Forall (call_in_pool pool) cs ->
  exists s', exec pool NewState cs = Ok s' /\ I1 s'.
Proof. intros pool cs H. exact (I1_reachable pool cs NewState I1_new H). Qed.

Theorem never_panics_new : forall pool cs, Forall (call_in_pool pool) cs ->
  length (run pool NewState cs) = length cs /\
  Forall (fun o => exists ob l, o = Some ob /\ o_open ob = Ok l) (run pool NewState cs).
Proof. intros pool cs H. exact (never_panics pool cs NewState I1_new H). Qed.
