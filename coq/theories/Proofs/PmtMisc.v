(* C06: ExtractCRC, PSI header accessors, table header codec, NewPointerField;
   witnesses for K1 (empty stream list) and F4 (unrepaired completion predicate); non-vacuity example. *)
From Gots Require Import Base.Prelude Model.Psi Model.Pmt Spec.PmtSpec Proofs.PmtBase Proofs.PmtParse Proofs.PmtTables Proofs.PmtRead.
Import Pmt.
Local Open Scope N_scope.

(* ---------- ExtractCRC ---------- *)
Definition crc32_of (l : bytes) : N := match l with [a; b; c; d] => be32 a b c d | _ => 0 end.

Theorem extract_crc_ok c : wf_carrier c -> pf c = 0 -> pre c = [] ->
  extract_crc (ser_payload c) = Ok (crc32_of (crc (sec c))).
Proof. intros (Hpf & Hpre & W) P0 PR. pose proof W as (_ & _ & _ & _ & _ & _ & _ & _ & Hsl & Hcrc & _).
  unfold ser_payload, ser_unit. rewrite P0, PR. cbn [repeatN N.to_nat repeat ser_pre flat_map app].
  set (s := sec c) in *. set (ST := repeatN 255 (stuffing c)).
  assert (LS: len (ser_sec s) = 3 + sec_len s) by (apply len_ser_sec; exact Hcrc).
  assert (L13: 13 <= sec_len s) by (unfold sec_len; rewrite len_sec_body; lia).
  unfold extract_crc. rewrite len_cons, len_app, LS.
  replace (1 + (3 + sec_len s + len ST) <? 4) with false by lia.
  unfold Psi.section_length. cbn [Psi.pointer_field]. rewrite len_cons, len_app, LS.
  replace (1 + (3 + sec_len s + len ST) <=? 1 + 0) with false by lia.
  change (dropN (1 + 0) (0 :: ser_sec s ++ ST)) with (ser_sec s ++ ST).
  rewrite section_length_ser_sec by exact Hsl.
  replace (1 + (3 + sec_len s + len ST) <? sec_len s) with false by lia.
  rewrite w16_small by lia.
  replace (1 + (3 + sec_len s + len ST) <? 4 + sec_len s) with false by lia.
  replace (sub16 (4 + sec_len s) 4) with (sec_len s) by (unfold sub16, w16; lia).
  unfold ser_sec. rewrite <- app_assoc.
  change (0 :: ser_sec_nocrc s ++ crc s ++ ST) with ((0 :: ser_sec_nocrc s) ++ crc s ++ ST).
  assert (LN: len (0 :: ser_sec_nocrc s) = sec_len s).
  { unfold ser_sec in LS. rewrite len_app, Hcrc in LS. rewrite len_cons. lia. }
  rewrite slice_mid by (rewrite ?LN, ?Hcrc; lia). cbn [bind].
  destruct (crc s) as [|a [|b [|c0 [|d [|? ?]]]]]; cbn in Hcrc; try lia. reflexivity. Qed.

(* ---------- PSI accessors ---------- *)
(* on any payload  pointer_field, filler of that many bytes, then a 3-byte section header *)
Theorem psi_accessors pfv filler t b1 b2 rest :
  len filler = pfv ->
  let p := pfv :: filler ++ t :: b1 :: b2 :: rest in
  Psi.pointer_field p = pfv /\ Psi.table_id p = t /\
  Psi.section_syntax_indicator p = bit b1 128 /\ Psi.private_indicator p = bit b1 64 /\
  Psi.section_length p = N.lor (N.shiftl (N.land b1 3) 8) b2.
Proof. intros Lf p. subst p.
  assert (LP: len (pfv :: filler ++ t :: b1 :: b2 :: rest) = 1 + pfv + 3 + len rest)
    by (rewrite len_cons, len_app, !len_cons, Lf; lia).
  assert (D: dropN (1 + pfv) (pfv :: filler ++ t :: b1 :: b2 :: rest) = t :: b1 :: b2 :: rest).
  { change (pfv :: filler ++ t :: b1 :: b2 :: rest) with ((pfv :: filler) ++ t :: b1 :: b2 :: rest).
    apply dropN_app. rewrite len_cons, Lf. reflexivity. }
  unfold Psi.table_id, Psi.section_syntax_indicator, Psi.private_indicator, Psi.section_length.
  cbn [Psi.pointer_field]. rewrite LP, D.
  replace (1 + pfv + 3 + len rest <=? 1 + pfv) with false by lia.
  replace (1 + pfv + 3 + len rest <=? 2 + pfv) with false by lia.
  repeat split.
  - unfold Psi.ssi'. rewrite !len_cons. match goal with |- (if ?c then _ else _) = _ => replace c with false by lia end. reflexivity.
  - f_equal. replace (pfv :: filler ++ t :: b1 :: b2 :: rest) with ((pfv :: filler ++ [t]) ++ b1 :: b2 :: rest)
      by (cbn [app]; rewrite <- app_assoc; reflexivity).
    apply nthN_app_r. rewrite len_cons, len_app, len_cons, len_nil, Lf. lia.
  - apply sl_cons3. Qed.

Lemma bits_176 h : h < 4 -> bit (176 + h) 128 = true /\ bit (176 + h) 64 = false.
Proof. intros H. assert (h = 0 \/ h = 1 \/ h = 2 \/ h = 3) as [->|[->|[->| ->]]] by lia; split; reflexivity. Qed.

(* on a carrier whose first section is the program map section *)
Theorem psi_accessors_pmt c : wf_carrier c -> pre c = [] ->
  let p := ser_payload c in
  Psi.pointer_field p = pf c /\ Psi.table_id p = 2 /\ Psi.section_syntax_indicator p = true /\
  Psi.private_indicator p = false /\ Psi.section_length p = sec_len (sec c).
Proof. intros (Hpf & Hpre & W) PR p. subst p. pose proof W as (_ & _ & _ & _ & _ & _ & _ & _ & Hsl & _).
  unfold ser_payload, ser_unit. rewrite PR. cbn [ser_pre flat_map app]. rewrite ser_sec_explicit. cbn [app]. rewrite <- !app_assoc.
  cbn [app].
  match goal with |- context [?a :: repeatN 255 ?b ++ 2 :: ?x1 :: ?x2 :: ?r] =>
    pose proof (psi_accessors a (repeatN 255 b) 2 x1 x2 r (len_repeatN _ _)) as K end.
  cbv zeta in K. destruct K as (K1 & K2 & K3 & K4 & K5).
  destruct (bits_176 (sec_len (sec c) / 256)) as [B1 B2]; [lia|].
  rewrite K1, K2, K3, K4, K5, B1, B2. repeat split.
  replace (176 + sec_len (sec c) / 256) with (44 * 4 + sec_len (sec c) / 256) by lia.
  apply field_len10; lia. Qed.

(* when another section comes first the accessors describe that one *)
Theorem psi_accessors_other c o t : wf_carrier c -> pre c = o :: t ->
  let p := ser_payload c in
  Psi.pointer_field p = pf c /\ Psi.table_id p = otid o /\ Psi.section_length p = len (obody o) /\
  Psi.section_syntax_indicator p = bit (ohi o * 16) 128 /\ Psi.private_indicator p = bit (ohi o * 16) 64.
Proof. intros (Hpf & Hpre & W) PR p. subst p. rewrite PR in Hpre. inversion Hpre as [|? ? (Ht & H2 & H255 & Hh & Hl & Hb) _]; subst.
  unfold ser_payload, ser_unit. rewrite PR, ser_pre_cons. unfold ser_other. cbn [app]. rewrite <- !app_assoc. cbn [app].
  match goal with |- context [?a :: repeatN 255 ?b ++ ?x0 :: ?x1 :: ?x2 :: ?r] =>
    pose proof (psi_accessors a (repeatN 255 b) x0 x1 x2 r (len_repeatN _ _)) as K end.
  cbv zeta in K. destruct K as (K1 & K2 & K3 & K4 & K5). rewrite K1, K2, K3, K4, K5.
  repeat split.
  - replace (ohi o * 16 + len (obody o) / 256) with ((ohi o * 4) * 4 + len (obody o) / 256) by lia. apply field_len10; lia.
  - assert (S: forallb (fun a => forallb (fun b => Bool.eqb (bit (a * 16 + b) 128) (bit (a * 16) 128)) (nrange 4 0)) (nrange 16 0) = true) by (vm_compute; reflexivity).
    apply Bool.eqb_prop. apply (sweep2 (fun a b => Bool.eqb (bit (a * 16 + b) 128) (bit (a * 16) 128)) 16 4 S); lia.
  - assert (S: forallb (fun a => forallb (fun b => Bool.eqb (bit (a * 16 + b) 64) (bit (a * 16) 64)) (nrange 4 0)) (nrange 16 0) = true) by (vm_compute; reflexivity).
    apply Bool.eqb_prop. apply (sweep2 (fun a b => Bool.eqb (bit (a * 16 + b) 64) (bit (a * 16) 64)) 16 4 S); lia.
Qed.

(* ---------- table header codec ---------- *)
Definition th_eq (a b : Psi.table_header) : Prop :=
  Psi.th_tid a = Psi.th_tid b /\ Psi.th_ssi a = Psi.th_ssi b /\ Psi.th_pi a = Psi.th_pi b /\ Psi.th_sl a = Psi.th_sl b.

Lemma th_byte1 (s p : bool) h : h < 4 ->
  let d1 := N.lor (N.lor (if p then N.lor (if s then 128 else 0) 64 else (if s then 128 else 0)) 48) h in
  bit d1 128 = s /\ bit d1 64 = p /\ N.land d1 3 = h.
Proof. intros H. assert (h = 0 \/ h = 1 \/ h = 2 \/ h = 3) as [->|[->|[->| ->]]] by lia; destruct s, p; repeat split. Qed.

Theorem table_header_from_bytes_data h : Psi.th_tid h < 256 -> Psi.th_sl h < 1024 ->
  exists h', Psi.table_header_from_bytes (Psi.table_header_data h) = Ok h' /\ th_eq h' h.
Proof. intros Ht Hs. destruct h as [tid s p sl]. cbn [Psi.th_tid Psi.th_sl] in *.
  unfold Psi.table_header_data. cbn [Psi.th_tid Psi.th_ssi Psi.th_pi Psi.th_sl].
  rewrite N.shiftr_div_pow2. change (2 ^ 8) with 256.
  rewrite (w8_small (sl / 256)) by lia.
  replace (N.land (sl / 256) 3) with (sl / 256) by (change 3 with (N.ones 2); rewrite N.land_ones; change (2 ^ 2) with 4; lia).
  destruct (th_byte1 s p (sl / 256)) as (A1 & A2 & A3); [lia|]. cbv zeta in A1, A2, A3.
  set (d1 := N.lor (N.lor (if p then N.lor (if s then 128 else 0) 64 else if s then 128 else 0) 48) (sl / 256)) in *.
  unfold Psi.table_header_from_bytes. cbn [len length N.of_nat N.ltb N.compare Pos.compare Pos.compare_cont Pos.of_succ_nat Pos.succ].
  change (idx [tid; d1; w8 sl] 0) with (Ok tid). change (idx [tid; d1; w8 sl] 1) with (Ok d1).
  change (idx [tid; d1; w8 sl] 2) with (Ok (w8 sl)). cbn [bind].
  eexists. split; [reflexivity|]. unfold th_eq. cbn [Psi.th_tid Psi.th_ssi Psi.th_pi Psi.th_sl].
  rewrite A1, A2, A3. repeat split. unfold w8. rewrite lor_shl8 by lia. lia. Qed.

Lemma th_byte1_back b1 : b1 < 256 ->
  N.lor (N.lor (if bit b1 64 then N.lor (if bit b1 128 then 128 else 0) 64 else (if bit b1 128 then 128 else 0)) 48) (N.land b1 3)
  = N.lor (N.land b1 195) 48.
Proof. intros H.
  assert (S: forallb (fun a => N.lor (N.lor (if bit a 64 then N.lor (if bit a 128 then 128 else 0) 64 else (if bit a 128 then 128 else 0)) 48) (N.land a 3)
                               =? N.lor (N.land a 195) 48) (nrange 256 0) = true) by (vm_compute; reflexivity).
  apply N.eqb_eq. exact (sweep1 _ 256 S b1 H). Qed.

(* decode then encode: the three bytes come back with the two reserved bits forced to 1 *)
Theorem table_header_data_from_bytes b0 b1 b2 : b0 < 256 -> b1 < 256 -> b2 < 256 ->
  exists h, Psi.table_header_from_bytes [b0; b1; b2] = Ok h /\
            Psi.table_header_data h = [b0; N.lor (N.land b1 195) 48; b2].
Proof. intros H0 H1 H2. eexists. split; [reflexivity|].
  unfold Psi.table_header_data. cbn [Psi.th_tid Psi.th_ssi Psi.th_pi Psi.th_sl].
  assert (L3: N.land b1 3 < 4) by (change 3 with (N.ones 2); rewrite N.land_ones; change (2 ^ 2) with 4; lia).
  rewrite lor_shl8 by lia. rewrite N.shiftr_div_pow2. change (2 ^ 8) with 256.
  replace ((N.land b1 3 * 256 + b2) / 256) with (N.land b1 3) by lia.
  rewrite (w8_small (N.land b1 3)) by lia.
  replace (N.land (N.land b1 3) 3) with (N.land b1 3) by (rewrite <- N.land_assoc; reflexivity).
  rewrite th_byte1_back by exact H1. f_equal. f_equal. f_equal. unfold w8. lia. Qed.

Theorem table_header_short d : len d < 3 -> Psi.table_header_from_bytes d = Err E.ShortPayload.
Proof. intros H. unfold Psi.table_header_from_bytes. replace (len d <? 3) with true by lia. reflexivity. Qed.

Theorem new_pointer_field_ok n : n < 256 ->
  Psi.new_pointer_field (Z.of_N n) = Ok (n :: repeatN 255 n).
Proof. intros H. unfold Psi.new_pointer_field. replace (Z.of_N n <? 0)%Z with false by lia.
  rewrite N2Z.id, w8_small by lia. reflexivity. Qed.

(* ---------- K1: a well-formed PMT with an empty stream list is parsed from its payload but never returned by the reader ---------- *)
Definition k1_sec : pmt_sec :=
  {| prog := 1; sversion := 0; scni := true; secno := 0; lastno := 0; pcr_pid := 256; pdescs := []; sstreams := [];
     crc := [1; 2; 3; 4] |}.
Definition k1_carrier : carrier := {| pf := 0; pre := []; sec := k1_sec; stuffing := 0 |}.
Definition k1_misc : pmisc := {| tei := false; prio := false; tsc := 0; cc := 0 |}.
Definition k1_items : list item := [Mine k1_misc (Some (0 :: repeatN 255 165)) (ser_payload k1_carrier)].

Lemma is_bytes_repeatN x n : x < 256 -> is_bytes (repeatN x n).
Proof. intros H. unfold is_bytes, repeatN. apply Forall_forall. intros y Hy. apply repeat_spec in Hy. subst. exact H. Qed.
Lemma cuts_ok_no_pre c l : pre c = [] -> cuts_ok c l.
Proof. intros P j k _ (i & Hi & _). rewrite P in Hi. cbn in Hi. lia. Qed.

Lemma k1_wf : wf_carrier k1_carrier.
Proof. unfold wf_carrier, k1_carrier, wf_sec, k1_sec. cbn [pf pre sec prog sversion secno lastno pcr_pid pdescs sstreams crc].
  repeat split; try constructor; try (cbn; lia). all: repeat constructor; unfold is_byte; lia. Qed.
Lemma k1_items_wf : Forall (wf_item 256) k1_items.
Proof. constructor; [|constructor]. cbn [wf_item]. unfold wf_pkt_parts. repeat split; try (cbn; lia).
  - unfold ser_payload, ser_unit. vm_compute. repeat constructor.
  - constructor; [unfold is_byte; lia|]. apply is_bytes_repeatN. lia. Qed.

Theorem empty_streams_refuted :
  exists c pid items,
    wf_carrier c /\ Forall (wf_item pid) items /\ concat (chunks items) = ser_payload c /\ cuts_ok c items /\
    sstreams (sec c) = [] /\ new_pmt (ser_payload c) = Ok (sec_result (sec c)) /\
    read_pmt (packetise pid items) pid = Err E.PMTNotFound.
Proof. exists k1_carrier, 256, k1_items. split; [exact k1_wf|]. split; [exact k1_items_wf|].
  split; [vm_compute; reflexivity|]. split; [apply cuts_ok_no_pre; reflexivity|].
  split; [reflexivity|]. split; vm_compute; reflexivity. Qed.

Theorem any_stream_list_refuted :
  ~ (forall c pid items, wf_carrier c -> Forall (wf_item pid) items ->
       (exists n, concat (chunks items) = ser_unit c ++ repeatN 255 n) -> cuts_ok c items ->
       read_pmt (packetise pid items) pid = Ok (sec_result (sec c))).
Proof. intros H. specialize (H k1_carrier 256 k1_items k1_wf k1_items_wf).
  assert (E: exists n, concat (chunks k1_items) = ser_unit k1_carrier ++ repeatN 255 n) by (exists 0; vm_compute; reflexivity).
  specialize (H E (cuts_ok_no_pre k1_carrier k1_items eq_refl)). vm_compute in H. discriminate. Qed.

(* ---------- F4: the completion predicate of the unrepaired tree is true on header-straddling proper prefixes ---------- *)
Theorem done_orig_refuted :
  exists c k, wf_carrier c /\ k < len (ser_unit c) /\ ~ inner_end c k /\
              done_func_orig (takeN k (ser_unit c)) = Ok true /\ done_func (takeN k (ser_unit c)) = Ok false.
Proof. exists k1_carrier, 3. split; [exact k1_wf|]. split; [vm_compute; reflexivity|].
  split; [intros (i & Hi & _); cbn in Hi; lia|]. split; vm_compute; reflexivity. Qed.

(* ---------- non-vacuity: three streams with descriptors, a preceding section, three packets ---------- *)
Definition ex_sec : pmt_sec :=
  {| prog := 1; sversion := 5; scni := true; secno := 0; lastno := 0; pcr_pid := 257;
     pdescs := [{| dtag := 5; ddata := [67; 85; 69; 73] |}];
     sstreams := [ {| stype := 27; epid := 257; descs := [{| dtag := 40; ddata := [100; 0; 31; 63] |}] |};
                   {| stype := 15; epid := 258; descs := [{| dtag := 10; ddata := [101; 110; 103; 0] |}; {| dtag := 124; ddata := [] |}] |};
                   {| stype := 134; epid := 259; descs := [] |} ];
     crc := [222; 173; 190; 239] |}.
Definition ex_carrier : carrier :=
  {| pf := 2; pre := [{| otid := 66; ohi := 15; obody := [1; 2; 3] |}]; sec := ex_sec; stuffing := 3 |}.
Definition ex_payload : bytes := ser_payload ex_carrier.
Definition ex_af (n : N) : option bytes := Some (0 :: repeatN 255 (n - 1)).
(* cuts after 5 and 40 bytes (the inner section end is at offset 9) *)
Definition ex_items : list item :=
  [ Mine k1_misc (ex_af 178) (takeN 5 ex_payload);
    Other (71 :: 0 :: 0 :: 16 :: repeatN 0 184);
    Mine k1_misc (ex_af 148) (takeN 35 (dropN 5 ex_payload));
    Mine k1_misc (ex_af (183 - (len ex_payload - 40))) (dropN 40 ex_payload) ].

Lemma ex_wf : wf_carrier ex_carrier.
Proof. unfold wf_carrier, ex_carrier, wf_sec, ex_sec, wf_other, wf_es, wf_desc.
  cbn [pf pre sec prog sversion secno lastno pcr_pid pdescs sstreams crc].
  repeat split; try (cbn; lia); repeat constructor; cbn; unfold is_byte; try lia. Qed.
Lemma is_bytes_sweep l : forallb is_byteb l = true -> is_bytes l.
Proof. intros H. unfold is_bytes. apply Forall_forall. intros x Hx. rewrite forallb_forall in H.
  specialize (H x Hx). unfold is_byteb in H. unfold is_byte. lia. Qed.
Lemma ex_mine n ch : 1 <= n -> forallb is_byteb ch = true -> 4 + 1 + n + len ch = 188 ->
  wf_item 481 (Mine k1_misc (ex_af n) ch).
Proof. intros Hn Hb Hl. cbn [wf_item]. unfold wf_pkt_parts, ex_af, wf_misc. cbn [tsc cc k1_misc].
  repeat split; try lia.
  - apply is_bytes_sweep. exact Hb.
  - constructor; [unfold is_byte; lia|]. apply is_bytes_repeatN. lia.
  - rewrite len_cons, len_repeatN. lia. Qed.
Lemma ex_items_wf : Forall (wf_item 481) ex_items.
Proof. unfold ex_items.
  apply Forall_cons; [apply ex_mine; [lia|vm_compute; reflexivity|vm_compute; reflexivity]|].
  apply Forall_cons; [split; [vm_compute; reflexivity|split; [apply is_bytes_sweep; vm_compute; reflexivity|vm_compute; discriminate]]|].
  apply Forall_cons; [apply ex_mine; [lia|vm_compute; reflexivity|vm_compute; reflexivity]|].
  apply Forall_cons; [apply ex_mine; [vm_compute; discriminate|vm_compute; reflexivity|vm_compute; reflexivity]|].
  constructor.
Qed.
Lemma ex_cuts : cuts_ok ex_carrier ex_items.
Proof. intros j k Hk (i & Hi & E). cbn [ex_carrier pre length] in Hi. assert (i = 1%nat) by lia. subst i.
  assert (k = 9) by (rewrite E; vm_compute; reflexivity). clear E.
  subst k. destruct j as [|[|[|[|[|j]]]]]; vm_compute in H; discriminate. Qed.
Example nonvacuous :
  wf_carrier ex_carrier /\ Forall (wf_item 481) ex_items /\ concat (chunks ex_items) = ser_payload ex_carrier /\
  cuts_ok ex_carrier ex_items /\ sstreams (sec ex_carrier) <> [] /\
  read_pmt (packetise 481 ex_items) 481 = Ok (sec_result ex_sec).
Proof. split; [exact ex_wf|]. split; [exact ex_items_wf|]. split; [vm_compute; reflexivity|].
  split; [exact ex_cuts|]. split; [discriminate|]. vm_compute. reflexivity. Qed.

(* ---------- the common carrier (no preceding section): the unqualified forms of L3 and L4 ---------- *)
Lemma no_inner_end c k : pre c = [] -> ~ inner_end c k.
Proof. intros P (i & Hi & _). rewrite P in Hi. cbn in Hi. lia. Qed.
Theorem done_prefix_no_pre c k : wf_carrier c -> pre c = [] -> k < len (ser_unit c) ->
  done_func (takeN k (ser_unit c)) = Ok false.
Proof. intros W P Hk. destruct (done_prefix c k W Hk) as (b & Hb & Hiff). rewrite Hb. f_equal.
  destruct b; [|reflexivity]. exfalso. apply (no_inner_end c k P). apply Hiff. reflexivity. Qed.
Theorem read_pmt_any_split c pid items :
  wf_carrier c -> pre c = [] -> sstreams (sec c) <> [] -> Forall (wf_item pid) items ->
  (exists n, concat (chunks items) = ser_unit c ++ repeatN 255 n) ->
  read_pmt (packetise pid items) pid = Ok (sec_result (sec c)).
Proof. intros W P NE WI EQ. apply read_pmt_ok; try assumption. apply cuts_ok_no_pre. exact P. Qed.

(* ---------- the cut condition of L4 is necessary: a packet boundary exactly at the end of the preceding section makes the
   reader give up (the accumulator reports done there, the prefix holds no PMT, the continuation has no unit start) ---------- *)
Definition ex_items_bad : list item :=
  [ Mine k1_misc (ex_af 174) (takeN 9 ex_payload);
    Mine k1_misc (ex_af (183 - (len ex_payload - 9))) (dropN 9 ex_payload) ].
Theorem inner_end_cut_refuted :
  exists c pid items,
    wf_carrier c /\ sstreams (sec c) <> [] /\ Forall (wf_item pid) items /\ concat (chunks items) = ser_payload c /\
    inner_end c (len (concat (chunks (firstn 1 items)))) /\
    read_pmt (packetise pid items) pid = Err E.NoPayloadUnitStartIndicator.
Proof. exists ex_carrier, 481, ex_items_bad. split; [exact ex_wf|]. split; [discriminate|]. split.
  { unfold ex_items_bad.
    apply Forall_cons; [apply ex_mine; [lia|vm_compute; reflexivity|vm_compute; reflexivity]|].
    apply Forall_cons; [apply ex_mine; [vm_compute; discriminate|vm_compute; reflexivity|vm_compute; reflexivity]|]. constructor. }
  split; [vm_compute; reflexivity|]. split.
  - exists 1%nat. split; [cbn; lia|vm_compute; reflexivity].
  - vm_compute. reflexivity. Qed.

(* ---------- ExtractCRC with pointer_field 0 but a PRECEDING section: the hypothesis `pre c = []` of extract_crc_ok is
   necessary.  The accessor takes section_length of the FIRST section and returns that section's last four bytes. ---------- *)
Theorem extract_crc_preceding c o t : wf_carrier c -> pf c = 0 -> pre c = o :: t -> 4 <= len (obody o) ->
  extract_crc (ser_payload c) = Ok (crc32_of (dropN (len (obody o) - 4) (obody o))).
Proof. intros (Hpf & Hpre & W) P0 PR L4. rewrite PR in Hpre. inversion Hpre as [|? ? (Ht & H2 & H255 & Hh & Hl & Hb) _]; subst.
  unfold ser_payload, ser_unit. rewrite P0, PR, ser_pre_cons. cbn [repeatN N.to_nat repeat app]. unfold ser_other.
  rewrite <- !app_assoc. cbn [app].
  set (lb := len (obody o)) in *. set (b1 := ohi o * 16 + lb / 256). set (b2 := lb mod 256).
  set (REST := ser_pre t ++ ser_sec (sec c) ++ repeatN 255 (stuffing c)).
  assert (SL: Psi.section_length (0 :: otid o :: b1 :: b2 :: obody o ++ REST) = lb).
  { unfold Psi.section_length. cbn [Psi.pointer_field]. rewrite !len_cons, len_app. fold lb.
    replace (1 + (1 + (1 + (1 + (lb + len REST)))) <=? 1 + 0) with false by lia.
    change (dropN (1 + 0) (0 :: otid o :: b1 :: b2 :: obody o ++ REST)) with (otid o :: b1 :: b2 :: obody o ++ REST).
    rewrite sl_cons3. unfold b1, b2. replace (ohi o * 16 + lb / 256) with ((ohi o * 4) * 4 + lb / 256) by lia.
    apply field_len10; lia. }
  unfold extract_crc. rewrite SL. rewrite !len_cons, len_app. fold lb.
  replace (1 + (1 + (1 + (1 + (lb + len REST)))) <? 4) with false by lia.
  replace (1 + (1 + (1 + (1 + (lb + len REST)))) <? lb) with false by lia.
  rewrite w16_small by lia.
  replace (1 + (1 + (1 + (1 + (lb + len REST)))) <? 4 + lb) with false by lia.
  replace (sub16 (4 + lb) 4) with lb by (unfold sub16, w16; lia).
  assert (SP: obody o = takeN (lb - 4) (obody o) ++ dropN (lb - 4) (obody o)) by (unfold takeN, dropN; symmetry; apply firstn_skipn).
  assert (LT: len (takeN (lb - 4) (obody o)) = lb - 4) by (rewrite len_takeN; fold lb; lia).
  assert (LD: len (dropN (lb - 4) (obody o)) = 4).
  { assert (K: len (obody o) = len (takeN (lb - 4) (obody o) ++ dropN (lb - 4) (obody o))) by (rewrite <- SP; reflexivity).
    rewrite len_app, LT in K. fold lb in K. lia. }
  rewrite SP at 1. rewrite <- app_assoc.
  change (0 :: otid o :: b1 :: b2 :: takeN (lb - 4) (obody o) ++ dropN (lb - 4) (obody o) ++ REST)
    with ((0 :: otid o :: b1 :: b2 :: takeN (lb - 4) (obody o)) ++ dropN (lb - 4) (obody o) ++ REST).
  rewrite slice_mid by (rewrite ?len_cons, ?LT, ?LD; lia). cbn [bind].
  destruct (dropN (lb - 4) (obody o)) as [|a0 [|a1 [|a2 [|a3 [|? ?]]]]]; rewrite ?len_cons, ?len_nil in LD; try lia. reflexivity. Qed.

Definition crc_pre_carrier : carrier :=
  {| pf := 0; pre := [{| otid := 66; ohi := 15; obody := [9; 2; 3; 4; 5] |}]; sec := k1_sec; stuffing := 0 |}.
Theorem extract_crc_preceding_refuted :
  exists c, wf_carrier c /\ pf c = 0 /\ pre c <> [] /\
            extract_crc (ser_payload c) = Ok (be32 2 3 4 5) /\ crc32_of (crc (sec c)) = be32 1 2 3 4.
Proof. exists crc_pre_carrier. split.
  { destruct k1_wf as (_ & _ & W). split; [cbn; lia|]. split; [|exact W].
    constructor; [|constructor]. unfold wf_other. cbn [otid ohi obody]. repeat split; try (cbn; lia); try discriminate.
    repeat constructor; unfold is_byte; lia. }
  split; [reflexivity|]. split; [discriminate|]. split; vm_compute; reflexivity. Qed.
