(* C09: "every setter is reflected ... by the next encoding": the signal-level setters keep a normal state normal
   (values are truncated to the field width first), so the next UpdateData is the serialisation of the updated
   field values. *)
From Gots Require Import Base.Prelude Model.Pts Model.Scte Model.ScteEnc Spec.Scte35Spec
  Proofs.ScteLemmas Proofs.ScteExpected Proofs.ScteLogical Proofs.ScteEncode.
Import Scte ScteEnc Scte35Spec.
Local Open Scope N_scope.

Lemma normal_set_tier fs st v : normal fs st -> normal fs (apply_sig_op st (SSetTier v)).
Proof.
  intros (H1 & H2 & H3 & H4 & H5 & H6 & H7 & H8 & H9 & H10 & H11 & H12 & H13).
  unfold normal. cbn [apply_sig_op with_tier s_tid s_protocol s_enc_alg s_cw s_tier s_pts s_cmd s_cmd_type s_descs s_other s_stuffing].
  repeat split; try assumption. apply N.mod_lt. discriminate.
Qed.
Theorem set_tier_encoded fs st v : normal fs st ->
  let st' := apply_sig_op st (SSetTier v) in
  fst (update_data st') = ser_section (logical fs st') /\ si_tier (logical fs st') = v mod 4096.
Proof. intros H st'. split; [apply encode_canonical, normal_set_tier, H|reflexivity]. Qed.

Lemma normal_set_adjust_pts fs st v : normal fs st -> v < 8589934592 -> normal fs (apply_sig_op st (SSetAdjustPTS v)).
Proof.
  intros (H1 & H2 & H3 & H4 & H5 & H6 & H7 & H8 & H9 & H10 & H11 & H12 & H13) Hv.
  unfold normal. cbn [apply_sig_op with_pts s_tid s_protocol s_enc_alg s_cw s_tier s_pts s_cmd s_cmd_type s_descs s_other s_stuffing].
  repeat split; assumption.
Qed.
(* pts_adjustment of the next encoding = (v - command pts_time) mod 2^33 *)
Theorem set_adjust_pts_encoded fs st v : normal fs st -> v < 8589934592 ->
  let st' := apply_sig_op st (SSetAdjustPTS v) in
  fst (update_data st') = ser_section (logical fs st') /\
  (cmd_pts (s_cmd st) + si_pts_adj (logical fs st')) mod 8589934592 = v.
Proof.
  intros H Hv st'. split; [apply encode_canonical, normal_set_adjust_pts; assumption|].
  destruct H as (_ & _ & _ & _ & _ & _ & Hc & _).
  unfold st', logical, logical0. cbn [apply_sig_op with_pts with_crc si_pts_adj s_pts s_cmd].
  unfold subtract_pts. destruct (N.leb_spec (cmd_pts (s_cmd st)) v); [rewrite N.mod_small; lia|].
  unfold sub64, w64. lia.
Qed.

Lemma normal_set_descriptors fs st ds : normal fs st ->
  Forall normal_desc (map (build_desc (s_id st)) ds) ->
  13 + len (cmd_data (s_cmd st)) + len (s_other st ++ flat_map seg_data (map (build_desc (s_id st)) ds)) + 4 + s_stuffing st < 1024 ->
  normal fs (apply_sig_op st (SSetDescriptors ds)).
Proof.
  intros (H1 & H2 & H3 & H4 & H5 & H6 & H7 & H8 & H9 & H10 & H11 & H12 & H13) Hd Hl.
  unfold normal. cbn [apply_sig_op with_descs s_tid s_protocol s_enc_alg s_cw s_tier s_pts s_cmd s_cmd_type s_descs s_other s_stuffing].
  repeat split; assumption.
Qed.
Lemma normal_set_command_info fs st k cops :
  let c := fold_left (fun c o => apply_cmd_op o c) cops (create_cmd k) in
  normal fs st -> normal_cmd c -> cmd_pts c < 8589934592 ->
  13 + len (cmd_data c) + len (s_other st ++ flat_map seg_data (s_descs st)) + 4 + s_stuffing st < 1024 ->
  normal fs (apply_sig_op st (SSetCommandInfo k cops)).
Proof.
  intros c (H1 & H2 & H3 & H4 & H5 & H6 & H7 & H8 & H9 & H10 & H11 & H12 & H13) Hc Hp Hl.
  unfold normal. cbn [apply_sig_op with_cmd s_tid s_protocol s_enc_alg s_cw s_tier s_pts s_cmd s_cmd_type s_descs s_other s_stuffing].
  fold c. repeat split; try assumption; reflexivity.
Qed.
(* the freshly created signal is normal (no foreign descriptors) *)
Lemma normal_create : normal [] create_scte35.
Proof. unfold normal, create_scte35. cbn. repeat split; try lia; try reflexivity; constructor. Qed.
