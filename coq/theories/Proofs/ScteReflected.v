(* C09: "every setter is reflected ... by the next encoding": the signal-level setters keep a normal state normal
   (values are truncated to the field width first), so the next UpdateData is the serialisation of the updated
   field values. *)
From Gots Require Import Base.Prelude Model.Pts Model.Scte Model.ScteEnc Spec.Scte35Spec
  Proofs.ScteLemmas Proofs.ScteExpected Proofs.ScteLogical Proofs.ScteEncode Proofs.ScteSetters.
Import Scte ScteEnc Scte35Spec.
Local Open Scope N_scope.

Lemma normal_set_tier fs st v : normal fs st -> normal fs (apply_sig_op st (SSetTier v)).
Proof.
  intros (H1 & H2 & H3 & H4 & H5 & H6 & H7 & H8 & H9 & H10 & H11 & H12 & H13).
  unfold normal. cbn [apply_sig_op with_tier s_tid s_protocol s_enc_alg s_cw s_tier s_pts s_cmd s_cmd_type s_descs s_other s_stuffing].
  repeat split; try assumption. apply N.mod_lt. discriminate.
Qed.
Theorem set_tier_encoded fs st v : normal fs st ->
  let st' := apply_sig_op st (SSetTier v) in
  fst (update_data st') = ser_section (logical fs st') /\ si_tier (logical fs st') = v mod 4096.
Proof. intros H st'. split; [apply encode_canonical, normal_set_tier, H|reflexivity]. Qed.

Lemma normal_set_adjust_pts fs st v : normal fs st -> normal fs (apply_sig_op st (SSetAdjustPTS v)).
Proof.
  intros (H1 & H2 & H3 & H4 & H5 & H6 & H7 & H8 & H9 & H10 & H11 & H12 & H13).
  unfold normal. cbn [apply_sig_op with_pts s_tid s_protocol s_enc_alg s_cw s_tier s_pts s_cmd s_cmd_type s_descs s_other s_stuffing].
  repeat split; try assumption. apply N.mod_lt. discriminate.
Qed.
(* for ANY argument v: PTS() = v mod 2^33, and the pts_adjustment of the next encoding is (that - command pts_time) mod 2^33 *)
Theorem set_adjust_pts_encoded fs st v : normal fs st ->
  let st' := apply_sig_op st (SSetAdjustPTS v) in
  s_pts st' = v mod 8589934592 /\
  fst (update_data st') = ser_section (logical fs st') /\
  (cmd_pts (s_cmd st) + si_pts_adj (logical fs st')) mod 8589934592 = v mod 8589934592.
Proof.
  intros H st'. split; [reflexivity|]. split; [apply encode_canonical, normal_set_adjust_pts; assumption|].
  destruct H as (_ & _ & _ & _ & _ & _ & Hc & _).
  unfold st', logical, logical0. cbn [apply_sig_op with_pts with_crc si_pts_adj s_pts s_cmd].
  assert (Hv : v mod 8589934592 < 8589934592) by (apply N.mod_lt; discriminate).
  set (w := v mod 8589934592) in *.
  unfold subtract_pts. destruct (N.leb_spec (cmd_pts (s_cmd st)) w); [rewrite N.mod_small; lia|].
  unfold sub64, w64. lia.
Qed.

(* SCTE35.SetPTS (a397833): for ANY argument, PTS() and the command's pts_time are both v mod 2^33, the state stays normal,
   and the next encoding carries pts_time = v mod 2^33 with pts_adjustment 0 *)
Lemma len_stb h p q : len (splice_time_bytes h p) = len (splice_time_bytes h q).
Proof. unfold splice_time_bytes. destruct h; reflexivity. Qed.
Lemma len_cmd_data_setpts c v : len (cmd_data (apply_cmd_op (KSetPTS v) c)) = len (cmd_data c).
Proof.
  destruct c as [|h p|i]; cbn [apply_cmd_op cmd_data]; [reflexivity|apply len_stb|].
  destruct i as [eid cancel out prog imm has pts comps hasdur dur auto up an ae]. cbn [apply_ins_op]. unfold insert_data.
  cbn [i_event_id i_cancel i_out i_program i_immediate i_has_pts i_pts i_components i_has_duration i_duration
       i_auto_return i_unique_program_id i_avail_num i_avails_expected].
  destruct cancel; [reflexivity|]. rewrite !len_app. destruct (prog && negb imm); [|reflexivity].
  rewrite (len_stb has (v mod 8589934592) pts). reflexivity.
Qed.
Lemma normal_set_pts fs st v : normal fs st -> normal fs (apply_sig_op st (SSetPTS v)).
Proof.
  intros (H1 & H2 & H3 & H4 & H5 & H6 & H7 & H8 & H9 & H10 & H11 & H12 & H13).
  assert (Hm : v mod 8589934592 < 8589934592) by (apply N.mod_lt; discriminate).
  assert (Hmm : (v mod 8589934592) mod 8589934592 < 8589934592) by (apply N.mod_lt; discriminate).
  unfold normal. cbn [apply_sig_op with_pts with_cmd s_tid s_protocol s_enc_alg s_cw s_tier s_pts s_cmd s_cmd_type s_descs s_other s_stuffing].
  rewrite len_cmd_data_setpts.
  repeat split; try assumption.
  - destruct (s_cmd st) as [|h p|[]]; cbn [apply_cmd_op apply_ins_op cmd_pts i_pts] in *; assumption.
  - rewrite H8. destruct (s_cmd st) as [|h p|[]]; reflexivity.
  - destruct (s_cmd st) as [|h p|i]; cbn [apply_cmd_op normal_cmd] in *; [exact I|intros; assumption|].
    destruct i as [eid cancel out prog imm has pts comps hasdur dur auto up an ae]. unfold normal_insert in *.
    cbn [apply_ins_op i_event_id i_cancel i_out i_program i_immediate i_has_pts i_pts i_components i_has_duration i_duration
         i_auto_return i_unique_program_id i_avail_num i_avails_expected] in *.
    destruct H9 as (E & B). split; [exact E|]. intros Hc. destruct (B Hc) as (B1 & B2 & B3 & B4 & B5 & B6).
    repeat split; try assumption; intros; try assumption; try (apply B2; assumption); try (apply B3; assumption).
Qed.
Theorem set_pts_encoded fs st v : normal fs st ->
  let st' := apply_sig_op st (SSetPTS v) in
  s_pts st' = v mod 8589934592 /\
  fst (update_data st') = ser_section (logical fs st') /\
  (s_cmd st <> CNull -> cmd_pts (s_cmd st') = v mod 8589934592 /\ si_pts_adj (logical fs st') = 0).
Proof.
  intros H st'. split; [reflexivity|]. split; [apply encode_canonical, normal_set_pts; assumption|].
  intros Hc. assert (E : cmd_pts (s_cmd st') = v mod 8589934592).
  { unfold st'. cbn [apply_sig_op with_cmd s_cmd]. destruct (s_cmd st) as [|h p|[]]; [congruence| |];
      cbn [apply_cmd_op apply_ins_op cmd_pts i_pts]; apply N.mod_mod; discriminate. }
  split; [exact E|]. unfold logical, logical0. cbn [with_crc si_pts_adj]. rewrite E.
  unfold st'. cbn [apply_sig_op with_cmd with_pts s_pts]. unfold subtract_pts.
  rewrite N.leb_refl. apply N.sub_diag.
Qed.

(* the object-level value setters of 0b05886: getter = truncated value = what the next encoding carries, for ANY argument *)
Theorem set_duration_encoded i v :
  let i' := apply_ins_op (ISetDuration v) i in
  i_duration i' = v mod 8589934592 /\
  (i_cancel i = false -> i_has_duration i = true ->
   exists b, logical_cmd (CInsert i') = Insert (i_event_id i) (Some b) /\ ib_break b = Some (i_auto_return i, v mod 8589934592)).
Proof.
  destruct i as [eid cancel out prog imm has pts comps hasdur dur auto up an ae]. cbn [apply_ins_op i_duration i_cancel i_has_duration i_event_id i_auto_return].
  split; [reflexivity|]. intros -> ->. eexists. split; reflexivity.
Qed.
Theorem set_device_encoded d v :
  let d' := apply_desc_op (DSetDeviceRestrictions v) d in
  d_device d' = v mod 4 /\
  (d_cancel d = false -> d_dnr d = false ->
   exists b, logical_seg d' = Seg (d_event_id d) (Some b) /\ sb_restr b = Some (d_web d, d_noblackout d, d_archive d, v mod 4)).
Proof.
  destruct d. cbn [apply_desc_op d_device d_cancel d_dnr d_event_id d_web d_noblackout d_archive].
  split; [reflexivity|]. intros -> ->. eexists. split; reflexivity.
Qed.
Theorem set_offset_encoded d j v c0 : (j < length (d_components d))%nat ->
  let d' := apply_desc_op (DComp j (CoSetOffset v)) d in
  co_off (nth j (d_components d') c0) = v mod 8589934592 /\
  (d_cancel d = false -> d_program_seg d = false ->
   exists b cs, logical_seg d' = Seg (d_event_id d) (Some b) /\ sb_comps b = Some cs /\
                nth j cs (0, 0) = (co_tag (nth j (d_components d) c0), v mod 8589934592)).
Proof.
  destruct d as [ty eid hasdur dur uty u m sn se ssn sse owner cancel dnr hassub prog web nobl arch dev comps].
  cbn [apply_desc_op d_components d_cancel d_program_seg d_event_id]. intros Hj.
  assert (E : nth j (upd_nth comps j (apply_co_op (CoSetOffset v))) c0 = apply_co_op (CoSetOffset v) (nth j comps c0))
    by (apply ScteSetters.upd_nth_nth; exact Hj).
  split; [rewrite E; destruct (nth j comps c0); reflexivity|].
  intros -> ->. eexists. eexists. split; [reflexivity|]. split; [reflexivity|].
  cbn [d_components]. change (0, 0) with ((fun c => (co_tag c, co_off c)) (mkco 0 0)). rewrite map_nth.
  rewrite (nth_indep _ (mkco 0 0) c0) by (pose proof (ScteSetters.upd_nth_length comps j (apply_co_op (CoSetOffset v))); lia).
  rewrite E. destruct (nth j comps c0). reflexivity.
Qed.

Lemma normal_set_descriptors fs st ds : normal fs st ->
  Forall normal_desc (map (build_desc (s_id st)) ds) ->
  13 + len (cmd_data (s_cmd st)) + len (s_other st ++ flat_map seg_data (map (build_desc (s_id st)) ds)) + 4 + s_stuffing st < 1024 ->
  normal fs (apply_sig_op st (SSetDescriptors ds)).
Proof.
  intros (H1 & H2 & H3 & H4 & H5 & H6 & H7 & H8 & H9 & H10 & H11 & H12 & H13) Hd Hl.
  unfold normal. cbn [apply_sig_op with_descs s_tid s_protocol s_enc_alg s_cw s_tier s_pts s_cmd s_cmd_type s_descs s_other s_stuffing].
  repeat split; assumption.
Qed.
Lemma normal_set_command_info fs st k cops :
  let c := fold_left (fun c o => apply_cmd_op o c) cops (create_cmd k) in
  normal fs st -> normal_cmd c -> cmd_pts c < 8589934592 ->
  13 + len (cmd_data c) + len (s_other st ++ flat_map seg_data (s_descs st)) + 4 + s_stuffing st < 1024 ->
  normal fs (apply_sig_op st (SSetCommandInfo k cops)).
Proof.
  intros c (H1 & H2 & H3 & H4 & H5 & H6 & H7 & H8 & H9 & H10 & H11 & H12 & H13) Hc Hp Hl.
  unfold normal. cbn [apply_sig_op with_cmd s_tid s_protocol s_enc_alg s_cw s_tier s_pts s_cmd s_cmd_type s_descs s_other s_stuffing].
  fold c. repeat split; try assumption; reflexivity.
Qed.
(* the freshly created signal is normal (no foreign descriptors) *)
Lemma normal_create : normal [] create_scte35.
Proof. unfold normal, create_scte35. cbn. repeat split; try lia; try reflexivity; constructor. Qed.
