(* pcr.go against the ISO layout of Spec/AFSpec.v: the six bytes InsertPCR writes are pcr_enc, ExtractPCR is
   pcr_dec, and they are inverse on 33+9-bit values (technique of notes/spikes/Pcr_roundtrip.v). *)
From Gots Require Import Base.Prelude Model.Pcr Model.AF Spec.AFSpec Proofs.AFLists.

Lemma lor_shiftl_add a b k : b < 2^k -> N.lor (N.shiftl a k) b = a * 2^k + b.
Proof. intros H. rewrite <- N.shiftl_mul_pow2. rewrite <- N.lxor_lor, <- N.add_nocarry_lxor; try reflexivity;
  apply N.bits_inj; intro n; rewrite N.land_spec, N.bits_0;
  (destruct (N.lt_ge_cases n k) as [Hn|Hn];
   [rewrite N.shiftl_spec_low by assumption; reflexivity|
    replace (N.testbit b n) with false; [apply andb_false_r|];
    symmetry; destruct (N.eq_dec b 0) as [->|Hb]; [apply N.bits_0|];
    apply N.bits_above_log2; apply N.log2_lt_pow2; [lia|];
    eapply N.lt_le_trans; [exact H|]; apply N.pow_le_mono_r; lia]). Qed.
Lemma lor_mult_add a b k : a mod 2^k = 0 -> b < 2^k -> N.lor a b = a + b.
Proof. intros Ha Hb. assert (E: a = N.shiftl (a / 2^k) k).
  { rewrite N.shiftl_mul_pow2. pose proof (N.div_mod a (2^k)) as D.
    assert (2^k <> 0) by (apply N.pow_nonzero; lia). specialize (D H). rewrite Ha in D. lia. }
  rewrite E at 1. rewrite lor_shiftl_add by assumption. rewrite <- N.shiftl_mul_pow2, <- E. reflexivity. Qed.
Lemma land255 x : N.land x 255 = x mod 256. Proof. change 255 with (N.ones 8). apply N.land_ones. Qed.
Lemma land1 x : N.land x 1 = x mod 2. Proof. change 1 with (N.ones 1). apply N.land_ones. Qed.

Lemma byte4 base ext : ext < 512 ->
  w8 (N.lor (N.lor (w64 (N.shiftl base 7)) (N.shiftr ext 8)) 126) = (base mod 2) * 128 + 126 + ext / 256.
Proof. intros He. unfold w8.
  replace (N.lor (N.lor (w64 (N.shiftl base 7)) (N.shiftr ext 8)) 126 mod 256)
    with (N.land (N.lor (N.lor (w64 (N.shiftl base 7)) (N.shiftr ext 8)) 126) (N.ones 8))
    by (rewrite N.land_ones; reflexivity).
  rewrite !N.land_lor_distr_l, !N.land_ones. unfold w64.
  rewrite N.shiftl_mul_pow2, N.shiftr_div_pow2. change (2^7) with 128. change (2^8) with 256.
  assert (E1: (base * 128) mod 18446744073709551616 mod 256 = (base mod 2) * 128) by lia.
  assert (E2: (ext / 256) mod 256 = ext / 256) by lia.
  rewrite E1, E2. change (126 mod 256) with 126.
  assert (Hb: base mod 2 < 2) by lia. assert (Hx: ext / 256 < 2) by lia.
  destruct (N.eq_dec (base mod 2) 0) as [->|?], (N.eq_dec (ext / 256) 0) as [->|?];
    try (replace (base mod 2) with 1 by lia); try (replace (ext / 256) with 1 by lia); reflexivity. Qed.

(* InsertPCR writes the ISO layout (for every uint64 argument the bytes are a function of the argument
   only; on 33+9-bit values they are pcr_enc) *)
Lemma pcr6_enc v : v < PcrMax -> Pcr.pcr6 v = pcr_enc v.
Proof. intros H. unfold PcrMax in H. unfold Pcr.pcr6, pcr_enc.
  set (base := v / 300).
  assert (Eext: N.land (v - base * 300) 511 = v mod 300).
  { change 511 with (N.ones 9). rewrite N.land_ones. change (2^9) with 512. unfold base. lia. }
  rewrite Eext. rewrite byte4 by lia. unfold w8. rewrite !N.shiftr_div_pow2, land255.
  change (2^25) with 33554432. change (2^17) with 131072. change (2^9) with 512. change (2^1) with 2.
  rewrite N.mod_mod by lia. reflexivity. Qed.
Lemma length_pcr6 v : length (Pcr.pcr6 v) = 6%nat. Proof. reflexivity. Qed.
Lemma length_pcr_enc v : length (pcr_enc v) = 6%nat. Proof. reflexivity. Qed.
Lemma is_bytes_pcr_enc v : is_bytes (pcr_enc v).
Proof. unfold pcr_enc, is_bytes, is_byte. repeat constructor; lia. Qed.

(* ExtractPCR on six bytes is the ISO reading *)
Lemma extract6_dec a b c d e f : a < 256 -> b < 256 -> c < 256 -> d < 256 -> e < 256 -> f < 256 ->
  Pcr.extract6 a b c d e f = pcr_dec [a; b; c; d; e; f].
Proof. intros Ha Hb Hc Hd He Hf. unfold Pcr.extract6, pcr_dec.
  rewrite !N.shiftl_mul_pow2, N.shiftr_div_pow2, land1.
  change (2^25) with 33554432. change (2^17) with 131072. change (2^9) with 512. change (2^1) with 2.
  change (2^7) with 128. change (2^8) with 256.
  rewrite (lor_mult_add (a * 33554432) (b * 131072) 25) by (change (2^25) with 33554432; lia).
  rewrite (lor_mult_add (a * 33554432 + b * 131072) (c * 512) 17) by (change (2^17) with 131072; lia).
  rewrite (lor_mult_add (a * 33554432 + b * 131072 + c * 512) (d * 2) 9) by (change (2^9) with 512; lia).
  rewrite (lor_mult_add (a * 33554432 + b * 131072 + c * 512 + d * 2) (e / 128) 1) by (change (2^1) with 2; lia).
  rewrite (lor_mult_add (e mod 2 * 256) f 8) by (change (2^8) with 256; lia).
  reflexivity. Qed.
Lemma extract_pcr_dec bs : length bs = 6%nat -> is_bytes bs -> Pcr.extract_pcr bs = Ok (pcr_dec bs).
Proof. intros HL HB. destruct bs as [|a [|b [|c [|d [|e [|f [|]]]]]]]; try discriminate.
  change (Pcr.extract_pcr [a; b; c; d; e; f]) with (Ok (Pcr.extract6 a b c d e f)). f_equal.
  unfold is_bytes in HB. repeat match goal with H : Forall _ (_ :: _) |- _ => inversion H; clear H; subst end.
  apply extract6_dec; assumption. Qed.

(* round trip on 33+9-bit values *)
Lemma pcr_dec_enc v : v < PcrMax -> pcr_dec (pcr_enc v) = v.
Proof. intros H. unfold PcrMax in H. unfold pcr_enc, pcr_dec.
  set (base := v / 300). set (ext := v mod 300).
  assert (Hb: base < 8589934592) by (unfold base; lia).
  assert (Hx: ext < 300) by (unfold ext; lia).
  assert (E1: (base mod 2 * 128 + 126 + ext / 256) / 128 = base mod 2) by lia.
  assert (E2: (base mod 2 * 128 + 126 + ext / 256) mod 2 = ext / 256) by lia.
  rewrite E1, E2. unfold base, ext in *. lia. Qed.
