(* Generic lemmas for the EBP proofs: lengths, cursor reads at `len pre`, byte sweeps, flags byte. *)
From Gots Require Import Base.Prelude Model.Ebp Spec.EbpSpec.
Import Ebp.

(* ---- lengths ---- *)
Lemma len_app {A} (a b : list A) : len (a ++ b) = len a + len b.
Proof. unfold len. rewrite app_length. lia. Qed.
Lemma len_cons {A} (x : A) l : len (x :: l) = 1 + len l.
Proof. unfold len. cbn [length]. lia. Qed.
Lemma len_nil {A} : len (@nil A) = 0. Proof. reflexivity. Qed.
Lemma len_to_be32 v : len (to_be32 v) = 4. Proof. reflexivity. Qed.

(* ---- reads at a cursor ---- *)
Lemma idx_at pre x post : idx (pre ++ x :: post) (len pre) = Ok x.
Proof. unfold idx, len. rewrite Nat2N.id, nth_error_app2 by lia. rewrite Nat.sub_diag. reflexivity. Qed.

Lemma slice_at pre mid post : slice (pre ++ mid ++ post) (len pre) (len pre + len mid) = Ok mid.
Proof.
  unfold slice. rewrite !len_app.
  replace (len pre <=? len pre + len mid) with true by lia.
  replace (len pre + len mid <=? len pre + (len mid + len post)) with true by lia. cbn [andb]. f_equal.
  unfold len. rewrite Nat2N.id, skipn_app, skipn_all, Nat.sub_diag. cbn [skipn app].
  replace (N.to_nat (N.of_nat (length pre) + N.of_nat (length mid) - N.of_nat (length pre))) with (length mid + 0)%nat by lia.
  rewrite firstn_app_2. cbn. apply app_nil_r.
Qed.

Lemma rd8_at data pre x post : data = pre ++ x :: post -> len pre < 255 ->
  rd8 data (len pre) = Ok (x, len (pre ++ [x])).
Proof.
  intros -> H. unfold rd8. rewrite idx_at. cbn [bind]. rewrite len_app, len_cons, len_nil.
  unfold w8. rewrite N.mod_small by lia. replace (len pre + (1 + 0)) with (len pre + 1) by lia. reflexivity.
Qed.

Lemma be32_to_be32 v : v < 4294967296 ->
  be32 (v / 16777216 mod 256) (v / 65536 mod 256) (v / 256 mod 256) (v mod 256) = v.
Proof. intro H. unfold be32. lia. Qed.

Lemma rd32_at data pre v post : data = pre ++ to_be32 v ++ post -> v < 4294967296 -> len pre + 4 < 256 ->
  rd32 data (len pre) = Ok (v, len (pre ++ to_be32 v)).
Proof.
  intros -> Hv H. unfold rd32, w8. rewrite N.mod_small by lia.
  replace (len pre + 4) with (len pre + len (to_be32 v)) by (rewrite len_to_be32; reflexivity).
  rewrite slice_at. cbn [bind to_be32 uint32be]. rewrite be32_to_be32 by exact Hv.
  rewrite len_app. reflexivity.
Qed.

(* ---- byte sweeps ---- *)
Fixpoint nrange (n : nat) (start : N) : list N :=
  match n with O => [] | S k => start :: nrange k (start + 1) end.
Lemma nrange_in : forall n start x, start <= x -> x < start + N.of_nat n -> In x (nrange n start).
Proof.
  induction n as [|n IH]; intros start x H1 H2; [lia|]. cbn [nrange].
  destruct (N.eq_dec x start) as [->|Hne]; [left; reflexivity | right; apply IH; lia].
Qed.
Lemma sweep (P : N -> bool) (n : nat) : forallb P (nrange n 0) = true -> forall x, x < N.of_nat n -> P x = true.
Proof. intros H x Hx. rewrite forallb_forall in H. apply H. apply nrange_in; lia. Qed.

Lemma id7_facts x : x < 128 ->
  N.land x 127 = x /\ N.land x 128 = 0 /\ N.land (x + 128) 127 = x /\ N.land (x + 128) 128 = 128 /\ N.lor x 128 = x + 128.
Proof.
  intro H.
  pose proof (sweep (fun x => (N.land x 127 =? x) && (N.land x 128 =? 0) && (N.land (x + 128) 127 =? x)
                               && (N.land (x + 128) 128 =? 128) && (N.lor x 128 =? x + 128)) 128 eq_refl x H) as S.
  cbv beta in S. rewrite !andb_true_iff, !N.eqb_eq in S. tauto.
Qed.

(* ---- the flags byte ---- *)
Import EbpSpec.
Lemma flags_byte_bits a b c d e f g h :
  let F := flags_byte a b c d e f g h in
  bit F 128 = a /\ bit F 64 = b /\ bit F 32 = c /\ bit F 16 = d /\ bit F 8 = e /\ bit F 4 = f /\ bit F 2 = g /\ bit F 1 = h
  /\ F < 256.
Proof. destruct a, b, c, d, e, f, g, h; vm_compute; repeat split; reflexivity. Qed.

Lemma flags_byte_of_bits F : F < 256 ->
  flags_byte (bit F 128) (bit F 64) (bit F 32) (bit F 16) (bit F 8) (bit F 4) (bit F 2) (bit F 1) = F.
Proof.
  intro H.
  pose proof (sweep (fun F => flags_byte (bit F 128) (bit F 64) (bit F 32) (bit F 16) (bit F 8) (bit F 4) (bit F 2) (bit F 1) =? F)
                    256 eq_refl F H) as S.
  cbv beta in S. apply N.eqb_eq in S. exact S.
Qed.

Lemma ext_byte_facts lo (p : option N) : lo < 128 ->
  bit (ext_byte (lo, p)) 128 = is_some p /\ ext_byte (lo, p) < 256.
Proof.
  intro H. unfold ext_byte, bit. cbn [fst snd]. destruct p; cbn [is_some b2n].
  - destruct (id7_facts lo H) as (_ & _ & _ & E & _). rewrite N.mul_1_r, E. split; [reflexivity | lia].
  - destruct (id7_facts lo H) as (_ & E & _). rewrite N.mul_0_r, N.add_0_r, E. split; [reflexivity | lia].
Qed.
