(* C07: the PAT accessors invert the Spec serialiser (payload carrier). *)
From Gots Require Import Base.Prelude Model.Pat Spec.PatSpec Proofs.PatBase Proofs.StreamTypeDesc.
Import Pat PatSpec.

(* ---- bit slicing of one entry and of section_length ---- *)
Lemma land3 x : N.land x 3 = x mod 4. Proof. change 3 with (N.ones 2). apply N.land_ones. Qed.
Lemma be_join hi lo : lo < 256 -> N.lor (N.shiftl hi 8) lo = hi * 256 + lo.
Proof. intros H. rewrite lor_shiftl_add by (change (2^8) with 256; lia). reflexivity. Qed.

Lemma decode_pn p : p < 65536 -> N.lor (N.shiftl (p / 256) 8) (p mod 256) = p.
Proof. intros H. rewrite be_join by lia. lia. Qed.
Lemma decode_pid r x : x < 8192 ->
  N.lor (N.shiftl (N.land (r * 32 + x / 256) 31) 8) (x mod 256) = x.
Proof. intros Hx. rewrite land31, be_join by lia. lia. Qed.
Lemma decode_sl f sl : sl < 1024 ->
  N.lor (N.shiftl (N.land (f * 16 + sl / 256) 3) 8) (sl mod 256) = sl.
Proof. intros H. rewrite land3, be_join by lia. lia. Qed.

(* ---- shape of a serialised payload with pointer_field k: the pointer byte, k filler bytes, the section, the rest.
        `ser_payload s rest` is the case k = 0 (`ser_payload_pf0`) ---- *)
Lemma ser_payload_pf0 s rest : ser_payload s rest = ser_payload_pf 0 [] s rest.
Proof. reflexivity. Qed.
Definition sec_pre (s : section) : bytes :=
  [0; flags s * 16 + section_length s / 256; section_length s mod 256] ++ hdr s.
Definition pre_of (k : N) (filler : bytes) (s : section) : bytes := (k :: filler) ++ sec_pre s.
Lemma payload_shape k filler s rest :
  ser_payload_pf k filler s rest = pre_of k filler s ++ concat (map ser_entry (entries s)) ++ (crc s ++ rest).
Proof. unfold ser_payload_pf, ser_section, pre_of, sec_pre. cbn [app]. rewrite <- !app_assoc. reflexivity. Qed.
Lemma len_pre_of k filler s : length (hdr s) = 5%nat -> len filler = k -> len (pre_of k filler s) = 9 + k.
Proof. intros H L. unfold pre_of, sec_pre. rewrite !plen_app, plen_cons, L. unfold len. cbn [length]. rewrite H. lia. Qed.
Lemma len_entries es : len (concat (map ser_entry es)) = 4 * len es.
Proof. induction es as [|e es IH]; [reflexivity|]. cbn [map concat]. rewrite plen_app, IH, plen_cons.
  unfold ser_entry, len. cbn [length]. lia. Qed.
Lemma len_section s : wf_section s -> len (ser_section s) = 12 + 4 * len (entries s).
Proof. intros (_ & Hh & _ & _ & Hc & _). unfold ser_section. rewrite !plen_app, len_entries.
  unfold len. cbn [length]. rewrite Hh, Hc. lia. Qed.
Lemma len_payload k filler s rest : wf_section s -> len filler = k ->
  len (ser_payload_pf k filler s rest) = 13 + k + 4 * len (entries s) + len rest.
Proof. intros W L. unfold ser_payload_pf. rewrite plen_cons, !plen_app, len_section, L by exact W. lia. Qed.

Section Payload.
Variables (k : N) (filler : bytes) (s : section) (rest : bytes).
Hypothesis W : wf_section s.
Hypothesis Hk : k < 256.
Hypothesis Lf : len filler = k.
Let pay := ser_payload_pf k filler s rest.

Lemma len_pay : len pay = 13 + k + 4 * len (entries s) + len rest.
Proof. apply len_payload; assumption. Qed.

(* ---- PointerField, SectionLength ---- *)
Lemma pointer_field_ok : PatPsi.pointer_field pay = Ok k.
Proof. unfold PatPsi.pointer_field. pose proof len_pay as L.
  assert (E0 : (len pay =? 0) = false) by (apply N.eqb_neq; lia). rewrite E0. reflexivity. Qed.

Lemma section_length_ok : PatPsi.section_length pay = Ok (section_length s).
Proof.
  pose proof len_pay as L. pose proof (len_section s W) as Ls. destruct W as (Hf & Hh & _ & _ & _ & _ & Hsl).
  unfold PatPsi.section_length, PatPsi.at_section. rewrite pointer_field_ok. cbn [bind].
  assert (E1 : (len pay <=? 1 + k) = false) by (apply N.leb_gt; lia). rewrite E1.
  unfold pay, ser_payload_pf.
  replace (k :: filler ++ ser_section s ++ rest) with ((k :: filler) ++ ser_section s ++ rest) by reflexivity.
  replace (1 + k) with (len (k :: filler)) by (rewrite plen_cons, Lf; reflexivity).
  rewrite slice_from_app. cbn [bind]. unfold PatPsi.section_length_sec.
  assert (E3 : (len (ser_section s ++ rest) <? 3) = false) by (apply N.ltb_ge; rewrite plen_app, Ls; lia).
  rewrite E3. unfold ser_section. cbn [app]. rewrite idx1. cbn [bind]. rewrite idx2. cbn [bind]. f_equal.
  apply decode_sl. exact Hsl.
Qed.

(* ---- NumPrograms ---- *)
Lemma num_programs_ok : num_programs pay = Ok (Z.of_nat (length (entries s))).
Proof. unfold num_programs. rewrite section_length_ok, pointer_field_ok. cbn [bind].
  rewrite zlen_len, len_pay. unfold section_length.
  assert (E : (Z.of_N (13 + k + 4 * len (entries s) + len rest) - Z.of_N k <? Z.of_N (5 + 4 * len (entries s) + 4))%Z = false)
    by (apply Z.ltb_ge; lia).
  rewrite E. f_equal.
  replace (Z.of_N (5 + 4 * len (entries s) + 4) - 2 - 1 - 1 - 1 - 4)%Z with (Z.of_nat (length (entries s)) * 4)%Z
    by (unfold len; lia).
  apply Z.quot_mul. lia. Qed.
End Payload.

(* ---- ProgramMap ---- *)
Definition step (m : list (N * N)) (e : entry) : list (N * N) :=
  if 0 <? pn e then map_insert (pn e) (pid e) m else m.
Definition model_map (es : list entry) : list (N * N) := fold_left step es [].

Lemma loop_ok es : forall pre post counter m, counter + 1 = len pre -> Forall wf_entry es ->
  program_map_loop (length es) (pre ++ concat (map ser_entry es) ++ post) counter m = Ok (fold_left step es m).
Proof. induction es as [|e es IH]; intros pre post counter m Hc W; [reflexivity|].
  inversion W as [|? ? (Hpn & Hpid & Hres) W']; subst.
  cbn [length map concat]. rewrite <- app_assoc. set (tl := concat (map ser_entry es) ++ post).
  cbn [program_map_loop]. unfold ser_entry. cbn [app].
  rewrite (idx_at pre _ (counter + 1) 0) by lia. rewrite idx0. cbn [bind].
  rewrite (idx_at pre _ (counter + 2) 1) by lia. rewrite idx1. cbn [bind].
  rewrite (idx_at pre _ (counter + 3) 2) by lia. rewrite idx2. cbn [bind].
  rewrite (idx_at pre _ (counter + 4) 3) by lia. rewrite idx3. cbn [bind].
  rewrite decode_pn by exact Hpn. rewrite decode_pid by exact Hpid.
  subst tl.
  replace (pre ++ pn e / 256 :: pn e mod 256 :: res e * 32 + pid e / 256 :: pid e mod 256 :: concat (map ser_entry es) ++ post)
    with ((pre ++ ser_entry e) ++ concat (map ser_entry es) ++ post)
    by (unfold ser_entry at 1; rewrite <- app_assoc; reflexivity).
  rewrite IH; [reflexivity| |exact W'].
  rewrite plen_app. unfold ser_entry, len at 2. cbn [length]. lia. Qed.

Lemma program_map_ok k filler s rest : wf_section s -> k < 256 -> len filler = k ->
  program_map (ser_payload_pf k filler s rest) = Ok (model_map (entries s)).
Proof. intros W Hk Lf. unfold program_map. rewrite pointer_field_ok, num_programs_ok by assumption. cbn [bind]. rewrite Nat2Z.id.
  rewrite payload_shape. destruct W as (_ & Hh & _ & We & _).
  apply loop_ok; [rewrite len_pre_of by assumption; lia|exact We]. Qed.

(* the association list the model builds, read as a finite map *)
Definition lookup (m : list (N * N)) (p : N) : option N :=
  match find (fun kv => fst kv =? p) m with Some kv => Some (snd kv) | None => None end.

Lemma lookup_filter_ne m k p : p <> k -> lookup (filter (fun kv => negb (fst kv =? k)) m) p = lookup m p.
Proof. intros Hne. unfold lookup. induction m as [|[a b] m IH]; [reflexivity|]. cbn [filter fst].
  destruct (N.eqb_spec a k) as [->|Hak]; cbn [negb].
  - cbn [find fst]. assert (E : (k =? p) = false) by (apply N.eqb_neq; congruence). rewrite E. exact IH.
  - cbn [find fst]. destruct (a =? p); [reflexivity|exact IH]. Qed.
Lemma lookup_insert m k v p : lookup (map_insert k v m) p = if p =? k then Some v else lookup m p.
Proof. unfold map_insert. destruct (N.eqb_spec p k) as [->|Hne].
  - unfold lookup. cbn [find fst]. rewrite N.eqb_refl. reflexivity.
  - unfold lookup at 1. cbn [find fst]. assert (E : (k =? p) = false) by (apply N.eqb_neq; congruence). rewrite E.
    apply lookup_filter_ne. exact Hne. Qed.

Lemma last_pid_snoc es e p : last_pid (es ++ [e]) p = if pn e =? p then Some (pid e) else last_pid es p.
Proof. unfold last_pid. rewrite fold_left_app. reflexivity. Qed.
Lemma model_map_snoc es e : model_map (es ++ [e]) = step (model_map es) e.
Proof. unfold model_map. rewrite fold_left_app. reflexivity. Qed.

(* exactly the entries with non-zero program_number, last one wins *)
Lemma model_map_lookup es : forall p, lookup (model_map es) p = map_lookup es p.
Proof. induction es as [|e es IH] using rev_ind; intros p; [unfold map_lookup; destruct (p =? 0); reflexivity|].
  specialize (IH p). rewrite model_map_snoc. unfold step, map_lookup. rewrite last_pid_snoc. unfold map_lookup in IH.
  destruct (N.ltb_spec 0 (pn e)) as [Hpos|Hz].
  - rewrite lookup_insert, IH. rewrite (N.eqb_sym p (pn e)).
    destruct (N.eqb_spec (pn e) p) as [<-|Hne]; [|reflexivity].
    assert (E : (pn e =? 0) = false) by (apply N.eqb_neq; lia). rewrite E. reflexivity.
  - rewrite IH. destruct (N.eqb_spec p 0) as [Hp0|Hp]; [reflexivity|].
    assert (E : (pn e =? p) = false) by (apply N.eqb_neq; lia). rewrite E. reflexivity. Qed.

Lemma keys_filter (f : N * N -> bool) m x : In x (map fst (filter f m)) -> In x (map fst m).
Proof. induction m as [|kv m IH]; [tauto|]. cbn [filter]. destruct (f kv); cbn [map In]; tauto. Qed.
Lemma nodup_filter (f : N * N -> bool) m : NoDup (map fst m) -> NoDup (map fst (filter f m)).
Proof. induction m as [|kv m IH]; intros H; [constructor|]. cbn [map] in H. inversion H as [|? ? Hn Hd]; subst.
  cbn [filter]. destruct (f kv); [|exact (IH Hd)]. cbn [map]. constructor; [|exact (IH Hd)].
  intros Hin. apply Hn. eapply keys_filter. exact Hin. Qed.
Lemma nodup_insert k v m : NoDup (map fst m) -> NoDup (map fst (map_insert k v m)).
Proof. intros H. unfold map_insert. cbn [map fst]. constructor; [|apply nodup_filter; exact H].
  intros Hin. apply in_map_iff in Hin. destruct Hin as ([a b] & Ha & Hf). cbn [fst] in Ha. subst a.
  apply filter_In in Hf. destruct Hf as [_ Hf]. cbn [fst] in Hf. rewrite N.eqb_refl in Hf. discriminate. Qed.
Lemma model_map_nodup es : NoDup (map fst (model_map es)).
Proof. induction es as [|e es IH] using rev_ind; [constructor|]. rewrite model_map_snoc. unfold step.
  destruct (0 <? pn e); [apply nodup_insert|]; exact IH. Qed.

(* membership <-> lookup, for maps with unique keys *)
Lemma lookup_in m p x : lookup m p = Some x -> In (p, x) m.
Proof. unfold lookup. destruct (find (fun kv => fst kv =? p) m) as [[a b]|] eqn:E; [|discriminate].
  intros [= <-]. apply find_some in E. destruct E as [Hin Hk]. cbn [fst] in Hk. apply N.eqb_eq in Hk. subst a. exact Hin. Qed.
Lemma in_lookup m p x : NoDup (map fst m) -> In (p, x) m -> lookup m p = Some x.
Proof. unfold lookup. induction m as [|[a b] m IH]; intros Hd Hin; [contradiction|].
  cbn [map fst] in Hd. inversion Hd as [|? ? Hn Hd']; subst. cbn [find fst].
  destruct Hin as [[= -> ->]|Hin]; [rewrite N.eqb_refl; reflexivity|].
  destruct (N.eqb_spec a p) as [->|Hne]; [|exact (IH Hd' Hin)].
  exfalso. apply Hn. apply in_map_iff. exists (p, x). split; [reflexivity|exact Hin]. Qed.

Lemma program_map_spec k filler s rest : wf_section s -> k < 256 -> len filler = k ->
  exists m, program_map (ser_payload_pf k filler s rest) = Ok m /\ NoDup (map fst m) /\
            forall p x, In (p, x) m <-> map_lookup (entries s) p = Some x.
Proof. intros W Hk Lf. exists (model_map (entries s)). split; [apply program_map_ok; assumption|].
  split; [apply model_map_nodup|]. intros p x. rewrite <- model_map_lookup. split.
  - apply in_lookup. apply model_map_nodup.
  - apply lookup_in. Qed.

(* ---- SPTSpmtPID ---- *)
Lemma spts_ok k filler s rest : wf_section s -> k < 256 -> len filler = k ->
  spts_pmt_pid (ser_payload_pf k filler s rest) = match spts (entries s) with Some x => Ok x | None => Err E.Other end.
Proof. intros W Hk Lf. unfold spts_pmt_pid.
  rewrite num_programs_ok, program_map_ok by assumption. cbn [bind].
  destruct (entries s) as [|e [|e2 es]].
  - reflexivity.
  - cbn [length spts model_map fold_left]. unfold step.
    destruct (N.ltb_spec 0 (pn e)) as [Hp|Hz].
    + assert (E : (pn e =? 0) = false) by (apply N.eqb_neq; lia). rewrite E. reflexivity.
    + assert (E : (pn e =? 0) = true) by (apply N.eqb_eq; lia). rewrite E. reflexivity.
  - cbn [spts]. assert (E : (1 <? Z.of_nat (length (e :: e2 :: es)))%Z = true) by (apply Z.ltb_lt; cbn [length]; lia).
    rewrite E. reflexivity. Qed.

Lemma spts_iff k filler s rest x : wf_section s -> k < 256 -> len filler = k ->
  (spts_pmt_pid (ser_payload_pf k filler s rest) = Ok x <-> exists e, entries s = [e] /\ pn e <> 0 /\ pid e = x).
Proof. intros W Hk Lf. rewrite spts_ok by assumption. destruct (entries s) as [|e [|e2 es]]; cbn [spts].
  - split; [discriminate|]. intros (e & H & _). discriminate.
  - destruct (N.eqb_spec (pn e) 0) as [Hz|Hnz].
    + split; [discriminate|]. intros (e' & [= <-] & Hn & _). contradiction.
    + split; [intros [= <-]; eauto|]. intros (e' & [= <-] & _ & <-). reflexivity.
  - split; [discriminate|]. intros (e' & H & _). discriminate. Qed.
Lemma spts_fails k filler s rest : wf_section s -> k < 256 -> len filler = k ->
  (forall x, spts_pmt_pid (ser_payload_pf k filler s rest) <> Ok x) -> spts_pmt_pid (ser_payload_pf k filler s rest) = Err E.Other.
Proof. intros W Hk Lf H. rewrite spts_ok in * by assumption. destruct (spts (entries s)); [exfalso; eapply H; reflexivity|reflexivity]. Qed.

(* ---- NewPAT on payload bytes ---- *)
Lemma new_pat_payload k filler s rest : wf_section s -> len filler = k -> len (ser_payload_pf k filler s rest) <> 188 ->
  new_pat (ser_payload_pf k filler s rest) = Ok (ser_payload_pf k filler s rest).
Proof. intros W Lf H188. unfold new_pat. pose proof (len_payload k filler s rest W Lf) as L.
  assert (E1 : (len (ser_payload_pf k filler s rest) <? 13) = false) by (apply N.ltb_ge; lia). rewrite E1.
  assert (E2 : (len (ser_payload_pf k filler s rest) =? 188) = false) by (apply N.eqb_neq; exact H188). rewrite E2. reflexivity. Qed.
