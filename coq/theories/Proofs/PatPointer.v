(* C07: what NewPAT + the accessors do when pointer_field = k (the section starts k bytes after the
   pointer): SectionLength / NumPrograms honour the pointer, ProgramMap and SPTSpmtPID read their
   four-byte groups from the FIXED payload offset 9.  Also: the executable oracle of Spec/PatSpec.v
   (spec_map) is the map the theorems speak of. *)
From Gots Require Import Base.Prelude Model.Pat Spec.PatSpec Proofs.PatBase Proofs.StreamTypeDesc Proofs.Pat.
Import Pat PatSpec.

(* ---- the entry loop on arbitrary bytes ---- *)
Lemma loop_raw n : forall pre bs counter m, counter + 1 = len pre -> (4 * n <= length bs)%nat -> is_bytes bs ->
  program_map_loop n (pre ++ bs) counter m = Ok (fold_left step (raw_entries n bs) m).
Proof.
  induction n as [|n IH]; intros pre bs counter m Hc Hl Hb; [reflexivity|].
  destruct bs as [|a [|b [|c [|d t]]]]; cbn [length] in Hl; try lia.
  unfold is_bytes in Hb. inversion Hb as [|? ? Ha Hb1]; subst. inversion Hb1 as [|? ? Hbb Hb2]; subst.
  inversion Hb2 as [|? ? Hcb Hb3]; subst. inversion Hb3 as [|? ? Hdb Hb4]; subst. unfold is_byte in *.
  cbn [program_map_loop raw_entries fold_left].
  rewrite (idx_at pre _ (counter + 1) 0) by lia. rewrite idx0. cbn [bind].
  rewrite (idx_at pre _ (counter + 2) 1) by lia. rewrite idx1. cbn [bind].
  rewrite (idx_at pre _ (counter + 3) 2) by lia. rewrite idx2. cbn [bind].
  rewrite (idx_at pre _ (counter + 4) 3) by lia. rewrite idx3. cbn [bind].
  rewrite be_join by exact Hbb. rewrite land31, be_join by exact Hdb.
  replace (pre ++ a :: b :: c :: d :: t) with ((pre ++ [a; b; c; d]) ++ t) by (rewrite <- app_assoc; reflexivity).
  rewrite IH; [reflexivity | rewrite plen_app; unfold len at 2; cbn [length]; lia | lia | exact Hb4].
Qed.

(* ---- reading a serialised entry list back as raw groups gives the entries ---- *)
Lemma raw_of_ser es post : Forall wf_entry es ->
  raw_entries (length es) (concat (map ser_entry es) ++ post) = es.
Proof.
  induction es as [|e es IH]; intros W; [reflexivity|].
  inversion W as [|? ? (Hpn & Hpid & Hres) W']; subst.
  cbn [length map concat]. unfold ser_entry at 1. cbn [app raw_entries]. rewrite (IH W').
  f_equal. destruct e as [p x r]. cbn [pn pid res] in *. f_equal; lia.
Qed.

Section Pointer.
Variables (k : N) (filler : bytes) (s : section) (rest : bytes).
Hypothesis W : wf_section s.
Hypothesis Hk : k < 256.
Hypothesis Lf : len filler = k.
Hypothesis Bf : is_bytes filler.
Hypothesis Br : is_bytes rest.

Let pay := ser_payload_pf k filler s rest.
Let n := length (entries s).

Lemma len_section : len (ser_section s) = 12 + 4 * len (entries s).
Proof. destruct W as (_ & Hh & _ & _ & Hc & _). unfold ser_section. rewrite !plen_app, len_entries.
  unfold len. cbn [length]. rewrite Hh, Hc. lia. Qed.
Lemma len_pay : len pay = 1 + k + 12 + 4 * len (entries s) + len rest.
Proof. unfold pay, ser_payload_pf. rewrite plen_cons, !plen_app, len_section, Lf. lia. Qed.

Lemma new_pat_pf : len pay <> 188 -> new_pat pay = Ok pay.
Proof.
  intros H188. unfold new_pat. pose proof len_pay as L.
  assert (E1 : (len pay <? 13) = false) by (apply N.ltb_ge; lia). rewrite E1.
  assert (E2 : (len pay =? 188) = false) by (apply N.eqb_neq; exact H188). rewrite E2. reflexivity.
Qed.

Lemma section_length_pf : PatPsi.section_length pay = Ok (section_length s).
Proof.
  pose proof len_pay as L. destruct W as (Hf & Hh & _ & _ & _ & _ & Hsl).
  unfold PatPsi.section_length, PatPsi.at_section, PatPsi.pointer_field.
  assert (E0 : (len pay =? 0) = false) by (apply N.eqb_neq; lia). rewrite E0.
  unfold pay, ser_payload_pf at 1. rewrite idx0. cbn [bind]. fold pay.
  assert (E1 : (len pay <=? 1 + k) = false) by (apply N.leb_gt; lia). rewrite E1.
  unfold pay, ser_payload_pf.
  replace (k :: filler ++ ser_section s ++ rest) with ((k :: filler) ++ ser_section s ++ rest) by reflexivity.
  replace (1 + k) with (len (k :: filler)) by (rewrite plen_cons, Lf; reflexivity).
  rewrite slice_from_app. cbn [bind]. unfold PatPsi.section_length_sec.
  assert (E3 : (len (ser_section s ++ rest) <? 3) = false) by (apply N.ltb_ge; rewrite plen_app, len_section; lia).
  rewrite E3. unfold ser_section. cbn [app]. rewrite idx1. cbn [bind]. rewrite idx2. cbn [bind]. f_equal.
  apply decode_sl. exact Hsl.
Qed.

(* NumPrograms honours the pointer: the number of entries, for every k *)
Lemma num_programs_pf : num_programs pay = Ok (Z.of_nat n).
Proof.
  unfold num_programs, num_programs_with. rewrite section_length_pf. cbn [bind].
  rewrite zlen_len, len_pay. unfold section_length.
  assert (E : (Z.of_N (1 + k + 12 + 4 * len (entries s) + len rest) <? Z.of_N (5 + 4 * len (entries s) + 4))%Z = false)
    by (apply Z.ltb_ge; lia).
  rewrite E. f_equal.
  replace (Z.of_N (5 + 4 * len (entries s) + 4) - 2 - 1 - 1 - 1 - 4)%Z with (Z.of_nat n * 4)%Z by (unfold n, len; lia).
  apply Z.quot_mul. lia.
Qed.

(* the bytes ProgramMap decodes: n groups from payload offset 9, i.e. from offset 8 of what follows the pointer *)
Definition seen : list entry := raw_entries n (skipn 8 (filler ++ ser_section s ++ rest)).

Lemma program_map_pf : program_map pay = Ok (model_map seen).
Proof.
  unfold program_map, program_map_with. fold (num_programs pay). rewrite num_programs_pf. cbn [bind]. rewrite Nat2Z.id.
  set (body := filler ++ ser_section s ++ rest).
  assert (len body = k + 12 + 4 * len (entries s) + len rest) as Lb
    by (unfold body; rewrite !plen_app, len_section, Lf; lia).
  assert (pay = (k :: firstn 8 body) ++ skipn 8 body) as Ep
    by (unfold pay, ser_payload_pf; fold body; cbn [app]; rewrite firstn_skipn; reflexivity).
  rewrite Ep. unfold model_map, seen. fold body. apply loop_raw.
  - rewrite plen_cons. unfold len. rewrite firstn_length. unfold len in Lb. lia.
  - rewrite skipn_length. unfold n. unfold len in Lb. lia.
  - assert (is_bytes body) as Bb.
    { unfold body. destruct W as (Hf & Hh & Hhb & We & Hc & Hcb & Hsl).
      unfold is_bytes in *. apply Forall_app. split; [exact Bf|]. apply Forall_app. split; [|exact Br].
      unfold ser_section. repeat (apply Forall_app; split); try assumption.
      - repeat constructor; unfold is_byte; unfold section_length in *; lia.
      - clear - We. induction We as [|e es (A & B & C) _ IH]; [constructor|]. cbn [map concat]. apply Forall_app. split; [|exact IH].
        unfold ser_entry. repeat constructor; unfold is_byte; lia. }
    unfold is_bytes in *. apply Forall_forall. intros x Hx. rewrite Forall_forall in Bb. apply Bb. eapply in_skipn. exact Hx.
Qed.

Lemma program_map_pf_spec : exists m, program_map pay = Ok m /\ NoDup (map fst m) /\
  forall p x, In (p, x) m <-> map_lookup seen p = Some x.
Proof.
  exists (model_map seen). split; [exact program_map_pf|]. split; [apply model_map_nodup|].
  intros p x. rewrite <- model_map_lookup. split; [apply in_lookup; apply model_map_nodup | apply lookup_in].
Qed.

Lemma spts_pf : spts_pmt_pid pay =
  if (1 <? Z.of_nat n)%Z then Err E.Other else
  match seen with [e] => if pn e =? 0 then Err E.Other else Ok (pid e) | _ => Err E.Other end.
Proof.
  unfold spts_pmt_pid, spts_pmt_pid_with. fold (num_programs pay). fold (program_map pay).
  rewrite num_programs_pf, program_map_pf. cbn [bind].
  destruct (1 <? Z.of_nat n)%Z eqn:E1; [reflexivity|]. apply Z.ltb_ge in E1.
  assert (length seen <= 1)%nat as Ls.
  { unfold seen. generalize (skipn 8 (filler ++ ser_section s ++ rest)). intros bs.
    destruct n as [|[|n']]; [cbn; lia | | lia]. destruct bs as [|a [|b [|c [|d t]]]]; cbn; lia. }
  destruct seen as [|e [|e2 t]]; [reflexivity | | cbn [length] in Ls; lia].
  cbn [model_map fold_left]. unfold step.
  destruct (N.ltb_spec 0 (pn e)) as [Hp|Hz].
  - assert (E : (pn e =? 0) = false) by (apply N.eqb_neq; lia). rewrite E. reflexivity.
  - assert (E : (pn e =? 0) = true) by (apply N.eqb_eq; lia). rewrite E. reflexivity.
Qed.
End Pointer.

(* with pointer_field 0 the bytes seen are the entries: the characterisation specialises to C07_program_map *)
Lemma seen_pf0 s rest : wf_section s -> seen [] s rest = entries s.
Proof.
  intros (_ & Hh & _ & We & _). unfold seen. cbn [app]. unfold ser_section.
  destruct (hdr s) as [|h0 [|h1 [|h2 [|h3 [|h4 [|]]]]]]; try discriminate Hh.
  cbn [app skipn]. rewrite <- app_assoc. apply raw_of_ser. exact We.
Qed.

(* ---- the property as its text reads (any pointer_field) is false of the code: witness ----
   one program (1 -> PID 0x100), pointer_field 1, one stuffing byte before the section:
   ProgramMap is empty and SPTSpmtPID fails, although the section has exactly one program entry *)
Definition wit_section : section := mkS 0xB [0; 1; 0xC1; 0; 0] [mkE 1 0x100 7] [1; 2; 3; 4].
Definition wit_payload : bytes := ser_payload_pf 1 [255] wit_section [].
Lemma pointer_nonzero_witness :
  wf_section wit_section /\
  wit_payload = [1; 255; 0; 0xB0; 13; 0; 1; 0xC1; 0; 0; 0; 1; 0xE1; 0; 1; 2; 3; 4] /\
  new_pat wit_payload = Ok wit_payload /\
  num_programs wit_payload = Ok 1%Z /\
  program_map wit_payload = Ok [] /\ map_lookup (entries wit_section) 1 = Some 0x100 /\
  spts_pmt_pid wit_payload = Err E.Other /\ spts (entries wit_section) = Some 0x100.
Proof.
  unfold wf_section, wf_entry, is_bytes, is_byte, wit_section.
  repeat split; cbn [flags hdr entries crc pn pid res]; try reflexivity; try lia; repeat constructor; try lia.
  all: try (vm_compute; reflexivity).
Qed.

Lemma any_pointer_full_refuted :
  ~ (forall k filler s rest, wf_section s -> k < 256 -> len filler = k -> is_bytes filler -> is_bytes rest ->
     exists m, program_map (ser_payload_pf k filler s rest) = Ok m /\
               forall p x, In (p, x) m <-> map_lookup (entries s) p = Some x).
Proof.
  intros F. destruct pointer_nonzero_witness as (Ww & _ & _ & _ & PM & ML & _).
  destruct (F 1 [255] wit_section [] Ww ltac:(lia) eq_refl ltac:(repeat constructor; unfold is_byte; lia) ltac:(constructor))
    as (m & Em & Hm).
  fold wit_payload in Em. rewrite PM in Em. injection Em as <-. apply (proj2 (Hm 1 0x100)) in ML. destruct ML.
Qed.

(* ---- the executable oracle: spec_map is the sorted list of exactly the pairs of map_lookup ---- *)
Lemma in_ins_key k x l : In x (ins_key k l) <-> x = k \/ In x l.
Proof.
  induction l as [|y t IH]; cbn [ins_key In]; [intuition|].
  destruct (k <? y); [cbn [In]; intuition|].
  destruct (N.eqb_spec k y) as [->|Hne]; cbn [In]; [intuition | rewrite IH; intuition].
Qed.
Lemma in_prog_keys es p : In p (prog_keys es) <-> p <> 0 /\ exists e, In e es /\ pn e = p.
Proof.
  induction es as [|e es IH]; cbn [prog_keys fold_right]; [split; [contradiction | intros (_ & e & [] & _)]|].
  fold (prog_keys es). destruct (N.eqb_spec (pn e) 0) as [Hz|Hnz].
  - rewrite IH. split; intros (Hp & e' & Hin & He); (split; [exact Hp|]).
    + exists e'. split; [right; exact Hin | exact He].
    + destruct Hin as [<-|Hin]; [congruence | exists e'; split; assumption].
  - rewrite in_ins_key, IH. split.
    + intros [->|(Hp & e' & Hin & He)]; [split; [exact Hnz | exists e; split; [left; reflexivity | reflexivity]]|].
      split; [exact Hp | exists e'; split; [right; exact Hin | exact He]].
    + intros (Hp & e' & [<-|Hin] & He); [left; symmetry; exact He | right; split; [exact Hp | exists e'; split; assumption]].
Qed.
Lemma last_pid_some es p x : last_pid es p = Some x -> exists e, In e es /\ pn e = p.
Proof.
  induction es as [|e es IH] using rev_ind; [discriminate|]. rewrite last_pid_snoc.
  destruct (N.eqb_spec (pn e) p) as [He|Hne].
  - intros _. exists e. split; [apply in_or_app; right; left; reflexivity | exact He].
  - intros H. destruct (IH H) as (e' & Hin & He'). exists e'. split; [apply in_or_app; left; exact Hin | exact He'].
Qed.
Lemma spec_map_in es p x : In (p, x) (spec_map es) <-> map_lookup es p = Some x.
Proof.
  unfold spec_map. rewrite in_flat_map. split.
  - intros (k & _ & Hin). destruct (map_lookup es k) as [y|] eqn:E; [|contradiction].
    destruct Hin as [[= <- <-]|[]]. exact E.
  - intros H. exists p. split; [|rewrite H; left; reflexivity].
    apply in_prog_keys. unfold map_lookup in H. destruct (N.eqb_spec p 0) as [->|Hp]; [discriminate|].
    split; [exact Hp | exact (last_pid_some es p x H)].
Qed.

Inductive incr : list N -> Prop :=
| incr_nil : incr []
| incr_one x : incr [x]
| incr_cons x y t : x < y -> incr (y :: t) -> incr (x :: y :: t).
Lemma incr_ins k l : incr l -> incr (ins_key k l).
Proof.
  induction 1 as [|x|x y t Hxy Hi IH]; cbn [ins_key].
  - constructor.
  - destruct (N.ltb_spec k x); [constructor; [assumption|constructor]|].
    destruct (N.eqb_spec k x); [constructor | constructor; [lia|constructor]].
  - destruct (N.ltb_spec k x); [constructor; [assumption | constructor; assumption]|].
    destruct (N.eqb_spec k x) as [->|Hne]; [constructor; assumption|].
    cbn [ins_key] in IH. destruct (N.ltb_spec k y).
    + constructor; [lia | constructor; assumption].
    + destruct (N.eqb_spec k y); [constructor; assumption | constructor; [assumption | exact IH]].
Qed.
Lemma prog_keys_incr es : incr (prog_keys es).
Proof.
  induction es as [|e es IH]; [constructor|]. cbn [prog_keys fold_right]. fold (prog_keys es).
  destruct (pn e =? 0); [exact IH | apply incr_ins; exact IH].
Qed.
Lemma incr_head_lt y l : incr (y :: l) -> forall z, In z l -> y < z.
Proof.
  revert y. induction l as [|a l IH]; intros y H z Hz; [destruct Hz|].
  inversion H as [| |? ? ? Hlt Hi']; subst. destruct Hz as [<-|Hz]; [assumption|].
  specialize (IH a Hi' z Hz). lia.
Qed.
(* keys of spec_map: a sub-sequence of prog_keys, hence strictly increasing *)
Lemma spec_map_keys_incr es : incr (map fst (spec_map es)).
Proof.
  unfold spec_map. generalize (prog_keys_incr es). generalize (prog_keys es). intros ks.
  induction 1 as [|x|x y t Hxy Hi IH]; cbn [flat_map].
  - constructor.
  - destruct (map_lookup es x); cbn; constructor.
  - cbn [flat_map] in IH. destruct (map_lookup es x) as [vx|]; [|exact IH].
    cbn [app map fst]. destruct (map_lookup es y) as [vy|].
    + cbn [app map fst] in *. constructor; assumption.
    + cbn [app] in *. clear - Hxy Hi IH.
      pose proof (incr_head_lt y t Hi) as Hgt.
      set (r := flat_map (fun k => match map_lookup es k with Some x0 => [(k, x0)] | None => [] end) t) in *.
      destruct r as [|[a b] r'] eqn:Er; [constructor|]. cbn [map fst] in *. constructor; [|exact IH].
      assert (In a t) as Hat.
      { assert (In (a, b) r) as Hin by (rewrite Er; left; reflexivity). unfold r in Hin. apply in_flat_map in Hin.
        destruct Hin as (k0 & Hk0 & Hin). destruct (map_lookup es k0); [|contradiction]. destruct Hin as [[= <- <-]|[]]. exact Hk0. }
      specialize (Hgt a Hat). lia.
Qed.
