(* C07: witnesses for pointer_field > 0 (finding P1: before /repo commit 3223166 ProgramMap / SPTSpmtPID read their
   four-byte groups from the FIXED payload offset 9; the general theorems for every pointer_field are in Proofs/Pat.v),
   and: the executable oracle of Spec/PatSpec.v (spec_map) is the map the theorems speak of. *)
From Gots Require Import Base.Prelude Model.Pat Spec.PatSpec Proofs.PatBase Proofs.StreamTypeDesc Proofs.Pat.
Import Pat PatSpec.

(* ---- finding P1 (notes/findings/C07.md), repaired by /repo commit 3223166 ----
   one program (1 -> PID 0x100), pointer_field 1, one stuffing byte before the section.  With the accessors as they were
   before the repair (`program_map_with` / `spts_pmt_pid_with`: entry loop from the FIXED payload offset 9) the map is
   empty and SPTSpmtPID fails; the repaired accessors return the program. *)
Definition wit_section : section := mkS 0xB [0; 1; 0xC1; 0; 0] [mkE 1 0x100 7] [1; 2; 3; 4].
Definition wit_payload : bytes := ser_payload_pf 1 [255] wit_section [].
Lemma wit_wf : wf_section wit_section.
Proof.
  unfold wf_section, wf_entry, is_bytes, is_byte, wit_section.
  repeat split; cbn [flags hdr entries crc pn pid res]; try reflexivity; try lia; repeat constructor; try lia.
  all: try (vm_compute; reflexivity).
Qed.
Lemma pointer_nonzero_witness :
  wf_section wit_section /\
  wit_payload = [1; 255; 0; 0xB0; 13; 0; 1; 0xC1; 0; 0; 0; 1; 0xE1; 0; 1; 2; 3; 4] /\
  new_pat wit_payload = Ok wit_payload /\
  num_programs wit_payload = Ok 1%Z /\
  program_map wit_payload = Ok [(1, 0x100)] /\ map_lookup (entries wit_section) 1 = Some 0x100 /\
  spts_pmt_pid wit_payload = Ok 0x100 /\ spts (entries wit_section) = Some 0x100.
Proof. split; [exact wit_wf|]. repeat split; vm_compute; reflexivity. Qed.
Lemma pointer_nonzero_before_fix :
  num_programs_with PatPsi.section_length wit_payload = Ok 1%Z /\
  program_map_with PatPsi.section_length wit_payload = Ok [] /\
  spts_pmt_pid_with PatPsi.section_length wit_payload = Err E.Other.
Proof. repeat split; vm_compute; reflexivity. Qed.

(* the largest pointer_field: 255 filler bytes (bare payload carrier only; a packet leaves room for k <= 171) *)
Lemma pointer_255_example :
  let pay := ser_payload_pf 255 (repeat 255 255) wit_section [9; 9] in
  len pay = 274 /\ new_pat pay = Ok pay /\ num_programs pay = Ok 1%Z /\ program_map pay = Ok [(1, 0x100)] /\
  spts_pmt_pid pay = Ok 0x100.
Proof. cbv zeta. repeat split; vm_compute; reflexivity. Qed.

Lemma any_pointer_full_holds :
  forall k filler s rest, wf_section s -> k < 256 -> len filler = k -> is_bytes filler -> is_bytes rest ->
  exists m, program_map (ser_payload_pf k filler s rest) = Ok m /\
            forall p x, In (p, x) m <-> map_lookup (entries s) p = Some x.
Proof.
  intros k filler s rest W Hk Lf _ _. destruct (program_map_spec k filler s rest W Hk Lf) as (m & E & _ & H).
  exists m. split; [exact E | exact H].
Qed.

(* ---- the executable oracle: spec_map is the sorted list of exactly the pairs of map_lookup ---- *)
Lemma in_ins_key k x l : In x (ins_key k l) <-> x = k \/ In x l.
Proof.
  induction l as [|y t IH]; cbn [ins_key In]; [intuition|].
  destruct (k <? y); [cbn [In]; intuition|].
  destruct (N.eqb_spec k y) as [->|Hne]; cbn [In]; [intuition | rewrite IH; intuition].
Qed.
Lemma in_prog_keys es p : In p (prog_keys es) <-> p <> 0 /\ exists e, In e es /\ pn e = p.
Proof.
  induction es as [|e es IH]; cbn [prog_keys fold_right]; [split; [contradiction | intros (_ & e & [] & _)]|].
  fold (prog_keys es). destruct (N.eqb_spec (pn e) 0) as [Hz|Hnz].
  - rewrite IH. split; intros (Hp & e' & Hin & He); (split; [exact Hp|]).
    + exists e'. split; [right; exact Hin | exact He].
    + destruct Hin as [<-|Hin]; [congruence | exists e'; split; assumption].
  - rewrite in_ins_key, IH. split.
    + intros [->|(Hp & e' & Hin & He)]; [split; [exact Hnz | exists e; split; [left; reflexivity | reflexivity]]|].
      split; [exact Hp | exists e'; split; [right; exact Hin | exact He]].
    + intros (Hp & e' & [<-|Hin] & He); [left; symmetry; exact He | right; split; [exact Hp | exists e'; split; assumption]].
Qed.
Lemma last_pid_some es p x : last_pid es p = Some x -> exists e, In e es /\ pn e = p.
Proof.
  induction es as [|e es IH] using rev_ind; [discriminate|]. rewrite last_pid_snoc.
  destruct (N.eqb_spec (pn e) p) as [He|Hne].
  - intros _. exists e. split; [apply in_or_app; right; left; reflexivity | exact He].
  - intros H. destruct (IH H) as (e' & Hin & He'). exists e'. split; [apply in_or_app; left; exact Hin | exact He'].
Qed.
Lemma spec_map_in es p x : In (p, x) (spec_map es) <-> map_lookup es p = Some x.
Proof.
  unfold spec_map. rewrite in_flat_map. split.
  - intros (k & _ & Hin). destruct (map_lookup es k) as [y|] eqn:E; [|contradiction].
    destruct Hin as [[= <- <-]|[]]. exact E.
  - intros H. exists p. split; [|rewrite H; left; reflexivity].
    apply in_prog_keys. unfold map_lookup in H. destruct (N.eqb_spec p 0) as [->|Hp]; [discriminate|].
    split; [exact Hp | exact (last_pid_some es p x H)].
Qed.

Inductive incr : list N -> Prop :=
| incr_nil : incr []
| incr_one x : incr [x]
| incr_cons x y t : x < y -> incr (y :: t) -> incr (x :: y :: t).
Lemma incr_ins k l : incr l -> incr (ins_key k l).
Proof.
  induction 1 as [|x|x y t Hxy Hi IH]; cbn [ins_key].
  - constructor.
  - destruct (N.ltb_spec k x); [constructor; [assumption|constructor]|].
    destruct (N.eqb_spec k x); [constructor | constructor; [lia|constructor]].
  - destruct (N.ltb_spec k x); [constructor; [assumption | constructor; assumption]|].
    destruct (N.eqb_spec k x) as [->|Hne]; [constructor; assumption|].
    cbn [ins_key] in IH. destruct (N.ltb_spec k y).
    + constructor; [lia | constructor; assumption].
    + destruct (N.eqb_spec k y); [constructor; assumption | constructor; [assumption | exact IH]].
Qed.
Lemma prog_keys_incr es : incr (prog_keys es).
Proof.
  induction es as [|e es IH]; [constructor|]. cbn [prog_keys fold_right]. fold (prog_keys es).
  destruct (pn e =? 0); [exact IH | apply incr_ins; exact IH].
Qed.
Lemma incr_head_lt y l : incr (y :: l) -> forall z, In z l -> y < z.
Proof.
  revert y. induction l as [|a l IH]; intros y H z Hz; [destruct Hz|].
  inversion H as [| |? ? ? Hlt Hi']; subst. destruct Hz as [<-|Hz]; [assumption|].
  specialize (IH a Hi' z Hz). lia.
Qed.
(* keys of spec_map: a sub-sequence of prog_keys, hence strictly increasing *)
Lemma spec_map_keys_incr es : incr (map fst (spec_map es)).
Proof.
  unfold spec_map. generalize (prog_keys_incr es). generalize (prog_keys es). intros ks.
  induction 1 as [|x|x y t Hxy Hi IH]; cbn [flat_map].
  - constructor.
  - destruct (map_lookup es x); cbn; constructor.
  - cbn [flat_map] in IH. destruct (map_lookup es x) as [vx|]; [|exact IH].
    cbn [app map fst]. destruct (map_lookup es y) as [vy|].
    + cbn [app map fst] in *. constructor; assumption.
    + cbn [app] in *. clear - Hxy Hi IH.
      pose proof (incr_head_lt y t Hi) as Hgt.
      set (r := flat_map (fun k => match map_lookup es k with Some x0 => [(k, x0)] | None => [] end) t) in *.
      destruct r as [|[a b] r'] eqn:Er; [constructor|]. cbn [map fst] in *. constructor; [|exact IH].
      assert (In a t) as Hat.
      { assert (In (a, b) r) as Hin by (rewrite Er; left; reflexivity). unfold r in Hin. apply in_flat_map in Hin.
        destruct Hin as (k0 & Hk0 & Hin). destruct (map_lookup es k0); [|contradiction]. destruct Hin as [[= <- <-]|[]]. exact Hk0. }
      specialize (Hgt a Hat). lia.
Qed.
