(* C08: consequences of decode_ser (signal PTS, back-reference) and the rejections. *)
From Gots Require Import Base.Prelude Model.Pts Model.Scte Spec.Scte35Spec Proofs.ScteLemmas Proofs.ScteExpected Proofs.ScteDecode.
Import Scte Scte35Spec.
Local Open Scope N_scope.
Arguments N.mul : simpl never. Arguments N.add : simpl never. Arguments N.div : simpl never.
Arguments N.modulo : simpl never. Arguments N.land : simpl never. Arguments N.shiftr : simpl never.
Arguments N.sub : simpl never. Arguments N.ltb : simpl never. Arguments N.eqb : simpl never.
Arguments N.leb : simpl never.

Lemma signal_pts s t sc : supported s -> cmd_time (si_cmd s) = Some t ->
  new_scte35 (ser_splice_info s) = Ok sc ->
  s_pts sc = (t + si_pts_adj s) mod 8589934592 /\ cmd_has_pts (s_cmd sc) = true /\ cmd_pts (s_cmd sc) = t.
Proof.
  intros Hs Ht Hd. rewrite (decode_ser s Hs) in Hd. injection Hd as <-.
  unfold expected. cbn [s_pts s_cmd]. unfold expected_pts.
  destruct (si_cmd s) as [|t'|eid [b|]|ty body]; cbn [cmd_time] in Ht; try discriminate.
  - subst t'. cbn [cmd_time st_val expected_cmd cmd_has_pts cmd_pts st_has]. auto.
  - cbn [cmd_time expected_cmd cmd_has_pts cmd_pts expected_insert i_has_pts i_pts]. rewrite Ht. cbn [st_val st_has]. auto.
Qed.

Lemma expected_descs_owner o ds : Forall (fun d => d_owner d = Some o) (expected_descs o ds).
Proof.
  induction ds as [|[eid [b|]|tag body] ds IH]; cbn [expected_descs]; try assumption; constructor; try assumption; reflexivity.
Qed.
Lemma desc_backref s sc : supported s -> new_scte35 (ser_splice_info s) = Ok sc ->
  Forall (fun d => d_owner d = Some (s_id sc)) (s_descs sc).
Proof.
  intros Hs Hd. rewrite (decode_ser s Hs) in Hd. injection Hd as <-. unfold expected. cbn [s_descs s_id].
  apply expected_descs_owner.
Qed.
Lemma expected_descs_length ds :
  length (expected_descs 1 ds) = length (filter (fun d => match d with Seg _ _ => true | _ => false end) ds).
Proof. induction ds as [|[eid b|tag body] ds IH]; cbn [expected_descs filter length]; auto. Qed.

(* ---- rejections ---- *)
Lemma reject_table_id s : len (si_pointer s) < 255 -> si_table_id s <> 252 ->
  new_scte35 (ser_splice_info s) = Err E.UnknownTableID.
Proof.
  intros Hptr Htid. open_section s.
  replace (si_table_id s =? 252) with false by (symmetry; apply N.eqb_neq; exact Htid). reflexivity.
Qed.

Lemma reject_encrypted s : len (si_pointer s) < 255 -> si_table_id s = 252 -> si_encrypted s = true ->
  si_enc_alg s < 64 -> si_pts_adj s < 8589934592 ->
  new_scte35 (ser_splice_info s) = Err E.SCTE35EncryptionUnsupported.
Proof.
  intros Hptr Htid Henc Hea Hadj. open_section s.
  rewrite Htid. change (252 =? 252) with true. red1.
  rewrite rb0. red1. rewrite rb0. red1. rewrite Henc. cbn [b2n]. unfold T32.
  rewrite land128 by lia.
  bfalse (128 * ((128 * 1 + 2 * si_enc_alg s + si_pts_adj s / 4294967296) / 128) =? 0). reflexivity.
Qed.

Lemma reject_command s ty body : wf_fixed s -> si_table_id s = 252 -> si_encrypted s = false ->
  si_cmd s = OtherCmd ty body -> ty <> 0 -> ty <> 5 -> ty <> 6 ->
  new_scte35 (ser_splice_info s) = Err E.SCTE35UnsupportedSpliceCommand.
Proof.
  intros Hwf Htid Henc Hc H0 H5 H6. rewrite parse_table_fixed by assumption.
  rewrite Hc. cbn [command_type]. unfold parse_command, Scte.TimeSignal, Scte.SpliceInsert, Scte.SpliceNull.
  bfalse (ty =? 6). bfalse (ty =? 5). bfalse (ty =? 0). reflexivity.
Qed.

Lemma reject_time_signal_no_time s : wf_fixed s -> si_table_id s = 252 -> si_encrypted s = false ->
  si_cmd s = TimeSignal None ->
  new_scte35 (ser_splice_info s) = Err E.SCTE35UnsupportedSpliceCommand.
Proof.
  intros Hwf Htid Henc Hc. rewrite parse_table_fixed by assumption.
  rewrite Hc. reflexivity.
Qed.

Lemma reject_insert_no_time s eid b : wf_fixed s -> si_table_id s = 252 -> si_encrypted s = false ->
  si_cmd s = Insert eid (Some b) -> eid < T32 -> ib_mode b = ProgTimed None ->
  new_scte35 (ser_splice_info s) = Err E.SCTE35UnsupportedSpliceCommand.
Proof.
  intros Hwf Htid Henc Hc He Hm. unfold T32 in He. rewrite parse_table_fixed by assumption.
  rewrite Hc. cbn [command_type]. unfold parse_command.
  change ((5 =? Scte.TimeSignal) || (5 =? Scte.SpliceInsert)) with true. change (5 =? Scte.TimeSignal) with false. red1.
  destruct b as [out mode brk up an ae]. cbn [ib_mode] in Hm. subst mode.
  cbn [ser_command]. unfold ser_insert_body. cbn [ib_out ib_mode ib_break ib_unique_program_id ib_avail_num ib_avails_expected].
  unfold to_be32 at 1. rewrite <- !app_assoc. cbn [app].
  unfold parse_insert. rewrite next5. red1. rewrite len5. change (5 <? 5) with false. red1.
  rewrite take4of5, be32_of_4, idx4. red1. change (N.land 127 128 =? 128) with false. red1.
  rewrite rb. red1.
  destruct (insert_flags out (mode_program (ProgTimed None)) (match brk with Some _ => true | None => false end) (mode_immediate (ProgTimed None))) as (E1 & E2 & E3 & E4).
  cbv zeta in E1, E2, E3, E4. rewrite E1, E2, E3, E4. clear E1 E2 E3 E4.
  cbn [mode_program mode_immediate ser_mode]. red1. rewrite pst_none. red1. reflexivity.
Qed.

(* a tag-2 descriptor whose identifier is not "CUEI", after any number of well-formed descriptors *)
Lemma pdl_bad_id : forall ds fuel owner done i0 i1 i2 i3 body more rest l other descs,
  Forall wf_descriptor ds -> (length ds < fuel)%nat -> be32 i0 i1 i2 i3 <> CUEI ->
  let bad := Foreign 2 (i0 :: i1 :: i2 :: i3 :: body) in
  parse_desc_loop fuel owner (done + len (ser_descriptors (ds ++ bad :: more))) done
                  (mkbuf (ser_descriptors (ds ++ bad :: more) ++ rest) l) other descs
  = Err E.SCTE35InvalidDescriptorID.
Proof.
  induction ds as [|d ds IH]; intros fuel owner done i0 i1 i2 i3 body more rest l other descs Hwf Hfuel Hid bad;
    (destruct fuel as [|fuel]; [cbn in Hfuel; lia|]); cbn [parse_desc_loop].
  - cbn [app]. unfold ser_descriptors. cbn [flat_map]. fold (ser_descriptors more).
    set (R := ser_descriptors more). unfold bad, ser_descriptor. cbn [desc_tag ser_desc_payload].
    set (P := i0 :: i1 :: i2 :: i3 :: body). rewrite len_app, !len_cons.
    btrue (done <? done + (1 + (1 + len P) + len R)). red1.
    rewrite <- app_assoc. cbn [app]. rewrite rb0. red1. rewrite rb0. red1.
    replace (Z.of_N (done + (1 + (1 + len P) + len R)) - Z.of_N done - 2 <? Z.of_N (len P))%Z with false
      by (symmetry; apply Z.ltb_ge; lia).
    red1. change (2 =? segDescTag) with true. red1. rewrite next_app by reflexivity. red1.
    unfold P, parse_descriptor, buf_new. rewrite blen_mk, !len_cons.
    match goal with |- context [?e <? 4] => replace (e <? 4) with false by (symmetry; apply N.ltb_ge; lia) end. red1.
    rewrite next4. red1. rewrite be32_of_4. red1.
    replace (be32 i0 i1 i2 i3 =? segDescID) with false by (symmetry; apply N.eqb_neq; exact Hid). reflexivity.
  - inversion Hwf as [|? ? Hd Hwf']; subst.
    cbn [app]. unfold ser_descriptors. cbn [flat_map]. fold (ser_descriptors (ds ++ bad :: more)).
    set (R := ser_descriptors (ds ++ bad :: more)) in *.
    unfold ser_descriptor. rewrite len_app, !len_cons. set (P := ser_desc_payload d) in *.
    btrue (done <? done + (1 + (1 + len P) + len R)). red1.
    rewrite <- app_assoc. cbn [app]. rewrite rb0. red1. rewrite rb0. red1.
    replace (Z.of_N (done + (1 + (1 + len P) + len R)) - Z.of_N done - 2 <? Z.of_N (len P))%Z with false
      by (symmetry; apply Z.ltb_ge; lia).
    red1. rewrite next_app by reflexivity. red1.
    replace (done + (1 + (1 + len P) + len R)) with ((done + 2 + len P) + len R) by lia.
    assert (Hf : (length ds < fuel)%nat) by (cbn in Hfuel; lia).
    destruct d as [eid sb | tag fb]; cbn [desc_tag].
    + change (2 =? segDescTag) with true. red1. unfold P. rewrite parse_descriptor_ser by exact Hd. red1.
      unfold R. apply IH; assumption.
    + destruct Hd as (Ht & Hne & Hb & Hl).
      replace (tag =? segDescTag) with false by (symmetry; apply N.eqb_neq; exact Hne). red1.
      unfold R. apply IH; assumption.
Qed.

Lemma reject_identifier s ds i0 i1 i2 i3 body more :
  wf_fixed s -> si_table_id s = 252 -> si_encrypted s = false ->
  wf_command (si_cmd s) -> supported_cmd (si_cmd s) ->
  si_descs s = ds ++ Foreign 2 (i0 :: i1 :: i2 :: i3 :: body) :: more ->
  Forall wf_descriptor ds -> be32 i0 i1 i2 i3 <> CUEI -> len (ser_descriptors (si_descs s)) < 65536 ->
  new_scte35 (ser_splice_info s) = Err E.SCTE35InvalidDescriptorID.
Proof.
  intros Hwf Htid Henc Hcmd Hsup Hds Hwfds Hid Hdl. rewrite parse_table_fixed by assumption.
  destruct Hwf as (Hptr & Hsap & Hea & Hadj & Htier & Hcl & Hsl).
  destruct (parse_command_ser (si_cmd s) (si_pts_adj s) (sec_tail s) (Some (command_type (si_cmd s))) Hcmd Hsup Hadj) as [l1 E1].
  rewrite E1. red1. unfold sec_tail, parse_descriptors, to_be16. cbn [app].
  set (D := ser_descriptors (si_descs s)) in *.
  rewrite blen_mk, !len_cons, !len_app, len_to_be32.
  bfalse (1 + (1 + (len D + (len (si_stuffing s) + 4))) <? 6). red1.
  rewrite next2. red1. rewrite be16_of_2. red1. rewrite be16_rt by assumption.
  rewrite blen_mk, !len_app, len_to_be32. bfalse (len D + (len (si_stuffing s) + 4) <? len D + 4). red1.
  replace (len D) with (0 + len D) at 1 by lia. unfold D. rewrite Hds.
  rewrite pdl_bad_id; try assumption; [reflexivity|].
  pose proof (data_fuel s) as F. pose proof (descs_fuel (si_descs s)) as G. rewrite Hds in G at 1.
  rewrite app_length in G. lia.
Qed.
