(* C14: RemoveElementaryStreams, Pids, PIDExists (list reasoning). *)
From Gots Require Import Base.Prelude Model.Psi Model.Pmt Spec.PmtSpec Proofs.PmtBase.
Import Pmt.
Local Open Scope N_scope.

Lemma filter_all_true {A} (f : A -> bool) l : (forall x, In x l -> f x = true) -> filter f l = l.
Proof. induction l as [|a t IH]; intros H; [reflexivity|]. cbn [filter]. rewrite (H a (or_introl eq_refl)).
  f_equal. apply IH. intros x Hx. apply H. right. exact Hx. Qed.
Lemma filter_filter2 {A} (f g : A -> bool) l : filter f (filter g l) = filter (fun x => g x && f x) l.
Proof. induction l as [|a t IH]; [reflexivity|]. cbn [filter]. destruct (g a); cbn [andb filter]; [destruct (f a)|]; rewrite IH; reflexivity. Qed.
Lemma filter_ext2 {A} (f g : A -> bool) l : (forall x, f x = g x) -> filter f l = filter g l.
Proof. intros H. induction l as [|a t IH]; [reflexivity|]. cbn [filter]. rewrite H, IH. reflexivity. Qed.

Definition mem (x : N) (l : list N) : bool := existsb (N.eqb x) l.
Lemma mem_In x l : mem x l = true <-> In x l.
Proof. unfold mem. rewrite existsb_exists. split.
  - intros (y & Hy & E). apply N.eqb_eq in E. subst. exact Hy.
  - intros H. exists x. split; [exact H|apply N.eqb_refl]. Qed.

(* a PMT whose PID list is the projection of its stream list (true of every parsed PMT, and kept by removal) *)
Definition pids_consistent (p : pmt) : Prop := pids p = map epid (streams p).

Lemma pid_exists_iff p x : pids_consistent p -> (pid_exists p x = true <-> exists e, In e (streams p) /\ epid e = x).
Proof. intros C. unfold pid_exists. fold (mem x (pids p)). rewrite mem_In, C, in_map_iff.
  split; intros (e & A & B); exists e; auto. Qed.

Lemma remove_consistent p rm : pids_consistent (remove_elementary_streams p rm).
Proof. reflexivity. Qed.
Lemma remove_keeps_version p rm :
  version (remove_elementary_streams p rm) = version p /\ cni (remove_elementary_streams p rm) = cni p.
Proof. split; reflexivity. Qed.

(* one requested PID: the first stream with that PID goes, everything else stays in order *)
Lemma remove_first_spec pid l :
  (~ In pid (map epid l) /\ remove_first pid l = l) \/
  (exists l1 e l2, l = l1 ++ e :: l2 /\ epid e = pid /\ ~ In pid (map epid l1) /\ remove_first pid l = l1 ++ l2).
Proof. induction l as [|s t IH]; [left; split; [intros []|reflexivity]|].
  cbn [remove_first]. destruct (N.eqb_spec pid (epid s)) as [E|NE].
  - right. exists [], s, t. repeat split; [symmetry; exact E|intros []].
  - destruct IH as [[NI R]|(l1 & e & l2 & EQ & Ep & NI & R)].
    + left. split; [cbn [map]; intros [H|H]; [congruence|exact (NI H)]|rewrite R; reflexivity].
    + right. exists (s :: l1), e, l2. subst t. repeat split; try assumption.
      * cbn [map]. intros [H|H]; [congruence|exact (NI H)].
      * rewrite R. reflexivity. Qed.

Lemma remove_first_filter pid l : NoDup (map epid l) ->
  remove_first pid l = filter (fun e => negb (epid e =? pid)) l.
Proof. induction l as [|s t IH]; intros ND; [reflexivity|]. cbn [map] in ND. inversion ND as [|? ? NI ND']; subst.
  cbn [remove_first filter]. rewrite (N.eqb_sym (epid s) pid). destruct (N.eqb_spec pid (epid s)) as [E|NE]; cbn [negb].
  - (* the rest contains no stream with this PID *)
    symmetry. apply filter_all_true. intros e He. apply negb_true_iff. apply N.eqb_neq.
    intros Ee. apply NI. rewrite <- E, <- Ee. apply in_map. exact He.
  - f_equal. apply IH. exact ND'. Qed.

Lemma filter_NoDup_map l (f : es -> bool) : NoDup (map epid l) -> NoDup (map epid (filter f l)).
Proof. induction l as [|s t IH]; intros ND; [constructor|]. cbn [map] in ND. inversion ND as [|? ? NI ND']; subst.
  cbn [filter]. destruct (f s); [|apply IH; exact ND']. cbn [map]. constructor; [|apply IH; exact ND'].
  intros H. apply NI. apply in_map_iff in H. destruct H as (e & Ee & He). apply filter_In in He. destruct He as [He _].
  rewrite <- Ee. apply in_map. exact He. Qed.

(* with distinct PIDs removal leaves exactly the streams whose PID was not requested, in order *)
Theorem remove_streams_nodup p rm : NoDup (map epid (streams p)) ->
  streams (remove_elementary_streams p rm) = filter (fun e => negb (mem (epid e) rm)) (streams p).
Proof. unfold remove_elementary_streams. cbn [streams]. generalize (streams p) as l. induction rm as [|r rm IH]; intros l ND.
  - cbn [fold_left mem existsb negb]. symmetry. apply filter_all_true. reflexivity.
  - cbn [fold_left]. rewrite IH by (rewrite remove_first_filter by exact ND; apply filter_NoDup_map; exact ND).
    rewrite remove_first_filter by exact ND. rewrite filter_filter2. apply filter_ext2. intros e.
    unfold mem. cbn [existsb]. rewrite negb_orb. reflexivity. Qed.

(* without the distinctness assumption: each requested PID removes the first remaining occurrence (the general law) *)
Theorem remove_streams_step p r rm :
  streams (remove_elementary_streams p (r :: rm)) =
  streams (remove_elementary_streams {| pids := pids p; streams := remove_first r (streams p); version := version p; cni := cni p |} rm).
Proof. reflexivity. Qed.

Theorem remove_pids_agree p rm x :
  pids (remove_elementary_streams p rm) = map epid (streams (remove_elementary_streams p rm)) /\
  (pid_exists (remove_elementary_streams p rm) x = true <-> In x (map epid (streams (remove_elementary_streams p rm)))).
Proof. split; [reflexivity|]. unfold pid_exists. fold (mem x (pids (remove_elementary_streams p rm))). apply mem_In. Qed.
