(* C04/C11 end to end through the library's own builder: packet.WithPES(pkt, pts) followed by
   packet.PESHeader / packet.Payload + pes.NewPESHeader returns the PTS unchanged. *)
From Gots Require Import Base.Prelude Base.CodecLemmas Model.Pts Model.Pes Spec.TimestampSpec Spec.PesSpec
  Proofs.PcrPts Proofs.PesDecode.
Local Open Scope N_scope.

(* ---- list surgery: upd / blit / nthN through concatenations ---- *)
Lemma upd_nat_app_l (pre post : bytes) v : forall i, (i < length pre)%nat ->
  upd_nat (pre ++ post) i v = upd_nat pre i v ++ post.
Proof. induction pre as [|x pre IH]; intros i H; cbn [length] in H; [lia|].
  destruct i as [|i]; cbn [app upd_nat]; [reflexivity|]. rewrite IH by lia. reflexivity. Qed.
Lemma upd_app_l (pre post : bytes) i v : i < len pre -> upd (pre ++ post) i v = upd pre i v ++ post.
Proof. intro H. unfold upd. apply upd_nat_app_l. unfold len in H. lia. Qed.
Lemma upd_nat_length (l : bytes) v : forall i, length (upd_nat l i v) = length l.
Proof. induction l as [|x l IH]; intro i; [destruct i; reflexivity|].
  destruct i; cbn [upd_nat length]; [reflexivity|]. rewrite IH. reflexivity. Qed.
Lemma len_upd (l : bytes) i v : len (upd l i v) = len l.
Proof. unfold len, upd. rewrite upd_nat_length. reflexivity. Qed.
Lemma nth_upd_nat_same (l : bytes) v : forall i, (i < length l)%nat -> nth i (upd_nat l i v) 0 = v.
Proof. induction l as [|x l IH]; intros i H; cbn [length] in H; [lia|].
  destruct i; cbn [upd_nat nth]; [reflexivity|]. apply IH. lia. Qed.
Lemma nth_upd_nat_other (l : bytes) v : forall i j, i <> j -> nth j (upd_nat l i v) 0 = nth j l 0.
Proof. induction l as [|x l IH]; intros i j H; [destruct i; reflexivity|].
  destruct i, j; cbn [upd_nat nth]; try reflexivity; try lia. apply IH. lia. Qed.
Lemma nthN_upd_same (l : bytes) i v : i < len l -> nthN (upd l i v) i = v.
Proof. intro H. unfold nthN, upd. apply nth_upd_nat_same. unfold len in H. lia. Qed.
Lemma nthN_upd_other (l : bytes) i j v : i <> j -> nthN (upd l i v) j = nthN l j.
Proof. intro H. unfold nthN, upd. apply nth_upd_nat_other. lia. Qed.
Lemma nthN_app_l (pre post : bytes) i : i < len pre -> nthN (pre ++ post) i = nthN pre i.
Proof. intro H. unfold nthN. apply app_nth1. unfold len in H. lia. Qed.

Lemma blit_nat_0 (dst src : bytes) : (length dst <= length src)%nat -> blit_nat dst 0 src = firstn (length dst) src.
Proof. revert src. induction dst as [|d dst IH]; intros src H; [reflexivity|].
  destruct src as [|s src]; cbn [length] in H; [lia|]. cbn [blit_nat length firstn]. f_equal. apply IH. lia. Qed.
Lemma blit_nat_app (pre post src : bytes) : (length post <= length src)%nat ->
  blit_nat (pre ++ post) (length pre) src = pre ++ firstn (length post) src.
Proof. intro H. induction pre as [|x pre IH]; cbn [app length].
  - destruct post as [|p post]; [reflexivity|]. apply blit_nat_0. exact H.
  - cbn [blit_nat]. rewrite IH. reflexivity. Qed.
Lemma blit_app (pre post src : bytes) i : i = len pre -> (length post <= length src)%nat ->
  blit (pre ++ post) i src = pre ++ firstn (length post) src.
Proof. intros -> H. unfold blit, len. rewrite Nat2N.id. apply blit_nat_app. exact H. Qed.
Lemma blit_nat_mid (pre mid post src : bytes) : length src = length mid ->
  blit_nat (pre ++ mid ++ post) (length pre) src = pre ++ src ++ post.
Proof. intro H. induction pre as [|x pre IH]; cbn [app length].
  - revert src H. induction mid as [|m mid IHm]; intros src H; destruct src as [|s src]; cbn [length] in H; try lia.
    + cbn [app]. destruct post; reflexivity.
    + cbn [app blit_nat]. f_equal. apply IHm. lia.
  - cbn [blit_nat]. rewrite IH. reflexivity. Qed.
Lemma blit_mid (pre mid post src : bytes) i : i = len pre -> length src = length mid ->
  blit (pre ++ mid ++ post) i src = pre ++ src ++ post.
Proof. intros -> H. unfold blit, len. rewrite Nat2N.id. apply blit_nat_mid. exact H. Qed.

(* ---- the payload WithPES builds ---- *)
Definition pes_pay (pts : N) : bytes :=
  [0; 0; 1; 184; 0; 0; 64; 128; 14] ++ TsSpec.ts_bytes 2 pts ++ repeat 0 170.

Lemma with_pes_shape pkt pts :
  Pes.with_pes pkt pts =
  Ok (let p1 := blit pkt (Pes.pkt_payload_start pkt) (pes_pay pts) in upd p1 3 (N.lor (nthN p1 3) 16)).
Proof. unfold Pes.with_pes.
  change (upd (upd (upd (upd (upd (upd (upd (upd (repeatN 0 184) 0 0) 1 0) 2 1) 3 184) 4 0) 6 64) 7 128) 8 14)
    with ([0; 0; 1; 184; 0; 0; 64; 128; 14] ++ [0; 0; 0; 0; 0] ++ repeat 0 170).
  rewrite (slice_mid [0; 0; 1; 184; 0; 0; 64; 128; 14] [0; 0; 0; 0; 0] (repeat 0 170) 9 14) by reflexivity.
  cbn [bind]. rewrite insert_pts_cons. cbn [bind]. rewrite app_nil_r.
  rewrite (blit_mid [0; 0; 1; 184; 0; 0; 64; 128; 14] [0; 0; 0; 0; 0] (repeat 0 170) (TsSpec.ts_bytes 2 pts) 9)
    by reflexivity.
  reflexivity. Qed.

Lemma lor16_bit4 x : N.testbit (N.lor x 16) 4 = true.
Proof. rewrite N.lor_spec. change (N.testbit 16 4) with true. apply orb_true_r. Qed.
Lemma lor16_bit5 x : N.testbit (N.lor x 16) 5 = N.testbit x 5.
Proof. rewrite N.lor_spec. change (N.testbit 16 5) with false. apply orb_false_r. Qed.
Lemma contains_payload_bit p : Pes.pkt_contains_payload p = N.testbit (nthN p 3) 4.
Proof. unfold Pes.pkt_contains_payload. change 16 with (2 ^ 4). apply mask_test. Qed.
Lemma contains_af_bit p : Pes.pkt_contains_af p = N.testbit (nthN p 3) 5.
Proof. unfold Pes.pkt_contains_af. change 32 with (2 ^ 5). apply mask_test. Qed.

Theorem with_pes_readback pkt pts : length pkt = 188%nat -> pts < 8589934592 ->
  Pes.pkt_payload_start pkt + 14 <= 188 ->
  exists pkt' pay h, Pes.with_pes pkt pts = Ok pkt' /\ length pkt' = 188%nat /\
    Pes.pkt_payload pkt' = Ok pay /\ (Pes.pkt_pusi pkt = true -> Pes.pkt_pes_header pkt' = Ok pay) /\
    Pes.new_pes_header pay = Ok h /\
    Pes.packetStartCodePrefix h = 1 /\ Pes.streamId h = 184 /\
    Pes.has_pts h = true /\ Pes.has_dts h = false /\ Pes.pts h = pts.
Proof. intros L Hpts Hroom. rewrite with_pes_shape. cbv zeta.
  set (start := Pes.pkt_payload_start pkt) in *.
  assert (Hs4: 4 <= start) by (unfold start, Pes.pkt_payload_start; destruct (Pes.pkt_contains_af pkt); lia).
  assert (Ll: len pkt = 188) by (unfold len; rewrite L; reflexivity).
  set (pre := firstn (N.to_nat start) pkt). set (post := skipn (N.to_nat start) pkt).
  assert (Epkt: pkt = pre ++ post) by (symmetry; apply firstn_skipn).
  assert (Lpre: len pre = start) by (unfold len, pre; rewrite firstn_length, L; lia).
  assert (Lpost: length post = (188 - N.to_nat start)%nat) by (unfold post; rewrite skipn_length, L; reflexivity).
  assert (Lpay: length (pes_pay pts) = 184%nat) by reflexivity.
  assert (Hp14: (14 <= length post)%nat) by (rewrite Lpost; clear - Hroom; lia).
  set (X := firstn (length post) (pes_pay pts)).
  assert (E1: blit pkt start (pes_pay pts) = pre ++ X).
  { rewrite Epkt at 1. apply blit_app; [symmetry; exact Lpre|rewrite Lpost, Lpay; lia]. }
  rewrite E1.
  assert (N3: nthN (pre ++ X) 3 = nthN pkt 3).
  { rewrite nthN_app_l by lia. rewrite Epkt. rewrite nthN_app_l by lia. reflexivity. }
  rewrite N3. rewrite upd_app_l by lia.
  set (v := N.lor (nthN pkt 3) 16). set (pre' := upd pre 3 v).
  assert (Lpre': len pre' = start) by (unfold pre'; rewrite len_upd; exact Lpre).
  assert (LX: length X = (188 - N.to_nat start)%nat) by (unfold X; rewrite firstn_length, Lpost, Lpay; lia).
  assert (Lp': length (pre' ++ X) = 188%nat) by (rewrite app_length, LX; unfold len in Lpre'; lia).
  assert (Llp': len (pre' ++ X) = 188) by (unfold len; rewrite Lp'; reflexivity).
  assert (V3: nthN (pre' ++ X) 3 = v) by (rewrite nthN_app_l by lia; unfold pre'; apply nthN_upd_same; lia).
  assert (AF: Pes.pkt_contains_af (pre' ++ X) = Pes.pkt_contains_af pkt).
  { rewrite !contains_af_bit, V3. unfold v. apply lor16_bit5. }
  assert (ST: Pes.pkt_payload_start (pre' ++ X) = start).
  { unfold start, Pes.pkt_payload_start. rewrite AF. destruct (Pes.pkt_contains_af pkt) eqn:A; [|reflexivity].
    f_equal. f_equal.
    assert (5 <= start) by (unfold start, Pes.pkt_payload_start; rewrite A; lia).
    rewrite nthN_app_l by lia. unfold pre'. rewrite nthN_upd_other by lia.
    transitivity (nthN (pre ++ post) 4); [symmetry; apply nthN_app_l; lia | rewrite <- Epkt; reflexivity]. }
  assert (PAY: Pes.pkt_payload (pre' ++ X) = Ok X).
  { unfold Pes.pkt_payload. rewrite contains_payload_bit, V3. unfold v. rewrite lor16_bit4. cbn [negb].
    rewrite ST, Llp'. destruct (N.ltb_spec 188 start); [lia|]. apply slice_from_app. symmetry. exact Lpre'. }
  (* the payload starts with the 14 header bytes *)
  assert (EX: exists Z, X = [0; 0; 1; 184; 0; 0; 64; 128; 14] ++ TsSpec.ser_ts 2 pts ++ Z).
  { unfold X, pes_pay. rewrite firstn_app. rewrite (firstn_all2 [0; 0; 1; 184; 0; 0; 64; 128; 14]) by (cbn [length]; lia).
    rewrite firstn_app. rewrite (firstn_all2 (TsSpec.ts_bytes 2 pts)) by (change (length (TsSpec.ts_bytes 2 pts)) with 5%nat; cbn [length]; lia).
    rewrite ser_ts_bytes by (assumption || lia). eexists. reflexivity. }
  destruct EX as [Z EX].
  pose proof (new_optional_gen 0 0 1 184 0 0 64 128 14 (TsSpec.ser_ts 2 pts ++ Z) eq_refl) as NH. cbv zeta in NH.
  change (N.shiftr (N.land 128 192) 6) with 2 in NH.
  change (0 :: 0 :: 1 :: 184 :: 0 :: 0 :: 64 :: 128 :: 14 :: TsSpec.ser_ts 2 pts ++ Z)
    with ([0; 0; 1; 184; 0; 0; 64; 128; 14] ++ TsSpec.ser_ts 2 pts ++ Z) in NH.
  rewrite <- EX in NH.
  assert (SP: stamps_part X 2 = Ok (pts, 0)) by (rewrite EX; apply stamps_pts_only_gen; (reflexivity || assumption || lia)).
  rewrite SP in NH. cbn [bind fst snd] in NH.
  assert (D: exists d, (if 9 + 14 <? len X then slice_from X (9 + 14) else Ok []) = Ok d).
  { destruct (N.ltb_spec (9 + 14) (len X)); [apply slice_from_ok; lia|eexists; reflexivity]. }
  destruct D as [d D]. rewrite D in NH. cbn [bind] in NH.
  exists (pre' ++ X), X. eexists. split; [reflexivity|]. split; [exact Lp'|]. split; [exact PAY|].
  split; [|split; [exact NH|repeat split; reflexivity]].
  intro PU. unfold Pes.pkt_pes_header.
  assert (PU': Pes.pkt_pusi (pre' ++ X) = true).
  { unfold Pes.pkt_pusi in *. rewrite nthN_app_l by lia. unfold pre'. rewrite nthN_upd_other by lia.
    rewrite Epkt in PU. rewrite nthN_app_l in PU by lia. exact PU. }
  rewrite PU', PAY. cbn [bind].
  assert (SC: (3 <? len X) && (nthN X 0 =? 0) && (nthN X 1 =? 0) && (nthN X 2 =? 1) = true).
  { apply start_code_test. rewrite EX. split; [rewrite len_app; change (len [0; 0; 1; 184; 0; 0; 64; 128; 14]) with 9; lia|reflexivity]. }
  rewrite SC. reflexivity. Qed.
