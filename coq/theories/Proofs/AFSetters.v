(* Every setter of Model/AF.v refines its meaning on the logical adaptation field (Spec/AFSpec.v). *)
From Gots Require Import Base.Prelude Model.Pcr Model.AF Spec.AFSpec Proofs.AFLists Proofs.AFRepr Proofs.PcrBytes.
Import AF.

(* canonical packet of a logical field *)
Definition stuff (l : laf) : bytes := repeatN 255 (l_len l - content_len l).
Definition cpk (h0 h1 h2 h3 : N) (l : laf) (pay : bytes) : bytes :=
  pk h0 h1 h2 h3 (l_len l) (flags l) (body l ++ stuff l ++ pay).

Lemma repr_cpk p l hdr pay : repr p l hdr pay ->
  exists h0 h1 h2 h3, hdr = [h0; h1; h2; h3] /\ p = cpk h0 h1 h2 h3 l pay /\ bit h3 32 = true /\
    len pay = 183 - l_len l.
Proof. intros (Hp & Hh & Hb & Hl & Hwf & Hf).
  destruct hdr as [|h0 [|h1 [|h2 [|h3 [|]]]]]; try discriminate.
  exists h0, h1, h2, h3. repeat split; [|exact Hb|].
  - rewrite Hp. unfold cpk, pk, ser_laf, stuff. cbn [app]. rewrite <- app_assoc. reflexivity.
  - rewrite Hp in Hl. unfold ser_laf in Hl. cbn [app length] in Hl. rewrite !app_length in Hl.
    unfold repeatN in Hl. rewrite repeat_length in Hl. unfold fits, content_len in Hf.
    destruct Hwf as (HL & _). unfold len in *. unfold content_len in Hl. unfold len in Hl. lia. Qed.

Lemma len_cpk h0 h1 h2 h3 l pay : fits l -> len (cpk h0 h1 h2 h3 l pay) = 5 + l_len l + len pay.
Proof. unfold fits, cpk, pk, stuff. intros H. rewrite !len_cons, !len_app, len_repeatN. unfold content_len in *. lia. Qed.

Lemma cpk_repr h0 h1 h2 h3 l pay : bit h3 32 = true -> wf_laf l -> fits l -> len pay = 183 - l_len l ->
  repr (cpk h0 h1 h2 h3 l pay) l [h0; h1; h2; h3] pay.
Proof. intros Hb Hwf Hf Hp. unfold repr. repeat split; try assumption; try apply Hwf.
  - unfold cpk, pk, ser_laf, stuff. cbn [app]. rewrite <- app_assoc. reflexivity.
  - pose proof (len_cpk h0 h1 h2 h3 l pay Hf) as E. destruct Hwf as (HL & _). unfold len in E. unfold len in Hp. lia. Qed.

(* outcome of one call, in canonical form *)
Definition ok_out (h0 h1 h2 h3 : N) (pay : bytes) (l : laf) (o : op) (r : Res bytes) : Prop :=
  match r with
  | Ok p' => exists l', op_rel l o (Done l') /\ p' = cpk h0 h1 h2 h3 l' pay /\ wf_laf l' /\ fits l' /\ l_len l' = l_len l
  | Err e => op_rel l o (Fail e)
  | _ => False
  end.

Lemma is_bytes_encv o : (match o with Some d => is_bytes d /\ len d < 256 | None => True end) -> is_bytes (encv o).
Proof. destruct o; cbn; [|constructor]. intros [H1 H2]. constructor; assumption. Qed.
Lemma is_bytes_enc6 n o : opt_bytes n o -> is_bytes (enc6 o).
Proof. destruct o; cbn; [|constructor]. intros [_ H]. exact H. Qed.

Lemma wf_body l : wf_laf l -> fits l -> is_bytes (body l).
Proof. intros (HL & Hp & Ho & Hs & Ht & He) Hf. unfold fits, content_len in Hf.
  assert (LB: len (body l) <= 182) by lia. unfold body in *. rewrite !len_app in LB.
  rewrite !is_bytes_app. repeat split.
  - eapply is_bytes_enc6; eassumption.
  - eapply is_bytes_enc6; eassumption.
  - destruct (l_splice l); cbn; constructor; [exact Hs|constructor].
  - apply is_bytes_encv. destruct (l_tpd l); [|exact I]. split; [exact Ht|]. cbn [encv] in LB. rewrite len_cons in LB. lia.
  - apply is_bytes_encv. destruct (l_ext l); [|exact I]. split; [exact He|]. cbn [encv] in LB. rewrite len_cons in LB. lia. Qed.

Lemma content_len_eq l : content_len l =
  1 + len (enc6 (l_pcr l)) + len (enc6 (l_opcr l)) + len (enc1 (l_splice l)) + len (encv (l_tpd l)) + len (encv (l_ext l)).
Proof. unfold content_len, body. rewrite !len_app. lia. Qed.

Lemma set_idx_at (A : bytes) x R i v : i = len A -> set_idx (A ++ x :: R) i v = Ok (A ++ v :: R).
Proof. intros ->. unfold set_idx. rewrite len_app, len_cons.
  replace (len A <? len A + (1 + len R)) with true by (symmetry; apply N.ltb_lt; lia).
  rewrite upd_at by reflexivity. reflexivity. Qed.
Lemma blit_full (x y : bytes) : len y = len x -> blit x 0 y = y.
Proof. intros H. pose proof (blit_mid [] x [] y 0 eq_refl H) as B. cbn [app] in B. rewrite !app_nil_r in B. exact B. Qed.

(* the common tail of SetTransportPrivateData / SetAdaptationFieldExtension *)
Definition set_var (q : bytes) (fstart flen : N) (data : bytes) : Res bytes :=
  let delta := (zlen data - (Z.of_N flen - 1))%Z in
  let start := fstart + 1 in
  let e := start + len data in
  let? p1 := resizeAF q start delta in
  let? _ := slice p1 start e in
  let p2 := blit p1 start data in
  set_idx p2 (start - 1) (w8 (len data)).

Section Setters.
Variables (h0 h1 h2 h3 : N) (l : laf) (pay : bytes).
Hypothesis Hwf : wf_laf l.
Hypothesis Hfits : fits l.
Hypothesis Hh3 : bit h3 32 = true.
Hypothesis Hpay : len pay = 183 - l_len l.
Notation L := (l_len l).
Notation St := (stuff l).
Notation p := (cpk h0 h1 h2 h3 l pay).
Notation Fp := (enc6 (l_pcr l)). Notation Fo := (enc6 (l_opcr l)). Notation Fs := (enc1 (l_splice l)).
Notation Ft := (encv (l_tpd l)). Notation Fe := (encv (l_ext l)).

Lemma HL : 1 <= L <= 183. Proof. apply Hwf. Qed.
Lemma Hroom : 6 + len (body l) <= 188.
Proof. pose proof HL. pose proof Hfits as F. unfold fits, content_len in F. lia. Qed.
Lemma Hpcr : opt_bytes 6 (l_pcr l). Proof. apply Hwf. Qed.
Lemma Hopcr : opt_bytes 6 (l_opcr l). Proof. apply Hwf. Qed.
Lemma len_St : len St = L - content_len l. Proof. apply len_repeatN. Qed.
Lemma valid_p : valid p = Ok tt.
Proof. apply valid_pk; [exact Hh3|]. pose proof HL. lia. Qed.
Lemma ss_p : stuffingStart p = 6 + len (body l).
Proof. apply stuffingStart_p; [apply Hpcr|apply Hopcr|apply Hroom]. Qed.
Lemma se_p : stuffingEnd p = L + 5.
Proof. apply stuffingEnd_p; [apply Hroom|]. pose proof HL. lia. Qed.
Lemma has_l : hasPCR p = isSome (l_pcr l) /\ hasOPCR p = isSome (l_opcr l) /\
  hasSplicingPoint p = isSome (l_splice l) /\ hasTransportPrivateData p = isSome (l_tpd l) /\
  hasAdaptationFieldExtension p = isSome (l_ext l) /\
  get_bit p 5 128 = l_disc l /\ get_bit p 5 64 = l_rai l /\ get_bit p 5 32 = l_prio l.
Proof. apply has_p. Qed.

(* grow by d at the field boundary after Pre *)
Lemma grow_at Pre Suf d' : body l = Pre ++ Suf ->
  resizeAF p (6 + len Pre) (Zpos d') =
    if L - content_len l <? Npos d' then Err E.AdaptationFieldCannotGrow
    else Ok (pk h0 h1 h2 h3 L (flags l) (Pre ++ takeN (Npos d') (Suf ++ St) ++ Suf ++ dropN (Npos d') St ++ pay)).
Proof. intros HB.
  rewrite (resize_grow p (H6 h0 h1 h2 h3 L (flags l) ++ Pre) Suf St pay).
  - rewrite len_St. destruct (L - content_len l <? N.pos d'); [reflexivity|].
    rewrite <- app_assoc. reflexivity.
  - unfold cpk. rewrite pk_H6, HB, <- !app_assoc. reflexivity.
  - rewrite len_app, len_H6. reflexivity.
  - rewrite ss_p, HB, !len_app, len_H6. lia.
  - rewrite se_p, len_St, !len_app, len_H6. pose proof Hfits as F. unfold fits, content_len in *.
    rewrite HB, len_app in *. lia.
  - pose proof Hroom as R. rewrite HB, !len_app in R. rewrite len_app, len_H6. lia. Qed.

Lemma shrink_at Pre D Suf d' : body l = Pre ++ D ++ Suf -> len D = Npos d' ->
  resizeAF p (6 + len Pre) (Zneg d') =
    Ok (pk h0 h1 h2 h3 L (flags l) (Pre ++ Suf ++ repeatN 255 (Npos d') ++ St ++ pay)).
Proof. intros HB HD.
  rewrite (resize_shrink p (H6 h0 h1 h2 h3 L (flags l) ++ Pre) D Suf (St ++ pay)).
  - rewrite <- app_assoc. reflexivity.
  - unfold cpk. rewrite pk_H6, HB, <- !app_assoc. reflexivity.
  - rewrite len_app, len_H6. reflexivity.
  - exact HD.
  - rewrite ss_p, HB, !len_app, len_H6. lia.
  - pose proof Hroom as R. rewrite HB, !len_app in R. rewrite len_app, len_H6. lia. Qed.

Lemma zero_at start : resizeAF p start 0 = Ok p.
Proof. apply resize_zero. rewrite ss_p. apply Hroom. Qed.

(* re-canonicalisation *)
Lemma recanon l' fl B k : l_len l' = L -> flags l' = fl -> body l' = B -> k = L - content_len l' ->
  pk h0 h1 h2 h3 L fl (B ++ repeatN 255 k ++ pay) = cpk h0 h1 h2 h3 l' pay.
Proof. intros <- <- <- ->. reflexivity. Qed.

Ltac fl8_at k v :=
  rewrite flags_fl8;
  let E := fresh "E" in
  pose proof (fl8_set (l_disc l) (l_rai l) (l_prio l) (isSome (l_pcr l)) (isSome (l_opcr l))
    (isSome (l_splice l)) (isSome (l_tpd l)) (isSome (l_ext l)) v) as E;
  match k with
  | 0%nat => destruct E as (E & _)
  | 1%nat => destruct E as (_ & E & _)
  | 2%nat => destruct E as (_ & _ & E & _)
  | 3%nat => destruct E as (_ & _ & _ & E & _)
  | 4%nat => destruct E as (_ & _ & _ & _ & E & _)
  | 5%nat => destruct E as (_ & _ & _ & _ & _ & E & _)
  | 6%nat => destruct E as (_ & _ & _ & _ & _ & _ & E & _)
  | 7%nat => destruct E as (_ & _ & _ & _ & _ & _ & _ & E)
  end; rewrite E; clear E.

Lemma rel_nojunk o out : junk_len o = 0%nat -> (forall s, o <> OSetAF s) -> out = spec_step l o [] -> op_rel l o out.
Proof. intros J NA ->. destruct o; try discriminate J;
  try (exists []; split; [symmetry; exact J|split; [constructor|reflexivity]]).
  exfalso. eapply NA. reflexivity. Qed.

Lemma rel_any o u out : length u = junk_len o -> is_bytes u -> (forall s, o <> OSetAF s) -> out = spec_step l o u -> op_rel l o out.
Proof. intros J B NA ->. destruct o; try (exists u; split; [exact J|split; [exact B|reflexivity]]).
  exfalso. eapply NA. reflexivity. Qed.

(* ---- the three indicator flags ---- *)
Lemma disc_ok v : ok_out h0 h1 h2 h3 pay l (OSetDisc v) (SetDiscontinuity p v).
Proof. unfold SetDiscontinuity, set_flag. rewrite valid_p. cbn [bind ok_out].
  exists (set_disc l v). split; [apply rel_nojunk; [reflexivity|discriminate|reflexivity]|].
  split; [|split; [exact Hwf|split; [exact Hfits|reflexivity]]].
  unfold cpk. rewrite set_bit_pk5. fl8_at 0%nat v. reflexivity. Qed.
Lemma rai_ok v : ok_out h0 h1 h2 h3 pay l (OSetRAI v) (SetRandomAccess p v).
Proof. unfold SetRandomAccess, set_flag. rewrite valid_p. cbn [bind ok_out].
  exists (set_rai l v). split; [apply rel_nojunk; [reflexivity|discriminate|reflexivity]|].
  split; [|split; [exact Hwf|split; [exact Hfits|reflexivity]]].
  unfold cpk. rewrite set_bit_pk5. fl8_at 1%nat v. reflexivity. Qed.
Lemma prio_ok v : ok_out h0 h1 h2 h3 pay l (OSetPrio v) (SetElementaryStreamPriority p v).
Proof. unfold SetElementaryStreamPriority, set_flag. rewrite valid_p. cbn [bind ok_out].
  exists (set_prio l v). split; [apply rel_nojunk; [reflexivity|discriminate|reflexivity]|].
  split; [|split; [exact Hwf|split; [exact Hfits|reflexivity]]].
  unfold cpk. rewrite set_bit_pk5. fl8_at 2%nat v. reflexivity. Qed.

(* ---- presence toggles of the fixed-size fields ---- *)
Lemma fitsb_true l' : fits l' -> fitsb l' = true.
Proof. unfold fits, fitsb. intros H. apply N.leb_le. exact H. Qed.
Lemma fitsb_false l' : l_len l' < content_len l' -> fitsb l' = false.
Proof. unfold fitsb. intros H. apply N.leb_gt. exact H. Qed.
Lemma is_bytes_St : is_bytes St. Proof. apply is_bytes_repeatN. Qed.
Lemma length_len {A} (x : list A) n : len x = N.of_nat n -> length x = n.
Proof. unfold len. lia. Qed.
Lemma zeros6 : length (repeat 0 6) = 6%nat /\ is_bytes (repeat 0 6).
Proof. split; [reflexivity|]. repeat constructor. Qed.

Lemma haspcr_ok v : ok_out h0 h1 h2 h3 pay l (OSetHasPCR v) (SetHasPCR p v).
Proof. unfold SetHasPCR. rewrite valid_p. cbn [bind].
  unfold bit_delta. destruct has_l as (HP & _). unfold hasPCR in HP. rewrite HP. clear HP.
  pose proof Hwf as (WL & WP & WO & WS & WT & WE). pose proof Hfits as F. unfold fits in F.
  destruct v, (l_pcr l) as [b|] eqn:E; cbn [isSome Bool.eqb].
  - (* already present *)
    change (6 * 0)%Z with 0%Z. rewrite zero_at. cbn [bind ok_out]. exists l.
    split; [exists (repeat 0 6); split; [reflexivity|split; [apply zeros6|]]; cbn [spec_step]; rewrite E; reflexivity|].
    split; [|split; [exact Hwf|split; [exact Hfits|reflexivity]]].
    unfold cpk at 1. rewrite set_bit_pk5. fl8_at 3%nat true.
    apply recanon; try reflexivity. rewrite flags_fl8, E. reflexivity.
  - (* grow *)
    change (6 * 1)%Z with (Zpos 6). change pcrStart with (6 + len (@nil N)).
    rewrite (grow_at [] (body l) 6 eq_refl).
    destruct (N.ltb_spec (L - content_len l) 6) as [T|T].
    + cbn [bind ok_out]. exists (repeat 0 6). split; [reflexivity|split; [apply zeros6|]].
      cbn [spec_step]. rewrite E. cbn [isSome]. unfold grow. rewrite fitsb_false; [reflexivity|].
      rewrite content_len_eq in T. rewrite content_len_eq.
      cbn [set_pcr l_pcr l_opcr l_splice l_tpd l_ext l_len enc6]. rewrite E in T. cbn [enc6] in T.
      rewrite len_nil in T. change (len (repeat 0 6)) with 6. lia.
    + cbn [bind ok_out]. set (u := takeN 6 (body l ++ St)).
      assert (Lu: len u = 6). { unfold u. apply len_takeN. rewrite len_app, len_St. lia. }
      assert (Bu: is_bytes u). { unfold u. apply is_bytes_takeN. apply is_bytes_app. split; [apply wf_body; assumption|apply is_bytes_St]. }
      assert (CL: content_len (set_pcr l (Some u)) = content_len l + 6).
      { rewrite !content_len_eq. cbn [set_pcr l_pcr l_opcr l_splice l_tpd l_ext enc6]. rewrite E. cbn [enc6].
        rewrite Lu, len_nil. lia. }
      assert (F': fits (set_pcr l (Some u))). { unfold fits. rewrite CL. cbn [set_pcr l_len]. lia. }
      exists (set_pcr l (Some u)).
      split; [exists u; split; [apply length_len; exact Lu|split; [exact Bu|]]; cbn [spec_step]; rewrite E; cbn [isSome];
              unfold grow; rewrite fitsb_true by exact F'; reflexivity|].
      split; [|split; [|split; [exact F'|reflexivity]]].
      * rewrite set_bit_pk5. fl8_at 3%nat true. cbn [app]. unfold stuff at 1. rewrite dropN_repeatN.
        unfold body at 1. rewrite E. cbn [enc6 app].
        replace (u ++ (Fo ++ Fs ++ Ft ++ Fe) ++ repeatN 255 (L - content_len l - 6) ++ pay)
          with ((u ++ Fo ++ Fs ++ Ft ++ Fe) ++ repeatN 255 (L - content_len l - 6) ++ pay)
          by (rewrite <- !app_assoc; reflexivity).
        apply recanon; try reflexivity. rewrite CL. cbn [set_pcr l_len]. lia.
      * unfold wf_laf. cbn [set_pcr l_pcr l_opcr l_splice l_tpd l_ext l_len opt_bytes].
        repeat split; try assumption; try lia. apply length_len. exact Lu.
  - (* shrink *)
    change (6 * -1)%Z with (Zneg 6). change pcrStart with (6 + len (@nil N)).
    destruct WP as [Lb Bb].
    rewrite (shrink_at [] b (Fo ++ Fs ++ Ft ++ Fe) 6).
    2:{ unfold body. rewrite E. reflexivity. }
    2:{ unfold len. rewrite Lb. reflexivity. }
    cbn [bind ok_out]. exists (set_pcr l None).
    assert (CL: content_len l = content_len (set_pcr l None) + 6).
    { rewrite !content_len_eq. cbn [set_pcr l_pcr l_opcr l_splice l_tpd l_ext enc6]. rewrite E. cbn [enc6].
      rewrite len_nil. unfold len at 1. rewrite Lb. lia. }
    assert (F': fits (set_pcr l None)). { unfold fits. cbn [set_pcr l_len]. lia. }
    split; [apply (rel_any _ (repeat 0 6)); [reflexivity|apply zeros6|discriminate|reflexivity]|].
    split; [|split; [|split; [exact F'|reflexivity]]].
    * rewrite set_bit_pk5. fl8_at 3%nat false. cbn [app]. unfold stuff.
      rewrite (app_assoc (repeatN 255 6)), <- repeatN_add.
      replace ((Fo ++ Fs ++ Ft ++ Fe) ++ repeatN 255 (6 + (L - content_len l)) ++ pay)
        with ((Fo ++ Fs ++ Ft ++ Fe) ++ repeatN 255 (6 + (L - content_len l)) ++ pay) by reflexivity.
      apply recanon; try reflexivity. cbn [set_pcr l_len]. lia.
    * unfold wf_laf. cbn [set_pcr l_pcr l_opcr l_splice l_tpd l_ext l_len opt_bytes]. repeat split; try assumption; lia.
  - (* already absent *)
    change (6 * 0)%Z with 0%Z. rewrite zero_at. cbn [bind ok_out]. exists l.
    assert (EL: set_pcr l None = l). { destruct l; cbn in *. rewrite E. reflexivity. }
    split; [apply (rel_any _ (repeat 0 6)); [reflexivity|apply zeros6|discriminate|cbn [spec_step]; rewrite EL; reflexivity]|].
    split; [|split; [exact Hwf|split; [exact Hfits|reflexivity]]].
    unfold cpk at 1. rewrite set_bit_pk5. fl8_at 3%nat false.
    apply recanon; try reflexivity. rewrite flags_fl8, E. reflexivity.
Qed.

Lemma os_p : opcrStart p = 6 + len Fp. Proof. apply opcrStart_p; first [apply Hpcr|apply Hopcr|apply Hroom]. Qed.
Lemma scs_p : spliceCountdownStart p = 6 + len Fp + len Fo. Proof. apply spliceStart_p; first [apply Hpcr|apply Hopcr|apply Hroom]. Qed.
Lemma tps_p : transportPrivateDataStart p = 6 + len Fp + len Fo + len Fs.
Proof. apply tpdStart_p; first [apply Hpcr|apply Hopcr|apply Hroom]. Qed.
Lemma tpl_p : transportPrivateDataLength p = len Ft. Proof. apply tpdLength_p; first [apply Hpcr|apply Hopcr|apply Hroom]. Qed.
Lemma exs_p : adaptationExtensionStart p = 6 + len Fp + len Fo + len Fs + len Ft.
Proof. apply extStart_p; first [apply Hpcr|apply Hopcr|apply Hroom]. Qed.
Lemma exl_p : adaptationExtensionLength p = len Fe. Proof. apply extLength_p; first [apply Hpcr|apply Hopcr|apply Hroom]. Qed.
Lemma bytes_suffix Pre Suf : body l = Pre ++ Suf -> is_bytes (Suf ++ St).
Proof. intros HB. pose proof (wf_body l Hwf Hfits) as B. rewrite HB in B. apply is_bytes_app in B.
  apply is_bytes_app. split; [apply B|apply is_bytes_St]. Qed.

Lemma hasopcr_ok v : ok_out h0 h1 h2 h3 pay l (OSetHasOPCR v) (SetHasOPCR p v).
Proof. unfold SetHasOPCR. rewrite valid_p. cbn [bind]. rewrite os_p.
  unfold bit_delta. destruct has_l as (_ & HP & _). unfold hasOPCR in HP. rewrite HP. clear HP.
  pose proof Hwf as (WL & WP & WO & WS & WT & WE). pose proof Hfits as F. unfold fits in F.
  destruct v, (l_opcr l) as [b|] eqn:E; cbn [isSome Bool.eqb].
  - change (6 * 0)%Z with 0%Z. rewrite zero_at. cbn [bind ok_out]. exists l.
    split; [exists (repeat 0 6); split; [reflexivity|split; [apply zeros6|]]; cbn [spec_step]; rewrite E; reflexivity|].
    split; [|split; [exact Hwf|split; [exact Hfits|reflexivity]]].
    unfold cpk at 1. rewrite set_bit_pk5. fl8_at 4%nat true.
    apply recanon; try reflexivity. rewrite flags_fl8, E. reflexivity.
  - change (6 * 1)%Z with (Zpos 6).
    assert (HB: body l = Fp ++ (Fs ++ Ft ++ Fe)) by (unfold body; rewrite E; reflexivity).
    rewrite (grow_at Fp (Fs ++ Ft ++ Fe) 6 HB).
    destruct (N.ltb_spec (L - content_len l) 6) as [T|T].
    + cbn [bind ok_out]. exists (repeat 0 6). split; [reflexivity|split; [apply zeros6|]].
      cbn [spec_step]. rewrite E. cbn [isSome]. unfold grow. rewrite fitsb_false; [reflexivity|].
      rewrite content_len_eq in T. rewrite content_len_eq.
      cbn [set_opcr l_pcr l_opcr l_splice l_tpd l_ext l_len enc6]. rewrite E in T. cbn [enc6] in T.
      rewrite len_nil in T. change (len (repeat 0 6)) with 6. lia.
    + cbn [bind ok_out]. set (u := takeN 6 ((Fs ++ Ft ++ Fe) ++ St)).
      assert (Lu: len u = 6).
      { unfold u. apply len_takeN. rewrite len_app, len_St. lia. }
      assert (Bu: is_bytes u). { unfold u. apply is_bytes_takeN. eapply bytes_suffix. exact HB. }
      assert (CL: content_len (set_opcr l (Some u)) = content_len l + 6).
      { rewrite !content_len_eq. cbn [set_opcr l_pcr l_opcr l_splice l_tpd l_ext enc6]. rewrite E. cbn [enc6].
        rewrite Lu, len_nil. lia. }
      assert (F': fits (set_opcr l (Some u))). { unfold fits. rewrite CL. cbn [set_opcr l_len]. lia. }
      exists (set_opcr l (Some u)).
      split; [exists u; split; [apply length_len; exact Lu|split; [exact Bu|]]; cbn [spec_step]; rewrite E; cbn [isSome];
              unfold grow; rewrite fitsb_true by exact F'; reflexivity|].
      split; [|split; [|split; [exact F'|reflexivity]]].
      * rewrite set_bit_pk5. fl8_at 4%nat true. unfold stuff at 1. rewrite dropN_repeatN.
        replace (Fp ++ u ++ (Fs ++ Ft ++ Fe) ++ repeatN 255 (L - content_len l - 6) ++ pay)
          with ((Fp ++ u ++ Fs ++ Ft ++ Fe) ++ repeatN 255 (L - content_len l - 6) ++ pay)
          by (rewrite <- !app_assoc; reflexivity).
        apply recanon; try reflexivity. rewrite CL. cbn [set_opcr l_len]. lia.
      * unfold wf_laf. cbn [set_opcr l_pcr l_opcr l_splice l_tpd l_ext l_len opt_bytes].
        repeat split; try assumption; try lia; try apply WP. apply length_len. exact Lu.
  - change (6 * -1)%Z with (Zneg 6).
    destruct WO as [Lb Bb].
    rewrite (shrink_at Fp b (Fs ++ Ft ++ Fe) 6).
    2:{ unfold body. rewrite E. reflexivity. }
    2:{ unfold len. rewrite Lb. reflexivity. }
    cbn [bind ok_out]. exists (set_opcr l None).
    assert (CL: content_len l = content_len (set_opcr l None) + 6).
    { rewrite !content_len_eq. cbn [set_opcr l_pcr l_opcr l_splice l_tpd l_ext enc6]. rewrite E. cbn [enc6].
      rewrite len_nil. unfold len at 2. rewrite Lb. lia. }
    assert (F': fits (set_opcr l None)). { unfold fits. cbn [set_opcr l_len]. lia. }
    split; [apply (rel_any _ (repeat 0 6)); [reflexivity|apply zeros6|discriminate|reflexivity]|].
    split; [|split; [|split; [exact F'|reflexivity]]].
    * rewrite set_bit_pk5. fl8_at 4%nat false. unfold stuff.
      rewrite (app_assoc (repeatN 255 6)), <- repeatN_add.
      replace (Fp ++ (Fs ++ Ft ++ Fe) ++ repeatN 255 (6 + (L - content_len l)) ++ pay)
        with ((Fp ++ [] ++ Fs ++ Ft ++ Fe) ++ repeatN 255 (6 + (L - content_len l)) ++ pay)
        by (cbn [app]; rewrite <- !app_assoc; reflexivity).
      apply recanon; try reflexivity. cbn [set_opcr l_len]. lia.
    * unfold wf_laf. cbn [set_opcr l_pcr l_opcr l_splice l_tpd l_ext l_len opt_bytes]. repeat split; try assumption; try lia; apply WP.
  - change (6 * 0)%Z with 0%Z. rewrite zero_at. cbn [bind ok_out]. exists l.
    assert (EL: set_opcr l None = l). { destruct l; cbn in *. rewrite E. reflexivity. }
    split; [apply (rel_any _ (repeat 0 6)); [reflexivity|apply zeros6|discriminate|cbn [spec_step]; rewrite EL; reflexivity]|].
    split; [|split; [exact Hwf|split; [exact Hfits|reflexivity]]].
    unfold cpk at 1. rewrite set_bit_pk5. fl8_at 4%nat false.
    apply recanon; try reflexivity. rewrite flags_fl8, E. reflexivity.
Qed.

Lemma one_elt (u : bytes) : len u = 1 -> u = [hd 0 u].
Proof. destruct u as [|x [|y t]]; unfold len; cbn; intros H; try lia. reflexivity. Qed.
Lemma zeros1 : length [0] = 1%nat /\ is_bytes [0].
Proof. split; [reflexivity|]. repeat constructor. Qed.

Lemma hassplice_ok v : ok_out h0 h1 h2 h3 pay l (OSetHasSplice v) (SetHasSplicingPoint p v).
Proof. unfold SetHasSplicingPoint. rewrite valid_p. cbn [bind]. rewrite scs_p.
  replace (6 + len Fp + len Fo) with (6 + len (Fp ++ Fo)) by (rewrite len_app; lia).
  unfold bit_delta. destruct has_l as (_ & _ & HP & _). unfold hasSplicingPoint in HP. rewrite HP. clear HP.
  pose proof Hwf as (WL & WP & WO & WS & WT & WE). pose proof Hfits as F. unfold fits in F.
  destruct v, (l_splice l) as [b|] eqn:E; cbn [isSome Bool.eqb].
  - change (1 * 0)%Z with 0%Z. rewrite zero_at. cbn [bind ok_out]. exists l.
    split; [exists [0]; split; [reflexivity|split; [apply zeros1|]]; cbn [spec_step]; rewrite E; reflexivity|].
    split; [|split; [exact Hwf|split; [exact Hfits|reflexivity]]].
    unfold cpk at 1. rewrite set_bit_pk5. fl8_at 5%nat true.
    apply recanon; try reflexivity. rewrite flags_fl8, E. reflexivity.
  - change (1 * 1)%Z with (Zpos 1).
    assert (HB: body l = (Fp ++ Fo) ++ (Ft ++ Fe)) by (unfold body; rewrite E; cbn [enc1 app]; rewrite app_assoc; reflexivity).
    rewrite (grow_at (Fp ++ Fo) (Ft ++ Fe) 1 HB).
    destruct (N.ltb_spec (L - content_len l) 1) as [T|T].
    + cbn [bind ok_out]. exists [0]. split; [reflexivity|split; [apply zeros1|]].
      cbn [spec_step]. rewrite E. cbn [isSome]. unfold grow. rewrite fitsb_false; [reflexivity|].
      rewrite content_len_eq in T. rewrite content_len_eq.
      cbn [set_splice l_pcr l_opcr l_splice l_tpd l_ext l_len enc1 hd]. rewrite E in T. cbn [enc1] in T.
      rewrite len_nil in T. change (len [0]) with 1. lia.
    + cbn [bind ok_out]. set (u := takeN 1 ((Ft ++ Fe) ++ St)).
      assert (Lu: len u = 1).
      { unfold u. apply len_takeN. rewrite len_app, len_St. lia. }
      assert (Bu: is_bytes u). { unfold u. apply is_bytes_takeN. eapply bytes_suffix. exact HB. }
      assert (Eu: exists x, u = [x]) by (eexists; apply one_elt; exact Lu).
      destruct Eu as [x Eu]. clearbody u. subst u.
      assert (CL: content_len (set_splice l (Some x)) = content_len l + 1).
      { rewrite !content_len_eq. cbn [set_splice l_pcr l_opcr l_splice l_tpd l_ext enc1]. rewrite E. cbn [enc1].
        rewrite len_nil. change (len [x]) with 1. lia. }
      assert (F': fits (set_splice l (Some x))). { unfold fits. rewrite CL. cbn [set_splice l_len]. lia. }
      exists (set_splice l (Some x)).
      split; [exists [x]; split; [reflexivity|split; [exact Bu|]]; cbn [spec_step]; rewrite E; cbn [isSome hd];
              unfold grow; rewrite fitsb_true by exact F'; reflexivity|].
      split; [|split; [|split; [exact F'|reflexivity]]].
      * rewrite set_bit_pk5. fl8_at 5%nat true. unfold stuff at 1. rewrite dropN_repeatN.
        replace ((Fp ++ Fo) ++ [x] ++ (Ft ++ Fe) ++ repeatN 255 (L - content_len l - 1) ++ pay)
          with ((Fp ++ Fo ++ [x] ++ Ft ++ Fe) ++ repeatN 255 (L - content_len l - 1) ++ pay)
          by (rewrite <- !app_assoc; reflexivity).
        apply recanon; try reflexivity. rewrite CL. cbn [set_splice l_len]. lia.
      * unfold wf_laf. cbn [set_splice l_pcr l_opcr l_splice l_tpd l_ext l_len opt_bytes].
        repeat split; try assumption; try lia; try apply WP; try apply WO.
        inversion Bu. assumption.
  - change (1 * -1)%Z with (Zneg 1).
    rewrite (shrink_at (Fp ++ Fo) [b] (Ft ++ Fe) 1).
    2:{ unfold body. rewrite E. cbn [enc1]. rewrite <- !app_assoc. reflexivity. }
    2:{ reflexivity. }
    cbn [bind ok_out]. exists (set_splice l None).
    assert (CL: content_len l = content_len (set_splice l None) + 1).
    { rewrite !content_len_eq. cbn [set_splice l_pcr l_opcr l_splice l_tpd l_ext enc1]. rewrite E. cbn [enc1].
      rewrite len_nil. change (len [b]) with 1. lia. }
    assert (F': fits (set_splice l None)). { unfold fits. cbn [set_splice l_len]. lia. }
    split; [apply (rel_any _ [0]); [reflexivity|apply zeros1|discriminate|reflexivity]|].
    split; [|split; [|split; [exact F'|reflexivity]]].
    * rewrite set_bit_pk5. fl8_at 5%nat false. unfold stuff.
      rewrite (app_assoc (repeatN 255 1)), <- repeatN_add.
      replace ((Fp ++ Fo) ++ (Ft ++ Fe) ++ repeatN 255 (1 + (L - content_len l)) ++ pay)
        with ((Fp ++ Fo ++ [] ++ Ft ++ Fe) ++ repeatN 255 (1 + (L - content_len l)) ++ pay)
        by (cbn [app]; rewrite <- !app_assoc; reflexivity).
      apply recanon; try reflexivity. cbn [set_splice l_len]. lia.
    * unfold wf_laf. cbn [set_splice l_pcr l_opcr l_splice l_tpd l_ext l_len opt_bytes].
      repeat split; try assumption; try lia; try apply WP; try apply WO.
  - change (1 * 0)%Z with 0%Z. rewrite zero_at. cbn [bind ok_out]. exists l.
    assert (EL: set_splice l None = l). { destruct l; cbn in *. rewrite E. reflexivity. }
    split; [apply (rel_any _ [0]); [reflexivity|apply zeros1|discriminate|cbn [spec_step]; rewrite EL; reflexivity]|].
    split; [|split; [exact Hwf|split; [exact Hfits|reflexivity]]].
    unfold cpk at 1. rewrite set_bit_pk5. fl8_at 5%nat false.
    apply recanon; try reflexivity. rewrite flags_fl8, E. reflexivity.
Qed.

(* ---- variable-size fields ---- *)
Lemma shrink_at' Pre D Suf delta : body l = Pre ++ D ++ Suf -> 0 < len D -> delta = (- Z.of_N (len D))%Z ->
  resizeAF p (6 + len Pre) delta =
    Ok (pk h0 h1 h2 h3 L (flags l) (Pre ++ Suf ++ repeatN 255 (len D) ++ St ++ pay)).
Proof. intros HB HD ->. destruct (len D) as [|q] eqn:EQ; [lia|]. cbn [Z.of_N Z.opp].
  exact (shrink_at Pre D Suf q HB EQ). Qed.
Lemma grow_at' Pre Suf d delta : body l = Pre ++ Suf -> 0 < d -> delta = Z.of_N d ->
  resizeAF p (6 + len Pre) delta =
    if L - content_len l <? d then Err E.AdaptationFieldCannotGrow
    else Ok (pk h0 h1 h2 h3 L (flags l) (Pre ++ takeN d (Suf ++ St) ++ Suf ++ dropN d St ++ pay)).
Proof. intros HB HD ->. destruct d as [|q]; [lia|]. cbn [Z.of_N]. apply grow_at; assumption. Qed.

Lemma tps_indep fl r1 r2 : transportPrivateDataStart (pk h0 h1 h2 h3 L fl r1) = transportPrivateDataStart (pk h0 h1 h2 h3 L fl r2).
Proof. reflexivity. Qed.

Lemma hastpd_ok v : ok_out h0 h1 h2 h3 pay l (OSetHasTPD v) (SetHasTransportPrivateData p v).
Proof. unfold SetHasTransportPrivateData. rewrite valid_p. cbn [bind]. rewrite tps_p, tpl_p.
  replace (6 + len Fp + len Fo + len Fs) with (6 + len (Fp ++ Fo ++ Fs)) by (rewrite !len_app; lia).
  unfold bit_delta. destruct has_l as (_ & _ & _ & HP & _). unfold hasTransportPrivateData in HP. rewrite HP. clear HP.
  pose proof Hwf as (WL & WP & WO & WS & WT & WE). pose proof Hfits as F. unfold fits in F.
  destruct v, (l_tpd l) as [d|] eqn:E; cbn [isSome Bool.eqb].
  - change (1 * 0)%Z with 0%Z. cbn [Z.ltb Z.compare]. rewrite zero_at. cbn [bind ok_out]. exists l.
    split; [apply rel_nojunk; [reflexivity|discriminate|cbn [spec_step]; rewrite E; reflexivity]|].
    split; [|split; [exact Hwf|split; [exact Hfits|reflexivity]]].
    unfold cpk at 1. rewrite set_bit_pk5. fl8_at 6%nat true.
    apply recanon; try reflexivity. rewrite flags_fl8, E. reflexivity.
  - change (1 * 1)%Z with 1%Z. cbn [Z.ltb Z.compare].
    assert (HB: body l = (Fp ++ Fo ++ Fs) ++ Fe) by (unfold body; rewrite E; cbn [encv app]; rewrite <- !app_assoc; reflexivity).
    rewrite (grow_at (Fp ++ Fo ++ Fs) Fe 1 HB).
    assert (CL: content_len (set_tpd l (Some [])) = content_len l + 1).
    { rewrite !content_len_eq. cbn [set_tpd l_pcr l_opcr l_splice l_tpd l_ext encv]. rewrite E. cbn [encv].
      rewrite ?len_cons, ?len_nil. lia. }
    destruct (N.ltb_spec (L - content_len l) 1) as [T|T].
    + cbn [bind ok_out]. apply rel_nojunk; [reflexivity|discriminate|].
      cbn [spec_step]. rewrite E. cbn [isSome]. unfold grow. rewrite fitsb_false; [reflexivity|].
      rewrite CL. cbn [set_tpd l_len]. lia.
    + cbn [bind ok_out]. set (u := takeN 1 (Fe ++ St)).
      assert (Lu: len u = 1). { unfold u. apply len_takeN. rewrite len_app, len_St. lia. }
      assert (Eu: exists x, u = [x]) by (eexists; apply one_elt; exact Lu).
      destruct Eu as [x Eu]. clearbody u. subst u.
      assert (F': fits (set_tpd l (Some []))). { unfold fits. rewrite CL. cbn [set_tpd l_len]. lia. }
      exists (set_tpd l (Some [])).
      split; [apply rel_nojunk; [reflexivity|discriminate|]; cbn [spec_step]; rewrite E; cbn [isSome];
              unfold grow; rewrite fitsb_true by exact F'; reflexivity|].
      split; [|split; [|split; [exact F'|reflexivity]]].
      * rewrite (tps_indep _ _ (body l ++ St ++ pay)). fold (cpk h0 h1 h2 h3 l pay). rewrite tps_p.
        rewrite pk_H6.
        replace (H6 h0 h1 h2 h3 L (flags l) ++ (Fp ++ Fo ++ Fs) ++ [x] ++ Fe ++ dropN 1 St ++ pay)
          with ((H6 h0 h1 h2 h3 L (flags l) ++ Fp ++ Fo ++ Fs) ++ x :: (Fe ++ dropN 1 St ++ pay))
          by (rewrite <- !app_assoc; reflexivity).
        rewrite upd_at by (rewrite !len_app, len_H6; lia).
        replace ((H6 h0 h1 h2 h3 L (flags l) ++ Fp ++ Fo ++ Fs) ++ 0 :: Fe ++ dropN 1 St ++ pay)
          with (pk h0 h1 h2 h3 L (flags l) ((Fp ++ Fo ++ Fs ++ [0] ++ Fe) ++ dropN 1 St ++ pay))
          by (rewrite pk_H6, <- !app_assoc; reflexivity).
        rewrite set_bit_pk5. fl8_at 6%nat true. unfold stuff at 1. rewrite dropN_repeatN.
        apply recanon; try reflexivity. rewrite CL. cbn [set_tpd l_len]. lia.
      * unfold wf_laf. cbn [set_tpd l_pcr l_opcr l_splice l_tpd l_ext l_len opt_bytes].
        repeat split; try assumption; try lia; try apply WP; try apply WO. constructor.
  - change (1 * -1)%Z with (-1)%Z. cbn [Z.ltb Z.compare]. cbn [encv].
    assert (LD: 0 < len (len d :: d)) by (rewrite len_cons; lia).
    rewrite (shrink_at' (Fp ++ Fo ++ Fs) (len d :: d) Fe).
    2:{ unfold body. rewrite E. cbn [encv]. rewrite <- !app_assoc. reflexivity. }
    2:{ exact LD. }
    2:{ reflexivity. }
    replace (0 <? - Z.of_N (len (len d :: d)))%Z with false by (symmetry; apply Z.ltb_ge; lia).
    cbn [bind ok_out]. exists (set_tpd l None).
    assert (CL: content_len l = content_len (set_tpd l None) + len (len d :: d)).
    { rewrite !content_len_eq. cbn [set_tpd l_pcr l_opcr l_splice l_tpd l_ext encv]. rewrite E. cbn [encv].
      rewrite len_nil. lia. }
    assert (F': fits (set_tpd l None)). { unfold fits. cbn [set_tpd l_len]. lia. }
    split; [apply rel_nojunk; [reflexivity|discriminate|reflexivity]|].
    split; [|split; [|split; [exact F'|reflexivity]]].
    * rewrite set_bit_pk5. fl8_at 6%nat false. unfold stuff.
      rewrite (app_assoc (repeatN 255 _)), <- repeatN_add.
      replace ((Fp ++ Fo ++ Fs) ++ Fe ++ repeatN 255 (len (len d :: d) + (L - content_len l)) ++ pay)
        with ((Fp ++ Fo ++ Fs ++ [] ++ Fe) ++ repeatN 255 (len (len d :: d) + (L - content_len l)) ++ pay)
        by (cbn [app]; rewrite <- !app_assoc; reflexivity).
      apply recanon; try reflexivity. cbn [set_tpd l_len]. lia.
    * unfold wf_laf. cbn [set_tpd l_pcr l_opcr l_splice l_tpd l_ext l_len opt_bytes].
      repeat split; try assumption; try lia; try apply WP; try apply WO.
  - change (1 * 0)%Z with 0%Z. cbn [Z.ltb Z.compare]. rewrite zero_at. cbn [bind ok_out]. exists l.
    assert (EL: set_tpd l None = l). { destruct l; cbn in *. rewrite E. reflexivity. }
    split; [apply rel_nojunk; [reflexivity|discriminate|cbn [spec_step]; rewrite EL; reflexivity]|].
    split; [|split; [exact Hwf|split; [exact Hfits|reflexivity]]].
    unfold cpk at 1. rewrite set_bit_pk5. fl8_at 6%nat false.
    apply recanon; try reflexivity. rewrite flags_fl8, E. reflexivity.
Qed.

Lemma len_pk fl rest : len (pk h0 h1 h2 h3 L fl rest) = 6 + len rest.
Proof. unfold pk. rewrite !len_cons. lia. Qed.

Lemma hasext_ok v : ok_out h0 h1 h2 h3 pay l (OSetHasExt v) (SetHasAdaptationFieldExtension p v).
Proof. unfold SetHasAdaptationFieldExtension. rewrite valid_p. cbn [bind]. rewrite exs_p, exl_p.
  replace (6 + len Fp + len Fo + len Fs + len Ft) with (6 + len (Fp ++ Fo ++ Fs ++ Ft)) by (rewrite !len_app; lia).
  unfold bit_delta. destruct has_l as (_ & _ & _ & _ & HP & _). unfold hasAdaptationFieldExtension in HP. rewrite HP. clear HP.
  pose proof Hwf as (WL & WP & WO & WS & WT & WE). pose proof Hfits as F. unfold fits in F.
  destruct v, (l_ext l) as [d|] eqn:E; cbn [isSome Bool.eqb].
  - change (1 * 0)%Z with 0%Z. cbn [Z.ltb Z.compare]. rewrite zero_at. cbn [bind ok_out]. exists l.
    split; [apply rel_nojunk; [reflexivity|discriminate|cbn [spec_step]; rewrite E; reflexivity]|].
    split; [|split; [exact Hwf|split; [exact Hfits|reflexivity]]].
    unfold cpk at 1. rewrite set_bit_pk5. fl8_at 7%nat true.
    apply recanon; try reflexivity. rewrite flags_fl8, E. reflexivity.
  - change (1 * 1)%Z with 1%Z. cbn [Z.ltb Z.compare].
    assert (HB: body l = (Fp ++ Fo ++ Fs ++ Ft) ++ []) by (unfold body; rewrite E; cbn [encv]; rewrite <- !app_assoc; reflexivity).
    rewrite (grow_at (Fp ++ Fo ++ Fs ++ Ft) [] 1 HB).
    assert (CL: content_len (set_ext l (Some [])) = content_len l + 1).
    { rewrite !content_len_eq. cbn [set_ext l_pcr l_opcr l_splice l_tpd l_ext encv]. rewrite E. cbn [encv].
      rewrite ?len_cons, ?len_nil. lia. }
    destruct (N.ltb_spec (L - content_len l) 1) as [T|T].
    + cbn [bind ok_out]. apply rel_nojunk; [reflexivity|discriminate|].
      cbn [spec_step]. rewrite E. cbn [isSome]. unfold grow. rewrite fitsb_false; [reflexivity|].
      rewrite CL. cbn [set_ext l_len]. lia.
    + cbn [bind app]. set (u := takeN 1 St).
      assert (Lu: len u = 1). { unfold u. apply len_takeN. rewrite len_St. lia. }
      assert (Eu: exists x, u = [x]) by (eexists; apply one_elt; exact Lu).
      destruct Eu as [x Eu]. clearbody u. subst u.
      assert (F': fits (set_ext l (Some []))). { unfold fits. rewrite CL. cbn [set_ext l_len]. lia. }
      replace ((Fp ++ Fo ++ Fs ++ Ft) ++ [x] ++ dropN 1 St ++ pay) with (body l ++ ([x] ++ dropN 1 St ++ pay))
        by (rewrite HB, <- !app_assoc; reflexivity).
      rewrite (extStart_p h0 h1 h2 h3 l ([x] ++ dropN 1 St ++ pay) Hpcr Hopcr) by apply Hroom.
      unfold set_idx. rewrite len_pk, !len_app, len_dropN, len_St.
      replace (6 + len Fp + len Fo + len Fs + len Ft <? 6 + (len (body l) + (len [x] + (L - content_len l - 1 + len pay)))) with true.
      2:{ symmetry. apply N.ltb_lt. rewrite HB, !len_app. change (len [x]) with 1. lia. }
      cbn [bind ok_out].
      exists (set_ext l (Some [])).
      split; [apply rel_nojunk; [reflexivity|discriminate|]; cbn [spec_step]; rewrite E; cbn [isSome];
              unfold grow; rewrite fitsb_true by exact F'; reflexivity|].
      split; [|split; [|split; [exact F'|reflexivity]]].
      * rewrite pk_H6, HB.
        replace (H6 h0 h1 h2 h3 L (flags l) ++ ((Fp ++ Fo ++ Fs ++ Ft) ++ []) ++ [x] ++ dropN 1 St ++ pay)
          with ((H6 h0 h1 h2 h3 L (flags l) ++ Fp ++ Fo ++ Fs ++ Ft) ++ x :: (dropN 1 St ++ pay))
          by (rewrite <- !app_assoc; reflexivity).
        rewrite upd_at by (rewrite !len_app, len_H6; lia).
        replace ((H6 h0 h1 h2 h3 L (flags l) ++ Fp ++ Fo ++ Fs ++ Ft) ++ 0 :: dropN 1 St ++ pay)
          with (pk h0 h1 h2 h3 L (flags l) ((Fp ++ Fo ++ Fs ++ Ft ++ [0]) ++ dropN 1 St ++ pay))
          by (rewrite pk_H6, <- !app_assoc; reflexivity).
        rewrite set_bit_pk5. fl8_at 7%nat true. unfold stuff at 1. rewrite dropN_repeatN.
        apply recanon; try reflexivity. rewrite CL. cbn [set_ext l_len]. lia.
      * unfold wf_laf. cbn [set_ext l_pcr l_opcr l_splice l_tpd l_ext l_len opt_bytes].
        repeat split; try assumption; try lia; try apply WP; try apply WO. constructor.
  - change (1 * -1)%Z with (-1)%Z. cbn [Z.ltb Z.compare]. cbn [encv].
    assert (LD: 0 < len (len d :: d)) by (rewrite len_cons; lia).
    rewrite (shrink_at' (Fp ++ Fo ++ Fs ++ Ft) (len d :: d) []).
    2:{ unfold body. rewrite E. cbn [encv]. rewrite <- !app_assoc, app_nil_r. reflexivity. }
    2:{ exact LD. }
    2:{ reflexivity. }
    replace (0 <? - Z.of_N (len (len d :: d)))%Z with false by (symmetry; apply Z.ltb_ge; lia).
    cbn [bind ok_out]. exists (set_ext l None).
    assert (CL: content_len l = content_len (set_ext l None) + len (len d :: d)).
    { rewrite !content_len_eq. cbn [set_ext l_pcr l_opcr l_splice l_tpd l_ext encv]. rewrite E. cbn [encv].
      rewrite len_nil. lia. }
    assert (F': fits (set_ext l None)). { unfold fits. cbn [set_ext l_len]. lia. }
    split; [apply rel_nojunk; [reflexivity|discriminate|reflexivity]|].
    split; [|split; [|split; [exact F'|reflexivity]]].
    * rewrite set_bit_pk5. fl8_at 7%nat false. unfold stuff. cbn [app].
      rewrite (app_assoc (repeatN 255 _)), <- repeatN_add.
      replace ((Fp ++ Fo ++ Fs ++ Ft) ++ repeatN 255 (len (len d :: d) + (L - content_len l)) ++ pay)
        with ((Fp ++ Fo ++ Fs ++ Ft ++ []) ++ repeatN 255 (len (len d :: d) + (L - content_len l)) ++ pay)
        by (rewrite <- !app_assoc; reflexivity).
      apply recanon; try reflexivity. cbn [set_ext l_len]. lia.
    * unfold wf_laf. cbn [set_ext l_pcr l_opcr l_splice l_tpd l_ext l_len opt_bytes].
      repeat split; try assumption; try lia; try apply WP; try apply WO.
  - change (1 * 0)%Z with 0%Z. cbn [Z.ltb Z.compare]. rewrite zero_at. cbn [bind ok_out]. exists l.
    assert (EL: set_ext l None = l). { destruct l; cbn in *. rewrite E. reflexivity. }
    split; [apply rel_nojunk; [reflexivity|discriminate|cbn [spec_step]; rewrite EL; reflexivity]|].
    split; [|split; [exact Hwf|split; [exact Hfits|reflexivity]]].
    unfold cpk at 1. rewrite set_bit_pk5. fl8_at 7%nat false.
    apply recanon; try reflexivity. rewrite flags_fl8, E. reflexivity.
Qed.

(* ---- value setters ---- *)
Lemma setsplice_ok v : v < 256 -> ok_out h0 h1 h2 h3 pay l (OSetSplice v) (SetSpliceCountdown p v).
Proof. intros Hv. unfold SetSpliceCountdown. rewrite valid_p. cbn [bind].
  destruct has_l as (_ & _ & HP & _). rewrite HP. clear HP.
  pose proof Hwf as (WL & WP & WO & WS & WT & WE).
  destruct (l_splice l) as [b|] eqn:E; cbn [isSome negb].
  - rewrite scs_p. cbn [ok_out]. exists (set_splice l (Some v)).
    split; [apply rel_nojunk; [reflexivity|discriminate|cbn [spec_step]; rewrite E; reflexivity]|].
    split; [|split; [|split; [|reflexivity]]].
    + unfold cpk at 1. rewrite pk_H6. unfold body. rewrite E. cbn [enc1].
      replace (H6 h0 h1 h2 h3 L (flags l) ++ (Fp ++ Fo ++ [b] ++ Ft ++ Fe) ++ St ++ pay)
        with ((H6 h0 h1 h2 h3 L (flags l) ++ Fp ++ Fo) ++ b :: (Ft ++ Fe ++ St ++ pay))
        by (rewrite <- !app_assoc; reflexivity).
      rewrite upd_at by (rewrite !len_app, len_H6; lia).
      replace ((H6 h0 h1 h2 h3 L (flags l) ++ Fp ++ Fo) ++ v :: Ft ++ Fe ++ St ++ pay)
        with (pk h0 h1 h2 h3 L (flags l) ((Fp ++ Fo ++ [v] ++ Ft ++ Fe) ++ St ++ pay))
        by (rewrite pk_H6, <- !app_assoc; reflexivity).
      apply recanon; try reflexivity.
      * rewrite !flags_fl8. cbn [set_splice l_disc l_rai l_prio l_pcr l_opcr l_splice l_tpd l_ext]. rewrite E. reflexivity.
      * rewrite !content_len_eq. cbn [set_splice l_pcr l_opcr l_splice l_tpd l_ext l_len]. rewrite E. reflexivity.
    + unfold wf_laf. cbn [set_splice l_pcr l_opcr l_splice l_tpd l_ext l_len]. repeat split; try assumption; try lia; try apply WP; try apply WO.
    + pose proof Hfits as F. unfold fits in *. rewrite content_len_eq in *.
      cbn [set_splice l_pcr l_opcr l_splice l_tpd l_ext l_len]. rewrite E in F. exact F.
  - cbn [ok_out]. apply rel_nojunk; [reflexivity|discriminate|cbn [spec_step]; rewrite E; reflexivity].
Qed.

Lemma insert_pcr6 b v : length b = 6%nat -> Pcr.insert_pcr b v = Ok (Pcr.pcr6 v).
Proof. intros H. unfold Pcr.insert_pcr. unfold len. rewrite H. cbn [N.of_nat]. 
  change (N.pos (Pos.of_succ_nat 5) <? 6) with false. cbv iota. f_equal. apply blit_full. unfold len. rewrite H. reflexivity. Qed.

Lemma setpcr_ok v : v < PcrMax -> ok_out h0 h1 h2 h3 pay l (OSetPCR v) (SetPCR p v).
Proof. intros Hv. unfold SetPCR. rewrite valid_p. cbn [bind].
  destruct has_l as (HP & _). rewrite HP. clear HP.
  pose proof Hwf as (WL & WP & WO & WS & WT & WE).
  destruct (l_pcr l) as [b|] eqn:E; cbn [isSome negb].
  - destruct WP as [Lb Bb]. assert (Lb6: len b = 6) by (unfold len; rewrite Lb; reflexivity).
    assert (Le6: len (pcr_enc v) = 6) by reflexivity. rewrite os_p, E. cbn [enc6]. unfold pcrStart.
    assert (Ep: p = H6 h0 h1 h2 h3 L (flags l) ++ b ++ ((Fo ++ Fs ++ Ft ++ Fe) ++ St ++ pay)).
    { unfold cpk. rewrite pk_H6. unfold body. rewrite E. cbn [enc6]. rewrite <- !app_assoc. reflexivity. }
    rewrite Ep at 1. rewrite (slice_mid _ b) by (rewrite ?len_H6; reflexivity). cbn [bind].
    rewrite insert_pcr6 by exact Lb. cbn [bind ok_out]. rewrite pcr6_enc by exact Hv.
    exists (set_pcr l (Some (pcr_enc v))).
    split; [apply (rel_any _ []); [reflexivity|constructor|discriminate|cbn [spec_step]; rewrite E; reflexivity]|].
    split; [|split; [|split; [|reflexivity]]].
    + rewrite Ep. rewrite (blit_mid _ b _ (pcr_enc v)) by (rewrite ?len_H6; try reflexivity; unfold len; rewrite Lb; reflexivity).
      rewrite <- pk_H6. rewrite (app_assoc (pcr_enc v)).
      replace (pcr_enc v ++ Fo ++ Fs ++ Ft ++ Fe) with (body (set_pcr l (Some (pcr_enc v)))) by reflexivity.
      apply recanon; try reflexivity.
      * rewrite !flags_fl8. cbn [set_pcr l_disc l_rai l_prio l_pcr l_opcr l_splice l_tpd l_ext]. rewrite E. reflexivity.
      * rewrite !content_len_eq. cbn [set_pcr l_pcr l_opcr l_splice l_tpd l_ext l_len enc6]. rewrite E. cbn [enc6].
        rewrite Lb6, Le6. reflexivity.
    + unfold wf_laf. cbn [set_pcr l_pcr l_opcr l_splice l_tpd l_ext l_len opt_bytes].
      repeat split; try assumption; try lia; try apply WO. apply is_bytes_pcr_enc.
    + pose proof Hfits as F. unfold fits in *. rewrite content_len_eq in *.
      cbn [set_pcr l_pcr l_opcr l_splice l_tpd l_ext l_len enc6]. rewrite E in F. cbn [enc6] in F.
      rewrite Lb6 in F. rewrite Le6. exact F.
  - cbn [ok_out]. apply (rel_any _ []); [reflexivity|constructor|discriminate|cbn [spec_step]; rewrite E; reflexivity].
Qed.

Lemma setopcr_ok v : v < PcrMax -> ok_out h0 h1 h2 h3 pay l (OSetOPCR v) (SetOPCR p v).
Proof. intros Hv. unfold SetOPCR. rewrite valid_p. cbn [bind].
  destruct has_l as (_ & HP & _). rewrite HP. clear HP.
  pose proof Hwf as (WL & WP & WO & WS & WT & WE).
  destruct (l_opcr l) as [b|] eqn:E; cbn [isSome negb].
  - destruct WO as [Lb Bb]. assert (Lb6: len b = 6) by (unfold len; rewrite Lb; reflexivity).
    assert (Le6: len (pcr_enc v) = 6) by reflexivity. rewrite os_p, scs_p, E. cbn [enc6].
    assert (Ep: p = (H6 h0 h1 h2 h3 L (flags l) ++ Fp) ++ b ++ ((Fs ++ Ft ++ Fe) ++ St ++ pay)).
    { unfold cpk. rewrite pk_H6. unfold body. rewrite E. cbn [enc6]. rewrite <- !app_assoc. reflexivity. }
    rewrite Ep at 1. rewrite (slice_mid _ b) by (rewrite ?len_app, ?len_H6; lia). cbn [bind].
    rewrite insert_pcr6 by exact Lb. cbn [bind ok_out]. rewrite pcr6_enc by exact Hv.
    exists (set_opcr l (Some (pcr_enc v))).
    split; [apply (rel_any _ []); [reflexivity|constructor|discriminate|cbn [spec_step]; rewrite E; reflexivity]|].
    split; [|split; [|split; [|reflexivity]]].
    + rewrite Ep. rewrite (blit_mid _ b _ (pcr_enc v)) by (rewrite ?len_app, ?len_H6; try lia; unfold len; rewrite Lb; reflexivity).
      replace ((H6 h0 h1 h2 h3 L (flags l) ++ Fp) ++ pcr_enc v ++ (Fs ++ Ft ++ Fe) ++ St ++ pay)
        with (pk h0 h1 h2 h3 L (flags l) ((Fp ++ pcr_enc v ++ Fs ++ Ft ++ Fe) ++ St ++ pay))
        by (rewrite pk_H6, <- !app_assoc; reflexivity).
      apply recanon; try reflexivity.
      * rewrite !flags_fl8. cbn [set_opcr l_disc l_rai l_prio l_pcr l_opcr l_splice l_tpd l_ext]. rewrite E. reflexivity.
      * rewrite !content_len_eq. cbn [set_opcr l_pcr l_opcr l_splice l_tpd l_ext l_len enc6]. rewrite E. cbn [enc6].
        rewrite Lb6, Le6. reflexivity.
    + unfold wf_laf. cbn [set_opcr l_pcr l_opcr l_splice l_tpd l_ext l_len opt_bytes].
      repeat split; try assumption; try lia; try apply WP. apply is_bytes_pcr_enc.
    + pose proof Hfits as F. unfold fits in *. rewrite content_len_eq in *.
      cbn [set_opcr l_pcr l_opcr l_splice l_tpd l_ext l_len enc6]. rewrite E in F. cbn [enc6] in F.
      rewrite Lb6 in F. rewrite Le6. exact F.
  - cbn [ok_out]. apply (rel_any _ []); [reflexivity|constructor|discriminate|cbn [spec_step]; rewrite E; reflexivity].
Qed.

Lemma var_tail Pre0 oldlen X R data : len X = len data -> len data < 256 ->
  (let? _ := slice (pk h0 h1 h2 h3 L (flags l) (Pre0 ++ [oldlen] ++ X ++ R)) (6 + len Pre0 + 1) (6 + len Pre0 + 1 + len data) in
   set_idx (blit (pk h0 h1 h2 h3 L (flags l) (Pre0 ++ [oldlen] ++ X ++ R)) (6 + len Pre0 + 1) data)
           (6 + len Pre0 + 1 - 1) (w8 (len data)))
  = Ok (pk h0 h1 h2 h3 L (flags l) (Pre0 ++ (len data :: data) ++ R)).
Proof. intros HX Hd.
  assert (E1: pk h0 h1 h2 h3 L (flags l) (Pre0 ++ [oldlen] ++ X ++ R) =
              (H6 h0 h1 h2 h3 L (flags l) ++ Pre0 ++ [oldlen]) ++ X ++ R)
    by (rewrite pk_H6, <- !app_assoc; reflexivity).
  rewrite E1. rewrite (slice_mid _ X R) by (rewrite ?len_app, ?len_H6; change (len [oldlen]) with 1; lia).
  cbn [bind]. rewrite (blit_mid _ X R data) by (rewrite ?len_app, ?len_H6; change (len [oldlen]) with 1; lia).
  replace ((H6 h0 h1 h2 h3 L (flags l) ++ Pre0 ++ [oldlen]) ++ data ++ R)
    with ((H6 h0 h1 h2 h3 L (flags l) ++ Pre0) ++ oldlen :: (data ++ R)) by (rewrite <- !app_assoc; reflexivity).
  rewrite set_idx_at by (rewrite len_app, len_H6; lia).
  unfold w8. rewrite N.mod_small by exact Hd. rewrite pk_H6, <- !app_assoc. reflexivity. Qed.

Lemma set_var_p Pre0 old Post data :
  body l = Pre0 ++ (len old :: old) ++ Post -> (len data <= L - content_len l + len old -> len data < 256) ->
  set_var p (6 + len Pre0) (1 + len old) data =
    if L - content_len l + len old <? len data then Err E.AdaptationFieldCannotGrow
    else Ok (pk h0 h1 h2 h3 L (flags l)
               ((Pre0 ++ (len data :: data) ++ Post) ++ repeatN 255 (L - content_len l + len old - len data) ++ pay)).
Proof. intros HB Hd. unfold set_var.
  pose proof Hfits as F. unfold fits in F.
  assert (HB': body l = (Pre0 ++ [len old]) ++ old ++ Post) by (rewrite HB, <- !app_assoc; reflexivity).
  replace (6 + len Pre0 + 1) with (6 + len (Pre0 ++ [len old])) at 1 by (rewrite len_app; change (len [len old]) with 1; lia).
  destruct (N.lt_trichotomy (len data) (len old)) as [Lt|[Eq|Gt]].
  - (* shrink *)
    replace (L - content_len l + len old <? len data) with false by (symmetry; apply N.ltb_ge; lia).
    set (d := len old - len data).
    assert (LD: len (takeN d old) = d) by (apply len_takeN; unfold d; lia).
    rewrite (shrink_at' (Pre0 ++ [len old]) (takeN d old) (dropN d old ++ Post)).
    2:{ rewrite HB'. f_equal. rewrite app_assoc, takeN_dropN. reflexivity. }
    2:{ rewrite LD. unfold d. lia. }
    2:{ rewrite LD. clear LD. unfold d, zlen, len in *. lia. }
    cbn [bind]. rewrite LD.
    replace ((Pre0 ++ [len old]) ++ (dropN d old ++ Post) ++ repeatN 255 d ++ St ++ pay)
      with (Pre0 ++ [len old] ++ dropN d old ++ (Post ++ repeatN 255 d ++ St ++ pay))
      by (rewrite <- !app_assoc; reflexivity).
    rewrite var_tail by (try apply Hd; rewrite ?len_dropN; unfold d; lia).
    do 2 f_equal. rewrite <- !app_assoc. cbn [app]. do 3 f_equal.
    unfold stuff. rewrite (app_assoc (repeatN 255 d)), <- repeatN_add. unfold d.
    replace (len old - len data + (L - content_len l)) with (L - content_len l + len old - len data) by lia. reflexivity.
  - (* same size *)
    replace (L - content_len l + len old <? len data) with false by (symmetry; apply N.ltb_ge; lia).
    replace (zlen data - (Z.of_N (1 + len old) - 1))%Z with 0%Z by (unfold zlen, len in *; lia).
    rewrite zero_at. cbn [bind]. unfold cpk. rewrite HB.
    replace ((Pre0 ++ (len old :: old) ++ Post) ++ St ++ pay) with (Pre0 ++ [len old] ++ old ++ (Post ++ St ++ pay))
      by (rewrite <- !app_assoc; reflexivity).
    rewrite var_tail by (try apply Hd; lia).
    do 2 f_equal. rewrite <- !app_assoc. cbn [app]. do 3 f_equal. unfold stuff.
    replace (L - content_len l + len old - len data) with (L - content_len l) by lia. reflexivity.
  - (* grow *)
    set (d := len data - len old).
    rewrite (grow_at' (Pre0 ++ [len old]) (old ++ Post) d).
    2:{ exact HB'. }
    2:{ unfold d. lia. }
    2:{ unfold d, zlen, len in *. lia. }
    destruct (N.ltb_spec (L - content_len l) d) as [T|T].
    + replace (L - content_len l + len old <? len data) with true by (symmetry; apply N.ltb_lt; unfold d in T; lia).
      reflexivity.
    + replace (L - content_len l + len old <? len data) with false by (symmetry; apply N.ltb_ge; unfold d in T; lia).
      cbn [bind].
      assert (ET: takeN d ((old ++ Post) ++ St) ++ (old ++ Post) ++ dropN d St ++ pay =
                  (takeN d ((old ++ Post) ++ St) ++ old) ++ (Post ++ dropN d St ++ pay))
        by (rewrite <- !app_assoc; reflexivity).
      replace ((Pre0 ++ [len old]) ++ takeN d ((old ++ Post) ++ St) ++ (old ++ Post) ++ dropN d St ++ pay)
        with (Pre0 ++ [len old] ++ (takeN d ((old ++ Post) ++ St) ++ old) ++ (Post ++ dropN d St ++ pay))
        by (rewrite ET, <- !app_assoc; reflexivity).
      rewrite var_tail.
      * do 2 f_equal. rewrite <- !app_assoc. cbn [app]. do 3 f_equal.
        unfold stuff. rewrite dropN_repeatN. unfold d.
        replace (L - content_len l + len old - len data) with (L - content_len l - (len data - len old)) by lia. reflexivity.
      * rewrite len_app, len_takeN by (rewrite !len_app, len_St; lia). unfold d. lia.
      * apply Hd. unfold d in T. lia.
Qed.

Lemma settpd_ok data : is_bytes data -> ok_out h0 h1 h2 h3 pay l (OSetTPD data) (SetTransportPrivateData p data).
Proof. intros Bd. unfold SetTransportPrivateData. rewrite valid_p. cbn [bind].
  destruct has_l as (_ & _ & _ & HP & _). rewrite HP. clear HP.
  pose proof Hwf as (WL & WP & WO & WS & WT & WE). pose proof Hfits as F. unfold fits in F.
  destruct (l_tpd l) as [old|] eqn:E; cbn [isSome negb].
  - change (ok_out h0 h1 h2 h3 pay l (OSetTPD data)
      (set_var p (transportPrivateDataStart p) (transportPrivateDataLength p) data)).
    rewrite tps_p, tpl_p, E. cbn [encv]. rewrite len_cons.
    replace (6 + len Fp + len Fo + len Fs) with (6 + len (Fp ++ Fo ++ Fs)) by (rewrite !len_app; lia).
    assert (CL: content_len l = 1 + len Fp + len Fo + len Fs + (1 + len old) + len Fe).
    { rewrite content_len_eq, E. cbn [encv]. rewrite len_cons. reflexivity. }
    assert (CL': content_len (set_tpd l (Some data)) = 1 + len Fp + len Fo + len Fs + (1 + len data) + len Fe).
    { rewrite content_len_eq. cbn [set_tpd l_pcr l_opcr l_splice l_tpd l_ext encv]. rewrite len_cons. reflexivity. }
    rewrite (set_var_p (Fp ++ Fo ++ Fs) old Fe data).
    2:{ unfold body. rewrite E. cbn [encv]. rewrite <- !app_assoc. reflexivity. }
    2:{ lia. }
    destruct (N.ltb_spec (L - content_len l + len old) (len data)) as [T|T]; cbn [ok_out].
    + apply rel_nojunk; [reflexivity|discriminate|]. cbn [spec_step]. rewrite E. cbn [isSome]. unfold grow.
      rewrite fitsb_false; [reflexivity|]. rewrite CL'. cbn [set_tpd l_len]. lia.
    + assert (F': fits (set_tpd l (Some data))). { unfold fits. rewrite CL'. cbn [set_tpd l_len]. lia. }
      exists (set_tpd l (Some data)).
      split; [apply rel_nojunk; [reflexivity|discriminate|]; cbn [spec_step]; rewrite E; cbn [isSome];
              unfold grow; rewrite fitsb_true by exact F'; reflexivity|].
      split; [|split; [|split; [exact F'|reflexivity]]].
      * replace ((Fp ++ Fo ++ Fs) ++ (len data :: data) ++ Fe) with (Fp ++ Fo ++ Fs ++ (len data :: data) ++ Fe)
          by (rewrite <- !app_assoc; reflexivity).
        apply recanon; try reflexivity.
        -- rewrite !flags_fl8. cbn [set_tpd l_disc l_rai l_prio l_pcr l_opcr l_splice l_tpd l_ext]. rewrite E. reflexivity.
        -- rewrite CL'. cbn [set_tpd l_len]. lia.
      * unfold wf_laf. cbn [set_tpd l_pcr l_opcr l_splice l_tpd l_ext l_len opt_bytes].
        repeat split; try assumption; try lia; try apply WP; try apply WO.
  - cbn [ok_out]. apply rel_nojunk; [reflexivity|discriminate|cbn [spec_step]; rewrite E; reflexivity].
Qed.

Lemma setext_ok data : is_bytes data -> ok_out h0 h1 h2 h3 pay l (OSetExt data) (SetAdaptationFieldExtension p data).
Proof. intros Bd. unfold SetAdaptationFieldExtension. rewrite valid_p. cbn [bind].
  destruct has_l as (_ & _ & _ & _ & HP & _). rewrite HP. clear HP.
  pose proof Hwf as (WL & WP & WO & WS & WT & WE). pose proof Hfits as F. unfold fits in F.
  destruct (l_ext l) as [old|] eqn:E; cbn [isSome negb].
  - change (ok_out h0 h1 h2 h3 pay l (OSetExt data)
      (set_var p (adaptationExtensionStart p) (adaptationExtensionLength p) data)).
    rewrite exs_p, exl_p, E. cbn [encv]. rewrite len_cons.
    replace (6 + len Fp + len Fo + len Fs + len Ft) with (6 + len (Fp ++ Fo ++ Fs ++ Ft)) by (rewrite !len_app; lia).
    assert (CL: content_len l = 1 + len Fp + len Fo + len Fs + len Ft + (1 + len old)).
    { rewrite content_len_eq, E. cbn [encv]. rewrite len_cons. reflexivity. }
    assert (CL': content_len (set_ext l (Some data)) = 1 + len Fp + len Fo + len Fs + len Ft + (1 + len data)).
    { rewrite content_len_eq. cbn [set_ext l_pcr l_opcr l_splice l_tpd l_ext encv]. rewrite len_cons. reflexivity. }
    rewrite (set_var_p (Fp ++ Fo ++ Fs ++ Ft) old [] data).
    2:{ unfold body. rewrite E. cbn [encv]. rewrite <- !app_assoc, app_nil_r. reflexivity. }
    2:{ lia. }
    destruct (N.ltb_spec (L - content_len l + len old) (len data)) as [T|T]; cbn [ok_out].
    + apply rel_nojunk; [reflexivity|discriminate|]. cbn [spec_step]. rewrite E. cbn [isSome]. unfold grow.
      rewrite fitsb_false; [reflexivity|]. rewrite CL'. cbn [set_ext l_len]. lia.
    + assert (F': fits (set_ext l (Some data))). { unfold fits. rewrite CL'. cbn [set_ext l_len]. lia. }
      exists (set_ext l (Some data)).
      split; [apply rel_nojunk; [reflexivity|discriminate|]; cbn [spec_step]; rewrite E; cbn [isSome];
              unfold grow; rewrite fitsb_true by exact F'; reflexivity|].
      split; [|split; [|split; [exact F'|reflexivity]]].
      * replace ((Fp ++ Fo ++ Fs ++ Ft) ++ (len data :: data) ++ []) with (Fp ++ Fo ++ Fs ++ Ft ++ (len data :: data))
          by (rewrite <- !app_assoc, app_nil_r; reflexivity).
        apply recanon; try reflexivity.
        -- rewrite !flags_fl8. cbn [set_ext l_disc l_rai l_prio l_pcr l_opcr l_splice l_tpd l_ext]. rewrite E. reflexivity.
        -- rewrite CL'. cbn [set_ext l_len]. lia.
      * unfold wf_laf. cbn [set_ext l_pcr l_opcr l_splice l_tpd l_ext l_len opt_bytes].
        repeat split; try assumption; try lia; try apply WP; try apply WO.
  - cbn [ok_out]. apply rel_nojunk; [reflexivity|discriminate|cbn [spec_step]; rewrite E; reflexivity].
Qed.

(* ---- copying a whole adaptation field (modify.go SetAdaptationField) ---- *)
Lemma setaf_ok src hs ls ps : src = hs ++ ser_laf ls ++ ps -> length hs = 4%nat -> wf_laf ls -> fits ls ->
  ok_out h0 h1 h2 h3 pay l (OSetAF src) (SetAdaptationField p src).
Proof. intros Hsrc Hhs Wls Fls.
  destruct hs as [|s0 [|s1 [|s2 [|s3 [|]]]]]; try discriminate. clear Hhs.
  assert (Esrc: src = pk s0 s1 s2 s3 (l_len ls) (flags ls) (body ls ++ stuff ls ++ ps)).
  { rewrite Hsrc. unfold pk, ser_laf, stuff. cbn [app]. rewrite <- app_assoc. reflexivity. }
  pose proof Hwf as (WL & WP & WO & WS & WT & WE). pose proof Hfits as F. unfold fits in F.
  pose proof Wls as (VL & VP & VO & VS & VT & VE). pose proof Fls as G. unfold fits in G.
  assert (Rs: 6 + len (body ls) <= 188) by (unfold content_len in G; lia).
  assert (OUT: forall out, out = (if content_len ls <=? L then Done (set_len ls L) else Fail E.AdaptationFieldTooLarge) ->
               op_rel l (OSetAF src) out).
  { intros out ->. exists [s0; s1; s2; s3], ls, ps.
    split; [exact Hsrc|split; [reflexivity|split; [exact Wls|split; [exact Fls|reflexivity]]]]. }
  set (o := OSetAF src) in *.
  unfold SetAdaptationField.
  unfold cpk at 1. rewrite get_bit_pk3, Hh3. cbn [negb]. rewrite se_p.
  assert (SS: stuffingStart src = 6 + len (body ls)).
  { rewrite Esrc. apply (stuffingStart_p s0 s1 s2 s3 ls (stuff ls ++ ps) VP VO Rs). }
  rewrite !SS.
  destruct (N.ltb_spec (L + 5) (6 + len (body ls))) as [T|T].
  - cbn [ok_out]. apply OUT. replace (content_len ls <=? L) with false; [reflexivity|].
    symmetry. apply N.leb_gt. unfold content_len. lia.
  - assert (CLs: content_len ls <= L) by (unfold content_len; lia).
    set (AFr := flags l :: body l ++ St).
    assert (LA: len AFr = L). { unfold AFr. rewrite len_cons, len_app, len_St. unfold content_len in *. lia. }
    assert (Ep: p = [h0; h1; h2; h3; L] ++ AFr ++ pay).
    { unfold cpk, pk, AFr. cbn [app]. rewrite <- app_assoc. reflexivity. }
    rewrite Ep at 1. rewrite (slice_mid [h0; h1; h2; h3; L] AFr pay) by (try reflexivity; rewrite LA; change (len [h0; h1; h2; h3; L]) with 5; lia).
    cbn [bind].
    set (s := flags ls :: body ls).
    assert (Ls: len s = content_len ls). { unfold s, content_len. rewrite len_cons. reflexivity. }
    assert (Es: src = [s0; s1; s2; s3; l_len ls] ++ s ++ (stuff ls ++ ps)).
    { rewrite Esrc. unfold pk, s. cbn [app]. reflexivity. }
    rewrite Es at 1. rewrite (slice_mid _ s) by (try reflexivity; rewrite Ls; unfold content_len; change (len [s0; s1; s2; s3; l_len ls]) with 5; lia).
    cbn [bind ok_out].
    replace (firstn (length AFr) s) with s.
    2:{ symmetry. apply firstn_all2. unfold len in *. lia. }
    exists (set_len ls L).
    split; [apply OUT; replace (content_len ls <=? L) with true by (symmetry; apply N.leb_le; exact CLs); reflexivity|].
    split; [|split; [|split; [exact CLs|reflexivity]]].
    + rewrite Ep.
      assert (EA: AFr = takeN (len s) AFr ++ dropN (len s) AFr) by (symmetry; apply takeN_dropN).
      rewrite EA at 1. rewrite <- (app_assoc (takeN (len s) AFr)).
      rewrite (blit_mid [h0; h1; h2; h3; L] (takeN (len s) AFr) _ s);
        [|reflexivity|rewrite len_takeN; [reflexivity|lia]].
      set (junk := dropN (len s) AFr).
      assert (LJ: len junk = L - content_len ls) by (unfold junk; rewrite len_dropN; lia).
      assert (E1: [h0; h1; h2; h3; L] ++ s ++ junk ++ pay =
                  pk h0 h1 h2 h3 (l_len (set_len ls L)) (flags (set_len ls L)) (body (set_len ls L) ++ (junk ++ pay))).
      { unfold pk, s. cbn [app]. reflexivity. }
      rewrite E1. unfold stuffAF.
      rewrite (stuffingStart_p h0 h1 h2 h3 (set_len ls L) (junk ++ pay) VP VO Rs).
      rewrite (stuffingEnd_p h0 h1 h2 h3 (set_len ls L) (junk ++ pay)) by first [exact Rs|cbn [set_len l_len]; lia].
      unfold fill_ff. rewrite pk_H6.
      replace (H6 h0 h1 h2 h3 (l_len (set_len ls L)) (flags (set_len ls L)) ++ body (set_len ls L) ++ junk ++ pay)
        with ((H6 h0 h1 h2 h3 (l_len (set_len ls L)) (flags (set_len ls L)) ++ body (set_len ls L)) ++ junk ++ pay)
        by (rewrite <- !app_assoc; reflexivity).
      rewrite (blit_mid _ junk pay).
      * rewrite <- app_assoc, <- pk_H6. cbn [set_len l_len].
        change (body (set_len ls L)) with (body ls).
        replace (L + 5 - (6 + len (body ls))) with (L - content_len ls) by (unfold content_len; lia).
        reflexivity.
      * rewrite len_app, len_H6. reflexivity.
      * rewrite len_repeatN, LJ. cbn [set_len l_len]. change (body (set_len ls L)) with (body ls). unfold content_len. lia.
    + unfold wf_laf. cbn [set_len l_pcr l_opcr l_splice l_tpd l_ext l_len]. repeat split; try assumption; try lia; try apply VP; try apply VO.
Qed.
End Setters.
