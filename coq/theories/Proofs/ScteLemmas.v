(* Generic lemmas for the SCTE-35 proofs: byte sweeps for masks, big-endian round trips,
   bytes.Buffer model steps. *)
From Gots Require Import Base.Prelude Model.Scte.
Import Scte.
Local Open Scope N_scope.

(* ---------- sweep over the byte domain ---------- *)
Definition nrange (n : nat) : list N := map N.of_nat (seq 0 n).
Lemma byte_sweep (P : N -> bool) : forallb P (nrange 256) = true -> forall b, b < 256 -> P b = true.
Proof.
  intros H b Hb. rewrite forallb_forall in H. apply H.
  unfold nrange. replace b with (N.of_nat (N.to_nat b)) by lia.
  apply in_map, in_seq. lia.
Qed.

Ltac sweep := intros b Hb; apply N.eqb_eq; revert b Hb; apply byte_sweep; vm_compute; reflexivity.

Lemma land128 : forall b, b < 256 -> N.land b 128 = 128 * (b / 128). Proof. sweep. Qed.
Lemma land64 : forall b, b < 256 -> N.land b 64 = 64 * ((b / 64) mod 2). Proof. sweep. Qed.
Lemma land32 : forall b, b < 256 -> N.land b 32 = 32 * ((b / 32) mod 2). Proof. sweep. Qed.
Lemma land16 : forall b, b < 256 -> N.land b 16 = 16 * ((b / 16) mod 2). Proof. sweep. Qed.
Lemma land8 : forall b, b < 256 -> N.land b 8 = 8 * ((b / 8) mod 2). Proof. sweep. Qed.
Lemma land4 : forall b, b < 256 -> N.land b 4 = 4 * ((b / 4) mod 2). Proof. sweep. Qed.
Lemma land3 : forall b, b < 256 -> N.land b 3 = b mod 4. Proof. sweep. Qed.
Lemma land1 : forall b, b < 256 -> N.land b 1 = b mod 2. Proof. sweep. Qed.
Lemma land15 : forall b, b < 256 -> N.land b 15 = b mod 16. Proof. sweep. Qed.
Lemma land240s4 : forall b, b < 256 -> N.shiftr (N.land b 240) 4 = b / 16. Proof. sweep. Qed.
Lemma shr1land63 : forall b, b < 256 -> N.land (N.shiftr b 1) 63 = (b / 2) mod 64. Proof. sweep. Qed.

Lemma landM33 v : N.land v M33 = v mod 8589934592.
Proof. change M33 with (N.ones 33). rewrite N.land_ones. reflexivity. Qed.

(* ---------- big-endian round trips ---------- *)
Lemma be32_rt x : x < 4294967296 ->
  be32 ((x / 16777216) mod 256) ((x / 65536) mod 256) ((x / 256) mod 256) (x mod 256) = x.
Proof. intros. unfold be32. lia. Qed.
Lemma be16_rt x : x < 65536 -> be16 ((x / 256) mod 256) (x mod 256) = x.
Proof. intros. unfold be16. lia. Qed.
Lemma to_be32_bytes x : is_bytes (to_be32 x).
Proof. unfold to_be32, is_bytes, is_byte. repeat constructor; lia. Qed.
Lemma to_be16_bytes x : is_bytes (to_be16 x).
Proof. unfold to_be16, is_bytes, is_byte. repeat constructor; lia. Qed.

(* the 33-bit field: 7 upper bits `hi` (multiple of 2) + bit 32, then 32 bits *)
Lemma u33_rt p hi : p < 8589934592 -> hi mod 2 = 0 -> hi < 256 ->
  N.land (N.land (hi + p / 4294967296) 1 * 4294967296
          + be32 ((p mod 4294967296 / 16777216) mod 256) ((p mod 4294967296 / 65536) mod 256)
                 ((p mod 4294967296 / 256) mod 256) (p mod 4294967296 mod 256)) M33 = p.
Proof.
  intros Hp Hhi Hb. rewrite land1 by lia. rewrite be32_rt by lia. rewrite landM33. lia.
Qed.

(* ---------- lengths ---------- *)
Lemma len_app {A} (a b : list A) : len (a ++ b) = len a + len b.
Proof. unfold len. rewrite app_length. lia. Qed.
Lemma len_cons {A} (x : A) l : len (x :: l) = 1 + len l.
Proof. unfold len. cbn [length]. lia. Qed.
Lemma len_nil {A} : len (@nil A) = 0. Proof. reflexivity. Qed.
Lemma len_to_be32 x : len (to_be32 x) = 4. Proof. reflexivity. Qed.
Lemma len_to_be16 x : len (to_be16 x) = 2. Proof. reflexivity. Qed.

(* ---------- buffer steps ---------- *)
Definition lastopt (a : bytes) : option N := match a with [] => None | _ => Some (List.last a 0) end.

Lemma next_app a r l n : n = len a -> next n (mkbuf (a ++ r) l) = (a, mkbuf r (lastopt a)).
Proof.
  intros ->. unfold next, takeN, dropN, len. cbn [rem]. rewrite Nat2N.id.
  rewrite firstn_app, Nat.sub_diag, firstn_all. cbn [firstn]. rewrite app_nil_r.
  rewrite skipn_app, Nat.sub_diag, skipn_all. cbn [skipn app]. reflexivity.
Qed.
Lemma next_all a l n : n = len a -> next n (mkbuf a l) = (a, mkbuf [] (lastopt a)).
Proof. intros. rewrite <- (app_nil_r a) at 1. apply next_app. assumption. Qed.
Lemma next0 r l : next 0 (mkbuf r l) = ([], mkbuf r None).
Proof. reflexivity. Qed.
Lemma next2 a b r l : next 2 (mkbuf (a :: b :: r) l) = ([a; b], mkbuf r (Some b)).
Proof. reflexivity. Qed.
Lemma next3 a b c r l : next 3 (mkbuf (a :: b :: c :: r) l) = ([a; b; c], mkbuf r (Some c)).
Proof. reflexivity. Qed.
Lemma next4 a b c d r l : next 4 (mkbuf (a :: b :: c :: d :: r) l) = ([a; b; c; d], mkbuf r (Some d)).
Proof. reflexivity. Qed.
Lemma next5 a b c d e r l : next 5 (mkbuf (a :: b :: c :: d :: e :: r) l) = ([a; b; c; d; e], mkbuf r (Some e)).
Proof. reflexivity. Qed.
Lemma next6 a b c d e f r l :
  next 6 (mkbuf (a :: b :: c :: d :: e :: f :: r) l) = ([a; b; c; d; e; f], mkbuf r (Some f)).
Proof. reflexivity. Qed.
Lemma rb0 x r l : read_byte0 (mkbuf (x :: r) l) = (x, mkbuf r (Some x)).
Proof. reflexivity. Qed.
Lemma rb x r l : read_byte (mkbuf (x :: r) l) = (Some x, mkbuf r (Some x)).
Proof. reflexivity. Qed.
Lemma unread_some x r : unread_byte (mkbuf r (Some x)) = Ok (mkbuf (x :: r) None).
Proof. reflexivity. Qed.
Lemma blen_mk r l : blen (mkbuf r l) = len r.
Proof. reflexivity. Qed.

Lemma uint40_5 a b c d e : uint40 [a; b; c; d; e] = Ok (N.land a 1 * 4294967296 + be32 b c d e).
Proof. reflexivity. Qed.
Lemma be32_of_4 a b c d : be32_of [a; b; c; d] = Ok (be32 a b c d).
Proof. reflexivity. Qed.
Lemma be16_of_2 a b : be16_of [a; b] = Ok (be16 a b).
Proof. reflexivity. Qed.
