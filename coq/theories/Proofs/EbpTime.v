(* C12, time clause: |EBPTime (SetEBPTime t) - t| <= 1 ns on the representable range, and
   EBPTime = the NTP era instant of the (seconds, fraction) fields.  Model: Model/Ebp.v. *)
From Gots Require Import Base.Prelude Model.Ebp Spec.EbpSpec.
Import Ebp.

(* ---- N.land with a single bit ---- *)
Lemma land_pow2 (a n : N) : N.land a (2 ^ n) = 2 ^ n * ((a / 2 ^ n) mod 2).
Proof.
  assert (H2 : (a / 2 ^ n) mod 2 = 0 \/ (a / 2 ^ n) mod 2 = 1).
  { assert (U : (a / 2 ^ n) mod 2 < 2) by (apply N.mod_upper_bound; discriminate).
    set (b := (a / 2 ^ n) mod 2) in *. clearbody b. lia. }
  apply N.bits_inj. intro m. rewrite N.land_spec, N.pow2_bits_eqb.
  assert (T : N.testbit a n = ((a / 2 ^ n) mod 2 =? 1)) by apply N.testbit_eqb.
  destruct H2 as [E | E]; rewrite E in *.
  - rewrite N.mul_0_r, N.bits_0. destruct (N.eqb_spec n m) as [<-|Hne].
    + rewrite T. reflexivity.
    + apply andb_false_r.
  - rewrite N.mul_1_r, N.pow2_bits_eqb. destruct (N.eqb_spec n m) as [<-|Hne].
    + rewrite T. reflexivity.
    + apply andb_false_r.
Qed.

Lemma bit31 (s : N) : s < 4294967296 -> (N.land s 2147483648 =? 0) = (s <? 2147483648).
Proof.
  intro H. change 2147483648 with (2 ^ 31) at 1. rewrite land_pow2. change (2 ^ 31) with 2147483648.
  destruct (N.ltb_spec s 2147483648); apply N.eqb_eq || apply N.eqb_neq; lia.
Qed.

(* ---- the sub-second part (Z) ---- *)
Local Open Scope Z_scope.
Definition enc (n : Z) : Z := Z.min ((n + 1) * 4294967296 / 1000000000) 4294967295.
Definition dec (f : Z) : Z := f * 1000000000 / 4294967296.

Lemma frac_roundtrip n : 0 <= n < 1000000000 -> n <= dec (enc n) <= n + 1 /\ dec (enc n) < 1000000000.
Proof. intros H. unfold enc, dec. lia. Qed.

(* ---- the model functions on their intended domain ---- *)
Lemma extract_small (s f : N) : (s < 4294967296)%N -> (f < 4294967296)%N ->
  extractUtcTime s f = EbpSpec.ntp_ns s f.
Proof.
  intros Hs Hf. unfold extractUtcTime, EbpSpec.ntp_ns, w64, Era1.
  rewrite (N.mod_small (s * 1000000000)) by lia.
  rewrite (N.mod_small (f * 1000000000)) by lia.
  rewrite N.shiftr_div_pow2. change (2 ^ 32)%N with 4294967296%N.
  rewrite N.mod_small by lia.
  replace (_ <? 9223372036854775808)%N with true by lia.
  rewrite bit31 by exact Hs.
  destruct (N.ltb_spec s 2147483648); destruct (N.leb_spec 2147483648 s); cbn [negb]; lia.
Qed.

Lemma insert_core (n : Z) : 0 <= n < 4294967296 * 1000000000 ->
  (let nanos := Z.to_N n in
   let frac := (w64 (N.shiftl (w64 (nanos mod 1000000000 + 1)) 32) / 1000000000)%N in
   (w32 (nanos / 1000000000), w32 (if (4294967295 <? frac)%N then 4294967295%N else frac)))
  = (Z.to_N (n / 1000000000), Z.to_N (enc (n mod 1000000000))).
Proof.
  intros H. cbv zeta. unfold w64, w32, enc. rewrite N.shiftl_mul_pow2. change (2 ^ 32)%N with 4294967296%N.
  set (nn := Z.to_N n). assert (Hnn : Z.of_N nn = n) by (subst nn; lia). clearbody nn.
  assert (Hq : (nn / 1000000000 < 4294967296)%N) by lia.
  assert (Hr : (nn mod 1000000000 < 1000000000)%N) by lia.
  assert (Eq : Z.of_N (nn / 1000000000) = n / 1000000000) by lia.
  assert (Er : Z.of_N (nn mod 1000000000) = n mod 1000000000) by lia.
  set (q := (nn / 1000000000)%N) in *. set (r := (nn mod 1000000000)%N) in *.
  set (rz := n mod 1000000000) in *. set (qz := n / 1000000000) in *. clearbody q r rz qz. clear Hnn H.
  rewrite (N.mod_small q) by lia.
  rewrite (N.mod_small (r + 1)) by lia.
  rewrite (N.mod_small ((r + 1) * 4294967296)) by lia.
  f_equal; [lia|].
  assert (Ef : Z.of_N ((r + 1) * 4294967296 / 1000000000) = (rz + 1) * 4294967296 / 1000000000) by lia.
  set (fr := ((r + 1) * 4294967296 / 1000000000)%N) in *.
  set (fz := (rz + 1) * 4294967296 / 1000000000) in *. 
  assert (Hfz : 0 <= fz) by (subst fz; lia). clearbody fr fz.
  destruct (N.ltb_spec 4294967295 fr); [rewrite N.mod_small by lia|rewrite N.mod_small by lia]; lia.
Qed.

Lemma insert_range (t : Z) :
  2147483648 * 1000000000 <= t < (4294967296 + 2147483648) * 1000000000 ->
  let nanos := if t <? 4294967296 * 1000000000 then t else t - 4294967296 * 1000000000 in
  insertUtcTime t = (Z.to_N (nanos / 1000000000), Z.to_N (enc (nanos mod 1000000000))).
Proof.
  intros H nanos. unfold insertUtcTime, Era1, sat64.
  assert (Hn : 0 <= nanos < 4294967296 * 1000000000) by (subst nanos; destruct (Z.ltb_spec t (4294967296 * 1000000000)); lia).
  replace (Z.max (-9223372036854775808) (Z.min 9223372036854775807 (t - (if t <? 4294967296 * 1000000000 then 0 else 4294967296 * 1000000000))) mod 18446744073709551616) with nanos.
  - exact (insert_core nanos Hn).
  - subst nanos. destruct (Z.ltb_spec t (4294967296 * 1000000000)).
    + rewrite Z.sub_0_r, Z.max_r, Z.min_r by lia. rewrite Z.mod_small by lia. reflexivity.
    + rewrite Z.max_r, Z.min_r by lia. rewrite Z.mod_small by lia. reflexivity.
Qed.

Theorem time_roundtrip (e : t) (tm : Z) :
  2147483648 * 1000000000 <= tm < (4294967296 + 2147483648) * 1000000000 ->
  tm <= EBPTime (SetEBPTime e tm) <= tm + 1.
Proof.
  intros H. unfold EBPTime, SetEBPTime. rewrite (insert_range tm H). cbn [set_Time TimeSeconds TimeFraction].
  set (nanos := if tm <? 4294967296 * 1000000000 then tm else tm - 4294967296 * 1000000000).
  pose proof (frac_roundtrip (nanos mod 1000000000)) as F.
  assert (Hn : 0 <= nanos mod 1000000000 < 1000000000) by (apply Z.mod_pos_bound; lia).
  specialize (F Hn).
  assert (He : 0 <= enc (nanos mod 1000000000) < 4294967296) by (unfold enc; lia).
  assert (Hq : 0 <= nanos / 1000000000 < 4294967296) by (subst nanos; destruct (Z.ltb_spec tm (4294967296 * 1000000000)); lia).
  rewrite extract_small by lia.
  unfold EbpSpec.ntp_ns. rewrite !Z2N.id by lia. fold (dec (enc (nanos mod 1000000000))).
  set (d := dec (enc (nanos mod 1000000000))) in *.
  subst nanos. destruct (Z.ltb_spec tm (4294967296 * 1000000000)) as [Ht|Ht];
  match goal with |- context [if ?c then _ else _] => destruct c eqn:Hc end; lia.
Qed.

(* the decode side: EBPTime of a decoded object is the NTP era instant of its 32-bit fields *)
Lemma ebptime_ntp (e : t) : (TimeSeconds e < 4294967296)%N -> (TimeFraction e < 4294967296)%N ->
  EBPTime e = EbpSpec.ntp_ns (TimeSeconds e) (TimeFraction e).
Proof. intros. unfold EBPTime. apply extract_small; assumption. Qed.

(* F3: the code as pinned (fraction not clamped) loses a whole second at .999999999 *)
Lemma time_unrepaired_refuted : exists tm,
  2147483648 * 1000000000 <= tm < (4294967296 + 2147483648) * 1000000000 /\
  (let '(s, f) := insertUtcTime_unclamped tm in extractUtcTime s f) = tm - 999999999.
Proof. exists (2147483648 * 1000000000 + 999999999). split; [lia | vm_compute; reflexivity]. Qed.

(* the two encoders differ only where the unclamped fraction overflows *)
Lemma time_nonvacuous : EBPTime (SetEBPTime CreateComcastEBP (4294967296 * 1000000000 - 1)) = 4294967296 * 1000000000 - 1
  /\ EBPTime (SetEBPTime CreateComcastEBP (4294967296 * 1000000000)) = 4294967296 * 1000000000.
Proof. split; vm_compute; reflexivity. Qed.
