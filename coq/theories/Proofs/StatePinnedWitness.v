(* Witnesses that the PINNED state.go (Model/StatePinned.v) violates C10; each is one of the F10 replay
   histories of bin/gen/c10.py, and goexec on the pinned tree shows exactly these observations. *)
From Gots Require Import Base.Prelude Model.SegDesc Model.State Model.StatePinned Proofs.StateRun.
Import SegDesc State.
Local Open Scope nat_scope.

Definition view (o : option obs) : list N * N * Res (list N) :=
  match o with Some ob => (o_closed ob, o_err ob, o_open ob) | None => ([], 99%N, Panic) end.

Definition pool_a : list desc :=
  [ mk 0 0x10 1 true 100 0 0 false 0 0 None; mk 1 0x13 1 true 200 0 0 false 0 0 None; mk 2 0x50 1 true 300 0 0 false 0 0 None ].
Definition hist_a : list call := [CProcess 0; CProcess 1; CProcess 2; COpen].

(* the network start closes the breakaway and the program start; inBlackout stays set; Open() panics *)
Lemma pinned_open_panics :
  Forall (call_in_pool pool_a) hist_a /\
  map view (StatePinned.run pool_a NewState hist_a) = [ ([], 0, Ok [0]); ([], 0, Ok [0]); ([1; 0], 0, Panic) ]%N.
Proof. split; [repeat constructor; simpl; lia|vm_compute; reflexivity]. Qed.

Definition pool_b : list desc :=
  [ mk 0 0x10 1 true 100 0 0 false 0 0 None; mk 1 0x13 1 true 200 0 0 false 0 0 None; mk 2 0x14 1 true 400 0 0 false 0 0 None ].
Definition hist_b : list call := [CProcess 0; CProcess 1; CClose 0; COpen; CProcess 2].

(* Close below the breakaway leaves blackoutIdx stale; Open() panics *)
Lemma pinned_close_stale :
  Forall (call_in_pool pool_b) hist_b /\
  map view (StatePinned.run pool_b NewState hist_b) = [ ([], 0, Ok [0]); ([], 0, Ok [0]); ([0], 0, Panic) ]%N.
Proof. split; [repeat constructor; simpl; lia|vm_compute; reflexivity]. Qed.

Definition pool_c : list desc :=
  [ mk 0 0x40 7 true 100 0 0 false 0 0 (Some 1%N); mk 1 0x40 7 true 200 0 0 false 0 0 (Some 2%N) ].
Definition hist_c : list call := [CProcess 0; CProcess 1; CProcess 1; CProcess 1].

(* the VSS branch marks the descriptor as stored without storing it: processed three times in a row it is
   accepted each time (error 0) and returned as closed twice *)
Lemma pinned_vss_accepted_twice :
  Forall (call_in_pool pool_c) hist_c /\
  map view (StatePinned.run pool_c NewState hist_c) =
    [ ([], 0, Ok [0]); ([0], 0, Ok [1]); ([1], 0, Ok [1]); ([1], 0, Ok [1]) ]%N.
Proof. split; [repeat constructor; simpl; lia|vm_compute; reflexivity]. Qed.

(* the repaired model on the same histories *)
Lemma repaired_same_histories :
  map view (run pool_a NewState hist_a) = [ ([], 0, Ok [0]); ([], 0, Ok [0]); ([1; 0], 0, Ok [2]); ([], 0, Ok [2]) ]%N /\
  map view (run pool_b NewState hist_b) =
    [ ([], 0, Ok [0]); ([], 0, Ok [0]); ([0], 0, Ok []); ([], 0, Ok []); ([], 0, Ok [2]) ]%N /\
  map view (run pool_c NewState hist_c) =
    [ ([], 0, Ok [0]); ([0], 0, Ok [1]); ([], 31, Ok [1]); ([], 31, Ok [1]) ]%N.
Proof. vm_compute. repeat split; reflexivity. Qed.

(* N1 (repaired in /repo 34afac6): the pinned scan appends once per descriptor already stored for the signal
   time, so the list doubles with every further descriptor at that time; the repaired one stores each once *)
Definition pool_d : list desc :=
  map (fun i => mk (N.of_nat i) 0x17 (N.of_nat i + 1) true 5000 0 0 false 0 0 None) (seq 0 7).
Definition hist_d : list call := map CProcess (seq 0 7).

Fixpoint exec_pinned (pool : list desc) (s : state) (cs : list call) : state :=
  match cs with
  | [] => s
  | c :: t => match StatePinned.step pool s c with Ok (s', _) => exec_pinned pool s' t | _ => s end
  end.

Definition ring_sizes (s : state) : list nat :=
  map (fun e => match e with Some e => length (edescs e) | None => 0 end) (received s).

Lemma pinned_scan_doubles :
  ring_sizes (exec_pinned pool_d NewState hist_d) = [64; 0; 0; 0; 0; 0; 0; 0; 0; 0] /\
  ring_sizes (match exec pool_d NewState hist_d with Ok s => s | _ => NewState end) = [7; 0; 0; 0; 0; 0; 0; 0; 0; 0].
Proof. vm_compute. split; reflexivity. Qed.
