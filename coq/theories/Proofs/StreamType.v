(* C20, part 1: the 256 stream types, by finite reflection over the complete domain. *)
From Gots Require Import Base.Prelude Model.StreamType Spec.StreamTypes.
Import StreamType StreamTypesSpec.

(* ---- sweep infrastructure (N-indexed ranges, DESIGN 4.1) ---- *)
Fixpoint nrange (fuel : nat) (s : N) : list N :=
  match fuel with O => [] | S f => s :: nrange f (N.succ s) end.
Lemma nrange_in fuel s x : s <= x < s + N.of_nat fuel -> In x (nrange fuel s).
Proof. revert s; induction fuel as [|f IH]; intros s H; cbn; [lia|].
  destruct (N.eq_dec s x); [left; assumption|right; apply IH; lia]. Qed.
Definition codes256 : list N := nrange 256 0.
Lemma sweep256 (P : N -> bool) : forallb P codes256 = true -> forall c, c < 256 -> P c = true.
Proof. intros H c Hc. rewrite forallb_forall in H. apply H. apply nrange_in. lia. Qed.

Lemma mem_In c l : mem c l = true <-> In c l.
Proof. unfold mem. rewrite existsb_exists. split.
  - intros [x [Hin Hx]]. apply N.eqb_eq in Hx. subst. exact Hin.
  - intros H. exists c. split; [exact H|apply N.eqb_refl]. Qed.

(* ---- lookup ---- *)
Lemma lookup_code c : stream_type (lookup c) = c.
Proof. unfold lookup. destruct (lookup_in atsc_table c); reflexivity. Qed.

Lemma lookup_desc_nonempty c : c < 256 -> nonempty (stream_type_description (lookup c)) = true.
Proof. revert c. apply sweep256. vm_compute. reflexivity. Qed.

(* ---- each predicate = membership in the property's code list ---- *)
Definition agree (f : StreamType.t -> bool) (l : list N) (c : N) : bool := Bool.eqb (f (lookup c)) (mem c l).
Lemma agree_iff f l : forallb (agree f l) codes256 = true ->
  forall c, c < 256 -> (f (lookup c) = true <-> In c l).
Proof. intros H c Hc. pose proof (sweep256 _ H c Hc) as E. unfold agree in E.
  apply Bool.eqb_prop in E. rewrite E. apply mem_In. Qed.

Lemma audio_iff c : c < 256 -> (is_audio_content (lookup c) = true <-> In c audio_codes).
Proof. revert c. apply agree_iff. vm_compute. reflexivity. Qed.
Lemma video_iff c : c < 256 -> (is_video_content (lookup c) = true <-> In c video_codes).
Proof. revert c. apply agree_iff. vm_compute. reflexivity. Qed.
Lemma scte35_iff c : c < 256 -> (is_scte35_content (lookup c) = true <-> In c scte35_codes).
Proof. revert c. apply agree_iff. vm_compute. reflexivity. Qed.
Lemma id3_iff c : c < 256 -> (is_id3_content (lookup c) = true <-> In c id3_codes).
Proof. revert c. apply agree_iff. vm_compute. reflexivity. Qed.
Lemma private_iff c : c < 256 -> (is_private_content (lookup c) = true <-> In c private_codes).
Proof. revert c. apply agree_iff. vm_compute. reflexivity. Qed.
Lemma lags_ebp_iff c : c < 256 ->
  (is_stream_where_presentation_lags_ebp (lookup c) = true <-> In c lags_codes).
Proof. revert c. apply agree_iff. vm_compute. reflexivity. Qed.

(* the content classes are pairwise disjoint, and every audio-content code lags the EBP *)
Definition classes_ok (c : N) : bool :=
  let st := lookup c in
  let n := b2n (is_audio_content st) + b2n (is_video_content st) + b2n (is_scte35_content st)
           + b2n (is_id3_content st) + b2n (is_private_content st) in
  (n <=? 1) && implb (is_audio_content st) (is_stream_where_presentation_lags_ebp st)
  && implb (is_stream_where_presentation_lags_ebp st) (negb (is_video_content st)).
Lemma classes_disjoint c : c < 256 -> classes_ok c = true.
Proof. revert c. apply sweep256. vm_compute. reflexivity. Qed.

(* ---- PMT-level query by PID ---- *)
Lemma lags_mem c : c < 256 -> is_stream_where_presentation_lags_ebp (lookup c) = mem c lags_codes.
Proof. intros Hc. assert (H : forallb (agree is_stream_where_presentation_lags_ebp lags_codes) codes256 = true)
    by (vm_compute; reflexivity).
  pose proof (sweep256 _ H c Hc) as E. unfold agree in E. apply Bool.eqb_prop in E. exact E. Qed.

Definition wf_streams (streams : list (N * N)) : Prop := Forall (fun s => snd s < 256) streams.

Lemma pmt_lags_by_pid_spec streams pid : wf_streams streams ->
  pmt_lags_by_pid streams (Z.of_N pid) = pmt_lags streams pid.
Proof. unfold pmt_lags. induction 1 as [|[p st] rest Hst _ IH]; [reflexivity|].
  cbn [pmt_lags_by_pid first_with_pid]. cbn [snd] in Hst.
  destruct (N.eqb_spec p pid) as [->|Hne].
  - rewrite Z.eqb_refl. apply lags_mem. exact Hst.
  - assert (E : Z.eqb (Z.of_N pid) (Z.of_N p) = false) by (apply Z.eqb_neq; lia).
    rewrite E. exact IH. Qed.

Lemma pmt_lags_negative streams pid : (pid < 0)%Z -> pmt_lags_by_pid streams pid = false.
Proof. intros H. induction streams as [|[p st] rest IH]; [reflexivity|]. cbn [pmt_lags_by_pid].
  assert (E : Z.eqb pid (Z.of_N p) = false) by (apply Z.eqb_neq; lia). rewrite E. exact IH. Qed.

(* the Spec function read as the property says it: first stream with that PID; absent -> false *)
Lemma pmt_lags_first pre pid st post : ~ In pid (map fst pre) ->
  pmt_lags (pre ++ (pid, st) :: post) pid = mem st lags_codes.
Proof. unfold pmt_lags. induction pre as [|[p s] pre IH]; intros Hn; cbn [app first_with_pid].
  - rewrite N.eqb_refl. reflexivity.
  - cbn [map fst In] in Hn. destruct (N.eqb_spec p pid) as [->|Hne]; [tauto|]. apply IH. tauto. Qed.
Lemma pmt_lags_absent streams pid : ~ In pid (map fst streams) -> pmt_lags streams pid = false.
Proof. unfold pmt_lags. induction streams as [|[p s] rest IH]; intros Hn; cbn [first_with_pid]; [reflexivity|].
  cbn [map fst In] in Hn. destruct (N.eqb_spec p pid) as [->|Hne]; [tauto|]. apply IH. tauto. Qed.

Lemma pmt_lags_by_pid_first pre pid st post :
  wf_streams (pre ++ (pid, st) :: post) -> ~ In pid (map fst pre) ->
  (pmt_lags_by_pid (pre ++ (pid, st) :: post) (Z.of_N pid) = true <-> In st lags_codes).
Proof. intros W Hn. rewrite pmt_lags_by_pid_spec by exact W. rewrite pmt_lags_first by exact Hn. apply mem_In. Qed.
Lemma pmt_lags_by_pid_absent streams pid :
  wf_streams streams -> ~ In pid (map fst streams) -> pmt_lags_by_pid streams (Z.of_N pid) = false.
Proof. intros W Hn. rewrite pmt_lags_by_pid_spec by exact W. apply pmt_lags_absent. exact Hn. Qed.

Lemma lookup_code_and_desc c : c < 256 ->
  stream_type (lookup c) = c /\ nonempty (stream_type_description (lookup c)) = true.
Proof. intros H. split; [apply lookup_code|apply lookup_desc_nonempty; exact H]. Qed.
