(* Generic list / index / slice lemmas used by the PAT proofs (C07, C05). *)
From Gots Require Import Base.Prelude.

Lemma plen_app {A} (a b : list A) : len (a ++ b) = len a + len b.
Proof. unfold len. rewrite app_length. lia. Qed.
Lemma plen_cons {A} (x : A) l : len (x :: l) = 1 + len l.
Proof. unfold len. cbn [length]. lia. Qed.
Lemma plen_nil {A} : len (@nil A) = 0. Proof. reflexivity. Qed.
Lemma zlen_len {A} (l : list A) : zlen l = Z.of_N (len l).
Proof. unfold zlen, len. lia. Qed.

Lemma idx_app_r pre l k : idx (pre ++ l) (len pre + k) = idx l k.
Proof. unfold idx, len.
  replace (N.to_nat (N.of_nat (length pre) + k)) with (length pre + N.to_nat k)%nat by lia.
  rewrite nth_error_app2 by lia.
  replace (length pre + N.to_nat k - length pre)%nat with (N.to_nat k) by lia. reflexivity. Qed.
Lemma idx_at pre l i k : i = len pre + k -> idx (pre ++ l) i = idx l k.
Proof. intros ->. apply idx_app_r. Qed.
Lemma idx_lt l i : i < len l -> exists x, idx l i = Ok x.
Proof. intros H. unfold idx. destruct (nth_error l (N.to_nat i)) eqn:E; [eauto|].
  apply nth_error_None in E. unfold len in H. lia. Qed.
Lemma idx_ge l i : len l <= i -> idx l i = Panic.
Proof. intros H. unfold idx. destruct (nth_error l (N.to_nat i)) eqn:E; [|reflexivity].
  assert (nth_error l (N.to_nat i) <> None) as Hn by congruence. apply nth_error_Some in Hn. unfold len in H. lia. Qed.
Lemma idx_not_diverge l i : idx l i <> Diverge.
Proof. unfold idx. destruct (nth_error l (N.to_nat i)); discriminate. Qed.
Lemma idx_byte l i x : is_bytes l -> idx l i = Ok x -> x < 256.
Proof. unfold idx. intros Hb. destruct (nth_error l (N.to_nat i)) eqn:E; [|discriminate]. intros [= <-].
  apply nth_error_In in E. unfold is_bytes in Hb. rewrite Forall_forall in Hb. exact (Hb _ E). Qed.

Lemma slice_ok l i j : i <= j -> j <= len l -> exists r, slice l i j = Ok r /\ len r = j - i.
Proof. intros H1 H2. unfold slice.
  assert (E : (i <=? j) && (j <=? len l) = true) by (apply andb_true_intro; split; apply N.leb_le; assumption).
  rewrite E. eexists. split; [reflexivity|]. unfold len in *. rewrite firstn_length, skipn_length. lia. Qed.
Lemma slice_panic l i j : (j < i \/ len l < j) -> slice l i j = Panic.
Proof. intros H. unfold slice.
  assert (E : (i <=? j) && (j <=? len l) = false).
  { apply andb_false_iff. destruct H; [left|right]; apply N.leb_gt; assumption. }
  rewrite E. reflexivity. Qed.
Lemma slice_len l i j r : slice l i j = Ok r -> i <= j /\ j <= len l /\ len r = j - i.
Proof. unfold slice. destruct ((i <=? j) && (j <=? len l)) eqn:E; [|discriminate].
  apply andb_true_iff in E. destruct E as [E1 E2]. apply N.leb_le in E1, E2. intros [= <-].
  repeat split; try assumption. unfold len in *. rewrite firstn_length, skipn_length. lia. Qed.
Lemma in_firstn {A} n (l : list A) x : In x (firstn n l) -> In x l.
Proof. intros H. rewrite <- (firstn_skipn n l). apply in_or_app. left. exact H. Qed.
Lemma in_skipn {A} n (l : list A) x : In x (skipn n l) -> In x l.
Proof. intros H. rewrite <- (firstn_skipn n l). apply in_or_app. right. exact H. Qed.
Lemma slice_bytes l i j r : is_bytes l -> slice l i j = Ok r -> is_bytes r.
Proof. unfold slice. destruct ((i <=? j) && (j <=? len l)); [|discriminate]. intros Hb [= <-].
  unfold is_bytes in *. rewrite Forall_forall in *. intros x Hx. apply Hb.
  apply in_firstn in Hx. eapply in_skipn. exact Hx. Qed.
Lemma slice_from_ok l i : i <= len l -> exists r, slice_from l i = Ok r /\ len r = len l - i.
Proof. intros H. unfold slice_from. apply slice_ok; [assumption|lia]. Qed.
Lemma slice_from_app pre l : slice_from (pre ++ l) (len pre) = Ok l.
Proof. unfold slice_from, slice.
  assert (E : (len pre <=? len (pre ++ l)) && (len (pre ++ l) <=? len (pre ++ l)) = true).
  { rewrite plen_app. apply andb_true_intro; split; apply N.leb_le; lia. }
  rewrite E. f_equal. rewrite plen_app. unfold len.
  replace (N.to_nat (N.of_nat (length pre) + N.of_nat (length l) - N.of_nat (length pre))) with (length l) by lia.
  replace (N.to_nat (N.of_nat (length pre))) with (length pre) by lia.
  rewrite skipn_app, skipn_all, Nat.sub_diag. cbn [app skipn]. apply firstn_all. Qed.
Lemma slice_from_1 x l : slice_from (x :: l) 1 = Ok l.
Proof. exact (slice_from_app [x] l). Qed.

Lemma res_bind_ok {A B} (r : Res A) (f : A -> Res B) a : r = Ok a -> bind r f = f a.
Proof. intros ->. reflexivity. Qed.
