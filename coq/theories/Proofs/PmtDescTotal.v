(* C05 (PMT descriptor part): every descriptor decoder returns a value on ARBITRARY tag and bytes
   (the model follows the repaired tree: F12 + notes/c05-guards.patch).  `_pinned_refuted`: inputs on
   which the unguarded functions of the pinned tree panic (DESIGN F11). *)
From Gots Require Import Base.Prelude Model.PmtDesc Proofs.PatBase Proofs.PatTotal.
Import PmtDesc.

Definition value {A} (r : Res A) : Prop := exists v, r = Ok v.

Lemma decode_maximum_bit_rate_total d : value (decode_maximum_bit_rate d).
Proof. unfold value, decode_maximum_bit_rate. destruct (is_maximum_bitrate_descriptor d); cbn [andb]; [|eauto].
  destruct (N.leb_spec 3 (len (data d))); [|eauto].
  destruct (idx_lt (data d) 0 ltac:(lia)) as [a ->]. destruct (idx_lt (data d) 1 ltac:(lia)) as [b ->].
  destruct (idx_lt (data d) 2 ltac:(lia)) as [c ->]. cbn [bind]. eauto. Qed.
Lemma decode_iso639_language_code_total d : value (decode_iso639_language_code d).
Proof. unfold value, decode_iso639_language_code. destruct (LANGUAGE =? tag d); cbn [andb]; [|eauto].
  destruct (N.leb_spec 3 (len (data d))); [|eauto].
  destruct (slice_ok (data d) 0 3 ltac:(lia) ltac:(lia)) as (r & -> & _). eauto. Qed.
Lemma decode_iso639_audio_type_total d : value (decode_iso639_audio_type d).
Proof. unfold value, decode_iso639_audio_type. destruct (tag d =? LANGUAGE); cbn [andb]; [|eauto].
  destruct (N.leb_spec 4 (len (data d))); [|eauto]. apply idx_lt. lia. Qed.
Lemma decode_ttml_code_total d : value (decode_ttml_iso639_language_code d).
Proof. unfold value, decode_ttml_iso639_language_code. destruct (tag d =? EXTENSION); [|eauto].
  destruct (N.leb_spec 4 (len (data d))); [|eauto].
  destruct (slice_ok (data d) 1 4 ltac:(lia) ltac:(lia)) as (r & -> & _). eauto. Qed.
Lemma decode_ttml_purpose_total d : value (decode_ttml_subtitle_purpose d).
Proof. unfold value, decode_ttml_subtitle_purpose. destruct (tag d =? EXTENSION); [|eauto].
  destruct (N.leb_spec 5 (len (data d))); [|eauto].
  destruct (idx_lt (data d) 4 ltac:(lia)) as [a ->]. cbn [bind]. eauto. Qed.
Lemma is_dolby_vision_total d : value (is_dolby_vision d).
Proof. unfold value, is_dolby_vision. destruct (tag d =? REGISTRATION); [|eauto].
  destruct (N.leb_spec 4 (len (data d))); [|eauto].
  destruct (slice_ok (data d) 0 4 ltac:(lia) ltac:(lia)) as (r & -> & Hr). cbn [bind].
  destruct r as [|a [|b [|c [|e [|x r]]]]]; unfold len in Hr; cbn [length] in Hr; try lia. eauto. Qed.
Lemma decode_dolby_vision_codec_total d : value (decode_dolby_vision_codec d).
Proof. unfold value, decode_dolby_vision_codec. destruct (tag d =? DOLBY_VISION); cbn [andb]; [|eauto].
  destruct (N.leb_spec 4 (len (data d))); [|eauto].
  destruct (slice_ok (data d) 2 4 ltac:(lia) ltac:(lia)) as (r & -> & Hr). cbn [bind].
  destruct r as [|a [|b [|x r]]]; unfold len in Hr; cbn [length] in Hr; try lia. eauto. Qed.

(* IsIFrameProfile: the loop is bounded by num_partitions <= 31 (structural), the guards keep every read inside *)
Lemma iframe_loop_total n : forall dat offset, value (iframe_loop n dat offset).
Proof. unfold value. induction n as [|k IH]; intros dat offset; cbn [iframe_loop]; [eauto|].
  destruct (N.leb_spec (len dat) offset); [eauto|].
  destruct (idx_lt dat offset ltac:(lia)) as [b ->]. cbn [bind].
  destruct (N.shiftr (N.land b 128) 7 =? 1).
  - destruct (N.leb_spec (len dat) (offset + 1)); [eauto|].
    destruct (idx_lt dat (offset + 1) ltac:(lia)) as [x ->]. cbn [bind]. eauto.
  - apply IH. Qed.
Lemma is_iframe_profile_total d : value (is_iframe_profile d).
Proof. unfold is_iframe_profile. destruct (EBP =? tag d); cbn [andb]; [|unfold value; eauto].
  destruct (N.ltb_spec 0 (len (data d))); [|unfold value; eauto].
  destruct (idx_lt (data d) 0 ltac:(lia)) as [b ->]. cbn [bind].
  destruct (N.shiftr (N.land b 4) 2 =? 1); [unfold value; eauto|apply iframe_loop_total]. Qed.

Lemma is_dolby_atmos_total d : value (is_dolby_atmos d).
Proof. unfold value, is_dolby_atmos. destruct (tag d =? EC3); cbn [andb]; [|eauto].
  destruct (N.leb_spec 2 (len (data d))); [|eauto].
  destruct (idx_lt (data d) 0 ltac:(lia)) as [b ->]. cbn [bind].
  destruct (N.shiftr (N.land b 64) 6 =? 1); cbn [andb]; [|cbn [bind]; eauto].
  destruct (N.leb_spec 3 (len (data d))); [|cbn [bind]; eauto].
  destruct (idx_lt (data d) 2 ltac:(lia)) as [c ->]. cbn [bind]. eauto. Qed.

Lemma max_bit_rate_total ds : value (max_bit_rate ds).
Proof. unfold value. induction ds as [|d ds IH]; cbn [max_bit_rate]; [eauto|].
  destruct (is_maximum_bitrate_descriptor d); [|exact IH].
  destruct (decode_maximum_bit_rate_total d) as [r ->]. cbn [bind]. eauto. Qed.

(* ---- F11: the unguarded functions of the pinned tree ---- *)
Lemma decoders_pinned_refuted :
  decode_maximum_bit_rate_unguarded (mk MAXIMUM_BITRATE [1; 2]) = Panic /\
  decode_iso639_language_code_unguarded (mk LANGUAGE [101; 110]) = Panic /\
  iframe_loop_unguarded 1 [8] 1 = Panic /\          (* IsIFrameProfile on tag 0xE9, data 08 *)
  iframe_loop_unguarded 1 [8; 128] 1 = Panic.       (* ... data 08 80: explicit flag, distance byte missing *)
Proof. repeat split; reflexivity. Qed.

Lemma descriptor_decoders_total d :
  value (decode_maximum_bit_rate d) /\ value (decode_iso639_language_code d) /\
  value (decode_iso639_audio_type d) /\ value (decode_ttml_iso639_language_code d) /\
  value (decode_ttml_subtitle_purpose d) /\ value (is_dolby_vision d) /\
  value (decode_dolby_vision_codec d) /\ value (is_iframe_profile d) /\ value (is_dolby_atmos d).
Proof. repeat split. apply decode_maximum_bit_rate_total. apply decode_iso639_language_code_total.
  apply decode_iso639_audio_type_total. apply decode_ttml_code_total. apply decode_ttml_purpose_total.
  apply is_dolby_vision_total. apply decode_dolby_vision_codec_total. apply is_iframe_profile_total.
  apply is_dolby_atmos_total. Qed.
