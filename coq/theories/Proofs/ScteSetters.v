(* C09: setter / getter laws, over every history (fold_left), Data() stability, history invariants. *)
From Gots Require Import Base.Prelude Model.Pts Model.Scte Model.ScteEnc.
Import Scte ScteEnc.
Local Open Scope N_scope.

(* ---- Data() changes only in UpdateData ---- *)
Lemma data_stable_step s o : o <> SUpdateData -> s_data (apply_sig_op s o) = s_data s.
Proof. destruct o; intros H; try reflexivity. congruence. Qed.
Lemma data_stable s ops : ~ In SUpdateData ops -> s_data (run_script s ops) = s_data s.
Proof.
  unfold run_script. revert s. induction ops as [|o ops IH]; intros s H; [reflexivity|].
  cbn [fold_left]. rewrite IH by (intros C; apply H; right; exact C).
  apply data_stable_step. intros ->. apply H. left. reflexivity.
Qed.
Lemma data_after_update s : s_data (apply_sig_op s SUpdateData) = fst (update_data s).
Proof. reflexivity. Qed.

Lemma run_app s a b : run_script s (a ++ b) = run_script (run_script s a) b.
Proof. apply fold_left_app. Qed.

(* ---- SCTE35 setters: the getter after the setter, whatever the history before it ---- *)
Section History.
Variable s0 : scte.
Variable ops : list sig_op.
Let s := run_script s0 ops.

Lemma set_tier v : s_tier (run_script s0 (ops ++ [SSetTier v])) = v mod 4096.
Proof. rewrite run_app. reflexivity. Qed.
Lemma set_adjust_pts v : s_pts (run_script s0 (ops ++ [SSetAdjustPTS v])) = v mod 8589934592.
Proof. rewrite run_app. reflexivity. Qed.
Lemma set_pts v :
  let s' := run_script s0 (ops ++ [SSetPTS v]) in
  s_pts s' = v mod 8589934592 /\ (s_cmd s = CNull \/ cmd_pts (s_cmd s') = v mod 8589934592) /\
  cmd_has_pts (s_cmd s') = cmd_has_pts (s_cmd s).
Proof.
  rewrite run_app. fold s. cbn [run_script fold_left apply_sig_op]. cbn [with_cmd with_pts s_pts s_cmd].
  split; [reflexivity|]. destruct (s_cmd s) as [|h p|[]]; cbn; auto.
  split; [right|reflexivity]. apply N.mod_mod. discriminate.
  split; [right|reflexivity]. apply N.mod_mod. discriminate.
Qed.
Lemma set_has_pts b :
  let s' := run_script s0 (ops ++ [SSetHasPTS b]) in
  (s_cmd s = CNull \/ cmd_has_pts (s_cmd s') = b) /\ cmd_pts (s_cmd s') = cmd_pts (s_cmd s) /\ s_pts s' = s_pts s.
Proof.
  rewrite run_app. fold s. cbn [run_script fold_left apply_sig_op]. cbn [with_cmd s_pts s_cmd].
  destruct (s_cmd s) as [|h p|[]]; cbn; auto.
Qed.
Lemma set_stuffing v : s_stuffing (run_script s0 (ops ++ [SSetAlignmentStuffing v])) = v.
Proof. rewrite run_app. reflexivity. Qed.
Lemma set_command_info k cops :
  let s' := run_script s0 (ops ++ [SSetCommandInfo k cops]) in
  s_cmd s' = fold_left (fun c o => apply_cmd_op o c) cops (create_cmd k) /\ s_cmd_type s' = cmd_type (s_cmd s').
Proof. rewrite run_app. split; reflexivity. Qed.
Lemma set_descriptors ds :
  let s' := run_script s0 (ops ++ [SSetDescriptors ds]) in
  s_descs s' = map (build_desc (s_id s)) ds /\ Forall (fun d => d_owner d = Some (s_id s')) (s_descs s').
Proof.
  rewrite run_app. fold s. cbn [run_script fold_left apply_sig_op]. split; [reflexivity|].
  cbn [with_descs s_descs s_id]. apply Forall_map. apply Forall_forall. intros x _.
  unfold build_desc. destruct (fold_left _ x (seg0 None)). reflexivity.
Qed.
(* frame: a setter leaves the other getters alone *)
Lemma set_tier_frame v :
  let s' := run_script s0 (ops ++ [SSetTier v]) in
  s_pts s' = s_pts s /\ s_cmd s' = s_cmd s /\ s_descs s' = s_descs s /\ s_stuffing s' = s_stuffing s /\ s_cmd_type s' = s_cmd_type s.
Proof. rewrite run_app. repeat split; reflexivity. Qed.
Lemma set_adjust_pts_frame v :
  let s' := run_script s0 (ops ++ [SSetAdjustPTS v]) in
  s_tier s' = s_tier s /\ s_cmd s' = s_cmd s /\ s_descs s' = s_descs s /\ s_stuffing s' = s_stuffing s.
Proof. rewrite run_app. repeat split; reflexivity. Qed.
End History.

(* ---- splice_insert setters (through CommandInfo()) ---- *)
Lemma ins_setters i :
  (forall v, i_event_id (apply_ins_op (ISetEventID v) i) = v) /\
  (forall b, i_out (apply_ins_op (ISetIsOut b) i) = b) /\
  (forall b, i_cancel (apply_ins_op (ISetIsEventCanceled b) i) = b) /\
  (forall b, i_has_pts (apply_ins_op (KSetHasPTS b) i) = b) /\
  (forall v, i_pts (apply_ins_op (KSetPTS v) i) = v mod 8589934592) /\
  (forall b, i_has_duration (apply_ins_op (ISetHasDuration b) i) = b) /\
  (forall v, i_duration (apply_ins_op (ISetDuration v) i) = v mod 8589934592) /\
  (forall b, i_auto_return (apply_ins_op (ISetIsAutoReturn b) i) = b) /\
  (forall v, i_unique_program_id (apply_ins_op (ISetUniqueProgramId v) i) = v) /\
  (forall v, i_avail_num (apply_ins_op (ISetAvailNum v) i) = v) /\
  (forall v, i_avails_expected (apply_ins_op (ISetAvailsExpected v) i) = v) /\
  (forall b, i_program (apply_ins_op (ISetIsProgramSplice b) i) = b) /\
  (forall b, i_immediate (apply_ins_op (ISetSpliceImmediate b) i) = b).
Proof. destruct i. repeat split; reflexivity. Qed.

(* a flag can be cleared as well as set, and clearing does not disturb the value kept beside it *)
Lemma ins_flag_clear i b v :
  i_has_duration (apply_ins_op (ISetHasDuration b) (apply_ins_op (ISetDuration v) (apply_ins_op (ISetHasDuration (negb b)) i))) = b /\
  i_duration (apply_ins_op (ISetHasDuration b) (apply_ins_op (ISetDuration v) i)) = v mod 8589934592.
Proof. destruct i. split; reflexivity. Qed.

(* ---- segmentation descriptor setters ---- *)
Lemma desc_setters d :
  (forall v, d_event_id (apply_desc_op (DSetEventID v) d) = v) /\
  (forall v, d_type (apply_desc_op (DSetTypeID v) d) = v) /\
  (forall b, d_cancel (apply_desc_op (DSetIsEventCanceled b) d) = b) /\
  (forall b, d_has_duration (apply_desc_op (DSetHasDuration b) d) = b) /\
  (forall v, d_duration (apply_desc_op (DSetDuration v) d) = v mod 1099511627776) /\
  (forall v, d_upid_type (apply_desc_op (DSetUPIDType v) d) = v) /\
  (forall v, d_seg_num (apply_desc_op (DSetSegmentNumber v) d) = v) /\
  (forall v, d_segs_expected (apply_desc_op (DSetSegmentsExpected v) d) = v) /\
  (forall v, d_sub_seg_num (apply_desc_op (DSetSubSegmentNumber v) d) = v) /\
  (forall v, d_sub_segs_expected (apply_desc_op (DSetSubSegmentsExpected v) d) = v) /\
  (forall b, d_program_seg (apply_desc_op (DSetHasProgramSegmentation b) d) = b) /\
  (forall b, d_dnr (apply_desc_op (DSetIsDeliveryNotRestricted b) d) = b) /\
  (forall b, d_web (apply_desc_op (DSetIsWebDeliveryAllowed b) d) = b) /\
  (forall b, d_archive (apply_desc_op (DSetIsArchiveAllowed b) d) = b) /\
  (forall b, d_noblackout (apply_desc_op (DSetHasNoRegionalBlackout b) d) = b) /\
  (forall v, d_device (apply_desc_op (DSetDeviceRestrictions v) d) = v mod 4) /\
  (forall b, d_has_sub (apply_desc_op (DSetHasSubSegments b) d) = b) /\
  (forall l, d_components (apply_desc_op (DSetComponents l) d) = map (fun e => mkco (fst e) (snd e mod 8589934592)) l).
Proof.
  destruct d. repeat split; try reflexivity.
  intros v. cbn [apply_desc_op]. destruct (v =? SegUPIDMID); [reflexivity|]. destruct (v =? 0); reflexivity.
Qed.

(* SetUPID / SetMID act only in the matching mode; the getters report only the matching one *)
Lemma desc_upid_laws d :
  (forall b, d_upid_type d <> SegUPIDMID -> get_upid (apply_desc_op (DSetUPID b) d) = b) /\
  (forall b, d_upid_type d = SegUPIDMID -> apply_desc_op (DSetUPID b) d = d) /\
  (forall l, d_upid_type d = SegUPIDMID ->
     get_mid (apply_desc_op (DSetMID l) d) = map (fun e => mkupid (fst e) (len (snd e)) (snd e)) l) /\
  (forall l, d_upid_type d <> SegUPIDMID -> apply_desc_op (DSetMID l) d = d).
Proof.
  destruct d as [ty eid hasdur dur uty u m sn se ssn sse owner cancel dnr hassub prog web nobl arch dev comps].
  cbn [d_upid_type]. repeat split; intros x H; unfold get_upid, get_mid; cbn [apply_desc_op].
  - apply N.eqb_neq in H. rewrite H. cbn [d_upid_type d_upid]. rewrite H. reflexivity.
  - apply N.eqb_eq in H. rewrite H. reflexivity.
  - apply N.eqb_eq in H. rewrite H. cbn [negb d_upid_type d_mid]. rewrite H. reflexivity.
  - apply N.eqb_neq in H. rewrite H. reflexivity.
Qed.

(* ---- invariants of every history that starts at CreateSCTE35 ---- *)
Definition desc_inv (d : segdesc) : Prop :=
  (d_upid_type d = SegUPIDMID -> d_upid d = []) /\ (d_upid_type d <> SegUPIDMID -> d_mid d = []) /\
  d_duration d < 1099511627776 /\ Forall (fun u => u_len u = len (u_upid u)) (d_mid d).
Definition comp_inv (c : component) : Prop := c_pts c < 8589934592.
Definition cmd_inv (c : command) : Prop :=
  cmd_pts c < 8589934592 /\ match c with CInsert i => Forall comp_inv (i_components i) | _ => True end.
Definition sig_inv (s : scte) : Prop :=
  s_cmd_type s = cmd_type (s_cmd s) /\ s_tier s < 4096 /\ cmd_inv (s_cmd s) /\
  Forall desc_inv (s_descs s) /\ Forall (fun d => d_owner d = Some (s_id s)) (s_descs s) /\
  s_tid s = 252 /\ s_encrypted s = false /\ s_ssi s = false /\ s_pi s = false /\ s_other s = [] /\ s_id s = 1.

Lemma upd_nth_Forall {A} (P : A -> Prop) f l n : Forall P l -> (forall x, P x -> P (f x)) -> Forall P (upd_nth l n f).
Proof.
  intros H Hf. revert n. induction H as [|x l Hx Hl IH]; intros n; destruct n; cbn [upd_nth]; constructor; auto.
Qed.

Lemma desc_inv_step o d : desc_inv d -> desc_inv (apply_desc_op o d).
Proof.
  destruct d as [ty eid hasdur dur uty u m sn se ssn sse owner cancel dnr hassub prog web nobl arch dev comps].
  unfold desc_inv. cbn [d_upid_type d_upid d_mid d_duration]. intros (H1 & H2 & H3 & H4).
  destruct o; cbn [apply_desc_op];
    try destruct (N.eqb_spec v SegUPIDMID); try destruct (v =? 0);
    try destruct (N.eqb_spec uty SegUPIDMID);
    cbn [negb d_upid_type d_upid d_mid d_duration];
    repeat split; auto; try (intros; contradiction); try congruence; try (apply N.mod_lt; discriminate);
    try (apply Forall_map; apply Forall_forall; intros x _; reflexivity);
    try (apply upd_nth_Forall; [assumption|]; intros x Hx; cbn [u_len u_upid]; first [reflexivity|exact Hx]).
Qed.

(* UPID.SetUPID through MID()[j] (0cd2c00): the element's bytes and its length are both updated *)
Lemma mid_setupid_law d j b : d_upid_type d = SegUPIDMID -> (j < length (d_mid d))%nat ->
  let d' := apply_desc_op (DMidSetUPID j b) d in
  u_upid (nth j (get_mid d') (mkupid 0 0 [])) = b /\ u_len (nth j (d_mid d') (mkupid 0 0 [])) = len b /\
  u_type (nth j (get_mid d') (mkupid 0 0 [])) = u_type (nth j (d_mid d) (mkupid 0 0 [])) /\
  length (d_mid d') = length (d_mid d).
Proof.
  destruct d as [ty eid hasdur dur uty u m sn se ssn sse owner cancel dnr hassub prog web nobl arch dev comps].
  cbn [d_upid_type d_mid]. intros -> Hj. unfold get_mid. cbn [apply_desc_op].
  change (SegUPIDMID =? SegUPIDMID) with true. cbn [negb d_upid_type d_mid].
  change (SegUPIDMID =? SegUPIDMID) with true. cbn [negb].
  revert j Hj. induction m as [|x m IH]; intros [|j] Hj; cbn in *; try lia.
  - repeat split; reflexivity.
  - destruct (IH j ltac:(lia)) as (A & B & C & D). repeat split; auto.
Qed.
Lemma desc_inv_seg0 o : desc_inv (seg0 o).
Proof. unfold desc_inv, seg0. cbn. repeat split; auto; try lia; try discriminate; constructor. Qed.
Lemma desc_inv_fold ops d : desc_inv d -> desc_inv (fold_left (fun d o => apply_desc_op o d) ops d).
Proof. revert d. induction ops as [|o ops IH]; intros d H; [exact H|]. cbn [fold_left]. apply IH, desc_inv_step, H. Qed.
Lemma desc_inv_owner o d : desc_inv d -> desc_inv (set_owner o d).
Proof. destruct d. exact (fun H => H). Qed.
Lemma owner_step o d : d_owner (apply_desc_op o d) = d_owner d.
Proof.
  destruct d as [ty eid hasdur dur uty u m sn se ssn sse owner cancel dnr hassub prog web nobl arch dev comps].
  destruct o; cbn [apply_desc_op d_owner]; try reflexivity;
    repeat match goal with |- context [if ?c then _ else _] => destruct c end; reflexivity.
Qed.

Lemma comp_inv_step o c : comp_inv c -> comp_inv (apply_comp_op o c).
Proof.
  destruct c, o; unfold comp_inv; cbn; intros H; try assumption. apply N.mod_lt. discriminate.
Qed.
Lemma cmd_inv_step o c : cmd_inv c -> cmd_inv (apply_cmd_op o c).
Proof.
  destruct c as [|h p|i]; unfold cmd_inv; cbn [apply_cmd_op].
  - auto.
  - intros [H _]. destruct o; cbn [cmd_pts]; split; auto. apply N.mod_lt. discriminate.
  - destruct i as [eid cancel out prog imm has pts comps hasdur dur auto up an ae]. cbn [cmd_pts i_pts i_components].
    intros [H1 H2]. destruct o; cbn [apply_ins_op cmd_pts i_pts i_components]; split; auto.
    + apply N.mod_lt. discriminate.
    + apply upd_nth_Forall; [assumption|]. intros x. apply comp_inv_step.
Qed.
Lemma cmd_inv_create k : cmd_inv (create_cmd k).
Proof. unfold create_cmd, cmd_inv. destruct (k =? 1); [cbn; split; [lia|exact I]|]. destruct (k =? 2); cbn; split; try lia; auto. Qed.
Lemma cmd_inv_fold ops c : cmd_inv c -> cmd_inv (fold_left (fun c o => apply_cmd_op o c) ops c).
Proof. revert c. induction ops as [|o ops IH]; intros c H; [exact H|]. cbn [fold_left]. apply IH, cmd_inv_step, H. Qed.
Lemma cmd_type_step o c : cmd_type (apply_cmd_op o c) = cmd_type c.
Proof. destruct c as [|h p|i]; destruct o; reflexivity. Qed.

Lemma sig_inv_step s o : sig_inv s -> sig_inv (apply_sig_op s o).
Proof.
  intros (H1 & H2 & H3 & H4 & H5 & H6 & H7 & H8 & H9 & H10 & H11).
  destruct o; unfold sig_inv; cbn [apply_sig_op];
    cbn [with_tier with_pts with_cmd with_stuffing with_descs update_data snd
         s_cmd_type s_cmd s_tier s_descs s_id s_tid s_encrypted s_ssi s_pi s_other];
    repeat split; try assumption;
    first [ apply N.mod_lt; discriminate
          | rewrite cmd_type_step; assumption
          | apply cmd_inv_step; assumption
          | apply cmd_inv_fold, cmd_inv_create
          | apply Forall_map; apply Forall_forall; intros x _; apply desc_inv_owner, desc_inv_fold, desc_inv_seg0
          | apply Forall_map; apply Forall_forall; intros x _; unfold build_desc; destruct (fold_left _ x (seg0 None)); reflexivity
          | apply upd_nth_Forall; [assumption|]; intros x; apply desc_inv_step
          | apply upd_nth_Forall; [assumption|]; intros x Hx; rewrite owner_step; exact Hx
          | exact (proj1 H3) | exact (proj2 H3)
          | exact (proj1 (cmd_inv_step _ _ H3)) | exact (proj2 (cmd_inv_step _ _ H3))
          | exact (proj1 (cmd_inv_fold _ _ (cmd_inv_create _))) | exact (proj2 (cmd_inv_fold _ _ (cmd_inv_create _)))
          | reflexivity ].
Qed.
Lemma sig_inv_create : sig_inv create_scte35.
Proof. unfold sig_inv, create_scte35. cbn. repeat split; auto; lia. Qed.
Theorem history_inv ops : sig_inv (run_script create_scte35 ops).
Proof.
  unfold run_script. generalize sig_inv_create. generalize create_scte35.
  induction ops as [|o ops IH]; intros s H; [exact H|]. cbn [fold_left]. apply IH, sig_inv_step, H.
Qed.

(* ---- setters reached through CommandInfo() / Descriptors()[i], after any history ---- *)
Lemma upd_nth_nth {A} (l : list A) i f d : (i < length l)%nat -> nth i (upd_nth l i f) d = f (nth i l d).
Proof. revert i. induction l as [|x l IH]; intros [|i] H; cbn in *; try lia; [reflexivity|apply IH; lia]. Qed.
Lemma upd_nth_other {A} (l : list A) i j f d : i <> j -> nth j (upd_nth l i f) d = nth j l d.
Proof. revert i j. induction l as [|x l IH]; intros [|i] [|j] H; cbn; try reflexivity; try congruence. apply IH. congruence. Qed.
Lemma upd_nth_length {A} (l : list A) i f : length (upd_nth l i f) = length l.
Proof. revert i. induction l as [|x l IH]; intros [|i]; cbn; auto. Qed.

Theorem set_through_command s0 ops o :
  let s := run_script s0 ops in
  let s' := run_script s0 (ops ++ [SCmd o]) in
  s_cmd s' = apply_cmd_op o (s_cmd s) /\ s_cmd_type s' = s_cmd_type s /\ s_descs s' = s_descs s /\ s_pts s' = s_pts s.
Proof. rewrite run_app. repeat split; reflexivity. Qed.

Theorem set_through_descriptor s0 ops i o d0 :
  let s := run_script s0 ops in
  let s' := run_script s0 (ops ++ [SDesc i o]) in
  (i < length (s_descs s))%nat ->
  nth i (s_descs s') d0 = apply_desc_op o (nth i (s_descs s) d0) /\
  (forall j, j <> i -> nth j (s_descs s') d0 = nth j (s_descs s) d0) /\
  length (s_descs s') = length (s_descs s) /\ s_cmd s' = s_cmd s.
Proof.
  rewrite run_app. cbn [run_script fold_left apply_sig_op with_descs s_descs s_cmd]. intros H.
  repeat split.
  - apply upd_nth_nth. exact H.
  - intros j Hj. apply upd_nth_other. congruence.
  - apply upd_nth_length.
Qed.
