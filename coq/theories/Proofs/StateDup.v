(* C10 lemmas, part 3: the duplicate scan.  Its early return depends only on the ORIGINAL contents of
   the ring (`ring_stop`); what it leaves behind is the ring with copies of the descriptor appended to
   entries of the same signal time (`grown`).  From these: processing the same descriptor twice in a
   row is rejected the second time as a duplicate. *)
From Gots Require Import Base.Prelude Model.SegDesc Model.State Proofs.SegProofs Proofs.StateBasics Proofs.StateRun.
Import SegDesc State.
Local Open Scope nat_scope.

Definition Dup : N := E.SCTE35DuplicateDescriptor.
Definition NoVss : N := E.VSSSignalIdNotFound.

(* the decision taken at one stored descriptor x *)
Definition elem_stop (d : desc) (same : bool) (x : desc) : option N :=
  if same && Equal d x then Some Dup else
  if (event d =? event x)%N && (ty x =? 0x40)%N && (ty d =? 0x40)%N then
    match vss d with
    | None => Some NoVss
    | Some s1 => match vss x with
                 | None => Some NoVss
                 | Some s2 => if (s1 =? s2)%N && (event x =? event d)%N then Some Dup else None
                 end
    end
  else None.

Fixpoint first_stop (d : desc) (same : bool) (ds : list desc) : option N :=
  match ds with
  | [] => None
  | x :: t => match elem_stop d same x with Some e => Some e | None => first_stop d same t end
  end.

Lemma scan_descs_stop : forall d same ds n a, snd (scan_descs d same ds n a) = first_stop d same ds.
Proof.
  intros d same. induction ds as [|x t IH]; intros n a; simpl; [reflexivity|].
  unfold elem_stop, StreamSwitchSignalId.
  destruct (same && Equal d x); [reflexivity|].
  destruct ((event d =? event x)%N && (ty x =? 64)%N && (ty d =? 64)%N); [|apply IH].
  destruct (vss d); [|reflexivity]. destruct (vss x); [|reflexivity].
  destruct ((n0 =? n1)%N && (event x =? event d)%N); [reflexivity|apply IH].
Qed.

(* counters: at most one append per call (34afac6), only in an entry of the same signal time, only while
   descAdded is still false, and it sets descAdded *)
Lemma scan_descs_napp : forall d same ds n a n' a' r,
  scan_descs d same ds n a = (n', a', r) ->
  n <= n' /\ n' <= S n /\ (n < n' -> same = true /\ a = false /\ a' = true) /\ (a = true -> a' = true).
Proof.
  intros d same. induction ds as [|x t IH]; intros n a n' a' r H; simpl in H.
  - inversion H; subst. repeat split; try lia; auto.
  - destruct (same && Equal d x); [inversion H; subst; repeat split; try lia; auto|].
    assert (G : scan_descs d same t (if same && negb a then S n else n) (if same then true else a) = (n', a', r) ->
                n <= n' /\ n' <= S n /\ (n < n' -> same = true /\ a = false /\ a' = true) /\ (a = true -> a' = true)).
    { intros Hk. apply IH in Hk. destruct Hk as (K1 & K2 & K3 & K4).
      destruct same, a; simpl in *.
      - assert (NK : ~ n < n') by (intros X; destruct (K3 X) as (_ & Y & _); discriminate).
        split; [lia|]. split; [lia|]. split; [intros X; contradiction|intros _; now apply K4].
      - assert (NK : ~ S n < n') by (intros X; destruct (K3 X) as (_ & Y & _); discriminate).
        split; [lia|]. split; [lia|]. split; [intros _; repeat split; now apply K4|discriminate].
      - assert (NK : ~ n < n') by (intros X; destruct (K3 X) as (Y & _); discriminate).
        split; [lia|]. split; [lia|]. split; [intros X; contradiction|intros _; now apply K4].
      - assert (NK : ~ n < n') by (intros X; destruct (K3 X) as (Y & _); discriminate).
        split; [lia|]. split; [lia|]. split; [intros X; contradiction|discriminate]. }
    assert (St : forall e, (if same && negb a then S n else n, if same then true else a, Some e) = (n', a', r) ->
                n <= n' /\ n' <= S n /\ (n < n' -> same = true /\ a = false /\ a' = true) /\ (a = true -> a' = true)).
    { intros e He. inversion He; subst. destruct same, a; simpl; repeat split; try lia; auto. }
    destruct ((event d =? event x)%N && (ty x =? 64)%N && (ty d =? 64)%N); [|exact (G H)].
    unfold StreamSwitchSignalId in H.
    destruct (vss d); [|eapply St; eassumption]. destruct (vss x); [|eapply St; eassumption].
    destruct ((n0 =? n1)%N && (event x =? event d)%N); [eapply St; eassumption|exact (G H)].
Qed.

(* a scan that runs through an entry without stopping *)
Lemma scan_descs_through : forall d same ds n a, first_stop d same ds = None ->
  scan_descs d same ds n a =
  (if same && negb a && negb (is_nil ds) then S n else n, a || (same && negb (is_nil ds)), None).
Proof.
  intros d same. induction ds as [|x t IH]; intros n a H; simpl in *.
  - rewrite !andb_false_r, orb_false_r. reflexivity.
  - unfold elem_stop, StreamSwitchSignalId in *.
    destruct (same && Equal d x); [discriminate|].
    assert (Ht : first_stop d same t = None).
    { destruct ((event d =? event x)%N && (ty x =? 64)%N && (ty d =? 64)%N); [|assumption].
      destruct (vss d); [|discriminate]. destruct (vss x); [|discriminate].
      destruct ((n0 =? n1)%N && (event x =? event d)%N); [discriminate|assumption]. }
    assert (G : scan_descs d same t (if same && negb a then S n else n) (if same then true else a) =
                (if same && negb a && true then S n else n, a || (same && true), None)).
    { rewrite (IH _ _ Ht). destruct same, a; simpl; try reflexivity; try (destruct t; reflexivity);
        try (now rewrite ?andb_false_r, ?orb_false_r). }
    destruct ((event d =? event x)%N && (ty x =? 64)%N && (ty d =? 64)%N); [|exact G].
    destruct (vss d); [|discriminate]. destruct (vss x); [|discriminate].
    destruct ((n0 =? n1)%N && (event x =? event d)%N); [discriminate|exact G].
Qed.

(* ---- ring level ---- *)
Definition entry_stop (d : desc) (p : N) (e : option elem) : option N :=
  match e with None => None | Some e => first_stop d (epts e =? p)%N (edescs e) end.
Fixpoint ring_stop (d : desc) (p : N) (ring : list (option elem)) : option N :=
  match ring with
  | [] => None
  | e :: t => match entry_stop d p e with Some x => Some x | None => ring_stop d p t end
  end.

Lemma scan_ring_stop : forall d p ring a, snd (scan_ring d p ring a) = ring_stop d p ring.
Proof.
  intros d p. induction ring as [|[e|] t IH]; intros a; simpl; [reflexivity| |].
  - pose proof (scan_descs_stop d (epts e =? p)%N (edescs e) 0 a) as S.
    destruct (scan_descs d (epts e =? p)%N (edescs e) 0 a) as [[napp a1] r1]. simpl in S. rewrite <- S.
    destruct r1; [reflexivity|]. specialize (IH a1). destruct (scan_ring d p t a1) as [[t' a2] r]. exact IH.
  - specialize (IH a). destruct (scan_ring d p t a) as [[t' a2] r]. exact IH.
Qed.

(* what the scan leaves behind *)
Definition grown1 (d : desc) (p : N) (a b : option elem) : Prop :=
  match a, b with
  | None, None => True
  | Some e, Some e' => epts e' = epts e /\ exists k, edescs e' = edescs e ++ repeat d k /\ (0 < k -> (epts e =? p)%N = true)
  | _, _ => False
  end.

Lemma grown1_refl : forall d p a, grown1 d p a a.
Proof. intros d p [e|]; simpl; auto. split; auto. exists 0. simpl. rewrite app_nil_r. split; auto. lia. Qed.

Lemma scan_ring_grown : forall d p ring a, Forall2 (grown1 d p) ring (fst (fst (scan_ring d p ring a))).
Proof.
  intros d p. induction ring as [|[e|] t IH]; intros a; simpl; [constructor| |].
  - destruct (scan_descs d (epts e =? p)%N (edescs e) 0 a) as [[napp a1] r1] eqn:S.
    apply scan_descs_napp in S. destruct S as (_ & _ & S & _).
    assert (G : grown1 d p (Some e) (Some (mkElem (epts e) (edescs e ++ repeat d napp)))).
    { simpl. split; auto. exists napp. split; auto. intros X. now destruct (S X). }
    destruct r1.
    + simpl. constructor; [exact G|]. clear. induction t; constructor; auto using grown1_refl.
    + specialize (IH a1). destruct (scan_ring d p t a1) as [[t' a2] r]. simpl in *. constructor; assumption.
  - specialize (IH a). destruct (scan_ring d p t a) as [[t' a2] r]. simpl in *. constructor; simpl; auto.
Qed.

Lemma elem_stop_self : forall d, haspts d = true -> elem_stop d true d = Some Dup.
Proof. intros d H. unfold elem_stop. now rewrite (equal_refl_pts d H). Qed.

Lemma first_stop_app_repeat : forall d same ds k, haspts d = true -> (0 < k -> same = true) ->
  first_stop d same (ds ++ repeat d k) =
  match first_stop d same ds with Some e => Some e | None => if k =? 0 then None else Some Dup end.
Proof.
  intros d same ds k Hd Hk. induction ds as [|x t IH]; simpl.
  - destruct k; simpl; [reflexivity|]. rewrite Hk by lia. now rewrite (elem_stop_self d Hd).
  - destruct (elem_stop d same x); [reflexivity|exact IH].
Qed.

Lemma grown_stop : forall d p ring ring1, haspts d = true -> Forall2 (grown1 d p) ring ring1 ->
  ring_stop d p ring1 = Some Dup \/ ring_stop d p ring1 = ring_stop d p ring.
Proof.
  intros d p ring ring1 Hd F. induction F as [|a b t t' G F IH]; [now right|]. simpl.
  destruct a as [e|], b as [e'|]; simpl in G; try contradiction.
  - destruct G as [Ep (k & Ed & Hk)]. simpl. rewrite Ep, Ed.
    rewrite (first_stop_app_repeat d _ _ k Hd Hk).
    destruct (first_stop d (epts e =? p)%N (edescs e)); [now right|].
    destruct (k =? 0); [exact IH|now left].
  - simpl. exact IH.
Qed.

(* descAdded = true after a scan that did not stop: the descriptor is now found *)
Lemma scan_added_found : forall d p ring a ring1 a', haspts d = true ->
  scan_ring d p ring a = (ring1, a', None) -> a' = true -> a = true \/ ring_stop d p ring1 = Some Dup.
Proof.
  intros d p ring. induction ring as [|[e|] t IH]; intros a ring1 a' Hd H Ha; simpl in H.
  - inversion H; subst. now left.
  - destruct a; [now left|].
    pose proof (scan_descs_stop d (epts e =? p)%N (edescs e) 0 false) as S.
    destruct (scan_descs d (epts e =? p)%N (edescs e) 0 false) as [[napp a1] r1] eqn:SD. simpl in S.
    destruct r1 as [x|]; [discriminate|].
    rewrite (scan_descs_through d _ _ 0 false (eq_sym S)) in SD. inversion SD; subst napp a1. clear SD.
    destruct (scan_ring d p t _) as [[t' a2] r] eqn:R. inversion H; subst ring1 a2 r. clear H.
    cbn [ring_stop entry_stop epts edescs].
    set (k := if (epts e =? p)%N && negb false && negb (is_nil (edescs e)) then 1 else 0) in *.
    assert (Hk : 0 < k -> (epts e =? p)%N = true).
    { unfold k. destruct (epts e =? p)%N; simpl; [auto|lia]. }
    rewrite (first_stop_app_repeat d _ _ k Hd Hk), <- S.
    destruct ((epts e =? p)%N && negb (is_nil (edescs e))) eqn:B.
    + right. unfold k. rewrite andb_true_r, B. reflexivity.
    + assert (k = 0) as -> by (unfold k; rewrite andb_true_r, B; reflexivity). simpl.
      simpl in R. apply (IH _ _ _ Hd R Ha).
  - destruct (scan_ring d p t a) as [[t' a2] r] eqn:R. inversion H; subst ring1 a2 r. simpl. apply (IH _ _ _ Hd R Ha).
Qed.

(* a fresh ring entry for the descriptor is found unless something stops the scan earlier with a
   different error -- which cannot be, when the ring without it yields no stop or Dup *)
Lemma set_nth_found : forall d ring h, haspts d = true ->
  (ring_stop d (ptsv d) ring = None \/ ring_stop d (ptsv d) ring = Some Dup) -> h < length ring ->
  ring_stop d (ptsv d) (set_nth ring h (Some (mkElem (ptsv d) [d]))) = Some Dup.
Proof.
  intros d ring. induction ring as [|x t IH]; intros h Hd Hs Hh; simpl in Hh; [lia|].
  destruct h; simpl.
  - rewrite N.eqb_refl. now rewrite (elem_stop_self d Hd).
  - simpl in Hs. destruct (entry_stop d (ptsv d) x) as [e|].
    + destruct Hs as [Hs|Hs]; [discriminate|exact Hs].
    + apply IH; auto. lia.
Qed.

(* the ring after any ProcessDescriptor call on a descriptor with PTS *)
Lemma process_received : forall s d s1 closed err, I1 s -> haspts d = true ->
  ProcessDescriptor s d = Ok (s1, (closed, err)) ->
  match scan_ring d (ptsv d) (received s) false with
  | (ring1, added, Some x) => received s1 = ring1 /\ err = Some x
  | (ring1, added, None) =>
    received s1 = (if added then ring1 else set_nth ring1 (receivedHead s) (Some (mkElem (ptsv d) [d])))
  end.
Proof.
  intros s d s1 closed err HI Hd H.
  destruct (process_shape _ _ _ _ _ HI H) as [(R & _)|(NR & _ & (ring1 & added & SR & Hr & _) & _)].
  - unfold ProcessDescriptor in H. rewrite Hd in H. cbn [negb] in H.
    destruct (scan_ring d (ptsv d) (received s) false) as [[ring1 added] [x|]] eqn:SR.
    + inversion H; subst. simpl. auto.
    + exfalso. (* a scan that does not stop never yields a rejection *)
      clear SR. revert H.
      destruct added; [|destruct (receivedHead s <? length ring1)]; cbn [bind];
        try discriminate;
        repeat match goal with
               | |- context [if ?c then _ else _] => destruct c
               end; intros H; inversion H; subst;
        try (destruct R as [X|[X|X]]; discriminate).
      all: try (destruct (is_nil _); destruct R as [X|[X|X]]; discriminate).
      all: unfold validate_in in R;
           repeat match goal with
                  | _ : context [if ?c then _ else _] |- _ => destruct c
                  | _ : context [match ?c with _ => _ end] |- _ => destruct c
                  end; destruct R as [X|[X|X]]; discriminate.
  - rewrite SR. exact Hr.
Qed.

(* THEOREM: the same descriptor (with a PTS) processed twice in a row is rejected the second time as a
   duplicate and nothing but the ring changes -- unless the first attempt already failed with the VSS
   lookup error (37), which is raised before the descriptor is stored *)
Theorem dup_twice_in_row : forall s d s1 closed1 err1, I1 s -> haspts d = true ->
  ProcessDescriptor s d = Ok (s1, (closed1, err1)) -> err1 <> Some NoVss ->
  exists s2, ProcessDescriptor s1 d = Ok (s2, ([], Some Dup)) /\
             open s2 = open s1 /\ inBlackout s2 = inBlackout s1 /\ blackoutIdx s2 = blackoutIdx s1 /\
             receivedHead s2 = receivedHead s1.
Proof.
  intros s d s1 closed1 err1 HI Hd H Hne.
  assert (RS : ring_stop d (ptsv d) (received s1) = Some Dup).
  { pose proof (process_received _ _ _ _ _ HI Hd H) as PR.
    pose proof (scan_ring_stop d (ptsv d) (received s) false) as ST.
    pose proof (scan_ring_grown d (ptsv d) (received s) false) as GR.
    pose proof (scan_ring_length d (ptsv d) (received s) false) as SL.
    destruct (scan_ring d (ptsv d) (received s) false) as [[ring1 added] early] eqn:SR. simpl in ST, GR, SL.
    destruct early as [x|].
    - destruct PR as [-> ->].
      destruct (scan_ring_err _ _ _ _ _ _ _ SR) as [-> | ->]; [|exfalso; now apply Hne].
      destruct (grown_stop d (ptsv d) _ _ Hd GR) as [G|G]; [exact G|]. rewrite G, <- ST. reflexivity.
    - rewrite PR. destruct added.
      + destruct (scan_added_found _ _ _ _ _ _ Hd SR eq_refl) as [X|X]; [discriminate|exact X].
      + apply set_nth_found; [exact Hd| |].
        * destruct (grown_stop d (ptsv d) _ _ Hd GR) as [G|G]; [now right|left; now rewrite G, <- ST].
        * destruct HI as (_ & (RL & RH) & _). lia. }
  unfold ProcessDescriptor. rewrite Hd. cbn [negb].
  pose proof (scan_ring_stop d (ptsv d) (received s1) false) as ST.
  destruct (scan_ring d (ptsv d) (received s1) false) as [[r a] e]. simpl in ST. rewrite RS in ST. subst e.
  eexists. split; [reflexivity|]. simpl. auto.
Qed.

(* ... and when the first attempt failed with the VSS lookup error, the second attempt is rejected too,
   as a duplicate or with the same error *)
Theorem dup_twice_in_row_vss : forall s d s1 closed1, I1 s -> haspts d = true ->
  ProcessDescriptor s d = Ok (s1, (closed1, Some NoVss)) ->
  exists s2 e, ProcessDescriptor s1 d = Ok (s2, ([], Some e)) /\ (e = Dup \/ e = NoVss) /\
             open s2 = open s1 /\ inBlackout s2 = inBlackout s1 /\ blackoutIdx s2 = blackoutIdx s1.
Proof.
  intros s d s1 closed1 HI Hd H.
  assert (RS : ring_stop d (ptsv d) (received s1) = Some Dup \/ ring_stop d (ptsv d) (received s1) = Some NoVss).
  { pose proof (process_received _ _ _ _ _ HI Hd H) as PR.
    pose proof (scan_ring_stop d (ptsv d) (received s) false) as ST.
    pose proof (scan_ring_grown d (ptsv d) (received s) false) as GR.
    destruct (process_shape _ _ _ _ _ HI H) as [_|(NR & _)]; [|exfalso; apply NR; unfold rejection; auto].
    destruct (scan_ring d (ptsv d) (received s) false) as [[ring1 added] early] eqn:SR. simpl in ST, GR.
    destruct early as [x|].
    - destruct PR as [-> E]. inversion E; subst x.
      destruct (grown_stop d (ptsv d) _ _ Hd GR) as [G|G]; [now left|right]. rewrite G, <- ST. reflexivity.
    - exfalso. unfold ProcessDescriptor in H. rewrite Hd, SR in H. cbn [negb] in H. revert H.
      destruct added; [|destruct (receivedHead s <? length ring1)]; cbn [bind]; try discriminate;
        repeat match goal with |- context [if ?c then _ else _] => destruct c end; intros H; inversion H; subst.
      all: try (destruct (is_nil _); discriminate).
      all: unfold validate_in in *;
           repeat match goal with
                  | _ : context [if ?c then _ else _] |- _ => destruct c
                  | _ : context [match ?c with _ => _ end] |- _ => destruct c
                  end; discriminate. }
  unfold ProcessDescriptor. rewrite Hd. cbn [negb].
  pose proof (scan_ring_stop d (ptsv d) (received s1) false) as ST.
  destruct (scan_ring d (ptsv d) (received s1) false) as [[r a] e]. simpl in ST.
  destruct RS as [RS|RS]; rewrite RS in ST; subst e; eexists; eexists; (split; [reflexivity|]); simpl; auto.
Qed.

(* the unconditional reading ("always rejected AS A DUPLICATE") is too strong: a second unscheduled-event
   start with the same event id and no VSS signal id fails the lookup (37) both times *)
Definition dup_full : Prop := forall s d s1 closed1 err1, I1 s -> haspts d = true ->
  ProcessDescriptor s d = Ok (s1, (closed1, err1)) ->
  exists s2, ProcessDescriptor s1 d = Ok (s2, ([], Some Dup)) /\ open s2 = open s1.

Definition vss_a : desc := mk 0 0x40 5 true 1000 0 0 false 0 0 None.
Definition vss_b : desc := mk 1 0x40 5 true 2000 0 0 false 0 0 None.

Lemma dup_full_refuted : ~ dup_full.
Proof.
  intros F.
  destruct (process_I1 NewState vss_a I1_new) as (s & r & H & HI).
  vm_compute in H. inversion H; subst s r. clear H.
  destruct (process_I1 _ vss_b HI) as (s1 & [c1 e1] & H1 & HI1).
  destruct (F _ vss_b _ _ _ HI eq_refl H1) as (s2 & H2 & _).
  vm_compute in H1. inversion H1; subst s1 c1 e1. clear H1.
  vm_compute in H2. discriminate.
Qed.
