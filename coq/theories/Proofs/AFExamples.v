(* Concrete witnesses for C03: non-vacuity of the hypotheses and the F13 refutation. *)
From Gots Require Import Base.Prelude Model.Pcr Model.AF Model.AFfn Spec.AFSpec
  Proofs.AFLists Proofs.PcrBytes Proofs.AFHistory Proofs.AFGetters.

Definition ex_l : laf := mkLaf 20 true false true (Some [1; 2; 3; 4; 5; 254]) None (Some 7) (Some [10; 11; 12]) (Some []).
Definition ex_hdr : bytes := [71; 1; 2; 48 + 5].
Definition ex_pay : bytes := repeatN 90 163.
Definition ex_p : bytes := ex_hdr ++ ser_laf ex_l ++ ex_pay.
Definition ex_src : bytes :=
  [71; 0; 0; 32] ++ ser_laf (mkLaf 183 false true false None (Some [9; 9; 9; 9; 9; 9]) None (Some [1]) None) ++ [].
Definition ex_hist : list AF.op :=
  [AF.OSetHasTPD false; AF.OSetTPD [1; 2]; AF.OSetHasPCR false; AF.OSetPCR 5; AF.OSetHasTPD true; AF.OSetHasTPD true;
   AF.OSetTPD [1; 2; 3]; AF.OSetHasOPCR true; AF.OSetOPCR 2576980377599; AF.OSetAF ex_src; AF.OSetSplice 255;
   AF.OSetHasSplice true; AF.OSetSplice 255; AF.OSetHasExt true; AF.OSetExt [7; 7; 7; 7; 7; 7; 7]; AF.OSetExt [7; 7; 7; 7; 7; 7; 7; 7]].
Definition ex_l_final : laf :=
  mkLaf 20 false true false None (Some [9; 9; 9; 9; 9; 9]) (Some 255) (Some [1]) (Some [7; 7; 7; 7; 7; 7; 7; 7]).

Lemma ex_repr : repr ex_p ex_l ex_hdr ex_pay.
Proof. unfold repr. split; [reflexivity|]. split; [reflexivity|]. split; [reflexivity|]. split; [reflexivity|].
  split.
  - unfold wf_laf, ex_l. cbn [l_len l_pcr l_opcr l_splice l_tpd l_ext opt_bytes].
    repeat split; try lia; try reflexivity; apply is_bytesb_ok; reflexivity.
  - unfold fits. vm_compute. discriminate. Qed.

Lemma ex_ops_ok : Forall op_ok ex_hist.
Proof. unfold ex_hist. repeat constructor; cbn [op_ok]; try (apply is_bytesb_ok; reflexivity); try (unfold PcrMax; lia).
  exists [71; 0; 0; 32], (mkLaf 183 false true false None (Some [9; 9; 9; 9; 9; 9]) None (Some [1]) None), [].
  split; [reflexivity|]. split; [reflexivity|]. split.
  - unfold wf_laf. cbn [l_len l_pcr l_opcr l_splice l_tpd l_ext opt_bytes].
    repeat split; try lia; try reflexivity; apply is_bytesb_ok; reflexivity.
  - unfold fits. vm_compute. discriminate. Qed.

Lemma ex_nonvacuous :
  repr ex_p ex_l ex_hdr ex_pay /\ Forall op_ok ex_hist /\
  AF.run ex_p ex_hist = ex_hdr ++ ser_laf ex_l_final ++ ex_pay /\ fits ex_l_final /\
  AF.step (AF.run ex_p ex_hist) (AF.OSetExt [1; 2; 3; 4; 5; 6; 7; 8; 9; 10]) = Err E.AdaptationFieldCannotGrow.
Proof. split; [exact ex_repr|]. split; [exact ex_ops_ok|]. split; [vm_compute; reflexivity|].
  split; [unfold fits; vm_compute; discriminate|vm_compute; reflexivity]. Qed.

(* F13: on the example packet the method getter returns 03 0a 0b 0c, not 0a 0b 0c *)
Lemma getters_full_refuted :
  ~ (forall p l hdr pay, repr p l hdr pay ->
      fn_getters p l /\ method_getters p l /\
      AF.TransportPrivateData p = opt_res (l_tpd l) (fun d => d) E.NoPrivateTransportData /\
      AF.AdaptationFieldExtension p = opt_res (l_ext l) (fun d => d) E.NoAdaptationFieldExtension).
Proof. intros H. destruct (H _ _ _ _ ex_repr) as (_ & _ & T & _). vm_compute in T. discriminate T. Qed.
