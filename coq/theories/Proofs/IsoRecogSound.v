(* Soundness of the byte-level recogniser of well-formed packets (Spec/Iso13818Recog.v), and the known finding K2:
   SetPayload with empty data cannot leave a well-formed packet. *)
From Gots Require Import Base.Prelude Base.PacketLemmas Spec.Iso13818Hdr Spec.Iso13818Recog
  Proofs.PayloadPart Proofs.PayloadSet.
Local Open Scope N_scope.

Lemma bytesb_ok (l : bytes) : is_bytesb l = true -> is_bytes l.
Proof. unfold is_bytesb, is_bytes, is_byteb, is_byte. intros H. rewrite forallb_forall in H. apply Forall_forall.
  intros x Hx. apply N.ltb_lt. apply H. exact Hx. Qed.
Lemma bytes_eqb_ok a : forall b, IsoRecog.bytes_eqb a b = true -> a = b.
Proof. induction a as [|x a IH]; intros [|y b] H; cbn in H; try discriminate; [reflexivity|].
  apply andb_true_iff in H. destruct H as [H1 H2]. apply N.eqb_eq in H1. subst y. f_equal. apply IH. exact H2. Qed.
Lemma opt_is_lenb_ok o n : Iso.opt_is_lenb o n = true -> Iso.opt_is_len o (N.to_nat n).
Proof. destruct o as [b|]; cbn; [|intros; exact I]. intros H. apply andb_true_iff in H. destruct H as [H1 H2].
  apply N.eqb_eq in H1. split; [unfold len in H1; lia | apply bytesb_ok; exact H2]. Qed.

(* the boolean well-formedness of Spec/Iso13818Hdr.v implies the propositional one *)
Lemma wf_lpktb_ok l : Iso.wf_lpktb l = true -> Iso.wf_lpkt l.
Proof.
  unfold Iso.wf_lpktb, Iso.wf_lpkt. intros H.
  repeat (apply andb_true_iff in H; destruct H as [H ?]).
  unfold Iso.hdr_okb in H. repeat (apply andb_true_iff in H; destruct H as [H ?]).
  repeat match goal with X : (_ <? _) = true |- _ => apply N.ltb_lt in X end.
  repeat match goal with X : (_ =? _) = true |- _ => apply N.eqb_eq in X end.
  split; [unfold Iso.hdr_ok; repeat split; assumption|]. split; [assumption|].
  split.
  { destruct (Iso.lf l) as [| |a st]; cbn [Iso.afield_ok]; try exact I.
    match goal with X : Iso.laf_okb a && is_bytesb st = true |- _ => apply andb_true_iff in X; destruct X as [X1 X2] end.
    split; [|apply bytesb_ok; exact X2]. unfold Iso.laf_okb in X1.
    repeat (apply andb_true_iff in X1; destruct X1 as [X1 ?]).
    unfold Iso.laf_ok. apply N.ltb_lt in X1.
    split; [exact X1|]. split; [apply (opt_is_lenb_ok _ 6); assumption|].
    split; [apply (opt_is_lenb_ok _ 6); assumption|].
    split; [match goal with X : match Iso.splice a with Some _ => _ | None => _ end = true |- _ => revert X end;
            destruct (Iso.splice a); [intros X; apply N.ltb_lt; exact X | intros _; exact I]|].
    split; apply bytesb_ok; assumption. }
  split; [apply bytesb_ok; assumption|].
  split; [unfold len in *; lia|].
  destruct (Iso.lf l).
  - apply N.eqb_eq; assumption.
  - match goal with X : _ || _ = true |- _ => apply orb_true_iff in X; destruct X as [X|X]; apply andb_true_iff in X; destruct X as [X1 X2] end;
      apply N.eqb_eq in X1; [left | right]; (split; [exact X1|]); destruct (Iso.lpayload l); try reflexivity; try discriminate.
  - match goal with X : _ || _ = true |- _ => apply orb_true_iff in X; destruct X as [X|X]; apply andb_true_iff in X; destruct X as [X1 X2] end;
      apply N.eqb_eq in X1; [left | right]; (split; [exact X1|]); destruct (Iso.lpayload l); try reflexivity; try discriminate.
Qed.

(* the recogniser is sound: what it accepts IS the serialisation of a well-formed logical packet *)
Lemma wf_pktb_sound p : IsoRecog.wf_pktb p = true -> exists l, Iso.wf_lpkt l /\ Iso.ser_pkt l = p.
Proof.
  unfold IsoRecog.wf_pktb. destruct (IsoRecog.guess_lpkt p) as [l|]; [|discriminate].
  intros H. apply andb_true_iff in H. destruct H as [H1 H2]. exists l.
  split; [apply wf_lpktb_ok; exact H1 | apply bytes_eqb_ok; exact H2].
Qed.

(* ---- K2: a well-formed packet that has the payload flag has at least one payload byte ... ---- *)
Lemma wf_payload_flag_nonempty l : Iso.wf_lpkt l -> Iso.has_payload (Iso.lh l) = true -> Iso.lpayload l <> [].
Proof.
  intros W HP. pose proof (wf_len l W) as L. unfold Iso.has_payload in HP. apply N.eqb_eq in HP.
  destruct (wf_afc_cases l W) as [[F A]|[(F & A & P)|(F & A & P)]].
  - intros E. unfold Iso.ser_pkt in L. rewrite F, E in L. cbn in L. discriminate L.
  - rewrite A in HP. discriminate HP.
  - exact P.
Qed.
(* ... so the packet SetPayload leaves for empty data (control 11, no payload byte) is never well-formed *)
Lemma set_payload_empty_not_wf l : Iso.wf_lpkt l -> carries_payload l -> ~ Iso.wf_lpkt (Iso.set_payload l []).
Proof.
  intros W CP W'. destruct (set_payload_empty l W CP) as (_ & PE & A3).
  apply (wf_payload_flag_nonempty _ W'); [|exact PE].
  unfold Iso.has_payload. rewrite A3. reflexivity.
Qed.
Lemma set_payload_wf_full_refuted :
  ~ (forall l d, Iso.wf_lpkt l -> carries_payload l -> is_bytes d -> Iso.wf_lpkt (Iso.set_payload l d)).
Proof.
  intros F.
  set (l := Iso.mkLpkt (Iso.mkHdr 71 0 0 0 0 0 1 0) Iso.NoAF (repeatN 0 184)).
  assert (Iso.wf_lpkt l) as W by (apply wf_lpktb_ok; vm_compute; reflexivity).
  assert (carries_payload l) as CP by (left; reflexivity).
  exact (set_payload_empty_not_wf l W CP (F l [] W CP ltac:(constructor))).
Qed.
