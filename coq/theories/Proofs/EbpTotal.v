(* C05 for the EBP readers: on ARBITRARY byte strings
   - no reader ever returns Diverge (the repaired grouping loop terminates: its uint8 index strictly increases);
   - with the guard patch (g = true) no reader ever panics;
   - the patch only ever turns an outcome into ErrInvalidEBPLength;
   - without it (g = false, the tree as repaired so far) the readers do panic: witnesses;
   - the pinned grouping loop (no guard) panics and diverges: witnesses. *)
From Gots Require Import Base.Prelude Model.Ebp Proofs.EbpLemmas.
Import Ebp.

Definition nd {A} (r : Res A) : Prop := r <> Diverge.
Definition np {A} (r : Res A) : Prop := r <> Panic.

Lemma nd_bind {A B} (r : Res A) (k : A -> Res B) : nd r -> (forall a, nd (k a)) -> nd (bind r k).
Proof. unfold nd. destruct r; cbn; intros; auto; discriminate. Qed.
Lemma np_bind {A B} (r : Res A) (k : A -> Res B) : np r -> (forall a, r = Ok a -> np (k a)) -> np (bind r k).
Proof. unfold np. destruct r; cbn; intros; auto; discriminate. Qed.

Lemma nd_idx l i : nd (idx l i). Proof. unfold nd, idx. destruct (nth_error l (N.to_nat i)); discriminate. Qed.
Lemma nd_slice l i j : nd (slice l i j). Proof. unfold nd, slice. destruct (_ && _); discriminate. Qed.
Lemma nd_uint32be l : nd (uint32be l).
Proof. unfold nd. destruct l as [|a [|b [|c [|d l]]]]; discriminate. Qed.
Lemma nd_rd8 l i : nd (rd8 l i).
Proof. unfold rd8. apply nd_bind; [apply nd_idx | intro; discriminate]. Qed.
Lemma nd_rd32 l i : nd (rd32 l i).
Proof. unfold rd32. apply nd_bind; [apply nd_slice | intro]. apply nd_bind; [apply nd_uint32be | intro; discriminate]. Qed.

Ltac nd_step :=
  match goal with
  | |- nd (bind _ _) => apply nd_bind; [ | intros ]
  | |- nd (rd8 _ _) => apply nd_rd8
  | |- nd (rd32 _ _) => apply nd_rd32
  | |- nd (idx _ _) => apply nd_idx
  | |- nd (slice _ _ _) => apply nd_slice
  | |- nd (Ok _) => discriminate
  | |- nd (Err _) => discriminate
  | |- nd (if ?c then _ else _) => destruct c
  | |- nd (let (_, _) := ?p in _) => destruct p
  | |- nd (match ?p with pair _ _ => _ end) => destruct p
  end.

Lemma nd_rd_ext g d s : nd (rd_ext g d s). Proof. unfold rd_ext. repeat nd_step. Qed.
Lemma nd_rd_sap g d s : nd (rd_sap g d s). Proof. unfold rd_sap. repeat nd_step. Qed.
Lemma nd_rd_group1 g d s : nd (rd_group1 g d s). Proof. unfold rd_group1. repeat nd_step. Qed.
Lemma nd_rd_part g d s : nd (rd_part g d s). Proof. unfold rd_part. repeat nd_step. Qed.
Lemma nd_read_time g d s : nd (read_time g d s). Proof. unfold read_time. repeat nd_step. Qed.
Lemma nd_read_reserved d s : nd (read_reserved d s). Proof. unfold read_reserved. repeat nd_step. Qed.

(* the repaired loop: at most 256 - index iterations *)
Lemma nd_group_loop : forall fuel data gr index,
  index <= 255 -> (N.to_nat (255 - index) < fuel)%nat -> nd (group_loop fuel data gr index).
Proof.
  induction fuel as [|fuel IH]; intros data gr index Hi Hf; [lia|]. cbn [group_loop].
  destruct (N.leb_spec (len data) index); cbn [orb]; [discriminate|].
  destruct (N.eqb_spec index 255); [discriminate|].
  apply nd_bind; [apply nd_idx | intro v]. destruct (negb _); [|discriminate].
  assert (E : w8 (index + 1) = index + 1) by (unfold w8; apply N.mod_small; lia). rewrite E.
  apply IH; lia.
Qed.

Lemma nd_read_groups g d s : nd (read_groups group_loop g d s).
Proof.
  unfold read_groups. destruct s as [e index]. destruct (GroupingFlag e); [|discriminate].
  destruct (chk g d index 1); [discriminate|]. apply nd_bind; [apply nd_idx | intro v].
  destruct (negb _); [|discriminate]. apply nd_bind; [|intros [? ?]; discriminate].
  apply nd_group_loop.
  - unfold w8. pose proof (N.mod_upper_bound (index + 1) 256). lia.
  - lia.
Qed.

Lemma nd_readComcast g d : nd (readComcastEbp g d).
Proof.
  unfold readComcastEbp. destruct (len d <? 2); [discriminate|].
  apply nd_bind; [apply nd_rd8 | intros [v i]]. apply nd_bind; [apply nd_rd8 | intros [v2 i2]].
  apply nd_bind; [repeat nd_step | intro s].
  apply nd_bind; [apply nd_rd_ext | intro]. apply nd_bind; [apply nd_rd_sap | intro].
  apply nd_bind; [apply nd_rd_group1 | intro]. apply nd_bind; [apply nd_read_time | intro]. apply nd_read_reserved.
Qed.

Lemma nd_readCableLabs g d : nd (readCableLabsEbp g d).
Proof.
  unfold readCableLabsEbp, readCableLabsEbp_with. destruct (len d <? 2); [discriminate|].
  apply nd_bind; [apply nd_rd8 | intros [v i]]. apply nd_bind; [apply nd_rd8 | intros [v2 i2]].
  apply nd_bind; [repeat nd_step | intro s].
  apply nd_bind; [apply nd_rd_ext | intro]. apply nd_bind; [apply nd_rd_sap | intro].
  apply nd_bind; [apply nd_read_groups | intro]. apply nd_bind; [apply nd_read_time | intro].
  apply nd_bind; [apply nd_rd_part | intro]. apply nd_read_reserved.
Qed.

Theorem read_ebp_terminates g bs : ReadEncoderBoundaryPoint g bs <> Diverge.
Proof.
  change (nd (ReadEncoderBoundaryPoint g bs)). unfold ReadEncoderBoundaryPoint.
  destruct (len bs =? 0); [discriminate|]. apply nd_bind; [apply nd_idx | intro tag].
  destruct (tag =? ComcastEbpTag); [apply nd_bind; [apply nd_readComcast | intro; discriminate]|].
  destruct (tag =? CableLabsEbpTag); [apply nd_bind; [apply nd_readCableLabs | intro; discriminate]|]. discriminate.
Qed.

(* ---------------- no panic with the guard ---------------- *)
Lemma idx_in l i : i < len l -> exists x, idx l i = Ok x.
Proof.
  intro H. unfold idx. destruct (nth_error l (N.to_nat i)) eqn:E; [eexists; reflexivity|].
  apply nth_error_None in E. unfold len in H. lia.
Qed.
Lemma np_idx l i : i < len l -> np (idx l i).
Proof. intro H. destruct (idx_in l i H) as [x ->]. discriminate. Qed.
Lemma np_rd8 l i : i < len l -> np (rd8 l i).
Proof. intro H. unfold rd8. destruct (idx_in l i H) as [x ->]. discriminate. Qed.
Lemma rd8_index l i v j : rd8 l i = Ok (v, j) -> j = w8 (i + 1).
Proof. unfold rd8. destruct (idx l i); cbn; intro H; inversion H; reflexivity. Qed.

Lemma slice_len l i j s : slice l i j = Ok s -> length s = N.to_nat (j - i).
Proof.
  unfold slice. destruct (N.leb_spec i j); cbn [andb]; [|discriminate].
  destruct (N.leb_spec j (len l)); [|discriminate]. intro Hs. inversion Hs. subst s.
  rewrite firstn_length, skipn_length. unfold len in *. lia.
Qed.
Lemma rd32_in l i : i + 4 <= len l -> i + 4 <= 255 -> exists v, rd32 l i = Ok (v, i + 4).
Proof.
  intros H1 H2. unfold rd32, w8. rewrite N.mod_small by lia.
  destruct (slice l i (i + 4)) as [s| | |] eqn:E.
  - pose proof (slice_len _ _ _ _ E) as L. replace (N.to_nat (i + 4 - i)) with 4%nat in L by lia.
    destruct s as [|a [|b [|c [|d [|x s]]]]]; cbn in L; try lia. cbn. eexists; reflexivity.
  - unfold slice in E. replace (i <=? i + 4) with true in E by lia. replace (i + 4 <=? len l) with true in E by lia. discriminate.
  - unfold slice in E. replace (i <=? i + 4) with true in E by lia. replace (i + 4 <=? len l) with true in E by lia. discriminate.
  - unfold slice in E. replace (i <=? i + 4) with true in E by lia. replace (i + 4 <=? len l) with true in E by lia. discriminate.
Qed.

Lemma chk_true_false d i n : chk true d i n = false -> i + n <= len d /\ i + n <= 255.
Proof. unfold chk. cbn [andb]. intro H. apply orb_false_iff in H. destruct H as [H1 H2]. lia. Qed.

Ltac opt8_np :=
  match goal with
  | |- np (if ?f then if chk true ?d ?i 1 then _ else _ else _) =>
    destruct f; [|discriminate]; destruct (chk true d i 1) eqn:C; [discriminate|];
    apply chk_true_false in C; destruct (idx_in d i ltac:(lia)) as [x Hx]; unfold rd8; rewrite Hx; discriminate
  end.
Lemma np_rd_ext d s : np (rd_ext true d s). Proof. unfold rd_ext. destruct s as [e i]. opt8_np. Qed.
Lemma np_rd_sap d s : np (rd_sap true d s). Proof. unfold rd_sap. destruct s as [e i]. opt8_np. Qed.
Lemma np_rd_group1 d s : np (rd_group1 true d s). Proof. unfold rd_group1. destruct s as [e i]. opt8_np. Qed.
Lemma np_rd_part d s : np (rd_part true d s). Proof. unfold rd_part. destruct s as [e i]. opt8_np. Qed.
Lemma np_read_time d s : np (read_time true d s).
Proof.
  unfold read_time. destruct s as [e i]. destruct (TimeFlag e); [|discriminate].
  destruct (chk true d i 8) eqn:C; [discriminate|]. apply chk_true_false in C.
  destruct (rd32_in d i ltac:(lia) ltac:(lia)) as [v ->]. cbn [bind].
  destruct (rd32_in d (i + 4) ltac:(lia) ltac:(lia)) as [v2 ->]. discriminate.
Qed.
Lemma np_read_reserved d s : np (read_reserved d s).
Proof.
  unfold read_reserved. destruct s as [e i]. set (stop := w8 (DataFieldLength e + 2)).
  destruct (N.ltb_spec i stop); [|discriminate]. destruct (N.ltb_spec (len d) stop); [discriminate|].
  unfold slice. replace (i <=? stop) with true by lia. replace (stop <=? len d) with true by lia. discriminate.
Qed.

Lemma np_group_loop : forall fuel data gr index, np (group_loop fuel data gr index).
Proof.
  induction fuel as [|fuel IH]; intros data gr index; [discriminate|]. cbn [group_loop].
  destruct (N.leb_spec (len data) index); cbn [orb]; [discriminate|].
  destruct (index =? 255); [discriminate|].
  destruct (idx_in data index ltac:(lia)) as [x ->]. cbn [bind]. destruct (negb _); [apply IH | discriminate].
Qed.
Lemma np_read_groups d s : np (read_groups group_loop true d s).
Proof.
  unfold read_groups. destruct s as [e i]. destruct (GroupingFlag e); [|discriminate].
  destruct (chk true d i 1) eqn:C; [discriminate|]. apply chk_true_false in C.
  destruct (idx_in d i ltac:(lia)) as [x ->]. cbn [bind]. destruct (negb _); [|discriminate].
  apply np_bind; [apply np_group_loop | intros [? ?] _; discriminate].
Qed.

Lemma np_readComcast d : np (readComcastEbp true d).
Proof.
  unfold readComcastEbp. destruct (N.ltb_spec (len d) 2); [discriminate|].
  destruct (idx_in d 0 ltac:(lia)) as [x0 I0]. destruct (idx_in d 1 ltac:(lia)) as [x1 I1].
  unfold rd8 at 1. rewrite I0. cbn [bind]. unfold rd8 at 1. change (w8 (0 + 1)) with 1. rewrite I1. cbn [bind].
  apply np_bind.
  - destruct (0 <? _); [|discriminate]. destruct (N.leb_spec 3 (len d)); [|discriminate].
    change (w8 (1 + 1)) with 2. destruct (idx_in d 2 ltac:(lia)) as [x2 I2]. unfold rd8. rewrite I2. discriminate.
  - intros s _. apply np_bind; [apply np_rd_ext | intros ? _]. apply np_bind; [apply np_rd_sap | intros ? _].
    apply np_bind; [apply np_rd_group1 | intros ? _]. apply np_bind; [apply np_read_time | intros ? _]. apply np_read_reserved.
Qed.

Lemma np_readCableLabs d : np (readCableLabsEbp true d).
Proof.
  unfold readCableLabsEbp, readCableLabsEbp_with. destruct (N.ltb_spec (len d) 2); [discriminate|].
  destruct (idx_in d 0 ltac:(lia)) as [x0 I0]. destruct (idx_in d 1 ltac:(lia)) as [x1 I1].
  unfold rd8 at 1. rewrite I0. cbn [bind]. unfold rd8 at 1. change (w8 (0 + 1)) with 1. rewrite I1. cbn [bind].
  apply np_bind.
  - destruct (0 <? _); [|discriminate]. destruct (N.leb_spec 7 (len d)); [|discriminate].
    change (w8 (1 + 1)) with 2. destruct (rd32_in d 2 ltac:(lia) ltac:(lia)) as [v ->]. cbn [bind].
    change (2 + 4) with 6. destruct (idx_in d 6 ltac:(lia)) as [x6 I6]. unfold rd8. rewrite I6. discriminate.
  - intros s _. apply np_bind; [apply np_rd_ext | intros ? _]. apply np_bind; [apply np_rd_sap | intros ? _].
    apply np_bind; [apply np_read_groups | intros ? _]. apply np_bind; [apply np_read_time | intros ? _].
    apply np_bind; [apply np_rd_part | intros ? _]. apply np_read_reserved.
Qed.

Theorem read_ebp_guarded_total bs :
  ReadEncoderBoundaryPoint true bs <> Panic /\ ReadEncoderBoundaryPoint true bs <> Diverge.
Proof.
  split; [|apply read_ebp_terminates].
  change (np (ReadEncoderBoundaryPoint true bs)). unfold ReadEncoderBoundaryPoint.
  destruct (N.eqb_spec (len bs) 0); [discriminate|].
  destruct (idx_in bs 0 ltac:(lia)) as [tag ->]. cbn [bind].
  destruct (tag =? ComcastEbpTag); [apply np_bind; [apply np_readComcast | intros ? _; discriminate]|].
  destruct (tag =? CableLabsEbpTag); [apply np_bind; [apply np_readCableLabs | intros ? _; discriminate]|]. discriminate.
Qed.

(* ---------------- the patch only adds ErrInvalidEBPLength ---------------- *)
Definition same_or_err {A} (r1 r2 : Res A) : Prop := r1 = r2 \/ r1 = Err E.InvalidEBPLength.
Lemma soe_bind {A B} (r1 r2 : Res A) (k1 k2 : A -> Res B) :
  same_or_err r1 r2 -> (forall a, same_or_err (k1 a) (k2 a)) -> same_or_err (bind r1 k1) (bind r2 k2).
Proof.
  intros [ -> | -> ] H; [|right; reflexivity]. destruct r2; cbn; try (left; reflexivity). apply H.
Qed.
Lemma soe_refl {A} (r : Res A) : same_or_err r r. Proof. left; reflexivity. Qed.

Ltac soe_phase :=
  match goal with
  | |- same_or_err (let (_, _) := ?s in _) _ => destruct s as [e i]
  end;
  match goal with
  | |- same_or_err (if ?f then _ else _) _ => destruct f; [|apply soe_refl]
  end;
  unfold chk; cbn [andb];
  match goal with
  | |- same_or_err (if ?c then _ else _) _ => destruct c; [right; reflexivity | apply soe_refl]
  end.
Lemma soe_rd_ext d s : same_or_err (rd_ext true d s) (rd_ext false d s). Proof. unfold rd_ext. soe_phase. Qed.
Lemma soe_rd_sap d s : same_or_err (rd_sap true d s) (rd_sap false d s). Proof. unfold rd_sap. soe_phase. Qed.
Lemma soe_rd_group1 d s : same_or_err (rd_group1 true d s) (rd_group1 false d s). Proof. unfold rd_group1. soe_phase. Qed.
Lemma soe_rd_part d s : same_or_err (rd_part true d s) (rd_part false d s). Proof. unfold rd_part. soe_phase. Qed.
Lemma soe_read_time d s : same_or_err (read_time true d s) (read_time false d s). Proof. unfold read_time. soe_phase. Qed.
Lemma soe_read_groups d s : same_or_err (read_groups group_loop true d s) (read_groups group_loop false d s).
Proof. unfold read_groups. soe_phase. Qed.

Lemma soe_readComcast d : same_or_err (readComcastEbp true d) (readComcastEbp false d).
Proof.
  unfold readComcastEbp. destruct (len d <? 2); [apply soe_refl|].
  apply soe_bind; [apply soe_refl | intros [v i]]. apply soe_bind; [apply soe_refl | intros [v2 i2]].
  apply soe_bind; [apply soe_refl | intro s].
  apply soe_bind; [apply soe_rd_ext | intro]. apply soe_bind; [apply soe_rd_sap | intro].
  apply soe_bind; [apply soe_rd_group1 | intro]. apply soe_bind; [apply soe_read_time | intro]. apply soe_refl.
Qed.
Lemma soe_readCableLabs d : same_or_err (readCableLabsEbp true d) (readCableLabsEbp false d).
Proof.
  unfold readCableLabsEbp, readCableLabsEbp_with. destruct (len d <? 2); [apply soe_refl|].
  apply soe_bind; [apply soe_refl | intros [v i]]. apply soe_bind; [apply soe_refl | intros [v2 i2]].
  apply soe_bind; [apply soe_refl | intro s].
  apply soe_bind; [apply soe_rd_ext | intro]. apply soe_bind; [apply soe_rd_sap | intro].
  apply soe_bind; [apply soe_read_groups | intro]. apply soe_bind; [apply soe_read_time | intro].
  apply soe_bind; [apply soe_rd_part | intro]. apply soe_refl.
Qed.
Theorem read_ebp_guard_only_adds_error bs :
  ReadEncoderBoundaryPoint true bs = ReadEncoderBoundaryPoint false bs
  \/ ReadEncoderBoundaryPoint true bs = Err E.InvalidEBPLength.
Proof.
  change (same_or_err (ReadEncoderBoundaryPoint true bs) (ReadEncoderBoundaryPoint false bs)).
  unfold ReadEncoderBoundaryPoint. destruct (len bs =? 0); [apply soe_refl|].
  apply soe_bind; [apply soe_refl | intro tag].
  destruct (tag =? ComcastEbpTag); [apply soe_bind; [apply soe_readComcast | intro; apply soe_refl]|].
  destruct (tag =? CableLabsEbpTag); [apply soe_bind; [apply soe_readCableLabs | intro; apply soe_refl]|]. apply soe_refl.
Qed.
Corollary read_ebp_panic_becomes_error bs :
  ReadEncoderBoundaryPoint false bs = Panic -> ReadEncoderBoundaryPoint true bs = Err E.InvalidEBPLength.
Proof.
  intro H. destruct (read_ebp_guard_only_adds_error bs) as [E|E]; [|exact E].
  destruct (read_ebp_guarded_total bs) as [NP _]. rewrite E, H in NP. congruence.
Qed.

(* ---------------- the readers as they are do panic (F11): witnesses ---------------- *)
Definition panic_witnesses : list bytes :=
  [ [169; 1; 1];                         (* Comcast, extension flag, nothing follows: data[3] *)
    [169; 1; 32];                        (* Comcast, SAP flag *)
    [169; 1; 16];                        (* Comcast, grouping flag *)
    [169; 1; 8];                         (* Comcast, time flag: data[3:7] *)
    [169; 9; 8; 0; 0; 0; 0; 1; 2];       (* Comcast, time flag, second word cut: data[7:11] *)
    [223; 1; 69; 66; 80; 48; 1];         (* CableLabs, extension flag: data[7] *)
    [223; 1; 69; 66; 80; 48; 32];        (* CableLabs, SAP flag *)
    [223; 1; 69; 66; 80; 48; 16];        (* CableLabs, grouping flag: data[7] *)
    [223; 1; 69; 66; 80; 48; 8];         (* CableLabs, time flag: data[7:11] *)
    [223; 2; 69; 66; 80; 48; 1; 128]     (* CableLabs, partition flag: data[8] *)
  ].
Theorem read_ebp_total_refuted : forallb (fun bs => match ReadEncoderBoundaryPoint false bs with Panic => true | _ => false end)
                                         panic_witnesses = true.
Proof. vm_compute. reflexivity. Qed.

(* the pinned grouping loop (no guard): runs off the end -> panic; 256 flagged bytes -> never terminates *)
Definition chain_off_end : bytes := [223; 2; 69; 66; 80; 48; 16; 129].
(* every one of the 256 index values must carry bit 7: format identifier ff ff ff ff, flags 0x90 *)
Definition chain_forever : bytes := [223; 255; 255; 255; 255; 255; 144] ++ repeat 129 249.
Theorem grouping_loop_unrepaired_refuted :
  readCableLabsEbp_unrepaired chain_off_end = Panic /\ readCableLabsEbp_unrepaired chain_forever = Diverge
  /\ readCableLabsEbp false chain_off_end = Err E.InvalidEBPLength
  /\ readCableLabsEbp false chain_forever = Err E.InvalidEBPLength.
Proof. repeat split; vm_compute; reflexivity. Qed.

(* the one place where the patch changes a non-panicking outcome: the uint8 index wraps to 0 after reading the partition byte
   at offset 255; the pinned and repaired readers then return the first 255 bytes of the INPUT as "reserved bytes" *)
Definition index_wrap : bytes := [223; 253; 69; 66; 80; 48; 17; 128] ++ repeat 129 246 ++ [1; 85].
Theorem index_wrap_witness :
  (exists e, ReadEncoderBoundaryPoint false index_wrap = Ok (CableLabs, e)
             /\ ReservedBytes e = firstn 255 index_wrap /\ PartitionFlags e = 85)
  /\ ReadEncoderBoundaryPoint true index_wrap = Err E.InvalidEBPLength.
Proof. split; [eexists; split; [vm_compute; reflexivity | split; vm_compute; reflexivity] | vm_compute; reflexivity]. Qed.
