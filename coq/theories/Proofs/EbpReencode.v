(* C12: what the getters of a decoded EBP report, and Data (decode b) = b. *)
From Gots Require Import Base.Prelude Model.Ebp Spec.EbpSpec Proofs.EbpLemmas Proofs.EbpTime Proofs.EbpDecode.
Import Ebp EbpSpec.

(* the flag getters depend on DataFieldLength and DataFlags only *)
Lemma flag_facts e a b c d f g h i :
  DataFieldLength e <> 0 -> DataFlags e = flags_byte a b c d f g h i ->
  FragmentFlag e = a /\ SegmentFlag e = b /\ SapFlag e = c /\ GroupingFlag e = d /\ TimeFlag e = f
  /\ DiscontinuityFlag e = g /\ ConcealmentFlag e = g /\ ExtensionFlag e = i.
Proof.
  intros HL HF.
  unfold ExtensionFlag, SapFlag, GroupingFlag, TimeFlag, FragmentFlag, SegmentFlag, DiscontinuityFlag, ConcealmentFlag, flag.
  rewrite HF. replace (DataFieldLength e =? 0) with false by (symmetry; apply N.eqb_neq; exact HL).
  cbn [negb andb]. pose proof (flags_byte_bits a b c d f g h i) as B. cbv zeta in B. tauto.
Qed.

Lemma read_ebp_comcast g c rest : wf_comcast c ->
  ReadEncoderBoundaryPoint g (ser_comcast c ++ rest) = Ok (Comcast, decoded_comcast c).
Proof.
  intro W. unfold ReadEncoderBoundaryPoint. rewrite (decode_ser_comcast g c rest W). reflexivity.
Qed.

Lemma read_ebp_cablelabs g c rest : wf_cablelabs c ->
  ReadEncoderBoundaryPoint g (ser_cablelabs c ++ rest) = Ok (CableLabs, decoded_cablelabs c).
Proof.
  intro W. unfold ReadEncoderBoundaryPoint. rewrite (decode_ser_cablelabs g c rest W). reflexivity.
Qed.

Lemma comcast_body_len_pos c : len (ser_comcast_body c) <> 0.
Proof. unfold ser_comcast_body. cbn [app]. rewrite len_cons. lia. Qed.
Lemma cablelabs_body_len_pos c : len (ser_cablelabs_body c) <> 0.
Proof. unfold ser_cablelabs_body. cbn [app to_be32]. rewrite !len_cons. lia. Qed.

Lemma time_opt_bounds o : time_opt o -> fst (tval o) < 4294967296 /\ snd (tval o) < 4294967296.
Proof. destruct o as [[s f]|]; cbn; [tauto | lia]. Qed.

Lemma stream_sync_spec g : stream_sync g = sync_of g.
Proof.
  induction g as [|x g IH]; [reflexivity|]. cbn [stream_sync sync_of].
  unfold StreamSynchronized, StreamNotSynchronized. rewrite IH, orb_comm. reflexivity.
Qed.

(* every getter of the decoded Comcast EBP, in terms of the logical record *)
Lemma decoded_comcast_getters c : wf_comcast c ->
  let e := decoded_comcast c in
  EBPType e = 169 /\ IsEmpty e = false /\ DataFieldLength e = len (ser_comcast_body c)
  /\ FragmentFlag e = c_fragment c /\ SegmentFlag e = c_segment c /\ DiscontinuityFlag e = c_discontinuity c
  /\ ExtensionFlag e = is_some (c_ext c) /\ SapFlag e = is_some (c_sap c) /\ GroupingFlag e = is_some (c_group c)
  /\ TimeFlag e = is_some (c_time c)
  /\ ExtensionFlags e = val0 (c_ext c) /\ Sap e = val0 (c_sap c) /\ Grouping e = opt_byte (c_group c)
  /\ TimeSeconds e = fst (tval (c_time c)) /\ TimeFraction e = snd (tval (c_time c))
  /\ EBPTime e = ntp_ns (fst (tval (c_time c))) (snd (tval (c_time c)))
  /\ ReservedBytes e = c_tail c
  /\ StreamSyncSignal e = sync_of (opt_byte (c_group c)).
Proof.
  intros (Hext & Hsap & Hgrp & Htm & Htail & Hlen) e.
  pose proof (comcast_body_len_pos c) as Hpos.
  destruct (flag_facts e (c_fragment c) (c_segment c) (is_some (c_sap c)) (is_some (c_group c)) (is_some (c_time c))
              (c_discontinuity c) (c_rsvbit c) (is_some (c_ext c)) Hpos eq_refl) as (F1 & F2 & F3 & F4 & F5 & F6 & _ & F8).
  destruct (time_opt_bounds _ Htm) as [Ts Tf].
  repeat split; try assumption; try reflexivity;
    try (apply ebptime_ntp; assumption); try (unfold IsEmpty; apply N.eqb_neq; exact Hpos);
    try apply stream_sync_spec.
Qed.

Lemma decoded_cablelabs_getters c : wf_cablelabs c ->
  let e := decoded_cablelabs c in
  EBPType e = 223 /\ IsEmpty e = false /\ DataFieldLength e = len (ser_cablelabs_body c)
  /\ FormatIdentifier e = l_format c
  /\ FragmentFlag e = l_fragment c /\ SegmentFlag e = l_segment c /\ ConcealmentFlag e = l_concealment c
  /\ ExtensionFlag e = is_some (l_ext c) /\ SapFlag e = is_some (l_sap c) /\ GroupingFlag e = is_some (l_groups c)
  /\ TimeFlag e = is_some (l_time c) /\ PartitionFlag e = is_some (part_opt (l_ext c))
  /\ ExtensionFlags e = val0 (ext_opt (l_ext c)) /\ PartitionFlags e = val0 (part_opt (l_ext c))
  /\ Sap e = val0 (l_sap c) /\ Grouping e = groups_list (l_groups c)
  /\ TimeSeconds e = fst (tval (l_time c)) /\ TimeFraction e = snd (tval (l_time c))
  /\ EBPTime e = ntp_ns (fst (tval (l_time c))) (snd (tval (l_time c)))
  /\ ReservedBytes e = l_tail c
  /\ StreamSyncSignal e = sync_of (groups_list (l_groups c)).
Proof.
  intros (Hfmt & Hext & Hsap & Hgrp & Htm & Htail & Hlen) e.
  pose proof (cablelabs_body_len_pos c) as Hpos.
  destruct (flag_facts e (l_fragment c) (l_segment c) (is_some (l_sap c)) (is_some (l_groups c)) (is_some (l_time c))
              (l_concealment c) (l_rsvbit c) (is_some (l_ext c)) Hpos eq_refl) as (F1 & F2 & F3 & F4 & F5 & _ & F7 & F8).
  destruct (time_opt_bounds _ Htm) as [Ts Tf].
  repeat split; try assumption; try reflexivity;
    try (apply ebptime_ntp; assumption); try (unfold IsEmpty; apply N.eqb_neq; exact Hpos);
    try apply stream_sync_spec.
  apply (partition_flag_fact (l_ext c)); [exact Hext | exact F8 | reflexivity].
Qed.

(* ---------------- re-encoding ---------------- *)
Lemma comcast_body_decoded c : wf_comcast c -> comcast_body (decoded_comcast c) = ser_comcast_body c.
Proof.
  intro W. destruct (decoded_comcast_getters c W) as (_ & _ & _ & _ & _ & _ & Fe & Fs & Fg & Ft & _).
  unfold comcast_body, time_bytes. rewrite Fe, Fs, Fg, Ft. unfold decoded_comcast, ser_comcast_body. recs.
  destruct (c_ext c), (c_sap c), (c_group c), (c_time c) as [[? ?]|]; reflexivity.
Qed.

Lemma reencode_comcast c : wf_comcast c ->
  ComcastData (decoded_comcast c) = (ser_comcast c, decoded_comcast c).
Proof.
  intro W. unfold ComcastData, finish_data. rewrite (comcast_body_decoded c W).
  destruct W as (_ & _ & _ & _ & _ & Hlen). pose proof (comcast_body_len_pos c) as Hpos.
  replace (DataFieldLength (decoded_comcast c) =? 0) with false by (symmetry; apply N.eqb_neq; exact Hpos).
  unfold w8. rewrite N.mod_small by lia. reflexivity.
Qed.

Lemma cl_groups_chain : forall r x, x < 128 -> Forall (fun z => z < 128) r -> cl_groups (x :: r) = ser_chain x r.
Proof.
  induction r as [|z r IH]; intros x Hx Hr; [reflexivity|].
  inversion Hr as [|? ? Hz Hr']; subst. cbn [cl_groups ser_chain].
  destruct (id7_facts x Hx) as (_ & _ & _ & _ & E). rewrite E. f_equal. apply (IH z Hz Hr').
Qed.

Lemma cablelabs_body_decoded c : wf_cablelabs c -> cablelabs_body (decoded_cablelabs c) = ser_cablelabs_body c.
Proof.
  intro W. destruct (decoded_cablelabs_getters c W) as (_ & _ & _ & _ & _ & _ & _ & Fe & Fs & Fg & Ft & Fp & _).
  destruct W as (_ & Hext & _ & Hgrp & _).
  unfold cablelabs_body, time_bytes. rewrite Fe, Fs, Fg, Ft, Fp. unfold decoded_cablelabs, ser_cablelabs_body. recs.
  rewrite ser_ext_opt, ser_part_opt.
  assert (Ee : is_some (l_ext c) = is_some (ext_opt (l_ext c))) by (destruct (l_ext c); reflexivity).
  destruct (l_groups c) as [[x r]|]; cbn [is_some groups_list ser_groups];
    [destruct Hgrp as [Hx Hr]; rewrite (cl_groups_chain r x Hx Hr)|].
  all: rewrite Ee; destruct (ext_opt (l_ext c)), (l_sap c), (l_time c) as [[? ?]|], (part_opt (l_ext c)); reflexivity.
Qed.

Lemma reencode_cablelabs c : wf_cablelabs c ->
  CableLabsData (decoded_cablelabs c) = (ser_cablelabs c, decoded_cablelabs c).
Proof.
  intro W. unfold CableLabsData, finish_data. rewrite (cablelabs_body_decoded c W).
  destruct W as (_ & _ & _ & _ & _ & _ & Hlen). pose proof (cablelabs_body_len_pos c) as Hpos.
  replace (DataFieldLength (decoded_cablelabs c) =? 0) with false by (symmetry; apply N.eqb_neq; exact Hpos).
  unfold w8. rewrite N.mod_small by lia. reflexivity.
Qed.

(* wf b -> Data (decode b) = b, both flavours, through the public entry point *)
Lemma reencode_comcast_bytes g c : wf_comcast c -> exists e,
  ReadEncoderBoundaryPoint g (ser_comcast c) = Ok (Comcast, e) /\ Data Comcast e = (ser_comcast c, e).
Proof.
  intro W. exists (decoded_comcast c). split.
  - rewrite <- (app_nil_r (ser_comcast c)). apply read_ebp_comcast. exact W.
  - apply reencode_comcast. exact W.
Qed.
Lemma reencode_cablelabs_bytes g c : wf_cablelabs c -> exists e,
  ReadEncoderBoundaryPoint g (ser_cablelabs c) = Ok (CableLabs, e) /\ Data CableLabs e = (ser_cablelabs c, e).
Proof.
  intro W. exists (decoded_cablelabs c). split.
  - rewrite <- (app_nil_r (ser_cablelabs c)). apply read_ebp_cablelabs. exact W.
  - apply reencode_cablelabs. exact W.
Qed.

(* the bound 253 is exact: with 254 bytes after the length byte the uint8 test `index < DataFieldLength+2`
   wraps to `index < 0`, the reserved bytes are dropped and the re-encoding is 3 bytes long *)
Definition c254 : comcast := mkC true false false false None None None None (repeat 7 253).
Lemma reencode_254_refuted :
  len (ser_comcast_body c254) = 254 /\ is_bytes (c_tail c254) /\
  exists e, ReadEncoderBoundaryPoint false (ser_comcast c254) = Ok (Comcast, e) /\ fst (Data Comcast e) = [169; 1; 128].
Proof.
  split; [vm_compute; reflexivity|]. split.
  - unfold c254, is_bytes. cbn [c_tail]. apply Forall_forall. intros x Hx. apply repeat_spec in Hx. subst. reflexivity.
  - eexists. split; vm_compute; reflexivity.
Qed.
