(* The serialisation of a well-formed logical section is a string of BYTES (every element < 256), so that
   decode_ser speaks about real inputs and not about lists of large numbers. *)
From Gots Require Import Base.Prelude Spec.Scte35Spec Proofs.ScteLemmas.
Import Scte35Spec.
Local Open Scope N_scope.

Lemma ib_app a b : is_bytes a -> is_bytes b -> is_bytes (a ++ b).
Proof. unfold is_bytes. intros. apply Forall_app. auto. Qed.
Lemma ib_cons x l : x < 256 -> is_bytes l -> is_bytes (x :: l).
Proof. unfold is_bytes, is_byte. intros. constructor; auto. Qed.
Lemma ib_nil : is_bytes []. Proof. constructor. Qed.
Lemma ib_flat_map {A} (f : A -> bytes) l : Forall (fun x => is_bytes (f x)) l -> is_bytes (flat_map f l).
Proof. induction 1; cbn [flat_map]; [apply ib_nil|apply ib_app; assumption]. Qed.
Ltac ib := repeat first [ apply ib_nil | apply to_be32_bytes | apply to_be16_bytes | assumption
                        | apply ib_app | apply ib_cons ].

Lemma ib_stime t : wf_stime t -> is_bytes (ser_stime t).
Proof. destruct t as [p|]; cbn [wf_stime ser_stime]; intros H; unfold T32; ib; lia. Qed.

Lemma bytes_mode m : wf_mode m -> is_bytes (ser_mode m).
Proof.
  destruct m as [|t|tags|cs]; cbn [wf_mode ser_mode]; intros Hm.
  - ib.
  - apply ib_stime. assumption.
  - destruct Hm. apply ib_cons; [lia|assumption].
  - destruct Hm as [Hc Hl]. apply ib_cons; [lia|]. apply ib_flat_map. eapply Forall_impl; [|exact Hc].
    intros [tag t] [H1 H2]. cbn [fst snd] in *. apply ib_cons; [assumption|]. apply ib_stime. assumption.
Qed.
Lemma bytes_break b : match b with Some (_, d) => d < 8589934592 | None => True end -> is_bytes (ser_break b).
Proof.
  destruct b as [[a d]|]; cbn [ser_break]; intros H; unfold T32; [|ib].
  apply ib_app; [|apply to_be32_bytes]. apply ib_cons; [|apply ib_nil]. destruct a; cbn [b2n]; lia.
Qed.

Lemma ib_command c : wf_command c -> is_bytes (ser_command c).
Proof.
  destruct c as [|t|eid [b|]|ty body]; cbn [wf_command ser_command].
  - intros _. ib.
  - apply ib_stime.
  - intros (He & Hm & Hb & Hu & Han & Hae). unfold ser_insert_body.
    assert (F : 128 * b2n (ib_out b) + 64 * b2n (mode_program (ib_mode b))
                + 32 * b2n (match ib_break b with Some _ => true | None => false end)
                + 16 * b2n (mode_immediate (ib_mode b)) + 15 < 256).
    { destruct (ib_out b), (mode_program (ib_mode b)), (ib_break b), (mode_immediate (ib_mode b)); cbn [b2n]; lia. }
    pose proof (bytes_mode _ Hm) as M. pose proof (bytes_break _ Hb) as B.
    apply ib_app; [apply to_be32_bytes|]. apply ib_app; [ib; lia|].
    apply ib_app; [ib|]. apply ib_app; [exact M|]. apply ib_app; [exact B|]. apply ib_app; [apply to_be16_bytes|]. ib.
  - intros He. ib. lia.
  - intros [_ Hb]. exact Hb.
Qed.

Lemma ib_upid u : wf_upid u -> is_bytes (ser_upid u).
Proof.
  destruct u as [ty b|l]; cbn [wf_upid ser_upid].
  - intros (H1 & _ & H3 & H4). ib.
  - intros [Hl Hn]. apply ib_cons; [lia|]. apply ib_cons; [assumption|]. apply ib_flat_map. eapply Forall_impl; [|exact Hl].
    intros [ty b] (H1 & H2 & H3). unfold ser_upid_elem. cbn [fst snd] in *. ib.
Qed.

Lemma ib_seg_body b : wf_seg_body b -> is_bytes (ser_seg_body b).
Proof.
  intros (Hc & Hd & Hr & Hu & Hty & Hnum & Hex & Hsub). unfold ser_seg_body.
  assert (F : 128 * b2n (match sb_comps b with None => true | Some _ => false end)
              + 64 * b2n (match sb_duration b with Some _ => true | None => false end) + restr_bits (sb_restr b) < 256).
  { destruct (sb_comps b), (sb_duration b); destruct (sb_restr b) as [[[[fw fn] fa] dv]|]; cbn [b2n restr_bits];
      try (destruct fw, fn, fa; cbn [b2n]); lia. }
  assert (C : is_bytes (ser_seg_comps (sb_comps b))).
  { destruct (sb_comps b) as [cs|]; cbn [ser_seg_comps]; [|ib]. destruct Hc as [Hcs Hn]. apply ib_cons; [assumption|].
    apply ib_flat_map. eapply Forall_impl; [|exact Hcs]. intros [tag off] [H1 H2]. unfold ser_seg_comp, T32. cbn [fst snd] in *.
    apply ib_cons; [assumption|]. apply ib_cons; [lia|]. apply to_be32_bytes. }
  assert (D : is_bytes (ser_dur40 (sb_duration b))).
  { destruct (sb_duration b) as [dd|]; cbn [ser_dur40]; unfold T32; [|ib]. apply ib_cons; [lia|]. apply to_be32_bytes. }
  assert (S : is_bytes (ser_sub (sb_sub b))).
  { destruct (sb_sub b) as [[x y]|]; cbn [ser_sub]; [|ib]. destruct Hsub as (H1 & H2 & _). ib. }
  apply ib_app; [ib|]. apply ib_app; [exact C|]. apply ib_app; [exact D|]. apply ib_app; [apply ib_upid; assumption|].
  apply ib_app; [ib|exact S].
Qed.

Lemma ib_descriptor d : wf_descriptor d -> is_bytes (ser_descriptor d).
Proof.
  unfold ser_descriptor. destruct d as [eid [b|]|tag body]; cbn [wf_descriptor desc_tag].
  - intros (He & Hb & Hl). apply ib_cons; [lia|]. apply ib_cons; [assumption|]. cbn [ser_desc_payload].
    apply ib_app; [apply to_be32_bytes|]. apply ib_app; [apply to_be32_bytes|]. apply ib_app; [ib; lia|]. apply ib_seg_body. assumption.
  - intros He. apply ib_cons; [lia|]. apply ib_cons; [cbn; lia|]. cbn [ser_desc_payload].
    apply ib_app; [apply to_be32_bytes|]. apply ib_app; [apply to_be32_bytes|]. ib. lia.
  - intros (H1 & _ & H3 & H4). cbn [ser_desc_payload]. ib.
Qed.

Theorem ser_is_bytes s : wf_splice_info s -> is_bytes (ser_splice_info s).
Proof.
  intros (Hpb & Hpl & Htid & Hsap & Hpv & Hea & Hadj & Hcw & Htier & Hcmd & Hcl & Hds & Hdl & Hst & Hcrc & Hsl).
  assert (Hclf : cmd_len_field s < 4096) by (unfold cmd_len_field; destruct (si_legacy_len s); lia).
  assert (Hct : command_type (si_cmd s) < 256).
  { destruct (si_cmd s) as [| | |ty body]; cbn [command_type wf_command] in *; try lia; apply Hcmd. }
  assert (H1 : 128 * b2n (si_ssi s) + 64 * b2n (si_private s) + 16 * si_sap s + section_length s / 256 < 256)
    by (destruct (si_ssi s), (si_private s); cbn [b2n]; lia).
  assert (H2 : 128 * b2n (si_encrypted s) + 2 * si_enc_alg s + si_pts_adj s / T32 < 256)
    by (unfold T32; destruct (si_encrypted s); cbn [b2n]; lia).
  assert (D : is_bytes (ser_descriptors (si_descs s)))
    by (apply ib_flat_map; eapply Forall_impl; [|exact Hds]; apply ib_descriptor).
  pose proof (ib_command _ Hcmd) as C.
  unfold ser_splice_info, ser_section, ser_section_nocrc, ser_header, ser_body.
  apply ib_cons; [assumption|]. apply ib_app; [assumption|]. apply ib_app; [|apply to_be32_bytes].
  apply ib_app; [ib; lia|].
  apply ib_app; [ib|]. apply ib_app; [apply to_be32_bytes|]. apply ib_app; [ib; lia|].
  apply ib_app; [exact C|]. apply ib_app; [apply to_be16_bytes|]. apply ib_app; [exact D|exact Hst].
Qed.
