(* C12, time clause sharpened: EBPTime (SetEBPTime t) is EXACT except for the sub-second values n = k * 5^9 - 1
   (k = 1..511), where it is exactly one nanosecond late; it is never early. *)
From Coq Require Import Znumtheory.
From Gots Require Import Base.Prelude Model.Ebp Spec.EbpSpec Proofs.EbpTime.
Import Ebp.
Local Open Scope Z_scope.

Lemma coprime_5_2 : rel_prime 1953125 8388608.
Proof. apply Zgcd_1_rel_prime. vm_compute. reflexivity. Qed.

Lemma mod5_gauss m : (m * 8388608) mod 1953125 = 0 <-> m mod 1953125 = 0.
Proof.
  rewrite !Z.mod_divide by discriminate. split; intro H.
  - apply (Gauss 1953125 8388608 m); [rewrite Z.mul_comm; exact H | exact coprime_5_2].
  - apply Z.divide_mul_l. exact H.
Qed.

Lemma frac_exact n : 0 <= n < 1000000000 ->
  dec (enc n) = if ((n + 1) mod 1953125 =? 0) && (n <? 999999999) then n + 1 else n.
Proof.
  intro H. destruct (Z.ltb_spec n 999999999) as [Hn|Hn].
  - rewrite andb_true_r.
    assert (E1 : enc n = (n + 1) * 8388608 / 1953125) by (unfold enc; lia).
    rewrite E1. unfold dec.
    set (m := n + 1) in *. assert (Hm : 1 <= m < 1000000000) by lia.
    assert (E2 : m * 8388608 / 1953125 * 1000000000 / 4294967296 = m * 8388608 / 1953125 * 1953125 / 8388608) by lia.
    rewrite E2.
    pose proof (Z.div_mod (m * 8388608) 1953125 ltac:(discriminate)) as D.
    pose proof (Z.mod_pos_bound (m * 8388608) 1953125 ltac:(lia)) as B.
    pose proof (mod5_gauss m) as G.
    set (q := m * 8388608 / 1953125) in *. set (r := (m * 8388608) mod 1953125) in *.
    destruct (Z.eqb_spec (m mod 1953125) 0) as [Z0|NZ].
    + assert (r = 0) by (apply G; exact Z0). clearbody q r. lia.
    + assert (r <> 0) by (intro R0; apply NZ, G; exact R0). clearbody q r. lia.
  - rewrite andb_false_r. assert (n = 999999999) by lia. subst n. vm_compute. reflexivity.
Qed.

(* the value read back, for every instant of the representable range *)
Lemma time_value (e : t) (tm : Z) :
  2147483648 * 1000000000 <= tm < (4294967296 + 2147483648) * 1000000000 ->
  EBPTime (SetEBPTime e tm) = tm - tm mod 1000000000 + dec (enc (tm mod 1000000000)).
Proof.
  intros H. unfold EBPTime, SetEBPTime. rewrite (insert_range tm H). cbn [set_Time TimeSeconds TimeFraction].
  set (nanos := if tm <? 4294967296 * 1000000000 then tm else tm - 4294967296 * 1000000000).
  assert (Hmod : nanos mod 1000000000 = tm mod 1000000000).
  { subst nanos. destruct (Z.ltb_spec tm (4294967296 * 1000000000)); [reflexivity|]. lia. }
  pose proof (frac_roundtrip (nanos mod 1000000000)) as F.
  assert (Hn : 0 <= nanos mod 1000000000 < 1000000000) by (apply Z.mod_pos_bound; lia).
  specialize (F Hn).
  assert (He : 0 <= enc (nanos mod 1000000000) < 4294967296) by (unfold enc; lia).
  assert (Hq : 0 <= nanos / 1000000000 < 4294967296) by (subst nanos; destruct (Z.ltb_spec tm (4294967296 * 1000000000)); lia).
  rewrite extract_small by lia.
  unfold EbpSpec.ntp_ns. rewrite !Z2N.id by lia. fold (dec (enc (nanos mod 1000000000))).
  rewrite Hmod in *. set (d := dec (enc (tm mod 1000000000))) in *. clearbody d.
  subst nanos. destruct (Z.ltb_spec tm (4294967296 * 1000000000)) as [Ht|Ht];
  match goal with |- context [if ?c then _ else _] => destruct c eqn:Hc end; lia.
Qed.

Theorem time_exact_iff (e : t) (tm : Z) :
  2147483648 * 1000000000 <= tm < (4294967296 + 2147483648) * 1000000000 ->
  EBPTime (SetEBPTime e tm) =
    if ((tm mod 1000000000 + 1) mod 1953125 =? 0) && (tm mod 1000000000 <? 999999999) then tm + 1 else tm.
Proof.
  intro H. rewrite (time_value e tm H).
  assert (Hn : 0 <= tm mod 1000000000 < 1000000000) by (apply Z.mod_pos_bound; lia).
  rewrite (frac_exact _ Hn).
  destruct (((tm mod 1000000000 + 1) mod 1953125 =? 0) && (tm mod 1000000000 <? 999999999)); lia.
Qed.
