(* C02, part 4: SetAdaptationFieldControl, all from/to pairs of the control bits.
   A packet is written  ser_hdr h ++ X  (4 header bytes of the logical header h, then the other 184
   bytes X); every 188-byte packet has that form (HdrBits.ser_hdr_of).  The transitions that create
   the adaptation field (00/01 -> 10/11) and 10 -> 11, 11 -> 11 are in Proofs/PayloadSet.v. *)
From Gots Require Import Base.Prelude Base.PacketLemmas Model.Packet Spec.Iso13818Hdr
  Proofs.HdrBits Proofs.PayloadPart Proofs.PayloadSet.
Import Packet.
Local Open Scope N_scope.

Lemma hdr_ok_with_afc h v : Iso.hdr_ok h -> v < 4 -> Iso.hdr_ok (Iso.with_afc h v).
Proof.
  intros (A & B & C' & D & F & G & I & J) Hv. unfold Iso.hdr_ok, Iso.with_afc.
  cbn [Iso.sync Iso.tei Iso.pusi Iso.tp Iso.pid Iso.tsc Iso.afc Iso.cc]. repeat split; assumption.
Qed.
Lemma pkt_of_parts h X : Iso.hdr_ok h -> is_bytes X -> len X = 184 -> is_pkt (Iso.ser_hdr h ++ X).
Proof.
  intros HOK XB LX. split; [rewrite app_length; unfold len in LX; cbn [length Iso.ser_hdr]; lia|].
  apply is_bytes_app. split; [apply ser_hdr_bytes; exact HOK | exact XB].
Qed.
Lemma has_af_parts h X : Iso.hdr_ok h -> is_bytes X -> len X = 184 ->
  HasAdaptationField (Iso.ser_hdr h ++ X) = Iso.has_af h.
Proof.
  intros HOK XB LX. destruct (byte3_facts _ (pkt_of_parts h X HOK XB LX)) as (_ & _ & _ & _ & _ & _ & _ & HA).
  rewrite HA, hdr_of_ser by exact HOK. reflexivity.
Qed.

Section Parts.
Variables (h : Iso.hdr) (X : bytes).
Hypothesis HOK : Iso.hdr_ok h.
Hypothesis XB : is_bytes X.
Hypothesis LX : len X = 184.

(* to 00 or 01: only the two control bits change, whatever the packet holds; never an error.
   (From 10/11 the former adaptation field becomes the head of the payload / is ignored.) *)
Lemma set_afc_drops_field v : v < 2 ->
  SetAdaptationFieldControl (Iso.ser_hdr h ++ X) v = (Iso.ser_hdr (Iso.with_afc h v) ++ X, None).
Proof.
  intros Hv. unfold SetAdaptationFieldControl.
  rewrite (set_afc_byte_ser h X v HOK XB LX ltac:(lia)).
  rewrite (has_af_parts (Iso.with_afc h v) X (hdr_ok_with_afc h v HOK ltac:(lia)) XB LX).
  unfold Iso.has_af, Iso.with_afc. cbn [Iso.afc].
  replace (v / 2 =? 1) with false by (symmetry; apply N.eqb_neq; lia).
  rewrite andb_false_r. replace (v =? 3) with false by (symmetry; apply N.eqb_neq; lia). reflexivity.
Qed.

(* to 10 when the field is already flagged (from 10 or 11): only the control bits change *)
Lemma set_afc2_keeps_field : Iso.has_af h = true ->
  SetAdaptationFieldControl (Iso.ser_hdr h ++ X) 2 = (Iso.ser_hdr (Iso.with_afc h 2) ++ X, None).
Proof.
  intros HA. unfold SetAdaptationFieldControl.
  rewrite (set_afc_byte_ser h X 2 HOK XB LX ltac:(lia)).
  rewrite (has_af_parts h X HOK XB LX), HA. cbn [negb andb]. reflexivity.
Qed.

(* the call starts by rewriting the control bits: from 00 it continues exactly as from 01 *)
Lemma set_afc_from0_as_from1 v : v < 4 -> Iso.afc h = 0 ->
  SetAdaptationFieldControl (Iso.ser_hdr h ++ X) v =
  SetAdaptationFieldControl (Iso.ser_hdr (Iso.with_afc h 1) ++ X) v.
Proof.
  intros Hv A0. pose proof (hdr_ok_with_afc h 1 HOK ltac:(lia)) as HOK1.
  unfold SetAdaptationFieldControl.
  rewrite (set_afc_byte_ser h X v HOK XB LX Hv).
  rewrite (set_afc_byte_ser (Iso.with_afc h 1) X v HOK1 XB LX Hv).
  rewrite (has_af_parts h X HOK XB LX), (has_af_parts _ X HOK1 XB LX).
  unfold Iso.has_af. rewrite A0. cbn [Iso.with_afc Iso.afc].
  change (0 / 2 =? 1) with false. change (1 / 2 =? 1) with false.
  replace (Iso.with_afc (Iso.with_afc h 1) v) with (Iso.with_afc h v) by (destruct h; reflexivity).
  reflexivity.
Qed.

(* 00/01 -> 10 and 00/01 -> 11: the adaptation field is created (length 183 resp. 182, flags 0,
   stuffing; with 11 one payload byte 0xFF is left); the old 184 bytes are destroyed *)
Lemma set_afc_creates_any : Iso.sync h = 71 -> Iso.has_af h = false ->
  SetAdaptationFieldControl (Iso.ser_hdr h ++ X) 2 =
    (Iso.ser_pkt (Iso.mkLpkt (Iso.with_afc h 2) (Iso.AF Iso.laf0 (repeatN 255 182)) []), None) /\
  SetAdaptationFieldControl (Iso.ser_hdr h ++ X) 3 =
    (Iso.ser_pkt (Iso.mkLpkt (Iso.with_afc h 3) (Iso.AF Iso.laf0 (repeatN 255 181)) [255]), None).
Proof.
  intros S HA.
  assert (forall h1, Iso.hdr_ok h1 -> Iso.sync h1 = 71 -> Iso.afc h1 = 1 -> Iso.wf_lpkt (Iso.mkLpkt h1 Iso.NoAF X)) as WF.
  { intros h1 O1 S1 A1. unfold Iso.wf_lpkt. cbn [Iso.lh Iso.lf Iso.lpayload Iso.afield_ok].
    repeat split; try assumption; try (destruct O1 as (A & B & C' & D & F & G & I & J); assumption).
    unfold Iso.ser_pkt. cbn [Iso.lh Iso.lf Iso.lpayload Iso.ser_af app]. rewrite app_length.
    cbn [length Iso.ser_hdr]. unfold len in LX. lia. }
  assert (Iso.afc h = 0 \/ Iso.afc h = 1) as [A0|A1].
  { unfold Iso.has_af in HA. apply N.eqb_neq in HA. destruct HOK as (_ & _ & _ & _ & _ & _ & I & _). lia. }
  - rewrite (set_afc_from0_as_from1 2 ltac:(lia) A0), (set_afc_from0_as_from1 3 ltac:(lia) A0).
    pose proof (set_afc_creates (Iso.with_afc h 1) X
                  (WF _ (hdr_ok_with_afc h 1 HOK ltac:(lia)) S eq_refl)) as C.
    cbv zeta in C. unfold Iso.ser_pkt at 1 3 in C. cbn [Iso.lh Iso.lf Iso.lpayload Iso.ser_af app] in C.
    replace (Iso.with_afc (Iso.with_afc h 1) 2) with (Iso.with_afc h 2) in C by (destruct h; reflexivity).
    replace (Iso.with_afc (Iso.with_afc h 1) 3) with (Iso.with_afc h 3) in C by (destruct h; reflexivity).
    exact C.
  - pose proof (set_afc_creates h X (WF h HOK S A1)) as C.
    cbv zeta in C. unfold Iso.ser_pkt at 1 3 in C. cbn [Iso.lh Iso.lf Iso.lpayload Iso.ser_af app] in C. exact C.
Qed.
End Parts.

(* ------------------------------------------------------------------ well-formed packets: the complete table *)
Lemma wf_parts l : Iso.wf_lpkt l ->
  let X := Iso.ser_af (Iso.lf l) ++ Iso.lpayload l in
  Iso.ser_pkt l = Iso.ser_hdr (Iso.lh l) ++ X /\ Iso.hdr_ok (Iso.lh l) /\ is_bytes X /\ len X = 184.
Proof.
  intros W X. pose proof (wf_is_pkt l W) as [_ PB]. pose proof (wf_len l W) as L.
  assert (Iso.hdr_ok (Iso.lh l)) as HOK by (destruct W as (O & _); exact O).
  unfold Iso.ser_pkt in *. fold X in PB, L. split; [reflexivity|]. split; [exact HOK|].
  apply is_bytes_app in PB. split; [exact (proj2 PB)|]. rewrite len_app, len_ser_hdr in L. lia.
Qed.

(* the stuffing bytes of the adaptation field (what SetAdaptationFieldControl(11) can give up) *)
Definition stuffing_of (l : Iso.lpkt) : bytes := match Iso.lf l with Iso.AF _ st => st | _ => [] end.

(* which calls fail: exactly 10 -> 11 on a packet whose adaptation field has no stuffing byte *)
Lemma set_afc_error_iff l v : Iso.wf_lpkt l -> v < 4 ->
  snd (SetAdaptationFieldControl (Iso.ser_pkt l) v) =
  if (Iso.afc (Iso.lh l) =? 2) && (v =? 3) && negb (nonempty_b (stuffing_of l))
  then Some E.AdaptationFieldTooLarge else None.
Proof.
  intros W Hv. destruct (wf_parts l W) as (EP & HOK & XB & LX). cbv zeta in *.
  assert (v = 0 \/ v = 1 \/ v = 2 \/ v = 3) as Vc by lia.
  assert (Iso.sync (Iso.lh l) = 71) as S by (destruct W as (_ & S & _); exact S).
  destruct (wf_afc_cases l W) as [[F A]|[(F & A & P)|(F & A & P)]]; rewrite A.
  - (* from 01 *)
    change (1 =? 2) with false. cbn [andb].
    assert (Iso.has_af (Iso.lh l) = false) as HA by (unfold Iso.has_af; rewrite A; reflexivity).
    destruct Vc as [-> | [-> | [-> | ->]]]; rewrite EP.
    + rewrite set_afc_drops_field by (assumption || lia). reflexivity.
    + rewrite set_afc_drops_field by (assumption || lia). reflexivity.
    + rewrite (proj1 (set_afc_creates_any _ _ HOK XB LX S HA)). reflexivity.
    + rewrite (proj2 (set_afc_creates_any _ _ HOK XB LX S HA)). reflexivity.
  - (* from 10 *)
    change (2 =? 2) with true. cbn [andb].
    assert (Iso.has_af (Iso.lh l) = true) as HA by (unfold Iso.has_af; rewrite A; reflexivity).
    destruct Vc as [-> | [-> | [-> | ->]]].
    + rewrite EP, set_afc_drops_field by (assumption || lia). reflexivity.
    + rewrite EP, set_afc_drops_field by (assumption || lia). reflexivity.
    + rewrite EP, set_afc2_keeps_field by assumption. reflexivity.
    + change (3 =? 3) with true. cbn [andb].
      destruct l as [h f pay]. cbn [Iso.lh Iso.lf Iso.lpayload] in *. subst pay.
      destruct f as [| |a st]; [congruence | | ].
      * (* an empty adaptation field cannot fill an adaptation-field-only packet *)
        exfalso. rewrite len_app in LX. cbn in LX. lia.
      * rewrite (set_afc3_on_af_only h a st W). unfold stuffing_of. cbn [Iso.lf].
        destruct st; reflexivity.
  - (* from 11 *)
    change (3 =? 2) with false. cbn [andb].
    assert (Iso.has_af (Iso.lh l) = true) as HA by (unfold Iso.has_af; rewrite A; reflexivity).
    destruct Vc as [-> | [-> | [-> | ->]]].
    + rewrite EP, set_afc_drops_field by (assumption || lia). reflexivity.
    + rewrite EP, set_afc_drops_field by (assumption || lia). reflexivity.
    + rewrite EP, set_afc2_keeps_field by assumption. reflexivity.
    + rewrite set_afc3_noop; [reflexivity | exact (wf_is_pkt l W) | rewrite (wf_hdr_of l W); exact A |].
      (* adaptation_field_length <= 182 when a payload byte follows *)
      unfold AFP.Length, get. rewrite EP. rewrite nthN_app_r by (rewrite len_ser_hdr; lia). rewrite len_ser_hdr.
      change (4 - 4) with 0.
      destruct (Iso.lpayload l) as [|x pay] eqn:PE; [congruence|].
      destruct (Iso.lf l) as [| |a st]; [congruence | cbn; lia |].
      cbn [Iso.ser_af app]. unfold nthN. cbn [N.to_nat nth].
      rewrite !len_app, !len_cons in LX. cbn [Iso.ser_af] in LX. rewrite len_cons, len_app in LX. lia.
Qed.
