(* C09: the encoder's output is a string of bytes on decodable states. *)
From Gots Require Import Base.Prelude Model.Pts Model.Scte Model.ScteEnc Spec.Scte35Spec
  Proofs.ScteLemmas Proofs.ScteExpected Proofs.ScteLogical Proofs.ScteDecode Proofs.ScteEncode Proofs.ScteRoundtrip Proofs.ScteBytes.
Import Scte ScteEnc Scte35Spec.
Local Open Scope N_scope.

Lemma ib_repeat0 n : is_bytes (repeatN 0 n).
Proof. unfold repeatN, is_bytes. apply Forall_forall. intros x Hx. apply repeat_spec in Hx. subst. unfold is_byte. lia. Qed.

Theorem encode_is_bytes fs st : decodable fs st -> s_protocol st < 256 -> s_cw st < 256 ->
  is_bytes (fst (update_data st)).
Proof.
  intros Hd Hpv Hcw. pose proof (supported_logical fs st Hd) as ((Hsap & Hea & Hadj & Htier & Hcmd & Hcl & Hds & Hdl & Hsl) & Htid & Henc & _ & _).
  destruct Hd as (Hn & _).
  rewrite (encode_canonical fs st Hn). unfold ser_section. apply ib_app; [|apply to_be32_bytes].
  unfold logical. rewrite nocrc_with_crc.
  unfold logical, logical0 in *. cbn [with_crc si_sap si_enc_alg si_pts_adj si_tier si_cmd si_descs si_table_id si_encrypted] in *.
  set (L := mksi [] (s_tid st) (s_ssi st) (s_pi st) 3 (s_protocol st) (s_encrypted st) (s_enc_alg st)
                 (subtract_pts (s_pts st) (cmd_pts (s_cmd st))) (s_cw st) (s_tier st) false (logical_cmd (s_cmd st))
                 (fs ++ map logical_seg (s_descs st)) (repeatN 0 (s_stuffing st)) 0) in *.
  assert (Hclf : cmd_len_field L < 4096). { unfold cmd_len_field, L. cbn [si_legacy_len si_cmd]. cbv iota. eapply N.lt_trans; [exact Hcl|reflexivity]. }
  assert (Hct : command_type (logical_cmd (s_cmd st)) < 256).
  { destruct (logical_cmd (s_cmd st)) as [| | |ty body]; cbn [command_type wf_command] in *; try lia; apply Hcmd. }
  assert (Hsl' : section_length L < 4096) by exact Hsl.
  assert (H1 : 128 * b2n (s_ssi st) + 64 * b2n (s_pi st) + 16 * 3 + section_length L / 256 < 256)
    by (destruct (s_ssi st), (s_pi st); cbn [b2n]; lia).
  assert (H2 : 128 * b2n (s_encrypted st) + 2 * s_enc_alg st + subtract_pts (s_pts st) (cmd_pts (s_cmd st)) / T32 < 256)
    by (unfold T32; rewrite Henc; cbn [b2n]; lia).
  assert (D : is_bytes (ser_descriptors (fs ++ map logical_seg (s_descs st))))
    by (apply ib_flat_map; eapply Forall_impl; [|exact Hds]; apply ib_descriptor).
  pose proof (ib_command _ Hcmd) as C.
  unfold ser_section_nocrc, ser_header, ser_body, L.
  cbn [si_table_id si_ssi si_private si_sap si_protocol si_encrypted si_enc_alg si_pts_adj si_cw si_tier si_cmd si_descs si_stuffing].
  fold L. rewrite Htid in *.
  apply ib_app; [ib; lia|].
  apply ib_app; [ib|]. apply ib_app; [apply to_be32_bytes|]. apply ib_app; [ib; lia|].
  apply ib_app; [exact C|]. apply ib_app; [apply to_be16_bytes|]. apply ib_app; [exact D|apply ib_repeat0].
Qed.
