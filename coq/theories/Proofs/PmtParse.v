(* C06 L1: parsePMTSection inverts the section serialiser (stream loop and descriptor loop with
   uint16 offsets as ghosts equal to the length of what has been consumed). *)
From Gots Require Import Base.Prelude Model.Psi Model.Pmt Spec.PmtSpec Proofs.PmtBase.
Import Pmt.
Local Open Scope N_scope.

Lemma ser_descs_cons d ds post :
  ser_descs (d :: ds) ++ post = dtag d :: len (ddata d) :: ddata d ++ ser_descs ds ++ post.
Proof. unfold ser_descs. cbn [flat_map]. unfold ser_desc. rewrite <- !app_assoc. reflexivity. Qed.
Lemma len_ser_descs_cons d ds : len (ser_descs (d :: ds)) = 2 + len (ddata d) + len (ser_descs ds).
Proof. rewrite <- (app_nil_r (ser_descs (d :: ds))), ser_descs_cons, !len_cons, !len_app, len_nil. lia. Qed.
Lemma ser_descs_count ds : 2 * N.of_nat (length ds) <= len (ser_descs ds).
Proof. induction ds as [|d ds IH]; [cbn; lia|]. rewrite len_ser_descs_cons. cbn [length]. lia. Qed.
Lemma ser_descs_len0 ds : len (ser_descs ds) = 0 -> ds = [].
Proof. destruct ds as [|d ds]; [reflexivity|]. rewrite len_ser_descs_cons. lia. Qed.

(* ---------- inner loop (pattern of notes/spikes/Loop_parse_descs.v) ---------- *)
Lemma parse_descs_ok : forall ds fuel pre done post acc,
  Forall wf_desc ds ->
  len (pre ++ done ++ ser_descs ds ++ post) < 65536 -> 0 < len post ->
  (length ds < fuel)%nat ->
  parse_descs fuel (pre ++ done ++ ser_descs ds ++ post) (len pre) (len done + len (ser_descs ds)) (len done) acc
  = Ok (acc ++ ds).
Proof.
  induction ds as [|[tag data] ds IH]; intros fuel pre done post acc Hwf Hlen Hpost Hfuel;
    (destruct fuel as [|fuel]; [cbn in Hfuel; lia|]); cbn [parse_descs].
  - change (ser_descs []) with (@nil N). rewrite len_nil.
    replace (len done <? len done + 0) with false by lia.
    rewrite app_nil_r. reflexivity.
  - inversion Hwf as [|? ? [Ht [Hl Hd]] Hwf']; subst. cbn [dtag ddata] in *.
    rewrite len_ser_descs_cons. rewrite ser_descs_cons in *. cbn [dtag ddata] in *.
    rewrite !len_app, !len_cons, !len_app in Hlen.
    set (BS := pre ++ done ++ tag :: len data :: data ++ ser_descs ds ++ post).
    replace (len done <? len done + (2 + len data + len (ser_descs ds))) with true by lia.
    assert (LB: len BS = len pre + (len done + (2 + len data + len (ser_descs ds) + len post))).
    { unfold BS. rewrite !len_app, !len_cons, !len_app. lia. }
    assert (B1: idx BS (w16 (len pre + len done)) = Ok tag).
    { unfold BS. rewrite w16_small by lia. rewrite app_assoc. apply idx_app_r. rewrite len_app. reflexivity. }
    rewrite B1. cbn [bind].
    assert (B2: idx BS (w16 (len pre + w16 (len done + 1))) = Ok (len data)).
    { unfold BS. rewrite !w16_small by (rewrite ?w16_small by lia; lia).
      replace (pre ++ done ++ tag :: len data :: data ++ ser_descs ds ++ post)
        with ((pre ++ done ++ [tag]) ++ len data :: data ++ ser_descs ds ++ post)
        by (rewrite <- !app_assoc; reflexivity).
      apply idx_app_r. rewrite !len_app, len_cons, len_nil. lia. }
    rewrite B2. cbn [bind].
    rewrite !(w16_small (len done + 1)) by lia. rewrite !(w16_small (len done + 1 + 1)) by lia.
    rewrite !(w16_small (len pre + (len done + 1 + 1))) by lia.
    rewrite !(w16_small (len pre + (len done + 1 + 1) + len data)) by lia.
    replace (len pre + (len done + 1 + 1) + len data <? len BS) with true by lia.
    assert (B3: slice BS (len pre + (len done + 1 + 1)) (len pre + (len done + 1 + 1) + len data) = Ok data).
    { unfold BS.
      replace (pre ++ done ++ tag :: len data :: data ++ ser_descs ds ++ post)
        with ((pre ++ done ++ [tag; len data]) ++ data ++ (ser_descs ds ++ post))
        by (rewrite <- !app_assoc; reflexivity).
      apply slice_mid; rewrite !len_app, !len_cons, len_nil; lia. }
    rewrite B3. cbn [bind].
    rewrite (w16_small (len done + 1 + 1 + len data)) by lia.
    replace (acc ++ {| dtag := tag; ddata := data |} :: ds) with ((acc ++ [{| dtag := tag; ddata := data |}]) ++ ds)
      by (rewrite <- app_assoc; reflexivity).
    unfold BS.
    replace (pre ++ done ++ tag :: len data :: data ++ ser_descs ds ++ post)
      with (pre ++ (done ++ tag :: len data :: data) ++ ser_descs ds ++ post)
      by (rewrite <- !app_assoc; reflexivity).
    replace (len done + 1 + 1 + len data) with (len (done ++ tag :: len data :: data))
      by (rewrite len_app, !len_cons; lia).
    replace (len done + (2 + len data + len (ser_descs ds))) with (len (done ++ tag :: len data :: data) + len (ser_descs ds))
      by (rewrite len_app, !len_cons; lia).
    apply IH; try assumption.
    + rewrite ?len_app, ?len_cons, ?len_app. lia.
    + cbn in Hfuel. lia.
Qed.

(* ---------- outer loop ---------- *)
Lemma ser_streams_cons e ss post :
  ser_streams (e :: ss) ++ post =
  stype e :: (224 + epid e / 256) :: epid e mod 256 ::
  (240 + len (ser_descs (descs e)) / 256) :: len (ser_descs (descs e)) mod 256 ::
  ser_descs (descs e) ++ ser_streams ss ++ post.
Proof. unfold ser_streams. cbn [flat_map]. unfold ser_es. rewrite <- !app_assoc. reflexivity. Qed.
Lemma len_ser_streams_cons e ss : len (ser_streams (e :: ss)) = 5 + len (ser_descs (descs e)) + len (ser_streams ss).
Proof. rewrite <- (app_nil_r (ser_streams (e :: ss))), ser_streams_cons, !len_cons, !len_app, len_nil. lia. Qed.
Lemma ser_streams_count ss : 5 * N.of_nat (length ss) <= len (ser_streams ss).
Proof. induction ss as [|e ss IH]; [cbn; lia|]. rewrite len_ser_streams_cons. cbn [length]. lia. Qed.

Lemma idx_off pre l k : idx (pre ++ l) (len pre + k) = idx l k.
Proof. rewrite idx_app_skip by lia. f_equal. lia. Qed.

Lemma parse_streams_ok : forall ss fuel pre post bound ps acc,
  Forall wf_es ss ->
  len (pre ++ ser_streams ss ++ post) < 65536 -> 0 < len post ->
  bound + 4 = len pre + len (ser_streams ss) ->
  (length ss < fuel)%nat ->
  parse_streams fuel (pre ++ ser_streams ss ++ post) (len pre) bound ps acc = Ok (ps ++ map epid ss, acc ++ ss).
Proof.
  induction ss as [|[t p ds] ss IH]; intros fuel pre post bound ps acc Hwf Hlen Hpost Hb Hfuel;
    (destruct fuel as [|fuel]; [cbn in Hfuel; lia|]); cbn [parse_streams].
  - change (ser_streams []) with (@nil N) in *. rewrite len_nil in Hb.
    replace (len pre <? bound) with false by lia. cbn [map]. rewrite !app_nil_r. reflexivity.
  - inversion Hwf as [|? ? [Ht [Hp [Hds Hil]]] Hwf']; subst. cbn [stype epid descs] in *.
    rewrite len_ser_streams_cons in Hb. cbn [descs] in Hb.
    rewrite ser_streams_cons in *. cbn [stype epid descs] in *.
    set (il := len (ser_descs ds)) in *.
    rewrite !len_app, !len_cons, !len_app in Hlen. fold il in Hlen.
    set (H5 := [t; 224 + p / 256; p mod 256; 240 + il / 256; il mod 256]).
    set (REST := ser_descs ds ++ ser_streams ss ++ post).
    change (pre ++ t :: 224 + p / 256 :: p mod 256 :: 240 + il / 256 :: il mod 256 :: REST) with (pre ++ H5 ++ REST).
    set (BS := pre ++ H5 ++ REST).
    assert (LR: len REST = il + (len (ser_streams ss) + len post)) by (unfold REST; rewrite !len_app; reflexivity).
    assert (LB: len BS = len pre + (5 + len REST)).
    { unfold BS, H5. rewrite !len_app, !len_cons, len_nil. lia. }
    replace (len pre <? bound) with true by lia.
    assert (R0: idx BS (len pre) = Ok t).
    { unfold BS. rewrite <- (N.add_0_r (len pre)) at 1. rewrite idx_off. reflexivity. }
    assert (R1: idx BS (w16 (len pre + 1)) = Ok (224 + p / 256)).
    { unfold BS. rewrite w16_small by lia. rewrite idx_off. reflexivity. }
    assert (R2: idx BS (w16 (len pre + 2)) = Ok (p mod 256)).
    { unfold BS. rewrite w16_small by lia. rewrite idx_off. reflexivity. }
    assert (R3: idx BS (w16 (len pre + 3)) = Ok (240 + il / 256)).
    { unfold BS. rewrite w16_small by lia. rewrite idx_off. reflexivity. }
    assert (R4: idx BS (w16 (len pre + 4)) = Ok (il mod 256)).
    { unfold BS. rewrite w16_small by lia. rewrite idx_off. reflexivity. }
    rewrite R0, R1, R2, R3, R4. cbn [bind]. cbn [map epid].
    rewrite (field_224 p) by lia. rewrite (field_240 il) by lia.
    rewrite (w16_small (len pre + 5)) by lia.
    assert (EQ: BS = (pre ++ H5) ++ [] ++ ser_descs ds ++ (ser_streams ss ++ post)).
    { unfold BS, REST. rewrite <- !app_assoc. reflexivity. }
    assert (L5: len (pre ++ H5) = len pre + 5) by (unfold H5; rewrite len_app, !len_cons, len_nil; lia).
    destruct (N.eq_dec il 0) as [Z|NZ].
    + (* no descriptors *)
      assert (ds = []) by (apply ser_descs_len0; exact Z). subst ds.
      rewrite Z. cbn [N.eqb negb andb].
      replace (ps ++ p :: map epid ss) with ((ps ++ [p]) ++ map epid ss) by (rewrite <- app_assoc; reflexivity).
      replace (acc ++ {| stype := t; epid := p; descs := [] |} :: ss)
        with ((acc ++ [{| stype := t; epid := p; descs := [] |}]) ++ ss) by (rewrite <- app_assoc; reflexivity).
      rewrite <- L5. rewrite EQ. cbn [ser_descs flat_map app].
      apply IH; try assumption.
      * rewrite (len_app (pre ++ H5)), L5, len_app. lia.
      * rewrite L5. lia.
      * cbn in Hfuel. lia.
    + replace (negb (il =? 0)) with true by (symmetry; apply negb_true_iff; apply N.eqb_neq; exact NZ).
      rewrite (w16_small (il + (len pre + 5))) by lia.
      replace (il + (len pre + 5) <? len BS) with true by lia. cbn [andb].
      assert (PD: parse_descs desc_fuel BS (len pre + 5) il 0 [] = Ok ([] ++ ds)).
      { assert (F: (length ds < desc_fuel)%nat).
        { pose proof (ser_descs_count ds) as C. unfold desc_fuel. fold il in C. lia. }
        assert (LL: len ((pre ++ H5) ++ [] ++ ser_descs ds ++ ser_streams ss ++ post) < 65536) by (rewrite <- EQ; lia).
        assert (LP: 0 < len (ser_streams ss ++ post)) by (rewrite len_app; lia).
        pose proof (parse_descs_ok ds desc_fuel (pre ++ H5) [] (ser_streams ss ++ post) [] Hds LL LP F) as K.
        rewrite <- EQ, L5 in K. change (len (@nil N)) with 0 in K. rewrite N.add_0_l in K. exact K. }
      rewrite PD. cbn [bind app].
      rewrite (w16_small (len pre + 5 + il)) by lia.
      replace (ps ++ p :: map epid ss) with ((ps ++ [p]) ++ map epid ss) by (rewrite <- app_assoc; reflexivity).
      replace (acc ++ {| stype := t; epid := p; descs := ds |} :: ss)
        with ((acc ++ [{| stype := t; epid := p; descs := ds |}]) ++ ss) by (rewrite <- app_assoc; reflexivity).
      assert (EQ2: BS = (pre ++ H5 ++ ser_descs ds) ++ ser_streams ss ++ post).
      { unfold BS, REST. rewrite <- !app_assoc. reflexivity. }
      assert (L6: len (pre ++ H5 ++ ser_descs ds) = len pre + 5 + il).
      { rewrite app_assoc, len_app, L5. reflexivity. }
      rewrite <- L6. rewrite EQ2.
      apply IH; try assumption.
      * rewrite <- EQ2. lia.
      * rewrite L6. lia.
      * cbn in Hfuel. lia.
Qed.

(* ---------- the section ---------- *)
Lemma version_byte v c : v < 32 ->
  N.shiftr (N.land (192 + 2 * v + b2n c) 62) 1 = v /\ (N.land (192 + 2 * v + b2n c) 1 =? 1) = c.
Proof. intros Hv.
  assert (S: forallb (fun a => forallb (fun b => (N.shiftr (N.land (192 + 2 * a + b) 62) 1 =? a)
            && Bool.eqb (N.land (192 + 2 * a + b) 1 =? 1) (b =? 1)) (nrange 2 0)) (nrange 32 0) = true) by (vm_compute; reflexivity).
  pose proof (sweep2 (fun a b => (N.shiftr (N.land (192 + 2 * a + b) 62) 1 =? a)
            && Bool.eqb (N.land (192 + 2 * a + b) 1 =? 1) (b =? 1)) 32 2 S v (b2n c) Hv) as K.
  assert (Hc: b2n c < N.of_nat 2) by (destruct c; cbn; lia). specialize (K Hc). cbv beta in K.
  apply andb_true_iff in K. destruct K as [K1 K2]. apply N.eqb_eq in K1. apply Bool.eqb_prop in K2.
  split; [exact K1|]. rewrite K2. destruct c; reflexivity. Qed.

Lemma stream_bound_eq sl : 9 <= sl -> sl <= 1023 -> stream_bound sl = sl - 5.
Proof. intros H1 H2. unfold stream_bound, sub16, w16. lia. Qed.

Lemma ser_sec_explicit s :
  ser_sec s =
  2 :: (176 + sec_len s / 256) :: sec_len s mod 256 ::
  prog s / 256 :: prog s mod 256 :: (192 + 2 * sversion s + b2n (scni s)) :: secno s :: lastno s ::
  (224 + pcr_pid s / 256) :: pcr_pid s mod 256 ::
  (240 + len (ser_descs (pdescs s)) / 256) :: len (ser_descs (pdescs s)) mod 256 ::
  ser_descs (pdescs s) ++ ser_streams (sstreams s) ++ crc s.
Proof. unfold ser_sec, ser_sec_nocrc, sec_head, sec_body, sec_fixed. rewrite <- !app_assoc. reflexivity. Qed.

Lemma len_sec_body s : len (sec_body s) = 9 + len (ser_descs (pdescs s)) + len (ser_streams (sstreams s)).
Proof. unfold sec_body, sec_fixed. rewrite !len_app, !len_cons, len_nil. lia. Qed.
Lemma len_ser_sec s : len (crc s) = 4 -> len (ser_sec s) = 3 + sec_len s.
Proof. intros H. unfold ser_sec, ser_sec_nocrc, sec_head, sec_len. rewrite !len_app, !len_cons, len_nil, H. lia. Qed.

Lemma section_length_ser_sec s rest : sec_len s <= 1021 ->
  Psi.section_length' (ser_sec s ++ rest) = sec_len s.
Proof. intros H. rewrite ser_sec_explicit. cbn [app]. unfold Psi.section_length'.
  rewrite !len_cons. match goal with |- (if ?c then _ else _) = _ => replace c with false by lia end.
  change (nthN _ 1) with (176 + sec_len s / 256). change (nthN _ 2) with (sec_len s mod 256).
  replace (176 + sec_len s / 256) with (44 * 4 + sec_len s / 256) by lia.
  apply field_len10; lia. Qed.

Lemma section_length_ser_sec0 s : sec_len s <= 1021 -> Psi.section_length' (ser_sec s) = sec_len s.
Proof. intros H. pose proof (section_length_ser_sec s [] H) as K. rewrite app_nil_r in K. exact K. Qed.

Theorem parse_section_ok s : wf_sec s -> parse_pmt_section (ser_sec s) = Ok (sec_result s).
Proof.
  intros (Hprog & Hver & Hsn & Hln & Hpcr & Hpd & Hpil & Hss & Hsl & Hcrc & Hcb).
  unfold parse_pmt_section.
  rewrite section_length_ser_sec0 by exact Hsl. cbv zeta.
  pose proof (len_ser_sec s Hcrc) as LS. pose proof (len_sec_body s) as LBD.
  assert (Hsl9: 13 <= sec_len s) by (unfold sec_len; lia).
  replace (len (ser_sec s) <=? 11) with false by lia.
  replace (sec_len s <? 9) with false by lia.
  unfold Psi.table_version_and_cni. replace (len (ser_sec s) <? 6) with false by lia.
  assert (I5: idx (ser_sec s) 5 = Ok (192 + 2 * sversion s + b2n (scni s))) by (rewrite ser_sec_explicit; reflexivity).
  assert (I10: idx (ser_sec s) 10 = Ok (240 + len (ser_descs (pdescs s)) / 256)) by (rewrite ser_sec_explicit; reflexivity).
  assert (I11: idx (ser_sec s) 11 = Ok (len (ser_descs (pdescs s)) mod 256)) by (rewrite ser_sec_explicit; reflexivity).
  rewrite I5. cbn [bind]. rewrite I10, I11. cbn [bind].
  destruct (version_byte (sversion s) (scni s) Hver) as [V1 V2]. rewrite V1, V2.
  rewrite field_240 by lia. rewrite stream_bound_eq by lia.
  set (pil := len (ser_descs (pdescs s))) in *.
  rewrite w16_small by lia.
  set (PRE := [2; 176 + sec_len s / 256; sec_len s mod 256; prog s / 256; prog s mod 256;
               192 + 2 * sversion s + b2n (scni s); secno s; lastno s; 224 + pcr_pid s / 256; pcr_pid s mod 256;
               240 + pil / 256; pil mod 256] ++ ser_descs (pdescs s)).
  assert (EQ: ser_sec s = PRE ++ ser_streams (sstreams s) ++ crc s).
  { rewrite ser_sec_explicit. unfold PRE. fold pil. rewrite <- !app_assoc. reflexivity. }
  assert (LP: len PRE = 12 + pil) by (unfold PRE; rewrite len_app, !len_cons, len_nil; fold pil; lia).
  rewrite <- LP. rewrite EQ.
  rewrite parse_streams_ok.
  - cbn [bind fst snd app]. reflexivity.
  - exact Hss.
  - rewrite <- EQ. lia.
  - lia.
  - rewrite LP. unfold sec_len. lia.
  - rewrite <- EQ. pose proof (ser_streams_count (sstreams s)). unfold sec_len in *. unfold len in *. lia.
Qed.
