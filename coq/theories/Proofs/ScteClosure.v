(* C09: "all sequences of setter calls".  The value-width part of `normal` (wid_sig) is an invariant of EVERY history of
   in-type setter calls (from CreateSCTE35, or from any state that has it); what remains of `normal` is `fits`: the
   lengths must be representable (8-bit counts and lengths, 10-bit section_length).  Hence: for every typed history whose
   result fits, UpdateData is the canonical serialisation of the field values the getters report.
   Also the getter laws of the setters reached through Components()[j] and MID()[j]. *)
From Gots Require Import Base.Prelude Model.Pts Model.Scte Model.ScteEnc Spec.Scte35Spec
  Proofs.ScteLemmas Proofs.ScteExpected Proofs.ScteLogical Proofs.ScteEncode Proofs.ScteSetters.
Import Scte ScteEnc Scte35Spec.
Local Open Scope N_scope.

(* ---------------- getter laws through Components()[j] / MID()[j] ---------------- *)
Lemma comp_setters c :
  (forall v, c_tag (apply_comp_op (CSetTag v) c) = v) /\
  (forall b, c_has_pts (apply_comp_op (CSetHasPTS b) c) = b) /\
  (forall v, c_pts (apply_comp_op (CSetPTS v) c) = v mod 8589934592).
Proof. destruct c. repeat split. Qed.
Lemma co_setters c :
  (forall v, co_tag (apply_co_op (CoSetTag v) c) = v /\ co_off (apply_co_op (CoSetTag v) c) = co_off c) /\
  (forall v, co_off (apply_co_op (CoSetOffset v) c) = v mod 8589934592 /\ co_tag (apply_co_op (CoSetOffset v) c) = co_tag c).
Proof. destruct c. repeat split. Qed.

Lemma insert_component_law i j o c0 : (j < length (i_components i))%nat ->
  let i' := apply_ins_op (IComp j o) i in
  nth j (i_components i') c0 = apply_comp_op o (nth j (i_components i) c0) /\
  (forall k, k <> j -> nth k (i_components i') c0 = nth k (i_components i) c0) /\
  length (i_components i') = length (i_components i) /\
  i_event_id i' = i_event_id i /\ i_pts i' = i_pts i /\ i_duration i' = i_duration i.
Proof.
  destruct i. cbn [apply_ins_op i_components i_event_id i_pts i_duration]. intros H. repeat split.
  - apply upd_nth_nth. exact H.
  - intros k Hk. apply upd_nth_other. congruence.
  - apply upd_nth_length.
Qed.

Lemma desc_component_law d j o c0 : (j < length (d_components d))%nat ->
  let d' := apply_desc_op (DComp j o) d in
  nth j (d_components d') c0 = apply_co_op o (nth j (d_components d) c0) /\
  (forall k, k <> j -> nth k (d_components d') c0 = nth k (d_components d) c0) /\
  length (d_components d') = length (d_components d) /\ d_event_id d' = d_event_id d /\ d_mid d' = d_mid d.
Proof.
  destruct d. cbn [apply_desc_op d_components d_event_id d_mid]. intros H. repeat split.
  - apply upd_nth_nth. exact H.
  - intros k Hk. apply upd_nth_other. congruence.
  - apply upd_nth_length.
Qed.

Lemma mid_settype_law d j v : d_upid_type d = SegUPIDMID -> (j < length (d_mid d))%nat ->
  let d' := apply_desc_op (DMidSetUPIDType j v) d in
  let u0 := mkupid 0 0 [] in
  u_type (nth j (get_mid d') u0) = v /\ u_upid (nth j (get_mid d') u0) = u_upid (nth j (d_mid d) u0) /\
  u_len (nth j (d_mid d') u0) = u_len (nth j (d_mid d) u0) /\ length (d_mid d') = length (d_mid d).
Proof.
  destruct d as [ty eid hasdur dur uty u m sn se ssn sse owner cancel dnr hassub prog web nobl arch dev comps].
  cbn [d_upid_type d_mid]. intros -> Hj. unfold get_mid. cbn [apply_desc_op].
  change (SegUPIDMID =? SegUPIDMID) with true. cbn [negb d_upid_type d_mid].
  change (SegUPIDMID =? SegUPIDMID) with true. cbn [negb].
  revert j Hj. induction m as [|x m IH]; intros [|j] Hj; cbn in *; try lia.
  - repeat split; reflexivity.
  - destruct (IH j ltac:(lia)) as (A & B & C & D). repeat split; auto.
Qed.

(* ---------------- in-type arguments ---------------- *)
Definition typed_comp_op (o : comp_op) : Prop := match o with CSetTag v => v < 256 | _ => True end.
Definition typed_cmd_op (o : cmd_op) : Prop :=
  match o with
  | ISetEventID v => v < 4294967296
  | ISetUniqueProgramId v => v < 65536
  | ISetAvailNum v | ISetAvailsExpected v => v < 256
  | IComp _ c => typed_comp_op c
  | _ => True                       (* booleans; PTS / duration arguments of any size (uint64): the setters truncate *)
  end.
Definition typed_co_op (o : co_op) : Prop := match o with CoSetTag v => v < 256 | CoSetOffset _ => True end.
Definition typed_desc_op (o : desc_op) : Prop :=
  match o with
  | DSetEventID v => v < 4294967296
  | DSetTypeID v | DSetUPIDType v | DSetSegmentNumber v | DSetSegmentsExpected v
  | DSetSubSegmentNumber v | DSetSubSegmentsExpected v => v < 256
  | DSetUPID b => is_bytes b
  | DSetMID l => Forall (fun e => fst e < 256 /\ is_bytes (snd e)) l
  | DSetComponents l => Forall (fun e => fst e < 256) l
  | DMidSetUPID _ b => is_bytes b
  | DMidSetUPIDType _ v => v < 256
  | DComp _ c => typed_co_op c
  | _ => True                       (* booleans; duration / device restrictions of any size: the setters truncate *)
  end.
Definition typed_sig_op (o : sig_op) : Prop :=
  match o with
  | SSetCommandInfo _ ops => Forall typed_cmd_op ops
  | SSetDescriptors ds => Forall (Forall typed_desc_op) ds
  | SCmd o => typed_cmd_op o
  | SDesc _ o => typed_desc_op o
  | _ => True                       (* SetTier / SetAdjustPTS / SetPTS of any size: truncated; SetAlignmentStuffing: a length, see fits *)
  end.

(* ---------------- the width part of normal ---------------- *)
Definition wid_comp (c : component) : Prop := c_tag c < 256 /\ c_pts c < 8589934592.
Definition wid_ins (i : insert) : Prop :=
  i_event_id i < 4294967296 /\ i_pts i < 8589934592 /\ Forall wid_comp (i_components i) /\ i_duration i < 8589934592 /\
  i_unique_program_id i < 65536 /\ i_avail_num i < 256 /\ i_avails_expected i < 256.
Definition wid_cmd (c : Scte.command) : Prop :=
  match c with CNull => True | CTime _ p => p < 8589934592 | CInsert i => wid_ins i end.
Definition wid_mid (u : Scte.upid) : Prop := u_type u < 256 /\ u_len u = len (u_upid u) /\ is_bytes (u_upid u).
Definition wid_desc (d : segdesc) : Prop :=
  d_event_id d < 4294967296 /\ Forall (fun c => co_tag c < 256 /\ co_off c < 8589934592) (d_components d) /\
  d_duration d < 1099511627776 /\ d_device d < 4 /\ d_upid_type d < 256 /\
  (d_upid_type d = SegUPIDMID -> d_upid d = []) /\ (d_upid_type d <> SegUPIDMID -> d_mid d = []) /\
  Forall wid_mid (d_mid d) /\ is_bytes (d_upid d) /\
  d_type d < 256 /\ d_seg_num d < 256 /\ d_segs_expected d < 256 /\ d_sub_seg_num d < 256 /\ d_sub_segs_expected d < 256.
Definition wid_sig (fs : list descriptor) (s : scte) : Prop :=
  s_tid s < 256 /\ s_protocol s < 256 /\ s_enc_alg s < 64 /\ s_cw s < 256 /\ s_tier s < 4096 /\ s_pts s < 8589934592 /\
  s_cmd_type s = cmd_type (s_cmd s) /\ wid_cmd (s_cmd s) /\ Forall wid_desc (s_descs s) /\
  s_other s = ser_descriptors fs /\ Forall is_foreign fs.

(* ---------------- what is left of normal: representable lengths ---------------- *)
Definition fits_desc (d : segdesc) : Prop :=
  d_cancel d = false ->
  (d_program_seg d = false -> len (d_components d) < 256) /\
  (d_upid_type d = SegUPIDMID -> Forall (fun u => len (u_upid u) < 256) (d_mid d) /\ len (flat_map mid_elem_data (d_mid d)) < 256) /\
  (d_upid_type d <> SegUPIDMID -> len (d_upid d) < 256) /\
  len (seg_data d) < 258.
Definition fits (s : scte) : Prop :=
  Forall fits_desc (s_descs s) /\
  match s_cmd s with CInsert i => len (i_components i) < 256 | _ => True end /\
  13 + len (cmd_data (s_cmd s)) + len (s_other s ++ flat_map seg_data (s_descs s)) + 4 + s_stuffing s < 1024.

Lemma mid_forall m : Forall wid_mid m -> Forall (fun u => len (u_upid u) < 256) m ->
  Forall (fun u => u_type u < 256 /\ u_len u = len (u_upid u) /\ len (u_upid u) < 256 /\ is_bytes (u_upid u)) m.
Proof.
  intros A B. rewrite Forall_forall in *. intros u Hu. destruct (A _ Hu) as (X & Y & Z). specialize (B _ Hu). auto.
Qed.
Lemma normal_desc_of_wid d : wid_desc d -> fits_desc d -> normal_desc d.
Proof.
  intros (W1 & W2 & W3 & W4 & W5 & W6 & W7 & W8 & W9 & W10 & W11 & W12 & W13 & W14) F.
  unfold normal_desc, normal_desc_gen. split; [exact W1|]. intros Hc. destruct (F Hc) as (F1 & F2 & F3 & F4).
  repeat split; intros;
    first [ assumption | apply W6; assumption | apply W7; assumption | apply F1; assumption | apply F3; assumption
          | apply mid_forall; [exact W8|apply F2; assumption] | apply F2; assumption ].
Qed.

Lemma normal_cmd_of_wid c : wid_cmd c -> match c with CInsert i => len (i_components i) < 256 | _ => True end -> normal_cmd c.
Proof.
  destruct c as [|h p|i]; cbn [wid_cmd normal_cmd]; [auto|auto|].
  intros (W1 & W2 & W3 & W4 & W5 & W6 & W7) Hl. unfold normal_insert. split; [exact W1|]. intros _.
  repeat split; try assumption; intros; try assumption.
  eapply Forall_impl; [|exact W3]. intros c [A B]. split; [exact A|]. intros; exact B.
Qed.

Theorem normal_of_wid fs s : wid_sig fs s -> fits s -> normal fs s.
Proof.
  intros (W1 & W2 & W3 & W4 & W5 & W6 & W7 & W8 & W9 & W10 & W11) (F1 & F2 & F3).
  unfold normal. repeat split; try assumption.
  - destruct (s_cmd s) as [|h p|i]; cbn [cmd_pts wid_cmd] in *; [lia|assumption|apply W8].
  - apply normal_cmd_of_wid; assumption.
  - rewrite Forall_forall in *. intros d Hd. apply normal_desc_of_wid; auto.
Qed.

(* ---------------- invariance under typed setter calls ---------------- *)
Lemma wid_comp_step o c : typed_comp_op o -> wid_comp c -> wid_comp (apply_comp_op o c).
Proof. destruct c, o; unfold wid_comp; cbn; intros T [A B]; split; auto. apply N.mod_lt. discriminate. Qed.

Lemma wid_cmd_step o c : typed_cmd_op o -> wid_cmd c -> wid_cmd (apply_cmd_op o c).
Proof.
  destruct c as [|h p|i]; cbn [apply_cmd_op wid_cmd]; [auto| |].
  - intros _ H. destruct o; cbn [wid_cmd]; auto. apply N.mod_lt. discriminate.
  - destruct i as [eid cancel out prog imm has pts comps hasdur dur auto up an ae]. unfold wid_ins.
    cbn [i_event_id i_pts i_components i_duration i_unique_program_id i_avail_num i_avails_expected].
    intros T (W1 & W2 & W3 & W4 & W5 & W6 & W7).
    destruct o; cbn [apply_ins_op typed_cmd_op i_event_id i_pts i_components i_duration i_unique_program_id i_avail_num i_avails_expected] in *;
      repeat split; try assumption; try (apply N.mod_lt; discriminate).
    apply upd_nth_Forall; [assumption|]. intros x. apply wid_comp_step. assumption.
Qed.
Lemma wid_cmd_create k : wid_cmd (create_cmd k).
Proof. unfold create_cmd. destruct (k =? 1); [cbn; lia|]. destruct (k =? 2); cbn; [|exact I]. unfold wid_ins. cbn. repeat split; try lia. constructor. Qed.
Lemma wid_cmd_fold ops c : Forall typed_cmd_op ops -> wid_cmd c -> wid_cmd (fold_left (fun c o => apply_cmd_op o c) ops c).
Proof. revert c. induction ops as [|o ops IH]; intros c T H; [exact H|]. inversion T; subst. cbn [fold_left]. apply IH; [assumption|]. apply wid_cmd_step; assumption. Qed.

Lemma wid_desc_step o d : typed_desc_op o -> wid_desc d -> wid_desc (apply_desc_op o d).
Proof.
  destruct d as [ty eid hasdur dur uty u m sn se ssn sse owner cancel dnr hassub prog web nobl arch dev comps].
  unfold wid_desc.
  cbn [d_type d_event_id d_duration d_upid_type d_upid d_mid d_seg_num d_segs_expected d_sub_seg_num d_sub_segs_expected d_device d_components].
  intros T (W1 & W2 & W3 & W4 & W5 & W6 & W7 & W8 & W9 & W10 & W11 & W12 & W13 & W14).
  destruct o; cbn [apply_desc_op typed_desc_op] in *;
    try destruct (N.eqb_spec v SegUPIDMID); try destruct (v =? 0);
    try destruct (N.eqb_spec uty SegUPIDMID);
    cbn [negb d_type d_event_id d_duration d_upid_type d_upid d_mid d_seg_num d_segs_expected d_sub_seg_num d_sub_segs_expected d_device d_components];
    repeat split; auto; try (intros; contradiction); try congruence; try (apply N.mod_lt; discriminate);
    try (constructor; fail);
    try (apply Forall_map; eapply Forall_impl; [|eassumption]; intros [a b'] Hx; cbn [fst snd u_type u_len u_upid co_tag co_off] in *;
         repeat split; try tauto; try (apply N.mod_lt; discriminate));
    try (apply upd_nth_Forall; [assumption|]; intros x Hx; unfold wid_mid in *; cbn [u_type u_len u_upid];
         repeat split; try tauto).
  (* Components()[j] write-through *)
  all: match goal with o : co_op, x : comp_offset |- _ =>
         destruct o; destruct x; cbn [apply_co_op co_tag co_off typed_co_op] in *; repeat split; try tauto;
         try (apply N.mod_lt; discriminate) end.
Qed.
Lemma wid_desc_seg0 o : wid_desc (seg0 o).
Proof. unfold wid_desc, seg0. cbn. repeat split; auto; try lia; try discriminate; constructor. Qed.
Lemma wid_desc_fold ops d : Forall typed_desc_op ops -> wid_desc d -> wid_desc (fold_left (fun d o => apply_desc_op o d) ops d).
Proof. revert d. induction ops as [|o ops IH]; intros d T H; [exact H|]. inversion T; subst. cbn [fold_left]. apply IH; [assumption|]. apply wid_desc_step; assumption. Qed.
Lemma wid_desc_owner o d : wid_desc d -> wid_desc (set_owner o d).
Proof. destruct d. exact (fun H => H). Qed.

Lemma wid_sig_step fs s o : typed_sig_op o -> wid_sig fs s -> wid_sig fs (apply_sig_op s o).
Proof.
  intros T (W1 & W2 & W3 & W4 & W5 & W6 & W7 & W8 & W9 & W10 & W11).
  destruct o; unfold wid_sig; cbn [apply_sig_op typed_sig_op] in *;
    cbn [with_tier with_pts with_cmd with_stuffing with_descs update_data snd
         s_tid s_protocol s_enc_alg s_cw s_tier s_pts s_cmd_type s_cmd s_descs s_other];
    repeat split; try assumption;
    first [ apply N.mod_lt; discriminate
          | rewrite cmd_type_step; assumption
          | apply wid_cmd_step; [exact I|assumption]
          | apply wid_cmd_step; assumption
          | apply wid_cmd_fold; [assumption|apply wid_cmd_create]
          | apply Forall_map; rewrite Forall_forall in *; intros x Hx; apply wid_desc_owner, wid_desc_fold; [apply T; exact Hx|apply wid_desc_seg0]
          | apply upd_nth_Forall; [assumption|]; intros x; apply wid_desc_step; assumption
          | reflexivity ].
Qed.

Lemma wid_sig_create : wid_sig [] create_scte35.
Proof. unfold wid_sig, create_scte35. cbn. repeat split; try lia; try reflexivity; constructor. Qed.

Theorem wid_closure fs s0 ops : wid_sig fs s0 -> Forall typed_sig_op ops -> wid_sig fs (run_script s0 ops).
Proof.
  unfold run_script. revert s0. induction ops as [|o ops IH]; intros s0 H T; [exact H|].
  inversion T; subst. cbn [fold_left]. apply IH; [|assumption]. apply wid_sig_step; assumption.
Qed.

(* every history of in-type setter calls from CreateSCTE35 whose result has representable lengths is normal,
   so its next encoding is the canonical serialisation of the field values its getters report *)
Theorem history_normal ops : Forall typed_sig_op ops -> fits (run_script create_scte35 ops) ->
  normal [] (run_script create_scte35 ops).
Proof. intros T F. apply normal_of_wid; [|exact F]. apply wid_closure; [apply wid_sig_create|exact T]. Qed.
Theorem history_canonical ops : Forall typed_sig_op ops -> fits (run_script create_scte35 ops) ->
  fst (update_data (run_script create_scte35 ops)) = ser_section (logical [] (run_script create_scte35 ops)).
Proof. intros T F. apply encode_canonical, history_normal; assumption. Qed.
