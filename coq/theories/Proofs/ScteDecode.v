(* C08: the decoder model inverts the SCTE 35 serialiser, sub-structure by sub-structure. *)
From Gots Require Import Base.Prelude Model.Pts Model.Scte Spec.Scte35Spec Proofs.ScteLemmas Proofs.ScteExpected.
Import Scte Scte35Spec.
Local Open Scope N_scope.
Arguments N.mul : simpl never. Arguments N.add : simpl never. Arguments N.div : simpl never.
Arguments N.modulo : simpl never. Arguments N.land : simpl never. Arguments N.shiftr : simpl never.
Arguments N.sub : simpl never. Arguments N.ltb : simpl never. Arguments N.eqb : simpl never.
Arguments N.leb : simpl never.

Ltac btrue e := replace e with true by (symmetry; first [apply N.eqb_eq | apply N.ltb_lt | apply N.leb_le]; lia).
Ltac bfalse e := replace e with false by (symmetry; first [apply N.eqb_neq | apply N.ltb_ge | apply N.leb_gt]; lia).
Ltac red1 := cbv beta iota zeta; cbn [bind fst snd negb andb orb].

(* ---- splice_time ---- *)
Lemma pst_some p rest l : p < 8589934592 ->
  parse_splice_time (mkbuf (ser_stime (Some p) ++ rest) l)
  = Ok ((true, p, None), mkbuf rest (Some (p mod T32 mod 256))).
Proof.
  intros Hp. unfold ser_stime, to_be32, T32. cbn [app]. unfold parse_splice_time.
  rewrite rb. red1.
  rewrite land128 by lia.
  btrue (128 * ((128 + 126 + p / 4294967296) / 128) =? 128). red1.
  rewrite unread_some. rewrite blen_mk, !len_cons.
  bfalse (1 + (1 + (1 + (1 + (1 + len rest)))) <? 5). rewrite next5. rewrite uint40_5. red1.
  replace (128 + 126 + p / 4294967296) with (254 + p / 4294967296) by lia.
  rewrite u33_rt by (try reflexivity; lia). reflexivity.
Qed.

Lemma pst_none rest l :
  parse_splice_time (mkbuf (ser_stime None ++ rest) l) = Ok ((false, 0, None), mkbuf rest (Some 127)).
Proof. reflexivity. Qed.

Lemma pst t rest l : wf_stime t -> exists l',
  parse_splice_time (mkbuf (ser_stime t ++ rest) l) = Ok ((st_has t, st_val t, None), mkbuf rest l').
Proof.
  destruct t as [p|]; intros H.
  - eexists. apply pst_some. exact H.
  - eexists. apply pst_none.
Qed.

(* ---- splice_insert components ---- *)
Lemma pc_imm : forall tags rest l acc, exists l',
  parse_components (length tags) true (mkbuf (tags ++ rest) l) acc
  = Ok (acc ++ map (fun t => mkcomp t false 0) tags, mkbuf rest l').
Proof.
  induction tags as [|t tags IH]; intros rest l acc.
  - exists l. cbn [length parse_components map app]. rewrite app_nil_r. reflexivity.
  - cbn [length parse_components map app]. rewrite rb. red1.
    destruct (IH rest (Some t) (acc ++ [mkcomp t false 0])) as [l' E]. rewrite E.
    exists l'. rewrite <- app_assoc. reflexivity.
Qed.

Definition ser_tcomp (c : N * stime) : bytes := fst c :: ser_stime (snd c).
Lemma pc_timed : forall cs rest l acc, Forall (fun c => fst c < 256 /\ wf_stime (snd c)) cs -> exists l',
  parse_components (length cs) false (mkbuf (flat_map ser_tcomp cs ++ rest) l) acc
  = Ok (acc ++ map (fun c => mkcomp (fst c) (st_has (snd c)) (st_val (snd c))) cs, mkbuf rest l').
Proof.
  induction cs as [|[tag t] cs IH]; intros rest l acc Hwf.
  - exists l. cbn [length parse_components map app flat_map]. rewrite app_nil_r. reflexivity.
  - inversion Hwf as [|? ? [_ Ht] Hwf']; subst. cbn [fst snd] in Ht.
    cbn [length parse_components map flat_map]. unfold ser_tcomp at 1. cbn [fst snd].
    rewrite <- app_assoc. cbn [app]. rewrite rb. red1.
    destruct (pst t (flat_map ser_tcomp cs ++ rest) (Some tag) Ht) as [l1 E1]. rewrite E1. red1.
    destruct (IH rest l1 (acc ++ [mkcomp tag (st_has t) (st_val t)]) Hwf') as [l' E]. rewrite E.
    exists l'. rewrite <- app_assoc. reflexivity.
Qed.

Lemma insert_flags o p d i :
  let F := 128 * b2n o + 64 * b2n p + 32 * b2n d + 16 * b2n i + 15 in
  (N.land F 128 =? 128) = o /\ (N.land F 64 =? 64) = p /\ (N.land F 32 =? 32) = d /\ (N.land F 16 =? 16) = i.
Proof. destruct o, p, d, i; vm_compute; auto. Qed.

Lemma len_map {A B} (f : A -> B) l : len (map f l) = len l.
Proof. unfold len. rewrite map_length. reflexivity. Qed.
Lemma to_nat_len {A} (l : list A) : N.to_nat (len l) = length l.
Proof. unfold len. apply Nat2N.id. Qed.

Lemma idx0 a r : idx (a :: r) 0 = Ok a. Proof. reflexivity. Qed.
Lemma idx1 a b r : idx (a :: b :: r) 1 = Ok b. Proof. reflexivity. Qed.
Lemma idx2 a b c r : idx (a :: b :: c :: r) 2 = Ok c. Proof. reflexivity. Qed.
Lemma idx3 a b c d r : idx (a :: b :: c :: d :: r) 3 = Ok d. Proof. reflexivity. Qed.
Lemma idx4 a b c d e r : idx (a :: b :: c :: d :: e :: r) 4 = Ok e. Proof. reflexivity. Qed.
Lemma idx5 a b c d e f r : idx (a :: b :: c :: d :: e :: f :: r) 5 = Ok f. Proof. reflexivity. Qed.
Lemma take4of5 (a b c d e : N) : takeN 4 [a; b; c; d; e] = [a; b; c; d]. Proof. reflexivity. Qed.
Lemma take2of4 (a b c d : N) : takeN 2 [a; b; c; d] = [a; b]. Proof. reflexivity. Qed.
Lemma drop1of5 (a b c d e : N) : dropN 1 [a; b; c; d; e] = [b; c; d; e]. Proof. reflexivity. Qed.

(* break_duration *)
Lemma break_auto a d : d < 8589934592 ->
  (N.land (128 * b2n a + 126 + d / T32) 128 =? 128) = a.
Proof.
  intros. unfold T32. rewrite land128 by (destruct a; cbn [b2n]; lia).
  destruct a; cbn [b2n]; [apply N.eqb_eq | apply N.eqb_neq]; lia.
Qed.
Lemma break_dur a d : d < 8589934592 ->
  N.land (N.land (128 * b2n a + 126 + d / T32) 1 * 4294967296
          + be32 ((d mod T32 / 16777216) mod 256) ((d mod T32 / 65536) mod 256)
                 ((d mod T32 / 256) mod 256) (d mod T32 mod 256)) M33 = d.
Proof.
  intros. unfold T32. replace (128 * b2n a + 126 + d / 4294967296) with ((128 * b2n a + 126) + d / 4294967296) by lia.
  apply u33_rt; destruct a; cbn [b2n]; try lia; reflexivity.
Qed.

Lemma parse_insert_cancel eid rest l : eid < T32 -> exists l',
  parse_insert (mkbuf (ser_command (Insert eid None) ++ rest) l)
  = Ok (expected_insert eid None, mkbuf rest l').
Proof.
  intros He. unfold T32 in He. cbn [ser_command]. unfold to_be32. cbn [app].
  unfold parse_insert. rewrite next5. red1.
  change (len [(eid / 16777216) mod 256; (eid / 65536) mod 256; (eid / 256) mod 256; eid mod 256; 255] <? 5) with false.
  red1. rewrite take4of5, be32_of_4, idx4. red1.
  change (N.land 255 128 =? 128) with true. red1. rewrite be32_rt by lia.
  eexists. reflexivity.
Qed.

Lemma len5 (a b c d e : N) : len [a; b; c; d; e] = 5. Proof. reflexivity. Qed.
Lemma len4 (a b c d : N) : len [a; b; c; d] = 4. Proof. reflexivity. Qed.

(* break_duration + unique_program_id, avail_num, avails_expected: the tail of splice_insert *)
Ltac insert_tail :=
  match goal with
  | |- context [ser_break (Some (?a, ?d))] =>
    cbn [ser_break]; unfold to_be32; cbn [app]; rewrite next5; red1; rewrite len5;
    change (5 <? 5) with false; red1; rewrite idx0, uint40_5; red1;
    rewrite break_auto, break_dur by assumption
  | |- context [ser_break None] => cbn [ser_break app]; red1
  end;
  unfold to_be16; cbn [app]; rewrite next4; red1; rewrite len4; change (4 <? 4) with false; red1;
  rewrite take2of4, be16_of_2, idx2, idx3; red1; rewrite be16_rt by assumption.

Lemma parse_insert_body eid b rest l :
  eid < T32 -> wf_insert_body b -> ib_mode b <> ProgTimed None -> exists l',
  parse_insert (mkbuf (ser_command (Insert eid (Some b)) ++ rest) l)
  = Ok (expected_insert eid (Some b), mkbuf rest l').
Proof.
  intros He Hwf Hsup. unfold T32 in He.
  destruct b as [out mode brk up an ae]. destruct Hwf as (Hm & Hb & Hup & Han & Hae). cbn [ib_mode ib_break ib_unique_program_id ib_avail_num ib_avails_expected] in *.
  cbn [ser_command]. unfold ser_insert_body. cbn [ib_out ib_mode ib_break ib_unique_program_id ib_avail_num ib_avails_expected].
  unfold to_be32 at 1. rewrite <- !app_assoc. cbn [app].
  unfold parse_insert. rewrite next5. red1. rewrite len5. change (5 <? 5) with false. red1.
  rewrite take4of5, be32_of_4, idx4. red1. change (N.land 127 128 =? 128) with false. red1.
  rewrite rb. red1.
  destruct (insert_flags out (mode_program mode) (match brk with Some _ => true | None => false end) (mode_immediate mode)) as (E1 & E2 & E3 & E4).
  cbv zeta in E1, E2, E3, E4. rewrite E1, E2, E3, E4. clear E1 E2 E3 E4.
  rewrite be32_rt by lia.
  unfold expected_insert. cbn [ib_out ib_mode ib_break ib_unique_program_id ib_avail_num ib_avails_expected].
  destruct mode as [|t|tags|cs]; cbn [mode_program mode_immediate ser_mode mode_time expected_comps st_has st_val] in *; red1.
  - destruct brk as [[a d]|]; insert_tail; eexists; reflexivity.
  - destruct t as [p|]; [|congruence]. cbn [wf_stime] in Hm.
    rewrite pst_some by assumption. red1. cbn [st_has st_val].
    destruct brk as [[a d]|]; insert_tail; eexists; reflexivity.
  - destruct Hm as [_ Hl]. cbn [app]. rewrite rb. red1. rewrite to_nat_len.
    destruct (pc_imm tags (ser_break brk ++ to_be16 up ++ an :: ae :: rest) (Some (len tags)) []) as [l1 E]. rewrite E. red1. cbn [app].
    destruct brk as [[a d]|]; insert_tail; eexists; reflexivity.
  - destruct Hm as [Hcs Hl]. cbn [app]. rewrite rb. red1. rewrite to_nat_len.
    change (flat_map (fun c : N * stime => fst c :: ser_stime (snd c)) cs) with (flat_map ser_tcomp cs).
    destruct (pc_timed cs (ser_break brk ++ to_be16 up ++ an :: ae :: rest) (Some (len cs)) [] Hcs) as [l1 E]. rewrite E. red1. cbn [app].
    destruct brk as [[a d]|]; insert_tail; eexists; reflexivity.
Qed.

(* ================= segmentation_descriptor ================= *)
Lemma len_ser_seg_comps cs : len (flat_map ser_seg_comp cs) = 6 * len cs.
Proof.
  induction cs as [|c cs IH]; [reflexivity|].
  cbn [flat_map]. rewrite len_app, IH, len_cons. unfold ser_seg_comp. rewrite !len_cons, len_to_be32. lia.
Qed.

Lemma psc : forall cs rest l acc, Forall (fun c => fst c < 256 /\ snd c < 8589934592) cs -> exists l',
  parse_seg_components (length cs) (mkbuf (flat_map ser_seg_comp cs ++ rest) l) acc
  = Ok (acc ++ map (fun c => mkco (fst c) (snd c)) cs, mkbuf rest l').
Proof.
  induction cs as [|[tag off] cs IH]; intros rest l acc Hwf.
  - exists l. cbn [length parse_seg_components map app flat_map]. rewrite app_nil_r. reflexivity.
  - inversion Hwf as [|? ? [_ Ho] Hwf']; subst. cbn [fst snd] in Ho.
    cbn [length parse_seg_components map flat_map]. unfold ser_seg_comp at 1, to_be32, T32. cbn [fst snd].
    rewrite <- app_assoc. cbn [app]. rewrite next6. red1.
    unfold component_from_bytes. rewrite idx0, idx1, idx2, idx3, idx4, idx5. red1.
    rewrite land1 by lia. rewrite be32_rt by lia.
    replace ((254 + off / 4294967296) mod 2 * 4294967296 + off mod 4294967296) with off by lia.
    destruct (IH rest (Some (off mod 4294967296 mod 256)) (acc ++ [mkco tag off]) Hwf') as [l' E]. rewrite E.
    exists l'. rewrite <- app_assoc. reflexivity.
Qed.

Lemma len_upid_elem e : len (ser_upid_elem e) = 2 + len (snd e).
Proof. unfold ser_upid_elem. rewrite !len_cons. lia. Qed.

Lemma pmid : forall l fuel rest lst acc,
  Forall (fun e => fst e < 256 /\ is_bytes (snd e) /\ len (snd e) < 256) l ->
  (length l < fuel)%nat -> exists l',
  parse_mid fuel (len (flat_map ser_upid_elem l)) (mkbuf (flat_map ser_upid_elem l ++ rest) lst) acc
  = Ok (acc ++ expected_mid l, mkbuf rest l').
Proof.
  induction l as [|[ty bs] l IH]; intros fuel rest lst acc Hwf Hfuel;
    (destruct fuel as [|fuel]; [cbn in Hfuel; lia|]); cbn [parse_mid].
  - exists lst. cbn [flat_map app expected_mid map]. change (len [] =? 0) with true. red1. rewrite app_nil_r. reflexivity.
  - inversion Hwf as [|? ? (Ht & Hb & Hl) Hwf']; subst. cbn [fst snd] in *.
    cbn [flat_map]. rewrite len_app, len_upid_elem. cbn [snd].
    set (R := flat_map ser_upid_elem l) in *.
    bfalse (2 + len bs + len R =? 0). red1.
    unfold ser_upid_elem. cbn [fst snd]. rewrite <- app_assoc. cbn [app].
    rewrite blen_mk, !len_cons.
    bfalse (2 + len bs + len R <? 2). bfalse (1 + (1 + len (bs ++ R ++ rest)) <? 2). red1.
    rewrite rb0. red1. rewrite rb0. red1. rewrite blen_mk, !len_app.
    bfalse (2 + len bs + len R - 1 - 1 <? len bs). bfalse (len bs + (len R + len rest) <? len bs). red1.
    rewrite next_app by reflexivity. red1.
    replace (2 + len bs + len R - 1 - 1 - len bs) with (len R) by lia.
    destruct (IH fuel rest (lastopt bs) (acc ++ [mkupid ty (len bs) bs]) Hwf' ltac:(cbn in Hfuel; lia)) as [l' E].
    rewrite E. exists l'. cbn [expected_mid map fst snd]. rewrite <- app_assoc. reflexivity.
Qed.

Lemma seg_flags_none P D :
  let F := 128 * b2n P + 64 * b2n D + restr_bits None in
  negb (N.land F 32 =? 0) = true /\ negb (N.land F 64 =? 0) = D /\ negb (N.land F 128 =? 0) = P.
Proof. destruct P, D; vm_compute; auto. Qed.
Lemma seg_flags_some P D w n a d : d < 4 ->
  let F := 128 * b2n P + 64 * b2n D + restr_bits (Some (w, n, a, d)) in
  negb (N.land F 32 =? 0) = false /\ negb (N.land F 64 =? 0) = D /\ negb (N.land F 128 =? 0) = P /\
  negb (N.land F 16 =? 0) = w /\ negb (N.land F 8 =? 0) = n /\ negb (N.land F 4 =? 0) = a /\ N.land F 3 = d.
Proof.
  intros Hd. assert (Hc : d = 0 \/ d = 1 \/ d = 2 \/ d = 3) by lia.
  destruct Hc as [-> | [-> | [-> | ->]]]; destruct P, D, w, n, a; vm_compute; repeat split; reflexivity.
Qed.

Lemma len_ser_upid_ge u : 2 <= len (ser_upid u).
Proof. destruct u; cbn [ser_upid]; rewrite !len_cons; lia. Qed.
Lemma mid_fuel l : (length l <= N.to_nat (len (flat_map ser_upid_elem l)))%nat.
Proof.
  induction l as [|e l IH]; [cbn; lia|].
  cbn [flat_map length]. rewrite len_app, len_upid_elem. lia.
Qed.
Lemma len_ser_sub s : len (ser_sub s) = match s with Some _ => 2 | None => 0 end.
Proof. destruct s as [[x y]|]; reflexivity. Qed.

Ltac seg_comps_stage :=
  match goal with
  | |- context [ser_seg_comps (Some ?cs)] =>
    cbn [ser_seg_comps app]; red1; rewrite rb0; red1;
    match goal with
    | |- context [(Z.of_N (blen ?b) - 5 <? ?r)%Z] =>
      replace (Z.of_N (blen b) - 5 <? r)%Z with false
        by (symmetry; apply Z.ltb_ge; rewrite blen_mk, !len_app, len_ser_seg_comps, !len_cons;
            match goal with |- context [ser_upid ?u] => pose proof (len_ser_upid_ge u) end; lia)
    end;
    red1; rewrite to_nat_len;
    match goal with
    | H : Forall _ cs /\ _ |- context [parse_seg_components _ (mkbuf (_ ++ ?rest) ?l) []] =>
      let l1 := fresh "l1" in let E := fresh "E" in
      destruct (psc cs rest l [] (proj1 H)) as [l1 E]; rewrite E; red1; cbn [app]
    end
  | |- context [ser_seg_comps None] => cbn [ser_seg_comps app]; red1
  end.

Ltac seg_dur_stage :=
  match goal with
  | |- context [ser_dur40 (Some ?d)] =>
    cbn [ser_dur40]; unfold to_be32, T32; cbn [app]; rewrite blen_mk, !len_cons, !len_app;
    match goal with
    | |- context [?e <? 10] =>
      replace (e <? 10) with false
        by (symmetry; apply N.ltb_ge; rewrite ?len_cons;
            match goal with |- context [ser_upid ?u] => pose proof (len_ser_upid_ge u) end; lia)
    end;
    red1; rewrite next5; red1; rewrite idx0, drop1of5, be32_of_4; red1; rewrite be32_rt by lia;
    replace (d / 4294967296 * 4294967296 + d mod 4294967296) with d by lia
  | |- context [ser_dur40 None] => cbn [ser_dur40 app]; red1
  end.

Ltac seg_upid_stage Hu :=
  match goal with
  | |- context [ser_upid (Single ?uty ?bs)] =>
    let H1 := fresh in let H2 := fresh in let H3 := fresh in let H4 := fresh in
    destruct Hu as (H1 & H2 & H3 & H4);
    cbn [ser_upid app]; rewrite rb0; red1; rewrite rb0; red1;
    replace (uty =? SegUPIDMID) with false by (symmetry; apply N.eqb_neq; exact H2);
    red1; rewrite blen_mk, len_app, !len_cons;
    match goal with |- context [?e <? len bs + 3] => replace (e <? len bs + 3) with false by (symmetry; apply N.ltb_ge; lia) end;
    red1; rewrite next_app by reflexivity; red1
  | |- context [ser_upid (Multi ?l)] =>
    let H1 := fresh in let H2 := fresh in
    destruct Hu as (H1 & H2);
    cbn [ser_upid app]; rewrite rb0; red1; rewrite rb0; red1;
    change (13 =? SegUPIDMID) with true; red1;
    match goal with
    | |- context [parse_mid ?fuel _ (mkbuf (_ ++ ?rest) ?lst) []] =>
      let l2 := fresh "l2" in let E2 := fresh "E2" in
      destruct (pmid l fuel rest lst [] H1 ltac:(pose proof (mid_fuel l); lia)) as [l2 E2]; rewrite E2; red1
    end
  end.

Ltac seg_tail_stage Hsub :=
  rewrite rb0; red1; rewrite rb0; red1; rewrite rb0; red1;
  match goal with
  | |- context [ser_sub (Some (?x, ?y))] =>
    let H1 := fresh in let H2 := fresh in let H3 := fresh in
    destruct Hsub as (H1 & H2 & H3); cbn [ser_sub]; rewrite blen_mk;
    change (0 <? len [x; y]) with true;
    destruct H3 as [-> | ->];
    [change ((52 =? 52) || (52 =? 54)) with true | change ((54 =? 52) || (54 =? 54)) with true];
    red1; rewrite rb0; red1; rewrite rb0; red1; reflexivity
  | |- context [ser_sub None] =>
    cbn [ser_sub]; rewrite blen_mk; change (0 <? len []) with false; red1; reflexivity
  end.

Lemma parse_descriptor_cancel owner eid : eid < T32 ->
  parse_descriptor owner (ser_desc_payload (Seg eid None)) = Ok (expected_seg owner eid None).
Proof.
  intros He. unfold T32 in He. cbn [ser_desc_payload]. unfold to_be32. cbn [app].
  unfold parse_descriptor, buf_new.
  rewrite blen_mk, ?len_cons. match goal with |- context [?e <? 4] => replace (e <? 4) with false by (symmetry; apply N.ltb_ge; lia) end. red1.
  rewrite next4. red1. rewrite be32_of_4. red1.
  rewrite be32_rt by (unfold CUEI; lia). change (CUEI =? segDescID) with true. red1.
  rewrite blen_mk, ?len_cons. match goal with |- context [?e <? 5] => replace (e <? 5) with false by (symmetry; apply N.ltb_ge; lia) end. red1.
  rewrite next4. red1. rewrite be32_of_4. red1. rewrite be32_rt by lia.
  rewrite rb0. red1. change (N.land 255 128 =? 0) with false. red1. reflexivity.
Qed.

Lemma parse_descriptor_body owner eid b : eid < T32 -> wf_seg_body b ->
  parse_descriptor owner (ser_desc_payload (Seg eid (Some b))) = Ok (expected_seg owner eid (Some b)).
Proof.
  intros He Hwf. unfold T32 in He.
  destruct b as [comps dur restr up ty num ex sub].
  destruct Hwf as (Hc & Hd & Hr & Hu & Hty & Hnum & Hex & Hsub).
  cbn [sb_comps sb_duration sb_restr sb_upid sb_type sb_num sb_expected sb_sub] in *.
  cbn [ser_desc_payload]. unfold ser_seg_body.
  cbn [sb_comps sb_duration sb_restr sb_upid sb_type sb_num sb_expected sb_sub].
  unfold to_be32 at 1 2. rewrite <- ?app_assoc. cbn [app].
  unfold parse_descriptor, buf_new.
  rewrite blen_mk, ?len_cons. match goal with |- context [?e <? 4] => replace (e <? 4) with false by (symmetry; apply N.ltb_ge; lia) end. red1.
  rewrite next4. red1. rewrite be32_of_4. red1.
  rewrite be32_rt by (unfold CUEI; lia). change (CUEI =? segDescID) with true. red1.
  rewrite blen_mk, ?len_cons. match goal with |- context [?e <? 5] => replace (e <? 5) with false by (symmetry; apply N.ltb_ge; lia) end. red1.
  rewrite next4. red1. rewrite be32_of_4. red1. rewrite be32_rt by lia.
  rewrite rb0. red1. change (N.land 127 128 =? 0) with true. red1.
  rewrite rb0. red1.
  unfold expected_seg. cbn [sb_comps sb_duration sb_restr sb_upid sb_type sb_num sb_expected sb_sub].
  destruct restr as [[[[w n] a] dv]|].
  - destruct (seg_flags_some (match comps with None => true | Some _ => false end)
                (match dur with Some _ => true | None => false end) w n a dv Hr) as (F1 & F2 & F3 & F4 & F5 & F6 & F7).
    cbv zeta in F1, F2, F3, F4, F5, F6, F7. rewrite F1, F2, F3. red1. rewrite F4, F5, F6, F7. clear F1 F2 F3 F4 F5 F6 F7.
    destruct comps as [cs|]; seg_comps_stage; (destruct dur as [d|]; seg_dur_stage);
      (destruct up as [uty bs|ml]; seg_upid_stage Hu); (destruct sub as [[x y]|]; seg_tail_stage Hsub).
  - destruct (seg_flags_none (match comps with None => true | Some _ => false end)
                (match dur with Some _ => true | None => false end)) as (F1 & F2 & F3).
    cbv zeta in F1, F2, F3. rewrite F1, F2, F3. red1. clear F1 F2 F3.
    destruct comps as [cs|]; seg_comps_stage; (destruct dur as [d|]; seg_dur_stage);
      (destruct up as [uty bs|ml]; seg_upid_stage Hu); (destruct sub as [[x y]|]; seg_tail_stage Hsub).
Qed.

Lemma parse_descriptor_ser owner eid body : wf_descriptor (Seg eid body) ->
  parse_descriptor owner (ser_desc_payload (Seg eid body)) = Ok (expected_seg owner eid body).
Proof.
  destruct body as [b|]; cbn [wf_descriptor].
  - intros (He & Hb & _). apply parse_descriptor_body; assumption.
  - apply parse_descriptor_cancel.
Qed.

(* ---- the descriptor loop ---- *)
Lemma pdl : forall ds fuel owner done rest l other descs,
  Forall wf_descriptor ds -> (length ds < fuel)%nat -> exists l',
  parse_desc_loop fuel owner (done + len (ser_descriptors ds)) done (mkbuf (ser_descriptors ds ++ rest) l) other descs
  = Ok (other ++ expected_other ds, descs ++ expected_descs owner ds, mkbuf rest l').
Proof.
  induction ds as [|d ds IH]; intros fuel owner done rest l other descs Hwf Hfuel;
    (destruct fuel as [|fuel]; [cbn in Hfuel; lia|]); cbn [parse_desc_loop].
  - exists l. cbn [ser_descriptors flat_map app expected_other expected_descs]. rewrite len_nil.
    bfalse (done <? done + 0). red1. rewrite !app_nil_r. reflexivity.
  - inversion Hwf as [|? ? Hd Hwf']; subst.
    unfold ser_descriptors. cbn [flat_map]. fold (ser_descriptors ds).
    set (R := ser_descriptors ds) in *.
    unfold ser_descriptor. rewrite len_app, !len_cons. set (P := ser_desc_payload d) in *.
    btrue (done <? done + (1 + (1 + len P) + len R)). red1.
    rewrite <- app_assoc. cbn [app]. rewrite rb0. red1. rewrite rb0. red1.
    replace (Z.of_N (done + (1 + (1 + len P) + len R)) - Z.of_N done - 2 <? Z.of_N (len P))%Z with false
      by (symmetry; apply Z.ltb_ge; lia).
    red1. rewrite next_app by reflexivity. red1.
    replace (done + (1 + (1 + len P) + len R)) with ((done + 2 + len P) + len R) by lia.
    assert (Hf : (length ds < fuel)%nat) by (cbn in Hfuel; lia).
    destruct d as [eid body | tag body]; cbn [desc_tag expected_other expected_descs].
    + change (2 =? segDescTag) with true. red1. unfold P. rewrite parse_descriptor_ser by exact Hd. red1.
      destruct (IH fuel owner (done + 2 + len (ser_desc_payload (Seg eid body))) rest
                   (lastopt (ser_desc_payload (Seg eid body))) other
                   (descs ++ [expected_seg (Some owner) eid body]) Hwf' Hf) as [l' E].
      rewrite E. exists l'. rewrite <- app_assoc. reflexivity.
    + destruct Hd as (Ht & Hne & Hb & Hl).
      replace (tag =? segDescTag) with false by (symmetry; apply N.eqb_neq; exact Hne). red1.
      unfold P. cbn [ser_desc_payload].
      destruct (IH fuel owner (done + 2 + len body) rest (lastopt body) (other ++ tag :: len body :: body)
                   descs Hwf' Hf) as [l' E].
      cbn [ser_desc_payload] in E. rewrite E. exists l'.
      unfold ser_descriptor. cbn [desc_tag ser_desc_payload app]. rewrite <- !app_assoc. reflexivity.
Qed.

(* ---- command switch ---- *)
Lemma pts_add33 p x : p < 8589934592 -> x < 8589934592 -> Pts.add p x = (p + x) mod 8589934592.
Proof.
  intros. unfold Pts.add, w64. rewrite N.mod_small by lia.
  change Pts.MaxPtsValue with (N.ones 33). rewrite N.land_ones. reflexivity.
Qed.

Lemma parse_command_ser c adj rest l : wf_command c -> supported_cmd c -> adj < 8589934592 -> exists l',
  parse_command (command_type c) adj (mkbuf (ser_command c ++ rest) l)
  = Ok (match c with Null => adj | _ => (st_val (cmd_time c) + adj) mod 8589934592 end, expected_cmd c, mkbuf rest l').
Proof.
  intros Hwf Hsup Hadj. destruct c as [|t|eid body|ty body]; cbn [command_type]; unfold parse_command.
  - exists l. reflexivity.
  - change ((6 =? Scte.TimeSignal) || (6 =? Scte.SpliceInsert)) with true. change (6 =? Scte.TimeSignal) with true. red1.
    cbn [supported_cmd wf_command] in *. destruct t as [p|]; [|congruence]. cbn [wf_stime] in Hwf.
    unfold parse_time_signal. cbn [ser_command]. rewrite pst_some by assumption. red1.
    cbn [cmd_pts cmd_time st_val expected_cmd st_has]. rewrite pts_add33 by assumption. eexists. reflexivity.
  - change ((5 =? Scte.TimeSignal) || (5 =? Scte.SpliceInsert)) with true. change (5 =? Scte.TimeSignal) with false. red1.
    destruct body as [b|].
    + cbn [wf_command supported_cmd] in *. destruct Hwf as [He Hb].
      destruct (parse_insert_body eid b rest l He Hb Hsup) as [l' E]. rewrite E. red1.
      exists l'. cbn [cmd_pts expected_cmd cmd_time].
      assert (Hp : i_pts (expected_insert eid (Some b)) = st_val (mode_time (ib_mode b))) by reflexivity.
      rewrite Hp. rewrite pts_add33; [reflexivity| |assumption].
      destruct Hb as (Hm & _). destruct (ib_mode b) as [|[p|]| |]; cbn [mode_time st_val wf_mode wf_stime] in *; lia.
    + cbn [wf_command] in Hwf. destruct (parse_insert_cancel eid rest l Hwf) as [l' E]. rewrite E. red1.
      exists l'. cbn [cmd_pts expected_cmd cmd_time expected_insert i_pts st_val]. rewrite pts_add33 by lia. reflexivity.
  - destruct Hsup.
Qed.

(* ---- descriptor_loop_length + loop ---- *)
Lemma descs_fuel ds : (length ds <= length (ser_descriptors ds))%nat.
Proof.
  induction ds as [|d ds IH]; [cbn; lia|].
  unfold ser_descriptors in *. cbn [flat_map length]. rewrite app_length. unfold ser_descriptor at 1. cbn [length]. lia.
Qed.

Lemma parse_descriptors_ser sid data ds rest l :
  Forall wf_descriptor ds -> len (ser_descriptors ds) < 65536 -> 4 <= len rest ->
  (length (ser_descriptors ds) <= length data)%nat ->
  parse_descriptors sid data (mkbuf (to_be16 (len (ser_descriptors ds)) ++ ser_descriptors ds ++ rest) l)
  = Ok (expected_other ds, expected_descs sid ds).
Proof.
  intros Hwf Hlen Hrest Hdata. unfold parse_descriptors, to_be16. cbn [app].
  rewrite blen_mk, !len_cons, len_app.
  bfalse (1 + (1 + (len (ser_descriptors ds) + len rest)) <? 6). red1.
  rewrite next2. red1. rewrite be16_of_2. red1. rewrite be16_rt by assumption.
  rewrite blen_mk, len_app. bfalse (len (ser_descriptors ds) + len rest <? len (ser_descriptors ds) + 4). red1.
  replace (len (ser_descriptors ds)) with (0 + len (ser_descriptors ds)) at 1 by lia.
  destruct (pdl ds (S (length data)) sid 0 rest (Some (len (ser_descriptors ds) mod 256)) [] [] Hwf
              ltac:(pose proof (descs_fuel ds); lia)) as [l' E].
  rewrite E. red1. reflexivity.
Qed.

(* ---- the whole section ---- *)
Lemma slice_from_app (a b : bytes) n : n = len a -> slice_from (a ++ b) n = Ok b.
Proof.
  intros ->. unfold slice_from, slice. rewrite len_app.
  btrue (len a <=? len a + len b). btrue (len a + len b <=? len a + len b). cbn [andb]. f_equal.
  unfold len. rewrite Nat2N.id, skipn_app, skipn_all, Nat.sub_diag. cbn [skipn app].
  replace (N.to_nat (N.of_nat (length a) + N.of_nat (length b) - N.of_nat (length a))) with (length b) by lia.
  apply firstn_all.
Qed.

Lemma hdr_bits ssi priv sap sl : sap < 4 -> sl < 4096 ->
  let h1 := 128 * b2n ssi + 64 * b2n priv + 16 * sap + sl / 256 in
  negb (N.land h1 128 =? 0) = ssi /\ negb (N.land h1 64 =? 0) = priv /\
  N.land h1 3 * 256 + sl mod 256 = sl mod 1024.
Proof.
  intros Hs Hl h1. assert (Hb : h1 < 256) by (unfold h1; destruct ssi, priv; cbn [b2n]; lia).
  rewrite land128, land64, land3 by exact Hb. unfold h1.
  destruct ssi, priv; cbn [b2n]; repeat split;
    try (apply negb_true_iff, N.eqb_neq; lia); try (apply negb_false_iff, N.eqb_eq; lia); lia.
Qed.

Lemma len_ser_body s :
  len (ser_body s) = 13 + len (ser_command (si_cmd s)) + len (ser_descriptors (si_descs s)) + len (si_stuffing s).
Proof.
  unfold ser_body. rewrite !len_app, !len_cons, len_to_be32, len_to_be16, len_nil. lia.
Qed.

(* field ranges of the fixed part (everything but the command body and the descriptors) *)
Definition wf_fixed (s : splice_info) : Prop :=
  len (si_pointer s) < 255 /\ si_sap s < 4 /\ si_enc_alg s < 64 /\ si_pts_adj s < 8589934592 /\
  si_tier s < 4096 /\ len (ser_command (si_cmd s)) < 4095 /\ section_length s < 4096.
Definition sec_tail (s : splice_info) : bytes :=
  to_be16 (len (ser_descriptors (si_descs s))) ++ ser_descriptors (si_descs s) ++ si_stuffing s ++ to_be32 (si_crc s).

Ltac open_section s :=
  pose proof (len_ser_body s) as LB;
  unfold new_scte35, parse_table, ser_splice_info; cbn [pointer_field];
  set (SEC := ser_section s);
  assert (LS : len SEC = 7 + len (ser_body s))
    by (unfold SEC, ser_section, ser_section_nocrc, ser_header; rewrite !len_app, !len_cons, len_to_be32, len_nil; lia);
  rewrite len_cons, len_app; unfold w16, w8; rewrite !N.mod_small by lia;
  bfalse (1 + (len (si_pointer s) + len SEC) <? len (si_pointer s) + 4 + 15); red1;
  unfold buf_new;
  change (len (si_pointer s) :: si_pointer s ++ SEC) with ((len (si_pointer s) :: si_pointer s) ++ SEC);
  rewrite next_app by (rewrite len_cons; lia); red1;
  rewrite slice_from_app by (rewrite len_cons; lia);
  unfold SEC at 1; unfold ser_section, ser_section_nocrc, ser_header, ser_body, to_be32 at 1;
  rewrite <- !app_assoc; cbn [app];
  rewrite next3; red1;
  unfold table_header_from_bytes;
  match goal with |- context [len ?l <? 3] => change (len l <? 3) with false end; red1;
  rewrite idx0, idx1, idx2; red1.

Lemma parse_table_fixed s : wf_fixed s -> si_table_id s = 252 -> si_encrypted s = false ->
  new_scte35 (ser_splice_info s) =
  (let? r := parse_command (command_type (si_cmd s)) (si_pts_adj s)
               (mkbuf (ser_command (si_cmd s) ++ sec_tail s) (Some (command_type (si_cmd s)))) in
   let '(pts, cmd, b) := r in
   let? od := parse_descriptors 1 (ser_splice_info s) b in
   let (other, descs) := od in
   Ok (mkscte 1 252 (si_ssi s) (si_private s) (section_length s mod 1024) (si_protocol s) false (si_enc_alg s)
              pts (si_cw s) (si_tier s) (cmd_len_field s) (command_type (si_cmd s)) cmd descs 0 (ser_section s) other)).
Proof.
  intros (Hptr & Hsap & Hea & Hadj & Htier & Hcl & Hsl) Htid Henc.
  open_section s.
  destruct (hdr_bits (si_ssi s) (si_private s) (si_sap s) (section_length s) Hsap Hsl) as (B1 & B2 & B3).
  cbv zeta in B1, B2, B3. rewrite B1, B2, B3. clear B1 B2 B3.
  rewrite Htid. change (252 =? 252) with true. red1.
  rewrite rb0. red1. rewrite rb0. red1.
  rewrite Henc. cbn [b2n].
  set (f := 128 * 0 + 2 * si_enc_alg s + si_pts_adj s / T32).
  assert (Hf : f < 128) by (unfold f, T32; lia).
  rewrite land128 by lia. btrue (128 * (f / 128) =? 0). red1.
  rewrite unread_some. red1. rewrite rb0. red1. rewrite unread_some. red1.
  rewrite next5. red1. rewrite uint40_5. red1.
  rewrite shr1land63 by lia.
  replace ((f / 2) mod 64) with (si_enc_alg s) by (unfold f, T32; lia).
  unfold f, T32. rewrite (u33_rt (si_pts_adj s) (128 * 0 + 2 * si_enc_alg s)) by (try assumption; lia).
  rewrite rb0. red1. rewrite next3. red1. rewrite idx0, idx1, idx2. red1.
  assert (Hclf : cmd_len_field s < 4096) by (unfold cmd_len_field; destruct (si_legacy_len s); lia).
  set (t1 := si_tier s mod 16 * 16 + cmd_len_field s / 256).
  assert (Ht1 : t1 < 256) by (unfold t1; lia).
  rewrite land240s4, land15 by exact Ht1.
  replace (si_tier s / 16 * 16 + t1 / 16) with (si_tier s) by (unfold t1; lia).
  replace (t1 mod 16 * 256 + cmd_len_field s mod 256) with (cmd_len_field s) by (unfold t1; lia).
  rewrite rb0. red1. reflexivity.
Qed.

Lemma wf_fixed_of s : wf_decode s -> len (si_pointer s) < 255 -> wf_fixed s.
Proof.
  intros (Hsap & Hea & Hadj & Htier & Hcmd & Hcl & Hds & Hdl & Hsl) Hp.
  repeat split; assumption.
Qed.
Lemma wf_decode_of s : wf_splice_info s -> wf_decode s.
Proof.
  intros (Hpb & Hpl & _ & Hsap & Hpv & Hea & Hadj & Hcw & Htier & Hcmd & Hcl & Hds & Hdl & Hst & Hcrc & Hsl).
  repeat split; assumption.
Qed.

Lemma supported_of_wf s : wf_splice_info s -> si_table_id s = 252 -> si_encrypted s = false ->
  len (si_pointer s) < 255 -> supported_cmd (si_cmd s) -> supported s.
Proof. intros H1 H2 H3 H4 H5. repeat split; try assumption; apply wf_decode_of; assumption. Qed.

Lemma data_fuel s : (length (ser_descriptors (si_descs s)) <= length (ser_splice_info s))%nat.
Proof.
  unfold ser_splice_info, ser_section, ser_section_nocrc, ser_body. cbn [length]. rewrite !app_length. lia.
Qed.

Theorem decode_ser s : supported s -> new_scte35 (ser_splice_info s) = Ok (expected s).
Proof.
  intros (Hwf & Htid & Henc & Hptr & Hsup).
  rewrite parse_table_fixed by (try assumption; apply wf_fixed_of; assumption).
  destruct Hwf as (Hsap & Hea & Hadj & Htier & Hcmd & Hcl & Hds & Hdl & Hsl).
  destruct (parse_command_ser (si_cmd s) (si_pts_adj s) (sec_tail s) (Some (command_type (si_cmd s))) Hcmd Hsup Hadj) as [l1 E1].
  rewrite E1. red1. unfold sec_tail.
  rewrite parse_descriptors_ser; try assumption.
  - red1. unfold expected, expected_pts. rewrite Htid. destruct (si_cmd s); reflexivity.
  - rewrite len_app, len_to_be32. lia.
  - apply data_fuel.
Qed.
