(* Proofs for C18, ReadFrom part: the fill loop over any read script, then the delivery loop. *)
From Gots Require Import Base.Prelude Model.PacketWriter Spec.IOSpec Proofs.WriterProofs.
Import IOSpec PacketWriter.
Local Open Scope nat_scope.

(* what a reader state still has to deliver, and the error it ends with *)
Definition st_data (st : rstate) : bytes :=
  match st with Failed _ => [] | Script s => script_data s end.
Definition st_err (st : rstate) : N :=
  match st with Failed e => e | Script s => script_err s end.

Lemma fp_exit_err f st acc e : fill_packet (S f) st acc (Some e) = Ok (acc, Some e, st).
Proof. reflexivity. Qed.

Lemma fp_exit_full f st acc : PacketSize <= length acc ->
  fill_packet (S f) st acc None = Ok (acc, None, st).
Proof.
  intro H. cbn [fill_packet]. destruct (Nat.ltb_spec (length acc) PacketSize); [lia|reflexivity].
Qed.

Lemma fp_step f st acc : length acc < PacketSize ->
  fill_packet (S f) st acc None =
  let '((c, oe), st') := rd_read st (PacketSize - length acc) in fill_packet f st' (acc ++ c) oe.
Proof.
  intro H. cbn [fill_packet]. destruct (Nat.ltb_spec (length acc) PacketSize); [reflexivity|lia].
Qed.

Lemma script_weight_cons c oe s' :
  weight (Script ((c, oe) :: s')) = S (length c) + weight (Script s').
Proof. cbn. lia. Qed.

(* the fill loop delivers the next min(188 - n, available) bytes whatever the fragmentation; it ends
   without error when the packet is complete, or with the reader's error when the data ran out
   (both can be the case when the last bytes arrive together with the error) *)
Lemma fp_spec : forall fuel st acc, weight st + 2 <= fuel -> length acc < PacketSize ->
  exists er st',
    fill_packet fuel st acc None = Ok (acc ++ firstn (PacketSize - length acc) (st_data st), er, st')
    /\ st_data st' = skipn (PacketSize - length acc) (st_data st) /\ st_err st' = st_err st
    /\ (er = None -> PacketSize - length acc <= length (st_data st))
    /\ (forall e, er = Some e -> e = st_err st /\ length (st_data st) <= PacketSize - length acc).
Proof.
  pose proof PSm_val as HPS.
  induction fuel as [|f IH]; intros st acc Hw Ha; [lia|].
  rewrite fp_step by exact Ha.
  set (need := PacketSize - length acc).
  assert (Hneed : 0 < need) by (unfold need; lia).
  destruct f as [|f']; [lia|].
  destruct st as [[|[c oe] s']|e].
  - cbn [rd_read]. rewrite fp_exit_err. exists (Some E.EOF), (Failed E.EOF).
    cbn [st_data st_err script_data script_err]. rewrite firstn_nil, skipn_nil.
    split; [reflexivity|]. split; [reflexivity|]. split; [reflexivity|]. split; [discriminate|].
    intros e0 H0. inversion H0; subst. cbn [length]. split; [reflexivity|lia].
  - cbn [rd_read]. destruct (Nat.leb_spec (length c) need) as [Hc|Hc].
    + destruct oe as [e|].
      * rewrite fp_exit_err. exists (Some e), (Failed e). cbn [st_data st_err script_data script_err].
        rewrite firstn_all2 by exact Hc. rewrite skipn_all2 by exact Hc.
        split; [reflexivity|]. split; [reflexivity|]. split; [reflexivity|]. split; [discriminate|].
        intros e0 H0. inversion H0; subst. split; [reflexivity|exact Hc].
      * cbn [st_data st_err script_data script_err].
        destruct (Nat.eq_dec (length c) need) as [He|He].
        -- rewrite fp_exit_full by (rewrite app_length; unfold need in *; lia).
           exists None, (Script s'). cbn [st_data st_err].
           rewrite <- He. rewrite firstn_app, skipn_app, Nat.sub_diag, firstn_all, skipn_all.
           cbn [firstn skipn app]. rewrite app_nil_r.
           split; [reflexivity|]. split; [reflexivity|]. split; [reflexivity|].
           split; [intros _; rewrite app_length; lia|discriminate].
        -- rewrite script_weight_cons in Hw.
           destruct (IH (Script s') (acc ++ c)) as [er [st' [Hr [Hd [Hx [Hn Hs]]]]]].
           { lia. }
           { rewrite app_length. unfold need in *. lia. }
           assert (Hn' : PacketSize - length (acc ++ c) = need - length c)
             by (rewrite app_length; unfold need; lia).
           rewrite Hn' in *. cbn [st_data st_err] in *.
           exists er, st'. rewrite Hr.
           split.
           { rewrite firstn_app, (firstn_all2 c) by lia. rewrite <- app_assoc. reflexivity. }
           split; [rewrite Hd, skipn_app, (skipn_all2 c) by lia; reflexivity|].
           split; [exact Hx|]. split.
           { intro H0. specialize (Hn H0). rewrite app_length. lia. }
           { intros e0 H0. destruct (Hs e0 H0) as [H1 H2]. split; [exact H1|]. rewrite app_length. lia. }
    + assert (Hl : length (acc ++ firstn need c) = PacketSize).
      { rewrite app_length, firstn_length. unfold need in *. lia. }
      rewrite fp_exit_full by lia.
      exists None, (Script ((skipn need c, oe) :: s')).
      assert (Hz : need - length c = 0) by lia.
      destruct oe as [e|]; cbn [st_data st_err script_data script_err].
      * split; [reflexivity|]. split; [reflexivity|]. split; [reflexivity|].
        split; [intros _; lia|discriminate].
      * rewrite firstn_app, skipn_app, Hz. cbn [firstn skipn]. rewrite app_nil_r.
        split; [reflexivity|]. split; [reflexivity|]. split; [reflexivity|].
        split; [intros _; rewrite app_length; lia|discriminate].
  - cbn [rd_read]. rewrite fp_exit_err. exists (Some e), (Failed e).
    cbn [st_data st_err]. rewrite firstn_nil, skipn_nil.
    split; [reflexivity|]. split; [reflexivity|]. split; [reflexivity|]. split; [discriminate|].
    intros e0 H0. inversion H0; subst. cbn [length]. split; [reflexivity|lia].
Qed.

Lemma fill_one_spec st : exists er st',
  fill_one st = Ok (firstn PacketSize (st_data st), er, st')
  /\ st_data st' = skipn PacketSize (st_data st) /\ st_err st' = st_err st
  /\ (er = None -> PacketSize <= length (st_data st))
  /\ (forall e, er = Some e -> e = st_err st /\ length (st_data st) <= PacketSize).
Proof.
  unfold fill_one.
  destruct (fp_spec (weight st + 2) st [] ltac:(lia) ltac:(cbn [length]; rewrite PSm_val; lia))
    as [er [st' H]].
  exists er, st'. cbn [length app] in *. rewrite Nat.sub_0_r in *. exact H.
Qed.

(* ------------------------------------------------------------------ the delivery loop *)
(* what ReadFrom does, told over the complete chunks cs of the data, its tail tl and the
   terminal error e of the reader *)
Fixpoint rf_spec (w : wfun) (cs : list bytes) (tl : bytes) (e : N) (n : Z) (k : nat) (calls : list bytes)
  : Z * option N * list bytes :=
  match cs with
  | [] => (n, if (e =? E.EOF)%N then match tl with [] => None | _ => Some E.InvalidPacketLength end
              else Some e, calls)
  | c :: cs' =>
    let (nw, ew) := w k c in
    let n' := if (0 <? nw)%Z then (n + nw)%Z else n in
    match ew with
    | Some x => (n', Some x, calls ++ [c])
    | None => if negb (nw =? 188)%Z then (n', Some ErrShortWrite, calls ++ [c])
              else rf_spec w cs' tl e n' (S k) (calls ++ [c])
    end
  end.

Lemma blit_exact pkt src : length pkt = length src -> blit pkt 0 src = src.
Proof.
  intro H. unfold blit. change (N.to_nat 0) with 0. rewrite blit_nat_full by lia.
  rewrite H. apply firstn_all.
Qed.

Lemma rf_loop_S f w st pkt n err k calls :
  rf_loop (S f) w st pkt n err k calls =
  let? (data, er, st') := fill_one st in
  let pkt' := blit pkt 0 data in
  let nr := length data in
  let finish (n : Z) (err : option N) (k : nat) (calls : list bytes) :=
    match er with
    | Some e => Ok (n, if (e =? E.EOF)%N then err else Some e, calls)
    | None => rf_loop f w st' pkt' n err k calls
    end in
  if (nr =? PacketSize)%nat then
    let (nw, ew) := w k pkt' in
    let n' := if (0 <? nw)%Z then (n + nw)%Z else n in
    let calls' := calls ++ [pkt'] in
    match ew with
    | Some e => Ok (n', Some e, calls')
    | None =>
      if negb (nw =? 188)%Z then Ok (n', Some ErrShortWrite, calls')
      else finish n' err (S k) calls'
    end
  else finish n (if (0 <? nr)%nat then Some E.InvalidPacketLength else err) k calls.
Proof. reflexivity. Qed.

Lemma rf_loop_spec w : forall fuel st pkt n k calls,
  length (st_data st) < fuel -> length pkt = PacketSize ->
  rf_loop fuel w st pkt n None k calls
  = Ok (rf_spec w (full_chunks (st_data st)) (tail (st_data st)) (st_err st) n k calls).
Proof.
  induction fuel as [|f IH]; intros st pkt n k calls Hf Hp; [lia|].
  rewrite rf_loop_S.
  destruct (fill_one_spec st) as [er [st' [Hr [Hd [He [Hnone Hsome]]]]]]. rewrite Hr. cbn [bind].
  set (D := st_data st) in *. set (Ee := st_err st) in *.
  destruct (Nat.leb_spec PacketSize (length D)) as [Hge|Hlt].
  - (* a complete packet *)
    assert (Hl : length (firstn PacketSize D) = PacketSize) by (rewrite firstn_length; lia).
    rewrite Hl, Nat.eqb_refl.
    rewrite blit_exact by (rewrite Hl; exact Hp).
    rewrite full_chunks_ge by exact Hge. rewrite tail_ge by exact Hge. cbn [rf_spec].
    change IOSpec.PacketSize with PacketSize.
    destruct (w k (firstn PacketSize D)) as [nw [x|]]; [reflexivity|].
    destruct (negb (nw =? 188)%Z); [reflexivity|].
    destruct er as [e|].
    + (* the last bytes of the packet came together with the reader's error: nothing is left *)
      destruct (Hsome e eq_refl) as [HeE Hle]. subst e.
      assert (Hsk : skipn PacketSize D = []) by (apply skipn_all2; exact Hle).
      rewrite Hsk. rewrite full_chunks_lt, tail_lt by (cbn [length]; rewrite PS_val; lia).
      cbn [rf_spec]. reflexivity.
    + rewrite IH.
      * rewrite Hd, He. reflexivity.
      * rewrite Hd, skipn_length. rewrite PSm_val in *. lia.
      * exact Hl.
  - (* the data ends: fewer than 188 bytes are left *)
    destruct er as [e|]; [|specialize (Hnone eq_refl); lia].
    destruct (Hsome e eq_refl) as [HeE _]. subst e.
    rewrite firstn_all2 by lia.
    rewrite full_chunks_lt, tail_lt by exact Hlt. cbn [rf_spec].
    destruct (Nat.eqb_spec (length D) PacketSize) as [Hx|_]; [lia|].
    destruct (N.eqb_spec Ee E.EOF) as [HE|HE]; [|reflexivity].
    destruct D as [|d D']; reflexivity.
Qed.

Lemma script_len_data s : script_len s = length (script_data s).
Proof.
  induction s as [|[c [e|]] s IH]; cbn [script_len script_data]; [reflexivity|reflexivity|].
  rewrite app_length, IH. reflexivity.
Qed.

Lemma read_from_spec w pkt s : length pkt = PacketSize ->
  read_from w pkt s
  = Ok (rf_spec w (full_chunks (script_data s)) (tail (script_data s)) (script_err s) 0%Z 0 []).
Proof.
  intros Hp. unfold read_from.
  apply (rf_loop_spec w (S (script_len s)) (Script s)); cbn [st_data st_err]; auto.
  rewrite script_len_data. lia.
Qed.

(* ---- corollaries over rf_spec ---- *)
Definition rf_end_err (tl : bytes) (e : N) : option N :=
  if (e =? E.EOF)%N then match tl with [] => None | _ => Some E.InvalidPacketLength end else Some e.

Lemma rf_spec_ok w tl e : forall cs n k calls,
  (forall j, j < length cs -> w (k + j) (nth j cs []) = (188%Z, None)) ->
  rf_spec w cs tl e n k calls = ((n + 188 * Z.of_nat (length cs))%Z, rf_end_err tl e, calls ++ cs).
Proof.
  induction cs as [|c cs IH]; intros n k calls H.
  - cbn [rf_spec length]. rewrite app_nil_r. replace (n + 188 * Z.of_nat 0)%Z with n by lia. reflexivity.
  - cbn [rf_spec]. pose proof (H 0 ltac:(cbn; lia)) as H0. rewrite Nat.add_0_r in H0. cbn [nth] in H0.
    rewrite H0. change (0 <? 188)%Z with true. change (negb (188 =? 188)%Z) with false. cbv iota.
    rewrite IH.
    + cbn [length]. rewrite <- app_assoc. cbn [app].
      replace (n + 188 + 188 * Z.of_nat (length cs))%Z with (n + 188 * Z.of_nat (S (length cs)))%Z by lia.
      reflexivity.
    + intros j Hj. specialize (H (S j) ltac:(cbn; lia)). cbn [nth] in H.
      replace (S k + j) with (k + S j) by lia. exact H.
Qed.

Lemma rf_spec_fail w tl e : forall cs n k calls kf m x, kf < length cs ->
  (forall j, j < kf -> w (k + j) (nth j cs []) = (188%Z, None)) ->
  w (k + kf) (nth kf cs []) = (m, Some x) ->
  rf_spec w cs tl e n k calls
  = ((n + 188 * Z.of_nat kf + Z.max 0 m)%Z, Some x, calls ++ firstn (S kf) cs).
Proof.
  induction cs as [|c cs IH]; intros n k calls kf m x Hk Hok Hf; [cbn in Hk; lia|].
  destruct kf as [|kf].
  - cbn [rf_spec]. rewrite Nat.add_0_r in Hf. cbn [nth] in Hf. rewrite Hf.
    cbn [firstn]. f_equal. f_equal. destruct (Z.ltb_spec 0 m); lia.
  - cbn [rf_spec]. pose proof (Hok 0 ltac:(lia)) as H0. rewrite Nat.add_0_r in H0. cbn [nth] in H0.
    rewrite H0. change (0 <? 188)%Z with true. change (negb (188 =? 188)%Z) with false. cbv iota.
    rewrite (IH _ _ _ kf m x).
    + cbn [firstn]. rewrite <- app_assoc. cbn [app]. do 2 f_equal. lia.
    + cbn in Hk. lia.
    + intros j Hj. specialize (Hok (S j) ltac:(lia)). cbn [nth] in Hok.
      replace (S k + j) with (k + S j) by lia. exact Hok.
    + cbn [nth] in Hf. replace (S k + kf) with (k + S kf) by lia. exact Hf.
Qed.

(* ---- the theorems of Properties/C18.v (ReadFrom part) ---- *)
Lemma read_from_any_fragmentation w pkt s : length pkt = PacketSize ->
  (forall j c, w j c = (188%Z, None)) ->
  read_from w pkt s
  = Ok ((188 * Z.of_nat (length (full_chunks (script_data s))))%Z,
        (if (script_err s =? E.EOF)%N
         then match tail (script_data s) with [] => None | _ => Some E.InvalidPacketLength end
         else Some (script_err s)),
        full_chunks (script_data s)).
Proof.
  intros Hp Hw. rewrite read_from_spec by assumption.
  rewrite rf_spec_ok by (intros; apply Hw). reflexivity.
Qed.

Lemma read_from_fail_stops w pkt s kf m x : length pkt = PacketSize ->
  kf < length (full_chunks (script_data s)) ->
  (forall j, j < kf -> w j (nth j (full_chunks (script_data s)) []) = (188%Z, None)) ->
  w kf (nth kf (full_chunks (script_data s)) []) = (m, Some x) ->
  read_from w pkt s
  = Ok ((188 * Z.of_nat kf + Z.max 0 m)%Z, Some x, firstn (S kf) (full_chunks (script_data s))).
Proof.
  intros Hp Hk Hok Hf. rewrite read_from_spec by assumption.
  rewrite (rf_spec_fail w _ _ _ 0%Z 0 [] kf m x Hk Hok Hf). reflexivity.
Qed.

(* C05: ReadFrom is total for every script (whatever its error) and every writer oracle *)
Lemma read_from_total w pkt s : length pkt = PacketSize ->
  read_from w pkt s <> Panic /\ read_from w pkt s <> Diverge.
Proof.
  intro Hp. rewrite read_from_spec by exact Hp. split; discriminate.
Qed.

(* the reader's own io.ErrUnexpectedEOF is reported like any other reader error (the first candidate
   repair, io.ReadFull with ErrUnexpectedEOF mapped to EOF, swallowed it; notes/findings/C18.md) *)
Lemma read_from_unexpected_eof_reported w pkt s : length pkt = PacketSize ->
  (forall j c, w j c = (188%Z, None)) -> script_err s = E.UnexpectedEOF ->
  read_from w pkt s
  = Ok ((188 * Z.of_nat (length (full_chunks (script_data s))))%Z, Some E.UnexpectedEOF,
        full_chunks (script_data s)).
Proof.
  intros Hp Hw He. rewrite read_from_any_fragmentation by assumption. rewrite He. reflexivity.
Qed.

(* F2 (DESIGN section 7): ReadFrom as pinned in /repo loses packets over a fragmenting reader.
   Witness: one packet delivered in two 94-byte reads — nothing is delivered, invalid length. *)
Lemma f2_pinned_refuted :
  exists w s, (forall j c, w j c = (188%Z, None)) /\ script_err s = E.EOF /\
    full_chunks (script_data s) = [script_data s] /\ tail (script_data s) = [] /\
    read_from_pinned w pkt0 s = Ok (0%Z, Some E.InvalidPacketLength, []).
Proof.
  exists (fun _ _ => (188%Z, None)), [(repeat 1%N 94, None); (repeat 2%N 94, None)].
  split; [reflexivity|]. vm_compute. repeat split.
Qed.

(* ---- whatever the wrapped writer does: what it is given is a prefix of the chunks, in order ---- *)
Lemma rf_spec_prefix w tl e : forall cs n k calls,
  exists n' e' j, rf_spec w cs tl e n k calls = (n', e', calls ++ firstn j cs).
Proof.
  induction cs as [|c cs IH]; intros n k calls.
  - exists n, (if (e =? E.EOF)%N then match tl with [] => None | _ => Some E.InvalidPacketLength end else Some e), 0.
    cbn [rf_spec firstn]. rewrite app_nil_r. reflexivity.
  - cbn [rf_spec]. destruct (w k c) as [nw [x|]].
    + eexists _, _, 1. cbn [firstn]. reflexivity.
    + destruct (negb (nw =? 188)%Z).
      * eexists _, _, 1. cbn [firstn]. reflexivity.
      * destruct (IH (if (0 <? nw)%Z then (n + nw)%Z else n) (S k) (calls ++ [c])) as [n' [e' [j H]]].
        exists n', e', (S j). rewrite H. cbn [firstn]. rewrite <- app_assoc. reflexivity.
Qed.

Lemma read_from_prefix w pkt s : length pkt = PacketSize ->
  exists n e j, read_from w pkt s = Ok (n, e, firstn j (full_chunks (script_data s))).
Proof.
  intro Hp. rewrite read_from_spec by exact Hp.
  destruct (rf_spec_prefix w (tail (script_data s)) (script_err s)
              (full_chunks (script_data s)) 0%Z 0 []) as [n [e [j H]]].
  exists n, e, j. rewrite H. reflexivity.
Qed.

Lemma w_spec_prefix w plen : forall cs n k calls,
  exists n' e' j, w_spec w cs n k calls plen = (n', e', calls ++ firstn j cs).
Proof.
  induction cs as [|c cs IH]; intros n k calls.
  - eexists _, _, 0. cbn [w_spec firstn]. rewrite app_nil_r. reflexivity.
  - cbn [w_spec]. destruct (w k c) as [m [x|]].
    + eexists _, _, 1. cbn [firstn]. reflexivity.
    + destruct (IH (n + m)%Z (S k) (calls ++ [c])) as [n' [e' [j H]]].
      exists n', e', (S j). rewrite H. cbn [firstn]. rewrite <- app_assoc. reflexivity.
Qed.

Lemma write_prefix w pkt p : length pkt = PacketSize ->
  exists n e j, write w pkt p = Ok (n, e, firstn j (full_chunks p)).
Proof.
  intro Hp. destruct (Nat.eq_dec (length p mod IOSpec.PacketSize) 0) as [Hm|Hm].
  - rewrite write_spec by assumption.
    destruct (w_spec_prefix w (zlen p) (full_chunks p) 0%Z 0 []) as [n [e [j H]]].
    exists n, e, j. rewrite H. reflexivity.
  - rewrite write_bad_len by assumption. exists 0%Z, (Some E.InvalidPacketLength), 0. reflexivity.
Qed.
