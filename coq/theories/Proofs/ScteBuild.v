(* C09: every canonical section that the creation + setter API can express is obtained by an explicit setter
   history from CreateSCTE35, and UpdateData on that history yields exactly its canonical bytes. *)
From Gots Require Import Base.Prelude Model.Pts Model.Scte Model.ScteEnc Spec.Scte35Spec
  Proofs.ScteLemmas Proofs.ScteExpected Proofs.ScteLogical Proofs.ScteDecode Proofs.ScteEncode Proofs.ScteRoundtrip
  Proofs.ScteCanonical.
Import Scte ScteEnc Scte35Spec.
Local Open Scope N_scope.

Definition oplist {A} (o : option A) (f : A -> list desc_op) : list desc_op := match o with Some a => f a | None => [] end.

Definition ops_of_seg_body (b : seg_body) : list desc_op :=
  [DSetHasProgramSegmentation (match sb_comps b with None => true | Some _ => false end)]
  ++ oplist (sb_comps b) (fun cs => [DSetComponents cs])
  ++ oplist (sb_duration b) (fun d => [DSetHasDuration true; DSetDuration d])
  ++ match sb_restr b with
     | None => [DSetIsDeliveryNotRestricted true]
     | Some (w, n, a, dv) => [DSetIsWebDeliveryAllowed w; DSetHasNoRegionalBlackout n; DSetIsArchiveAllowed a; DSetDeviceRestrictions dv]
     end
  ++ match sb_upid b with
     | Single ty bs => [DSetUPIDType ty; DSetUPID bs]
     | Multi l => [DSetUPIDType 13; DSetMID l]
     end
  ++ [DSetTypeID (sb_type b)]
  ++ oplist (sb_sub b) (fun xy => [DSetHasSubSegments true; DSetSubSegmentNumber (fst xy); DSetSubSegmentsExpected (snd xy)])
  ++ [DSetSegmentNumber (sb_num b); DSetSegmentsExpected (sb_expected b)].
Definition ops_of_desc (d : descriptor) : list desc_op :=
  match d with
  | Seg eid None => [DSetEventID eid; DSetIsEventCanceled true]
  | Seg eid (Some b) => DSetEventID eid :: ops_of_seg_body b
  | Foreign _ _ => []
  end.

Definition ops_of_insert (eid : N) (body : option insert_body) : list cmd_op :=
  match body with
  | None => [ISetEventID eid; ISetIsProgramSplice false; ISetIsEventCanceled true]
  | Some b =>
    [ISetEventID eid; ISetIsOut (ib_out b); ISetIsProgramSplice (mode_program (ib_mode b));
     ISetSpliceImmediate (mode_immediate (ib_mode b))]
    ++ match ib_mode b with ProgTimed (Some p) => [KSetHasPTS true; KSetPTS p] | _ => [] end
    ++ match ib_break b with Some (a, d) => [ISetHasDuration true; ISetDuration d; ISetIsAutoReturn a] | None => [] end
    ++ [ISetUniqueProgramId (ib_unique_program_id b); ISetAvailNum (ib_avail_num b); ISetAvailsExpected (ib_avails_expected b)]
  end.
Definition ops_of_cmd (c : Scte35Spec.command) : list sig_op :=
  match c with
  | Null => []
  | TimeSignal t => [SSetCommandInfo 1 [KSetHasPTS true; KSetPTS (st_val t)]]
  | Insert eid body => [SSetCommandInfo 2 (ops_of_insert eid body)]
  | OtherCmd _ _ => []
  end.

(* the setter history for a logical section *)
Definition script_of (s : splice_info) : list sig_op :=
  ops_of_cmd (si_cmd s) ++ [SSetAdjustPTS (expected_pts s); SSetTier (si_tier s); SSetDescriptors (map ops_of_desc (si_descs s))].

(* what the API cannot express: foreign descriptors and splice_insert components (no setter), and the fixed-part fields
   without setter (protocol_version, encryption_algorithm, cw_index stay 0, the indicators false) *)
Definition no_components (c : Scte35Spec.command) : Prop :=
  match c with
  | Insert _ (Some b) => match ib_mode b with CompImmediate tags => tags = [] | CompTimed cs => cs = [] | _ => True end
  | _ => True
  end.
Definition api_buildable (s : splice_info) : Prop :=
  canonical s /\ Forall is_seg (si_descs s) /\ no_components (si_cmd s) /\
  si_protocol s = 0 /\ si_enc_alg s = 0 /\ si_cw s = 0 /\ si_ssi s = false /\ si_private s = false.

Arguments N.modulo : simpl never. Arguments N.eqb : simpl never. Arguments N.div : simpl never.

Lemma comps_mod (cs : list (N * N)) : Forall (fun c => fst c < 256 /\ snd c < 8589934592) cs ->
  map (fun e => mkco (fst e) (snd e mod 8589934592)) cs = map (fun c => mkco (fst c) (snd c)) cs.
Proof. induction 1 as [|[a b] cs [_ H] _ IH]; cbn [map fst snd] in *; [reflexivity|]. rewrite IH, N.mod_small by assumption. reflexivity. Qed.

Lemma build_desc_expected eid body : wf_descriptor (Seg eid body) ->
  build_desc 1 (ops_of_desc (Seg eid body)) = expected_seg (Some 1) eid body.
Proof.
  destruct body as [b|]; [|reflexivity]. cbn [wf_descriptor]. intros (He & Hb & _).
  destruct b as [comps dur restr up ty num ex sub].
  destruct Hb as (Hc & Hd & Hr & Hu & Hty & Hnum & Hex & Hsub).
  cbn [sb_comps sb_duration sb_restr sb_upid sb_type sb_num sb_expected sb_sub] in *.
  unfold build_desc, ops_of_desc, ops_of_seg_body, expected_seg, oplist, seg0.
  cbn [sb_comps sb_duration sb_restr sb_upid sb_type sb_num sb_expected sb_sub].
  assert (Ets : forall h : bool, (if negb (ty =? 52) && negb (ty =? 54) then false else false) = false)
    by (intros; destruct (negb (ty =? 52) && negb (ty =? 54)); reflexivity).
  destruct up as [uty bs|l]; cbn [wf_upid] in Hu.
  - destruct Hu as (_ & Hne & _).
    assert (E13 : (uty =? SegUPIDMID) = false) by (apply N.eqb_neq; exact Hne).
    destruct comps as [cs|], dur as [d|], restr as [[[[w n] a] dv]|], sub as [[x y]|];
      cbn [fold_left app apply_desc_op set_owner fst snd]; rewrite ?E13; destruct (uty =? 0);
      cbn [fold_left app apply_desc_op set_owner fst snd]; rewrite ?E13; cbn [fold_left app apply_desc_op set_owner fst snd];
      rewrite ?(Ets true); rewrite ?N.mod_small by assumption; rewrite ?comps_mod by (apply Hc); reflexivity.
  - destruct comps as [cs|], dur as [d|], restr as [[[[w n] a] dv]|], sub as [[x y]|];
      cbn [fold_left app apply_desc_op set_owner fst snd]; change (13 =? SegUPIDMID) with true;
      cbn [negb fold_left app apply_desc_op set_owner fst snd]; change (13 =? SegUPIDMID) with true;
      cbn [negb fold_left app apply_desc_op set_owner fst snd];
      rewrite ?(Ets true); rewrite ?N.mod_small by assumption; rewrite ?comps_mod by (apply Hc); reflexivity.
Qed.

Lemma build_cmd_expected eid body : wf_command (Insert eid body) -> supported_cmd (Insert eid body) ->
  no_components (Insert eid body) ->
  fold_left (fun c o => apply_cmd_op o c) (ops_of_insert eid body) (create_cmd 2) = expected_cmd (Insert eid body).
Proof.
  destruct body as [b|]; [|reflexivity]. cbn [wf_command supported_cmd no_components]. intros (He & Hb) Hs Hn.
  destruct b as [out mode brk up an ae]. destruct Hb as (Hm & Hbrk & Hup & Han & Hae).
  cbn [ib_out ib_mode ib_break ib_unique_program_id ib_avail_num ib_avails_expected] in *.
  unfold ops_of_insert, expected_cmd, expected_insert, create_cmd.
  cbn [ib_out ib_mode ib_break ib_unique_program_id ib_avail_num ib_avails_expected].
  change (2 =? 1) with false. change (2 =? 2) with true. cbv iota.
  destruct mode as [|[p|]|tags|cs]; cbn [wf_mode wf_stime] in *; try congruence; subst;
    destruct brk as [[a d]|];
    cbn [fold_left app apply_cmd_op apply_ins_op mode_program mode_immediate mode_time expected_comps st_has st_val map];
    rewrite ?N.mod_small by assumption; reflexivity.
Qed.

(* the state reached by the history: the decoder's struct for s, before UpdateData fills in the lengths and data *)
Definition pre_state (s : splice_info) : scte :=
  mkscte 1 252 false false 0 0 false 0 (expected_pts s) 0 (si_tier s) 0 (command_type (si_cmd s))
         (expected_cmd (si_cmd s)) (expected_descs 1 (si_descs s)) 0 [] [].

Lemma map_build_desc ds : Forall is_seg ds -> Forall wf_descriptor ds ->
  map (build_desc 1) (map ops_of_desc ds) = expected_descs 1 ds.
Proof.
  induction ds as [|d ds IH]; intros Hs Hw; [reflexivity|].
  inversion Hs as [|? ? Hd Hs']; inversion Hw as [|? ? Hwd Hw']; subst.
  destruct d as [eid body|]; [|contradiction]. cbn [map expected_descs]. rewrite IH by assumption.
  rewrite build_desc_expected by assumption. reflexivity.
Qed.
Lemma expected_other_segs ds : Forall is_seg ds -> expected_other ds = [].
Proof. induction 1 as [|d ds Hd _ IH]; [reflexivity|]. destruct d; [exact IH|contradiction]. Qed.

Theorem script_reaches s : api_buildable s -> run_script create_scte35 (script_of s) = pre_state s.
Proof.
  intros (Hcan & Hsegs & Hnc & Hpv & Hea & Hcw & Hssi & Hpriv).
  destruct Hcan as (Hsup & _). destruct Hsup as ((Hsap & _ & Hadj & Htier & Hcmd & Hcl & Hds & _) & Htid & Henc & Hptr & Hsc).
  unfold script_of, run_script. rewrite fold_left_app.
  assert (Ec : fold_left apply_sig_op (ops_of_cmd (si_cmd s)) create_scte35
               = with_cmd create_scte35 (command_type (si_cmd s)) (expected_cmd (si_cmd s))).
  { destruct (si_cmd s) as [|t|eid body|ty body] eqn:E; cbn [ops_of_cmd fold_left apply_sig_op supported_cmd wf_command] in *.
    - reflexivity.
    - destruct t as [p|]; [|congruence]. cbn [wf_stime st_val] in *. unfold create_cmd.
      change (1 =? 1) with true. cbv iota. cbn [fold_left apply_cmd_op]. rewrite N.mod_small by assumption. reflexivity.
    - rewrite build_cmd_expected by assumption. reflexivity.
    - destruct Hsc. }
  rewrite Ec. cbn [fold_left apply_sig_op with_cmd with_pts with_tier with_descs s_id s_cmd_type s_cmd create_scte35
                   s_tid s_ssi s_pi s_slen s_protocol s_encrypted s_enc_alg s_pts s_cw s_tier s_scl s_descs s_stuffing s_data s_other].
  assert (Hpts : expected_pts s < 8589934592) by (unfold expected_pts; destruct (si_cmd s); lia).
  rewrite !N.mod_small by assumption. rewrite map_build_desc by assumption. reflexivity.
Qed.

(* UpdateData after that history = the canonical bytes of s; and decoding them gives back s's struct *)
Theorem build_canonical s : api_buildable s ->
  fst (update_data (run_script create_scte35 (script_of s))) = ser_section s.
Proof.
  intros Hb. rewrite (script_reaches s Hb).
  destruct Hb as (Hcan & Hsegs & Hnc & Hpv & Hea & Hcw & Hssi & Hpriv).
  destruct (encode_decode_canonical s Hcan) as [_ E]. rewrite <- E.
  pose proof Hcan as (((_ & _) & Htid & _) & _).
  unfold update_data, pre_state, expected. cbn [fst s_cmd s_other s_descs s_stuffing s_tid s_ssi s_pi s_pts s_protocol s_encrypted s_enc_alg s_cw s_tier s_cmd_type].
  rewrite Htid, Hssi, Hpriv, Hpv, Hea, Hcw. rewrite (expected_other_segs _ Hsegs). reflexivity.
Qed.
