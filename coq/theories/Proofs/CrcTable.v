(* C13: the byte-at-a-time table-driven formulation of CRC-32/MPEG-2 equals the bit-serial register. *)
From Gots Require Import Base.Prelude Base.CodecLemmas Model.Crc Spec.Crc32 Proofs.CrcRegister Proofs.CrcUnique.
Local Open Scope N_scope.

(* eight zero-steps *)
Definition a8 (x : N) : N := a0 (a0 (a0 (a0 (a0 (a0 (a0 (a0 x))))))).
Lemma a8_lin r s : a8 (N.lxor r s) = N.lxor (a8 r) (a8 s).
Proof. unfold a8. rewrite !a0_lin. reflexivity. Qed.
Lemma a8_iter x : Crc.iter 8 a0 x = a8 x. Proof. reflexivity. Qed.

Lemma step_false r : Crc32.step r false = a0 r.
Proof. rewrite spec_step_dstep, dstep_a0. apply N.lxor_0_r. Qed.
Lemma table_entry_a8 i : Crc32.table_entry i = a8 (i * 16777216).
Proof. unfold Crc32.table_entry, Crc32.register, a8. cbn [fold_left]. rewrite !step_false. reflexivity. Qed.

Lemma nth_map_nrange {A} (f : N -> A) d n : forall k i, (i < n)%nat ->
  nth i (map f (Crc32.nrange k n)) d = f (k + N.of_nat i).
Proof. induction n as [|n IH]; intros k i H; [lia|].
  cbn [Crc32.nrange map]. destruct i as [|i]; cbn [nth].
  - f_equal. lia.
  - rewrite IH by lia. f_equal. lia. Qed.
Lemma table_lookup i : i < 256 -> nth (N.to_nat i) Crc32.table 0 = a8 (i * 16777216).
Proof. intro H. unfold Crc32.table. rewrite nth_map_nrange by lia. rewrite table_entry_a8. f_equal. lia. Qed.

(* a zero-step of a value below 2^31 is a plain doubling *)
Lemma a0_small x : x < 2147483648 -> a0 x = 2 * x.
Proof. intro H. unfold a0, astep, msbit. cbn [N.b2n]. rewrite N.lor_0_r.
  assert (E: N.testbit x 31 = false).
  { destruct (N.eq_dec x 0) as [->|Hx]; [apply N.bits_0|]. apply N.bits_above_log2. apply N.log2_lt_pow2; lia. }
  rewrite E. unfold CrcRegister.mask. change 4294967295 with (N.ones 32). rewrite N.land_ones, N.shiftl_mul_pow2.
  change (2 ^ 1) with 2. change (2 ^ 32) with 4294967296. rewrite N.mod_small by lia. lia. Qed.
Lemma a8_small x : x < 16777216 -> a8 x = 256 * x.
Proof. intro H. unfold a8.
  rewrite (a0_small x) by lia. rewrite (a0_small (2 * x)) by lia. rewrite (a0_small (2 * (2 * x))) by lia.
  rewrite (a0_small (2 * (2 * (2 * x)))) by lia. rewrite (a0_small (2 * (2 * (2 * (2 * x))))) by lia.
  rewrite (a0_small (2 * (2 * (2 * (2 * (2 * x)))))) by lia.
  rewrite (a0_small (2 * (2 * (2 * (2 * (2 * (2 * x))))))) by lia.
  rewrite (a0_small (2 * (2 * (2 * (2 * (2 * (2 * (2 * x)))))))) by lia. lia. Qed.

(* clocking the eight bits of byte b through the register in state r = eight zero-steps from r xor (b << 24) *)
Lemma bits_of_byte_top b : b < 256 ->
  Crc32.bits_of_byte b = map (fun i => N.testbit (b * 16777216) (31 - i)) (CrcRegister.nseq 0 8).
Proof. intro H. unfold Crc32.bits_of_byte. cbn [CrcRegister.nseq map].
  change 16777216 with (2 ^ 24). rewrite !N.mul_pow2_bits_high by (cbn; lia). reflexivity. Qed.
Lemma byte_word r b : b < 256 ->
  Crc32.register r (Crc32.bits_of_byte b) = a8 (N.lxor r (b * 16777216)).
Proof. intro H. rewrite register_dfold, bits_of_byte_top by exact H.
  pose proof (feed_xor_first (b * 16777216) 8 0 r) as F. change (0 + N.of_nat 8) with 8 in F.
  assert (E8: T (b * 16777216) 8 = 0).
  { unfold T, M32. replace (b * 16777216 * 2 ^ 8) with (b * 4294967296) by (change (2 ^ 8) with 256; lia).
    apply N.mod_mul. discriminate. }
  assert (E0: T (b * 16777216) 0 = b * 16777216).
  { unfold T, M32. change (2 ^ 0) with 1. rewrite N.mul_1_r. apply N.mod_small. lia. }
  rewrite E8, E0, N.lxor_0_r in F. rewrite F by (cbn; lia). apply a8_iter. Qed.

(* splitting the register into its top byte and its low 24 bits *)
Lemma split_top r b : r < 4294967296 -> b < 256 ->
  N.lxor r (b * 16777216) = N.lxor (N.lxor (r / 16777216) b * 16777216) (r mod 16777216).
Proof. intros Hr Hb.
  assert (Er: r = N.lxor (r / 16777216 * 16777216) (r mod 16777216)).
  { rewrite N.lxor_lor.
    - rewrite (lor_mult_add (r / 16777216 * 16777216) (r mod 16777216) 24).
      + lia.
      + change (2 ^ 24) with 16777216. apply N.mod_mul. discriminate.
      + change (2 ^ 24) with 16777216. apply N.mod_lt. discriminate.
    - apply N.bits_inj. intro m. rewrite N.land_spec, N.bits_0.
      change 16777216 with (2 ^ 24).
      destruct (N.lt_ge_cases m 24) as [Hm|Hm].
      + rewrite N.mul_pow2_bits_low by exact Hm. reflexivity.
      + rewrite N.mod_pow2_bits_high by exact Hm. apply andb_false_r. }
  rewrite Er at 1.
  change 16777216 with (2 ^ 24). rewrite <- !N.shiftl_mul_pow2, N.shiftl_lxor.
  rewrite !N.lxor_assoc. f_equal. apply N.lxor_comm. Qed.

Lemma lxor_lt_256 a b : a < 256 -> b < 256 -> N.lxor a b < 256.
Proof. intros Ha Hb.
  assert (E: N.land (N.lxor a b) 255 = N.lxor a b).
  { rewrite CodecLemmas.land_lxor_distr_l, !land255, !N.mod_small by assumption. reflexivity. }
  rewrite <- E, land255. apply N.mod_lt. discriminate. Qed.

Lemma table_step_register r b : r < 4294967296 -> b < 256 ->
  Crc32.table_step r b = Crc32.register r (Crc32.bits_of_byte b).
Proof. intros Hr Hb. rewrite byte_word by exact Hb. rewrite split_top by assumption. rewrite a8_lin.
  unfold Crc32.table_step. rewrite table_lookup by (apply lxor_lt_256; [lia|exact Hb]).
  rewrite (a8_small (r mod 16777216)) by lia. rewrite N.lxor_comm. f_equal. lia. Qed.

Lemma register_bits_of bs : forall r, Crc32.register r (Crc32.bits_of bs) =
  fold_left (fun r b => Crc32.register r (Crc32.bits_of_byte b)) bs r.
Proof. intro r. unfold Crc32.register, Crc32.bits_of. apply fold_left_flat_map. Qed.

Lemma tab_eq bs : is_bytes bs -> forall r, r < 4294967296 ->
  fold_left Crc32.table_step bs r = fold_left (fun r b => Crc32.register r (Crc32.bits_of_byte b)) bs r.
Proof. induction 1 as [|b bs Hb Hbs IH]; intros r Hr; [reflexivity|]. cbn [fold_left].
  rewrite table_step_register by assumption. apply IH.
  pose proof (register_bounded (Crc32.bits_of_byte b) r (bounded_lt r Hr)) as B.
  unfold bounded, CrcRegister.mask in B. change 4294967295 with (N.ones 32) in B. rewrite N.land_ones in B.
  rewrite <- B. apply N.mod_lt. discriminate. Qed.

(* the table-driven formulation is the bit-serial register, for every byte string *)
Theorem crc_tab_is_crc bs : is_bytes bs -> Crc32.crc_tab bs = Crc32.crc bs.
Proof. intro H. unfold Crc32.crc_tab, Crc32.crc. rewrite register_bits_of. apply tab_eq; [exact H|reflexivity]. Qed.

Corollary compute_crc_is_table_driven bs : is_bytes bs -> Crc.compute_crc bs = to_be32 (Crc32.crc_tab bs).
Proof. intro H. rewrite crc_tab_is_crc by exact H. apply compute_crc_is_mpeg2. Qed.
