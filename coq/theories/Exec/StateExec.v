(* Executor ops for C10 (same names in goexec/state.go).
   trk.hist <pool> <script>: pool = [ desc* ] (wire format of Exec/SegExec.v, id = position),
     script = [ call* ], call = [0 i] ProcessDescriptor(pool[i]) | [1 i] Close(pool[i]) | [2] Open();
     reply = [ obs* ], obs = [ [closed ids] err [0 [Open() ids]] m ] | [ [closed ids] err [2] m ] (Open panicked)
                            | [2] (the call panicked); the run stops at the first panic.
     m = 1 when a getter of some pool descriptor changed during the run so far (goexec snapshots them;
     the tracker only reads its arguments, so the model always answers 0).
   spec.trk <pool> <script> <observations>: the trace checker of Spec/Trackers.v on observations in the
     reply format above; reply [] = accepted, [k code] = call k violates clause `code`. *)
From Gots Require Import Base.Prelude Exec.ExecBase Exec.SegExec Model.SegDesc Model.State Spec.Trackers.
Import SegDesc.

Definition vids (l : list N) : val := VL (map vn l).

Definition call_of_val (v : val) : option State.call :=
  match v with
  | VL [VI 0%Z; VI i] => Some (State.CProcess (Z.to_nat i))
  | VL [VI 1%Z; VI i] => Some (State.CClose (Z.to_nat i))
  | VL [VI 2%Z] => Some State.COpen
  | _ => None
  end.
Fixpoint calls_of_vals (l : list val) : option (list State.call) :=
  match l with
  | [] => Some []
  | v :: t => match call_of_val v, calls_of_vals t with Some c, Some r => Some (c :: r) | _, _ => None end
  end.

Definition val_of_obs (o : option State.obs) : val :=
  match o with
  | None => VL [VI 2%Z]
  | Some o => VL [vids (State.o_closed o); vn (State.o_err o); vres vids (State.o_open o); VI 0%Z]
  end.

Definition tcall_of_call (c : State.call) : Trackers.tcall :=
  match c with
  | State.CProcess i => Trackers.TProcess i
  | State.CClose i => Trackers.TClose i
  | State.COpen => Trackers.TOpen
  end.

Fixpoint ns_of_vals (l : list val) : option (list N) :=
  match l with
  | [] => Some []
  | VI z :: t => match ns_of_vals t with Some r => Some (zN z :: r) | None => None end
  | _ => None
  end.
Definition tobs_of_val (v : val) : option Trackers.tobs :=
  match v with
  | VL [VI 2%Z] => Some (Trackers.mkTobs [] 0 None)
  | VL [VL cl; VI e; VL [VI 2%Z]] | VL [VL cl; VI e; VL [VI 2%Z]; VI _] =>
    match ns_of_vals cl with Some c => Some (Trackers.mkTobs c (zN e) None) | None => None end
  | VL [VL cl; VI e; VL [VI 0%Z; VL op]] | VL [VL cl; VI e; VL [VI 0%Z; VL op]; VI _] =>
    match ns_of_vals cl, ns_of_vals op with
    | Some c, Some o => Some (Trackers.mkTobs c (zN e) (Some o))
    | _, _ => None
    end
  | _ => None
  end.
Fixpoint tobss_of_vals (l : list val) : option (list Trackers.tobs) :=
  match l with
  | [] => Some []
  | v :: t => match tobs_of_val v, tobss_of_vals t with Some c, Some r => Some (c :: r) | _, _ => None end
  end.

(* the model's observations in the checker's vocabulary (used by the theorems and the executor alike) *)
Definition tobs_of_obs (o : option State.obs) : Trackers.tobs :=
  match o with
  | None => Trackers.mkTobs [] 0 None
  | Some o => Trackers.mkTobs (State.o_closed o) (State.o_err o)
                (match State.o_open o with Ok l => Some l | _ => None end)
  end.

Open Scope string_scope.
Definition ops : list op := [
  ("trk.hist", fun a => match a with
     | [VL pool; VL script] =>
       match descs_of_vals pool, calls_of_vals script with
       | Some p, Some cs => VL (map val_of_obs (State.run p State.NewState cs))
       | _, _ => vbad
       end
     | _ => vbad end);
  ("spec.trk", fun a => match a with
     | [VL pool; VL script; VL observations] =>
       match descs_of_vals pool, calls_of_vals script, tobss_of_vals observations with
       | Some p, Some cs, Some os =>
         match Trackers.check p (map tcall_of_call cs) os with
         | None => VL []
         | Some (k, code) => VL [vn k; vn code]
         end
       | _, _, _ => vbad
       end
     | _ => vbad end)
].
