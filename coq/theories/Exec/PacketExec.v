(* Executor ops for Model/Packet.v and Model/Create.v (C01: the hdr ops, C02: the pay ops).
   goexec/packet.go registers the same names over the real library and prints the same text. *)
From Gots Require Import Base.Prelude Exec.ExecBase Model.Packet Model.Create Spec.Iso13818Hdr Spec.Iso13818Recog.
Import Packet.

(* ---- observations ---- *)
Definition nb (b : bool) : N := if b then 1 else 0.
Definition err_code (o : option N) : N := match o with Some e => e | None => 0 end.
(* every getter of the transport header, in a fixed order *)
Definition getters (p : bytes) : list N :=
  [ nb (PayloadUnitStartIndicator_fn p); Pid_fn p; nb (ContainsPayload p); nb (ContainsAdaptationField p);
    ContinuityCounter_fn p; nb (IsNull_fn p); nb (IsPat_fn p);
    nb (TransportErrorIndicator p); nb (PayloadUnitStartIndicator_m p); nb (TransportPriority p);
    PID_m p; TransportScramblingControl p; AdaptationFieldControl p; nb (HasPayload p);
    nb (HasAdaptationField p); ContinuityCounter_m p; nb (IsNull_m p); nb (IsPAT_m p);
    err_code (CheckErrors p) ].
Definition vgetters (p : bytes) : val := VL (map vn (getters p)).
Definition be2 (x : N) : bytes := [ N.land (N.shiftr x 8) 255; N.land x 255 ].
Definition zb (z : Z) : bool := negb (Z.eqb z 0).
Definition one : val := VI 1%Z.

(* ---- sweeps: one request enumerates affected header byte(s) x field values inside the executor ----
   for every combination x: p0 = prep x (the packet with the affected bytes forced), r = f x p0;
   output = header bytes of r ++ read-back values (2 bytes each);
   second component = number of combinations whose bytes 4..187 are those of the input *)
Fixpoint nrange (fuel : nat) (s : N) : list N :=
  match fuel with O => [] | S f => s :: nrange f (N.succ s) end.
Definition tail4 (p : bytes) : bytes := skipn 4 p.
Definition sweep {X} (combos : list X) (prep : X -> bytes) (f : X -> bytes -> bytes)
           (rd : bytes -> list N) : val :=
  let step (acc : list bytes * N) (x : X) :=
    let p0 := prep x in let r := f x p0 in
    ((firstn 4 r ++ flat_map be2 (rd r)) :: fst acc,
     if bytes_eqb (tail4 r) (tail4 p0) then snd acc + 1 else snd acc) in
  let res := fold_left step combos ([], 0) in
  VL [VB (List.concat (rev_append (fst res) [])); vn (snd res)].
Definition pairs {A B} (la : list A) (lb : list B) : list (A * B) :=
  flat_map (fun a => map (fun b => (a, b)) lb) la.
Definition bytes256 : list N := nrange 256 0.
Definition zrange (lo : Z) (n : nat) : list Z := map (fun k => (lo + Z.of_N k)%Z) (nrange n 0).

Definition rd_bits (p : bytes) : list N :=
  [ nb (TransportErrorIndicator p); nb (PayloadUnitStartIndicator_m p); nb (PayloadUnitStartIndicator_fn p);
    nb (TransportPriority p) ].
Definition rd_pid (p : bytes) : list N :=
  [ Pid_fn p; PID_m p; nb (IsNull_fn p); nb (IsNull_m p); nb (IsPat_fn p); nb (IsPAT_m p) ].
Definition rd_b3 (p : bytes) : list N :=
  [ TransportScramblingControl p; AdaptationFieldControl p; ContinuityCounter_fn p; ContinuityCounter_m p;
    nb (ContainsPayload p); nb (HasPayload p); nb (ContainsAdaptationField p); nb (HasAdaptationField p);
    err_code (CheckErrors p) ].

Definition set_bit_which (w : N) (p : bytes) (v : bool) : bytes :=
  if w =? 0 then SetTransportErrorIndicator p v else
  if w =? 1 then SetPayloadUnitStartIndicator p v else SetTransportPriority p v.

(* ---- create.go options on the wire: 0..5 the flag options, [6 bytes] payload closure, [7 pts] WithPES *)
Definition opt_of_val (v : val) : option Create.option_fn :=
  match v with
  | VI 0%Z => Some Create.WithHasPayloadFlag
  | VI 1%Z => Some Create.WithHasAdaptationFieldFlag
  | VI 2%Z => Some Create.WithAFPrivateDataFlag
  | VI 3%Z => Some Create.WithPUSI
  | VI 4%Z => Some Create.WithContinuousAF
  | VI 5%Z => Some Create.WithDiscontinuousAF
  | VL [VI 6%Z; VB pay] => Some (Create.OptSetPayload pay)
  | VL [VI 7%Z; VI pts] => Some (Create.OptWithPES (zN pts))
  | _ => None
  end.
Fixpoint opts_of_vals (l : list val) : option (list Create.option_fn) :=
  match l with
  | [] => Some []
  | v :: t => match opt_of_val v, opts_of_vals t with Some o, Some r => Some (o :: r) | _, _ => None end
  end.
Fixpoint bytes_of_vals (l : list val) : option (list bytes) :=
  match l with
  | [] => Some []
  | VB b :: t => match bytes_of_vals t with Some r => Some (b :: r) | None => None end
  | _ => None
  end.

Definition rd_12 (q : bytes) : list N := rd_bits q ++ rd_pid q.
Definition inc_which (k : N) (q : bytes) : bytes :=
  if k =? 0 then IncContinuityCounter q else if k =? 1 then ZeroContinuityCounter q else
  if k =? 2 then IncrementCC q else if k =? 3 then ZeroCC q else q.

(* ---- ser.pkt: logical packet on the wire -> Spec serialiser (used by the C02 generator) ---- *)
Definition optb_of_val (v : val) : option (option bytes) :=
  match v with VL [] => Some None | VL [VB b] => Some (Some b) | _ => None end.
Definition optn_of_val (v : val) : option (option N) :=
  match v with VL [] => Some None | VL [VI z] => Some (Some (zN z)) | _ => None end.
Definition afield_of_val (v : val) : option Iso.afield :=
  match v with
  | VL [] => Some Iso.NoAF
  | VL [VL []] => Some Iso.EmptyAF
  | VL [VL [VI t; a; b; c; d; e; VB st]] =>
    match optb_of_val a, optb_of_val b, optn_of_val c, optb_of_val d, optb_of_val e with
    | Some a', Some b', Some c', Some d', Some e' => Some (Iso.AF (Iso.mkLaf (zN t) a' b' c' d' e') st)
    | _, _, _, _, _ => None
    end
  | _ => None
  end.
Definition ser_pkt_op (a : list val) : val :=
  match a with
  | [VL [VI s; VI te; VI pu; VI tp; VI pid; VI tsc; VI afc; VI cc]; f; VB pay] =>
    match afield_of_val f with
    | Some f' =>
      let l := Iso.mkLpkt (Iso.mkHdr (zN s) (zN te) (zN pu) (zN tp) (zN pid) (zN tsc) (zN afc) (zN cc)) f' pay in
      VL [VB (Iso.ser_pkt l); vbool (Iso.wf_lpktb l)]
    | None => vbad
    end
  | _ => vbad
  end.

Open Scope string_scope.
Definition ops : list op := [
  (* ---------------- C01 ---------------- *)
  ("hdr.get", fun a => match a with [VB p] => VL [vgetters p; one] | _ => vbad end);
  ("hdr.new", fun a => match a with [] => VB New | _ => vbad end);
  ("hdr.set_tei", fun a => match a with [VB p; VI v] =>
      let r := SetTransportErrorIndicator p (zb v) in VL [VB r; vgetters r] | _ => vbad end);
  ("hdr.set_pusi", fun a => match a with [VB p; VI v] =>
      let r := SetPayloadUnitStartIndicator p (zb v) in VL [VB r; vgetters r] | _ => vbad end);
  ("hdr.set_tp", fun a => match a with [VB p; VI v] =>
      let r := SetTransportPriority p (zb v) in VL [VB r; vgetters r] | _ => vbad end);
  ("hdr.set_pid", fun a => match a with [VB p; VI v] =>
      let r := SetPID p v in VL [VB r; vgetters r] | _ => vbad end);
  ("hdr.set_tsc", fun a => match a with [VB p; VI v] =>
      let r := SetTransportScramblingControl p (zN v) in VL [VB r; vgetters r] | _ => vbad end);
  ("hdr.set_cc", fun a => match a with [VB p; VI v] =>
      let r := SetContinuityCounter p v in VL [VB r; vgetters r] | _ => vbad end);
  ("hdr.inc_cc", fun a => match a with [VB p] =>
      let r := IncContinuityCounter p in VL [VB r; vgetters r] | _ => vbad end);
  ("hdr.zero_cc", fun a => match a with [VB p] =>
      let r := ZeroContinuityCounter p in VL [VB r; vgetters r] | _ => vbad end);
  (* copying helpers: result, getters, argument unchanged, result is fresh memory *)
  ("hdr.increment_cc_fn", fun a => match a with [VB p] =>
      let r := IncrementCC p in VL [VB r; vgetters r; one; one] | _ => vbad end);
  ("hdr.zero_cc_fn", fun a => match a with [VB p] =>
      let r := ZeroCC p in VL [VB r; vgetters r; one; one] | _ => vbad end);
  ("hdr.set_cc_fn", fun a => match a with [VB p; VI v] =>
      let r := SetCC p (zN v) in VL [VB r; vgetters r; one; one] | _ => vbad end);
  (* Equal(a,b), a.Equals(b), Equal(a,a) on one pointer, arguments unchanged *)
  ("hdr.equal", fun a => match a with [VB p; VB q] =>
      VL [vbool (Equal p q); vbool (Equal p q); one; one] | _ => vbad end);
  (* packet or nil, error or nil, input unchanged, packet does not alias the input *)
  ("hdr.from_bytes", fun a => match a with [VB b] =>
      let r := FromBytes b in VL [vopt VB (fst r); vopt vn (snd r); one; one] | _ => vbad end);
  ("hdr.copy_packets", fun a => match a with [VL l] =>
      match bytes_of_vals l with
      | Some ps => VL [VL (map VB (CopyPackets ps)); one; one]
      | None => vbad end | _ => vbad end);
  (* sweeps *)
  ("hdr.sweep_bit", fun a => match a with [VB p; VI w] =>
      sweep (pairs bytes256 [false; true]) (fun x => upd p 1 (fst x))
            (fun x q => set_bit_which (zN w) q (snd x)) rd_bits | _ => vbad end);
  ("hdr.sweep_pid", fun a => match a with [VB p; VI b1] =>
      sweep (zrange 0 8192) (fun _ => upd p 1 (zN b1)) (fun x q => SetPID q x) rd_pid | _ => vbad end);
  ("hdr.sweep_pid_b2", fun a => match a with [VB p; VI pid] =>
      sweep (pairs bytes256 bytes256) (fun x => upd (upd p 1 (fst x)) 2 (snd x))
            (fun _ q => SetPID q pid) rd_pid | _ => vbad end);
  ("hdr.sweep_tsc", fun a => match a with [VB p] =>
      sweep (pairs bytes256 (nrange 4 0)) (fun x => upd p 3 (fst x))
            (fun x q => SetTransportScramblingControl q (snd x)) rd_b3 | _ => vbad end);
  ("hdr.sweep_cc", fun a => match a with [VB p; VI lo; VI n] =>
      sweep (pairs bytes256 (zrange lo (N.to_nat (zN n)))) (fun x => upd p 3 (fst x))
            (fun x q => SetContinuityCounter q (snd x)) rd_b3 | _ => vbad end);
  ("hdr.sweep_inc", fun a => match a with [VB p] =>
      sweep (pairs bytes256 (nrange 5 0)) (fun x => upd p 3 (fst x))
            (fun x q => inc_which (snd x) q) rd_b3 | _ => vbad end);
  ("hdr.sweep_cc_fn", fun a => match a with [VB p; VI n] =>
      sweep (pairs bytes256 (nrange (N.to_nat (zN n)) 0)) (fun x => upd p 3 (fst x))
            (fun x q => SetCC q (snd x)) rd_b3 | _ => vbad end);
  (* getters only: all values of (b1,b2), and of (b0,b3) *)
  ("hdr.sweep_get12", fun a => match a with [VB p] =>
      sweep (pairs bytes256 bytes256) (fun x => upd (upd p 1 (fst x)) 2 (snd x)) (fun _ q => q)
            rd_12 | _ => vbad end);
  ("hdr.sweep_get03", fun a => match a with [VB p] =>
      sweep (pairs bytes256 bytes256) (fun x => upd (upd p 0 (fst x)) 3 (snd x)) (fun _ q => q)
            rd_b3 | _ => vbad end);
  (* ---------------- C02 ---------------- *)
  ("ser.pkt", ser_pkt_op);
  (* JUDGE: is this byte string a well-formed transport packet (Spec/Iso13818Recog.v; sound by C02_wf_recogniser_sound);
     applied by bin/gen/c02.py to the REAL result of SetPayload *)
  ("spec.pkt.wf", fun a => match a with [VB p] => vbool (IsoRecog.wf_pktb p) | _ => vbad end);
  (* Payload (fn, view), Payload (method, copy), Header, PESHeader, packet unchanged, method result is a copy *)
  ("pay.view", fun a => match a with [VB p] =>
      VL [vres VB (Payload_fn p); vres VB (Payload_m p); vres VB (Header p); vres VB (PESHeader p); one; one]
      | _ => vbad end);
  (* SetPayload (method): packet after, (count, error), getters after, data unchanged *)
  ("pay.set", fun a => match a with [VB p; VB d] =>
      let r := SetPayload_m p d in VL [VB (fst r); vres vn (snd r); vgetters (fst r); one] | _ => vbad end);
  ("pay.set_afc", fun a => match a with [VB p; VI v] =>
      let r := SetAdaptationFieldControl p (zN v) in VL [VB (fst r); vopt vn (snd r)] | _ => vbad end);
  ("pay.set_fn", fun a => match a with [VB p; VB d] =>
      let r := Create.SetPayload_fn p d in VL [VB (fst r); vn (snd r); one] | _ => vbad end);
  ("pay.create", fun a => match a with [VI pid; VL os] =>
      match opts_of_vals os with Some l => VB (Create.Create pid l) | None => vbad end | _ => vbad end);
  (* the same option slice, with spare capacity, used for Create(pid, opts[:k]...), Create(pid, opts...) and the prefix
     again: three independent values here, so the answer is what a Create that leaves its caller's slice alone gives *)
  ("pay.create2", fun a => match a with [VI pid; VL os; VI k] =>
      match opts_of_vals os with
      | Some l => let pre := firstn (Z.to_nat k) l in
                  VL [VB (Create.Create pid pre); VB (Create.Create pid l); VB (Create.Create pid pre)]
      | None => vbad end | _ => vbad end);
  (* p.SetPayload(packet.Payload(p)[lo:hi]): the argument is a view of the packet's own payload; in Gallina it is a copy *)
  ("pay.setown", fun a => match a with [VB p; VI lo; VI hi] =>
      match Payload_fn p with
      | Ok v => match slice v (zN lo) (zN hi) with
                | Ok d => let r := SetPayload_m p d in VL [VB (fst r); vres vn (snd r); vgetters (fst r)]
                | _ => vbad end
      | r => VL [VB p; vres VB r; vgetters p]
      end | _ => vbad end);
  ("pay.create_test", fun a => match a with [VI pid; VI cc; VI pusi; VI hp] =>
      VB (Create.CreateTestPacket pid (zN cc) (zb pusi) (zb hp)) | _ => vbad end);
  ("pay.create_dc", fun a => match a with [VI pid; VI cc] =>
      VB (Create.CreateDCPacket pid (zN cc)) | _ => vbad end);
  ("pay.create_pwp", fun a => match a with [VI pid; VI cc; VB pay] =>
      VL [VB (Create.CreatePacketWithPayload pid (zN cc) pay); one] | _ => vbad end)
].
