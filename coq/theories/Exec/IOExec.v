(* Executor ops for packet/io.go (C16), packet/packetwriter.go (C18), packet/accumulator.go (C17).
   The same op names run the real code in goexec/io.go. *)
From Gots Require Import Base.Prelude Exec.ExecBase Model.IO.
Open Scope string_scope.

(* io.sync <data> <terminal error code> <bufio size> <underlying reader mode>
   The model does not depend on the bufio size / fragmentation of the underlying reader
   (bufio semantics is the oracle contract); goexec uses them to build the real reader.
   reply: [0 [off next188]]  |  [1 e [off next188]]  |  [2]  |  [3]
   next188 = what io.ReadFull(r, 188 bytes) delivers after Sync returned. *)
Definition sync_op (a : list val) : val :=
  match a with
  | [VB data; VI te; VI _; VI _] =>
    match SyncIO.sync_raw (SyncIO.start data (zN te)) with
    | Ok (off, err, r') =>
      let obs := VL [vn off; VB (fst (SyncIO.read_n 188 r'))] in
      match err with
      | None => VL [VI 0%Z; obs]
      | Some e => VL [VI 1%Z; vn e; obs]
      end
    | Err e => VL [VI 1%Z; vn e]
    | Panic => VL [VI 2%Z]
    | Diverge => VL [VI 3%Z]
    end
  | _ => vbad
  end.

Definition ops : list op := [
  ("io.sync", sync_op)
].
