(* Executor ops for packet/io.go (C16), packet/packetwriter.go (C18), packet/accumulator.go (C17).
   The same op names run the real code in goexec/io.go. *)
From Gots Require Import Base.Prelude Exec.ExecBase Model.IO Model.PacketWriter Model.Accumulator Model.Bufio.
Open Scope string_scope.

(* io.sync <data> <terminal error code> <bufio size> <underlying reader mode>
   The model does not depend on the bufio size / fragmentation of the underlying reader
   (bufio semantics is the oracle contract); goexec uses them to build the real reader.
   reply: [0 [off next188]]  |  [1 e [off next188]]  |  [2]  |  [3]
   next188 = what io.ReadFull(r, 188 bytes) delivers after Sync returned. *)
Definition sync_op (a : list val) : val :=
  match a with
  | [VB data; VI te; VI _; VI _] =>
    match SyncIO.sync_raw (SyncIO.start data (zN te)) with
    | Ok (off, err, r') =>
      let obs := VL [vn off; VB (fst (SyncIO.read_n 188 r'))] in
      match err with
      | None => VL [VI 0%Z; obs]
      | Some e => VL [VI 1%Z; vn e; obs]
      end
    | Err e => VL [VI 1%Z; vn e]
    | Panic => VL [VI 2%Z]
    | Diverge => VL [VI 3%Z]
    end
  | _ => vbad
  end.

(* ---- C18 ----
   scripted packet writer: call number k (from 0) fails with error 61 returning mfail; every other
   call returns (mok, nil).  k < 0: never fails. *)
Definition scripted_writer (k : Z) (mfail mok : Z) : PacketWriter.wfun :=
  fun i _ => if (Z.of_nat i =? k)%Z then (mfail, Some 61) else (mok, None).
Definition verr (e : option N) : val := match e with None => VI 0%Z | Some e => vn e end.
Definition wres (r : Res (Z * option N * list bytes)) : val :=
  match r with
  | Ok (n, e, calls) => VL [VI 0%Z; VL [VI n; verr e; VL (map VB calls); VI 1%Z]]   (* last field: caller's buffer unchanged (goexec snapshot) *)
  | Err e => VL [VI 1%Z; vn e]
  | Panic => VL [VI 2%Z]
  | Diverge => VL [VI 3%Z]
  end.
(* pw.write <p> <k> <mfail> <mok> <adapter 0 = IOWriter, 1 = IOWriteCloser>   reply [0 [n err [calls] input-unchanged]] *)
Definition write_op (a : list val) : val :=
  match a with
  | [VB p; VI k; VI mfail; VI mok; VI _] =>
    wres (PacketWriter.write (scripted_writer k mfail mok) PacketWriter.pkt0 p)
  | _ => vbad
  end.
(* script = [ [chunk errcode] ... ], errcode 0 = nil *)
Fixpoint script_of (l : list val) : option PacketWriter.script :=
  match l with
  | [] => Some []
  | VL [VB c; VI e] :: t =>
    match script_of t with
    | Some s => Some ((c, if (e =? 0)%Z then None else Some (zN e)) :: s)
    | None => None
    end
  | _ => None
  end.
(* pw.readfrom <script> <k> <mfail> <mok> <adapter>   reply [0 [n err [calls] 1]] *)
Definition readfrom_op (a : list val) : val :=
  match a with
  | [VL sc; VI k; VI mfail; VI mok; VI _] =>
    match script_of sc with
    | Some s => wres (PacketWriter.read_from (scripted_writer k mfail mok) PacketWriter.pkt0 s)
    | None => vbad
    end
  | _ => vbad
  end.

(* io.syncb <script> <bufio size>: Sync over the MODEL of bufio.Reader (Model/Bufio.v) over the scripted
   reader; goexec runs the real packet.Sync over the real bufio.NewReaderSize over the same script.
   reply: [0 [off next188]] | [1 e [off next188]], next188 = what io.ReadFull(r, 188 bytes) delivers afterwards *)
Definition syncb_op (a : list val) : val :=
  match a with
  | [VL sc; VI size] =>
    match script_of sc with
    | None => vbad
    | Some s =>
      match Bufio.sync_raw (Z.to_nat size) s with
      | Ok (off, err, b') =>
        match Bufio.read_full 188 b' with
        | Ok (av, _, _) =>
          let obs := VL [vn off; VB av] in
          match err with
          | None => VL [VI 0%Z; obs]
          | Some e => VL [VI 1%Z; vn e; obs]
          end
        | Err e => VL [VI 1%Z; vn e]
        | Panic => VL [VI 2%Z]
        | Diverge => VL [VI 3%Z]
        end
      | Err e => VL [VI 1%Z; vn e]
      | Panic => VL [VI 2%Z]
      | Diverge => VL [VI 3%Z]
      end
    end
  | _ => vbad
  end.

(* bufio.ops <script> <size> <ops>: a sequence of bufio.Reader calls on the MODEL (Model/Bufio.v) vs the
   real bufio.Reader, result of every call compared.  ops: [0] ReadByte, [1] UnreadByte, [2 n] Peek n,
   [3 k] Read into k bytes.  results: ReadByte [0 b] | [1 e]; UnreadByte [0] | [1 e];
   Peek [0 bytes] | [1 e]; Read [bytes e] (e = 0 for nil).  Ties the transcription of bufio to the real one
   on every branch (also those Sync never reaches). *)
Fixpoint bufio_run (fuel : nat) (b : Bufio.breader) (l : list val) : list val :=
  match l with
  | [] => []
  | o :: t =>
    let stop (v : val) := [v] in
    match o with
    | VL [VI 0%Z] =>
      match Bufio.read_byte b with
      | Ok (inl c, b') => VL [VI 0%Z; vn c] :: bufio_run fuel b' t
      | Ok (inr e, b') => VL [VI 1%Z; vn e] :: bufio_run fuel b' t
      | Err e => stop (VL [VI 1%Z; vn e]) | Panic => stop (VL [VI 2%Z]) | Diverge => stop (VL [VI 3%Z])
      end
    | VL [VI 1%Z] =>
      match Bufio.unread_byte b with
      | Ok (None, b') => VL [VI 0%Z] :: bufio_run fuel b' t
      | Ok (Some e, b') => VL [VI 1%Z; vn e] :: bufio_run fuel b' t
      | Err e => stop (VL [VI 1%Z; vn e]) | Panic => stop (VL [VI 2%Z]) | Diverge => stop (VL [VI 3%Z])
      end
    | VL [VI 2%Z; VI n] =>
      match Bufio.peek (zN n) b with
      | Ok (inl bs, b') => VL [VI 0%Z; VB bs] :: bufio_run fuel b' t
      | Ok (inr e, b') => VL [VI 1%Z; vn e] :: bufio_run fuel b' t
      | Err e => stop (VL [VI 1%Z; vn e]) | Panic => stop (VL [VI 2%Z]) | Diverge => stop (VL [VI 3%Z])
      end
    | VL [VI 3%Z; VI k] =>
      match Bufio.read (Z.to_nat k) b with
      | Ok ((d, e), b') => VL [VB d; verr e] :: bufio_run fuel b' t
      | Err e => stop (VL [VI 1%Z; vn e]) | Panic => stop (VL [VI 2%Z]) | Diverge => stop (VL [VI 3%Z])
      end
    | _ => stop vbad
    end
  end.
Definition bufio_ops_op (a : list val) : val :=
  match a with
  | [VL sc; VI size; VL l] =>
    match script_of sc with
    | Some s => VL (bufio_run O (Bufio.new_reader (Z.to_nat size) (PacketWriter.Script s)) l)
    | None => vbad
    end
  | _ => vbad
  end.

(* ---- C17 ----
   predicate oracles: kind 0 done when len >= k; 1 never; 2 always; 3 fails (error 62) when len >= k;
   4 (true, error 62) when len >= k (the error has priority); 5 done when the last byte equals k mod 256;
   6 done when the sum of all accumulated bytes is k mod 256 (the predicate sees the whole buffer) *)
Definition scripted_pred (kind k : Z) : Accumulator.pred :=
  fun data =>
    let big := (k <=? zlen data)%Z in
    if (kind =? 0)%Z then (big, None)
    else if (kind =? 1)%Z then (false, None)
    else if (kind =? 2)%Z then (true, None)
    else if (kind =? 3)%Z then (false, if big then Some 62 else None)
    else if (kind =? 4)%Z then (big, if big then Some 62 else None)
    else if (kind =? 5)%Z then (match rev data with b :: _ => (Z.of_N b =? k mod 256)%Z | [] => false end, None)
    else ((Z.of_N (fold_left N.add data 0%N) mod 256 =? k mod 256)%Z, None).
Fixpoint aops_of (l : list val) : option (list Accumulator.aop) :=
  match l with
  | [] => Some []
  | v :: t =>
    match aops_of t with
    | None => None
    | Some r =>
      match v with
      | VL [VI 0%Z; VB pkt] => Some (Accumulator.OWrite pkt :: r)
      | VL [VI 1%Z] => Some (Accumulator.OReset :: r)
      | VL [VI 2%Z] => Some (Accumulator.OBytes :: r)
      | VL [VI 3%Z] => Some (Accumulator.OPackets :: r)
      | _ => None
      end
    end
  end.
(* the trailing 1 of every result is the defensive-copy flag computed by goexec (always 1 in the model):
   write: the caller's packet is not modified by the call; bytes / packets: the returned slice is
   independent (scribbling over it does not change the next Bytes() / Packets()) *)
Definition aout_val (o : Accumulator.aout) : val :=
  match o with
  | Accumulator.RWrite n e => VL [VI 0%Z; VI n; verr e; VI 1%Z]
  | Accumulator.RReset => VL [VI 1%Z]
  | Accumulator.RBytes b => VL [VI 2%Z; VB b; VI 1%Z]
  | Accumulator.RPackets ps => VL [VI 3%Z; VL (map VB ps); VI 1%Z]
  end.
(* acc.run <pred kind> <k> <ops>   reply [0 [outs]] *)
Definition acc_op (a : list val) : val :=
  match a with
  | [VI kind; VI k; VL l] =>
    match aops_of l with
    | Some os => vres (fun rs => VL (map aout_val rs))
                      (Accumulator.run (scripted_pred kind k) Accumulator.new_acc os)
    | None => vbad
    end
  | _ => vbad
  end.

Definition ops : list op := [
  ("io.sync", sync_op);
  ("io.syncb", syncb_op);
  ("bufio.ops", bufio_ops_op);
  ("pw.write", write_op);
  ("pw.readfrom", readfrom_op);
  ("acc.run", acc_op)
].
