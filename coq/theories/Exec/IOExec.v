(* Executor ops for packet/io.go (C16), packet/packetwriter.go (C18), packet/accumulator.go (C17).
   The same op names run the real code in goexec/io.go. *)
From Gots Require Import Base.Prelude Exec.ExecBase Model.IO Model.PacketWriter.
Open Scope string_scope.

(* io.sync <data> <terminal error code> <bufio size> <underlying reader mode>
   The model does not depend on the bufio size / fragmentation of the underlying reader
   (bufio semantics is the oracle contract); goexec uses them to build the real reader.
   reply: [0 [off next188]]  |  [1 e [off next188]]  |  [2]  |  [3]
   next188 = what io.ReadFull(r, 188 bytes) delivers after Sync returned. *)
Definition sync_op (a : list val) : val :=
  match a with
  | [VB data; VI te; VI _; VI _] =>
    match SyncIO.sync_raw (SyncIO.start data (zN te)) with
    | Ok (off, err, r') =>
      let obs := VL [vn off; VB (fst (SyncIO.read_n 188 r'))] in
      match err with
      | None => VL [VI 0%Z; obs]
      | Some e => VL [VI 1%Z; vn e; obs]
      end
    | Err e => VL [VI 1%Z; vn e]
    | Panic => VL [VI 2%Z]
    | Diverge => VL [VI 3%Z]
    end
  | _ => vbad
  end.

(* ---- C18 ----
   scripted packet writer: call number k (from 0) fails with error 61 returning mfail; every other
   call returns (mok, nil).  k < 0: never fails. *)
Definition scripted_writer (k : Z) (mfail mok : Z) : PacketWriter.wfun :=
  fun i _ => if (Z.of_nat i =? k)%Z then (mfail, Some 61) else (mok, None).
Definition verr (e : option N) : val := match e with None => VI 0%Z | Some e => vn e end.
Definition wres (r : Res (Z * option N * list bytes)) : val :=
  match r with
  | Ok (n, e, calls) => VL [VI 0%Z; VL [VI n; verr e; VL (map VB calls); VI 1%Z]]   (* last field: caller's buffer unchanged (goexec snapshot) *)
  | Err e => VL [VI 1%Z; vn e]
  | Panic => VL [VI 2%Z]
  | Diverge => VL [VI 3%Z]
  end.
(* pw.write <p> <k> <mfail> <mok> <adapter 0 = IOWriter, 1 = IOWriteCloser>   reply [0 [n err [calls] input-unchanged]] *)
Definition write_op (a : list val) : val :=
  match a with
  | [VB p; VI k; VI mfail; VI mok; VI _] =>
    wres (PacketWriter.write (scripted_writer k mfail mok) PacketWriter.pkt0 p)
  | _ => vbad
  end.
(* script = [ [chunk errcode] ... ], errcode 0 = nil *)
Fixpoint script_of (l : list val) : option PacketWriter.script :=
  match l with
  | [] => Some []
  | VL [VB c; VI e] :: t =>
    match script_of t with
    | Some s => Some ((c, if (e =? 0)%Z then None else Some (zN e)) :: s)
    | None => None
    end
  | _ => None
  end.
(* pw.readfrom <script> <k> <mfail> <mok> <adapter>   reply [0 [n err [calls] 1]] *)
Definition readfrom_op (a : list val) : val :=
  match a with
  | [VL sc; VI k; VI mfail; VI mok; VI _] =>
    match script_of sc with
    | Some s => wres (PacketWriter.read_from (scripted_writer k mfail mok) PacketWriter.pkt0 s)
    | None => vbad
    end
  | _ => vbad
  end.

Definition ops : list op := [
  ("io.sync", sync_op);
  ("pw.write", write_op);
  ("pw.readfrom", readfrom_op)
].
