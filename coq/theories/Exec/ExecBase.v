(* Helpers for the executor wrappers: every op is a function list val -> val. *)
From Gots Require Import Base.Prelude.
From Coq Require Export String.
Definition op := (string * (list val -> val))%type.
Definition zN (z : Z) : N := Z.to_N z.
Definition vbytes (b : bytes) : val := VB b.
Fixpoint lookup (name : string) (l : list op) : option (list val -> val) :=
  match l with
  | [] => None
  | (n, f) :: t => if String.eqb n name then Some f else lookup name t
  end.
