From Gots Require Import Base.Prelude Exec.ExecBase Model.Pts Model.Pes Spec.PesSpec.
Open Scope string_scope.
(* all getters of a decoded header; the two trailing fields are goexec's "input unchanged" (0) and
   "Format() returned" (1) observations, constant in the model *)
Definition view (h : Pes.header) : val :=
  VL [vn (Pes.packetStartCodePrefix h); vn (Pes.streamId h); vbool (Pes.dataAlignment h);
      vbool (Pes.has_pts h); vn (Pes.pts h); vbool (Pes.has_dts h); vn (Pes.dts h); VB (Pes.data h);
      VI 0%Z; VI 1%Z].
Definition stamps_of (mode pts dts : Z) : PesSpec.stamps :=
  if Z.eqb mode 0 then PesSpec.NoTs else if Z.eqb mode 2 then PesSpec.PtsOnly (zN pts) else PesSpec.PtsDts (zN pts) (zN dts).
Definition ops : list op := [
  (* pes.time b -> pes.ExtractTime(b)  (the second PTS decoder) *)
  ("pes.time", fun a => match a with [VB b] => vres vn (Pes.extract_time b) | _ => vbad end);
  (* pts.rt old v -> (old after gots.InsertPTS, gots.ExtractTime of it, pes.ExtractTime of it) *)
  ("pts.rt", fun a => match a with
     | [VB b; VI v] => vres (fun b' => VL [VB b'; vres vn (Pts.extract_time b'); vres vn (Pes.extract_time b')])
                            (Pts.insert_pts b (zN v))
     | _ => vbad end);
  (* pes.new b -> NewPESHeader(b): all getters *)
  ("pes.new", fun a => match a with [VB b] => vres view (Pes.new_pes_header b) | _ => vbad end);
  (* pes.pkt p -> packet.PESHeader(p) on a 188-byte packet *)
  ("pes.pkt", fun a => match a with
     | [VB p] => if N.eqb (len p) 188 then vres VB (Pes.pkt_pes_header p) else vbad
     | _ => vbad end);
  (* pes.aligned p -> pes.AlignedPUSI(p): [data] or [] *)
  ("pes.aligned", fun a => match a with
     | [VB p] => if N.eqb (len p) 188 then vopt VB (Pes.aligned_pusi p) else vbad
     | _ => vbad end);
  (* pes.put b v1 v2 -> InsertPTS(b[9:], v1); InsertPTS(b[14:], v2); NewPESHeader(b) : (bytes, getters) *)
  ("pes.put", fun a => match a with
     | [VB b; VI v1; VI v2] =>
         vres (fun b2 => VL [VB b2; vres view (Pes.new_pes_header b2)])
              (let? b1 := Pes.put_ts b 9 (zN v1) in Pes.put_ts b1 14 (zN v2))
     | _ => vbad end);
  (* pes.withpes pkt pts -> packet.WithPES(pkt, pts): (pkt', packet.PESHeader(pkt'), NewPESHeader of packet.Payload(pkt')) *)
  ("pes.withpes", fun a => match a with
     | [VB p; VI v] => if N.eqb (len p) 188 then
         vres (fun p' => VL [VB p'; vres VB (Pes.pkt_pes_header p');
                             vres view (let? pay := Pes.pkt_payload p' in Pes.new_pes_header pay)])
              (Pes.with_pes p (zN v)) else vbad
     | _ => vbad end);
  (* spec.pes <logical> -> the getters required by Spec/PesSpec.v for that record (oracle side; theorem C11_decode_ser_optional) *)
  ("spec.pes", fun a => match a with
     | [VI id; VI pl; VI f6; VI f7; VI mode; VI p; VI d; VB ex; VB dat] =>
         let r := PesSpec.mk_pes (zN id) (zN pl) (zN f6) (zN f7) (stamps_of mode p d) ex dat in
         VL [VI 1%Z; vn (PesSpec.stream_id r); vbool (PesSpec.aligned r); vbool (PesSpec.has_pts r); vn (PesSpec.pts_of r);
             vbool (PesSpec.has_dts r); vn (PesSpec.dts_of r); VB (PesSpec.data r); VI 0%Z; VI 1%Z]
     | _ => vbad end);
  (* spec.pkt p -> what Spec/PesSpec.v requires of packet.PESHeader on this packet: [0 payload] or [1]
     (PUSI, a payload of at least four bytes, starting 00 00 01; theorem C11_pkt_pes_header_iff) *)
  ("spec.pkt", fun a => match a with
     | [VB p] => if N.eqb (len p) 188 then
         match PesSpec.ts_payload p with
         | Some pay => if PesSpec.pusi p && N.leb 4 (len pay) &&
                          match pay with 0%N :: 0%N :: 1%N :: _ => true | _ => false end
                       then VL [VI 0%Z; VB pay] else VL [VI 1%Z]
         | None => VL [VI 1%Z] end else vbad
     | _ => vbad end);
  (* ser.pes id plen flags6 flags7 mode pts dts extra data -> Spec serialiser (modelexec only; used by the generator) *)
  ("ser.pes", fun a => match a with
     | [VI id; VI pl; VI f6; VI f7; VI mode; VI p; VI d; VB ex; VB dat] =>
         VB (PesSpec.ser_pes (PesSpec.mk_pes (zN id) (zN pl) (zN f6) (zN f7) (stamps_of mode p d) ex dat))
     | _ => vbad end)
].
