From Gots Require Import Base.Prelude Exec.ExecBase Model.Pts Model.Pes.
Open Scope string_scope.
Definition ops : list op := [
  (* pes.time b -> pes.ExtractTime(b)  (the second PTS decoder) *)
  ("pes.time", fun a => match a with [VB b] => vres vn (Pes.extract_time b) | _ => vbad end);
  (* pts.rt old v -> (old after gots.InsertPTS, gots.ExtractTime of it, pes.ExtractTime of it) *)
  ("pts.rt", fun a => match a with
     | [VB b; VI v] => vres (fun b' => VL [VB b'; vres vn (Pts.extract_time b'); vres vn (Pes.extract_time b')])
                            (Pts.insert_pts b (zN v))
     | _ => vbad end)
].
