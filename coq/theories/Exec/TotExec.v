(* MODEL side of the C05 ops `tot.<entry> <bytes> [n]` of goexec/total.go.

   goexec runs one entry group of the REAL library (decoder, then every getter / printer / re-encoder of a
   successful result) and answers  [0 u e] returned / [2 xSITE] panicked / [3] hang; e = 1 when the group's PRIMARY
   decoder call returned a non-nil error (which call that is: the e_* functions below; 0 for a group without one).
   Here the same group is run over the MODELS, call by call in the order of total.go, with the argument prepared
   in the same way (pkt_of = totPkt: the bytes copied into a zero 188-byte array; the integer selects ops), and
   the answer is the model's outcome class:
       [0 1 e] every modelled call of the group returned Ok / Err (a value model never modifies its input);
               e = 1 when the model of the primary decoder call returned Err: WHICH inputs are rejected is compared
       [2 x]   some modelled call returned Panic  (Go: the first panic ends the group)
       [3]     some modelled call returned Diverge
   Calls whose model is a plain total Gallina function (no Res type: header getters, CC helpers, flag
   getters, struct-field getters, Data() of EBP / SCTE-35, RemoveElementaryStreams, CanClose, Equal ...) cannot
   have another outcome than "value" and are only listed in the comments.  The printers (String(), Format(), fmt %v /
   Sprint of a result) are run through their panic-relevant models of Model/Printers.v, the state tracker at the end of
   scte.new through Model/State.v.  A call that still has NO model is named in the comment of its group: for those the
   C05 run rests on the real side alone (at present: none; EBPSuccessReadTime returns a stored clock reading whose VALUE
   is not modelled, the call itself is a field read).
   Properties/C05Tot.v proves that these ops never answer [2 x] / [3]. *)
From Gots Require Import Base.Prelude Exec.ExecBase.
From Gots Require Import Model.Packet Model.Create Model.AF Model.AFfn Model.Psi Model.Pat Model.Pmt Model.PmtDesc
  Model.Pts Model.Pes Model.Ebp Model.Scte Model.ScteEnc Model.IO Model.PacketWriter Model.Bufio Model.Accumulator
  Model.SegDesc Model.State Model.Printers.

(* ---- outcome classes ---- *)
Inductive cls : Type := COk | CPanic | CDiverge.
Definition cl {A} (r : Res A) : cls :=
  match r with Ok _ => COk | Err _ => COk | Panic => CPanic | Diverge => CDiverge end.
(* sequencing: the first panic / hang ends the Go function *)
Definition andc (a b : cls) : cls := match a with COk => b | _ => a end.
Infix ">>" := andc (at level 61, left associativity).
Fixpoint allc {A} (f : A -> cls) (l : list A) : cls :=
  match l with [] => COk | x :: t => f x >> allc f t end.
(* `v, err := f(..); if err == nil { k v }` *)
Definition on_ok {A} (r : Res A) (k : A -> cls) : cls :=
  match r with Ok a => k a | Err _ => COk | Panic => CPanic | Diverge => CDiverge end.

Definition reply (c : cls) : val :=
  match c with
  | COk => VL [VI 0%Z; VI 1%Z]
  | CPanic => VL [VI 2%Z; VB []]
  | CDiverge => VL [VI 3%Z]
  end.

(* the reply with the accept / reject bit of the primary decoder *)
Definition reply_e (c : cls) (e : bool) : val :=
  match c with COk => VL [VI 0%Z; VI 1%Z; vbool e] | _ => reply c end.
Definition is_err {A} (r : Res A) : bool := match r with Err _ => true | _ => false end.
Definition e_none (b : bytes) (n : Z) : bool := false.

(* tot(name, f): f gets the bytes and the optional integer (0 when absent); pe is the accept / reject bit.  A VB that
   is not a byte string cannot come over the wire; it is refused so that the theorems of C05Tot.v need no side condition. *)
Definition group (f : bytes -> Z -> cls) (pe : bytes -> Z -> bool) (a : list val) : val :=
  match a with
  | [VB b] => if is_bytesb b then reply_e (f b 0%Z) (pe b 0%Z) else vbad
  | [VB b; VI n] => if is_bytesb b then reply_e (f b n) (pe b n) else vbad
  | _ => vbad
  end.

(* what Properties/C05Tot.v states of every op below *)
Definition never_bad (f : list val -> val) : Prop :=
  forall a, f a <> reply CPanic /\ f a <> reply CDiverge.

(* ---- argument preparation, as in total.go ---- *)
(* totPkt: var p packet.Packet; copy(p[:], b) *)
Definition pkt_of (b : bytes) : bytes := firstn 188 (b ++ repeat 0 188).
(* p[i] |= m *)
Definition or_byte (p : bytes) (i m : N) : bytes := upd p i (N.lor (nthN p i) m).
(* d := make([]byte, k); d[i] = byte(from + i) *)
Fixpoint ramp (k : nat) (from : N) : bytes :=
  match k with O => [] | S k' => w8 from :: ramp k' (from + 1) end.
(* a Go int used as a PID / program number: negative values match nothing; 8192 is outside the 13-bit range *)
Definition pid_of (n : Z) : N := if (n <? 0)%Z then 8192 else Z.to_N n.
(* for i := 0; i+188 <= len(b); i += 188 { .. b[i:i+188] .. } *)
Definition chunks (b : bytes) : list bytes := Pmt.chop188 (S (List.length b)) b.

(* ------------------------------------------------------------------ packet *)
(* pkt.read: Payload, Header, PESHeader (function style), Payload (method), pes.AlignedPUSI.
   Total by construction: PayloadUnitStartIndicator, Pid, ContainsPayload, ContainsAdaptationField,
   ContinuityCounter, IsNull, IsPat, IncrementCC, ZeroCC, SetCC(n), Equal, CheckErrors and the method getters,
   FromBytes, CopyPackets. *)
Definition g_pkt_read (b : bytes) (n : Z) : cls :=
  let p := pkt_of b in
  cl (Packet.Payload_fn p) >> cl (Packet.Header p) >> cl (Packet.PESHeader p) >> cl (Packet.Payload_m p)
  >> (* AlignedPUSI: PayloadUnitStartIndicator, packet.PESHeader, NewPESHeader *)
     (if Pes.pkt_pusi p then on_ok (Pes.pkt_pes_header p) (fun hb => cl (Pes.new_pes_header hb)) else COk).

(* totPayloadLen: n < 256 literally; 256, 257, 258 = freeSpace, freeSpace-1, freeSpace+1 of the packet (clamped to 0..300) *)
Definition payload_len (p : bytes) (n : Z) : nat :=
  if (n <? 0)%Z then O else
  if (n <? 256)%Z || (258 <? n)%Z then Z.to_nat (n mod 256) else
  let l := (Packet.freeSpace p + (if (n =? 256)%Z then 0 else if (n =? 257)%Z then -1 else 1))%Z in
  Z.to_nat (Z.min 300 (Z.max 0 l)).
(* pkt.setpayload: p.SetPayload(d) with d = 0,1,2,.. of the selected length, then both Payload accessors on the result *)
Definition g_pkt_setpayload (b : bytes) (n : Z) : cls :=
  let p := pkt_of b in
  let r := Packet.SetPayload_m p (ramp (payload_len p n) 0) in
  cl (snd r) >> (cl (Packet.Payload_m (fst r)) >> cl (Packet.Payload_fn (fst r))).

(* pkt.setpayloadfn: packet.SetPayload(p, d) (create.go) is a total function in Model/Create.v *)
Definition g_pkt_setpayloadfn (b : bytes) (n : Z) : cls :=
  let p := pkt_of b in
  let k := if (n <? 0)%Z then 0%Z else (n mod 256)%Z in
  let r := Create.SetPayload_fn p (repeat 0 (Z.to_nat k)) in COk.

(* pkt.setafc: SetAdaptationFieldControl(n&3) (total), then Payload (method) and Header *)
Definition g_pkt_setafc (b : bytes) (n : Z) : cls :=
  let p := pkt_of b in
  let p' := fst (Packet.SetAdaptationFieldControl p (Z.to_N (Z.land n 3))) in
  cl (Packet.Payload_m p') >> cl (Packet.Header p').

(* ------------------------------------------------------------------ adaptation field *)
Definition af_reads (p : bytes) : cls :=
  cl (AF.PCR p) >> cl (AF.OPCR p) >> cl (AF.SpliceCountdown p) >> cl (AF.TransportPrivateData p)
  >> cl (AF.AdaptationFieldExtension p).
(* af.getters: p.AdaptationField() fails without the flag; then the 13 method getters (Length is total) *)
Definition g_af_getters (b : bytes) (n : Z) : cls :=
  let p0 := pkt_of b in
  let p := if (Z.land n 1 =? 1)%Z then or_byte p0 3 32 else p0 in
  if negb (AF.get_bit p 3 32) then COk else
  cl (AF.Discontinuity p) >> cl (AF.RandomAccess p) >> cl (AF.ElementaryStreamPriority p)
  >> cl (AF.HasPCR p) >> cl (AF.PCR p) >> cl (AF.HasOPCR p) >> cl (AF.OPCR p)
  >> cl (AF.HasSplicingPoint p) >> cl (AF.SpliceCountdown p)
  >> cl (AF.HasTransportPrivateData p) >> cl (AF.TransportPrivateData p)
  >> cl (AF.HasAdaptationFieldExtension p) >> cl (AF.AdaptationFieldExtension p).

(* totAFData: the data of SetTransportPrivateData (ext = false) / SetAdaptationFieldExtension (ext = true).
   shape 0: {1,2,3}; 1..5: 1,2,3,.. of length L, L-1, L+1, room, 0 where L is the length byte stored at the field's
   position (computed from the flags byte: AF.transportPrivateDataStart / AF.adaptationExtensionStart) and
   room = stuffingEnd - position - 1 (N subtraction truncates at 0 like the clamps of total.go) *)
Definition af_data (p : bytes) (ext : bool) (shape : Z) : bytes :=
  if (shape <=? 0)%Z || (5 <? shape)%Z then [1; 2; 3] else
  let pos := if ext then AF.adaptationExtensionStart p else AF.transportPrivateDataStart p in
  let l := if pos <? 188 then nthN p pos else 0 in
  let room := AF.stuffingEnd p - pos - 1 in
  let k := if (shape =? 1)%Z then l else if (shape =? 2)%Z then l - 1 else if (shape =? 3)%Z then l + 1
           else if (shape =? 4)%Z then room else 0 in
  ramp (N.to_nat k) 1.
(* the setter selected by op = n % 20, exactly the switch of total.go (None: no call is made);
   p0 = totPkt(b), p = the same with the adaptation-field bit forced when asked *)
Definition af_op (p0 p : bytes) (op shape : Z) : option AF.op :=
  match op with
  | 0 => Some (AF.OSetHasPCR true)   | 1 => Some (AF.OSetHasPCR false)
  | 2 => Some (AF.OSetHasOPCR true)  | 3 => Some (AF.OSetHasOPCR false)
  | 4 => Some (AF.OSetHasSplice false)
  | 5 => Some (AF.OSetHasTPD true)   | 6 => Some (AF.OSetHasTPD false)
  | 7 => Some (AF.OSetTPD (af_data p false shape))
  | 8 => Some (AF.OSetExt (af_data p true shape))
  | 9 => Some (AF.OSetPCR 1)         | 10 => Some (AF.OSetSplice 1)
  | 11 => Some (AF.OSetAF (upd (or_byte p0 3 32) 4 183))   (* q := totPkt(b); q[3] |= 0x20; q[4] = 183 *)
  | 12 => Some (AF.OSetHasSplice true)
  | 13 => Some (AF.OSetHasExt true)  | 14 => Some (AF.OSetHasExt false)
  | 15 => Some (AF.OSetOPCR 2)
  | 16 => Some (AF.OSetDisc true)    | 17 => Some (AF.OSetRAI true)   | 18 => Some (AF.OSetPrio false)
  | 19 => if AF.get_bit p0 3 32 then Some (AF.OSetAF p0) else None   (* q := totPkt(b); only when q has the flag *)
  | _ => None
  end%Z.
(* af.setters: n = 40*shape + 20*flag + op (Go int division and remainder: Z.quot / Z.rem); one setter, then
   "the result must stay queryable": five getters and p.Payload() *)
Definition g_af_setters (b : bytes) (n : Z) : cls :=
  let p0 := pkt_of b in
  let p := if (Z.rem (Z.quot n 20) 2 =? 1)%Z then or_byte p0 3 32 else p0 in
  if negb (AF.get_bit p 3 32) then COk else
  let after (q : bytes) := af_reads q >> cl (Packet.Payload_m q) in
  match af_op p0 p (Z.rem n 20) (Z.quot n 40) with
  | None => after p
  | Some o =>
    match AF.step p o with
    | Ok q => after q
    | Err _ => after p           (* every error return precedes the first write (Model/AF.v) *)
    | Panic => CPanic
    | Diverge => CDiverge
    end
  end.

(* affn: the function-style accessors; the nine flag / length readers are total *)
Definition g_affn (b : bytes) (n : Z) : cls :=
  let p := pkt_of b in
  cl (AFfn.PCR p) >> cl (AFfn.OPCR p) >> cl (AFfn.SpliceCountdown p) >> cl (AFfn.TransportPrivateData p)
  >> cl (AFfn.EncoderBoundaryPoint p).

(* ------------------------------------------------------------------ psi *)
(* psi.accessors: PointerField .. SectionLength are total in Model/Psi.v; TableHeaderFromBytes + Data();
   psi.CanBuildPMT(b, uint16(n)) is the plain function Printers.can_build_pmt (one comparison, total by construction). *)
Definition g_psi_accessors (b : bytes) (n : Z) : cls :=
  cl (Psi.table_header_from_bytes b)
  >> (let r := Printers.can_build_pmt b (Z.to_N (n mod 65536)) in COk).

Definition pat_getters (p : bytes) : cls :=
  cl (Pat.num_programs p) >> cl (Pat.program_map p) >> cl (Pat.spts_pmt_pid p).
(* psi.pat: NewPAT, then NumPrograms, ProgramMap, SPTSpmtPID, IsPMT(totPkt(b), pat) *)
Definition g_psi_pat (b : bytes) (n : Z) : cls :=
  on_ok (Pat.new_pat b) (fun p => pat_getters p >> cl (Pat.is_pmt (pkt_of b) (Some p))).

Definition desc_conv (d : Pmt.desc) : PmtDesc.t := PmtDesc.mk (Pmt.dtag d) (Pmt.ddata d).
(* the calls on one PMT descriptor, in the order of total.go: Format(), String() (called directly: fmt would swallow its
   panic), then the decoders (tag tests are total) *)
Definition desc_calls (d : PmtDesc.t) : cls :=
  cl (Printers.desc_format d) >> cl (Printers.desc_string d)
  >> cl (PmtDesc.is_iframe_profile d) >> cl (PmtDesc.is_dolby_atmos d) >> cl (PmtDesc.is_dolby_vision d)
  >> cl (PmtDesc.decode_dolby_vision_codec d) >> cl (PmtDesc.decode_iso639_language_code d)
  >> cl (PmtDesc.decode_iso639_audio_type d) >> cl (PmtDesc.decode_maximum_bit_rate d)
  >> cl (PmtDesc.decode_ttml_iso639_language_code d) >> cl (PmtDesc.decode_ttml_subtitle_purpose d).
(* per stream: String() and the String() of its stream type (both called directly as well), MaxBitRate, the descriptors *)
Definition es_calls (e : Pmt.es) : cls :=
  let ds := map desc_conv (Pmt.descs e) in
  cl (Printers.es_string e) >> cl (Printers.stream_type_string (Pmt.stype e))
  >> cl (PmtDesc.max_bit_rate ds) >> allc desc_calls ds.
(* psi.pmt: NewPMT; p.String(); per stream es_calls; RemoveElementaryStreams({n, 256}) and p.String(); when the PMT had
   PIDs: RemoveElementaryStreams(own[:1]), RemoveElementaryStreams(own), p.String().  Total by construction: Pids,
   VersionNumber, CurrentNextIndicator, PIDExists / IsPidForStreamWherePresentationLagsEbp (with n and with every PID of
   the PMT itself), the stream-type predicates (Model/StreamType.v), IsTTMLSubtitling, RemoveElementaryStreams. *)
Definition g_psi_pmt (b : bytes) (n : Z) : cls :=
  on_ok (Pmt.new_pmt b) (fun p =>
    cl (Printers.pmt_string p)
    >> allc es_calls (Pmt.streams p)
    >> (let p1 := Pmt.remove_elementary_streams p [pid_of n; 256] in
        cl (Printers.pmt_string p1)
        >> match Pmt.pids p with
           | [] => COk
           | o :: _ =>
             let p2 := Pmt.remove_elementary_streams (Pmt.remove_elementary_streams p1 [o]) (Pmt.pids p) in
             cl (Printers.pmt_string p2)
           end)).

Definition g_psi_done (b : bytes) (n : Z) : cls := cl (Pmt.done_func b).
Definition g_psi_crc (b : bytes) (n : Z) : cls := cl (Pmt.extract_crc b).
(* packet.Pid *)
Definition pid_at (p : bytes) : N := N.lor (N.shiftl (N.land (nthN p 1) 31) 8) (nthN p 2).
(* totFilterPids: n < 10000 -> {n, 256, 257}; 10000+k -> 0 {0}  1 {pid of packet 0}  2 {0, pid of packet 0}  3 {}
   4 / 5 / 6 first / last / all stream PIDs of NewPMT(concatenated payloads) (none when a payload is missing or NewPMT
   fails)  7 {8190}.  A panic while the argument is prepared ends the Go function like any other. *)
Definition filter_pids (pk : list bytes) (n : Z) : Res (list N) :=
  if (n <? 10000)%Z || (10007 <? n)%Z then Ok [pid_of n; 256; 257] else
  let pid0 := match pk with p :: _ => pid_at p | [] => 0 end in
  let k := (n - 10000)%Z in
  let? own :=
    (if (4 <=? k)%Z && (k <=? 6)%Z then
       match Pmt.concat_payloads pk with
       | Ok pay => match Pmt.new_pmt pay with
                   | Ok pm => Ok (Pmt.pids pm) | Err _ => Ok [] | Panic => Panic | Diverge => Diverge end
       | Err _ => Ok [] | Panic => Panic | Diverge => Diverge
       end
     else Ok []) in
  Ok (if (k =? 0)%Z then [0] else if (k =? 1)%Z then [pid0] else if (k =? 2)%Z then [0; pid0]
      else if (k =? 3)%Z then [] else if (k =? 4)%Z then firstn 1 own else if (k =? 5)%Z then firstn 1 (rev own)
      else if (k =? 6)%Z then own else [8190]).
(* psi.filter: the 188-byte chunks of b (or totPkt(b) when there is none), the PID list selected by n *)
Definition g_psi_filter (b : bytes) (n : Z) : cls :=
  let pk := match chunks b with [] => [pkt_of b] | l => l end in
  on_ok (filter_pids pk n) (fun want => cl (Pmt.filter_pmt_packets pk want)).
(* psi.readpat over bytes.NewReader(b): io.ReadFull delivers the 188-byte chunks, then EOF (nothing left) or
   ErrUnexpectedEOF (a partial packet left) *)
Definition g_psi_readpat (b : bytes) (n : Z) : cls :=
  let tail := if (Nat.modulo (List.length b) 188 =? 0)%nat then E.EOF else E.UnexpectedEOF in
  on_ok (Pat.read_pat (map Pat.RFull (chunks b) ++ [Pat.RFail tail])) pat_getters.
(* psi.readpmt: ReadPMT(reader, n), n = -1: the PID of the first packet; then String() and Pids (total) *)
Definition readpmt_pid (b : bytes) (n : Z) : N :=
  if (n =? -1)%Z then (if 3 <=? len b then pid_at b else 0) else pid_of n.
Definition g_psi_readpmt (b : bytes) (n : Z) : cls :=
  on_ok (Pmt.read_pmt b (readpmt_pid b n)) (fun p => cl (Printers.pmt_string p)).

(* ------------------------------------------------------------------ pes / ebp / scte35 *)
(* pes.new: NewPESHeader (its getters read struct fields), fmt %v of the header, Format(); then
   pes.ExtractTime(b) when len(b) >= 5 *)
Definition g_pes_new (b : bytes) (n : Z) : cls :=
  on_ok (Pes.new_pes_header b) (fun h => cl (Printers.pes_fmt_v h) >> cl (Printers.pes_format h))
  >> (if 5 <=? len b then cl (Pes.extract_time b) else COk).
(* ebp.read: the readers of /repo HEAD (length test before every optional field: g = true).  Getters, EBPTime,
   StreamSyncSignal and Data() are total functions of Model/Ebp.v; EBPSuccessReadTime reads a stored time.Time (the
   clock reading itself is not modelled); fmt.Sprint(e) calls no gots code (Printers.ebp_sprint). *)
Definition g_ebp_read (b : bytes) (n : Z) : cls :=
  on_ok (Ebp.ReadEncoderBoundaryPoint true b) (fun fe => cl (Printers.ebp_sprint (snd fe))).
(* scte.new: NewSCTE35; s.String() (it starts with UpdateData: the calls after it see the object it leaves behind, s1);
   the getters of the signal and of its command read struct fields; per descriptor StreamSwitchSignalId, MID and
   Components index d.mid / d.components (Model/Printers.v), the other getters read struct fields, CanClose / Equal are
   total (Model/SegDesc.v); UpdateData (total, Model/ScteEnc.v) and NewSCTE35 again on 0 :: out; then the state tracker:
   NewState, ProcessDescriptor of every descriptor, Open (Model/State.v through Printers.tracker_calls).
   `out` is a Go []byte: its elements are bytes by type.  The encoder model writes `byte(x)` as an explicit mod only
   where the value can exceed 255 for a normal object; `map w8` restores the type discipline for every object (it is the
   identity whenever the byte-range lemmas of the encoder hold: Proofs/ScteEncBytes.v, C09). *)
Definition seg_calls (d : Scte.segdesc) : cls :=
  cl (Printers.stream_switch_signal_id d) >> cl (Printers.seg_mid d) >> cl (Printers.seg_components d).
Definition g_scte_new (b : bytes) (n : Z) : cls :=
  on_ok (Scte.new_scte35 b) (fun s =>
    cl (Printers.scte_string s)
    >> (let s1 := Printers.scte_after_string s in
        allc seg_calls (Scte.s_descs s1)
        >> cl (Scte.new_scte35 (0 :: map w8 (fst (ScteEnc.update_data s1))))
        >> cl (Printers.tracker_calls (snd (ScteEnc.update_data s1))))).

(* ------------------------------------------------------------------ streams *)
(* bytes.NewReader(b) as a read script: Read delivers what fits of the remaining bytes, then io.EOF *)
Definition reader_script (b : bytes) : PacketWriter.script := match b with [] => [] | _ => [(b, None)] end.
(* totOneByteReader(b) *)
Definition one_byte_script (b : bytes) : PacketWriter.script := map (fun c => ([c], None)) b.

(* pkt.sync: Sync, then IsSynced on a fresh reader, both over bufio.NewReaderSize(bytes.NewReader(b), 16+n%4096) *)
Definition g_pkt_sync (b : bytes) (n : Z) : cls :=
  let sz := Z.to_nat (16 + Z.rem n 4096) in
  let s := reader_script b in
  cl (Bufio.sync_raw sz s)
  >> cl (SyncIO.is_synced_over Bufio.breader Bufio.peek (Bufio.new_reader sz (PacketWriter.Script s))).

(* pkt.acc: NewAccumulator(psi.PmtAccumulatorDoneFunc); WritePacket, Bytes, Packets per 188-byte chunk; Reset.
   The predicate oracle of Model/Accumulator.v cannot panic, so the predicate's own outcome is classified on the
   buffer it was given: after a write that reached the predicate that buffer is Bytes(); after a write that did not,
   Bytes() is a buffer classified before (or empty). *)
Definition done_pred : Accumulator.pred :=
  fun buf => match Pmt.done_func buf with Ok d => (d, None) | Err e => (false, Some e) | _ => (false, None) end.
Fixpoint acc_loop (pks : list bytes) (a : Accumulator.acc) : cls :=
  match pks with
  | [] => COk
  | p :: t =>
    match Accumulator.write_packet done_pred a p with
    | Ok (a', _) => cl (Pmt.done_func (Accumulator.get_bytes a')) >> acc_loop t a'
    | Err _ => COk
    | Panic => CPanic
    | Diverge => CDiverge
    end
  end.
Definition g_pkt_acc (b : bytes) (n : Z) : cls := acc_loop (chunks b) Accumulator.new_acc.

(* pkt.writer: one IOWriter over a packet writer whose n-th call (counted over the whole group, n > 0) fails;
   Write(b), ReadFrom(one byte at a time), ReadFrom(bytes.NewReader(b)).  The contents of pw.pkt carried from one
   call to the next do not influence the control flow; every call starts from the zero packet here. *)
Definition tot_writer (n : Z) (base : nat) : PacketWriter.wfun :=
  fun i _ => if (0 <? n)%Z && (Z.of_nat (base + i) + 1 =? n)%Z then (0%Z, Some 63) else (188%Z, None).
Definition calls_of (r : Res (Z * option N * list bytes)) : nat :=
  match r with Ok (_, _, c) => List.length c | _ => O end.
Definition g_pkt_writer (b : bytes) (n : Z) : cls :=
  let r1 := PacketWriter.write (tot_writer n O) PacketWriter.pkt0 b in
  let k1 := calls_of r1 in
  let r2 := PacketWriter.read_from (tot_writer n k1) PacketWriter.pkt0 (one_byte_script b) in
  let k2 := (k1 + calls_of r2)%nat in
  let r3 := PacketWriter.read_from (tot_writer n k2) PacketWriter.pkt0 (reader_script b) in
  cl r1 >> cl r2 >> cl r3.

(* ------------------------------------------------------------------ the accept / reject bit of every group:
   e = 1 iff the PRIMARY decoder call of the group returned a non-nil error (goexec: totE(err) at the same call) *)
(* pkt.read: packet.Payload(p) *)
Definition e_pkt_read (b : bytes) (n : Z) : bool := is_err (Packet.Payload_fn (pkt_of b)).
(* pkt.setpayload: p.Payload() after the SetPayload *)
Definition e_pkt_setpayload (b : bytes) (n : Z) : bool :=
  let p := pkt_of b in is_err (Packet.Payload_m (fst (Packet.SetPayload_m p (ramp (payload_len p n) 0)))).
(* pkt.setafc: p.Payload() after the SetAdaptationFieldControl *)
Definition e_pkt_setafc (b : bytes) (n : Z) : bool :=
  is_err (Packet.Payload_m (fst (Packet.SetAdaptationFieldControl (pkt_of b) (Z.to_N (Z.land n 3))))).
(* af.getters / af.setters: p.AdaptationField() (fails exactly when the flag is missing) *)
Definition e_af_getters (b : bytes) (n : Z) : bool :=
  let p0 := pkt_of b in
  negb (AF.get_bit (if (Z.land n 1 =? 1)%Z then or_byte p0 3 32 else p0) 3 32).
Definition e_af_setters (b : bytes) (n : Z) : bool :=
  let p0 := pkt_of b in
  negb (AF.get_bit (if (Z.rem (Z.quot n 20) 2 =? 1)%Z then or_byte p0 3 32 else p0) 3 32).
Definition e_psi_accessors (b : bytes) (n : Z) : bool := is_err (Psi.table_header_from_bytes b).
Definition e_psi_pat (b : bytes) (n : Z) : bool := is_err (Pat.new_pat b).
Definition e_psi_pmt (b : bytes) (n : Z) : bool := is_err (Pmt.new_pmt b).
Definition e_psi_done (b : bytes) (n : Z) : bool := is_err (Pmt.done_func b).
Definition e_psi_crc (b : bytes) (n : Z) : bool := is_err (Pmt.extract_crc b).
(* psi.filter: the error of FilterPMTPacketsToPids: a parse error, or the list of missing PIDs *)
Definition e_psi_filter (b : bytes) (n : Z) : bool :=
  let pk := match chunks b with [] => [pkt_of b] | l => l end in
  match filter_pids pk n with
  | Ok want => match Pmt.filter_pmt_packets pk want with Err _ => true | Ok (_, Some _) => true | _ => false end
  | _ => false
  end.
Definition e_psi_readpat (b : bytes) (n : Z) : bool :=
  let tail := if (Nat.modulo (List.length b) 188 =? 0)%nat then E.EOF else E.UnexpectedEOF in
  is_err (Pat.read_pat (map Pat.RFull (chunks b) ++ [Pat.RFail tail])).
Definition e_psi_readpmt (b : bytes) (n : Z) : bool := is_err (Pmt.read_pmt b (readpmt_pid b n)).
Definition e_pes_new (b : bytes) (n : Z) : bool := is_err (Pes.new_pes_header b).
Definition e_ebp_read (b : bytes) (n : Z) : bool := is_err (Ebp.ReadEncoderBoundaryPoint true b).
Definition e_scte_new (b : bytes) (n : Z) : bool := is_err (Scte.new_scte35 b).
(* pkt.sync: the error of Sync (the model returns it next to the offset) *)
Definition e_pkt_sync (b : bytes) (n : Z) : bool :=
  match Bufio.sync_raw (Z.to_nat (16 + Z.rem n 4096)) (reader_script b) with
  | Ok (_, Some _, _) => true | Err _ => true | _ => false end.

(* the 21 entry groups: name, the calls, the accept / reject bit *)
Open Scope string_scope.
Definition groups : list (string * (bytes -> Z -> cls) * (bytes -> Z -> bool)) := [
  ("tot.pkt.read", g_pkt_read, e_pkt_read);
  ("tot.pkt.setpayload", g_pkt_setpayload, e_pkt_setpayload);
  ("tot.pkt.setpayloadfn", g_pkt_setpayloadfn, e_none);
  ("tot.pkt.setafc", g_pkt_setafc, e_pkt_setafc);
  ("tot.af.getters", g_af_getters, e_af_getters);
  ("tot.af.setters", g_af_setters, e_af_setters);
  ("tot.affn", g_affn, e_none);
  ("tot.psi.accessors", g_psi_accessors, e_psi_accessors);
  ("tot.psi.pat", g_psi_pat, e_psi_pat);
  ("tot.psi.pmt", g_psi_pmt, e_psi_pmt);
  ("tot.psi.done", g_psi_done, e_psi_done);
  ("tot.psi.crc", g_psi_crc, e_psi_crc);
  ("tot.psi.filter", g_psi_filter, e_psi_filter);
  ("tot.psi.readpat", g_psi_readpat, e_psi_readpat);
  ("tot.psi.readpmt", g_psi_readpmt, e_psi_readpmt);
  ("tot.pes.new", g_pes_new, e_pes_new);
  ("tot.ebp.read", g_ebp_read, e_ebp_read);
  ("tot.scte.new", g_scte_new, e_scte_new);
  ("tot.pkt.sync", g_pkt_sync, e_pkt_sync);
  ("tot.pkt.acc", g_pkt_acc, e_none);
  ("tot.pkt.writer", g_pkt_writer, e_none)
].
Definition ops : list op := map (fun g => (fst (fst g), group (snd (fst g)) (snd g))) groups.
