(* executor ops for C20 (stream types, PMT descriptor decoders) *)
From Gots Require Import Base.Prelude Exec.ExecBase Model.StreamType Model.PmtDesc Spec.StreamTypes.
Import StreamTypesSpec.

Definition st_row (st : StreamType.t) : val :=
  VL [vn (StreamType.stream_type st);
      vbool (StreamType.nonempty (StreamType.stream_type_description st));
      vbool (StreamType.is_stream_where_presentation_lags_ebp st);
      vbool (StreamType.is_audio_content st);
      vbool (StreamType.is_video_content st);
      vbool (StreamType.is_scte35_content st);
      vbool (StreamType.is_id3_content st);
      vbool (StreamType.is_private_content st)].

Fixpoint streams_of (l : list val) : option (list (N * N)) :=
  match l with
  | [] => Some []
  | VL [VI p; VI s] :: rest =>
      match streams_of rest with Some r => Some ((zN p, zN s) :: r) | None => None end
  | _ => None
  end.

Fixpoint descs_of (l : list val) : option (list PmtDesc.t) :=
  match l with
  | [] => Some []
  | VL [VI t; VB b] :: rest =>
      match descs_of rest with Some r => Some (PmtDesc.mk (zN t) b :: r) | None => None end
  | _ => None
  end.

Fixpoint langs_of (l : list val) : option (list (bytes * N)) :=
  match l with
  | [] => Some []
  | VL [VB b; VI a] :: rest =>
      match langs_of rest with Some r => Some ((b, zN a) :: r) | None => None end
  | _ => None
  end.

Definition desc_decode (d : PmtDesc.t) : val :=
  VL [vbool (PmtDesc.is_iso639_language_descriptor d);
      vbool (PmtDesc.is_maximum_bitrate_descriptor d);
      vbool (PmtDesc.is_ebp_descriptor d);
      vres vn (PmtDesc.decode_maximum_bit_rate d);
      vres VB (PmtDesc.decode_iso639_language_code d);
      vres vn (PmtDesc.decode_iso639_audio_type d);
      vbool (PmtDesc.is_ttml_subtitling_descriptor d);
      vbool (PmtDesc.is_ttml_desc_tag_extension d);
      vres VB (PmtDesc.decode_ttml_iso639_language_code d);
      vres vn (PmtDesc.decode_ttml_subtitle_purpose d);
      vres vbool (PmtDesc.is_dolby_vision d);
      vres VB (PmtDesc.decode_dolby_vision_codec d);
      VI 1%Z  (* the descriptor bytes are unchanged after all the calls *)].

Open Scope string_scope.
Definition ops : list op := [
  ("st.row", fun a => match a with [VI c] => st_row (StreamType.lookup (zN c)) | _ => vbad end);
  (* the same predicates through NewPmtElementaryStream(code, pid, nil) *)
  ("st.es", fun a => match a with [VI c] => st_row (StreamType.lookup (zN c)) | _ => vbad end);
  ("st.pmtlags", fun a => match a with
     | [VL l; VI pid] => match streams_of l with
                         | Some s => vbool (StreamType.pmt_lags_by_pid s pid) | None => vbad end
     | _ => vbad end);
  ("st.desc", fun a => match a with [VI t; VB b] => desc_decode (PmtDesc.mk (zN t) b) | _ => vbad end);
  ("st.desctot", fun a => match a with
     | [VI t; VB b] => VL [vres vbool (PmtDesc.is_iframe_profile (PmtDesc.mk (zN t) b));
                           vres vbool (PmtDesc.is_dolby_atmos (PmtDesc.mk (zN t) b))]
     | _ => vbad end);
  ("st.esq", fun a => match a with
     | [VL l] => match descs_of l with
                 | Some ds => VL [vres vn (PmtDesc.max_bit_rate ds); vbool (PmtDesc.is_ttml_subtitling ds)]
                 | None => vbad end
     | _ => vbad end);
  (* Spec serialisers used by the generator *)
  ("st.ser.maxbr", fun a => match a with [VI r; VI v] => VB (ser_max_bitrate (zN r) (zN v)) | _ => vbad end);
  ("st.ser.iso639", fun a => match a with
     | [VL l] => match langs_of l with Some e => VB (ser_iso639 e) | None => vbad end
     | _ => vbad end);
  ("st.ser.ttml", fun a => match a with
     | [VB l; VI p; VI s; VB r] => VB (ser_ttml l (zN p) (zN s) r) | _ => vbad end);
  ("st.ser.dv", fun a => match a with
     | [VI ma; VI mi; VI p; VI l; VI f; VB r] => VB (ser_dv (zN ma) (zN mi) (zN p) (zN l) (zN f) r)
     | _ => vbad end);
  (* ORACLE: the row the property requires for a stream type, from the Spec code lists alone *)
  ("st.spec.row", fun a => match a with
     | [VI c] => let c := zN c in
         VL [vn c; vbool true; vbool (mem c lags_codes); vbool (mem c audio_codes); vbool (mem c video_codes);
             vbool (mem c scte35_codes); vbool (mem c id3_codes); vbool (mem c private_codes)]
     | _ => vbad end);
  ("st.spec.codec", fun a => match a with [VI p; VI l] => VB (dv_codec (zN p) (zN l)) | _ => vbad end)
].
