From Gots Require Import Base.Prelude Exec.ExecBase Model.Pts.
Open Scope string_scope.
Definition two (f : N -> N -> val) (a : list val) : val :=
  match a with [VI p; VI q] => f (zN p) (zN q) | _ => vbad end.
Definition ops : list op := [
  ("pts.after", two (fun p q => vbool (Pts.after p q)));
  ("pts.ge", two (fun p q => vbool (Pts.greater_or_equal p q)));
  ("pts.ro", two (fun p q => vbool (Pts.rolled_over p q)));
  ("pts.add", two (fun p q => vn (Pts.add p q)));
  ("pts.dur", two (fun p q => vn (Pts.duration_from p q)));
  ("pts.get", fun a => match a with [VB b] => vres vn (Pts.extract_time b) | _ => vbad end);
  ("pts.put", fun a => match a with [VB b; VI v] => vres VB (Pts.insert_pts b (zN v)) | _ => vbad end)
].
