(* Executor ops for C03: af.hist (a whole edit history with all observations), af.ser (the Spec
   serialiser, used by the generator to build well-formed starts). *)
From Gots Require Import Base.Prelude Exec.ExecBase Model.Pcr Model.AF Model.AFfn Spec.AFSpec Spec.AFParse.

Definition vz (z : Z) : val := VI z.
Definition vunit (_ : unit) : val := VL [].
(* every getter of both APIs on one packet *)
Definition getters (p : bytes) : val :=
  VL [ vn (AF.Length p);
       vres vbool (AF.Discontinuity p); vres vbool (AF.RandomAccess p); vres vbool (AF.ElementaryStreamPriority p);
       vres vbool (AF.HasPCR p); vres vn (AF.PCR p);
       vres vbool (AF.HasOPCR p); vres vn (AF.OPCR p);
       vres vbool (AF.HasSplicingPoint p); vres vz (AF.SpliceCountdown p);
       vres vbool (AF.HasTransportPrivateData p); vres VB (AF.TransportPrivateData p);
       vres vbool (AF.HasAdaptationFieldExtension p); vres VB (AF.AdaptationFieldExtension p);
       vn (AFfn.Length p); vbool (AFfn.IsDiscontinuous p); vbool (AFfn.IsRandomAccess p);
       vbool (AFfn.IsESHigherPriority p); vbool (AFfn.HasPCR p); vbool (AFfn.HasOPCR p);
       vbool (AFfn.HasSplicingPoint p); vbool (AFfn.HasTransportPrivateData p);
       vbool (AFfn.HasAdaptationFieldExtension p);
       vres VB (AFfn.PCR p); vres VB (AFfn.OPCR p); vres vn (AFfn.SpliceCountdown p);
       vres VB (AFfn.TransportPrivateData p); vres VB (AFfn.EncoderBoundaryPoint p);
       VI 0%Z  (* getters never write to the packet; goexec reports 1 here when they did *)
     ].

Definition zbool (z : Z) : bool := negb (Z.eqb z 0).
(* `self` = the current packet, for code 14: SetAdaptationField with the packet itself as the source (aliasing) *)
Definition dec_op (self : option bytes) (v : val) : option AF.op :=
  match v with
  | VL [VI c; VI a] =>
    match c with
    | 14 => match self with Some p => Some (AF.OSetAF p) | None => None end
    | 0 => Some (AF.OSetDisc (zbool a)) | 1 => Some (AF.OSetRAI (zbool a)) | 2 => Some (AF.OSetPrio (zbool a))
    | 3 => Some (AF.OSetHasPCR (zbool a)) | 4 => Some (AF.OSetHasOPCR (zbool a))
    | 5 => Some (AF.OSetHasSplice (zbool a)) | 6 => Some (AF.OSetHasTPD (zbool a))
    | 7 => Some (AF.OSetHasExt (zbool a))
    | 8 => Some (AF.OSetPCR (zN a)) | 9 => Some (AF.OSetOPCR (zN a)) | 10 => Some (AF.OSetSplice (zN a))
    | _ => None
    end%Z
  | VL [VI c; VB b] =>
    match c with
    | 11 => Some (AF.OSetTPD b) | 12 => Some (AF.OSetExt b)
    | 13 => if N.eqb (len b) 188%N then Some (AF.OSetAF b) else None
    | _ => None
    end%Z
  | _ => None
  end.

(* per call: [status, the 188 bytes after the call, all getters]; a panic ends the history *)
Fixpoint hist (p : bytes) (ops : list val) : list val :=
  match ops with
  | [] => []
  | v :: rest =>
    match dec_op (Some p) v with
    | None => [vbad]
    | Some o =>
      match AF.step p o with
      | Ok p' => VL [VL [VI 0%Z]; VB p'; getters p'] :: hist p' rest
      | Err e => VL [VL [VI 1%Z; vn e]; VB p; getters p] :: hist p rest
      | Panic => [VL [VL [VI 2%Z]]]
      | Diverge => [VL [VL [VI 3%Z]]]
      end
    end
  end.

Definition dec_optb (v : val) : option (option bytes) :=
  match v with VL [] => Some None | VL [VB b] => Some (Some b) | _ => None end.
Definition dec_optn (v : val) : option (option N) :=
  match v with VL [] => Some None | VL [VI z] => Some (Some (zN z)) | _ => None end.
Definition dec_laf (v : val) : option laf :=
  match v with
  | VL [VI n; VI d; VI r; VI pr; pcr; opcr; sp; tpd; ext] =>
    match dec_optb pcr, dec_optb opcr, dec_optn sp, dec_optb tpd, dec_optb ext with
    | Some a, Some b, Some c, Some d', Some e =>
      Some (mkLaf (zN n) (zbool d) (zbool r) (zbool pr) a b c d' e)
    | _, _, _, _, _ => None
    end
  | _ => None
  end.

Definition op_hist (a : list val) : val :=
  match a with
  | [VB p; VL os] => if len p =? 188 then VL (getters p :: hist p os) else vbad
  | _ => vbad end.
Definition op_ser (a : list val) : val :=
  match a with
  | [VB hdr; l; VB pay] =>
    match dec_laf l with
    | Some l => VL [VB (hdr ++ ser_laf l ++ pay); vbool (fitsb l)]
    | None => vbad end
  | _ => vbad end.
(* af.wf <packet> [ops] : 1 when the case lies inside the hypotheses of C03_history (Spec/AFParse.v, sound by
   Proofs/AFParseSound.v), 0 otherwise *)
Fixpoint dec_ops (vs : list val) : option (list AF.op) :=
  match vs with
  | [] => Some []
  | v :: t => match dec_op None v, dec_ops t with Some o, Some r => Some (o :: r) | _, _ => None end
  end.
Definition op_wf (a : list val) : val :=
  match a with
  | [VB p; VL os] => match dec_ops os with Some l => vbool (in_domain p l) | None => vbad end
  | _ => vbad end.
Definition ops : list op := [ ("af.hist"%string, op_hist); ("af.ser"%string, op_ser); ("af.wf"%string, op_wf) ].
