From Gots Require Import Base.Prelude Exec.ExecBase Model.PcrCodec Spec.TimestampSpec.
Open Scope string_scope.
Definition ops : list op := [
  (* pcr.get b -> ExtractPCR(b) *)
  ("pcr.get", fun a => match a with [VB b] => vres vn (PcrCodec.extract_pcr b) | _ => vbad end);
  (* pcr.put old v -> old after InsertPCR(old, v) *)
  ("pcr.put", fun a => match a with [VB b; VI v] => vres VB (PcrCodec.insert_pcr b (zN v)) | _ => vbad end);
  (* pcr.rt old v -> (old after InsertPCR, ExtractPCR of it) *)
  ("pcr.rt", fun a => match a with
     | [VB b; VI v] => vres (fun b' => VL [VB b'; vres vn (PcrCodec.extract_pcr b')]) (PcrCodec.insert_pcr b (zN v))
     | _ => vbad end);
  (* ser.pcr v / ser.ts prefix v -> the ISO fields of Spec/TimestampSpec.v (modelexec only; oracle side of the generator) *)
  ("ser.pcr", fun a => match a with [VI v] => VB (TsSpec.ser_pcr (zN v)) | _ => vbad end);
  ("ser.ts", fun a => match a with [VI p; VI v] => VB (TsSpec.ser_ts (zN p) (zN v)) | _ => vbad end);
  (* spec.pcrval b / spec.tsval b -> the value carried by the value bits of six resp. five bytes (TsSpec.pcr_value / ts_value) *)
  ("spec.pcrval", fun a => match a with
     | [VB (a0 :: a1 :: a2 :: a3 :: a4 :: a5 :: _)] => vn (TsSpec.pcr_value a0 a1 a2 a3 a4 a5) | _ => vbad end);
  ("spec.tsval", fun a => match a with
     | [VB (a0 :: a1 :: a2 :: a3 :: a4 :: _)] => vn (TsSpec.ts_value a0 a1 a2 a3 a4) | _ => vbad end)
].
