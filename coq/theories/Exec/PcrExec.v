From Gots Require Import Base.Prelude Exec.ExecBase Model.PcrCodec.
Open Scope string_scope.
Definition ops : list op := [
  (* pcr.get b -> ExtractPCR(b) *)
  ("pcr.get", fun a => match a with [VB b] => vres vn (PcrCodec.extract_pcr b) | _ => vbad end);
  (* pcr.put old v -> old after InsertPCR(old, v) *)
  ("pcr.put", fun a => match a with [VB b; VI v] => vres VB (PcrCodec.insert_pcr b (zN v)) | _ => vbad end);
  (* pcr.rt old v -> (old after InsertPCR, ExtractPCR of it) *)
  ("pcr.rt", fun a => match a with
     | [VB b; VI v] => vres (fun b' => VL [VB b'; vres vn (PcrCodec.extract_pcr b')]) (PcrCodec.insert_pcr b (zN v))
     | _ => vbad end)
].
