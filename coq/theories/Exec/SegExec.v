(* Executor ops for C19 (same names in goexec/seg.go).
   A descriptor on the wire: [id ty event haspts ptsv segnum segexp hassub subnum subexp vss]
   with vss = [] (no VSS signal id) or [k]. *)
From Gots Require Import Base.Prelude Base.NRange Exec.ExecBase Model.SegDesc.
Import SegDesc.

Definition zb (z : Z) : bool := negb (Z.eqb z 0).
(* the VSS signal id on the wire: k < 900000 stands for the ADI UPID text "BLACKOUT:<k>" (id = the text after the prefix,
   distinct per k); 900000 + j for the unusual texts of goexec/seg.go vssText: "BLACKOUT" (id "BLACKOUT"),
   "SIGNAL:BLACKOUT", "BLACKOUT:" (id ""), "xBLACKOUT:7" - ids of their own -, "BLACKOUT:BLACKOUT" (TrimPrefix gives
   "BLACKOUT": the SAME id as 900000), and two texts without "BLACKOUT" (no signal id: ErrVSSSignalIdNotFound),
   as strings.Contains / strings.TrimPrefix of StreamSwitchSignalId give them (Printers.stream_switch_signal_id). *)
Definition vss_code (s : N) : option N :=
  if s =? 900004 then Some 900000
  else if (s =? 900005) || (s =? 900006) then None
  else Some s.
Definition desc_of_val (v : val) : option desc :=
  match v with
  | VL [VI i; VI t; VI e; VI hp; VI p; VI sn; VI se; VI hs; VI bn; VI be; VL k] =>
    match k with
    | [] => Some (mk (zN i) (zN t) (zN e) (zb hp) (zN p) (zN sn) (zN se) (zb hs) (zN bn) (zN be) None)
    | [VI s] => Some (mk (zN i) (zN t) (zN e) (zb hp) (zN p) (zN sn) (zN se) (zb hs) (zN bn) (zN be) (vss_code (zN s)))
    | _ => None
    end
  | _ => None
  end.
Fixpoint descs_of_vals (l : list val) : option (list desc) :=
  match l with
  | [] => Some []
  | v :: t => match desc_of_val v, descs_of_vals t with Some d, Some r => Some (d :: r) | _, _ => None end
  end.





(* the 24 condition combinations of one (incoming type, open type) cell, as bits of one number:
   bit index = ((ee*2 + pe)*2 + se)*3 + sub   with ee/pe/se = 1 when the event ids / pts values /
   (segnum, segexp) are equal, sub = 0 no sub-segments, 1 sub-segments with subnum = subexp, 2 with
   subnum <> subexp. *)
Definition cell (tin tout e1 e2 p1 p2 s1 s2 : N) (hpd hpo : bool) : N :=
  fold_left (fun acc k =>
    let sub := k mod 3 in let se := (k / 3) mod 2 in let pe := (k / 6) mod 2 in let ee := (k / 12) mod 2 in
    let d := mk 0 tin e1 hpd p1 (if se =? 1 then s1 else s2) s1 (negb (sub =? 0)) (if sub =? 1 then 7 else 8) 7 None in
    let o := mk 1 tout (if ee =? 1 then e1 else e2) hpo (if pe =? 1 then p1 else p2) s2 (s2 + 1) false 0 0 None in
    if CanClose d o then acc + 2 ^ k else acc) (nrange_from 24 0) 0.

Definition eq_matrix (ds : list desc) : list val :=
  map (fun a => VL (map (fun b => vbool (Equal a b)) ds)) ds.

Open Scope string_scope.
Definition ops : list op := [
  ("seg.row", fun a => match a with
     | [VI tin; VI e1; VI e2; VI p1; VI p2; VI s1; VI s2; VI hpd; VI hpo] =>
       VL (map (fun tout => vn (cell (zN tin) tout (zN e1) (zN e2) (zN p1) (zN p2) (zN s1) (zN s2) (zb hpd) (zb hpo))) types256)
     | _ => vbad end);
  ("seg.inout", fun a => match a with
     | [] => VL (map (fun t => VL [vbool (is_in_ty t); vbool (is_out_ty t)]) types256)
     | _ => vbad end);
  ("seg.eqm", fun a => match descs_of_vals a with
     | Some ds => VL (eq_matrix ds ++ [VI 0%Z])
     | None => vbad end);
  ("seg.close1", fun a => match descs_of_vals a with
     | Some [d; o] => vbool (CanClose d o)
     | _ => vbad end);
  (* the same with "noise" arguments: the real side sets fields outside the abstract record (cancel indicator, duration,
     UPID, components, restriction flags, tier, neighbouring descriptors); the relation does not see them *)
  ("seg.close1n", fun a => match a with
     | [vd; vo; VI _; VI _] =>
       match descs_of_vals [vd; vo] with
       | Some [d; o] => VL [vbool (CanClose d o); vbool (IsIn d); vbool (IsOut d); vbool (IsIn o); vbool (IsOut o)]
       | _ => vbad end
     | _ => vbad end);
  (* descriptors that are not attached to a signal (real side); the relation reads the signal only in the PTS rule, where the
     real code panics and the oracle sets the case aside *)
  ("seg.closedet", fun a => match a with
     | [vd; vo; VI _] =>
       match descs_of_vals [vd; vo] with
       | Some [d; o] => VL [vbool (CanClose d o); vbool (IsIn d); vbool (IsOut d); vbool (IsIn o); vbool (IsOut o)]
       | _ => vbad end
     | _ => vbad end);
  ("seg.eqn", fun a => match a with
     | VL ns :: vs => if Nat.eqb (List.length ns) (List.length vs) then
         match descs_of_vals vs with Some ds => VL (eq_matrix ds) | None => vbad end else vbad
     | _ => vbad end)
].
