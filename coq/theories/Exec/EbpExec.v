(* Executor ops for the EBP model (C12, C05): same names in goexec/ebp.go. *)
From Gots Require Import Base.Prelude Exec.ExecBase Model.Ebp Spec.EbpSpec.
Import Ebp.

Definition vz (z : Z) : val := VI z.
Definition fl_code (f : flavour) : val := match f with Comcast => VI 0%Z | CableLabs => VI 1%Z end.

(* every getter of the object, in a fixed order *)
Definition obs (f : flavour) (e : t) : val :=
  VL [ fl_code f; vn (EBPType e); vbool (IsEmpty e);
       vbool (FragmentFlag e); vbool (SegmentFlag e); vbool (SapFlag e); vbool (GroupingFlag e);
       vbool (TimeFlag e); vbool (ExtensionFlag e);
       vbool (match f with Comcast => DiscontinuityFlag e | CableLabs => ConcealmentFlag e end);
       vbool (match f with Comcast => false | CableLabs => PartitionFlag e end);
       vn (Sap e); vn (ExtensionFlags e); vn (PartitionFlags e); vn (FormatIdentifier e);
       vn (TimeSeconds e); vn (TimeFraction e); vz (EBPTime e);
       VB (Grouping e); VB (ReservedBytes e); vn (StreamSyncSignal e); vn (DataFieldLength e) ].

(* decode, query every getter, re-encode; last field: the input buffer is unchanged (always 1 in the model) *)
Definition read_obs (g : bool) (b : bytes) : val :=
  vres (fun fe : flavour * t =>
          let '(f, e) := fe in
          let '(d, e') := Data f e in
          VL [obs f e; VB d; vn (DataFieldLength e'); VI 1%Z])
       (ReadEncoderBoundaryPoint g b).

Definition vb (v : Z) : bool := negb (Z.eqb v 0).
(* one step of a build script: [opcode arg] *)
Definition build_step (f : flavour) (e : t) (s : val) : option t :=
  match s with
  | VL [VI 0%Z; VI v] => Some (SetFragmentFlag e (vb v))
  | VL [VI 1%Z; VI v] => Some (SetSegmentFlag e (vb v))
  | VL [VI 2%Z; VI v] => Some (SetSapFlag e (vb v))
  | VL [VI 3%Z; VI v] => Some (SetGroupingFlag e (vb v))
  | VL [VI 4%Z; VI v] => Some (SetTimeFlag e (vb v))
  | VL [VI 5%Z; VI v] => Some (SetExtensionFlag e (vb v))
  | VL [VI 6%Z; VI v] => Some (match f with Comcast => SetDiscontinuityFlag e (vb v) | CableLabs => SetConcealmentFlag e (vb v) end)
  | VL [VI 7%Z; VI v] => match f with Comcast => None | CableLabs => Some (SetPartitionFlag e (vb v)) end
  | VL [VI 8%Z; VI v] => Some (SetSap e (w8 (zN v)))
  | VL [VI 9%Z; VI v] => Some (SetEBPTime e v)
  | VL [VI 10%Z; VI v] => Some (SetIsEmpty e (vb v))
  | VL [VI 11%Z; VB g] => Some (set_Grouping e g)
  | VL [VI 12%Z; VB r] => Some (set_ReservedBytes e r)
  | VL [VI 13%Z; VI v] => Some (set_ExtensionFlags e (w8 (zN v)))
  | VL [VI 14%Z; VI v] => match f with Comcast => None | CableLabs => Some (set_PartitionFlags e (w8 (zN v))) end
  | VL [VI 15%Z; VI v] => match f with Comcast => None | CableLabs => Some (set_FormatIdentifier e (w32 (zN v))) end
  | VL [VI 16%Z; VI v] => Some (set_DataFlags e (w8 (zN v)))
  | VL [VI 17%Z; VI v] => Some (set_Time e (w32 (zN v)) (TimeFraction e))
  | VL [VI 18%Z; VI v] => Some (set_Time e (TimeSeconds e) (w32 (zN v)))
  | VL [VI 19%Z; VI v] => Some (set_DataFieldLength e (w8 (zN v)))
  | VL [VI 20%Z; VI v] => Some (set_DataFieldTag e (w8 (zN v)))
  | _ => None
  end.
Fixpoint build_run (f : flavour) (e : t) (script : list val) : option t :=
  match script with
  | [] => Some e
  | s :: r => match build_step f e s with Some e' => build_run f e' r | None => None end
  end.
Definition create (f : flavour) : t := match f with Comcast => CreateComcastEBP | CableLabs => CreateCableLabsEbp end.
(* build through the API, observe, encode, observe again (Data() rewrites DataFieldLength), decode the bytes *)
Definition build_obs (g : bool) (f : flavour) (script : list val) : val :=
  match build_run f (create f) script with
  | None => vbad
  | Some e =>
    let '(d, e') := Data f e in
    VL [obs f e; VB d; obs f e'; read_obs g d]
  end.
(* ---- ONE object observed after every step (goexec/ebp.go ebp.hist): the steps of build_step plus [21 _] = Data();
   reply per step [every getter; x<bytes of Data()> | []].  A getter has no state in Gallina, so reading the time
   between two SetEBPTime calls cannot influence the second read. ---- *)
Fixpoint hist_run (f : flavour) (e : t) (script : list val) : option (list val) :=
  match script with
  | [] => Some []
  | VL [VI 21%Z; _] :: r =>
    let '(d, e') := Data f e in
    match hist_run f e' r with Some l => Some (VL [obs f e'; VB d] :: l) | None => None end
  | s :: r =>
    match build_step f e s with
    | Some e' => match hist_run f e' r with Some l => Some (VL [obs f e'; VL []] :: l) | None => None end
    | None => None
    end
  end.
Definition hist_obs (f : flavour) (e : t) (script : list val) : val :=
  match hist_run f e script with Some l => VL (obs f e :: l) | None => vbad end.
Definition flavour_of (z : Z) : option flavour :=
  if Z.eqb z 0 then Some Comcast else if Z.eqb z 1 then Some CableLabs else None.

(* ---- logical values on the wire (for the generator: the Coq serialiser defines "well-formed") ---- *)
Import EbpSpec.
Definition dopt (v : val) : option (option N) :=
  match v with VL [] => Some None | VL [VI x] => Some (Some (zN x)) | _ => None end.
Definition dtime (v : val) : option (option (N * N)) :=
  match v with VL [] => Some None | VL [VI s; VI f] => Some (Some (zN s, zN f)) | _ => None end.
Definition dext (v : val) : option (option (N * option N)) :=
  match v with
  | VL [] => Some None
  | VL [VI lo; p] => match dopt p with Some p' => Some (Some (zN lo, p')) | None => None end
  | _ => None
  end.
Fixpoint dints (l : list val) : option (list N) :=
  match l with
  | [] => Some []
  | VI x :: r => match dints r with Some r' => Some (zN x :: r') | None => None end
  | _ => None
  end.
Definition dgroups (v : val) : option (option (N * list N)) :=
  match v with
  | VL [] => Some None
  | VL l => match dints l with Some (x :: r) => Some (Some (x, r)) | _ => None end
  | _ => None
  end.
Definition dcomcast (a : list val) : option comcast :=
  match a with
  | [VI fr; VI sg; VI di; VI rs; ex; sp; gr; tm; VB tail] =>
    match dopt ex, dopt sp, dopt gr, dtime tm with
    | Some ex, Some sp, Some gr, Some tm => Some (mkC (vb fr) (vb sg) (vb di) (vb rs) ex sp gr tm tail)
    | _, _, _, _ => None
    end
  | _ => None
  end.
Definition dcablelabs (a : list val) : option cablelabs :=
  match a with
  | [VI fr; VI sg; VI co; VI rs; VI fmt; ex; sp; gr; tm; VB tail] =>
    match dext ex, dopt sp, dgroups gr, dtime tm with
    | Some ex, Some sp, Some gr, Some tm => Some (mkL (vb fr) (vb sg) (vb co) (vb rs) (zN fmt) ex sp gr tm tail)
    | _, _, _, _ => None
    end
  | _ => None
  end.

Open Scope string_scope.
Definition ops : list op := [
  ("ebp.read", fun a => match a with [VB b] => read_obs false b | _ => vbad end);
  (* the readers with notes/findings/C05-ebp.patch applied (goexec runs the same real function) *)
  ("ebp.readg", fun a => match a with [VB b] => read_obs true b | _ => vbad end);
  ("ebp.build", fun a => match a with
     | [VI f; VL script] => match flavour_of f with Some f => build_obs false f script | None => vbad end
     | _ => vbad end);
  ("ebp.buildg", fun a => match a with
     | [VI f; VL script] => match flavour_of f with Some f => build_obs true f script | None => vbad end
     | _ => vbad end);
  (* start = [flavour] (created through the API) or [x<bytes>] (decoded, unpatched reader) *)
  ("ebp.hist", fun a => match a with
     | [VL [VI f]; VL script] => match flavour_of f with Some f => hist_obs f (create f) script | None => vbad end
     | [VL [VB b]; VL script] =>
       match ReadEncoderBoundaryPoint true b with
       | Ok (f, e) => VL [VI 0%Z; hist_obs f e script]
       | r => vres (fun _ => VL []) r
       end
     | _ => vbad end);
  (* SetEBPTime then EBPTime on a fresh EBP of the flavour: [seconds fraction time] *)
  ("ebp.time", fun a => match a with
     | [VI f; VI tm] => match flavour_of f with
         | Some f => let e := SetEBPTime (create f) tm in VL [vn (TimeSeconds e); vn (TimeFraction e); vz (EBPTime e)]
         | None => vbad end
     | _ => vbad end);
  (* EBPTime of an EBP whose TimeSeconds / TimeFraction fields are given *)
  ("ebp.ntp", fun a => match a with
     | [VI s; VI f] => vz (extractUtcTime (w32 (zN s)) (w32 (zN f)))
     | _ => vbad end);
  (* Spec serialisers: [well-formed? bytes] *)
  ("ser.ebp.comcast", fun a => match dcomcast a with
     | Some c => VL [vbool (wf_comcastb c); VB (ser_comcast c)] | None => vbad end);
  ("ser.ebp.cablelabs", fun a => match dcablelabs a with
     | Some c => VL [vbool (wf_cablelabsb c); VB (ser_cablelabs c)] | None => vbad end)
].
