(* executor ops for C07 (PAT) and the PAT/psi part of C05 *)
From Gots Require Import Base.Prelude Exec.ExecBase Model.Pat Spec.PatSpec.

(* map observation: sorted by key (keys are unique) *)
Fixpoint ins_sorted (kv : N * N) (l : list (N * N)) : list (N * N) :=
  match l with
  | [] => [kv]
  | x :: t => if fst kv <=? fst x then kv :: l else x :: ins_sorted kv t
  end.
Definition sort_map (m : list (N * N)) : list (N * N) := fold_right ins_sorted [] m.
Definition vmap (m : list (N * N)) : val := VL (map (fun kv => VL [vn (fst kv); vn (snd kv)]) (sort_map m)).

(* everything C07 observes of a PAT object; the trailing 1 = "input bytes unchanged" *)
Definition pat_view (p : bytes) : val :=
  VL [vres VI (Pat.num_programs p); vres vmap (Pat.program_map p); vres vn (Pat.spts_pmt_pid p); VI 1%Z].

Fixpoint packets_of (l : list val) : option (list bytes) :=
  match l with
  | [] => Some []
  | VB b :: rest => match packets_of rest with Some r => Some (b :: r) | None => None end
  | _ => None
  end.
Fixpoint entries_of (l : list val) : option (list PatSpec.entry) :=
  match l with
  | [] => Some []
  | VL [VI p; VI x; VI r] :: rest =>
      match entries_of rest with Some t => Some (PatSpec.mkE (zN p) (zN x) (zN r) :: t) | None => None end
  | _ => None
  end.
Definition tail_err (t : Z) : N :=
  if (t =? 0)%Z then E.EOF else if (t =? 1)%Z then E.UnexpectedEOF else E.Other.

(* ---- the Spec-side oracle: what `pat.new` / `pat.read` / `pat.ispmt` must answer on a carrier of the logical
        entry list, computed by Spec/PatSpec.v alone (no model function; the map is printed as spec_map gives it,
        without re-sorting) ---- *)
Definition spec_vmap (m : list (N * N)) : val := VL (map (fun kv => VL [vn (fst kv); vn (snd kv)]) m).
Definition spec_view (es : list PatSpec.entry) : val :=
  VL [VI 0%Z; VL [VL [VI 0%Z; vn (PatSpec.spec_num es)]; VL [VI 0%Z; spec_vmap (PatSpec.spec_map es)];
                  match PatSpec.spts es with Some x => VL [VI 0%Z; vn x] | None => VL [VI 1%Z; vn E.Other] end;
                  VI 1%Z]].

Open Scope string_scope.
Definition ops : list op := [
  ("spec.pat", fun a => match a with
     | [VL es] => match entries_of es with Some e => spec_view e | None => vbad end
     | _ => vbad end);
  ("spec.pat.ispmt", fun a => match a with
     | [VL es; VI x] => match entries_of es with
                        | Some e => VL [VI 0%Z; vbool (PatSpec.spec_is_pmt e (zN x))]
                        | None => vbad end
     | _ => vbad end);
  ("pat.new", fun a => match a with [VB b] => vres pat_view (Pat.new_pat b) | _ => vbad end);
  (* packets, how the stream ends (0 clean EOF, 1 partial packet, 2 reader error), read fragment size (harness only) *)
  ("pat.read", fun a => match a with
     | [VL l; VI t; VI _] =>
         match packets_of l with
         | Some ps => vres pat_view (Pat.read_pat (map Pat.RFull ps ++ [Pat.RFail (tail_err t)]))
         | None => vbad end
     | _ => vbad end);
  ("pat.ispmt", fun a => match a with
     | [VB pkt; VL []] => vres vbool (Pat.is_pmt pkt None)
     | [VB pkt; VL [VB b]] => vres vbool (let? p := Pat.new_pat b in Pat.is_pmt pkt (Some p))
     | _ => vbad end);
  ("pat.psi", fun a => match a with
     | [VB b] => VL [vres vn (Pat.PatPsi.pointer_field b); vres vn (Pat.PatPsi.table_id b);
                     vres vbool (Pat.PatPsi.section_syntax_indicator b); vres vbool (Pat.PatPsi.private_indicator b);
                     vres vn (Pat.PatPsi.section_length b)]
     | _ => vbad end);
  ("pat.pkt", fun a => match a with
     | [VB p] => VL [vres vn (Pat.PatPkt.pid p); vres VB (Pat.PatPkt.payload p)]
     | _ => vbad end);
  (* Spec serialisers for the generator *)
  ("pat.ser.payload", fun a => match a with
     | [VI f; VB h; VL es; VB c; VB rest] =>
         match entries_of es with
         | Some e => VB (PatSpec.ser_payload (PatSpec.mkS (zN f) h e c) rest)
         | None => vbad end
     | _ => vbad end);
  (* pointer_field k, the k bytes before the section, then as pat.ser.payload *)
  ("pat.ser.payload_pf", fun a => match a with
     | [VI k; VB filler; VI f; VB h; VL es; VB c; VB rest] =>
         match entries_of es with
         | Some e => VB (PatSpec.ser_payload_pf (zN k) filler (PatSpec.mkS (zN f) h e c) rest)
         | None => vbad end
     | _ => vbad end);
  ("pat.ser.packet", fun a => match a with
     | [VI b; VI p; VI t; VI c; VL []; VB pay] => VB (PatSpec.ser_packet (PatSpec.mkH (zN b) (zN p) (zN t) (zN c)) None pay)
     | [VI b; VI p; VI t; VI c; VL [VB af]; VB pay] =>
         VB (PatSpec.ser_packet (PatSpec.mkH (zN b) (zN p) (zN t) (zN c)) (Some af) pay)
     | _ => vbad end)
].
