From Gots Require Import Base.Prelude Exec.ExecBase.
From Gots Require Exec.PtsExec.
Definition all_ops : list op := PtsExec.ops.
Definition run (name : string) (args : list val) : val :=
  match lookup name all_ops with Some f => f args | None => VL [VI 8%Z] end.
