From Gots Require Import Base.Prelude Exec.ExecBase Model.Crc Spec.Crc32.
Open Scope string_scope.
Definition ops : list op := [
  (* crc b -> the four bytes returned by ComputeCRC *)
  ("crc", fun a => match a with [VB b] => VB (Crc.compute_crc b) | _ => vbad end);
  (* crc.spec b -> big-endian bytes of the textbook register (oracle side) *)
  ("crc.spec", fun a => match a with [VB b] => VB (to_be32 (Crc32.crc b)) | _ => vbad end);
  (* crc.tab b -> big-endian bytes of the table-driven formulation of the specification *)
  ("crc.tab", fun a => match a with [VB b] => VB (to_be32 (Crc32.crc_tab b)) | _ => vbad end);
  (* crc.singles L -> the CRCs (4 bytes each, concatenated) of all 8L single-bit strings of L bytes, bit positions ascending;
     modelexec answers from Crc32.singles_fast (linear time; Proofs/CrcLinear.v), goexec calls ComputeCRC 8L times *)
  ("crc.singles", fun a => match a with
     | [VI l] => VB (flat_map to_be32 (Crc32.singles_fast (N.to_nat (zN l)))) | _ => vbad end);
  (* crc.residue b -> the four bytes of ComputeCRC(b ++ ComputeCRC(b)) : must be zero *)
  ("crc.residue", fun a => match a with [VB b] => VB (Crc.compute_crc (app b (Crc.compute_crc b))) | _ => vbad end)
].
